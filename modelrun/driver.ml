(* modelrun: runs the extracted Coq model on the same case files as the Rust harness (pvh) and prints the same
   canonical observations.  Hand-written glue: conversions between OCaml values and the extracted Coq datatypes,
   case-file parsing and printing.  No model logic lives here. *)
open Model

(* ---- conversions ---- *)
let rec pos_of_int (i : int) : positive =
  if i = 1 then XH else if i land 1 = 0 then XO (pos_of_int (i lsr 1)) else XI (pos_of_int (i lsr 1))
let n_of_int (i : int) : n = if i = 0 then N0 else Npos (pos_of_int i)
let rec int_of_pos (p : positive) : int =
  match p with XH -> 1 | XO q -> 2 * int_of_pos q | XI q -> 2 * int_of_pos q + 1
let int_of_n (x : n) : int = match x with N0 -> 0 | Npos p -> int_of_pos p
let rec nat_of_int (i : int) : nat = if i <= 0 then O else S (nat_of_int (i - 1))
let int_of_nat (x : nat) : int = let rec go a x = match x with O -> a | S y -> go (a + 1) y in go 0 x

(* Byte.byte is an enumeration of 256 constant constructors in order x00..xff: constant constructors are
   represented as consecutive immediate integers, so the conversion is a cast; checked at start-up against the
   extracted Byte.to_N. *)
let byte_of_int (i : int) : byte = (Obj.magic (i land 255) : byte)
let int_of_byte (b : byte) : int = (Obj.magic b : int)

let self_check () =
  for i = 0 to 255 do
    if int_of_n (api_b2n (byte_of_int i)) <> i then (prerr_endline "byte cast self-check failed"; exit 2)
  done

let bytes_of_hex (s : Stdlib.String.t) : byte list =
  if s = "-" then [] else begin
    let n = Stdlib.String.length s / 2 in
    let rec go i acc = if i < 0 then acc else
        go (i - 1) (byte_of_int (int_of_string ("0x" ^ Stdlib.String.sub s (2 * i) 2)) :: acc) in
    go (n - 1) []
  end

let hex_of_bytes (l : byte list) : Stdlib.String.t =
  let b = Buffer.create 64 in
  Stdlib.List.iter (fun x -> Buffer.add_string b (Printf.sprintf "%02x" (int_of_byte x))) l;
  Buffer.contents b

let ints_of_hex (s : Stdlib.String.t) : int list = Stdlib.List.map int_of_byte (bytes_of_hex s)

let coq_string_of (s : Stdlib.String.t) : Model.string =
  let rec go i acc = if i < 0 then acc else
      let c = Char.code s.[i] in
      let b k = (c lsr k) land 1 = 1 in
      go (i - 1) (String (Ascii (b 0, b 1, b 2, b 3, b 4, b 5, b 6, b 7), acc)) in
  go (Stdlib.String.length s - 1) EmptyString

let ocaml_string_of (s : Model.string) : Stdlib.String.t =
  let b = Buffer.create 16 in
  let rec go s = match s with
    | EmptyString -> ()
    | String (Ascii (b0, b1, b2, b3, b4, b5, b6, b7), r) ->
      let v k x = if x then 1 lsl k else 0 in
      Buffer.add_char b (Char.chr (v 0 b0 + v 1 b1 + v 2 b2 + v 3 b3 + v 4 b4 + v 5 b5 + v 6 b6 + v 7 b7));
      go r in
  go s; Buffer.contents b

let version_of (a : int) (b : int) (c : int) = ((n_of_int a, n_of_int b), n_of_int c)

let split_ws (s : Stdlib.String.t) : Stdlib.String.t list =
  Stdlib.List.filter (fun x -> x <> "") (Stdlib.String.split_on_char ' ' s)

(* ---- modes ---- *)

let m_ver (f : Stdlib.String.t list) : Stdlib.String.t =
  let i k = int_of_string (Stdlib.List.nth f k) in
  match Stdlib.List.hd f with
  | "gte" ->
    let v = version_of (i 1) (i 2) (i 3) in
    let g = api_gte v (n_of_int (i 4)) (n_of_int (i 5)) in
    let l = api_lt v (n_of_int (i 4)) (n_of_int (i 5)) in
    Printf.sprintf "gte=%d lt=%d\n" (if g then 1 else 0) (if l then 1 else 0)
  | "parse" | "pparse" ->
    let s = Stdlib.List.map n_of_int (ints_of_hex (Stdlib.List.nth f 1)) in
    (match api_ver_parse s with
     | Some ((a, b), c) -> Printf.sprintf "OK %d %d %d\n" (int_of_n a) (int_of_n b) (int_of_n c)
     | None -> "ERR\n")
  | "show" | "pshow" ->
    let v = version_of (i 1) (i 2) (i 3) in
    let s = api_ver_show v in
    let b = Buffer.create 16 in
    Stdlib.List.iter (fun c -> Buffer.add_string b (Printf.sprintf "%02x" (int_of_n c))) s;
    Buffer.contents b ^ "\n"
  | _ -> failwith "bad ver submode"

(* gtesweep: same run-length output as pvh *)
let m_gtesweep (f : Stdlib.String.t list) : Stdlib.String.t =
  let i k = int_of_string (Stdlib.List.nth f k) in
  let out = Buffer.create 1024 in
  for a = i 0 to i 1 do
    for b = i 2 to i 3 do
      let v = version_of a b 0 in
      let runs = ref [] in
      let neg = ref true in
      for mm = 0 to 255 do
        for m = 0 to 255 do
          let g = api_gte v (n_of_int mm) (n_of_int m) in
          if api_lt v (n_of_int mm) (n_of_int m) = g then neg := false;
          (match !runs with
           | (x, c) :: r when x = g -> runs := (x, c + 1) :: r
           | _ -> runs := (g, 1) :: !runs)
        done
      done;
      let rl = Stdlib.List.rev_map (fun (g, c) -> Printf.sprintf "%dx%d" (if g then 1 else 0) c) !runs in
      Buffer.add_string out (Printf.sprintf "v=%d.%d runs=%s neg=%d\n" a b (Stdlib.String.concat ";" rl) (if !neg then 1 else 0))
    done
  done;
  Buffer.contents out

(* maxver: the model's prediction of both writers' outcome on version grounds *)
let max_line (a : int) (b : int) (c : int) : Stdlib.String.t =
  let ok = api_max_ok (version_of a b c) in
  let r = if ok then "OK" else "ERR" in
  Printf.sprintf "slp=%s slpp.n=%s slpp.l=%s slpp.z=%s" r r r r

let m_maxver (f : Stdlib.String.t list) : Stdlib.String.t =
  let out = Buffer.create 256 in
  Stdlib.List.iter (fun t ->
      match Stdlib.List.map int_of_string (Stdlib.String.split_on_char '.' t) with
      | [a; b; c] -> Buffer.add_string out (Printf.sprintf "%s %s\n" t (max_line a b c))
      | _ -> failwith "bad triple")
    (Stdlib.String.split_on_char ',' (Stdlib.List.nth f 2));
  Buffer.contents out

let m_maxsweep (f : Stdlib.String.t list) : Stdlib.String.t =
  let i k = int_of_string (Stdlib.List.nth f k) in
  let with_slpp = Stdlib.List.nth f 4 = "1" in
  let runs = ref [] in
  for a = i 2 to i 3 do
    for b = 0 to 255 do
      for c = 0 to 255 do
        let r = if with_slpp then max_line a b c
          else if api_max_ok (version_of a b c) then "slp=OK" else "slp=ERR" in
        (match !runs with
         | (x, n, fst) :: rest when x = r -> runs := (x, n + 1, fst) :: rest
         | _ -> runs := (r, 1, Printf.sprintf "%d.%d.%d" a b c) :: !runs)
      done
    done
  done;
  let out = Buffer.create 256 in
  Stdlib.List.iter (fun (r, n, fst) -> Buffer.add_string out (Printf.sprintf "run from=%s n=%d %s\n" fst n r)) (Stdlib.List.rev !runs);
  Buffer.contents out

let dispatch (mode : Stdlib.String.t) (f : Stdlib.String.t list) : Stdlib.String.t =
  match mode with
  | "ver" -> m_ver f
  | "gtesweep" -> m_gtesweep f
  | "maxver" -> m_maxver f
  | "maxsweep" -> m_maxsweep f
  | _ -> Modes.dispatch mode f

let () =
  self_check ();
  let mode = Sys.argv.(1) in
  let ic = open_in Sys.argv.(2) in
  (try
     while true do
       let line = Stdlib.String.trim (input_line ic) in
       if line <> "" && line.[0] <> '#' then begin
         match split_ws line with
         | id :: fields ->
           print_string ("== " ^ id ^ "\n");
           let s = (try dispatch mode fields with
               | Stack_overflow -> "MODEL-STACK-OVERFLOW\n"
               | Failure m -> "MODEL-FAILURE " ^ m ^ "\n") in
           print_string s; flush stdout
         | [] -> ()
       end
     done
   with End_of_file -> ());
  print_string "== END\n"
