(* model modes that need the reader / writer model: printing only, no model logic *)
open Model

let rec pos_of_int (i : int) : positive =
  if i = 1 then XH else if i land 1 = 0 then XO (pos_of_int (i lsr 1)) else XI (pos_of_int (i lsr 1))
let n_of_int (i : int) : n = if i = 0 then N0 else Npos (pos_of_int i)
let rec int_of_pos (p : positive) : int =
  match p with XH -> 1 | XO q -> 2 * int_of_pos q | XI q -> 2 * int_of_pos q + 1
let int_of_n (x : n) : int = match x with N0 -> 0 | Npos p -> int_of_pos p
let int_of_z (x : z) : int = match x with Z0 -> 0 | Zpos p -> int_of_pos p | Zneg p -> - (int_of_pos p)
let rec nat_of_int (i : int) : nat = if i <= 0 then O else S (nat_of_int (i - 1))
let int_of_nat (x : nat) : int = let rec go a x = match x with O -> a | S y -> go (a + 1) y in go 0 x
let byte_of_int (i : int) : byte = (Obj.magic (i land 255) : byte)
let int_of_byte (b : byte) : int = (Obj.magic b : int)

let bytes_of_hex (s : Stdlib.String.t) : byte list =
  if s = "-" then [] else begin
    let n = Stdlib.String.length s / 2 in
    let rec go i acc = if i < 0 then acc else
        go (i - 1) (byte_of_int (int_of_string ("0x" ^ Stdlib.String.sub s (2 * i) 2)) :: acc) in
    go (n - 1) []
  end

let hex_of_bytes (l : byte list) : Stdlib.String.t =
  let b = Buffer.create 64 in
  Stdlib.List.iter (fun x -> Buffer.add_string b (Printf.sprintf "%02x" (int_of_byte x))) l;
  Buffer.contents b

let str_of_bytes (l : byte list) : Stdlib.String.t =
  let b = Buffer.create 64 in
  Stdlib.List.iter (fun x -> Buffer.add_char b (Char.chr (int_of_byte x))) l;
  Buffer.contents b

let coq_string_of (s : Stdlib.String.t) : Model.string =
  let rec go i acc = if i < 0 then acc else
      let c = Char.code s.[i] in
      let b k = (c lsr k) land 1 = 1 in
      go (i - 1) (String (Ascii (b 0, b 1, b 2, b 3, b 4, b 5, b 6, b 7), acc)) in
  go (Stdlib.String.length s - 1) EmptyString

let ocaml_string_of (s : Model.string) : Stdlib.String.t =
  let b = Buffer.create 16 in
  let rec go s = match s with
    | EmptyString -> ()
    | String (Ascii (b0, b1, b2, b3, b4, b5, b6, b7), r) ->
      let v k x = if x then 1 lsl k else 0 in
      Buffer.add_char b (Char.chr (v 0 b0 + v 1 b1 + v 2 b2 + v 3 b3 + v 4 b4 + v 5 b5 + v 6 b6 + v 7 b7));
      go r in
  go s; Buffer.contents b

let join (sep : Stdlib.String.t) (l : Stdlib.String.t list) = Stdlib.String.concat sep l

let bitmap_s (v : bool list option) : Stdlib.String.t =
  match v with
  | None -> "none"
  | Some b when Stdlib.List.for_all (fun x -> x) b -> "none"
  | Some b -> "[" ^ join "" (Stdlib.List.map (fun x -> if x then "1" else "0") b) ^ "]"

let print_rows (out : Buffer.t) (label : Stdlib.String.t) (v : version) (e : Stdlib.String.t) (rows : byte list list) =
  let ls = api_leaves v (coq_string_of e) in
  let names = Stdlib.List.map ocaml_string_of (api_col_names ls) in
  Buffer.add_string out (Printf.sprintf "%s.cols=%s\n" label (join "," names));
  if names = [] then Buffer.add_string out (Printf.sprintf "%s.rows=0\n" label)
  else begin
    Buffer.add_string out (Printf.sprintf "%s.rows=%d\n" label (Stdlib.List.length rows));
    Stdlib.List.iteri (fun i r ->
        let vals = Stdlib.List.map (fun x -> string_of_int (int_of_n x)) (api_row_vals ls r) in
        Buffer.add_string out (Printf.sprintf "%s[%d]=%s\n" label i (join "," vals))) rows
  end

let dump_cdata out label v (d : cdata) =
  Buffer.add_string out (Printf.sprintf "%s.validity=%s\n" label (bitmap_s d.c_valid));
  print_rows out (label ^ ".pre") v "Pre" d.c_pre;
  print_rows out (label ^ ".post") v "Post" d.c_post

(* printing only: regroup the flat character slots as ports (leader, optional follower) *)
let rec group_slots (cs : slot list) : (int * cdata * cdata option) list =
  match cs with
  | [] -> []
  | c :: (c2 :: r2 as r) ->
    if c2.sl_fol && int_of_n c2.sl_port = int_of_n c.sl_port then (int_of_n c.sl_port, c.sl_data, Some c2.sl_data) :: group_slots r2
    else (int_of_n c.sl_port, c.sl_data, None) :: group_slots r
  | [c] -> [(int_of_n c.sl_port, c.sl_data, None)]

let dump_frames (out : Buffer.t) (v : version) (f : frames) =
  Buffer.add_string out (Printf.sprintf "frames.len=%d\n" (Stdlib.List.length f.f_ids));
  Buffer.add_string out (Printf.sprintf "ids=%s\n" (join "," (Stdlib.List.map (fun x -> string_of_int (int_of_z x)) f.f_ids)));
  let groups = group_slots f.f_chars in
  Buffer.add_string out (Printf.sprintf "nports=%d\n" (Stdlib.List.length groups));
  Stdlib.List.iteri (fun k (port, leader, follower) ->
      Buffer.add_string out (Printf.sprintf "port[%d].port=%d\n" k port);
      dump_cdata out (Printf.sprintf "port[%d].leader" k) v leader;
      (match follower with
       | None -> Buffer.add_string out (Printf.sprintf "port[%d].follower=none\n" k)
       | Some d -> dump_cdata out (Printf.sprintf "port[%d].follower" k) v d)) groups;
  (match f.f_start with
   | None -> Buffer.add_string out "fstart=none\n"
   | Some rows -> print_rows out "fstart" v "Start" rows);
  (match f.f_end with
   | None -> Buffer.add_string out "fend=none\n"
   | Some rows ->
     print_rows out "fend" v "End" rows;
     Buffer.add_string out "fend.validity=none\n");
  (match f.f_item_off with
   | None -> Buffer.add_string out "item_offset=none\n"
   | Some o -> Buffer.add_string out (Printf.sprintf "item_offset=%s\n" (join "," (Stdlib.List.map (fun x -> string_of_int (int_of_z x)) o))));
  (match f.f_item with
   | None -> Buffer.add_string out "item=none\n"
   | Some rows -> print_rows out "item" v "Item" rows)

let dump_start_end out (s : start_t) (e : end_t option) =
  Buffer.add_string out (Printf.sprintf "start.bytes=%s\n" (hex_of_bytes s.st_bytes));
  Buffer.add_string out (Printf.sprintf "start.json=%s\n" (str_of_bytes (api_cjson_start s)));
  (match e with
   | None -> Buffer.add_string out "end=none\n"
   | Some e ->
     Buffer.add_string out (Printf.sprintf "end.bytes=%s\n" (hex_of_bytes e.en_bytes));
     Buffer.add_string out (Printf.sprintf "end.json=%s\n" (str_of_bytes (api_cjson_end e))))

let dump_meta out (m : utree option) (g : gecko_t option) =
  (match m with
   | None -> Buffer.add_string out "metadata=none\n"
   | Some m -> Buffer.add_string out (Printf.sprintf "metadata=%s\n" (str_of_bytes (api_cjson_meta m))));
  (match g with
   | None -> Buffer.add_string out "gecko=none\n"
   | Some g -> Buffer.add_string out (Printf.sprintf "gecko=%d:%s\n" (int_of_n g.gk_actual) (hex_of_bytes g.gk_bytes)))

let dump_game (out : Buffer.t) (g : game) =
  dump_start_end out g.g_start g.g_end;
  dump_meta out g.g_meta g.g_gecko;
  (match g.g_hashed with
   | None -> Buffer.add_string out "hash=none\n"
   | Some n -> Buffer.add_string out (Printf.sprintf "hash=H(%d)\n" (int_of_nat n)));
  (match g.g_quirk with
   | None -> Buffer.add_string out "quirks=none\n"
   | Some q -> Buffer.add_string out (Printf.sprintf "quirks=%d\n" (if q then 1 else 0)));
  dump_frames out (api_game_version g) g.g_frames

let outcome_head (o : 'a outcome) : Stdlib.String.t =
  match o with
  | Ok _ -> "OK"
  | Err EUnknown -> "UNMODELLED"
  | Err _ -> "ERR"
  | Panic p -> Printf.sprintf "PANIC site=%d" (int_of_n p)
  | Fuel -> "FUEL"

(* read: <hex> <opts> [chunks] [fail] -- the flat model ignores fragmentation (Frag.v proves independence) *)
let m_read (f : Stdlib.String.t list) : Stdlib.String.t =
  let data = bytes_of_hex (Stdlib.List.nth f 0) in
  let o = Stdlib.List.nth f 1 in
  let skip = Stdlib.String.contains o 's' and hash = Stdlib.String.contains o 'h' in
  let out = Buffer.create 4096 in
  let total = Stdlib.List.length data in
  (match api_read skip hash data with
   | Ok (g, rest) ->
     Buffer.add_string out "OK\n";
     Buffer.add_string out (Printf.sprintf "consumed=%d/%d\n" (total - Stdlib.List.length rest) total);
     dump_game out g
   | r -> Buffer.add_string out (outcome_head r ^ "\n"));
  Buffer.contents out

(* rt: <hex> <opts>: read -> write -> read -> write, the same lines as pvh *)
let m_rt (f : Stdlib.String.t list) : Stdlib.String.t =
  let data = bytes_of_hex (Stdlib.List.nth f 0) in
  let o = Stdlib.List.nth f 1 in
  let skip = Stdlib.String.contains o 's' and hash = Stdlib.String.contains o 'h' in
  let out = Buffer.create 4096 in
  (match api_read skip hash data with
   | Ok (g, _) ->
     Buffer.add_string out "OK\n";
     (match api_write g with
      | Ok w1 ->
        Buffer.add_string out (Printf.sprintf "write1=%s\n" (hex_of_bytes w1));
        Buffer.add_string out (Printf.sprintf "identical=%d\n" (if w1 = data then 1 else 0));
        (match api_read skip hash w1 with
         | Ok (g2, _) ->
           let d1 = Buffer.create 1024 and d2 = Buffer.create 1024 in
           dump_game d1 g; dump_game d2 g2;
           Buffer.add_string out "read2=OK\n";
           Buffer.add_string out (Printf.sprintf "same_game=%d\n" (if Buffer.contents d1 = Buffer.contents d2 then 1 else 0));
           (match api_write g2 with
            | Ok w2 -> Buffer.add_string out (Printf.sprintf "write2_eq=%d\n" (if w2 = w1 then 1 else 0))
            | r -> Buffer.add_string out (Printf.sprintf "write2=%s\n" (outcome_head r)))
         | r -> Buffer.add_string out (Printf.sprintf "read2=%s\n" (outcome_head r)))
      | r -> Buffer.add_string out (Printf.sprintf "write1=%s\n" (outcome_head r)))
   | r -> Buffer.add_string out (outcome_head r ^ "\n"));
  Buffer.contents out

(* abstract replay from case fields: <start> <gecko> <end> <meta> <frames> *)
let z_of_int (i : int) : z = if i = 0 then Z0 else if i > 0 then Zpos (pos_of_int i) else Zneg (pos_of_int (- i))

let split_on (c : char) (s : Stdlib.String.t) : Stdlib.String.t list =
  if s = "-" || s = "" then [] else Stdlib.String.split_on_char c s

let replay_of_fields (f : Stdlib.String.t list) : replay =
  let nth k = Stdlib.List.nth f k in
  let start = bytes_of_hex (nth 0) in
  let gecko = (match nth 1 with
      | "-" -> None
      | g -> (match Stdlib.String.split_on_char ':' g with
          | [a; h] -> Some (api_mk_gecko (bytes_of_hex h) (n_of_int (int_of_string a)))
          | _ -> failwith "bad gecko")) in
  let en = (match nth 2 with
      | "-" -> NoEnd
      | e -> (match Stdlib.String.split_on_char ':' e with
          | ["s"; h] -> OneEnd (bytes_of_hex h)
          | ["d"; h] -> TwoEnds (bytes_of_hex h)
          | _ -> failwith "bad end")) in
  let meta = (match nth 3 with
      | "-" -> None
      | h -> (match api_read_map (bytes_of_hex h) with
          | Ok (t, _) -> Some t
          | _ -> failwith "bad metadata")) in
  let frames = Stdlib.List.map (fun fs ->
      match Stdlib.String.split_on_char '/' fs with
      | [id; st; en; chars; items] ->
        let cs = Stdlib.List.map (fun c ->
            if c = "-" then None else
              match Stdlib.String.split_on_char '.' c with
              | [pre; post] -> Some (bytes_of_hex pre, bytes_of_hex post)
              | _ -> failwith "bad slot") (if chars = "" then [] else Stdlib.String.split_on_char ',' chars) in
        let its = Stdlib.List.map bytes_of_hex (split_on ',' items) in
        api_mk_frame (z_of_int (int_of_string id)) (bytes_of_hex st) cs its (bytes_of_hex en)
      | _ -> failwith "bad frame") (split_on ';' (nth 4)) in
  api_mk_replay start gecko frames en meta

(* emit: <start> <gecko> <end> <meta> <frames> <opts>: bytes the recorder model writes, wf, and the game it denotes *)
let m_emit (f : Stdlib.String.t list) : Stdlib.String.t =
  let r = replay_of_fields f in
  let o = Stdlib.List.nth f 5 in
  let skip = Stdlib.String.contains o 's' and hash = Stdlib.String.contains o 'h' in
  let out = Buffer.create 4096 in
  let b = api_emit r in
  Buffer.add_string out (Printf.sprintf "emit=%s\n" (hex_of_bytes b));
  Buffer.add_string out (Printf.sprintf "wf=%d\n" (if api_wf r then 1 else 0));
  (match api_game_of skip hash r with
   | Some g ->
     let n = Stdlib.List.length b in
     Buffer.add_string out "OK\n";
     Buffer.add_string out (Printf.sprintf "consumed=%d/%d\n" n n);
     dump_game out g
   | None -> Buffer.add_string out "NOGAME\n");
  Buffer.contents out

(* rollbacks: <ids> *)
let m_rollbacks (f : Stdlib.String.t list) : Stdlib.String.t =
  let ids = Stdlib.List.map (fun x -> z_of_int (int_of_string x)) (split_on ',' (Stdlib.List.nth f 0)) in
  let s v = join "" (Stdlib.List.map (fun x -> if x then "1" else "0") v) in
  let one name first =
    match api_rollbacks first ids with
    | Ok v -> Printf.sprintf "%s=[%s]\n" name (s v)
    | _ -> Printf.sprintf "%s=PANIC\n" name in
  one "first" true ^ one "last" false

(* norm: <lo> <hi>: the non-identity pairs and idempotence failures over the scalar values in [lo,hi] *)
let m_norm (f : Stdlib.String.t list) : Stdlib.String.t =
  let lo = int_of_string (Stdlib.List.nth f 0) and hi = int_of_string (Stdlib.List.nth f 1) in
  let out = Buffer.create 1024 in
  let n = ref 0 in
  for c = lo to hi do
    if api_is_scalar (n_of_int c) then begin
      incr n;
      let r = int_of_n (api_fix_char (n_of_int c)) in
      if r <> c then Buffer.add_string out (Printf.sprintf "map %d -> %d\n" c r);
      if int_of_n (api_fix_char (n_of_int r)) <> r then Buffer.add_string out (Printf.sprintf "nonidem %d\n" c)
    end
  done;
  Buffer.add_string out (Printf.sprintf "scalars=%d\n" !n);
  Buffer.contents out

(* sjis: <hex bytes> *)
let m_sjis (f : Stdlib.String.t list) : Stdlib.String.t =
  match api_melee_string (bytes_of_hex (Stdlib.List.nth f 0)) with
  | SjOk s -> Printf.sprintf "OK %s\nrepl=0\n" (if s = [] then "-" else hex_of_bytes s)
  | SjErr -> "ERR\n"
  | SjUnknown -> "UNMODELLED\n"

(* incr: <hex> <chunks> <verbose>: the incremental API, call by call; same lines as pvh *)
let m_incr (f : Stdlib.String.t list) : Stdlib.String.t =
  let data = bytes_of_hex (Stdlib.List.nth f 0) in
  let verbose = (try Stdlib.List.nth f 2 = "1" with _ -> false) in
  let all = (try Stdlib.List.nth f 3 = "a" with _ -> false) in
  let total = Stdlib.List.length data in
  let consumed rest = total - Stdlib.List.length rest in
  let out = Buffer.create 4096 in
  let fin () = Buffer.contents out in
  (match api_parse_header data with
   | Ok (raw_len, bs) ->
     let raw_len = int_of_n raw_len in
     Buffer.add_string out (Printf.sprintf "header=OK raw_len=%d consumed=%d\n" raw_len (consumed bs));
     (match api_parse_start bs with
      | Ok (st, bs) ->
        let nframes (s : pstate) = Stdlib.List.length s.ps_frames.f_ids in
        Buffer.add_string out (Printf.sprintf "start=OK br=%d consumed=%d len=%d\n" (int_of_n st.ps_bytes_read) (consumed bs) (nframes st));
        let rec loop n (s : pstate) bs =
          if raw_len = 0 || int_of_n s.ps_bytes_read < raw_len then
            (match api_parse_event s bs with
             | Ok ((code, s'), bs') ->
               Buffer.add_string out (Printf.sprintf "ev[%d]=%d br=%d consumed=%d len=%d\n" n (int_of_n code)
                                        (int_of_n s'.ps_bytes_read) (consumed bs') (nframes s'));
               if verbose then begin
                 let d = Buffer.create 1024 in
                 dump_frames d (api_state_version s') s'.ps_frames;
                 Stdlib.List.iter (fun l -> if l <> "" then Buffer.add_string out (Printf.sprintf "  s[%d] %s\n" n l))
                   (Stdlib.String.split_on_char '\n' (Buffer.contents d))
               end;
               if int_of_n code = 0x39 && not all then Some (s', bs') else loop (n + 1) s' bs'
             | r -> Buffer.add_string out (Printf.sprintf "ev[%d]=%s\n" n (outcome_head r)); None)
          else Some (s, bs) in
        (match loop 0 st bs with
         | None -> ()
         | Some (s, bs) ->
           let br = int_of_n s.ps_bytes_read in
           let tail_ok, bs =
             if br < raw_len then
               (match (if raw_len - br > Stdlib.List.length bs then Err EIo else api_rd_exact (nat_of_int (raw_len - br)) bs) with
                | Ok (_, bs') -> true, bs'
                | _ -> Buffer.add_string out "tail=ERR\n"; false, bs)
             else true, bs in
           if tail_ok then
             (match bs with
              | [] -> Buffer.add_string out "tail=ERR\n"
              | b :: bs' ->
                let cont (s : pstate) =
                  Buffer.add_string out "final\n";
                  dump_start_end out s.ps_start s.ps_end;
                  dump_meta out s.ps_meta s.ps_gecko;
                  dump_frames out (api_state_version s) s.ps_frames in
                if int_of_byte b = 0x55 then
                  (match api_parse_metadata s bs' with
                   | Ok (s', bs'') -> Buffer.add_string out (Printf.sprintf "metadata=OK consumed=%d\n" (consumed bs'')); cont s'
                   | r -> Buffer.add_string out (Printf.sprintf "metadata=%s\n" (outcome_head r)))
                else begin
                  Buffer.add_string out (Printf.sprintf "metadata=absent byte=%d\n" (int_of_byte b)); cont s
                end))
      | r -> Buffer.add_string out (Printf.sprintf "start=%s\n" (outcome_head r)))
   | r -> Buffer.add_string out (Printf.sprintf "header=%s\n" (outcome_head r)));
  fin ()

let js (l : n list) : Stdlib.String.t = join "," (Stdlib.List.map (fun x -> string_of_int (int_of_n x)) l)

let dump_fview (out : Buffer.t) (i : int) (f : fview) =
  Buffer.add_string out (Printf.sprintf "f[%d].id=%d\n" i (int_of_z f.fv_id));
  let rec grp (cs : ((n * bool) * cview) list) =
    match cs with
    | [] -> []
    | ((p, _), c) :: ((((p2, true), c2) :: r2)) when int_of_n p2 = int_of_n p -> (int_of_n p, c, Some c2) :: grp r2
    | ((p, _), c) :: r -> (int_of_n p, c, None) :: grp r in
  Stdlib.List.iteri (fun k (port, (l : cview), fo) ->
      Buffer.add_string out (Printf.sprintf "f[%d].port[%d].port=%d\n" i k port);
      Buffer.add_string out (Printf.sprintf "f[%d].port[%d].leader.pre=%s\n" i k (js l.cv_pre));
      Buffer.add_string out (Printf.sprintf "f[%d].port[%d].leader.post=%s\n" i k (js l.cv_post));
      (match fo with
       | None -> Buffer.add_string out (Printf.sprintf "f[%d].port[%d].follower=none\n" i k)
       | Some (d : cview) ->
         Buffer.add_string out (Printf.sprintf "f[%d].port[%d].follower.pre=%s\n" i k (js d.cv_pre));
         Buffer.add_string out (Printf.sprintf "f[%d].port[%d].follower.post=%s\n" i k (js d.cv_post)))) (grp f.fv_chars);
  (match f.fv_start with
   | None -> Buffer.add_string out (Printf.sprintf "f[%d].start=none\n" i)
   | Some v -> Buffer.add_string out (Printf.sprintf "f[%d].start=%s\n" i (js v)));
  (match f.fv_end with
   | None -> Buffer.add_string out (Printf.sprintf "f[%d].end=none\n" i)
   | Some v -> Buffer.add_string out (Printf.sprintf "f[%d].end=%s\n" i (js v)));
  (match f.fv_items with
   | None -> Buffer.add_string out (Printf.sprintf "f[%d].items=none\n" i)
   | Some its ->
     Buffer.add_string out (Printf.sprintf "f[%d].items.len=%d\n" i (Stdlib.List.length its));
     Stdlib.List.iteri (fun j it -> Buffer.add_string out (Printf.sprintf "f[%d].item[%d]=%s\n" i j (js it))) its)

let add_indented out tag n (b : Buffer.t) =
  Stdlib.List.iter (fun l -> if l <> "" then Buffer.add_string out (Printf.sprintf "  %s[%d] %s\n" tag n l))
    (Stdlib.String.split_on_char '\n' (Buffer.contents b))

(* view: <hex> <i|m> *)
let m_view (f : Stdlib.String.t list) : Stdlib.String.t =
  let data = bytes_of_hex (Stdlib.List.nth f 0) in
  let out = Buffer.create 4096 in
  if Stdlib.List.nth f 1 = "i" then begin
    (match api_read false false data with
     | Ok (g, _) ->
       Buffer.add_string out "OK\n";
       let v = api_game_version g in
       dump_frames out v g.g_frames;
       Stdlib.List.iteri (fun i _ ->
           match api_frame_view v g.g_frames (nat_of_int i) with
           | Ok fv -> dump_fview out i fv
           | r -> Buffer.add_string out (Printf.sprintf "f[%d]=%s\n" i (outcome_head r))) g.g_frames.f_ids
     | r -> Buffer.add_string out (outcome_head r ^ "\n"))
  end else begin
    (match api_parse_header data with
     | Ok (raw_len, bs) ->
       let raw_len = int_of_n raw_len in
       (match api_parse_start bs with
        | Ok (st, bs) ->
          Buffer.add_string out "OK\n";
          let rec loop n (s : pstate) bs =
            if int_of_n s.ps_bytes_read < raw_len then
              (match api_parse_event s bs with
               | Ok ((code, s'), bs') ->
                 let code = int_of_n code in
                 let len = Stdlib.List.length s'.ps_frames.f_ids in
                 let complete = if code = 0x3C then len else max 0 (len - 1) in
                 Buffer.add_string out (Printf.sprintf "ev[%d]=%d len=%d complete=%d\n" n code len complete);
                 if code = 0x3C || code = 0x3A || code = 0x37 then begin
                   let d = Buffer.create 1024 in
                   dump_frames d (api_state_version s') s'.ps_frames;
                   add_indented out "s" n d;
                   for i = 0 to complete - 1 do
                     let d = Buffer.create 256 in
                     (match api_frame_view (api_state_version s') s'.ps_frames (nat_of_int i) with
                      | Ok fv -> dump_fview d i fv
                      | r -> Buffer.add_string d (Printf.sprintf "f[%d]=%s\n" i (outcome_head r)));
                     add_indented out "v" n d
                   done
                 end;
                 if code = 0x39 then () else loop (n + 1) s' bs'
               | _ -> Buffer.add_string out (Printf.sprintf "ev[%d]=ERR\n" n))
            else () in
          loop 0 st bs
        | _ -> Buffer.add_string out "ERR\n")
     | _ -> Buffer.add_string out "ERR\n")
  end;
  Buffer.contents out

let prim_name (p : prim) : Stdlib.String.t =
  match p with U8 -> "u8" | I8 -> "i8" | U16 -> "u16" | I16 -> "i16" | U32 -> "u32" | I32 -> "i32" | F32 -> "f32"

let rec walk (out : Buffer.t) (path : Stdlib.String.t) (t : atree) =
  match t with
  | APrim (_, ty, vals) ->
    Buffer.add_string out (Printf.sprintf "A %s %s len=%d vals=%s\n" path (prim_name ty) (Stdlib.List.length vals) (js vals))
  | AStruct (_, len, valid, ch) ->
    let nm c = (match c with APrim (n, _, _) -> n | AStruct (n, _, _, _) -> n | AList (n, _, _, _, _) -> n) in
    let names = Stdlib.List.map (fun c -> ocaml_string_of (nm c)) ch in
    Buffer.add_string out (Printf.sprintf "A %s struct len=%d fields=%s nullable=%s validity=%s\n" path (int_of_nat len)
                             (join "," names) (Stdlib.String.make (Stdlib.List.length ch) '0') (bitmap_s valid));
    Stdlib.List.iter (fun c -> walk out (path ^ "/" ^ ocaml_string_of (nm c)) c) ch
  | AList (_, len, inner, offs, child) ->
    Buffer.add_string out (Printf.sprintf "A %s list len=%d inner=%s offsets=%s\n" path (int_of_nat len) (ocaml_string_of inner)
                             (join "," (Stdlib.List.map (fun x -> string_of_int (int_of_z x)) offs)));
    walk out (path ^ "/[" ^ ocaml_string_of inner ^ "]") child

(* arrow: <hex> *)
let m_arrow (f : Stdlib.String.t list) : Stdlib.String.t =
  let data = bytes_of_hex (Stdlib.List.nth f 0) in
  let out = Buffer.create 4096 in
  (match api_read false false data with
   | Ok (g, _) ->
     Buffer.add_string out "OK\n";
     let v = api_game_version g in
     dump_frames out v g.g_frames;
     (match api_arrow_frame v g.g_frames with
      | Ok t ->
        Buffer.add_string out "arrow=OK\n";
        walk out "frame" t;
        (* from_struct_array(into_struct_array(f)) = f under the positional obligations (Properties/C14.v) *)
        (match api_write g with
         | Ok w -> Buffer.add_string out (Printf.sprintf "back_identical=%d\n" (if w = data then 1 else 0))
         | _ -> Buffer.add_string out "back=ERR\n")
      | r -> Buffer.add_string out (outcome_head r ^ "\n"))
   | r -> Buffer.add_string out (outcome_head r ^ "\n"));
  Buffer.contents out

(* slpparch: <slp hex> <opts> <hash string hex or -> <meta blob> <start blob> <end blob> <frames blob>:
   the archive bytes predicted for the game read from the .slp, given the opaque blobs *)
let m_slpparch (f : Stdlib.String.t list) : Stdlib.String.t =
  let nth k = Stdlib.List.nth f k in
  let data = bytes_of_hex (nth 0) in
  let o = nth 1 in
  let skip = Stdlib.String.contains o 's' and hash = Stdlib.String.contains o 'h' in
  (match api_read skip hash data with
   | Ok (g, _) ->
     let h = if nth 2 = "-" then None else Some (bytes_of_hex (nth 2)) in
     (match api_slpp_archive g h (bytes_of_hex (nth 3)) (bytes_of_hex (nth 4)) (bytes_of_hex (nth 5)) (bytes_of_hex (nth 6)) with
      | Ok a ->
        let names = Stdlib.List.map str_of_bytes (api_entry_names g) in
        Printf.sprintf "entries=%s\narch=%s\n" (join "," names) (hex_of_bytes a)
      | r -> outcome_head r ^ "\n")
   | r -> outcome_head r ^ "\n")

(* schedules: g<k>,i,f,... as the harness parses them *)
let sched_of (s : Stdlib.String.t) : rstep list =
  if s = "-" then [] else
    Stdlib.List.map (fun x ->
        match x.[0] with
        | 'i' -> api_step_interrupt
        | 'f' -> api_step_fault
        | _ -> api_step_give (nat_of_int (int_of_string (Stdlib.String.sub x 1 (Stdlib.String.length x - 1)))))
      (Stdlib.String.split_on_char ',' s)

(* rexact: <hex> <sched> <sizes>: std read_exact calls (Frag.read_exact_f) over the schedule *)
let m_rexact (f : Stdlib.String.t list) : Stdlib.String.t =
  let data = bytes_of_hex (Stdlib.List.nth f 0) in
  let sched = sched_of (Stdlib.List.nth f 1) in
  let sizes = Stdlib.List.map int_of_string (Stdlib.String.split_on_char ',' (Stdlib.List.nth f 2)) in
  let total = Stdlib.List.length data in
  let out = Buffer.create 256 in
  let rec go i data sched sizes =
    match sizes with
    | [] -> ()
    | n :: r ->
      let ((res, data'), sched') = api_rexact (nat_of_int n) data sched in
      let pos = total - Stdlib.List.length data' and left = Stdlib.List.length sched' in
      (match res with
       | Ok bs -> Buffer.add_string out (Printf.sprintf "r%d=ok:%s pos=%d left=%d\n" i (hex_of_bytes bs) pos left)
       | Err _ -> Buffer.add_string out (Printf.sprintf "r%d=err pos=%d left=%d\n" i pos left)
       | Panic _ -> Buffer.add_string out (Printf.sprintf "r%d=PANIC\n" i)
       | Fuel -> Buffer.add_string out (Printf.sprintf "r%d=FUEL\n" i));
      go (i + 1) data' sched' r in
  go 0 data sched sizes;
  Buffer.contents out

(* readsched: <hex> <opts> <sched>: the reader program run over the scheduled stream (Frag.run_frag) *)
let m_readsched (f : Stdlib.String.t list) : Stdlib.String.t =
  let data = bytes_of_hex (Stdlib.List.nth f 0) in
  let o = Stdlib.List.nth f 1 in
  let hash = Stdlib.String.contains o 'h' in
  let sched = sched_of (Stdlib.List.nth f 2) in
  let total = Stdlib.List.length data in
  let out = Buffer.create 4096 in
  let ((res, rest), hashed) = api_read_sched hash data sched in
  let consumed = total - Stdlib.List.length rest in
  (match res with
   | Ok g ->
     Buffer.add_string out "OK\n";
     Buffer.add_string out (Printf.sprintf "consumed=%d/%d\n" consumed total);
     (* the hasher was fed exactly the consumed bytes: checked here on every run, proved in FragProof.v *)
     (match hashed, g.g_hashed with
      | Some n, Some m when int_of_nat n = consumed && int_of_nat m = consumed -> ()
      | None, None -> ()
      | _ -> Buffer.add_string out "MODEL-HASH-MISMATCH\n");
     dump_game out g
   | r ->
     Buffer.add_string out (outcome_head r ^ "\n");
     Buffer.add_string out (Printf.sprintf "consumed=%d/%d\n" consumed total));
  Buffer.contents out

(* emitirr: <start> <gecko> <end> <meta> <frames> <opts> <extras c:sz,..> <events c:hex,..> <junk hex>:
   the irregular rendering the Coq definitions describe (emit_irr), the decidable membership test (wf_irreg2_b), and
   the game the theorem read_irregular2 promises (that of the canonical replay) *)
let m_emitirr (f : Stdlib.String.t list) : Stdlib.String.t =
  let r = replay_of_fields f in
  let o = Stdlib.List.nth f 5 in
  let hash = Stdlib.String.contains o 'h' in
  let pair s = match Stdlib.String.split_on_char ':' s with
    | [a; b] -> (a, b) | _ -> failwith "bad pair" in
  let extras = Stdlib.List.map (fun s -> let (a, b) = pair s in (n_of_int (int_of_string a), n_of_int (int_of_string b)))
      (split_on ',' (Stdlib.List.nth f 6)) in
  let evs = Stdlib.List.map (fun s -> let (a, b) = pair s in (n_of_int (int_of_string a), bytes_of_hex b))
      (split_on ',' (Stdlib.List.nth f 7)) in
  let junk = bytes_of_hex (Stdlib.List.nth f 8) in
  let x = api_mk_irreg extras evs junk in
  let out = Buffer.create 4096 in
  let b = api_emit_irr r x in
  Buffer.add_string out (Printf.sprintf "emit=%s\n" (hex_of_bytes b));
  Buffer.add_string out (Printf.sprintf "wf=%d\n" (if api_wf r then 1 else 0));
  Buffer.add_string out (Printf.sprintf "wf_irreg=%d\n" (if api_wf_irreg2_b r x then 1 else 0));
  (match api_game_of false hash r with
   | Some g ->
     let n = Stdlib.List.length b in
     Buffer.add_string out "OK\n";
     Buffer.add_string out (Printf.sprintf "consumed=%d/%d\n" n n);
     dump_game out { g with g_hashed = (if hash then Some (nat_of_int n) else None) }
   | None -> Buffer.add_string out "NOGAME\n");
  Buffer.contents out

(* inclass: <hex>: is this file the canonical stream of a well-formed replay (Model/Abstract.v in_class)? *)
let m_inclass (f : Stdlib.String.t list) : Stdlib.String.t =
  match api_in_class (bytes_of_hex (Stdlib.List.nth f 0)) with
  | Some true -> "inclass=1\n"
  | Some false -> "inclass=0\n"
  | None -> "inclass=unread\n"

let dispatch (mode : Stdlib.String.t) (f : Stdlib.String.t list) : Stdlib.String.t =
  match mode with
  | "inclass" -> m_inclass f
  | "emitirr" -> m_emitirr f
  | "rexact" -> m_rexact f
  | "readsched" -> m_readsched f
  | "read" -> m_read f
  | "rt" -> m_rt f
  | "emit" -> m_emit f
  | "rollbacks" -> m_rollbacks f
  | "norm" -> m_norm f
  | "sjis" -> m_sjis f
  | "incr" -> m_incr f
  | "view" -> m_view f
  | "arrow" -> m_arrow f
  | "slpparch" -> m_slpparch f
  | _ -> failwith ("unknown mode " ^ mode)
