(* model modes that need the larger parts of the model (reader, writer, archive ...) *)
let dispatch (mode : Stdlib.String.t) (_f : Stdlib.String.t list) : Stdlib.String.t =
  failwith ("unknown mode " ^ mode)
