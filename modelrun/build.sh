#!/bin/sh
# extract the model and build the model runner into /verif/.work/extract/modelrun
set -e
V=$(cd "$(dirname "$0")/.." && pwd)
W=$V/.work/extract
mkdir -p $W
cd $W
coqc -Q $V/coq/theories Peppi $V/coq/extract/Extract.v >/dev/null
cp $V/modelrun/driver.ml $V/modelrun/modes.ml $W/
ocamlfind ocamlopt -w -a -package str -linkpkg model.mli model.ml modes.ml driver.ml -o modelrun
