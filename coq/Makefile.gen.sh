#!/bin/sh
# regenerate the coq Makefile from the list of .v files
cd "$(dirname "$0")"
coq_makefile -f _CoqProject $(find theories -name '*.v' | sort) -o Makefile >/dev/null 2>&1
