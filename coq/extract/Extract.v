(* Extraction of the executable model for the correspondence run.  ExtrOcamlBasic only: bool, option, unit,
   list, prod, sumbool, sumor are mapped to the OCaml types; N, Z, nat, positive, Byte.byte, ascii and string
   stay the Coq datatypes (no Extract Constant, no integer mapping). *)
From Coq Require Import ExtrOcamlBasic.
From Peppi Require Import Model.Api.
Extraction Language OCaml.
Extraction "model.ml"
  api_b2n api_gte api_lt api_max_ok api_ver_show api_ver_parse api_nat_succ api_str_len api_z_succ
  api_read api_write api_leaves api_row_vals api_col_names api_cjson_start api_cjson_end api_cjson_meta api_game_version
  api_emit api_wf api_game_of api_read_map api_mk_replay api_mk_frame api_mk_gecko
  api_rollbacks api_fix_char api_is_scalar api_melee_string
  api_parse_header api_parse_start api_parse_event api_parse_metadata api_rd_exact api_state_version
  api_frame_view api_arrow_frame api_slpp_archive api_entry_names
  api_step_give api_step_interrupt api_step_fault api_rexact api_read_sched
  api_mk_irreg api_emit_irr api_wf_irreg2_b api_in_class.
