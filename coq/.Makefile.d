theories/Base/Bytes.vo theories/Base/Bytes.glob theories/Base/Bytes.v.beautified theories/Base/Bytes.required_vo: theories/Base/Bytes.v 
theories/Base/Bytes.vio: theories/Base/Bytes.v 
theories/Base/Bytes.vos theories/Base/Bytes.vok theories/Base/Bytes.required_vos: theories/Base/Bytes.v 
theories/Gen/Funs.vo theories/Gen/Funs.glob theories/Gen/Funs.v.beautified theories/Gen/Funs.required_vo: theories/Gen/Funs.v 
theories/Gen/Funs.vio: theories/Gen/Funs.v 
theories/Gen/Funs.vos theories/Gen/Funs.vok theories/Gen/Funs.required_vos: theories/Gen/Funs.v 
theories/Gen/Tables.vo theories/Gen/Tables.glob theories/Gen/Tables.v.beautified theories/Gen/Tables.required_vo: theories/Gen/Tables.v theories/Layout/Syntax.vo
theories/Gen/Tables.vio: theories/Gen/Tables.v theories/Layout/Syntax.vio
theories/Gen/Tables.vos theories/Gen/Tables.vok theories/Gen/Tables.required_vos: theories/Gen/Tables.v theories/Layout/Syntax.vos
theories/Layout/Sem.vo theories/Layout/Sem.glob theories/Layout/Sem.v.beautified theories/Layout/Sem.required_vo: theories/Layout/Sem.v theories/Base/Bytes.vo theories/Layout/Syntax.vo theories/Gen/Funs.vo
theories/Layout/Sem.vio: theories/Layout/Sem.v theories/Base/Bytes.vio theories/Layout/Syntax.vio theories/Gen/Funs.vio
theories/Layout/Sem.vos theories/Layout/Sem.vok theories/Layout/Sem.required_vos: theories/Layout/Sem.v theories/Base/Bytes.vos theories/Layout/Syntax.vos theories/Gen/Funs.vos
theories/Layout/Shapes.vo theories/Layout/Shapes.glob theories/Layout/Shapes.v.beautified theories/Layout/Shapes.required_vo: theories/Layout/Shapes.v theories/Layout/Syntax.vo theories/Gen/Funs.vo theories/Layout/Sem.vo theories/Layout/SpecTheory.vo theories/Gen/Tables.vo
theories/Layout/Shapes.vio: theories/Layout/Shapes.v theories/Layout/Syntax.vio theories/Gen/Funs.vio theories/Layout/Sem.vio theories/Layout/SpecTheory.vio theories/Gen/Tables.vio
theories/Layout/Shapes.vos theories/Layout/Shapes.vok theories/Layout/Shapes.required_vos: theories/Layout/Shapes.v theories/Layout/Syntax.vos theories/Gen/Funs.vos theories/Layout/Sem.vos theories/Layout/SpecTheory.vos theories/Gen/Tables.vos
theories/Layout/Spec.vo theories/Layout/Spec.glob theories/Layout/Spec.v.beautified theories/Layout/Spec.required_vo: theories/Layout/Spec.v theories/Layout/Syntax.vo theories/Layout/SpecTheory.vo
theories/Layout/Spec.vio: theories/Layout/Spec.v theories/Layout/Syntax.vio theories/Layout/SpecTheory.vio
theories/Layout/Spec.vos theories/Layout/Spec.vok theories/Layout/Spec.required_vos: theories/Layout/Spec.v theories/Layout/Syntax.vos theories/Layout/SpecTheory.vos
theories/Layout/SpecTheory.vo theories/Layout/SpecTheory.glob theories/Layout/SpecTheory.v.beautified theories/Layout/SpecTheory.required_vo: theories/Layout/SpecTheory.v theories/Base/Bytes.vo theories/Layout/Syntax.vo theories/Gen/Funs.vo theories/Layout/Sem.vo
theories/Layout/SpecTheory.vio: theories/Layout/SpecTheory.v theories/Base/Bytes.vio theories/Layout/Syntax.vio theories/Gen/Funs.vio theories/Layout/Sem.vio
theories/Layout/SpecTheory.vos theories/Layout/SpecTheory.vok theories/Layout/SpecTheory.required_vos: theories/Layout/SpecTheory.v theories/Base/Bytes.vos theories/Layout/Syntax.vos theories/Gen/Funs.vos theories/Layout/Sem.vos
theories/Layout/Syntax.vo theories/Layout/Syntax.glob theories/Layout/Syntax.v.beautified theories/Layout/Syntax.required_vo: theories/Layout/Syntax.v 
theories/Layout/Syntax.vio: theories/Layout/Syntax.v 
theories/Layout/Syntax.vos theories/Layout/Syntax.vok theories/Layout/Syntax.required_vos: theories/Layout/Syntax.v 
theories/Model/Api.vo theories/Model/Api.glob theories/Model/Api.v.beautified theories/Model/Api.required_vo: theories/Model/Api.v theories/Base/Bytes.vo theories/Layout/Syntax.vo theories/Gen/Funs.vo theories/Gen/Tables.vo theories/Layout/Sem.vo theories/Model/VersionText.vo
theories/Model/Api.vio: theories/Model/Api.v theories/Base/Bytes.vio theories/Layout/Syntax.vio theories/Gen/Funs.vio theories/Gen/Tables.vio theories/Layout/Sem.vio theories/Model/VersionText.vio
theories/Model/Api.vos theories/Model/Api.vok theories/Model/Api.required_vos: theories/Model/Api.v theories/Base/Bytes.vos theories/Layout/Syntax.vos theories/Gen/Funs.vos theories/Gen/Tables.vos theories/Layout/Sem.vos theories/Model/VersionText.vos
theories/Model/VersionText.vo theories/Model/VersionText.glob theories/Model/VersionText.v.beautified theories/Model/VersionText.required_vo: theories/Model/VersionText.v theories/Gen/Funs.vo
theories/Model/VersionText.vio: theories/Model/VersionText.v theories/Gen/Funs.vio
theories/Model/VersionText.vos theories/Model/VersionText.vok theories/Model/VersionText.required_vos: theories/Model/VersionText.v theories/Gen/Funs.vos
theories/Proofs/C03Proof.vo theories/Proofs/C03Proof.glob theories/Proofs/C03Proof.v.beautified theories/Proofs/C03Proof.required_vo: theories/Proofs/C03Proof.v theories/Base/Bytes.vo theories/Layout/Syntax.vo theories/Gen/Funs.vo theories/Layout/Sem.vo theories/Layout/SpecTheory.vo theories/Layout/Spec.vo theories/Layout/Shapes.vo theories/Gen/Tables.vo
theories/Proofs/C03Proof.vio: theories/Proofs/C03Proof.v theories/Base/Bytes.vio theories/Layout/Syntax.vio theories/Gen/Funs.vio theories/Layout/Sem.vio theories/Layout/SpecTheory.vio theories/Layout/Spec.vio theories/Layout/Shapes.vio theories/Gen/Tables.vio
theories/Proofs/C03Proof.vos theories/Proofs/C03Proof.vok theories/Proofs/C03Proof.required_vos: theories/Proofs/C03Proof.v theories/Base/Bytes.vos theories/Layout/Syntax.vos theories/Gen/Funs.vos theories/Layout/Sem.vos theories/Layout/SpecTheory.vos theories/Layout/Spec.vos theories/Layout/Shapes.vos theories/Gen/Tables.vos
theories/Proofs/C20Proof.vo theories/Proofs/C20Proof.glob theories/Proofs/C20Proof.v.beautified theories/Proofs/C20Proof.required_vo: theories/Proofs/C20Proof.v theories/Gen/Funs.vo theories/Model/VersionText.vo
theories/Proofs/C20Proof.vio: theories/Proofs/C20Proof.v theories/Gen/Funs.vio theories/Model/VersionText.vio
theories/Proofs/C20Proof.vos theories/Proofs/C20Proof.vok theories/Proofs/C20Proof.required_vos: theories/Proofs/C20Proof.v theories/Gen/Funs.vos theories/Model/VersionText.vos
theories/Properties/C03.vo theories/Properties/C03.glob theories/Properties/C03.v.beautified theories/Properties/C03.required_vo: theories/Properties/C03.v theories/Base/Bytes.vo theories/Layout/Syntax.vo theories/Gen/Funs.vo theories/Layout/Sem.vo theories/Layout/SpecTheory.vo theories/Layout/Spec.vo theories/Gen/Tables.vo theories/Proofs/C03Proof.vo
theories/Properties/C03.vio: theories/Properties/C03.v theories/Base/Bytes.vio theories/Layout/Syntax.vio theories/Gen/Funs.vio theories/Layout/Sem.vio theories/Layout/SpecTheory.vio theories/Layout/Spec.vio theories/Gen/Tables.vio theories/Proofs/C03Proof.vio
theories/Properties/C03.vos theories/Properties/C03.vok theories/Properties/C03.required_vos: theories/Properties/C03.v theories/Base/Bytes.vos theories/Layout/Syntax.vos theories/Gen/Funs.vos theories/Layout/Sem.vos theories/Layout/SpecTheory.vos theories/Layout/Spec.vos theories/Gen/Tables.vos theories/Proofs/C03Proof.vos
theories/Properties/C09.vo theories/Properties/C09.glob theories/Properties/C09.v.beautified theories/Properties/C09.required_vo: theories/Properties/C09.v theories/Gen/Funs.vo theories/Proofs/C20Proof.vo
theories/Properties/C09.vio: theories/Properties/C09.v theories/Gen/Funs.vio theories/Proofs/C20Proof.vio
theories/Properties/C09.vos theories/Properties/C09.vok theories/Properties/C09.required_vos: theories/Properties/C09.v theories/Gen/Funs.vos theories/Proofs/C20Proof.vos
theories/Properties/C20.vo theories/Properties/C20.glob theories/Properties/C20.v.beautified theories/Properties/C20.required_vo: theories/Properties/C20.v theories/Gen/Funs.vo theories/Model/VersionText.vo theories/Proofs/C20Proof.vo
theories/Properties/C20.vio: theories/Properties/C20.v theories/Gen/Funs.vio theories/Model/VersionText.vio theories/Proofs/C20Proof.vio
theories/Properties/C20.vos theories/Properties/C20.vok theories/Properties/C20.required_vos: theories/Properties/C20.v theories/Gen/Funs.vos theories/Model/VersionText.vos theories/Proofs/C20Proof.vos
