(* Results of modelled Rust functions: a value, an error value (peppi::io::Error class), a panic (with a
   site number naming the Rust construct that would panic), or exhausted fuel (possible non-termination). *)
From Coq Require Import NArith.

(* EUnknown: the input leaves the executable model (a Shift-JIS double-byte sequence in a name field);
   the implementation returns a value or an error there, never modelled as a panic *)
Inductive eclass := EIo | EInvalid | EUtf8 | EJson | EArrow | EUnknown.

Inductive outcome (A : Type) : Type :=
| Ok (a : A)
| Err (e : eclass)
| Panic (site : N)
| Fuel.
Arguments Ok {A} a.
Arguments Err {A} e.
Arguments Panic {A} site.
Arguments Fuel {A}.

Definition bind {A B} (x : outcome A) (f : A -> outcome B) : outcome B :=
  match x with
  | Ok a => f a
  | Err e => Err e
  | Panic s => Panic s
  | Fuel => Fuel
  end.

Notation "x <- a ;; b" := (bind a (fun x => b)) (at level 61, a at next level, right associativity).
Notation "' p <- a ;; b" := (bind a (fun x => match x with p => b end))
  (at level 61, p pattern, a at next level, right associativity).

Definition is_ok {A} (x : outcome A) : bool := match x with Ok _ => true | _ => false end.
Definition is_err {A} (x : outcome A) : bool := match x with Err _ => true | _ => false end.
Definition no_panic {A} (x : outcome A) : Prop := match x with Panic _ | Fuel => False | _ => True end.

Lemma bind_ok {A B} (x : outcome A) (f : A -> outcome B) b :
  bind x f = Ok b -> exists a, x = Ok a /\ f a = Ok b.
Proof. destruct x; cbn; intro H; try discriminate. eauto. Qed.

Lemma bind_no_panic {A B} (x : outcome A) (f : A -> outcome B) :
  no_panic x -> (forall a, x = Ok a -> no_panic (f a)) -> no_panic (bind x f).
Proof. destruct x; cbn; intros H1 H2; auto. Qed.

Lemma ok_inj {A} (a b : A) : Ok a = Ok b -> a = b.
Proof. intro H. inversion H. reflexivity. Qed.
