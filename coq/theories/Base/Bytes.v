From Coq Require Import List NArith Lia Bool.
From Coq.Strings Require Import Byte.
Import ListNotations.
Local Open Scope N_scope.

Definition b2n (b : byte) : N := Byte.to_N b.
Definition n2b (n : N) : byte :=
  match Byte.of_N (n mod 256) with Some b => b | None => x00 end.

Lemma b2n_lt b : b2n b < 256.
Proof. unfold b2n. pose proof (Byte.to_N_bounded b). lia. Qed.

Lemma n2b_b2n b : n2b (b2n b) = b.
Proof.
  unfold n2b. rewrite N.mod_small by apply b2n_lt.
  unfold b2n. rewrite Byte.of_to_N. reflexivity.
Qed.

Lemma b2n_n2b n : b2n (n2b n) = n mod 256.
Proof.
  unfold n2b, b2n.
  destruct (Byte.of_N (n mod 256)) as [b|] eqn:E.
  - apply Byte.to_of_N in E. exact E.
  - exfalso. apply Byte.of_N_None_iff in E.
    pose proof (N.mod_lt n 256). lia.
Qed.

Lemma pow256_pos e : 0 < 256 ^ e.
Proof. pose proof (N.pow_nonzero 256 e). lia. Qed.

(* big-endian decode / encode *)
Fixpoint be_dec_acc (acc : N) (bs : list byte) : N :=
  match bs with
  | [] => acc
  | b :: r => be_dec_acc (acc * 256 + b2n b) r
  end.
Definition be_dec (bs : list byte) : N := be_dec_acc 0 bs.

Fixpoint be_enc (w : nat) (n : N) : list byte :=
  match w with
  | O => []
  | S w' => n2b (n / 256 ^ N.of_nat w') :: be_enc w' n
  end.

Lemma length_be_enc w n : length (be_enc w n) = w.
Proof. induction w; cbn; congruence. Qed.

Lemma be_dec_acc_app acc a b :
  be_dec_acc acc (a ++ b) = be_dec_acc (be_dec_acc acc a) b.
Proof. revert acc. induction a as [|x a IH]; intros acc; cbn; [reflexivity|apply IH]. Qed.

Lemma be_dec_acc_eq acc bs :
  be_dec_acc acc bs = acc * 256 ^ N.of_nat (length bs) + be_dec bs.
Proof.
  unfold be_dec. revert acc.
  induction bs as [|b bs IH]; intros acc.
  - cbn. lia.
  - cbn [be_dec_acc length]. rewrite IH. rewrite (IH (0 * 256 + b2n b)).
    rewrite Nat2N.inj_succ, N.pow_succ_r'. lia.
Qed.

Lemma be_dec_lt bs : be_dec bs < 256 ^ N.of_nat (length bs).
Proof.
  induction bs as [|b bs IH].
  - cbn. lia.
  - unfold be_dec. cbn [be_dec_acc length]. rewrite be_dec_acc_eq.
    rewrite Nat2N.inj_succ, N.pow_succ_r'.
    pose proof (b2n_lt b). nia.
Qed.

Lemma be_dec_cons b bs :
  be_dec (b :: bs) = b2n b * 256 ^ N.of_nat (length bs) + be_dec bs.
Proof. unfold be_dec at 1. cbn [be_dec_acc]. rewrite be_dec_acc_eq. lia. Qed.

Lemma be_enc_high w k n m :
  (w <= k)%nat -> be_enc w (m * 256 ^ N.of_nat k + n) = be_enc w n.
Proof.
  revert n m. induction w as [|w IHw]; intros n m Hw; [reflexivity|].
  cbn [be_enc]. f_equal.
  - assert (E : 256 ^ N.of_nat k =
                256 ^ (N.of_nat k - N.of_nat w - 1) * 256 ^ 1 * 256 ^ N.of_nat w).
    { rewrite <- !N.pow_add_r. f_equal. lia. }
    rewrite N.pow_1_r in E.
    unfold n2b. f_equal. rewrite E.
    replace (m * (256 ^ (N.of_nat k - N.of_nat w - 1) * 256 * 256 ^ N.of_nat w) + n)
      with (n + (m * 256 ^ (N.of_nat k - N.of_nat w - 1) * 256) * 256 ^ N.of_nat w) by lia.
    pose proof (pow256_pos (N.of_nat w)).
    rewrite N.div_add by lia.
    rewrite N.add_mod by lia. rewrite N.mod_mul by lia. rewrite N.add_0_r.
    rewrite N.mod_mod by lia. reflexivity.
  - apply IHw. lia.
Qed.

Lemma be_enc_dec bs : be_enc (length bs) (be_dec bs) = bs.
Proof.
  induction bs as [|b bs IH]; [reflexivity|].
  rewrite be_dec_cons. cbn [length be_enc]. f_equal.
  - pose proof (be_dec_lt bs) as Hlt. pose proof (pow256_pos (N.of_nat (length bs))).
    rewrite N.add_comm. rewrite N.div_add by lia. rewrite N.div_small by exact Hlt.
    cbn. apply n2b_b2n.
  - rewrite be_enc_high by lia. exact IH.
Qed.

Lemma be_dec_enc w n : n < 256 ^ N.of_nat w -> be_dec (be_enc w n) = n.
Proof.
  revert n. induction w as [|w IH]; intros n Hn.
  - cbn in *. unfold be_dec. cbn. lia.
  - cbn [be_enc]. unfold be_dec. cbn [be_dec_acc]. rewrite be_dec_acc_eq.
    rewrite length_be_enc.
    rewrite Nat2N.inj_succ, N.pow_succ_r' in Hn.
    assert (Hp : 0 < 256 ^ N.of_nat w) by apply pow256_pos.
    rewrite b2n_n2b.
    assert (Hq : n / 256 ^ N.of_nat w < 256) by (apply N.div_lt_upper_bound; lia).
    rewrite N.mod_small by exact Hq.
    (* be_dec (be_enc w n) = n mod 256^w *)
    assert (G : forall w n, be_dec (be_enc w n) = n mod 256 ^ N.of_nat w).
    { clear. intros w. induction w as [|w IHw]; intros n.
      - cbn. unfold be_dec. cbn. rewrite N.mod_1_r. reflexivity.
      - cbn [be_enc]. unfold be_dec. cbn [be_dec_acc]. rewrite be_dec_acc_eq, length_be_enc, IHw.
        rewrite b2n_n2b. rewrite Nat2N.inj_succ, N.pow_succ_r'.
        assert (0 < 256 ^ N.of_nat w) by apply pow256_pos.
        rewrite (N.mul_comm 256). rewrite N.mod_mul_r by lia. lia. }
    rewrite G. pose proof (N.div_mod n (256 ^ N.of_nat w)). lia.
Qed.

Lemma skipn_skipn {A} (x y : nat) (l : list A) : skipn x (skipn y l) = skipn (y + x) l.
Proof.
  revert l. induction y as [|y IH]; intros l; [reflexivity|].
  destruct l as [|a l]; [rewrite !skipn_nil; reflexivity|].
  cbn [skipn Nat.add]. apply IH.
Qed.
