(* The reader's world.  A parser consumes a prefix of the remaining input (a flat byte list).  Reads in peppi
   are all exact-length (read_exact / byteorder), so a parser sees only the concatenation of the fragments the
   underlying stream returns; Model/Frag.v proves that for the fragment-level read loop. *)
From Coq Require Import List Arith NArith Lia Bool.
From Coq.Strings Require Import Byte.
From Peppi Require Import Base.Bytes Base.Outcome.
Import ListNotations.
Notation length := (@List.length _) (only parsing).

Definition parser (A : Type) := list byte -> outcome (A * list byte).

Definition ret {A} (a : A) : parser A := fun bs => Ok (a, bs).
Definition fail {A} (e : eclass) : parser A := fun _ => Err e.
Definition pbind {A B} (p : parser A) (f : A -> parser B) : parser B :=
  fun bs => match p bs with
            | Ok (a, r) => f a r
            | Err e => Err e
            | Panic s => Panic s
            | Fuel => Fuel
            end.

(* std::io::Read::read_exact on the flat view: all or UnexpectedEof *)
Fixpoint take_exact (n : nat) (bs : list byte) : option (list byte * list byte) :=
  match n with
  | O => Some ([], bs)
  | S n' => match bs with
            | [] => None
            | b :: r => match take_exact n' r with Some (a, r') => Some (b :: a, r') | None => None end
            end
  end.

Lemma take_exact_spec n bs :
  take_exact n bs = if (length bs <? n)%nat then None else Some (firstn n bs, skipn n bs).
Proof.
  revert bs. induction n as [|n IH]; intros bs.
  - cbn. destruct bs; reflexivity.
  - destruct bs as [|b r]; [reflexivity|]. cbn [take_exact]. rewrite IH. cbn [length firstn skipn].
    destruct (Nat.ltb_spec (length r) n), (Nat.ltb_spec (S (length r)) (S n)); try lia; reflexivity.
Qed.

Definition rd_exact (n : nat) : parser (list byte) :=
  fun bs => match take_exact n bs with Some (a, r) => Ok (a, r) | None => Err EIo end.

Lemma rd_exact_spec n bs :
  rd_exact n bs = if (length bs <? n)%nat then Err EIo else Ok (firstn n bs, skipn n bs).
Proof. unfold rd_exact. rewrite take_exact_spec. destruct (length bs <? n)%nat; reflexivity. Qed.

Definition rd_u8 : parser N :=
  fun bs => match bs with [] => Err EIo | b :: r => Ok (b2n b, r) end.

Definition rd_be (w : nat) : parser N :=
  pbind (rd_exact w) (fun b => ret (be_dec b)).

(* expect_bytes: read |expected| bytes, compare *)
Definition list_byte_eqb (a b : list byte) : bool :=
  (length a =? length b)%nat && forallb (fun p => Byte.eqb (fst p) (snd p)) (combine a b).

Lemma list_byte_eqb_eq a b : list_byte_eqb a b = true <-> a = b.
Proof.
  unfold list_byte_eqb. revert b. induction a as [|x a IH]; intros [|y b]; cbn; split; intro H; try reflexivity; try discriminate.
  - apply andb_true_iff in H as [H1 H2]. apply andb_true_iff in H2 as [H2 H3].
    apply Byte.byte_dec_bl in H2. subst. f_equal. apply IH. apply andb_true_iff. split; assumption.
  - inversion H; subst. assert (E : Byte.eqb y y = true) by (apply Byte.byte_dec_lb; reflexivity).
    rewrite E. cbn. pose proof (proj2 (IH b) eq_refl) as Hb. apply andb_true_iff in Hb as [H1 H2].
    rewrite H1, H2. reflexivity.
Qed.

Definition expect_bytes (e : list byte) : parser unit :=
  pbind (rd_exact (length e)) (fun b => if list_byte_eqb e b then ret tt else fail EInvalid).

(* ---- consumption: every parser built from these returns a suffix of its input ---- *)
Definition consumes {A} (p : parser A) : Prop :=
  forall bs a r, p bs = Ok (a, r) -> exists pre, bs = pre ++ r.

Lemma rd_exact_ok n bs a r : rd_exact n bs = Ok (a, r) -> bs = a ++ r /\ length a = n.
Proof.
  rewrite rd_exact_spec. destruct (Nat.ltb_spec (length bs) n) as [H|H]; [discriminate|].
  intro E. inversion E; subst. split; [symmetry; apply firstn_skipn | apply firstn_length_le; exact H].
Qed.

Lemma rd_exact_app n a r : length a = n -> rd_exact n (a ++ r) = Ok (a, r).
Proof.
  intro H. rewrite rd_exact_spec. rewrite app_length.
  destruct (Nat.ltb_spec (length a + length r) n) as [?|_]; [lia|].
  rewrite firstn_app, skipn_app. replace (n - length a)%nat with O by lia. cbn.
  rewrite firstn_all2, skipn_all2 by lia. rewrite app_nil_r. reflexivity.
Qed.

Lemma rd_u8_app b r : rd_u8 (b :: r) = Ok (b2n b, r).
Proof. reflexivity. Qed.

(* ---- prefix (truncation) behaviour: a parser that succeeds on a prefix of the file succeeds identically
        on the whole file; so if the whole file needs every byte, every proper prefix fails ---- *)
Definition extends {A} (p : parser A) : Prop :=
  forall bs ext a r, p bs = Ok (a, r) -> p (bs ++ ext) = Ok (a, r ++ ext).

Lemma rd_exact_extends n : extends (rd_exact n).
Proof.
  intros bs ext a r H. apply rd_exact_ok in H as [-> Hl]. rewrite <- app_assoc. apply rd_exact_app. exact Hl.
Qed.

Lemma pbind_extends {A B} (p : parser A) (f : A -> parser B) :
  extends p -> (forall a, extends (f a)) -> extends (pbind p f).
Proof.
  intros Hp Hf bs ext b r. unfold pbind. destruct (p bs) as [[a r0]| | |] eqn:E; try discriminate.
  intro H. rewrite (Hp _ ext _ _ E). apply Hf. exact H.
Qed.

Lemma ret_extends {A} (a : A) : extends (ret a).
Proof. intros bs ext a' r H. inversion H; subst. reflexivity. Qed.

Lemma fail_extends {A} e : extends (@fail A e).
Proof. intros bs ext a r H. discriminate. Qed.

(* on a short input a parser can only fail with an error or succeed: never panic -- stated per parser *)
