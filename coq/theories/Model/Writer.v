(* Hand model of src/io/slippi/ser.rs and of the hand-written part of src/frame/immutable/slippi.rs
   (Data/PortData/Frame::write).  Every unwrap / index / assert of the Rust is a Panic branch. *)
From Coq Require Import List Arith NArith ZArith Lia Bool String.
From Coq.Strings Require Import Byte.
From Peppi Require Import Base.Bytes Base.Outcome Base.Stream Layout.Syntax Gen.Funs Layout.Sem Layout.Rows
  Model.Ubjson Model.Start Model.Json Model.Parse Model.Reader.
Import ListNotations.
Notation length := (@List.length _) (only parsing).
Local Open Scope N_scope.

Definition nn (n : nat) : N := N.of_nat n.

(* payload_sizes(game): ordered (event code, size) *)
Definition payload_sizes (g : game) : outcome (list (N * N)) :=
  let v := st_version (g_start g) in
  let u16 (n : N) : outcome N := if 65535 <? n then Panic 401 else Ok n in
  s0 <- u16 (nn (length (st_bytes (g_start g)))) ;;
  s1 <- u16 (6 + nn (size_fn v "Pre")) ;;
  s2 <- u16 (6 + nn (size_fn v "Post")) ;;
  s3 <- u16 (match g_end g with Some e => nn (length (en_bytes e)) | None => game_End_size v end) ;;
  let base := [(Event_GameStart, s0); (Event_FramePre, s1); (Event_FramePost, s2); (Event_GameEnd, s3)] in
  if vgte v 2 2 then
    s4 <- u16 (4 + nn (size_fn v "Start")) ;;
    if vgte v 3 0 then
      s5 <- u16 (4 + nn (size_fn v "Item")) ;;
      s6 <- u16 (4 + nn (size_fn v "End")) ;;
      let l := base ++ [(Event_FrameStart, s4); (Event_Item, s5); (Event_FrameEnd, s6)] in
      if vgte v 3 3 then
        match g_gecko g with
        | Some c => Ok (l ++ [(Event_GeckoCodes, gk_actual c mod 65536); (Event_MessageSplitter, 516)])
        | None => Ok l
        end
      else Ok l
    else Ok (base ++ [(Event_FrameStart, s4)])
  else Ok base.

Definition unset_bits (b : option (list bool)) : nat :=
  match b with Some l => List.length (filter negb l) | None => O end.

(* frame_counts: frames, frame_data, items *)
Definition frame_counts (fr : frames) : outcome (N * N * N) :=
  let len := length (f_ids fr) in
  let per (d : cdata) : outcome nat :=
      if (len <? unset_bits (c_valid d))%nat then Panic 402 else Ok (len - unset_bits (c_valid d))%nat in
  fd <- fold_left (fun acc c => a <- acc ;; l <- per (sl_data c) ;; Ok (a + l)%nat) (f_chars fr) (Ok O) ;;
  Ok (nn len, nn fd, match f_item fr with Some it => nn (length it) | None => 0 end).

Definition gecko_codes_size (c : gecko_t) : outcome N :=
  if negb (Nat.eqb (length (gk_bytes c) mod 512) 0) then Panic 403
  else Ok (nn (length (gk_bytes c)) / 512 * 517).

Definition raw_size (sizes : list (N * N)) (g : game) : outcome N :=
  '(frames, fdata, items) <- frame_counts (g_frames g) ;;
  let sz (c : N) : option N := lookup_size sizes c in
  match sz Event_GameStart, sz Event_GameEnd, sz Event_FramePre, sz Event_FramePost with
  | Some gs, Some ge, Some pre, Some post =>
      gk <- (match g_gecko g with Some c => gecko_codes_size c | None => Ok 0 end) ;;
      let dbl := match g_quirk g with Some true => true | _ => false end in
      Ok (1 + 1 + 3 * nn (length sizes)
          + 1 + gs
          + (match g_end g with Some _ => 1 + ge | None => 0 end)
          + (match g_end g with Some _ => if dbl then 1 + ge else 0 | None => 0 end)
          + fdata * (1 + pre) + fdata * (1 + post)
          + (match sz Event_FrameStart with Some s => frames * (1 + s) | None => 0 end)
          + (match sz Event_FrameEnd with Some s => frames * (1 + s) | None => 0 end)
          + (match sz Event_Item with Some s => items * (1 + s) | None => 0 end)
          + gk)
  | _, _, _, _ => Panic 404
  end.

Definition i32_bytes (z : Z) : list byte := be_enc 4 (Z.to_N (z mod 4294967296)%Z).
Definition ev (code : N) : list byte := [n2b code].

(* gecko_codes(w, codes) *)
Fixpoint gecko_blocks (fuel : nat) (pos : nat) (c : gecko_t) : outcome (list byte) :=
  match fuel with
  | O => Fuel
  | S f =>
      let actual := N.to_nat (gk_actual c) in
      if (pos <? actual)%nat then
        if (length (gk_bytes c) <? pos + 512)%nat then Panic 405     (* codes.bytes[pos..pos + 512] *)
        else
          let blk := firstn 512 (skipn pos (gk_bytes c)) in
          let sz := Nat.min 512 (actual - pos) in
          let pos' := (pos + 512)%nat in
          rest <- gecko_blocks f pos' c ;;
          Ok (ev Event_MessageSplitter ++ blk ++ be_enc 2 (nn sz) ++ ev Event_GeckoCodes
              ++ [n2b (if (actual <=? pos')%nat then 1 else 0)] ++ rest)
      else Ok []
  end.

Definition valid_at (b : option (list bool)) (idx : nat) : outcome bool :=
  match b with
  | None => Ok true
  | Some l => match nth_error l idx with Some x => Ok x | None => Panic 406 end   (* get_bit out of range *)
  end.

Definition row_at (rows : list row) (idx : nat) : outcome row :=
  match nth_error rows idx with Some r => Ok r | None => Panic 407 end.   (* value(i) out of range *)

(* Data::write_pre / write_post *)
Definition write_char (v : version) (pre : bool) (d : cdata) (idx : nat) (id : Z) (port : N) (fol : bool)
  : outcome (list byte) :=
  ok <- valid_at (c_valid d) idx ;;
  if ok then
    r <- row_at (if pre then c_pre d else c_post d) idx ;;
    Ok (ev (if pre then Event_FramePre else Event_FramePost) ++ i32_bytes id ++ [n2b port; n2b (if fol then 1 else 0)]
        ++ write_row v (if pre then "Pre" else "Post") r)
  else Ok [].

(* PortData::write_pre / write_post, per character slot (the follower's presence is checked twice, as in the code) *)
Definition write_slot (v : version) (pre : bool) (c : slot) (idx : nat) (id : Z) : outcome (list byte) :=
  if sl_fol c then
    ok <- valid_at (c_valid (sl_data c)) idx ;;
    if ok then write_char v pre (sl_data c) idx id (sl_port c) true else Ok []
  else write_char v pre (sl_data c) idx id (sl_port c) false.

Fixpoint concat_out (l : list (outcome (list byte))) : outcome (list byte) :=
  match l with
  | [] => Ok []
  | x :: r => a <- x ;; b <- concat_out r ;; Ok (a ++ b)
  end.

Definition write_frame (v : version) (fr : frames) (idx : nat) (id : Z) : outcome (list byte) :=
  s <- (if vgte v 2 2 then
          match f_start fr with
          | Some rows => r <- row_at rows idx ;; Ok (ev Event_FrameStart ++ i32_bytes id ++ write_row v "Start" r)
          | None => Panic 408
          end
        else Ok []) ;;
  pres <- concat_out (map (fun c => write_slot v true c idx id) (f_chars fr)) ;;
  its <- (if vgte v 3 0 then
            match f_item_off fr, f_item fr with
            | Some offs, Some items =>
                match nth_error offs idx, nth_error offs (S idx) with
                | Some a, Some b =>
                    concat_out (map (fun k => r <- row_at items k ;;
                                              Ok (ev Event_Item ++ i32_bytes id ++ write_row v "Item" r))
                                    (seq (Z.to_nat a) (Z.to_nat b - Z.to_nat a)))
                | _, _ => Panic 409
                end
            | _, _ => Panic 410
            end
          else Ok []) ;;
  posts <- concat_out (map (fun c => write_slot v false c idx id) (f_chars fr)) ;;
  e <- (if vgte v 3 0 then
          match f_end fr with
          | Some rows => r <- row_at rows idx ;; Ok (ev Event_FrameEnd ++ i32_bytes id ++ write_row v "End" r)
          | None => Panic 411
          end
        else Ok []) ;;
  Ok (s ++ pres ++ its ++ posts ++ e).

Definition write_frames (v : version) (fr : frames) : outcome (list byte) :=
  concat_out (map (fun p => write_frame v fr (fst p) (snd p)) (combine (seq 0 (length (f_ids fr))) (f_ids fr))).

Definition sig_meta_full : list byte := map n2b [85; 8; 109; 101; 116; 97; 100; 97; 116; 97; 123].

(* slippi::write *)
Definition slp_write (g : game) : outcome (list byte) :=
  let v := st_version (g_start g) in
  if negb (assert_max_version_ok v) then Err EInvalid else
  sizes <- payload_sizes g ;;
  rs <- raw_size sizes g ;;
  _ <- (if 255 <? nn (length sizes) * 3 + 1 then Panic 412 else Ok tt) ;;
  let table := flat_map (fun p => n2b (fst p) :: be_enc 2 (snd p)) sizes in
  gk <- (match g_gecko g with Some c => gecko_blocks (S (length (gk_bytes c))) 0 c | None => Ok [] end) ;;
  fr <- write_frames v (g_frames g) ;;
  let en := match g_end g with
            | Some e => let one := ev Event_GameEnd ++ en_bytes e in
                        one ++ (match g_quirk g with Some true => one | _ => [] end)
            | None => []
            end in
  md <- (match g_meta g with
         | Some m => b <- write_map m ;; Ok (sig_meta_full ++ b ++ [x7d])
         | None => Ok []
         end) ;;
  Ok (sig_slp ++ be_enc 4 (rs mod 4294967296)
      ++ ev Event_Payloads ++ [n2b (nn (length sizes) * 3 + 1)] ++ table
      ++ ev Event_GameStart ++ st_bytes (g_start g)
      ++ gk ++ fr ++ en ++ md ++ [x7d]).
