(* Hand model of the Peppi (.slpp) writer and reader (src/io/peppi/{ser,de,mod}.rs).
   Two levels:
   * entry level (Section Entries): the archive as an ordered list of (file name, content); tar itself, serde_json
     and the Arrow IPC encoding are parameters with stated inverse-pair hypotheses;
   * byte level (tar_bytes): the tar blocks tar::Builder emits for GNU headers with zeroed metadata, used by the
     correspondence run to predict the archive byte for byte from the opaque JSON/Arrow blobs of the real run. *)
From Coq Require Import List Arith NArith ZArith Lia Bool String.
From Coq.Strings Require Import Byte.
From Peppi Require Import Base.Bytes Base.Outcome Gen.Funs Model.Ubjson Model.Start Model.Json Model.Parse Model.Reader.
Import ListNotations.
Notation length := (@List.length _) (only parsing).
Local Open Scope string_scope.

Notation entry := (list byte * list byte)%type (only parsing).     (* path, content *)

Inductive compression := CNone | CLz4 | CZstd.

Record sgame := { sg_game : game; sg_hash : option (list byte) }.

(* Path::file_name() of an entry path: the part after the last '/' (paths ending in '/', '.' or '..' are not produced
   by the generators and are outside the model) *)
Fixpoint basename_acc (acc : list byte) (p : list byte) : list byte :=
  match p with
  | [] => acc
  | b :: r => if Byte.eqb b x2f then basename_acc [] r else basename_acc (acc ++ [b]) r
  end.
Definition basename (p : list byte) : list byte := basename_acc [] p.

Inductive kind := KPeppi | KMeta | KStartJson | KStartRaw | KEndJson | KEndRaw | KGecko | KFrames | KOther.

Definition name_of (k : kind) : list byte :=
  sb (match k with
      | KPeppi => "peppi.json" | KMeta => "metadata.json" | KStartJson => "start.json" | KStartRaw => "start.raw"
      | KEndJson => "end.json" | KEndRaw => "end.raw" | KGecko => "gecko_codes.raw" | KFrames => "frames.arrow"
      | KOther => "" end).

Definition name_is (p : list byte) (k : kind) : bool := bytes_eqb (basename p) (name_of k).

(* the reader's match on the file name; start.json and end.json are not read (anything else is skipped) *)
Definition kind_of (p : list byte) : kind :=
  if name_is p KPeppi then KPeppi else if name_is p KStartRaw then KStartRaw else if name_is p KEndRaw then KEndRaw
  else if name_is p KMeta then KMeta else if name_is p KGecko then KGecko else if name_is p KFrames then KFrames
  else KOther.

(* gecko_codes.raw: actual_size as u32 little-endian, then the bytes *)
Definition le32 (n : N) : list byte := rev (be_enc 4 (n mod 4294967296)%N).
Definition le32_dec (b : list byte) : N := be_dec (rev b).

Section Entries.
  (* serde_json / arrow2 as parameters *)
  Variable enc_peppi : version -> option (list byte) -> option bool -> list byte.
  Variable dec_peppi : list byte -> option (version * option (list byte) * option bool).
  Variable enc_meta : option utree -> list byte.
  Variable dec_meta : list byte -> option (option utree).         (* None: not an object or null / invalid JSON *)
  Variable enc_start : start_t -> list byte.
  Variable enc_end : end_t -> list byte.
  Variable enc_frames : compression -> version -> list (N * bool) -> frames -> outcome (list byte).
  Variable dec_frames : version -> list byte -> outcome frames.

  (* peppi::write *)
  Definition slpp_write (c : compression) (g : sgame) : outcome (list entry) :=
    let gm := sg_game g in
    let st := g_start gm in
    let v := st_version st in
    if negb (assert_max_version_ok v) then Err EInvalid else
    fr <- enc_frames c v (port_occupancy st) (g_frames gm) ;;
    Ok ([(name_of KPeppi, enc_peppi PEPPI_CURRENT_VERSION (sg_hash g) (g_quirk gm));
         (name_of KMeta, enc_meta (g_meta gm));
         (name_of KStartJson, enc_start st);
         (name_of KStartRaw, st_bytes st)]
        ++ (match g_end gm with Some e => [(name_of KEndJson, enc_end e); (name_of KEndRaw, en_bytes e)] | None => [] end)
        ++ (match g_gecko gm with Some k => [(name_of KGecko, le32 (gk_actual k) ++ gk_bytes k)] | None => [] end)
        ++ [(name_of KFrames, fr)])%list.

  (* peppi::read: dispatch on the entry's file name; stop at frames.arrow *)
  Record racc := {
    ra_start : option start_t; ra_end : option end_t; ra_meta : option utree; ra_gecko : option gecko_t;
    ra_frames : option frames; ra_peppi : option (version * option (list byte) * option bool)
  }.
  Definition racc0 : racc :=
    {| ra_start := None; ra_end := None; ra_meta := None; ra_gecko := None; ra_frames := None; ra_peppi := None |}.

  Definition res_out {A} (r : res A) : outcome A :=
    match r with ROk a => Ok a | RErr => Err EInvalid | RUnknown => Err EUnknown end.

  Definition upd (a : racc) (st : option start_t) (en : option end_t) (m : option utree) (gk : option gecko_t)
             (fr : option frames) (pp : option (version * option (list byte) * option bool)) : racc :=
    {| ra_start := st; ra_end := en; ra_meta := m; ra_gecko := gk; ra_frames := fr; ra_peppi := pp |}.

  Fixpoint read_entries (skip : bool) (es : list entry) (a : racc) : outcome racc :=
    match es with
    | [] => Ok a
    | (p, c) :: r =>
      match kind_of p with
      | KPeppi =>
        match dec_peppi c with
        | None => Err EJson
        | Some (pv, h, q) =>
            if assert_current_version_ok pv
            then read_entries skip r (upd a (ra_start a) (ra_end a) (ra_meta a) (ra_gecko a) (ra_frames a) (Some (pv, h, q)))
            else Err EInvalid
        end
      | KStartRaw =>
        s <- res_out (game_start c) ;;
        read_entries skip r (upd a (Some s) (ra_end a) (ra_meta a) (ra_gecko a) (ra_frames a) (ra_peppi a))
      | KEndRaw =>
        e <- res_out (game_end c) ;;
        read_entries skip r (upd a (ra_start a) (Some e) (ra_meta a) (ra_gecko a) (ra_frames a) (ra_peppi a))
      | KMeta =>
        match dec_meta c with
        | None => Err EJson
        | Some m => read_entries skip r (upd a (ra_start a) (ra_end a) m (ra_gecko a) (ra_frames a) (ra_peppi a))
        end
      | KGecko =>
        if (length c <? 4)%nat then Err EIo
        else read_entries skip r (upd a (ra_start a) (ra_end a) (ra_meta a)
                                      (Some {| gk_bytes := skipn 4 c; gk_actual := le32_dec (firstn 4 c) |})
                                      (ra_frames a) (ra_peppi a))
      | KFrames =>
        match ra_start a with
        | None => Err EInvalid
        | Some s =>
            fr <- (if skip then Ok (frames_new (st_version s) (port_occupancy s)) else dec_frames (st_version s) c) ;;
            Ok (upd a (ra_start a) (ra_end a) (ra_meta a) (ra_gecko a) (Some fr) (ra_peppi a))      (* break *)
        end
      | _ => read_entries skip r a       (* unknown entry (start.json and end.json included): skipped *)
      end
    end.

  Definition slpp_read (skip : bool) (es : list entry) : outcome sgame :=
    a <- read_entries skip es racc0 ;;
    match ra_peppi a with
    | None => Err EInvalid
    | Some (_, h, q) =>
        match ra_start a with
        | None => Err EInvalid
        | Some s =>
            match ra_frames a with
            | None => Err EInvalid
            | Some fr =>
                Ok {| sg_game := {| g_start := s; g_end := ra_end a; g_frames := fr; g_meta := ra_meta a;
                                     g_gecko := ra_gecko a; g_hashed := None; g_quirk := q |};
                      sg_hash := h |}
            end
        end
    end.
End Entries.

(* ---- byte level: tar blocks ---- *)
Definition oct_digits (w : nat) (n : N) : list byte :=
  map (fun k => n2b (48 + (n / 8 ^ N.of_nat k) mod 8)%N) (rev (seq 0 w)).

Definition pad_to (n : nat) (b : list byte) : list byte := b ++ repeat x00 (n - length b).

Definition zeros (n : nat) : list byte := repeat x00 n.

(* GNU header as tar::Header::new_gnu + set_size/set_path/set_mode(0o644)/set_cksum leave it *)
Definition tar_header_nock (name : list byte) (size : nat) (ck : list byte) : list byte :=
  pad_to 100 name ++ sb "0000644" ++ [x00] ++ zeros 8 ++ zeros 8
  ++ oct_digits 11 (N.of_nat size) ++ [x00] ++ oct_digits 11 0 ++ [x00]
  ++ ck ++ [x00] ++ zeros 100 ++ sb "ustar  " ++ [x00] ++ zeros (512 - 265).

Definition sum_bytes (b : list byte) : N := fold_left (fun a x => (a + b2n x)%N) b 0%N.

Definition tar_header (name : list byte) (size : nat) : list byte :=
  let ck := sum_bytes (tar_header_nock name size (repeat x20 8)) in
  tar_header_nock name size (oct_digits 7 ck ++ [x00]).

Definition tar_entry (e : entry) : list byte :=
  tar_header (fst e) (length (snd e)) ++ snd e ++ zeros ((512 - length (snd e) mod 512) mod 512).

Definition tar_bytes (es : list entry) : list byte := flat_map tar_entry es ++ zeros 1024.

(* peppi.json exactly as serde_json renders peppi::Peppi (hash strings are "xxh3:" + hex: no escaping needed) *)
Definition peppi_json (v : version) (hash : option (list byte)) (quirks : option bool) : list byte :=
  sb "{""version"":[" ++ show_N (v0 v) ++ sb "," ++ show_N (v1 v) ++ sb "," ++ show_N (v2 v) ++ sb "]"
  ++ (match hash with Some h => sb ",""slp_hash"":""" ++ h ++ sb """" | None => [] end)
  ++ (match quirks with Some q => sb ",""quirks"":{""double_game_end"":" ++ sb (if q then "true" else "false") ++ sb "}" | None => [] end)
  ++ sb "}".
