(* Hand model of src/io/ubjson/{de,ser}.rs: the UBJSON subset used for replay metadata. *)
From Coq Require Import List Arith NArith Lia Bool ZifyBool ZifyN ZifyNat.
From Coq.Strings Require Import Byte.
From Peppi Require Import Base.Bytes Base.Outcome Gen.Funs Model.Utf8.
Import ListNotations.
Notation length := (@List.length _) (only parsing).

Definition key := list byte.

Inductive uval :=
| UStr (s : list byte)
| UInt (n : N)                      (* the 32-bit pattern of the i32 *)
| UMap (m : list (key * uval)).
Definition utree := list (key * uval).

Definition bytes_eqb (a b : list byte) : bool :=
  (length a =? length b)%nat && forallb (fun p => Byte.eqb (fst p) (snd p)) (combine a b).

(* serde_json::Map (IndexMap with preserve_order) insert: replace in place, else append *)
Fixpoint insert (k : key) (v : uval) (m : utree) : utree :=
  match m with
  | [] => [(k, v)]
  | (k', v') :: r => if bytes_eqb k k' then (k', v) :: r else (k', v') :: insert k v r
  end.

Definition xU : byte := x55.   (* 'U' *)
Definition xS : byte := x53.   (* 'S' *)
Definition xl : byte := x6c.   (* 'l' *)
Definition xOpen : byte := x7b.  (* '{' *)
Definition xClose : byte := x7d. (* '}' *)

(* to_utf8: u8 length, bytes, String::from_utf8 *)
Definition rd_str (bs : list byte) : outcome (list byte * list byte) :=
  match bs with
  | [] => Err EIo
  | n :: r =>
      let len := N.to_nat (b2n n) in
      if (length r <? len)%nat then Err EIo
      else let s := firstn len r in
           if utf8_valid s then Ok (s, skipn len r) else Err EUtf8
  end.

(* read_map_at's loop (entries) with the depth of the map being read; the depth check of a nested map is done
   before descending, as read_map_at does on entry.  fuel: every call consumes at least one byte. *)
Fixpoint entries (fuel : nat) (depth : N) (acc : utree) (bs : list byte) {struct fuel}
  : outcome (utree * list byte) :=
  match fuel with
  | O => Fuel
  | S f =>
    match bs with
    | [] => Err EIo
    | c :: r =>
      if Byte.eqb c xU then
        '(k, r1) <- rd_str r ;;
        match r1 with
        | [] => Err EIo
        | t :: r2 =>
          if Byte.eqb t xS then
            match r2 with
            | [] => Err EIo
            | u :: r3 =>
              if Byte.eqb u xU then
                '(s, r4) <- rd_str r3 ;; entries f depth (insert k (UStr s) acc) r4
              else Err EInvalid
            end
          else if Byte.eqb t xl then
            if (length r2 <? 4)%nat then Err EIo
            else entries f depth (insert k (UInt (be_dec (firstn 4 r2))) acc) (skipn 4 r2)
          else if Byte.eqb t xOpen then
            if (UBJSON_MAX_DEPTH <? depth + 1)%N then Err EInvalid
            else '(m, r3) <- entries f (depth + 1)%N [] r2 ;; entries f depth (insert k (UMap m) acc) r3
          else Err EInvalid
        end
      else if Byte.eqb c xClose then Ok (acc, r)
      else Err EInvalid
    end
  end.

(* ubjson::read_map: the caller has consumed the opening brace; consumes the matching closing brace *)
Definition read_map (bs : list byte) : outcome (utree * list byte) :=
  if (UBJSON_MAX_DEPTH <? 1)%N then Err EInvalid else entries (S (length bs)) 1 [] bs.

(* ---- writer ---- *)
Definition wr_str (s : list byte) : outcome (list byte) :=
  if (255 <? length s)%nat then Panic 101   (* s.len().try_into::<u8>().unwrap() *)
  else Ok (xU :: n2b (N.of_nat (length s)) :: s).

Fixpoint write_val (v : uval) : outcome (list byte) :=
  match v with
  | UStr s => b <- wr_str s ;; Ok (xS :: b)
  | UInt n => if (n <? 4294967296)%N then Ok (xl :: be_enc 4 n) else Panic 102  (* i32::try_from(..).unwrap() *)
  | UMap m =>
      b <- (fix go (m : utree) : outcome (list byte) :=
              match m with
              | [] => Ok []
              | (k, v) :: r => kb <- wr_str k ;; vb <- write_val v ;; rb <- go r ;; Ok (kb ++ vb ++ rb)
              end) m ;;
      Ok (xOpen :: b ++ [xClose])
  end.

Fixpoint write_map (m : utree) : outcome (list byte) :=
  match m with
  | [] => Ok []
  | (k, v) :: r => kb <- wr_str k ;; vb <- write_val v ;; rb <- write_map r ;; Ok (kb ++ vb ++ rb)
  end.

(* ---- well-formed trees: what the property quantifies over ---- *)
Definition str_ok (s : list byte) : Prop := (length s <= 255)%nat /\ utf8_valid s = true.

Fixpoint keys_distinct (ks : list key) : Prop :=
  match ks with [] => True | k :: r => (forall k', In k' r -> bytes_eqb k k' = false) /\ keys_distinct r end.

Fixpoint depth_val (v : uval) : N :=
  match v with
  | UMap m => 1 + (fix go (m : utree) : N := match m with [] => 0 | (_, v) :: r => N.max (depth_val v) (go r) end) m
  | _ => 0
  end%N.
Fixpoint depth_map (m : utree) : N := match m with [] => 0 | (_, v) :: r => N.max (depth_val v) (depth_map r) end%N.

Inductive wf_val : uval -> Prop :=
| wf_str s : str_ok s -> wf_val (UStr s)
| wf_int n : (n < 4294967296)%N -> wf_val (UInt n)
| wf_map m : wf_tree m -> wf_val (UMap m)
with wf_tree : utree -> Prop :=
| wf_nil : wf_tree []
| wf_cons k v r : str_ok k -> wf_val v -> wf_tree r -> (forall k' v', In (k', v') r -> bytes_eqb k k' = false) -> wf_tree ((k, v) :: r).

Scheme wf_val_ind2 := Induction for wf_val Sort Prop
  with wf_tree_ind2 := Induction for wf_tree Sort Prop.
