(* From a parsed game back to an abstract replay: the witness used to ask whether a given file (e.g. a fixture recorded by
   real software) lies in the class the theorems quantify over: r := replay_of_game (read file); then check by computation
   that wf_replay r = true and emit r = file.  No theorem depends on this file. *)
From Coq Require Import List Arith NArith ZArith Bool String.
From Coq.Strings Require Import Byte.
From Peppi Require Import Base.Bytes Base.Outcome Base.Stream Gen.Funs Model.Ubjson Model.Start Model.Parse Model.Reader Model.Writer Model.Recorder.
Import ListNotations.

Definition valid_bit (d : cdata) (i : nat) : bool :=
  match c_valid d with Some b => nth i b true | None => true end.

Definition frame_at (fr : frames) (i : nat) : aframe :=
  {| af_id := nth i (f_ids fr) 0%Z;
     af_start := match f_start fr with Some rows => nth i rows [] | None => [] end;
     af_slots := map (fun c => if valid_bit (sl_data c) i
                               then Some (nth i (c_pre (sl_data c)) [], nth i (c_post (sl_data c)) [])
                               else None) (f_chars fr);
     af_items := match f_item_off fr, f_item fr with
                 | Some offs, Some items =>
                     let a := Z.to_nat (nth i offs 0%Z) in let b := Z.to_nat (nth (S i) offs 0%Z) in
                     firstn (b - a) (skipn a items)
                 | _, _ => []
                 end;
     af_end := match f_end fr with Some rows => nth i rows [] | None => [] end |}.

Definition replay_of_game (g : game) : replay :=
  {| r_start := st_bytes (g_start g);
     r_gecko := g_gecko g;
     r_frames := map (frame_at (g_frames g)) (seq 0 (List.length (f_ids (g_frames g))));
     r_end := match g_end g with
              | Some e => match g_quirk g with Some true => TwoEnds (en_bytes e) | _ => OneEnd (en_bytes e) end
              | None => NoEnd
              end;
     r_meta := g_meta g |}.

(* is this byte string the canonical stream of a well-formed replay?  (Some true: yes, with the witness above) *)
Definition in_class (bs : list byte) : option bool :=
  match slp_read {| o_skip := false; o_hash := false |} bs with
  | Ok (g, rest) =>
      let r := replay_of_game g in
      Some (match rest with [] => true | _ => false end && wf_replay r && list_byte_eqb (emit r) bs)
  | _ => None
  end.
