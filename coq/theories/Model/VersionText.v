(* Hand model of Version Display / FromStr (src/io/slippi/mod.rs, src/io/peppi/mod.rs) and of
   parse_u8 (src/io/mod.rs) = std's u8::from_str.  Strings are lists of character codes (N). *)
From Coq Require Import List NArith Bool Lia ZifyBool ZifyN.
From Peppi Require Import Gen.Funs.
Import ListNotations.
Local Open Scope N_scope.

Definition str := list N.
Definition DOT : N := 46.
Definition PLUS : N := 43.

(* ---- Display: write!(f, "{}.{}.{}", self.0, self.1, self.2) on u8 components ---- *)
Definition show_u8 (n : N) : str :=
  if n <? 10 then [48 + n]
  else if n <? 100 then [48 + n / 10; 48 + n mod 10]
  else [48 + n / 100; 48 + (n / 10) mod 10; 48 + n mod 10].

Definition show (v : version) : str := show_u8 (v0 v) ++ [DOT] ++ show_u8 (v1 v) ++ [DOT] ++ show_u8 (v2 v).

(* ---- u8::from_str: optional '+', at least one ASCII digit, value <= 255 (leading zeros allowed) ---- *)
Definition is_digit (c : N) : bool := (48 <=? c) && (c <=? 57).

Fixpoint digits_val (acc : N) (s : str) : option N :=
  match s with
  | [] => Some acc
  | c :: r => if is_digit c then
                let acc' := acc * 10 + (c - 48) in
                if 255 <? acc' then None else digits_val acc' r
              else None
  end.

Definition parse_u8 (s : str) : option N :=
  match s with
  | [] => None
  | c :: r =>
      if c =? PLUS then match r with [] => None | _ => digits_val 0 r end
      else digits_val 0 s
  end.

(* ---- str::split('.') ---- *)
Fixpoint split_dot_acc (cur : str) (s : str) : list str :=
  match s with
  | [] => [rev cur]
  | c :: r => if c =? DOT then rev cur :: split_dot_acc [] r else split_dot_acc (c :: cur) r
  end.
Definition split_dot (s : str) : list str := split_dot_acc [] s.

Definition parse (s : str) : option version :=
  match split_dot s with
  | [a; b; c] =>
      match parse_u8 a, parse_u8 b, parse_u8 c with
      | Some x, Some y, Some z => Some (x, y, z)
      | _, _, _ => None
      end
  | _ => None
  end.

(* ---- intercalate, the inverse of split ---- *)
Fixpoint join_dot (l : list str) : str :=
  match l with
  | [] => []
  | [a] => a
  | a :: r => a ++ DOT :: join_dot r
  end.

Definition nodot (s : str) : Prop := ~ In DOT s.

Lemma split_acc_app cur a rest :
  nodot a -> split_dot_acc cur (a ++ rest) = split_dot_acc (rev a ++ cur) rest.
Proof.
  revert cur. induction a as [|c a IH]; intros cur H; [reflexivity|].
  cbn [app split_dot_acc]. destruct (N.eqb_spec c DOT) as [->|Hne].
  - exfalso. apply H. left. reflexivity.
  - rewrite IH.
    + change (rev (c :: a)) with (rev a ++ [c]). rewrite <- app_assoc. reflexivity.
    + intro Hin. apply H. right. exact Hin.
Qed.

Lemma split_join l : l <> [] -> Forall nodot l -> split_dot (join_dot l) = l.
Proof.
  unfold split_dot. induction l as [|a r IH]; intros Hne Hall; [congruence|].
  inversion Hall as [|? ? Ha Hr]; subst.
  destruct r as [|b r'].
  - cbn [join_dot]. rewrite <- (app_nil_r a) at 1. rewrite split_acc_app by exact Ha.
    cbn. rewrite app_nil_r, rev_involutive. reflexivity.
  - change (join_dot (a :: b :: r')) with (a ++ DOT :: join_dot (b :: r')).
    rewrite split_acc_app by exact Ha. cbn [split_dot_acc]. rewrite N.eqb_refl.
    rewrite app_nil_r, rev_involutive. f_equal. apply IH; [discriminate|exact Hr].
Qed.

Lemma join_split_acc cur s :
  nodot cur -> join_dot (split_dot_acc cur s) = rev cur ++ s /\ Forall nodot (split_dot_acc cur s) /\ split_dot_acc cur s <> [].
Proof.
  revert cur. induction s as [|c r IH]; intros cur Hc.
  - cbn. rewrite app_nil_r. repeat split; [|discriminate].
    constructor; [|constructor]. intro H. apply Hc. apply in_rev. exact H.
  - cbn [split_dot_acc]. destruct (N.eqb_spec c DOT) as [->|Hne].
    + destruct (IH [] (fun H => H)) as [Hj [Hf Hn]]. repeat split; [| |discriminate].
      * destruct (split_dot_acc [] r) as [|x xs] eqn:E; [congruence|].
        change (join_dot (rev cur :: x :: xs)) with (rev cur ++ DOT :: join_dot (x :: xs)).
        rewrite Hj. reflexivity.
      * constructor; [|exact Hf]. intro H. apply Hc. apply in_rev. exact H.
    + assert (Hc' : nodot (c :: cur)).
      { intros [H|H]; [congruence|exact (Hc H)]. }
      destruct (IH _ Hc') as [Hj [Hf Hn]]. repeat split; [|exact Hf|exact Hn].
      rewrite Hj. change (rev (c :: cur)) with (rev cur ++ [c]). rewrite <- app_assoc. reflexivity.
Qed.

Lemma join_split s : join_dot (split_dot s) = s /\ Forall nodot (split_dot s) /\ split_dot s <> [].
Proof. unfold split_dot. apply (join_split_acc [] s). intros []. Qed.

(* ---- finite sweeps over one u8 component, lifted by forallb_forall ---- *)
Definition range256 : list N := map N.of_nat (seq 0 256).

Lemma range256_in n : n < 256 -> In n range256.
Proof.
  intro H. unfold range256. apply in_map_iff. exists (N.to_nat n). split; [lia|].
  apply in_seq. lia.
Qed.

Lemma show_parse_u8_sweep :
  forallb (fun n => match parse_u8 (show_u8 n) with Some m => n =? m | None => false end
                    && forallb (fun c => negb (c =? DOT)) (show_u8 n)) range256 = true.
Proof. vm_compute. reflexivity. Qed.

Lemma show_parse_u8 n : n < 256 -> parse_u8 (show_u8 n) = Some n /\ nodot (show_u8 n).
Proof.
  intro H. pose proof show_parse_u8_sweep as S. rewrite forallb_forall in S.
  specialize (S n (range256_in n H)). apply andb_true_iff in S as [S1 S2].
  split.
  - destruct (parse_u8 (show_u8 n)) as [m|]; [|discriminate]. f_equal. symmetry. lia.
  - intro Hin. rewrite forallb_forall in S2. specialize (S2 DOT Hin). rewrite N.eqb_refl in S2. discriminate.
Qed.

Lemma show_is_join v : show v = join_dot [show_u8 (v0 v); show_u8 (v1 v); show_u8 (v2 v)].
Proof. unfold show. reflexivity. Qed.

Definition u8_version (v : version) : Prop := v0 v < 256 /\ v1 v < 256 /\ v2 v < 256.

Theorem parse_show v : u8_version v -> parse (show v) = Some v.
Proof.
  intros (H0 & H1 & H2).
  destruct (show_parse_u8 _ H0) as [P0 D0], (show_parse_u8 _ H1) as [P1 D1], (show_parse_u8 _ H2) as [P2 D2].
  unfold parse. rewrite show_is_join, split_join.
  - rewrite P0, P1, P2. destruct v as [[a b] c]. reflexivity.
  - discriminate.
  - repeat constructor; assumption.
Qed.

(* every accepted component is a u8 *)
Lemma digits_val_bound acc s n : acc <= 255 -> digits_val acc s = Some n -> n <= 255.
Proof.
  revert acc. induction s as [|c r IH]; intros acc Ha H; cbn in H.
  - inversion H; subst. exact Ha.
  - destruct (is_digit c); [|discriminate].
    destruct (255 <? acc * 10 + (c - 48)) eqn:E; [discriminate|].
    eapply IH; [|exact H]. lia.
Qed.

Lemma parse_u8_bound s n : parse_u8 s = Some n -> n < 256.
Proof.
  unfold parse_u8. destruct s as [|c r]; [discriminate|].
  destruct (c =? PLUS).
  - destruct r; [discriminate|]. intro H. apply digits_val_bound in H; lia.
  - intro H. apply digits_val_bound in H; lia.
Qed.

(* exact characterisation of the accepted strings *)
Theorem parse_spec s v :
  parse s = Some v <->
  exists a b c, s = a ++ [DOT] ++ b ++ [DOT] ++ c /\ nodot a /\ nodot b /\ nodot c /\
                parse_u8 a = Some (v0 v) /\ parse_u8 b = Some (v1 v) /\ parse_u8 c = Some (v2 v).
Proof.
  split.
  - unfold parse. intro H. destruct (join_split s) as [Hj [Hf _]].
    destruct (split_dot s) as [|a [|b [|c [|d l]]]]; try discriminate.
    destruct (parse_u8 a) as [x|] eqn:Ea; [|discriminate].
    destruct (parse_u8 b) as [y|] eqn:Eb; [|discriminate].
    destruct (parse_u8 c) as [z|] eqn:Ec; [|discriminate].
    inversion H; subst v. exists a, b, c.
    inversion Hf as [|? ? Ha Hf1]; subst. inversion Hf1 as [|? ? Hb Hf2]; subst. inversion Hf2 as [|? ? Hc _]; subst.
    repeat split; try assumption; try reflexivity; try (symmetry; exact Hj).
  - intros (a & b & c & -> & Ha & Hb & Hc & Pa & Pb & Pc).
    unfold parse.
    replace (a ++ [DOT] ++ b ++ [DOT] ++ c) with (join_dot [a; b; c])
      by reflexivity.
    rewrite split_join; [|discriminate|repeat constructor; assumption].
    rewrite Pa, Pb, Pc. destruct v as [[x y] z]. reflexivity.
Qed.

Theorem parse_is_u8 s v : parse s = Some v -> u8_version v.
Proof.
  intro H. apply parse_spec in H as (a & b & c & _ & _ & _ & _ & Pa & Pb & Pc).
  unfold u8_version. repeat split; eapply parse_u8_bound; eassumption.
Qed.
