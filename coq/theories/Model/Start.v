(* Hand model of game_start / player / game_end / player_end (src/io/slippi/de.rs) and of the serde
   renderings of game::Start / game::End (src/game/mod.rs).  Numbers are bit patterns (N); f32 are their 32 bits. *)
From Coq Require Import List Arith NArith ZArith Lia Bool String.
From Coq.Strings Require Import Byte.
From Peppi Require Import Base.Bytes Base.Outcome Base.Stream Gen.Funs Model.Utf8.
Import ListNotations.
Notation length := (@List.length _) (only parsing).
Local Open Scope N_scope.

(* ---- Shift-JIS (encoding_rs SHIFT_JIS, decode_without_bom_handling_and_without_replacement) ----
   Single-byte part modelled exactly (WHATWG): 00-7F -> same code point, 80 -> U+0080, A1-DF -> U+FF61.. ;
   double-byte sequences need the JIS X 0208 index: outside the executable model (SjUnknown). *)
Inductive sj := SjOk (utf8 : list byte) | SjErr | SjUnknown.

Definition utf8_enc (c : N) : list byte :=
  if c <? 128 then [n2b c]
  else if c <? 2048 then [n2b (192 + c / 64); n2b (128 + c mod 64)]
  else if c <? 65536 then [n2b (224 + c / 4096); n2b (128 + (c / 64) mod 64); n2b (128 + c mod 64)]
  else [n2b (240 + c / 262144); n2b (128 + (c / 4096) mod 64); n2b (128 + (c / 64) mod 64); n2b (128 + c mod 64)].

Fixpoint sjis_go (bs : list byte) (acc : list byte) : sj :=
  match bs with
  | [] => SjOk acc
  | b :: r =>
      let x := b2n b in
      if x <=? 128 then sjis_go r (acc ++ utf8_enc x)
      else if (161 <=? x) && (x <=? 223) then sjis_go r (acc ++ utf8_enc (65377 + (x - 161)))
      else if (x =? 160) || (253 <=? x) then SjErr       (* A0, FD, FE, FF are never valid *)
      else SjUnknown                                      (* lead byte of a double-byte sequence *)
  end.

Fixpoint take_until_nul (bs : list byte) : list byte :=
  match bs with
  | [] => []
  | b :: r => if Byte.eqb b x00 then [] else b :: take_until_nul r
  end.

(* impl TryFrom<&[u8]> for MeleeString *)
Definition melee_string (bs : list byte) : sj := sjis_go (take_until_nul bs) [].

(* ---- records ---- *)
Record player := {
  pl_port : N; pl_character : N; pl_type : N; pl_stocks : N; pl_costume : N;
  pl_team : option (N * N);            (* color, shade *)
  pl_handicap : N; pl_bitfield : N; pl_cpu_level : option N;
  pl_offense : N; pl_defense : N; pl_scale : N;
  pl_ucf : option (option N * option N);
  pl_name_tag : option (list byte);
  pl_netplay : option (list byte * list byte * option (list byte))
}.

Record start_t := {
  st_bytes : list byte; st_version : version;
  st_bitfield : list N; st_bombs : bool; st_teams : bool; st_item_freq : N; st_sd_score : N;
  st_stage : N; st_timer : N; st_item_bitfield : list N; st_damage_ratio : N;
  st_players : list player; st_seed : N;
  st_pal : option bool; st_frozen : option bool; st_scene : option (N * N);   (* minor, major *)
  st_language : option N; st_match : option (list byte * N * N)
}.

Record end_t := {
  en_bytes : list byte; en_method : N;
  en_lras : option (option N);
  en_players : option (list (N * N))   (* port, placement *)
}.

(* results that may also be "outside the executable model" *)
Inductive res (A : Type) := ROk (a : A) | RErr | RUnknown.
Arguments ROk {A} a. Arguments RErr {A}. Arguments RUnknown {A}.

Definition mem (x : N) (l : list N) : bool := existsb (N.eqb x) l.

Definition sub (bs : list byte) (off len : nat) : list byte := firstn len (skipn off bs).
Definition u8_at (bs : list byte) (off : nat) : N := be_dec (sub bs off 1).
Definition be_at (bs : list byte) (off w : nat) : N := be_dec (sub bs off w).

(* strings cut at the first NUL, validated as UTF-8 (std::str::from_utf8); [dflt] is unwrap_or's value *)
Definition nul_utf8 (buf : list byte) : res (list byte) :=
  let s := take_until_nul buf in
  if utf8_valid s then ROk s else RErr.

(* suid: first_null = position(0).unwrap_or(28) on a 29-byte field; match id: unwrap_or(50) on 51 bytes.
   Without a NUL the last byte is dropped. *)
Definition nul_utf8_dflt (buf : list byte) (dflt : nat) : res (list byte) :=
  let s := take_until_nul buf in
  let s := if (length s =? length buf)%nat then firstn dflt buf else s in
  if utf8_valid s then ROk s else RErr.

Definition opt_enum (x : N) (codes : list N) : res (option N) :=
  if x =? 0 then ROk None else if mem x codes then ROk (Some x) else RErr.

(* player(): [v0] is the 36-byte block; the optional per-version blocks are passed as options *)
Definition player_of (port : N) (v0b : list byte) (is_teams : bool)
           (v1_0 : option (list byte)) (v1_3 : option (list byte))
           (v3_9n v3_9c : option (list byte)) (v3_11 : option (list byte)) : res (option player) :=
  let ty := u8_at v0b 1 in
  let ucf :=
    match v1_0 with
    | None => ROk None
    | Some b =>
        match opt_enum (be_at b 0 4) DashBack_codes with
        | ROk d => match opt_enum (be_at b 4 4) ShieldDrop_codes with
                   | ROk s => ROk (Some (d, s)) | RErr => RErr | RUnknown => RUnknown end
        | RErr => RErr | RUnknown => RUnknown
        end
    end in
  match ucf with
  | RErr => RErr | RUnknown => RUnknown
  | ROk ucf =>
    let name_tag :=
      match v1_3 with
      | None => ROk None
      | Some b => match melee_string b with SjOk s => ROk (Some s) | SjErr => RErr | SjUnknown => RUnknown end
      end in
    match name_tag with
    | RErr => RErr | RUnknown => RUnknown
    | ROk name_tag =>
      let netplay :=
        match v3_9n, v3_9c with
        | Some nb, Some cb =>
            let suid := match v3_11 with
                        | None => ROk None
                        | Some b => match nul_utf8_dflt b 28 with ROk s => ROk (Some s) | RErr => RErr | RUnknown => RUnknown end
                        end in
            match suid with
            | RErr => RErr | RUnknown => RUnknown
            | ROk suid =>
                match melee_string nb with
                | SjErr => RErr | SjUnknown => RUnknown
                | SjOk n =>
                    match melee_string cb with
                    | SjErr => RErr | SjUnknown => RUnknown
                    | SjOk c => ROk (Some (n, c, suid))
                    end
                end
            end
        | _, _ => ROk None
        end in
      match netplay with
      | RErr => RErr | RUnknown => RUnknown
      | ROk netplay =>
        if mem ty PlayerType_codes then
          ROk (Some {| pl_port := port; pl_character := u8_at v0b 0; pl_type := ty; pl_stocks := u8_at v0b 2;
                       pl_costume := u8_at v0b 3;
                       pl_team := if is_teams then Some (u8_at v0b 9, u8_at v0b 7) else None;
                       pl_handicap := u8_at v0b 8; pl_bitfield := u8_at v0b 12;
                       pl_cpu_level := if ty =? 1 then Some (u8_at v0b 15) else None;
                       pl_offense := be_at v0b 24 4; pl_defense := be_at v0b 28 4; pl_scale := be_at v0b 32 4;
                       pl_ucf := ucf; pl_name_tag := name_tag; pl_netplay := netplay |})
        else ROk None
      end
    end
  end.

Fixpoint chunks (n : nat) (k : nat) (bs : list byte) : list (list byte) :=
  match k with O => [] | S k' => firstn n bs :: chunks n k' (skipn n bs) end.

Fixpoint collect {A} (l : list (res (option A))) : res (list A) :=
  match l with
  | [] => ROk []
  | x :: r =>
      match x with
      | RErr => RErr
      | RUnknown => match collect r with RErr => RErr | _ => RUnknown end
      | ROk o => match collect r with
                 | ROk l' => ROk (match o with Some a => a :: l' | None => l' end)
                 | RErr => RErr | RUnknown => RUnknown end
      end
  end.

Definition rbind {A B} (x : res A) (f : A -> res B) : res B :=
  match x with ROk a => f a | RErr => RErr | RUnknown => RUnknown end.
Notation "x <~ a ;; b" := (rbind a (fun x => b)) (at level 61, a at next level, right associativity).

Lemma rbind_ok {A B} (x : res A) (f : A -> res B) b : rbind x f = ROk b -> exists a, x = ROk a /\ f a = ROk b.
Proof. destruct x; cbn; intro H; try discriminate. eauto. Qed.

(* if_more: an optional tail is attempted iff bytes remain at its offset, and must then be complete *)
Definition tail_at (n off need : nat) : res (option nat) :=
  if (n <=? off)%nat then ROk None else if (n <? off + need)%nat then RErr else ROk (Some off).
Definition next_tail (n : nat) (prev : option nat) (off need : nat) : res (option nat) :=
  match prev with None => ROk None | Some _ => tail_at n off need end.

Definition language_of (blk : list byte) (t : option nat) : res (option N) :=
  match t with
  | None => ROk None
  | Some off => let x := u8_at blk off in if mem x Language_codes then ROk (Some x) else RErr
  end.

Definition match_of (blk : list byte) (t : option nat) : res (option (list byte * N * N)) :=
  match t with
  | None => ROk None
  | Some off => id <~ nul_utf8_dflt (sub blk off 51) 50 ;;
                ROk (Some (id, be_at blk (off + 51) 4, be_at blk (off + 55) 4))
  end.

Definition opt_chunk (blk : list byte) (t : option nat) (w : nat) (i : nat) : option (list byte) :=
  match t with Some off => Some (sub blk (off + w * i) w) | None => None end.

Definition players_of (blk : list byte) (t10 t13 t39 t311 : option nat) : res (list player) :=
  let is_teams := negb (u8_at blk 12 =? 0) in
  let pv0 := chunks 36 6 (skipn 100 blk) in
  collect (map (fun i => player_of (N.of_nat i) (nth i pv0 []) is_teams
                                   (opt_chunk blk t10 8 i) (opt_chunk blk t13 16 i)
                                   (opt_chunk blk t39 31 i)
                                   (match t39 with Some off => Some (sub blk (off + 124 + 10 * i) 10) | None => None end)
                                   (opt_chunk blk t311 29 i))
               [0; 1; 2; 3]%nat).

Definition mk_start (blk : list byte) (t15 t20 t37 : option nat) (language : option N)
           (mtch : option (list byte * N * N)) (players : list player) : start_t :=
  {| st_bytes := blk; st_version := (u8_at blk 0, u8_at blk 1, u8_at blk 2);
     st_bitfield := map (fun i => u8_at blk (4 + i)) [0; 1; 2; 3]%nat;
     st_bombs := negb (u8_at blk 10 =? 0); st_teams := negb (u8_at blk 12 =? 0);
     st_item_freq := u8_at blk 15; st_sd_score := u8_at blk 16;
     st_stage := be_at blk 18 2; st_timer := be_at blk 20 4;
     st_item_bitfield := map (fun i => u8_at blk (39 + i)) [0; 1; 2; 3; 4]%nat;
     st_damage_ratio := be_at blk 52 4;
     st_players := players; st_seed := be_at blk 316 4;
     st_pal := match t15 with Some off => Some (negb (u8_at blk off =? 0)) | None => None end;
     st_frozen := match t20 with Some off => Some (negb (u8_at blk off =? 0)) | None => None end;
     st_scene := match t37 with Some off => Some (u8_at blk off, u8_at blk (off + 1)) | None => None end;
     st_language := language; st_match := mtch |}.

(* game_start: sequential reads over the block; the optional tails follow the version history of the spec:
   1.0 UCF (32), 1.3 name tags (64), 1.5 PAL (1), 2.0 frozen PS (1), 3.7 scene (2), 3.9 netplay names+codes (164),
   3.11 UIDs (116), 3.12 language (1), 3.14 match info (59) *)
Definition game_start (blk : list byte) : res start_t :=
  let n := length blk in
  if (n <? 320)%nat then RErr else
  t10 <~ tail_at n 320 32 ;;
  t13 <~ next_tail n t10 352 64 ;;
  t15 <~ next_tail n t13 416 1 ;;
  t20 <~ next_tail n t15 417 1 ;;
  t37 <~ next_tail n t20 418 2 ;;
  t39 <~ next_tail n t37 420 164 ;;
  t311 <~ next_tail n t39 584 116 ;;
  t312 <~ next_tail n t311 700 1 ;;
  t314 <~ next_tail n t312 701 59 ;;
  language <~ language_of blk t312 ;;
  mtch <~ match_of blk t314 ;;
  players <~ players_of blk t10 t13 t39 t311 ;;
  ROk (mk_start blk t15 t20 t37 language mtch players).

(* game_end *)
Definition player_end (port : N) (p : N) : res (option (N * N)) :=
  if p =? 255 then ROk None                 (* -1 *)
  else if p <=? 3 then ROk (Some (port, p))
  else RErr.

Definition game_end (blk : list byte) : res end_t :=
  match blk with
  | [] => RErr
  | _ =>
    let m := u8_at blk 0 in
    if negb (mem m EndMethod_codes) then RErr else
    let lras :=
      if (length blk <=? 1)%nat then ROk None
      else let x := u8_at blk 1 in
           if x =? 255 then ROk (Some None) else if mem x Port_codes then ROk (Some (Some x)) else RErr in
    match lras with RErr => RErr | RUnknown => RUnknown | ROk lras =>
    let players :=
      if (length blk <=? 2)%nat then ROk None
      else if (length blk <? 6)%nat then RErr
      else match collect (map (fun i => player_end (N.of_nat i) (u8_at blk (2 + i))) [0; 1; 2; 3]%nat) with
           | ROk l => ROk (Some l) | RErr => RErr | RUnknown => RUnknown end in
    match players with RErr => RErr | RUnknown => RUnknown | ROk players =>
    ROk {| en_bytes := blk; en_method := m; en_lras := lras; en_players := players |}
    end end
  end.

(* port_occupancy: (port, is Ice Climbers) per listed player *)
Definition port_occupancy (s : start_t) : list (N * bool) :=
  map (fun p => (pl_port p, pl_character p =? ICE_CLIMBERS)) (st_players s).
