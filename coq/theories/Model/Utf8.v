(* UTF-8 validity as std::str::from_utf8 / String::from_utf8 decide it (Unicode scalar values, shortest form). *)
From Coq Require Import List NArith Bool.
From Coq.Strings Require Import Byte.
From Peppi Require Import Base.Bytes.
Import ListNotations.
Local Open Scope N_scope.

Definition inr (lo hi x : N) : bool := (lo <=? x) && (x <=? hi).
Definition cont (x : N) : bool := inr 128 191 x.

Fixpoint utf8_go (fuel : nat) (l : list N) : bool :=
  match fuel with
  | O => match l with [] => true | _ => false end
  | S f =>
    match l with
    | [] => true
    | a :: r =>
      if a <? 128 then utf8_go f r
      else if inr 194 223 a then
        match r with b :: r' => cont b && utf8_go f r' | _ => false end
      else if inr 224 239 a then
        match r with
        | b :: c :: r' =>
          (if a =? 224 then inr 160 191 b else if a =? 237 then inr 128 159 b else cont b)
          && cont c && utf8_go f r'
        | _ => false
        end
      else if inr 240 244 a then
        match r with
        | b :: c :: d :: r' =>
          (if a =? 240 then inr 144 191 b else if a =? 244 then inr 128 143 b else cont b)
          && cont c && cont d && utf8_go f r'
        | _ => false
        end
      else false
    end
  end.

Definition utf8_valid (bs : list byte) : bool := utf8_go (S (List.length bs)) (map b2n bs).
