(* Hand model of ParseState and parse_event (src/io/slippi/de.rs), at the event level: [handle_event] is what
   parse_event does with an event code and its payload once they have been read. *)
From Coq Require Import List Arith NArith ZArith Lia Bool String.
From Coq.Strings Require Import Byte.
From Peppi Require Import Base.Bytes Base.Outcome Layout.Syntax Gen.Funs Layout.Sem Layout.Rows
  Model.Ubjson Model.Start Model.Json.
Import ListNotations.
Notation length := (@List.length _) (only parsing).

Definition row := list byte.

Record cdata := { c_pre : list row; c_post : list row; c_valid : option (list bool) }.
(* character slots in port order, a port's leader before its follower (Ice Climbers only): the flattened
   frames.ports[*].{leader, follower} *)
Record slot := { sl_port : N; sl_fol : bool; sl_data : cdata }.
Record frames := {
  f_ids : list Z; f_chars : list slot;
  f_start : option (list row); f_end : option (list row);
  f_item_off : option (list Z); f_item : option (list row)
}.

Record gecko_t := { gk_bytes : list byte; gk_actual : N }.

(* row sizes of the five records for the game's version, computed once (a pure function of the version) *)
Record layout := { sz_pre : nat; sz_post : nat; sz_start : nat; sz_end : nat; sz_item : nat }.
Definition layout_of (v : version) : layout :=
  {| sz_pre := row_size v "Pre"; sz_post := row_size v "Post"; sz_start := row_size v "Start";
     sz_end := row_size v "End"; sz_item := row_size v "Item" |}.

Record pstate := {
  ps_sizes : list (N * N);          (* payload sizes, most recent binding first *)
  ps_bytes_read : N;
  ps_split_raw : list byte; ps_split_actual : N;
  ps_layout : layout;
  ps_start : start_t;
  ps_end : option end_t;
  ps_frames : frames;
  ps_meta : option utree;
  ps_gecko : option gecko_t;
  ps_quirk : option bool
}.

Definition ver (s : pstate) : version := st_version (ps_start s).
Definition vgte (v : version) (M m : N) : bool := slippi_Version_gte v M m.
Definition vlt (v : version) (M m : N) : bool := slippi_Version_lt v M m.

Definition empty_cdata : cdata := {| c_pre := []; c_post := []; c_valid := None |}.

(* mutable::Frame::with_capacity *)
Definition frames_new (v : version) (ports : list (N * bool)) : frames :=
  {| f_ids := [];
     f_chars := flat_map (fun p : N * bool =>
                            {| sl_port := fst p; sl_fol := false; sl_data := empty_cdata |}
                            :: (if snd p then [{| sl_port := fst p; sl_fol := true; sl_data := empty_cdata |}] else [])) ports;
     f_start := if vgte v 2 2 then Some [] else None;
     f_end := if vgte v 3 0 then Some [] else None;
     f_item_off := if vgte v 3 0 then Some [0%Z] else None;
     f_item := if vgte v 3 0 then Some [] else None |}.

(* generated read_push on the payload after the event header: needs the record's row size, keeps exactly those bytes *)
Definition read_push (n : nat) (payload : list byte) : outcome row :=
  if (length payload <? n)%nat then Err EIo else Ok (firstn n payload).

(* mutable::Data::push_null *)
Definition data_push_null (L : layout) (d : cdata) : cdata :=
  {| c_pre := c_pre d ++ [repeat x00 (sz_pre L)]; c_post := c_post d ++ [repeat x00 (sz_post L)];
     c_valid := Some (match c_valid d with Some b => b | None => repeat true (length (c_pre d)) end ++ [false]) |}.

(* while d.len() < len { d.push_null(v) } *)
Definition pad_to (L : layout) (len : nat) (d : cdata) : cdata :=
  Nat.iter (len - length (c_pre d)) (data_push_null L) d.

Definition frame_close_frames (L : layout) (fr : frames) : frames :=
  let len := length (f_ids fr) in
  {| f_ids := f_ids fr;
     f_chars := map (fun c => {| sl_port := sl_port c; sl_fol := sl_fol c; sl_data := pad_to L len (sl_data c) |}) (f_chars fr);
     f_start := f_start fr; f_end := f_end fr; f_item_off := f_item_off fr; f_item := f_item fr |}.

Definition set_frames (s : pstate) (fr : frames) : pstate :=
  {| ps_sizes := ps_sizes s; ps_bytes_read := ps_bytes_read s; ps_split_raw := ps_split_raw s;
     ps_split_actual := ps_split_actual s; ps_layout := ps_layout s; ps_start := ps_start s;
     ps_end := ps_end s; ps_frames := fr; ps_meta := ps_meta s; ps_gecko := ps_gecko s; ps_quirk := ps_quirk s |}.

Definition frame_close (s : pstate) : pstate := set_frames s (frame_close_frames (ps_layout s) (ps_frames s)).

Definition with_ids (fr : frames) (ids : list Z) : frames :=
  {| f_ids := ids; f_chars := f_chars fr; f_start := f_start fr; f_end := f_end fr;
     f_item_off := f_item_off fr; f_item := f_item fr |}.
Definition frame_open (s : pstate) (id : Z) : pstate :=
  set_frames s (with_ids (ps_frames s) (f_ids (ps_frames s) ++ [id])).

Definition last_id (s : pstate) : option Z := last (map Some (f_ids (ps_frames s))) None.

Definition expect_id (s : pstate) (id : Z) : outcome unit :=
  match last_id s with
  | Some l => if Z.eqb l id then Ok tt else Err EInvalid
  | None => Err EInvalid
  end.

Fixpoint upd_nth {A} (i : nat) (f : A -> A) (l : list A) : list A :=
  match l, i with
  | [], _ => []
  | x :: r, O => f x :: r
  | x :: r, S j => x :: upd_nth j f r
  end.

(* data_mut: the character's column set, or an error for a port out of range or unoccupied, or a follower on a
   non-Ice-Climbers port.  (The code goes through port_indexes[port] and checks ports[i].port == port and
   follower.is_some(); with each port listed at most once that is: the slot tagged (port, follower) exists.) *)
Fixpoint find_slot (cs : list slot) (port : N) (fol : bool) (i : nat) : option nat :=
  match cs with
  | [] => None
  | c :: r => if N.eqb (sl_port c) port && Bool.eqb (sl_fol c) fol then Some i else find_slot r port fol (S i)
  end.

Definition data_lookup (s : pstate) (port : N) (fol : bool) : outcome nat :=
  match find_slot (f_chars (ps_frames s)) port fol O with
  | Some i => Ok i
  | None => Err EInvalid
  end.

Definition upd_char (fr : frames) (i : nat) (f : cdata -> cdata) : frames :=
  {| f_ids := f_ids fr;
     f_chars := upd_nth i (fun c => {| sl_port := sl_port c; sl_fol := sl_fol c; sl_data := f (sl_data c) |}) (f_chars fr);
     f_start := f_start fr; f_end := f_end fr; f_item_off := f_item_off fr; f_item := f_item fr |}.

Definition i32_at (buf : list byte) : outcome (Z * list byte) :=
  if (length buf <? 4)%nat then Err EIo else Ok (sint 4 (be_dec (firstn 4 buf)), skipn 4 buf).

Definition u8_hd (buf : list byte) : outcome (N * list byte) :=
  match buf with [] => Err EIo | b :: r => Ok (b2n b, r) end.

Definition set_end (s : pstate) (e : end_t) : pstate :=
  {| ps_sizes := ps_sizes s; ps_bytes_read := ps_bytes_read s; ps_split_raw := ps_split_raw s;
     ps_split_actual := ps_split_actual s; ps_layout := ps_layout s; ps_start := ps_start s;
     ps_end := Some e; ps_frames := ps_frames s; ps_meta := ps_meta s; ps_gecko := ps_gecko s; ps_quirk := ps_quirk s |}.

Definition set_gecko (s : pstate) (g : gecko_t) : pstate :=
  {| ps_sizes := ps_sizes s; ps_bytes_read := ps_bytes_read s; ps_split_raw := ps_split_raw s;
     ps_split_actual := ps_split_actual s; ps_layout := ps_layout s; ps_start := ps_start s;
     ps_end := ps_end s; ps_frames := ps_frames s; ps_meta := ps_meta s; ps_gecko := Some g; ps_quirk := ps_quirk s |}.

Definition set_split (s : pstate) (raw : list byte) (actual : N) : pstate :=
  {| ps_sizes := ps_sizes s; ps_bytes_read := ps_bytes_read s; ps_split_raw := raw;
     ps_split_actual := actual; ps_layout := ps_layout s; ps_start := ps_start s;
     ps_end := ps_end s; ps_frames := ps_frames s; ps_meta := ps_meta s; ps_gecko := ps_gecko s; ps_quirk := ps_quirk s |}.

Definition add_bytes_read (s : pstate) (n : N) : pstate :=
  {| ps_sizes := ps_sizes s; ps_bytes_read := (ps_bytes_read s + n)%N; ps_split_raw := ps_split_raw s;
     ps_split_actual := ps_split_actual s; ps_layout := ps_layout s; ps_start := ps_start s;
     ps_end := ps_end s; ps_frames := ps_frames s; ps_meta := ps_meta s; ps_gecko := ps_gecko s; ps_quirk := ps_quirk s |}.

(* results of game_end that the executable model cannot decide do not arise (no Shift-JIS there) *)
Definition res_outcome {A} (r : res A) : outcome A :=
  match r with ROk a => Ok a | RErr => Err EInvalid | RUnknown => Err EUnknown end.

(* ---- the arms of parse_event's match on the event code ---- *)
Definition push_pre (rw : row) (d : cdata) : cdata :=
  {| c_pre := c_pre d ++ [rw]; c_post := c_post d; c_valid := option_map (fun b => b ++ [true]) (c_valid d) |}.
Definition push_post (rw : row) (d : cdata) : cdata :=
  {| c_pre := c_pre d; c_post := c_post d ++ [rw]; c_valid := c_valid d |}.

Definition arm_gecko (buf : list byte) (s : pstate) : outcome pstate :=
  Ok (set_gecko s {| gk_bytes := buf; gk_actual := ps_split_actual s |}).

Definition arm_end (buf : list byte) (s : pstate) : outcome pstate :=
  (* no FrameEnd events before v3.0: the last frame is still open *)
  let s1 := if vlt (ver s) 3 0 then frame_close s else s in
  e <- res_outcome (game_end buf) ;; Ok (set_end s1 e).

Definition arm_fstart (buf : list byte) (s : pstate) : outcome pstate :=
  let s1 := if vlt (ver s) 3 0 then frame_close s else s in
  '(id, r) <- i32_at buf ;;
  match f_start (ps_frames s1) with
  | None => Err EInvalid
  | Some rows =>
      let s2 := frame_open s1 id in
      rw <- read_push (sz_start (ps_layout s)) r ;;
      let fr := ps_frames s2 in
      Ok (set_frames s2 {| f_ids := f_ids fr; f_chars := f_chars fr; f_start := Some (rows ++ [rw]);
                           f_end := f_end fr; f_item_off := f_item_off fr; f_item := f_item fr |})
  end.

Definition arm_pre (buf : list byte) (s : pstate) : outcome pstate :=
  '(id, r) <- i32_at buf ;;
  '(port, r) <- u8_hd r ;;
  '(folb, r) <- u8_hd r ;;
  let fol := negb (N.eqb folb 0) in
  s1 <- (if vgte (ver s) 2 2 then (_ <- expect_id s id ;; Ok s)
         else
           let lid := match last_id s with Some l => l | None => (FIRST_INDEX - 1)%Z end in
           if Z.eqb (lid + 1) id then Ok (frame_open (frame_close s) id)
           else (_ <- expect_id s id ;; Ok s)) ;;
  i <- data_lookup s1 port fol ;;
  rw <- read_push (sz_pre (ps_layout s)) r ;;
  Ok (set_frames s1 (upd_char (ps_frames s1) i (push_pre rw))).

Definition arm_post (buf : list byte) (s : pstate) : outcome pstate :=
  '(id, r) <- i32_at buf ;;
  '(port, r) <- u8_hd r ;;
  '(folb, r) <- u8_hd r ;;
  let fol := negb (N.eqb folb 0) in
  _ <- expect_id s id ;;
  i <- data_lookup s port fol ;;
  rw <- read_push (sz_post (ps_layout s)) r ;;
  Ok (set_frames s (upd_char (ps_frames s) i (push_post rw))).

Definition arm_fend (buf : list byte) (s : pstate) : outcome pstate :=
  '(id, r) <- i32_at buf ;;
  _ <- expect_id s id ;;
  let fr := ps_frames s in
  match f_end fr, f_item_off fr, f_item fr with
  | Some erows, Some offs, Some items =>
      rw <- read_push (sz_end (ps_layout s)) r ;;
      let fr' := {| f_ids := f_ids fr; f_chars := f_chars fr; f_start := f_start fr;
                    f_end := Some (erows ++ [rw]);
                    f_item_off := Some (offs ++ [Z.of_nat (length items)]); f_item := f_item fr |} in
      Ok (frame_close (set_frames s fr'))
  | None, _, _ => Err EInvalid
  | _, _, _ => Panic 201     (* item_offset / item unwrap: created under the same gate as end *)
  end.

Definition arm_item (buf : list byte) (s : pstate) : outcome pstate :=
  '(id, r) <- i32_at buf ;;
  _ <- expect_id s id ;;
  let fr := ps_frames s in
  match f_item fr with
  | None => Err EInvalid
  | Some items =>
      rw <- read_push (sz_item (ps_layout s)) r ;;
      Ok (set_frames s {| f_ids := f_ids fr; f_chars := f_chars fr; f_start := f_start fr; f_end := f_end fr;
                          f_item_off := f_item_off fr; f_item := Some (items ++ [rw]) |})
  end.

Definition handle_known (code : N) (buf : list byte) (s : pstate) : outcome pstate :=
  if N.eqb code Event_Payloads then Err EInvalid
  else if N.eqb code Event_MessageSplitter then Ok s
  else if N.eqb code Event_GeckoCodes then arm_gecko buf s
  else if N.eqb code Event_GameStart then Err EInvalid
  else if N.eqb code Event_GameEnd then arm_end buf s
  else if N.eqb code Event_FrameStart then arm_fstart buf s
  else if N.eqb code Event_FramePre then arm_pre buf s
  else if N.eqb code Event_FramePost then arm_post buf s
  else if N.eqb code Event_FrameEnd then arm_fend buf s
  else if N.eqb code Event_Item then arm_item buf s
  else Ok s.

(* handle_splitter_event + the code/buffer substitution in parse_event; returns the code parse_event reports *)
Definition handle_event (code : N) (buf : list byte) (s : pstate) : outcome (N * pstate) :=
  if N.eqb code Event_MessageSplitter then
    if negb (length buf =? 516)%nat then Err EInvalid else
    let actual := be_dec (firstn 2 (skipn 512 buf)) in
    if (512 <? actual)%N then Err EInvalid else
    let wrapped := b2n (nth 514 buf x00) in
    let final := negb (N.eqb (b2n (nth 515 buf x00)) 0) in
    let raw' := ps_split_raw s ++ firstn 512 buf in
    let act' := ((ps_split_actual s + actual) mod 4294967296)%N in
    if final then
      (* code := wrapped event, buf := the drained accumulator; the accumulated size is not reset *)
      s' <- handle_known wrapped raw' (set_split s [] act') ;; Ok (wrapped, s')
    else Ok (code, set_split s raw' act')
  else s' <- handle_known code buf s ;; Ok (code, s').
