(* MeleeString (src/game/shift_jis.rs): truncation at the first NUL, strict decoding, normalisation.
   fix_char is regenerated from the source (Gen/Funs.v fix_char_u32); the decoder itself is a parameter. *)
From Coq Require Import List NArith Bool Lia ZifyBool ZifyN.
From Coq.Strings Require Import Byte.
From Peppi Require Import Base.Bytes Gen.Funs Model.Start.
Import ListNotations.
Local Open Scope N_scope.

(* Unicode scalar values: what char::try_from(u32) accepts *)
Definition is_scalar (c : N) : bool := (c <? 55296) || ((57344 <=? c) && (c <? 1114112)).

(* the map the property states *)
Definition norm_spec (c : N) : N :=
  if (65281 <=? c) && (c <=? 65374) then c - 65248        (* U+FF01..U+FF5E -> U+0021..U+007E *)
  else if c =? 12288 then 32                               (* ideographic space *)
  else if c =? 8217 then 39                                (* right single quotation mark -> apostrophe *)
  else if c =? 8221 then 34                                (* right double quotation mark -> quotation mark *)
  else c.

(* to_normalized: chars().map(fix_char).collect() *)
Definition to_normalized (s : list N) : list N := map fix_char_u32 s.

(* MeleeString::try_from with an arbitrary strict decoder [dec] (None = invalid sequence) *)
Definition melee_of (dec : list byte -> option (list N)) (bs : list byte) : option (list N) :=
  dec (take_until_nul bs).

Lemma take_until_nul_app pre rest :
  ~ In x00 pre -> take_until_nul (pre ++ x00 :: rest) = pre.
Proof.
  induction pre as [|b pre IH]; intro H; cbn.
  - reflexivity.
  - destruct (Byte.eqb b x00) eqn:E.
    + exfalso. apply H. left. apply Byte.byte_dec_bl in E. exact E.
    + f_equal. apply IH. intro Hin. apply H. right. exact Hin.
Qed.

Lemma take_until_nul_none bs : ~ In x00 bs -> take_until_nul bs = bs.
Proof.
  induction bs as [|b bs IH]; intro H; cbn; [reflexivity|].
  destruct (Byte.eqb b x00) eqn:E.
  - exfalso. apply H. left. apply Byte.byte_dec_bl in E. exact E.
  - f_equal. apply IH. intro Hin. apply H. right. exact Hin.
Qed.

(* bytes after the first NUL never influence the result, whatever the decoder *)
Lemma melee_tail_irrelevant dec pre a b :
  ~ In x00 pre -> melee_of dec (pre ++ x00 :: a) = melee_of dec (pre ++ x00 :: b).
Proof. intro H. unfold melee_of. rewrite !take_until_nul_app by exact H. reflexivity. Qed.

Lemma melee_prefix dec pre a : ~ In x00 pre -> melee_of dec (pre ++ x00 :: a) = dec pre.
Proof. intro H. unfold melee_of. rewrite take_until_nul_app by exact H. reflexivity. Qed.

(* an invalid sequence before the first NUL is an error, never a replacement *)
Lemma melee_invalid dec bs : dec (take_until_nul bs) = None -> melee_of dec bs = None.
Proof. intro H. exact H. Qed.

(* fix_char, as regenerated from the Rust, is the stated map; no u32 overflow/underflow on the way;
   the result is a scalar value (so char::try_from(..).unwrap() cannot panic); idempotent *)
Lemma fix_char_spec c : fix_char_u32 c = norm_spec c.
Proof.
  unfold fix_char_u32, norm_spec.
  destruct ((65281 <=? c) && (c <=? 65374)) eqn:E.
  - lia.
  - destruct (c =? 12288); [reflexivity|]. destruct (c =? 8217); [reflexivity|]. destruct (c =? 8221); reflexivity.
Qed.

Lemma fix_char_no_wrap c : c < 4294967296 ->
  (65281 <=? c) && (c <=? 65374) = true -> c + 32 < 4294967296 /\ 65280 <= c + 32.
Proof. lia. Qed.

Lemma fix_char_scalar c : is_scalar c = true -> is_scalar (fix_char_u32 c) = true.
Proof.
  rewrite fix_char_spec. unfold norm_spec, is_scalar.
  destruct ((65281 <=? c) && (c <=? 65374)) eqn:E; [lia|].
  destruct (c =? 12288) eqn:E1; [lia|]. destruct (c =? 8217) eqn:E2; [lia|]. destruct (c =? 8221) eqn:E3; [lia|].
  tauto.
Qed.

Lemma fix_char_idem c : fix_char_u32 (fix_char_u32 c) = fix_char_u32 c.
Proof.
  rewrite !fix_char_spec. unfold norm_spec.
  destruct ((65281 <=? c) && (c <=? 65374)) eqn:E.
  - destruct ((65281 <=? c - 65248) && (c - 65248 <=? 65374)) eqn:E'; [lia|].
    destruct (c - 65248 =? 12288) eqn:A; [lia|]. destruct (c - 65248 =? 8217) eqn:B; [lia|].
    destruct (c - 65248 =? 8221) eqn:C; [lia|]. reflexivity.
  - destruct (c =? 12288) eqn:E1; [reflexivity|]. destruct (c =? 8217) eqn:E2; [reflexivity|].
    destruct (c =? 8221) eqn:E3; [reflexivity|]. rewrite E, E1, E2, E3. reflexivity.
Qed.

Lemma to_normalized_idem s : to_normalized (to_normalized s) = to_normalized s.
Proof. unfold to_normalized. rewrite map_map. apply map_ext. intro c. apply fix_char_idem. Qed.

Lemma fix_char_other c :
  (65281 <=? c) && (c <=? 65374) = false -> c <> 12288 -> c <> 8217 -> c <> 8221 -> fix_char_u32 c = c.
Proof.
  intros H1 H2 H3 H4. rewrite fix_char_spec. unfold norm_spec. rewrite H1.
  destruct (N.eqb_spec c 12288); [contradiction|]. destruct (N.eqb_spec c 8217); [contradiction|].
  destruct (N.eqb_spec c 8221); [contradiction|]. reflexivity.
Qed.
