(* The skip-frames path of read() (src/io/slippi/de.rs) over the fragmenting stream of Model/Frag.v:
     if hash { io::copy(&mut r.by_ref().take(skip as u64), &mut io::sink())?; }
     else    { r.seek(SeekFrom::Current(skip))?; }
   io::copy (generic path) loops: read into an 8192-byte buffer; Ok(0) => done; Ok(n) => continue;
   Err(Interrupted) => retry; any other Err => return it.  Take caps every read's buffer at the remaining limit
   and returns Ok(0) without calling the inner reader once the limit is 0.  Every byte delivered goes through
   HashingReader::read, so it is hashed.  seek disables hashing (Frag.hseek).
   Programs (Frag.prog) are extended with the two skipping steps (prog2); Proofs/FragSkipProof.v shows that the
   fragmented interpreter agrees with the flat one (Reader.drop_upto) for every fault-free schedule. *)
From Coq Require Import List Arith NArith Lia Bool.
From Coq.Strings Require Import Byte.
From Peppi Require Import Base.Bytes Base.Outcome Base.Stream Layout.Syntax Gen.Funs Layout.Sem Layout.Rows
  Model.Utf8 Model.Ubjson Model.Start Model.Json Model.Parse Model.Reader Model.Frag.
Import ListNotations.
Notation length := (@List.length _) (only parsing).

(* ---- io::copy(take(limit), sink) ---- *)
(* std::io::DEFAULT_BUF_SIZE, kept in N (binary) *)
Definition copy_buf : N := 8192.

(* the buffer Take hands to the inner read: min(8192, limit) bytes *)
Definition copy_chunk (limit : N) : nat := N.to_nat (N.min copy_buf limit).

(* fuel bounds the number of read() calls; the limit is a count taken from the file and stays in N *)
Fixpoint copy_take_f (fuel : nat) (limit : N) (h : hreader) {struct fuel} : outcome unit * hreader :=
  if N.eqb limit 0 then (Ok tt, h)            (* Take: limit reached, Ok(0) without touching the inner reader *)
  else
    match fuel with
    | O => (Fuel, h)
    | S f =>
      let '(r, h1) := hread (copy_chunk limit) h in
      match r with
      | RBytes [] => (Ok tt, h1)              (* end of data: io::copy returns Ok(bytes copied so far) *)
      | RBytes bs => copy_take_f f (limit - N.of_nat (length bs)) h1
      | RInterrupted => copy_take_f f limit h1
      | RFault => (Err EIo, h1)
      end
    end.

(* enough fuel: a call that is not interrupted delivers >= 1 byte or ends the loop (one final call sees the
   end of the data); every Interrupt consumes one schedule entry *)
Definition copy_fuel (h : hreader) : nat :=
  S (length (fs_data (hr_inner h)) + length (fs_sched (hr_inner h))).

(* the part of the data that a skip of n bytes passes over (Reader.drop_upto is what it leaves) *)
Definition take_upto (n : N) (bs : list byte) : list byte :=
  if (N.of_nat (length bs) <=? n)%N then bs else firstn (N.to_nat n) bs.

(* HashingReader::seek forward by a count in N: Frag.hseek (N.to_nat n), decided on N first (a seek past the
   end leaves no data: later reads return 0 bytes) *)
Definition hseek_N (n : N) (h : hreader) : hreader :=
  {| hr_inner := {| fs_data := drop_upto n (fs_data (hr_inner h)); fs_sched := fs_sched (hr_inner h) |};
     hr_hashed := None |}.

(* ---- programs with the two skipping steps ---- *)
Inductive prog2 (A : Type) : Type :=
| P2Ret (a : A)
| P2Fail (e : eclass)
| P2Panic (n : N)
| P2Fuel
| P2Read (n : nat) (k : list byte -> prog2 A)
| PCopy (n : N) (k : prog2 A)       (* hashing skip: io::copy(take(n)) *)
| PSeek (n : N) (k : prog2 A).      (* non-hashing skip: seek(Current(n)) *)
Arguments P2Ret {A} a.
Arguments P2Fail {A} e.
Arguments P2Panic {A} n.
Arguments P2Fuel {A}.
Arguments P2Read {A} n k.
Arguments PCopy {A} n k.
Arguments PSeek {A} n k.

Fixpoint run_flat2 {A} (p : prog2 A) (bs : list byte) : outcome (A * list byte) :=
  match p with
  | P2Ret a => Ok (a, bs)
  | P2Fail e => Err e
  | P2Panic x => Panic x
  | P2Fuel => Fuel
  | P2Read n k =>
      match rd_exact n bs with
      | Ok (b, r) => run_flat2 (k b) r
      | Err e => Err e | Panic x => Panic x | Fuel => Fuel
      end
  | PCopy n k => run_flat2 k (drop_upto n bs)
  | PSeek n k => run_flat2 k (drop_upto n bs)
  end.

Fixpoint run_frag2 {A} (p : prog2 A) (h : hreader) : outcome A * hreader :=
  match p with
  | P2Ret a => (Ok a, h)
  | P2Fail e => (Err e, h)
  | P2Panic x => (Panic x, h)
  | P2Fuel => (Fuel, h)
  | P2Read n k =>
      let '(res, h1) := read_exact_f (fuel_for n h) n h in
      match res with
      | Ok b => run_frag2 (k b) h1
      | Err e => (Err e, h1) | Panic x => (Panic x, h1) | Fuel => (Fuel, h1)
      end
  | PCopy n k =>
      let '(res, h1) := copy_take_f (copy_fuel h) n h in
      match res with
      | Ok _ => run_frag2 k h1
      | Err e => (Err e, h1) | Panic x => (Panic x, h1) | Fuel => (Fuel, h1)
      end
  | PSeek n k => run_frag2 k (hseek_N n h)
  end.

(* does the flat run of p on bs execute a seek (after which the hasher is gone)? *)
Fixpoint seeked {A} (p : prog2 A) (bs : list byte) : bool :=
  match p with
  | P2Read n k => match rd_exact n bs with Ok (b, r) => seeked (k b) r | _ => false end
  | PCopy n k => seeked k (drop_upto n bs)
  | PSeek _ _ => true
  | _ => false
  end.

(* no seek anywhere in the program *)
Fixpoint no_seek {A} (p : prog2 A) : Prop :=
  match p with
  | P2Read n k => forall bs, no_seek (k bs)
  | PCopy n k => no_seek k
  | PSeek _ _ => False
  | _ => True
  end.

(* the programs of Frag.v are programs *)
Fixpoint lift {A} (p : prog A) : prog2 A :=
  match p with
  | PRet a => P2Ret a
  | PFail e => P2Fail e
  | PPanic x => P2Panic x
  | PFuel => P2Fuel
  | PRead n k => P2Read n (fun bs => lift (k bs))
  end.

Fixpoint pb2 {A B} (p : prog2 A) (f : A -> prog2 B) : prog2 B :=
  match p with
  | P2Ret a => f a
  | P2Fail e => P2Fail e
  | P2Panic x => P2Panic x
  | P2Fuel => P2Fuel
  | P2Read n k => P2Read n (fun bs => pb2 (k bs) f)
  | PCopy n k => PCopy n (pb2 k f)
  | PSeek n k => PSeek n (pb2 k f)
  end.

(* ---- the one-shot read with o_skip = true ---- *)
(* the running count of bytes consumed (ghost, as in Frag.p_slp_read: it determines fuel and the g_hashed
   count) after a skip of n: with total - c bytes remaining the skip passes over min n (total - c) of them *)
Definition count_after_skip (total c : nat) (n : N) : nat :=
  total - N.to_nat (N.of_nat (total - c) - n).

(* Frag.p_slp_read from the event loop on (p_slp_read_tail_eq in the proofs: p_slp_read is header, start, this) *)
Definition p_slp_tail (hash : bool) (total : nat) (raw_len : N) (s : pstate) (c : nat) : prog game :=
  pbc (p_event_loop (S (total - c)) raw_len s) c (fun s c =>
  let s := if vlt (ver s) 3 0 then frame_close s else s in
  pbc (if (ps_bytes_read s <? raw_len)%N then
         let len := (raw_len - ps_bytes_read s)%N in
         (* len comes from the file (up to 2^32): total - c bytes remain, and reading S (total - c) bytes fails
            (EIo, everything consumed) exactly like reading any len > total - c; so no huge unary number *)
         pb (p_exact (N.to_nat (N.min len (N.of_nat (S (total - c)))))) (fun buf =>
           if N.eqb len (1 + game_End_size (ver s)) && N.eqb (b2n (hd x00 buf)) Event_GameEnd
           then PRet (set_quirk s) else PRet s)
       else PRet s) c (fun s c =>
  pbc p_u8 c (fun b c =>
  pbc (if N.eqb b 85 then
         pb (p_metadata s (total - c)) (fun s => pb (p_expect [x7d]) (fun _ => PRet s))
       else if N.eqb b 125 then PRet s
       else PFail EInvalid) c (fun s c =>
  PRet (game_of_state s (if hash then Some c else None)))))).

(* header and start, with the count *)
Definition p_slp_head : prog (N * pstate * nat) :=
  pbc p_header 0 (fun raw_len c =>
  pbc p_start c (fun s c => PRet (raw_len, s, c))).

(* total: the length of the whole input (ghost; only determines fuel and the count) *)
Definition p_slp_read_skip (hash : bool) (total : nat) : prog2 game :=
  pb2 (lift p_slp_head) (fun '(raw_len, s, c) =>
  match lookup_size (ps_sizes s) Event_GameEnd with
  | None => P2Panic 301
  | Some esz =>
      let end_offset := (1 + esz)%N in
      if N.eqb raw_len 0 || (raw_len <? ps_bytes_read s + end_offset)%N then P2Fail EInvalid
      else
        let skip := (raw_len - ps_bytes_read s - end_offset)%N in
        let k := lift (p_slp_tail hash total raw_len (add_bytes_read s skip) (count_after_skip total c skip)) in
        if hash then PCopy skip k else PSeek skip k
  end).
