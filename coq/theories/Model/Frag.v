(* A fragmenting byte stream, the hashing wrapper (src/io/mod.rs HashingReader) and std's default read_exact
   loop over it; a small language of sequential exact-length reads with a flat and a fragmented interpreter.
   Proofs/FragProof.v shows the two interpreters agree for every fault-free read schedule, which justifies the
   flat `list byte` view of Base/Stream.v (properties C11 "however they arrive", C12 "regardless of how the
   stream splits the bytes into short reads"). *)
From Coq Require Import List Arith NArith Lia Bool.
From Coq.Strings Require Import Byte.
From Peppi Require Import Base.Bytes Base.Outcome Base.Stream Layout.Syntax Gen.Funs Layout.Sem Layout.Rows
  Model.Utf8 Model.Ubjson Model.Start Model.Json Model.Parse Model.Reader.
Import ListNotations.
Notation length := (@List.length _) (only parsing).

(* ---- the underlying reader R: what successive read() calls do ---- *)
Inductive rstep :=
| Give (k : nat)     (* deliver at most (max 1 k) bytes (fewer if the buffer or the remaining data is smaller) *)
| Interrupt          (* Err(ErrorKind::Interrupted): read_exact retries *)
| Fault.             (* any other I/O error *)

(* when the schedule is exhausted, reads are unfragmented (fill the buffer as far as the data goes) *)
Record fstream := { fs_data : list byte; fs_sched : list rstep }.

Inductive rres := RBytes (bs : list byte) | RInterrupted | RFault.

(* one read() call with a buffer of n bytes; every call consumes one schedule entry.  Ok(0) arises exactly when
   the buffer is empty or the data is exhausted (a reader must not return Ok(0) otherwise: max 1 k). *)
Definition fread (n : nat) (s : fstream) : rres * fstream :=
  match fs_sched s with
  | [] => (RBytes (firstn n (fs_data s)), {| fs_data := skipn n (fs_data s); fs_sched := [] |})
  | Give k :: sc =>
      let m := Nat.min n (Nat.max 1 k) in
      (RBytes (firstn m (fs_data s)), {| fs_data := skipn m (fs_data s); fs_sched := sc |})
  | Interrupt :: sc => (RInterrupted, {| fs_data := fs_data s; fs_sched := sc |})
  | Fault :: sc => (RFault, {| fs_data := fs_data s; fs_sched := sc |})
  end.

(* ---- HashingReader ---- *)
(* hr_hashed = Some l: hashing on, l = all bytes fed to the hasher so far (the digest is a function of l) *)
Record hreader := { hr_inner : fstream; hr_hashed : option (list byte) }.

(* HashingReader::read: let n = self.reader.read(buf)?; hasher.update(&buf[..n]); Ok(n) *)
Definition hread (n : nat) (h : hreader) : rres * hreader :=
  let '(r, s') := fread n (hr_inner h) in
  match r with
  | RBytes bs => (r, {| hr_inner := s'; hr_hashed := option_map (fun l => l ++ bs) (hr_hashed h) |})
  | _ => (r, {| hr_inner := s'; hr_hashed := hr_hashed h |})
  end.

(* HashingReader::seek (forward by n from the current position): hashing is disabled *)
Definition hseek (n : nat) (h : hreader) : hreader :=
  {| hr_inner := {| fs_data := skipn n (fs_data (hr_inner h)); fs_sched := fs_sched (hr_inner h) |};
     hr_hashed := None |}.

(* ---- std::io::Read::read_exact, default implementation:
        while !buf.is_empty() { match self.read(buf) { Ok(0) => break, Ok(n) => buf = &mut buf[n..],
                                 Err(e) if e.is_interrupted() => {}, Err(e) => return Err(e) } }
        if !buf.is_empty() { Err(UnexpectedEof) } else { Ok(()) }
   n = bytes still to fill; fuel bounds the number of read() calls.  Both the EOF error and a fault are
   io::Error, class EIo. *)
Fixpoint read_exact_f (fuel : nat) (n : nat) (h : hreader) {struct fuel} : outcome (list byte) * hreader :=
  match n with
  | O => (Ok [], h)
  | S _ =>
    match fuel with
    | O => (Fuel, h)
    | S f =>
      let '(r, h1) := hread n h in
      match r with
      | RBytes [] => (Err EIo, h1)
      | RBytes bs =>
          let '(res, h2) := read_exact_f f (n - length bs) h1 in
          (match res with
           | Ok more => Ok (bs ++ more)
           | Err e => Err e | Panic x => Panic x | Fuel => Fuel
           end, h2)
      | RInterrupted => read_exact_f f n h1
      | RFault => (Err EIo, h1)
      end
    end
  end.

(* enough fuel: a call that is not interrupted delivers >= 1 byte or ends the loop; every Interrupt consumes
   one schedule entry *)
Definition fuel_for (n : nat) (h : hreader) : nat := n + length (fs_sched (hr_inner h)).

Fixpoint no_fault (sc : list rstep) : Prop :=
  match sc with
  | [] => True
  | Fault :: _ => False
  | _ :: r => no_fault r
  end.

(* upper bound on the number of bytes a schedule prefix can deliver *)
Fixpoint gives (sc : list rstep) : nat :=
  match sc with
  | [] => 0
  | Give k :: r => Nat.max 1 k + gives r
  | _ :: r => gives r
  end.

(* ---- programs: sequential exact-length reads, each continuation seeing the bytes read ---- *)
(* PFuel (not in the original four-constructor sketch) lets fuel-indexed readers (Ubjson.entries, event_loop)
   be embedded with run_flat equal to the model function at every fuel. *)
Inductive prog (A : Type) : Type :=
| PRet (a : A)
| PFail (e : eclass)
| PPanic (n : N)
| PFuel
| PRead (n : nat) (k : list byte -> prog A).
Arguments PRet {A} a.
Arguments PFail {A} e.
Arguments PPanic {A} n.
Arguments PFuel {A}.
Arguments PRead {A} n k.

Fixpoint run_flat {A} (p : prog A) (bs : list byte) : outcome (A * list byte) :=
  match p with
  | PRet a => Ok (a, bs)
  | PFail e => Err e
  | PPanic x => Panic x
  | PFuel => Fuel
  | PRead n k =>
      match rd_exact n bs with
      | Ok (b, r) => run_flat (k b) r
      | Err e => Err e | Panic x => Panic x | Fuel => Fuel
      end
  end.

Fixpoint run_frag {A} (p : prog A) (h : hreader) : outcome A * hreader :=
  match p with
  | PRet a => (Ok a, h)
  | PFail e => (Err e, h)
  | PPanic x => (Panic x, h)
  | PFuel => (Fuel, h)
  | PRead n k =>
      let '(res, h1) := read_exact_f (fuel_for n h) n h in
      match res with
      | Ok b => run_frag (k b) h1
      | Err e => (Err e, h1) | Panic x => (Panic x, h1) | Fuel => (Fuel, h1)
      end
  end.

Fixpoint pb {A B} (p : prog A) (f : A -> prog B) : prog B :=
  match p with
  | PRet a => f a
  | PFail e => PFail e
  | PPanic x => PPanic x
  | PFuel => PFuel
  | PRead n k => PRead n (fun bs => pb (k bs) f)
  end.

Definition p_lift {A} (o : outcome A) : prog A :=
  match o with Ok a => PRet a | Err e => PFail e | Panic x => PPanic x | Fuel => PFuel end.

(* the number of bytes read so far, threaded through a program (all reads are exact, so a program knows) *)
Fixpoint pcount {A} (p : prog A) (c : nat) : prog (A * nat) :=
  match p with
  | PRet a => PRet (a, c)
  | PFail e => PFail e
  | PPanic x => PPanic x
  | PFuel => PFuel
  | PRead n k => PRead n (fun bs => pcount (k bs) (c + n))
  end.

Definition p_exact (n : nat) : prog (list byte) := PRead n PRet.
Definition p_u8 : prog N := PRead 1 (fun bs => PRet (b2n (hd x00 bs))).
Definition p_be (w : nat) : prog N := pb (p_exact w) (fun b => PRet (be_dec b)).
Definition p_expect (e : list byte) : prog unit :=
  pb (p_exact (length e)) (fun b => if list_byte_eqb e b then PRet tt else PFail EInvalid).

Definition mk_hreader (data : list byte) (sched : list rstep) (hashed0 : option (list byte)) : hreader :=
  {| hr_inner := {| fs_data := data; fs_sched := sched |}; hr_hashed := hashed0 |}.

(* bind that also hands the continuation the running count of bytes read *)
Definition pbc {A B} (p : prog A) (c : nat) (f : A -> nat -> prog B) : prog B :=
  pb (pcount p c) (fun x => f (fst x) (snd x)).

(* ---- the reader of Model/Reader.v as programs ---- *)
Definition p_header : prog N := pb (p_expect sig_slp) (fun _ => p_be 4).

Definition p_payloads : prog (N * list (N * N)) :=
  pb p_u8 (fun code =>
  if negb (N.eqb code Event_Payloads) then PFail EInvalid else
  pb p_u8 (fun size =>
  if negb (N.eqb (size mod 3) 1) then PFail EInvalid else
  pb (p_exact (N.to_nat (size - 1))) (fun buf =>
    match table_entries (N.to_nat ((size - 1) / 3)) buf [] with
    | Ok sizes =>
        match lookup_size sizes Event_GameStart, lookup_size sizes Event_GameEnd with
        | Some _, Some _ => PRet ((1 + size)%N, sizes)
        | _, _ => PFail EInvalid
        end
    | Err e => PFail e | Panic x => PPanic x | Fuel => PFuel
    end))).

Definition p_game_start (sizes : list (N * N)) (bytes_read : N) : prog (N * start_t) :=
  pb p_u8 (fun code =>
  match lookup_size sizes code with
  | None => PFail EInvalid
  | Some size =>
      pb (p_exact (N.to_nat size)) (fun buf =>
      if N.eqb code Event_GameStart then
        match game_start buf with
        | ROk st => PRet ((bytes_read + size + 1)%N, st)
        | RErr => PFail EInvalid
        | RUnknown => PFail EUnknown
        end
      else PFail EInvalid)
  end).

Definition p_start : prog pstate :=
  pb p_payloads (fun '(br, sizes) =>
  pb (p_game_start sizes br) (fun '(br2, st) =>
  let ports := port_occupancy st in
  PRet {| ps_sizes := sizes; ps_bytes_read := br2; ps_split_raw := []; ps_split_actual := 0;
          ps_layout := layout_of (st_version st); ps_start := st; ps_end := None;
          ps_frames := frames_new (st_version st) ports; ps_meta := None; ps_gecko := None; ps_quirk := None |})).

Definition p_event (s : pstate) : prog (N * pstate) :=
  pb p_u8 (fun code =>
  match lookup_size (ps_sizes s) code with
  | None => PFail EInvalid
  | Some size =>
      pb (p_exact (N.to_nat size)) (fun buf =>
        match handle_event code buf s with
        | Ok (code', s') => PRet (code', add_bytes_read s' (size + 1)%N)
        | Err e => PFail e | Panic x => PPanic x | Fuel => PFuel
        end)
  end).

(* ---- metadata (UBJSON), read byte by byte; fuel as in Ubjson.entries ---- *)
Definition p_byte : prog byte := PRead 1 (fun bs => PRet (hd x00 bs)).

Definition p_str : prog (list byte) :=
  pb p_byte (fun n =>
  pb (p_exact (N.to_nat (b2n n))) (fun s => if utf8_valid s then PRet s else PFail EUtf8)).

Fixpoint p_entries (fuel : nat) (depth : N) (acc : utree) {struct fuel} : prog utree :=
  match fuel with
  | O => PFuel
  | S f =>
    pb p_byte (fun c =>
      if Byte.eqb c xU then
        pb p_str (fun k =>
        pb p_byte (fun t =>
          if Byte.eqb t xS then
            pb p_byte (fun u =>
              if Byte.eqb u xU then pb p_str (fun s => p_entries f depth (insert k (UStr s) acc))
              else PFail EInvalid)
          else if Byte.eqb t xl then
            pb (p_exact 4) (fun b4 => p_entries f depth (insert k (UInt (be_dec b4)) acc))
          else if Byte.eqb t xOpen then
            if (UBJSON_MAX_DEPTH <? depth + 1)%N then PFail EInvalid
            else pb (p_entries f (depth + 1)%N []) (fun m => p_entries f depth (insert k (UMap m) acc))
          else PFail EInvalid))
      else if Byte.eqb c xClose then PRet acc
      else PFail EInvalid)
  end.

Definition p_read_map (fuel : nat) : prog utree :=
  if (UBJSON_MAX_DEPTH <? 1)%N then PFail EInvalid else p_entries fuel 1 [].

(* rem: the number of bytes that remain in the stream when the program starts (ghost; only determines fuel) *)
Definition p_metadata (s : pstate) (rem : nat) : prog pstate :=
  pb (p_expect sig_meta) (fun _ =>
  pb (p_read_map (S (rem - length sig_meta))) (fun m => PRet (set_meta s m))).

(* ---- the event loop and the one-shot read (o_skip = false) ---- *)
Fixpoint p_event_loop (fuel : nat) (raw_len : N) (s : pstate) {struct fuel} : prog pstate :=
  match fuel with
  | O => PFuel
  | S f =>
      if N.eqb raw_len 0 || (ps_bytes_read s <? raw_len)%N then
        pb (p_event s) (fun '(code, s') =>
          if N.eqb code Event_GameEnd then PRet s' else p_event_loop f raw_len s')
      else PRet s
  end.

(* total: the length of the whole input (ghost; only determines fuel) *)
Definition p_slp_read (hash : bool) (total : nat) : prog game :=
  pbc p_header 0 (fun raw_len c =>
  pbc p_start c (fun s c =>
  pbc (p_event_loop (S (total - c)) raw_len s) c (fun s c =>
  let s := if vlt (ver s) 3 0 then frame_close s else s in
  pbc (if (ps_bytes_read s <? raw_len)%N then
         let len := (raw_len - ps_bytes_read s)%N in
         (* len comes from the file (up to 2^32): total - c bytes remain, and reading S (total - c) bytes fails
            (EIo, everything consumed) exactly like reading any len > total - c; so no huge unary number *)
         pb (p_exact (N.to_nat (N.min len (N.of_nat (S (total - c)))))) (fun buf =>
           if N.eqb len (1 + game_End_size (ver s)) && N.eqb (b2n (hd x00 buf)) Event_GameEnd
           then PRet (set_quirk s) else PRet s)
       else PRet s) c (fun s c =>
  pbc p_u8 c (fun b c =>
  pbc (if N.eqb b 85 then
         pb (p_metadata s (total - c)) (fun s => pb (p_expect [x7d]) (fun _ => PRet s))
       else if N.eqb b 125 then PRet s
       else PFail EInvalid) c (fun s c =>
  PRet (game_of_state s (if hash then Some c else None)))))))).
