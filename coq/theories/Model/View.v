(* Hand model of the hand-written Frame::transpose_one (src/frame/mutable.rs, src/frame/immutable/mod.rs preambles)
   and of the Arrow glue Data/PortData/Frame::{data_type, into_struct_array} (src/frame/immutable/peppi.rs preamble).
   The per-struct parts go through the regenerated tables. *)
From Coq Require Import List Arith NArith ZArith Lia Bool String.
From Coq.Strings Require Import Byte.
From Peppi Require Import Base.Bytes Base.Outcome Layout.Syntax Gen.Funs Gen.Tables Layout.Sem Layout.Rows Layout.Shapes
  Model.Start Model.Parse.
Import ListNotations.
Notation length := (@List.length _) (only parsing).
Local Open Scope string_scope.

(* ---- the single-frame record view ---- *)
Record cview := { cv_pre : list N; cv_post : list N }.
Record fview := {
  fv_id : Z; fv_chars : list (N * bool * cview);
  fv_start : option (list N); fv_end : option (list N); fv_items : option (list (list N))
}.

Definition row_vals (v : version) (E : string) (r : row) : list N :=
  match dec (row_leaves v E) r with Some (vals, _) => vals | None => [] end.

Definition at_row {A} (l : list A) (i : nat) : outcome A :=
  match nth_error l i with Some a => Ok a | None => Panic 601 end.    (* values()[i] out of range *)

Definition cdata_view (v : version) (d : cdata) (i : nat) : outcome cview :=
  a <- at_row (c_pre d) i ;; b <- at_row (c_post d) i ;;
  Ok {| cv_pre := row_vals v "Pre" a; cv_post := row_vals v "Post" b |}.

Fixpoint all_ok {A} (l : list (outcome A)) : outcome (list A) :=
  match l with
  | [] => Ok []
  | x :: r => a <- x ;; b <- all_ok r ;; Ok (a :: b)
  end.

Definition frame_view (v : version) (fr : frames) (i : nat) : outcome fview :=
  id <- at_row (f_ids fr) i ;;
  ports <- all_ok (map (fun c => x <- cdata_view v (sl_data c) i ;; Ok (sl_port c, sl_fol c, x)) (f_chars fr)) ;;
  st <- (if vgte v 2 2 then
           match f_start fr with
           | Some rows => r <- at_row rows i ;; Ok (Some (row_vals v "Start" r))
           | None => Panic 602
           end
         else Ok None) ;;
  en <- (if vgte v 3 0 then
           match f_end fr with
           | Some rows => r <- at_row rows i ;; Ok (Some (row_vals v "End" r))
           | None => Panic 603
           end
         else Ok None) ;;
  (* let (start, end) = self.item_offset.as_ref().unwrap().start_end(i);       -- 604 / index assertion 601
     (start..end).map(|k| self.item.as_ref().unwrap().transpose_one(k, version)).collect()
     self.item is unwrapped once per item of the frame, inside the loop: on a frame without items (start >= end) an absent
     item column set goes unnoticed; on a frame with items it is the first thing that fails (604), before any index error
     of a row k beyond the item columns (601) *)
  its <- (if vgte v 3 0 then
            match f_item_off fr with
            | Some offs =>
                a <- at_row offs i ;; b <- at_row offs (S i) ;;
                rs <- all_ok (map (fun k => match f_item fr with
                                            | Some items => at_row items k
                                            | None => Panic 604
                                            end) (seq (Z.to_nat a) (Z.to_nat b - Z.to_nat a))) ;;
                Ok (Some (map (row_vals v "Item") rs))
            | None => Panic 604
            end
          else Ok None) ;;
  Ok {| fv_id := id; fv_chars := ports; fv_start := st; fv_end := en; fv_items := its |}.

(* ---- Arrow export ---- *)
Inductive atree :=
| APrim (name : string) (ty : prim) (vals : list N)
| AStruct (name : string) (len : nat) (validity : option (list bool)) (children : list atree)
| AList (name : string) (len : nat) (inner : string) (offsets : list Z) (child : atree).

(* columns (leaf order) of a list of rows *)
Definition columns_of (v : version) (E : string) (rows : list row) : list (list N) :=
  let ls := row_leaves v E in
  let vals := map (fun r => match dec ls r with Some (x, _) => x | None => [] end) rows in
  map (fun k => map (fun rv => nth k rv 0%N) vals) (seq 0 (length ls)).

(* one struct by the regenerated data_type table: consumes the columns of its leaves in order *)
Fixpoint arrow_fields (fuel : nat) (v : version) (n : nat) (valid : option (list bool)) (ins : list instr)
         (cols : list (list N)) {struct fuel} : option (list atree * list (list N)) :=
  match fuel with
  | O => None
  | S f =>
    (fix go (ins : list instr) (cols : list (list N)) : option (list atree * list (list N)) :=
       match ins with
       | [] => Some ([], cols)
       | i :: r =>
         let here : option (list atree * list (list N)) :=
           match i with
           | Fld nm (Some p) _ =>
             match cols with c :: cr => Some ([APrim nm p c], cr) | [] => None end
           | SubT nm ty =>
             match assoc ty tbl_data_type with
             | Some body =>
               match arrow_fields f v n valid body cols with
               | Some (ch, cr) =>
                 let sv := match assoc ty tbl_into_validity with Some true => valid | _ => None end in
                 Some ([AStruct nm n sv ch], cr)
               | None => None
               end
             | None => None
             end
           | Gate M m body => if slippi_Version_gte v M m then arrow_fields f v n valid body cols else Some ([], cols)
           | _ => None
           end in
         match here with
         | Some (a, cr) => match go r cr with Some (b, cr') => Some ((a ++ b)%list, cr') | None => None end
         | None => None
         end
       end) ins cols
  end.

Definition arrow_struct (v : version) (S : string) (name : string) (rows : list row) (valid : option (list bool)) : outcome atree :=
  match assoc S tbl_data_type with
  | Some body =>
    match arrow_fields 24 v (length rows) valid body (columns_of v S rows) with
    | Some (ch, _) =>
        match ch with
        | [] => Panic 701        (* StructArray::new with no fields: arrow2 rejects it *)
        | _ => Ok (AStruct name (length rows) (match assoc S tbl_into_validity with Some true => valid | _ => None end) ch)
        end
    | None => Panic 702
    end
  | None => Panic 703
  end.

Definition port_name (p : N) : string :=
  if N.eqb p 0 then "P1" else if N.eqb p 1 then "P2" else if N.eqb p 2 then "P3" else "P4".

Definition arrow_data (v : version) (name : string) (d : cdata) : outcome atree :=
  if negb (Nat.eqb (length (c_pre d)) (length (c_post d))) then Panic 704 else
  a <- arrow_struct v "Pre" "pre" (c_pre d) (c_valid d) ;;
  b <- arrow_struct v "Post" "post" (c_post d) (c_valid d) ;;
  Ok (AStruct name (length (c_pre d)) (c_valid d) [a; b]).

(* regroup the flat character slots into ports: a leader, then its follower if the next slot is one for the same port *)
Fixpoint group_ports (fuel : nat) (cs : list slot) : list (N * cdata * option cdata) :=
  match fuel with
  | O => []
  | S f =>
    match cs with
    | [] => []
    | c :: r =>
      match r with
      | c2 :: r2 =>
        if sl_fol c2 && N.eqb (sl_port c2) (sl_port c)
        then (sl_port c, sl_data c, Some (sl_data c2)) :: group_ports f r2
        else (sl_port c, sl_data c, None) :: group_ports f r
      | [] => [(sl_port c, sl_data c, None)]
      end
    end
  end.

(* Frame::into_struct_array(version, ports) *)
Definition arrow_frame (v : version) (fr : frames) : outcome atree :=
  let n := length (f_ids fr) in
  ports <- all_ok (map (fun g : N * cdata * option cdata =>
                          l <- arrow_data v "leader" (snd (fst g)) ;;
                          f <- (match snd g with
                                | Some d => x <- arrow_data v "follower" d ;; Ok [x]
                                | None => Ok []
                                end) ;;
                          Ok (AStruct (port_name (fst (fst g))) (length (c_pre (snd (fst g)))) None (l :: f)))
                       (group_ports (length (f_chars fr)) (f_chars fr))) ;;
  _ <- (match ports with [] => Panic 705 | _ => Ok tt end) ;;      (* ports struct with no fields *)
  let base := [APrim "id" I32 (map (fun z => Z.to_N (z mod 4294967296)%Z) (f_ids fr)); AStruct "ports" n None ports] in
  if vgte v 2 2 then
    match f_start fr with
    | None => Panic 706
    | Some srows =>
      st <- arrow_struct v "Start" "start" srows None ;;
      if vgte v 3 0 then
        (* self.end is touched (unwrapped) only under version.gte(3, 7): before, the End record has no column *)
        en <- (if vgte v 3 7 then
                 match f_end fr with
                 | Some erows => x <- arrow_struct v "End" "end" erows None ;; Ok [x]
                 | None => Panic 707
                 end
               else Ok []) ;;
        match f_item fr with                                            (* self.item.unwrap() *)
        | Some items =>
            it <- arrow_struct v "Item" "item" items None ;;
            match f_item_off fr with                                    (* self.item_offset.unwrap() *)
            | Some offs => Ok (AStruct "frame" n None (base ++ [st] ++ en ++ [AList "item" n "item" offs it])%list)
            | None => Panic 707
            end
        | None => Panic 707
        end
      else Ok (AStruct "frame" n None (base ++ [st])%list)
    end
  else Ok (AStruct "frame" n None base).
