(* What "a well-formed replay" means: an abstract replay (version, start block, gecko blob, frame history with
   per-frame character presence and items, end, metadata), the canonical byte stream [emit] a recorder writes
   for it, the well-formedness predicate, and the columnar game [game_of] it denotes -- defined directly as a
   fold over the frame history, with no parser state machine.  [emit] is not the peppi writer. *)
From Coq Require Import List Arith NArith ZArith Lia Bool String.
From Coq.Strings Require Import Byte.
From Peppi Require Import Base.Bytes Base.Outcome Base.Stream Layout.Syntax Gen.Funs Layout.Sem Layout.Rows
  Model.Ubjson Model.Start Model.Json Model.Parse Model.Reader Model.Writer.
Import ListNotations.
Notation length := (@List.length _) (only parsing).

Record aframe := {
  af_id : Z;
  af_start : list byte;            (* Frame Start payload after the id; [] before 2.2 *)
  af_slots : list (option (list byte * list byte));
                                   (* per character slot (port order, leader before follower): the Pre and Post payloads
                                      after the 6-byte header if the character has events in this frame occurrence *)
  af_items : list (list byte);     (* Item payloads after the id *)
  af_end : list byte               (* Frame End payload after the id; [] before 3.0 *)
}.
Inductive aend := NoEnd | OneEnd (blk : list byte) | TwoEnds (blk : list byte).
Record replay := {
  r_start : list byte;             (* Game Start block; its first three bytes are the version *)
  r_gecko : option gecko_t;
  r_frames : list aframe;
  r_end : aend;
  r_meta : option utree
}.

Definition r_ver (r : replay) : version :=
  (u8_at (r_start r) 0, u8_at (r_start r) 1, u8_at (r_start r) 2).

(* ---- emit ---- *)
Definition end_blk (r : replay) : option (list byte) :=
  match r_end r with NoEnd => None | OneEnd b => Some b | TwoEnds b => Some b end.

(* the recorder's payload-size table, in the recorder's order *)
Definition rec_table (r : replay) : list (N * N) :=
  let v := r_ver r in
  let L := layout_of v in
  [(Event_GameStart, nn (length (r_start r)));
   (Event_FramePre, nn (6 + sz_pre L)); (Event_FramePost, nn (6 + sz_post L));
   (Event_GameEnd, match end_blk r with Some b => nn (length b) | None => game_End_size v end)]
  ++ (if vgte v 2 2 then [(Event_FrameStart, nn (4 + sz_start L))] else [])
  ++ (if vgte v 3 0 then [(Event_Item, nn (4 + sz_item L)); (Event_FrameEnd, nn (4 + sz_end L))] else [])
  ++ (if vgte v 3 3 then
        match r_gecko r with
        | Some c => [(Event_GeckoCodes, (gk_actual c mod 65536)%N); (Event_MessageSplitter, 516%N)]
        | None => []
        end
      else []).

Definition emit_table (t : list (N * N)) : list byte :=
  ev Event_Payloads ++ [n2b (nn (length t) * 3 + 1)] ++ flat_map (fun p => n2b (fst p) :: be_enc 2 (snd p)) t.

Fixpoint emit_gecko (k : nat) (pos : nat) (c : gecko_t) : list byte :=
  match k with
  | O => []
  | S k' =>
      let actual := N.to_nat (gk_actual c) in
      ev Event_MessageSplitter ++ firstn 512 (skipn pos (gk_bytes c)) ++ be_enc 2 (nn (Nat.min 512 (actual - pos)))
      ++ ev Event_GeckoCodes ++ [n2b (if (k' =? 0)%nat then 1 else 0)] ++ emit_gecko k' (pos + 512) c
  end.

Definition emit_char (pre : bool) (id : Z) (sl : N * bool) (o : option (list byte * list byte)) : list byte :=
  match o with
  | Some (p, q) =>
      ev (if pre then Event_FramePre else Event_FramePost) ++ i32_bytes id
      ++ [n2b (fst sl); n2b (if snd sl then 1 else 0)] ++ (if pre then p else q)
  | None => []
  end.

Definition emit_chars (pre : bool) (id : Z) (slots : list (N * bool)) (os : list (option (list byte * list byte))) : list byte :=
  flat_map (fun x => emit_char pre id (fst x) (snd x)) (combine slots os).

Definition emit_frame (v : version) (slots : list (N * bool)) (f : aframe) : list byte :=
  (if vgte v 2 2 then ev Event_FrameStart ++ i32_bytes (af_id f) ++ af_start f else [])
  ++ emit_chars true (af_id f) slots (af_slots f)
  ++ (if vgte v 3 0 then flat_map (fun it => ev Event_Item ++ i32_bytes (af_id f) ++ it) (af_items f) else [])
  ++ emit_chars false (af_id f) slots (af_slots f)
  ++ (if vgte v 3 0 then ev Event_FrameEnd ++ i32_bytes (af_id f) ++ af_end f else []).

Definition emit_end (r : replay) : list byte :=
  match r_end r with
  | NoEnd => []
  | OneEnd b => ev Event_GameEnd ++ b
  | TwoEnds b => ev Event_GameEnd ++ b ++ ev Event_GameEnd ++ b
  end.

Definition slots_of (ports : list (N * bool)) : list (N * bool) :=
  flat_map (fun p : N * bool => if snd p then [(fst p, false); (fst p, true)] else [(fst p, false)]) ports.

(* the occupied character slots, from the start block (empty if the block is not accepted) *)
Definition slots_r (r : replay) : list (N * bool) :=
  match game_start (r_start r) with ROk st => slots_of (port_occupancy st) | _ => [] end.

Definition raw_of (r : replay) : list byte :=
  emit_table (rec_table r) ++ ev Event_GameStart ++ r_start r
  ++ (match r_gecko r with Some c => emit_gecko (length (gk_bytes c) / 512) 0 c | None => [] end)
  ++ flat_map (emit_frame (r_ver r) (slots_r r)) (r_frames r)
  ++ emit_end r.

Definition emit_meta (m : option utree) : list byte :=
  match m with
  | Some t => match write_map t with Ok b => sig_meta_full ++ b ++ [x7d] | _ => [] end
  | None => []
  end.

Definition emit (r : replay) : list byte :=
  sig_slp ++ be_enc 4 (nn (length (raw_of r))) ++ raw_of r ++ emit_meta (r_meta r) ++ [x7d].

(* ---- the game a replay denotes ---- *)
Definition add_slot (L : layout) (c : slot) (o : option (list byte * list byte)) : slot :=
  {| sl_port := sl_port c; sl_fol := sl_fol c;
     sl_data := match o with
                | Some (p, q) => {| c_pre := c_pre (sl_data c) ++ [p]; c_post := c_post (sl_data c) ++ [q];
                                    c_valid := option_map (fun b => b ++ [true]) (c_valid (sl_data c)) |}
                | None => data_push_null L (sl_data c)
                end |}.

Fixpoint map2 {A B C} (f : A -> B -> C) (l : list A) (m : list B) : list C :=
  match l, m with a :: l', b :: m' => f a b :: map2 f l' m' | _, _ => [] end.

Definition add_frame (v : version) (L : layout) (fr : frames) (f : aframe) : frames :=
  {| f_ids := f_ids fr ++ [af_id f];
     f_chars := map2 (add_slot L) (f_chars fr) (af_slots f);
     f_start := option_map (fun rows => rows ++ [af_start f]) (f_start fr);
     f_end := option_map (fun rows => rows ++ [af_end f]) (f_end fr);
     f_item_off := match f_item_off fr, f_item fr with
                   | Some offs, Some items => Some (offs ++ [Z.of_nat (length items + length (af_items f))])
                   | o, _ => o
                   end;
     f_item := option_map (fun items => items ++ af_items f) (f_item fr) |}.

Definition frames_of (v : version) (ports : list (N * bool)) (fs : list aframe) : frames :=
  fold_left (add_frame v (layout_of v)) fs (frames_new v ports).

Definition game_of (o : opts) (r : replay) (st : start_t) (en : option end_t) : game :=
  let v := r_ver r in
  {| g_start := st; g_end := en;
     g_frames := if o_skip o then frames_new v (port_occupancy st) else frames_of v (port_occupancy st) (r_frames r);
     g_meta := r_meta r;
     g_gecko := if o_skip o then None else r_gecko r;
     g_hashed := if o_hash o then Some (length (emit r)) else None;
     g_quirk := if o_skip o then None else match r_end r with TwoEnds _ => Some true | _ => None end |}.

(* ---- well-formedness (decidable) ---- *)
Definition in_i32 (z : Z) : bool := (Z.leb (-2147483648) z) && (Z.ltb z 2147483648).

Definition wf_frame (v : version) (L : layout) (slots : list (N * bool)) (f : aframe) : bool :=
  in_i32 (af_id f)
  && (length (af_start f) =? (if vgte v 2 2 then sz_start L else 0))%nat
  && (length (af_end f) =? (if vgte v 3 0 then sz_end L else 0))%nat
  && (if vgte v 3 0 then forallb (fun it => (length it =? sz_item L)%nat) (af_items f)
      else match af_items f with [] => true | _ => false end)
  && (length (af_slots f) =? length slots)%nat
  && forallb (fun o => match o with
                       | Some (p, q) => (length p =? sz_pre L)%nat && (length q =? sz_post L)%nat
                       | None => true
                       end) (af_slots f)
  && (if vgte v 2 2 then true else existsb (fun o => match o with Some _ => true | None => false end) (af_slots f)).

(* before 2.2 there are no rollbacks: ids are consecutive from FIRST_INDEX *)
Fixpoint ids_from (z : Z) (fs : list aframe) : bool :=
  match fs with [] => true | f :: r => Z.eqb (af_id f) z && ids_from (z + 1) r end.

Definition wf_gecko (v : version) (g : option gecko_t) : bool :=
  match g with
  | None => true
  | Some c =>
      let k := (length (gk_bytes c) / 512)%nat in
      vgte v 3 3 && (length (gk_bytes c) mod 512 =? 0)%nat && (0 <? k)%nat
      && ((k - 1) * 512 <? N.to_nat (gk_actual c))%nat && (N.to_nat (gk_actual c) <=? k * 512)%nat
      && negb (N.eqb (gk_actual c mod 65536) 0)
  end.

Definition utf8_valid_b (s : list byte) : bool := Utf8.utf8_valid s.

Fixpoint wf_uval_b (fuel : nat) (v : uval) : bool :=
  match fuel with
  | O => false
  | S f =>
    match v with
    | UStr s => (length s <=? 255)%nat && utf8_valid_b s
    | UInt n => (n <? 4294967296)%N
    | UMap m =>
        (fix go (m : utree) (seen : list key) : bool :=
           match m with
           | [] => true
           | (k, v) :: r => (length k <=? 255)%nat && utf8_valid_b k && negb (existsb (bytes_eqb k) seen)
                            && wf_uval_b f v && go r (k :: seen)
           end) m []
    end
  end.

Definition wf_meta (m : option utree) : bool :=
  match m with
  | None => true
  | Some t => wf_uval_b 200 (UMap t) && (1 + depth_map t <=? UBJSON_MAX_DEPTH)%N
  end.

Definition res_is_ok {A} (r : res A) : bool := match r with ROk _ => true | _ => false end.

Definition wf_replay (r : replay) : bool :=
  let v := r_ver r in
  let L := layout_of v in
  match game_start (r_start r) with
  | ROk st =>
      let slots := slots_of (port_occupancy st) in
      assert_max_version_ok v
      && (nn (length (r_start r)) <=? 65535)%N
      && forallb (wf_frame v L slots) (r_frames r)
      && (if vgte v 2 2 then true else ids_from FIRST_INDEX (r_frames r))
      && wf_gecko v (r_gecko r)
      && (match end_blk r with
          | Some b => (length b =? N.to_nat (game_End_size v))%nat && res_is_ok (game_end b)
          | None => true
          end)
      && wf_meta (r_meta r)
      && (nn (length (raw_of r)) <? 4294967296)%N
  | _ => false
  end.

(* a finished replay: Game End present (as the last event) *)
Definition finished (r : replay) : bool := match r_end r with NoEnd => false | _ => true end.
