(* JSON values, the serde renderings of game::Start / game::End (src/game/mod.rs derive(Serialize)), and the
   canonical text the harness prints for a serde_json::Value (harness/src/dump.rs cjson): strings hex-encoded,
   f32 as "f<bits>" (non-finite -> null, as serde_json does), integers in decimal. *)
From Coq Require Import List Arith NArith ZArith Bool String Ascii.
From Coq.Strings Require Import Byte.
From Peppi Require Import Base.Bytes Gen.Funs Model.Ubjson Model.Start.
Import ListNotations.
Local Open Scope N_scope.

Inductive jv :=
| JNull | JBool (b : bool) | JInt (z : Z) | JF32 (bits : N) | JStr (utf8 : list byte)
| JArr (l : list jv) | JObj (l : list (list byte * jv)).

Fixpoint sb (s : string) : list byte :=
  match s with
  | EmptyString => []
  | String a r => n2b (N_of_ascii a) :: sb r
  end.

Definition asc (s : list N) : list byte := map n2b s.

Fixpoint dec_digits (fuel : nat) (n : N) (acc : list byte) : list byte :=
  match fuel with
  | O => acc
  | S f => let acc' := n2b (48 + n mod 10) :: acc in
           if n <? 10 then acc' else dec_digits f (n / 10) acc'
  end.
Definition show_N (n : N) : list byte := dec_digits 40 n [].
Definition show_Z (z : Z) : list byte :=
  match z with
  | Zneg p => n2b 45 :: show_N (Npos p)
  | _ => show_N (Z.to_N z)
  end.

Definition hexd (n : N) : byte := n2b (if n <? 10 then 48 + n else 87 + n).
Definition hex_of (bs : list byte) : list byte :=
  flat_map (fun b => [hexd (b2n b / 16); hexd (b2n b mod 16)]) bs.

Definition f32_finite (bits : N) : bool := negb ((bits / 8388608) mod 256 =? 255).

Definition quote (bs : list byte) : list byte := n2b 34 :: hex_of bs ++ [n2b 34].

Fixpoint intersperse (sep : list byte) (l : list (list byte)) : list byte :=
  match l with
  | [] => []
  | [a] => a
  | a :: r => a ++ sep ++ intersperse sep r
  end.

Fixpoint cjson (v : jv) : list byte :=
  match v with
  | JNull => sb "null"
  | JBool true => sb "true"
  | JBool false => sb "false"
  | JInt z => show_Z z
  | JF32 b => if f32_finite b then n2b 102 :: show_N b else sb "null"
  | JStr s => quote s
  | JArr l => n2b 91 :: intersperse [n2b 44] (map cjson l) ++ [n2b 93]
  | JObj l => n2b 123 :: intersperse [n2b 44]
                 ((fix go (l : list (list byte * jv)) : list (list byte) :=
                     match l with
                     | [] => []
                     | (kk, v) :: r => (quote kk ++ n2b 58 :: cjson v) :: go r
                     end) l) ++ [n2b 125]
  end.

Definition sint (w : nat) (n : N) : Z :=
  let m := (256 ^ N.of_nat w)%N in
  if (n <? m / 2) then Z.of_N n else (Z.of_N n - Z.of_N m)%Z.

(* metadata tree -> JSON *)
Fixpoint jv_of_uval (v : uval) : jv :=
  match v with
  | UStr s => JStr s
  | UInt n => JInt (sint 4 n)
  | UMap m => JObj ((fix go (m : utree) : list (list byte * jv) :=
                       match m with [] => [] | (kk, v) :: r => (kk, jv_of_uval v) :: go r end) m)
  end.
Definition jv_of_utree (m : utree) : jv := jv_of_uval (UMap m).

Definition jn (n : N) : jv := JInt (Z.of_N n).
Definition enum_name (names : list (N * list N)) (x : N) : jv :=
  match find (fun p => fst p =? x) names with Some p => JStr (asc (snd p)) | None => JNull end.

(* Option fields: [ofld] = #[serde(skip_serializing_if = "Option::is_none")], [nfld] = plain Option (null) *)
Definition ofld {A} (name : string) (f : A -> jv) (o : option A) : list (list byte * jv) :=
  match o with Some a => [(sb name, f a)] | None => [] end.
Definition nfld {A} (name : string) (f : A -> jv) (o : option A) : list (list byte * jv) :=
  [(sb name, match o with Some a => f a | None => JNull end)].
Definition fld (name : string) (v : jv) : list (list byte * jv) := [(sb name, v)].

Definition json_player (p : player) : jv :=
  JObj (fld "port" (enum_name Port_names (pl_port p))
     ++ fld "character" (jn (pl_character p))
     ++ fld "type" (enum_name PlayerType_names (pl_type p))
     ++ fld "stocks" (jn (pl_stocks p))
     ++ fld "costume" (jn (pl_costume p))
     ++ nfld "team" (fun t => JObj (fld "color" (jn (fst t)) ++ fld "shade" (jn (snd t)))) (pl_team p)
     ++ fld "handicap" (jn (pl_handicap p))
     ++ fld "bitfield" (jn (pl_bitfield p))
     ++ nfld "cpu_level" jn (pl_cpu_level p)
     ++ fld "offense_ratio" (JF32 (pl_offense p))
     ++ fld "defense_ratio" (JF32 (pl_defense p))
     ++ fld "model_scale" (JF32 (pl_scale p))
     ++ ofld "ucf" (fun u => JObj (nfld "dash_back" (enum_name DashBack_names) (fst u)
                                ++ nfld "shield_drop" (enum_name ShieldDrop_names) (snd u))) (pl_ucf p)
     ++ ofld "name_tag" JStr (pl_name_tag p)
     ++ ofld "netplay" (fun n => JObj (fld "name" (JStr (fst (fst n))) ++ fld "code" (JStr (snd (fst n)))
                                     ++ ofld "suid" JStr (snd n))) (pl_netplay p)).

Definition json_start (s : start_t) : jv :=
  JObj (fld "slippi" (JObj (fld "version" (JArr [jn (v0 (st_version s)); jn (v1 (st_version s)); jn (v2 (st_version s))])))
     ++ fld "bitfield" (JArr (map jn (st_bitfield s)))
     ++ fld "is_raining_bombs" (JBool (st_bombs s))
     ++ fld "is_teams" (JBool (st_teams s))
     ++ fld "item_spawn_frequency" (JInt (sint 1 (st_item_freq s)))
     ++ fld "self_destruct_score" (JInt (sint 1 (st_sd_score s)))
     ++ fld "stage" (jn (st_stage s))
     ++ fld "timer" (jn (st_timer s))
     ++ fld "item_spawn_bitfield" (JArr (map jn (st_item_bitfield s)))
     ++ fld "damage_ratio" (JF32 (st_damage_ratio s))
     ++ fld "players" (JArr (map json_player (st_players s)))
     ++ fld "random_seed" (jn (st_seed s))
     ++ ofld "is_pal" JBool (st_pal s)
     ++ ofld "is_frozen_ps" JBool (st_frozen s)
     ++ ofld "scene" (fun sc => JObj (fld "minor" (jn (fst sc)) ++ fld "major" (jn (snd sc)))) (st_scene s)
     ++ ofld "language" (enum_name Language_names) (st_language s)
     ++ ofld "match" (fun m => JObj (fld "id" (JStr (fst (fst m))) ++ fld "game" (jn (snd (fst m)))
                                   ++ fld "tiebreaker" (jn (snd m)))) (st_match s)).

Definition json_end (e : end_t) : jv :=
  JObj (fld "method" (enum_name EndMethod_names (en_method e))
     ++ ofld "lras_initiator" (fun o => match o with Some p => enum_name Port_names p | None => JNull end) (en_lras e)
     ++ ofld "players" (fun l => JArr (map (fun pp => JObj (fld "port" (enum_name Port_names (fst pp))
                                                          ++ fld "placement" (jn (snd pp)))) l)) (en_players e)).
