(* Hand model of immutable::Frame::rollbacks / rollbacks_ (src/frame/immutable/mod.rs). *)
From Coq Require Import List Arith NArith ZArith Lia Bool.
From Peppi Require Import Base.Outcome Gen.Funs.
Import ListNotations.
Notation length := (@List.length _) (only parsing).
Local Open Scope Z_scope.

(* usize::try_from(i64::from(id) - i64::from(FIRST_INDEX)).unwrap() *)
Definition zb (id : Z) : outcome nat :=
  if id <? FIRST_INDEX then Panic 501 else Ok (Z.to_nat (id - FIRST_INDEX)).

Fixpoint set_true (k : nat) (l : list bool) : list bool :=
  match l, k with
  | [], _ => []
  | _ :: r, O => true :: r
  | x :: r, S j => x :: set_true j r
  end.

(* one pass in iteration order: the mark of each visited row *)
Fixpoint scan (ids : list Z) (seen : list bool) : outcome (list bool) :=
  match ids with
  | [] => Ok []
  | id :: r =>
      z <- zb id ;;
      match nth_error seen z with
      | None => Panic 502          (* seen[zero_based_id]: index out of bounds *)
      | Some b => rest <- scan r (set_true z seen) ;; Ok (b :: rest)
      end
  end.

Definition zmax (ids : list Z) : option Z :=
  match ids with [] => None | x :: r => Some (fold_left Z.max r x) end.

Inductive keep := ExceptFirst | ExceptLast.

Definition rollbacks (k : keep) (ids : list Z) : outcome (list bool) :=
  count <- (match zmax ids with None => Ok O | Some m => z <- zb m ;; Ok (S z) end) ;;
  let seen := repeat false count in
  match k with
  | ExceptFirst => scan ids seen
  | ExceptLast => r <- scan (rev ids) seen ;; Ok (rev r)
  end.
