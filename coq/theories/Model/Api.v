(* The functions the model runner calls, under stable names (single-file extraction flattens module
   names and renames on clashes; these wrappers keep the OCaml driver independent of that). *)
From Coq Require Import List NArith ZArith String.
From Coq.Strings Require Import Byte.
From Peppi Require Import Base.Bytes Layout.Syntax Gen.Funs Gen.Tables Layout.Sem Model.VersionText.
Import ListNotations.

Definition api_b2n := b2n.
Definition api_gte := slippi_Version_gte.
Definition api_lt := slippi_Version_lt.
Definition api_max_ok := assert_max_version_ok.
Definition api_ver_show := VersionText.show.
Definition api_ver_parse := VersionText.parse.
Definition api_nat_succ (n : nat) : nat := S n.
Definition api_str_len (s : string) : nat := String.length s.
Definition api_z_succ (z : Z) : Z := Z.succ z.
