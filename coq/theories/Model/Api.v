(* The functions the model runner calls, under stable names (single-file extraction flattens module
   names and renames on clashes; these wrappers keep the OCaml driver independent of that). *)
From Coq Require Import List NArith ZArith String.
From Coq.Strings Require Import Byte.
From Peppi Require Import Base.Bytes Layout.Syntax Gen.Funs Gen.Tables Layout.Sem Model.VersionText.
Import ListNotations.

Definition api_b2n := b2n.
Definition api_gte := slippi_Version_gte.
Definition api_lt := slippi_Version_lt.
Definition api_max_ok := assert_max_version_ok.
Definition api_ver_show := VersionText.show.
Definition api_ver_parse := VersionText.parse.
Definition api_nat_succ (n : nat) : nat := S n.
Definition api_str_len (s : string) : nat := String.length s.
Definition api_z_succ (z : Z) : Z := Z.succ z.

From Peppi Require Import Base.Outcome Base.Stream Layout.Rows Model.Ubjson Model.Start Model.Json Model.Parse Model.Reader Model.Writer.

Definition api_read (skip hash : bool) (bs : list byte) := slp_read {| o_skip := skip; o_hash := hash |} bs.
Definition api_write (g : game) := slp_write g.
Definition api_leaves (v : version) (E : string) : list gleaf := row_leaves v E.
Definition api_row_vals (ls : list gleaf) (r : list byte) : list N :=
  match dec ls r with Some (vals, _) => vals | None => [] end.
Definition api_col_names (ls : list gleaf) : list string := map lpath ls.
Definition api_cjson_start (s : start_t) : list byte := cjson (json_start s).
Definition api_cjson_end (e : end_t) : list byte := cjson (json_end e).
Definition api_cjson_meta (m : utree) : list byte := cjson (jv_of_utree m).
Definition api_game_version (g : game) : version := st_version (g_start g).

From Peppi Require Import Model.Recorder.
Definition api_emit (r : replay) : list byte := emit r.
Definition api_wf (r : replay) : bool := wf_replay r.
Definition api_game_of (skip hash : bool) (r : replay) : option game :=
  match game_start (r_start r) with
  | ROk st =>
      let en := match end_blk r with
                | Some b => match game_end b with ROk e => Some e | _ => None end
                | None => None
                end in
      Some (game_of {| o_skip := skip; o_hash := hash |} r st en)
  | _ => None
  end.
Definition api_read_map (bs : list byte) := read_map bs.
Definition api_mk_replay (start : list byte) (g : option gecko_t) (fs : list aframe) (e : aend) (m : option utree) : replay :=
  {| r_start := start; r_gecko := g; r_frames := fs; r_end := e; r_meta := m |}.
Definition api_mk_frame (id : Z) (st : list byte) (cs : list (option (list byte * list byte))) (its : list (list byte)) (en : list byte) : aframe :=
  {| af_id := id; af_start := st; af_slots := cs; af_items := its; af_end := en |}.
Definition api_mk_gecko (b : list byte) (a : N) : gecko_t := {| gk_bytes := b; gk_actual := a |}.

From Peppi Require Import Model.Rollbacks Model.ShiftJis.
Definition api_rollbacks (first : bool) (ids : list Z) := rollbacks (if first then ExceptFirst else ExceptLast) ids.
Definition api_fix_char (c : N) : N := fix_char_u32 c.
Definition api_is_scalar (c : N) : bool := is_scalar c.
Definition api_melee_string (bs : list byte) := melee_string bs.

Definition api_parse_header (bs : list byte) := parse_header bs.
Definition api_parse_start (bs : list byte) := parse_start bs.
Definition api_parse_event (s : pstate) (bs : list byte) := parse_event s bs.
Definition api_parse_metadata (s : pstate) (bs : list byte) := parse_metadata s bs.
Definition api_rd_exact (n : nat) (bs : list byte) := rd_exact n bs.
Definition api_state_version (s : pstate) : version := ver s.

From Peppi Require Import Model.View.
Definition api_frame_view (v : version) (fr : frames) (i : nat) := frame_view v fr i.
Definition api_arrow_frame (v : version) (fr : frames) := arrow_frame v fr.

From Peppi Require Import Model.Slpp.
(* the archive bytes the model predicts for a game, given the opaque JSON / Arrow blobs of the real run *)
Definition api_slpp_archive (g : game) (hash : option (list byte))
           (meta_blob start_blob end_blob frames_blob : list byte) : outcome (list byte) :=
  es <- slpp_write peppi_json (fun _ => meta_blob) (fun _ => start_blob) (fun _ => end_blob)
                   (fun _ _ _ _ => Ok frames_blob) CNone {| sg_game := g; sg_hash := hash |} ;;
  Ok (tar_bytes es).
Definition api_entry_names (g : game) : list (list byte) :=
  match slpp_write (fun _ _ _ => []) (fun _ => []) (fun _ => []) (fun _ => []) (fun _ _ _ _ => Ok []) CNone
                   {| sg_game := g; sg_hash := None |} with
  | Ok es => map fst es
  | _ => []
  end.

From Peppi Require Import Model.Frag.
(* the fragmenting-stream model, for the correspondence run against std's read_exact and the real reader over a
   scheduled reader (harness SchedReader) *)
Definition api_step_give (k : nat) : rstep := Give k.
Definition api_step_interrupt : rstep := Interrupt.
Definition api_step_fault : rstep := Fault.
Definition api_rexact (n : nat) (data : list byte) (sched : list rstep) : outcome (list byte) * list byte * list rstep :=
  let h := mk_hreader data sched None in
  let '(res, h') := read_exact_f (fuel_for n h) n h in (res, fs_data (hr_inner h'), fs_sched (hr_inner h')).
Definition api_read_sched (hash : bool) (data : list byte) (sched : list rstep) : outcome game * list byte * option nat :=
  let '(res, h') := run_frag (p_slp_read hash (List.length data)) (mk_hreader data sched (if hash then Some [] else None)) in
  (res, fs_data (hr_inner h'), option_map (@List.length byte) (hr_hashed h')).

(* irregular renderings (Proofs/Irregular*.v): the stream the definitions describe and the decidable membership test *)
From Peppi Require Import Proofs.Irregular Proofs.IrregularCheck.
Definition api_mk_irreg (extra : list (N * N)) (evs : list (N * list byte)) (junk : list byte) : irreg :=
  {| ig_extra := extra; ig_events := evs; ig_junk := junk |}.
Definition api_emit_irr (r : replay) (x : irreg) : list byte := emit_irr r x.
Definition api_wf_irreg2_b (r : replay) (x : irreg) : bool :=
  match game_start (r_start r) with ROk st => wf_irreg2_b r st x | _ => false end.

From Peppi Require Import Model.Abstract.
Definition api_in_class (bs : list byte) : option bool := in_class bs.
