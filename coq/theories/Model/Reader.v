(* Hand model of parse_header / parse_payloads / parse_game_start / parse_start / parse_event / parse_metadata /
   read (src/io/slippi/de.rs) over the flat byte view of the stream (Base/Stream.v). *)
From Coq Require Import List Arith NArith ZArith Lia Bool String.
From Coq.Strings Require Import Byte.
From Peppi Require Import Base.Bytes Base.Outcome Base.Stream Layout.Syntax Gen.Funs Layout.Sem Layout.Rows
  Model.Ubjson Model.Start Model.Json Model.Parse.
Import ListNotations.
Notation length := (@List.length _) (only parsing).

Record opts := { o_skip : bool; o_hash : bool }.

Record game := {
  g_start : start_t; g_end : option end_t; g_frames : frames; g_meta : option utree;
  g_gecko : option gecko_t;
  g_hashed : option nat;      (* Some n: hashing was on and exactly the first n bytes of the input were hashed *)
  g_quirk : option bool
}.

Definition sig_slp : list byte := map n2b SLIPPI_FILE_SIGNATURE.
Definition sig_meta : list byte := map n2b [8; 109; 101; 116; 97; 100; 97; 116; 97; 123]%N.

Definition parse_header : parser N := pbind (expect_bytes sig_slp) (fun _ => rd_be 4).

Fixpoint lookup_size (sizes : list (N * N)) (code : N) : option N :=
  match sizes with
  | [] => None
  | (c, sz) :: r => if N.eqb c code then Some sz else lookup_size r code
  end.

(* the size table: 3-byte entries (code, u16 size); a zero size is an error; later entries win *)
Fixpoint table_entries (k : nat) (buf : list byte) (acc : list (N * N)) : outcome (list (N * N)) :=
  match k with
  | O => Ok acc
  | S k' =>
      match buf with
      | c :: h :: l :: r =>
          let sz := (b2n h * 256 + b2n l)%N in
          if N.eqb sz 0 then Err EInvalid else table_entries k' r ((b2n c, sz) :: acc)
      | _ => Err EIo
      end
  end.

Definition parse_payloads : parser (N * list (N * N)) :=
  pbind rd_u8 (fun code =>
  if negb (N.eqb code Event_Payloads) then fail EInvalid else
  pbind rd_u8 (fun size =>
  if negb (N.eqb (size mod 3) 1) then fail EInvalid else
  pbind (rd_exact (N.to_nat (size - 1))) (fun buf =>
  fun bs =>
    match table_entries (N.to_nat ((size - 1) / 3)) buf [] with
    | Ok sizes =>
        match lookup_size sizes Event_GameStart, lookup_size sizes Event_GameEnd with
        | Some _, Some _ => Ok ((1 + size)%N, sizes, bs)
        | _, _ => Err EInvalid
        end
    | Err e => Err e | Panic p => Panic p | Fuel => Fuel
    end))).

Definition parse_game_start (sizes : list (N * N)) (bytes_read : N) : parser (N * start_t) :=
  pbind rd_u8 (fun code =>
  match lookup_size sizes code with
  | None => fail EInvalid
  | Some size =>
      pbind (rd_exact (N.to_nat size)) (fun buf =>
      if N.eqb code Event_GameStart then
        match game_start buf with
        | ROk st => ret ((bytes_read + size + 1)%N, st)
        | RErr => fail EInvalid
        | RUnknown => fail EUnknown
        end
      else fail EInvalid)
  end).

Definition parse_start : parser pstate :=
  pbind parse_payloads (fun '(br, sizes) =>
  pbind (parse_game_start sizes br) (fun '(br2, st) =>
  let ports := port_occupancy st in
  ret {| ps_sizes := sizes; ps_bytes_read := br2; ps_split_raw := []; ps_split_actual := 0;
         ps_layout := layout_of (st_version st); ps_start := st; ps_end := None;
         ps_frames := frames_new (st_version st) ports; ps_meta := None; ps_gecko := None; ps_quirk := None |})).

(* parse_event: one event from the stream; returns the (possibly substituted) code *)
Definition parse_event (s : pstate) : parser (N * pstate) :=
  pbind rd_u8 (fun code =>
  match lookup_size (ps_sizes s) code with
  | None => fail EInvalid
  | Some size =>
      pbind (rd_exact (N.to_nat size)) (fun buf =>
      fun bs =>
        match handle_event code buf s with
        | Ok (code', s') => Ok (code', add_bytes_read s' (size + 1)%N, bs)
        | Err e => Err e | Panic p => Panic p | Fuel => Fuel
        end)
  end).

Definition set_meta (s : pstate) (m : utree) : pstate :=
  {| ps_sizes := ps_sizes s; ps_bytes_read := ps_bytes_read s; ps_split_raw := ps_split_raw s;
     ps_split_actual := ps_split_actual s; ps_layout := ps_layout s; ps_start := ps_start s;
     ps_end := ps_end s; ps_frames := ps_frames s; ps_meta := Some m; ps_gecko := ps_gecko s; ps_quirk := ps_quirk s |}.

Definition set_quirk (s : pstate) : pstate :=
  {| ps_sizes := ps_sizes s; ps_bytes_read := ps_bytes_read s; ps_split_raw := ps_split_raw s;
     ps_split_actual := ps_split_actual s; ps_layout := ps_layout s; ps_start := ps_start s;
     ps_end := ps_end s; ps_frames := ps_frames s; ps_meta := ps_meta s; ps_gecko := ps_gecko s; ps_quirk := Some true |}.

(* parse_metadata: the caller has consumed the 'U' *)
Definition parse_metadata (s : pstate) : parser pstate :=
  pbind (expect_bytes sig_meta) (fun _ =>
  fun bs => match read_map bs with
            | Ok (m, r) => Ok (set_meta s m, r)
            | Err e => Err e | Panic p => Panic p | Fuel => Fuel
            end).

(* the main event loop: while raw_len == 0 || bytes_read < raw_len { if parse_event == GameEnd { break } } *)
Fixpoint event_loop (fuel : nat) (raw_len : N) (s : pstate) (bs : list byte) : outcome (pstate * list byte) :=
  match fuel with
  | O => Fuel
  | S f =>
      if N.eqb raw_len 0 || (ps_bytes_read s <? raw_len)%N then
        match parse_event s bs with
        | Ok (code, s', r) => if N.eqb code Event_GameEnd then Ok (s', r) else event_loop f raw_len s' r
        | Err e => Err e | Panic p => Panic p | Fuel => Fuel
        end
      else Ok (s, bs)
  end.

(* skipping / reading a count taken from the file: decided on N first, so that a huge declared length never
   becomes a unary number (semantically rd_exact (N.to_nat n) and skipn (N.to_nat n)) *)
Definition drop_upto (n : N) (bs : list byte) : list byte :=
  if (N.of_nat (length bs) <=? n)%N then [] else skipn (N.to_nat n) bs.

Definition rd_exact_N (n : N) : parser (list byte) :=
  fun bs => if (N.of_nat (length bs) <? n)%N then Err EIo else rd_exact (N.to_nat n) bs.

Definition game_of_state (s : pstate) (hashed : option nat) : game :=
  {| g_start := ps_start s; g_end := ps_end s; g_frames := ps_frames s; g_meta := ps_meta s;
     g_gecko := ps_gecko s; g_hashed := hashed; g_quirk := ps_quirk s |}.

(* read(): returns the game and the unread rest of the input *)
Definition slp_read (o : opts) (bs0 : list byte) : outcome (game * list byte) :=
  '(raw_len, bs) <- parse_header bs0 ;;
  '(s, bs) <- parse_start bs ;;
  '(s, bs) <-
     (if o_skip o then
        match lookup_size (ps_sizes s) Event_GameEnd with
        | None => Panic 301      (* payload_sizes[GameEnd].unwrap(): parse_payloads guarantees presence *)
        | Some esz =>
            let end_offset := (1 + esz)%N in
            if N.eqb raw_len 0 || (raw_len <? ps_bytes_read s + end_offset)%N then Err EInvalid
            else
              let skip := (raw_len - ps_bytes_read s - end_offset)%N in
              (* hashing: io::copy(take(skip)) stops silently at end of input; otherwise seek, which may go past the end *)
              Ok (add_bytes_read s skip, drop_upto skip bs)
        end
      else Ok (s, bs)) ;;
  '(s, bs) <- event_loop (S (length bs)) raw_len s bs ;;
  let s := if vlt (ver s) 3 0 then frame_close s else s in
  '(s, bs) <-
     (if (ps_bytes_read s <? raw_len)%N then
        let len := (raw_len - ps_bytes_read s)%N in
        '(buf, bs) <- rd_exact_N len bs ;;
        if N.eqb len (1 + game_End_size (ver s)) && N.eqb (b2n (hd x00 buf)) Event_GameEnd
        then Ok (set_quirk s, bs) else Ok (s, bs)
      else Ok (s, bs)) ;;
  '(b, bs) <- rd_u8 bs ;;
  '(s, bs) <-
     (if N.eqb b 85 then
        '(s, bs) <- parse_metadata s bs ;;
        '(_, bs) <- expect_bytes [x7d] bs ;;
        Ok (s, bs)
      else if N.eqb b 125 then Ok (s, bs)
      else Err EInvalid) ;;
  Ok (game_of_state s (if o_hash o then Some (length bs0 - length bs)%nat else None), bs).
