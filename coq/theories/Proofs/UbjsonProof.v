(* UBJSON metadata reader / writer (Model/Ubjson.v): the writer succeeds on well-formed trees, the reader
   inverts the writer, the reader is total and only consumes, truncated output is rejected, and the boolean
   well-formedness checker of Model/Recorder.v is sound. *)
From Coq Require Import List Arith NArith Lia Bool ZifyBool ZifyN ZifyNat.
From Coq.Strings Require Import Byte.
From Peppi Require Import Base.Bytes Base.Outcome Gen.Funs Model.Utf8 Model.Ubjson.
From Peppi Require Model.Recorder.
Import ListNotations.

(* ------------------------------------------------------------------------------------------------ *)
(* lists                                                                                            *)
(* ------------------------------------------------------------------------------------------------ *)

Lemma firstn_length_app {A} (a b : list A) : firstn (List.length a) (a ++ b) = a.
Proof.
  induction a as [|x a IH]; [reflexivity|].
  cbn [List.length app firstn]. rewrite IH. reflexivity.
Qed.

Lemma skipn_length_app {A} (a b : list A) : skipn (List.length a) (a ++ b) = b.
Proof.
  induction a as [|x a IH]; [reflexivity|].
  cbn [List.length app skipn]. exact IH.
Qed.

Lemma firstn_app_exact {A} n (a b : list A) : List.length a = n -> firstn n (a ++ b) = a.
Proof. intros <-. apply firstn_length_app. Qed.

Lemma skipn_app_exact {A} n (a b : list A) : List.length a = n -> skipn n (a ++ b) = b.
Proof. intros <-. apply skipn_length_app. Qed.

Lemma firstn_app_le {A} n (a b : list A) : (n <= List.length a)%nat -> firstn n (a ++ b) = firstn n a.
Proof.
  intro Hle. rewrite firstn_app.
  replace (n - List.length a)%nat with 0%nat by lia.
  cbn [firstn]. apply app_nil_r.
Qed.

Lemma skipn_app_le {A} n (a b : list A) : (n <= List.length a)%nat -> skipn n (a ++ b) = skipn n a ++ b.
Proof.
  intro Hle. rewrite skipn_app.
  replace (n - List.length a)%nat with 0%nat by lia.
  reflexivity.
Qed.

(* suffixes *)
Definition sfx (rest bs : list byte) : Prop := exists used, bs = used ++ rest.

Lemma sfx_refl bs : sfx bs bs.
Proof. exists []. reflexivity. Qed.

Lemma sfx_trans a b c : sfx a b -> sfx b c -> sfx a c.
Proof.
  intros [u1 E1] [u2 E2]. exists (u2 ++ u1). rewrite E2, E1. apply app_assoc.
Qed.

Lemma sfx_cons x a b : sfx a b -> sfx a (x :: b).
Proof. intros [u E]. exists (x :: u). rewrite E. reflexivity. Qed.

Lemma sfx_skipn n bs : sfx (skipn n bs) bs.
Proof. exists (firstn n bs). symmetry. apply firstn_skipn. Qed.

Lemma sfx_length a b : sfx a b -> (List.length a <= List.length b)%nat.
Proof. intros [u E]. rewrite E, app_length. lia. Qed.

(* ------------------------------------------------------------------------------------------------ *)
(* bytes_eqb, insert                                                                                *)
(* ------------------------------------------------------------------------------------------------ *)

Lemma byte_eqb_sym a b : Byte.eqb a b = Byte.eqb b a.
Proof.
  destruct (Byte.eqb a b) eqn:E1; destruct (Byte.eqb b a) eqn:E2; try reflexivity.
  - apply Byte.byte_dec_bl in E1. subst b. rewrite Byte.byte_dec_lb in E2 by reflexivity. discriminate E2.
  - apply Byte.byte_dec_bl in E2. subst b. rewrite Byte.byte_dec_lb in E1 by reflexivity. discriminate E1.
Qed.

Lemma forallb_combine_sym (a b : list byte) :
  forallb (fun p => Byte.eqb (fst p) (snd p)) (combine a b)
  = forallb (fun p => Byte.eqb (fst p) (snd p)) (combine b a).
Proof.
  revert b. induction a as [|x a IH]; intros [|y b]; cbn [combine forallb fst snd]; try reflexivity.
  rewrite (byte_eqb_sym x y), (IH b). reflexivity.
Qed.

Lemma bytes_eqb_sym a b : bytes_eqb a b = bytes_eqb b a.
Proof.
  unfold bytes_eqb. rewrite (Nat.eqb_sym (List.length a) (List.length b)), (forallb_combine_sym a b).
  reflexivity.
Qed.

Lemma insert_fresh k v acc :
  (forall k' v', In (k', v') acc -> bytes_eqb k k' = false) -> insert k v acc = acc ++ [(k, v)].
Proof.
  induction acc as [|[k1 v1] acc IH]; intro Hfresh; cbn [insert app]; [reflexivity|].
  rewrite (Hfresh k1 v1) by (left; reflexivity).
  f_equal. apply IH. intros k' v' Hin. apply (Hfresh k' v'). right. exact Hin.
Qed.

(* ------------------------------------------------------------------------------------------------ *)
(* rd_str                                                                                           *)
(* ------------------------------------------------------------------------------------------------ *)

Lemma rd_str_mk n s r :
  List.length s = N.to_nat (b2n n) -> utf8_valid s = true -> rd_str (n :: s ++ r) = Ok (s, r).
Proof.
  intros Hlen Hutf. unfold rd_str. cbv zeta. rewrite <- Hlen.
  destruct (Nat.ltb_spec (List.length (s ++ r)) (List.length s)) as [Hlt|Hge].
  - rewrite app_length in Hlt. lia.
  - rewrite firstn_length_app, skipn_length_app, Hutf. reflexivity.
Qed.

Lemma rd_str_inv bs s rest :
  rd_str bs = Ok (s, rest) ->
  exists n, bs = n :: s ++ rest /\ List.length s = N.to_nat (b2n n) /\ utf8_valid s = true.
Proof.
  destruct bs as [|n r]; [intro H; discriminate H|].
  unfold rd_str. cbv zeta.
  destruct (Nat.ltb_spec (List.length r) (N.to_nat (b2n n))) as [Hlt|Hge]; [intro H; discriminate H|].
  destruct (utf8_valid (firstn (N.to_nat (b2n n)) r)) eqn:Hutf; [|intro H; discriminate H].
  intro H. apply ok_inj in H. injection H as Hs Hrest. subst s rest.
  exists n. split; [|split].
  - rewrite firstn_skipn. reflexivity.
  - apply firstn_length_le. exact Hge.
  - exact Hutf.
Qed.

Lemma rd_str_wr s rest : str_ok s -> rd_str (n2b (N.of_nat (List.length s)) :: s ++ rest) = Ok (s, rest).
Proof.
  intros [Hlen Hutf]. apply rd_str_mk; [|exact Hutf].
  rewrite b2n_n2b. rewrite N.mod_small by lia. rewrite Nat2N.id. reflexivity.
Qed.

Lemma rd_str_ext bs s rest suf : rd_str bs = Ok (s, rest) -> rd_str (bs ++ suf) = Ok (s, rest ++ suf).
Proof.
  intro H. apply rd_str_inv in H. destruct H as [n [E [Hlen Hutf]]]. subst bs.
  cbn [app]. rewrite <- app_assoc. apply rd_str_mk; assumption.
Qed.

Lemma rd_str_sfx bs s rest : rd_str bs = Ok (s, rest) -> sfx rest bs.
Proof.
  intro H. apply rd_str_inv in H. destruct H as [n [E _]]. subst bs.
  exists (n :: s). reflexivity.
Qed.

Lemma rd_str_no_panic bs : no_panic (rd_str bs).
Proof.
  destruct bs as [|n r]; [exact I|].
  unfold rd_str. cbv zeta.
  destruct (List.length r <? N.to_nat (b2n n))%nat; [exact I|].
  destruct (utf8_valid (firstn (N.to_nat (b2n n)) r)); exact I.
Qed.

(* ------------------------------------------------------------------------------------------------ *)
(* the local fixpoints of write_val and depth_val are write_map and depth_map                       *)
(* ------------------------------------------------------------------------------------------------ *)

Lemma write_val_map m : write_val (UMap m) = (b <- write_map m ;; Ok (xOpen :: b ++ [xClose])).
Proof.
  cbn [write_val].
  match goal with |- bind ?x _ = _ => replace x with (write_map m) end; [reflexivity|].
  induction m as [|[k v] r IH]; [reflexivity|].
  cbn [write_map]. rewrite IH. reflexivity.
Qed.

Lemma depth_val_map m : depth_val (UMap m) = (1 + depth_map m)%N.
Proof.
  cbn [depth_val].
  match goal with |- (1 + ?x)%N = _ => replace x with (depth_map m) end; [reflexivity|].
  induction m as [|[k v] r IH]; [reflexivity|].
  cbn [depth_map]. rewrite IH. reflexivity.
Qed.

Lemma wr_str_ok s : str_ok s -> wr_str s = Ok (xU :: n2b (N.of_nat (List.length s)) :: s).
Proof.
  intros [Hlen _]. unfold wr_str.
  destruct (Nat.ltb_spec 255 (List.length s)) as [Hlt|_]; [lia|reflexivity].
Qed.

Lemma write_map_cons_inv k v r b :
  write_map ((k, v) :: r) = Ok b ->
  exists kb vb rb, wr_str k = Ok kb /\ write_val v = Ok vb /\ write_map r = Ok rb /\ b = kb ++ vb ++ rb.
Proof.
  cbn [write_map]. intro H.
  apply bind_ok in H. destruct H as [kb [Hk H]].
  apply bind_ok in H. destruct H as [vb [Hv H]].
  apply bind_ok in H. destruct H as [rb [Hr H]].
  apply ok_inj in H. exists kb, vb, rb. repeat split; try assumption. symmetry. exact H.
Qed.

Scheme wf_val_min := Minimality for wf_val Sort Prop
  with wf_tree_min := Minimality for wf_tree Sort Prop.

(* ------------------------------------------------------------------------------------------------ *)
(* 1. the writer succeeds on well-formed trees                                                       *)
(* ------------------------------------------------------------------------------------------------ *)

Theorem write_map_ok t : wf_tree t -> exists b, write_map t = Ok b.
Proof.
  apply (wf_tree_min (fun v => exists b, write_val v = Ok b) (fun m => exists b, write_map m = Ok b)).
  - intros s Hs. cbn [write_val]. rewrite (wr_str_ok s Hs). cbn [bind]. eexists. reflexivity.
  - intros n Hn. cbn [write_val].
    destruct (N.ltb_spec n 4294967296) as [_|Hge]; [eexists; reflexivity|lia].
  - intros m _ [b Hb]. rewrite write_val_map, Hb. cbn [bind]. eexists. reflexivity.
  - exists []. reflexivity.
  - intros k v r Hk _ [vb Hvb] _ [rb Hrb] _.
    cbn [write_map]. rewrite (wr_str_ok k Hk), Hvb, Hrb. cbn [bind]. eexists. reflexivity.
Qed.

Theorem write_val_ok v : wf_val v -> exists b, write_val v = Ok b.
Proof.
  intro Hv. destruct Hv as [s Hs|n Hn|m Hm].
  - cbn [write_val]. rewrite (wr_str_ok s Hs). cbn [bind]. eexists. reflexivity.
  - cbn [write_val].
    destruct (N.ltb_spec n 4294967296) as [_|Hge]; [eexists; reflexivity|lia].
  - destruct (write_map_ok m Hm) as [b Hb]. rewrite write_val_map, Hb. cbn [bind]. eexists. reflexivity.
Qed.

(* ------------------------------------------------------------------------------------------------ *)
(* 2. round trip                                                                                    *)
(* ------------------------------------------------------------------------------------------------ *)

Lemma entries_close f d acc r : entries (S f) d acc (xClose :: r) = Ok (acc, r).
Proof. reflexivity. Qed.

Lemma step_str f d acc r k r3 s r4 :
  rd_str r = Ok (k, xS :: xU :: r3) -> rd_str r3 = Ok (s, r4) ->
  entries (S f) d acc (xU :: r) = entries f d (insert k (UStr s) acc) r4.
Proof.
  intros H1 H2. cbn [entries].
  change (Byte.eqb xU xU) with true. cbv iota.
  rewrite H1. cbn [bind].
  change (Byte.eqb xS xS) with true. change (Byte.eqb xU xU) with true. cbv iota.
  rewrite H2. reflexivity.
Qed.

Lemma step_int f d acc r k r2 :
  rd_str r = Ok (k, xl :: r2) -> (4 <= List.length r2)%nat ->
  entries (S f) d acc (xU :: r) = entries f d (insert k (UInt (be_dec (firstn 4 r2))) acc) (skipn 4 r2).
Proof.
  intros H1 H2. cbn [entries].
  change (Byte.eqb xU xU) with true. cbv iota.
  rewrite H1. cbn [bind].
  change (Byte.eqb xl xS) with false. change (Byte.eqb xl xl) with true. cbv iota.
  destruct (Nat.ltb_spec (List.length r2) 4) as [Hlt|_]; [lia|reflexivity].
Qed.

Lemma step_map f d acc r k r2 m r3 :
  rd_str r = Ok (k, xOpen :: r2) -> (d + 1 <= UBJSON_MAX_DEPTH)%N ->
  entries f (d + 1) [] r2 = Ok (m, r3) ->
  entries (S f) d acc (xU :: r) = entries f d (insert k (UMap m) acc) r3.
Proof.
  intros H1 H2 H3. cbn [entries].
  change (Byte.eqb xU xU) with true. cbv iota.
  rewrite H1. cbn [bind].
  change (Byte.eqb xOpen xS) with false. change (Byte.eqb xOpen xl) with false.
  change (Byte.eqb xOpen xOpen) with true. cbv iota.
  destruct (N.ltb_spec UBJSON_MAX_DEPTH (d + 1)) as [Hlt|_]; [lia|].
  rewrite H3. reflexivity.
Qed.

(* every key of m differs from every key of acc *)
Definition fresh_for (m acc : utree) : Prop :=
  forall k v k' v', In (k, v) m -> In (k', v') acc -> bytes_eqb k k' = false.

(* the generalised round trip for one map body *)
Definition RT (m : utree) : Prop :=
  forall fuel d acc b rest,
    write_map m = Ok b -> fresh_for m acc -> (d + depth_map m <= UBJSON_MAX_DEPTH)%N ->
    (List.length b + S (List.length rest) < fuel)%nat ->
    entries fuel d acc (b ++ xClose :: rest) = Ok (acc ++ m, rest).

Lemma RT_tail (k : key) (v : uval) (r : utree) :
  RT r -> (forall k' v', In (k', v') r -> bytes_eqb k k' = false) ->
  forall f d acc rb rest,
    write_map r = Ok rb -> fresh_for ((k, v) :: r) acc -> (d + depth_map r <= UBJSON_MAX_DEPTH)%N ->
    (List.length rb + S (List.length rest) < f)%nat ->
    entries f d (insert k v acc) (rb ++ xClose :: rest) = Ok (acc ++ (k, v) :: r, rest).
Proof.
  intros HRT Hdist f d acc rb rest Hw Hfresh Hd Hfuel.
  rewrite insert_fresh.
  2:{ intros k' v' Hin. apply (Hfresh k v k' v'); [left; reflexivity|exact Hin]. }
  replace (acc ++ (k, v) :: r) with ((acc ++ [(k, v)]) ++ r) by (rewrite <- app_assoc; reflexivity).
  apply (HRT f d (acc ++ [(k, v)]) rb rest Hw).
  - intros k1 v1 k2 v2 Hin1 Hin2. apply in_app_or in Hin2. destruct Hin2 as [Hin2|Hin2].
    + apply (Hfresh k1 v1 k2 v2); [right; exact Hin1|exact Hin2].
    + destruct Hin2 as [E|[]]. injection E as Ek Ev. subst k2 v2.
      rewrite bytes_eqb_sym. apply (Hdist k1 v1). exact Hin1.
  - exact Hd.
  - exact Hfuel.
Qed.

Lemma RT_all m : wf_tree m -> RT m.
Proof.
  apply (wf_tree_min (fun v => match v with UMap m' => RT m' | _ => True end) RT).
  - intros s _. exact I.
  - intros n _. exact I.
  - intros m' _ H. exact H.
  - (* empty map *)
    intros fuel d acc b rest Hw _ _ Hfuel.
    cbn [write_map] in Hw. apply ok_inj in Hw. subst b.
    destruct fuel as [|f]; [lia|].
    cbn [app]. rewrite entries_close, app_nil_r. reflexivity.
  - intros k v r Hk Hv HPv _ HRTr Hdist.
    intros fuel d acc b rest Hw Hfresh Hd Hfuel.
    apply write_map_cons_inv in Hw. destruct Hw as [kb [vb [rb [Hkb [Hvb [Hrb Eb]]]]]].
    rewrite (wr_str_ok k Hk) in Hkb. apply ok_inj in Hkb. subst kb. subst b.
    cbn [depth_map] in Hd.
    destruct fuel as [|f]; [lia|].
    rewrite !app_length in Hfuel. cbn [List.length] in Hfuel.
    destruct Hv as [s Hs|n Hn|m' Hm'].
    + (* string value *)
      cbn [write_val] in Hvb. rewrite (wr_str_ok s Hs) in Hvb. cbn [bind] in Hvb.
      apply ok_inj in Hvb. subst vb. cbn [List.length] in Hfuel.
      rewrite <- !app_assoc. cbn [app].
      rewrite (step_str f d acc _ k _ s _ (rd_str_wr k _ Hk) (rd_str_wr s _ Hs)).
      apply (RT_tail k (UStr s) r HRTr Hdist); try assumption.
      * cbn [depth_val] in Hd. lia.
      * lia.
    + (* integer value *)
      cbn [write_val] in Hvb.
      destruct (N.ltb_spec n 4294967296) as [_|Hge]; [|lia].
      apply ok_inj in Hvb. subst vb. cbn [List.length] in Hfuel. rewrite length_be_enc in Hfuel.
      rewrite <- !app_assoc. cbn [app].
      rewrite (step_int f d acc _ k _ (rd_str_wr k _ Hk)).
      2:{ rewrite app_length, length_be_enc. lia. }
      rewrite (firstn_app_exact 4 _ _ (length_be_enc 4 n)).
      rewrite (skipn_app_exact 4 _ _ (length_be_enc 4 n)).
      rewrite be_dec_enc.
      2:{ change (256 ^ N.of_nat 4)%N with 4294967296%N. exact Hn. }
      apply (RT_tail k (UInt n) r HRTr Hdist); try assumption.
      * cbn [depth_val] in Hd. lia.
      * lia.
    + (* nested map *)
      rewrite write_val_map in Hvb.
      apply bind_ok in Hvb. destruct Hvb as [b' [Hb' Hvb]]. apply ok_inj in Hvb. subst vb.
      rewrite depth_val_map in Hd.
      cbn [List.length] in Hfuel. rewrite app_length in Hfuel. cbn [List.length] in Hfuel.
      rewrite <- !app_assoc. cbn [app]. rewrite <- !app_assoc. cbn [app].
      assert (Hinner : entries f (d + 1) [] (b' ++ xClose :: rb ++ xClose :: rest)
                       = Ok (m', rb ++ xClose :: rest)).
      { apply (HPv f (d + 1)%N [] b' (rb ++ xClose :: rest) Hb').
        - intros k1 v1 k2 v2 _ [].
        - lia.
        - rewrite app_length. cbn [List.length]. lia. }
      assert (Hd1 : (d + 1 <= UBJSON_MAX_DEPTH)%N) by lia.
      rewrite (step_map f d acc _ k _ m' _ (rd_str_wr k _ Hk) Hd1 Hinner).
      apply (RT_tail k (UMap m') r HRTr Hdist); try assumption.
      * lia.
      * lia.
Qed.

Theorem read_write_map t b rest :
  wf_tree t -> (1 + depth_map t <= UBJSON_MAX_DEPTH)%N -> write_map t = Ok b ->
  read_map (b ++ xClose :: rest) = Ok (t, rest).
Proof.
  intros Hwf Hd Hw. unfold read_map.
  destruct (N.ltb_spec UBJSON_MAX_DEPTH 1) as [Hlt|_]; [lia|].
  apply (RT_all t Hwf (S (List.length (b ++ xClose :: rest))) 1%N [] b rest Hw).
  - intros k1 v1 k2 v2 _ [].
  - exact Hd.
  - rewrite app_length. cbn [List.length]. lia.
Qed.

(* ------------------------------------------------------------------------------------------------ *)
(* 3. the recorder's boolean checker is sound                                                        *)
(* ------------------------------------------------------------------------------------------------ *)

Lemma existsb_false_all (k : key) (seen : list key) :
  negb (existsb (bytes_eqb k) seen) = true -> forall s, In s seen -> bytes_eqb k s = false.
Proof.
  intros Hneg s Hin. destruct (bytes_eqb k s) eqn:E; [|reflexivity].
  assert (Hex : existsb (bytes_eqb k) seen = true).
  { apply existsb_exists. exists s. split; assumption. }
  rewrite Hex in Hneg. discriminate Hneg.
Qed.

Lemma wf_go_sound f (IHf : forall v, Recorder.wf_uval_b f v = true -> wf_val v) :
  forall (m : utree) (seen : list key),
    (fix go (m : utree) (seen : list key) : bool :=
       match m with
       | [] => true
       | (k, v) :: r =>
           (List.length k <=? 255)%nat && Recorder.utf8_valid_b k && negb (existsb (bytes_eqb k) seen)
           && Recorder.wf_uval_b f v && go r (k :: seen)
       end) m seen = true ->
    wf_tree m /\ (forall k v s, In (k, v) m -> In s seen -> bytes_eqb k s = false).
Proof.
  induction m as [|[k v] r IHr]; intros seen H.
  - split; [constructor|]. intros k v s [].
  - cbv beta iota in H.
    apply andb_prop in H. destruct H as [H Hgo].
    apply andb_prop in H. destruct H as [H Hv].
    apply andb_prop in H. destruct H as [H Hseen].
    apply andb_prop in H. destruct H as [Hlen Hutf].
    apply IHr in Hgo. destruct Hgo as [Hwr Hrs].
    split.
    + constructor.
      * split; [apply Nat.leb_le; exact Hlen|exact Hutf].
      * apply IHf. exact Hv.
      * exact Hwr.
      * intros k' v' Hin. rewrite bytes_eqb_sym. apply (Hrs k' v' k Hin). left. reflexivity.
    + intros k0 v0 s [E|Hin] Hs.
      * injection E as Ek Ev. subst k0 v0. apply (existsb_false_all k seen Hseen s Hs).
      * apply (Hrs k0 v0 s Hin). right. exact Hs.
Qed.

Lemma wf_uval_b_val_sound fuel v : Recorder.wf_uval_b fuel v = true -> wf_val v.
Proof.
  revert v. induction fuel as [|f IHf]; intros v H; [discriminate H|].
  destruct v as [s|n|m].
  - cbn [Recorder.wf_uval_b] in H. apply andb_prop in H. destruct H as [Hlen Hutf].
    constructor. split; [apply Nat.leb_le; exact Hlen|exact Hutf].
  - cbn [Recorder.wf_uval_b] in H. constructor. apply N.ltb_lt. exact H.
  - cbn [Recorder.wf_uval_b] in H. constructor.
    apply (wf_go_sound f IHf) in H. destruct H as [H _]. exact H.
Qed.

Lemma wf_uval_b_sound fuel t : Recorder.wf_uval_b fuel (UMap t) = true -> wf_tree t.
Proof.
  intro H. apply wf_uval_b_val_sound in H. inversion H as [| |m Hm E]. exact Hm.
Qed.

(* ------------------------------------------------------------------------------------------------ *)
(* 5. the reader only consumes                                                                      *)
(* ------------------------------------------------------------------------------------------------ *)

Lemma entries_sfx fuel : forall d acc bs t rest,
  entries fuel d acc bs = Ok (t, rest) -> exists c r, bs = c :: r /\ sfx rest r.
Proof.
  induction fuel as [|f IH]; intros d acc bs t rest; [intro H; discriminate H|].
  assert (IH' : forall d acc bs t rest, entries f d acc bs = Ok (t, rest) -> sfx rest bs).
  { intros d0 acc0 bs0 t0 rest0 H0. apply IH in H0. destruct H0 as [c0 [r0 [E0 S0]]].
    subst bs0. apply sfx_cons. exact S0. }
  destruct bs as [|c r]; [intro H; discriminate H|].
  cbn [entries].
  destruct (Byte.eqb c xU).
  - destruct (rd_str r) as [[k r1]|e|p|] eqn:Hk; cbn [bind]; try (intro H; discriminate H).
    apply rd_str_sfx in Hk.
    destruct r1 as [|t0 r2]; [intro H; discriminate H|].
    assert (S2 : sfx r2 r). { apply (sfx_trans _ (t0 :: r2)); [apply sfx_cons, sfx_refl|exact Hk]. }
    destruct (Byte.eqb t0 xS).
    + destruct r2 as [|u r3]; [intro H; discriminate H|].
      destruct (Byte.eqb u xU); [|intro H; discriminate H].
      destruct (rd_str r3) as [[s r4]|e|p|] eqn:Hs; cbn [bind]; try (intro H; discriminate H).
      apply rd_str_sfx in Hs.
      intro H. apply IH' in H. exists c, r. split; [reflexivity|].
      apply (sfx_trans _ r4); [exact H|]. apply (sfx_trans _ r3); [exact Hs|].
      apply (sfx_trans _ (u :: r3)); [apply sfx_cons, sfx_refl|exact S2].
    + destruct (Byte.eqb t0 xl).
      * destruct (List.length r2 <? 4)%nat; [intro H; discriminate H|].
        intro H. apply IH' in H. exists c, r. split; [reflexivity|].
        apply (sfx_trans _ (skipn 4 r2)); [exact H|].
        apply (sfx_trans _ r2); [apply sfx_skipn|exact S2].
      * destruct (Byte.eqb t0 xOpen); [|intro H; discriminate H].
        destruct (UBJSON_MAX_DEPTH <? d + 1)%N; [intro H; discriminate H|].
        destruct (entries f (d + 1) [] r2) as [[m r3]|e|p|] eqn:Hm; cbn [bind]; try (intro H; discriminate H).
        apply IH' in Hm.
        intro H. apply IH' in H. exists c, r. split; [reflexivity|].
        apply (sfx_trans _ r3); [exact H|]. apply (sfx_trans _ r2); [exact Hm|exact S2].
  - destruct (Byte.eqb c xClose); [|intro H; discriminate H].
    intro H. apply ok_inj in H. injection H as Et Er. subst t rest.
    exists c, r. split; [reflexivity|apply sfx_refl].
Qed.

Lemma entries_consumes fuel d acc bs t rest :
  entries fuel d acc bs = Ok (t, rest) -> exists used, bs = used ++ rest /\ used <> [].
Proof.
  intro H. apply entries_sfx in H. destruct H as [c [r [E [u Eu]]]].
  exists (c :: u). split; [rewrite E, Eu; reflexivity|discriminate].
Qed.

Theorem read_map_consumes bs t rest :
  read_map bs = Ok (t, rest) -> exists used, bs = used ++ rest /\ used <> [].
Proof.
  unfold read_map. destruct (UBJSON_MAX_DEPTH <? 1)%N; [intro H; discriminate H|].
  apply entries_consumes.
Qed.

(* ------------------------------------------------------------------------------------------------ *)
(* 4. the reader is total                                                                           *)
(* ------------------------------------------------------------------------------------------------ *)

Lemma entries_no_panic fuel : forall d acc bs,
  (List.length bs < fuel)%nat -> no_panic (entries fuel d acc bs).
Proof.
  induction fuel as [|f IH]; intros d acc bs Hfuel; [lia|].
  destruct bs as [|c r]; [exact I|].
  cbn [List.length] in Hfuel. cbn [entries].
  destruct (Byte.eqb c xU).
  - apply bind_no_panic; [apply rd_str_no_panic|].
    intros [k r1] Hk. apply rd_str_sfx, sfx_length in Hk.
    destruct r1 as [|t0 r2]; [exact I|]. cbn [List.length] in Hk.
    destruct (Byte.eqb t0 xS).
    + destruct r2 as [|u r3]; [exact I|]. cbn [List.length] in Hk.
      destruct (Byte.eqb u xU); [|exact I].
      apply bind_no_panic; [apply rd_str_no_panic|].
      intros [s r4] Hs. apply rd_str_sfx, sfx_length in Hs.
      apply IH. lia.
    + destruct (Byte.eqb t0 xl).
      * destruct (List.length r2 <? 4)%nat; [exact I|].
        apply IH. pose proof (sfx_length _ _ (sfx_skipn 4 r2)) as Hsk. lia.
      * destruct (Byte.eqb t0 xOpen); [|exact I].
        destruct (UBJSON_MAX_DEPTH <? d + 1)%N; [exact I|].
        apply bind_no_panic; [apply IH; lia|].
        intros [m r3] Hm. apply entries_sfx in Hm. destruct Hm as [c0 [r0 [E0 S0]]].
        apply sfx_length in S0. subst r2. cbn [List.length] in Hk.
        apply IH. lia.
  - destruct (Byte.eqb c xClose); exact I.
Qed.

Theorem read_map_total bs : match read_map bs with Fuel => False | Panic _ => False | _ => True end.
Proof.
  change (no_panic (read_map bs)). unfold read_map.
  destruct (UBJSON_MAX_DEPTH <? 1)%N; [exact I|].
  apply entries_no_panic. lia.
Qed.

(* ------------------------------------------------------------------------------------------------ *)
(* 6. truncated output is rejected                                                                  *)
(* ------------------------------------------------------------------------------------------------ *)

(* a successful read is stable under more fuel and more trailing input *)
Lemma entries_ext fuel : forall fuel' d acc bs t rest suf,
  (fuel <= fuel')%nat -> entries fuel d acc bs = Ok (t, rest) ->
  entries fuel' d acc (bs ++ suf) = Ok (t, rest ++ suf).
Proof.
  induction fuel as [|f IH]; intros fuel' d acc bs t rest suf Hle; [intro H; discriminate H|].
  destruct fuel' as [|f']; [lia|].
  assert (Hle' : (f <= f')%nat) by lia.
  destruct bs as [|c r]; [intro H; discriminate H|].
  cbn [app]. cbn [entries].
  destruct (Byte.eqb c xU).
  - destruct (rd_str r) as [[k r1]|e|p|] eqn:Hk; cbn [bind]; try (intro H; discriminate H).
    rewrite (rd_str_ext _ _ _ suf Hk). cbn [bind].
    destruct r1 as [|t0 r2]; [intro H; discriminate H|]. cbn [app].
    destruct (Byte.eqb t0 xS).
    + destruct r2 as [|u r3]; [intro H; discriminate H|]. cbn [app].
      destruct (Byte.eqb u xU); [|intro H; discriminate H].
      destruct (rd_str r3) as [[s r4]|e|p|] eqn:Hs; cbn [bind]; try (intro H; discriminate H).
      rewrite (rd_str_ext _ _ _ suf Hs). cbn [bind].
      apply IH. exact Hle'.
    + destruct (Byte.eqb t0 xl).
      * destruct (Nat.ltb_spec (List.length r2) 4) as [Hlt|Hge]; [intro H; discriminate H|].
        destruct (Nat.ltb_spec (List.length (r2 ++ suf)) 4) as [Hlt'|_]; [rewrite app_length in Hlt'; lia|].
        rewrite (firstn_app_le 4 r2 suf Hge), (skipn_app_le 4 r2 suf Hge).
        apply IH. exact Hle'.
      * destruct (Byte.eqb t0 xOpen); [|intro H; discriminate H].
        destruct (UBJSON_MAX_DEPTH <? d + 1)%N; [intro H; discriminate H|].
        destruct (entries f (d + 1) [] r2) as [[m r3]|e|p|] eqn:Hm; cbn [bind]; try (intro H; discriminate H).
        rewrite (IH f' _ _ _ _ _ suf Hle' Hm). cbn [bind].
        apply IH. exact Hle'.
  - destruct (Byte.eqb c xClose); [|intro H; discriminate H].
    intro H. apply ok_inj in H. injection H as Et Er. subst t rest. reflexivity.
Qed.

Theorem read_map_truncated t b pre suf :
  wf_tree t -> (1 + depth_map t <= UBJSON_MAX_DEPTH)%N -> write_map t = Ok b ->
  b ++ [xClose] = pre ++ suf -> suf <> [] -> exists e, read_map pre = Err e.
Proof.
  intros Hwf Hd Hw Hsplit Hsuf.
  pose proof (read_map_total pre) as Htot.
  destruct (read_map pre) as [[t' rest']|e|p|] eqn:Hpre; [|exists e; reflexivity|destruct Htot|destruct Htot].
  exfalso.
  pose proof (read_write_map t b [] Hwf Hd Hw) as Hfull.
  rewrite Hsplit in Hfull.
  unfold read_map in Hpre, Hfull.
  destruct (N.ltb_spec UBJSON_MAX_DEPTH 1) as [Hlt|_]; [lia|].
  apply (entries_ext _ (S (List.length (pre ++ suf))) _ _ _ _ _ suf) in Hpre.
  2:{ rewrite app_length. lia. }
  rewrite Hpre in Hfull. apply ok_inj in Hfull. injection Hfull as _ Hrest.
  apply app_eq_nil in Hrest. destruct Hrest as [_ Hnil]. exact (Hsuf Hnil).
Qed.

Print Assumptions write_map_ok.
Print Assumptions read_write_map.
Print Assumptions wf_uval_b_sound.
Print Assumptions read_map_total.
Print Assumptions read_map_consumes.
Print Assumptions read_map_truncated.
