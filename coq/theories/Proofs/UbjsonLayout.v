(* The UBJSON subset used for replay metadata: the marker bytes and the read/write shapes of the hand model Model/Ubjson.v
   restated THROUGH the tables that tools/rust2coq.py regenerates from the text of src/io/ubjson/de.rs (to_val, to_key, to_utf8,
   read_map_at) and src/io/ubjson/ser.rs (write_utf8, write_map) -- Gen/UbjsonMarkers.v.

   If the source changes a marker byte on either side, the marker of the string length, or the width of the integer, the
   regenerated table changes and these theorems no longer hold of the unchanged hand model. *)
From Coq Require Import List Arith NArith ZArith Lia Bool String.
From Coq.Strings Require Import Byte.
From Peppi Require Import Base.Bytes Base.Outcome Gen.Funs Gen.UbjsonMarkers Model.Utf8 Model.Ubjson Proofs.UbjsonProof.
Import ListNotations.
Notation length := (@List.length _) (only parsing).
Local Open Scope string_scope.
Local Open Scope list_scope.

Ltac ev_term x := let v := eval vm_compute in x in progress change x with v.

(* the byte of the arm of a given kind (order of the arms is irrelevant: the patterns are distinct literals) *)
Fixpoint mark_of (arms : list (N * string)) (kind : string) : byte :=
  match arms with
  | [] => x00
  | (c, k) :: r => if String.eqb k kind then n2b c else mark_of r kind
  end.
Definition vmark := mark_of ubj_val_arms.
Definition kmark := mark_of ubj_key_arms.

Fixpoint wr_arm (arms : list (string * list N * list N)) (variant : string) : list byte * list byte :=
  match arms with
  | [] => ([], [])
  | (v, a, b) :: r => if String.eqb v variant then (map n2b a, map n2b b) else wr_arm r variant
  end.
Definition wbefore (variant : string) : list byte := fst (wr_arm ubj_wr_val_arms variant).
Definition wafter (variant : string) : list byte := snd (wr_arm ubj_wr_val_arms variant).

Ltac ev_closed :=
  repeat match goal with
  | |- context [vmark ?k] => ev_term (vmark k)
  | |- context [kmark ?k] => ev_term (kmark k)
  | |- context [wbefore ?k] => ev_term (wbefore k)
  | |- context [wafter ?k] => ev_term (wafter k)
  | |- context [n2b ubj_str_len_marker] => ev_term (n2b ubj_str_len_marker)
  | |- context [n2b ubj_wr_utf8_marker] => ev_term (n2b ubj_wr_utf8_marker)
  | |- context [ubj_int_width] => ev_term ubj_int_width
  end.

(* ---- the markers ---- *)
Theorem ubjson_markers_from_source :
  xU = kmark "key" /\ xClose = kmark "end" /\ xS = vmark "str" /\ xl = vmark "i32" /\ xOpen = vmark "map" /\
  xU = n2b ubj_str_len_marker /\ xU = n2b ubj_wr_utf8_marker /\
  [xS] = wbefore "String" /\ [xl] = wbefore "Number" /\ [xOpen] = wbefore "Object" /\ [xClose] = wafter "Object" /\
  wafter "String" = [] /\ wafter "Number" = [].
Proof. repeat split; vm_compute; reflexivity. Qed.

(* ---- reader: one step of read_map_at's loop (to_key, then to_val) ---- *)
Definition entries_step_src (rec : N -> utree -> list byte -> outcome (utree * list byte))
           (depth : N) (acc : utree) (bs : list byte) : outcome (utree * list byte) :=
  match bs with
  | [] => Err EIo
  | c :: r =>
    if Byte.eqb c (kmark "key") then
      '(k, r1) <- rd_str r ;;
      match r1 with
      | [] => Err EIo
      | t :: r2 =>
        if Byte.eqb t (vmark "str") then
          match r2 with
          | [] => Err EIo
          | u :: r3 =>
            if Byte.eqb u (n2b ubj_str_len_marker) then
              '(s, r4) <- rd_str r3 ;; rec depth (insert k (UStr s) acc) r4
            else Err EInvalid
          end
        else if Byte.eqb t (vmark "i32") then
          if (length r2 <? ubj_int_width)%nat then Err EIo
          else rec depth (insert k (UInt (be_dec (firstn ubj_int_width r2))) acc) (skipn ubj_int_width r2)
        else if Byte.eqb t (vmark "map") then
          if (UBJSON_MAX_DEPTH <? depth + 1)%N then Err EInvalid
          else '(m, r3) <- rec (depth + 1)%N [] r2 ;; rec depth (insert k (UMap m) acc) r3
        else Err EInvalid
      end
    else if Byte.eqb c (kmark "end") then Ok (acc, r)
    else Err EInvalid
  end.

Theorem entries_from_source f depth acc bs :
  entries (S f) depth acc bs = entries_step_src (entries f) depth acc bs.
Proof.
  cbn [entries]. unfold entries_step_src. ev_closed. reflexivity.
Qed.

(* ---- writer ---- *)
Theorem wr_str_from_source s :
  wr_str s = if (255 <? length s)%nat then Panic 101 else Ok (n2b ubj_wr_utf8_marker :: n2b (N.of_nat (length s)) :: s).
Proof. unfold wr_str. ev_closed. reflexivity. Qed.

Theorem write_val_from_source :
  (forall s, write_val (UStr s) = (b <- wr_str s ;; Ok (wbefore "String" ++ b ++ wafter "String"))) /\
  (forall n, write_val (UInt n) =
             if (n <? 4294967296)%N then Ok (wbefore "Number" ++ be_enc ubj_int_width n ++ wafter "Number") else Panic 102) /\
  (forall m, write_val (UMap m) = (b <- write_map m ;; Ok (wbefore "Object" ++ b ++ wafter "Object"))).
Proof.
  split; [|split].
  - intro s. cbn [write_val]. ev_closed. destruct (wr_str s); cbn [bind app]; rewrite ?app_nil_r; reflexivity.
  - intro n. cbn [write_val]. ev_closed. cbn [app]. rewrite app_nil_r. reflexivity.
  - intro m. rewrite write_val_map. ev_closed. reflexivity.
Qed.

Print Assumptions ubjson_markers_from_source.
Print Assumptions entries_from_source.
Print Assumptions wr_str_from_source.
Print Assumptions write_val_from_source.
