From Coq Require Import List Arith NArith ZArith Lia Bool String.
From Coq.Strings Require Import Byte.
From Peppi Require Import Base.Bytes Base.Outcome Gen.Funs Model.Ubjson Model.Start Model.Json.
Import ListNotations.
Notation length := (@List.length _) (only parsing).

Lemma tail_at_inv n off need o :
  tail_at n off need = ROk o -> (o = Some off /\ (off + need <= n)%nat) \/ (o = None /\ (n <= off)%nat).
Proof.
  unfold tail_at. destruct (Nat.leb_spec n off) as [Ha|Ha]; [intro H; inversion H; right; split; [reflexivity|lia]|].
  destruct (Nat.ltb_spec n (off + need)) as [Hb|Hb]; [discriminate|]. intro H'. inversion H'. left. split; [reflexivity|lia].
Qed.

Lemma next_tail_inv n prev off need o :
  next_tail n prev off need = ROk o ->
  (prev = None /\ o = None) \/ (prev <> None /\ ((o = Some off /\ (off + need <= n)%nat) \/ (o = None /\ (n <= off)%nat))).
Proof.
  unfold next_tail. destruct prev as [p|].
  - intro H. right. split; [discriminate|]. apply tail_at_inv. exact H.
  - intro H. inversion H. left. split; reflexivity.
Qed.

(* the shape of every accepted start block *)
Inductive start_shape (blk : list byte) (s : start_t) : Prop :=
| mk_shape (t15 t20 t37 t312 t314 t10 t13 t39 t311 : option nat)
           (lang : option N) (mt : option (list byte * N * N)) (pls : list player) :
    (320 <= length blk)%nat ->
    s = mk_start blk t15 t20 t37 lang mt pls ->
    (t10 = Some 320%nat <-> (320 < length blk)%nat) ->
    (t13 = Some 352%nat <-> (352 < length blk)%nat) ->
    (t15 = Some 416%nat <-> (416 < length blk)%nat) ->
    (t20 = Some 417%nat <-> (417 < length blk)%nat) ->
    (t37 = Some 418%nat <-> (418 < length blk)%nat) ->
    (t39 = Some 420%nat <-> (420 < length blk)%nat) ->
    (t311 = Some 584%nat <-> (584 < length blk)%nat) ->
    (t312 = Some 700%nat <-> (700 < length blk)%nat) ->
    (t314 = Some 701%nat <-> (701 < length blk)%nat) ->
    ((t10 = None \/ t10 = Some 320%nat) /\ (t13 = None \/ t13 = Some 352%nat) /\
     (t15 = None \/ t15 = Some 416%nat) /\ (t20 = None \/ t20 = Some 417%nat) /\
     (t37 = None \/ t37 = Some 418%nat) /\ (t39 = None \/ t39 = Some 420%nat) /\
     (t311 = None \/ t311 = Some 584%nat) /\ (t312 = None \/ t312 = Some 700%nat) /\
     (t314 = None \/ t314 = Some 701%nat)) ->
    language_of blk t312 = ROk lang ->
    match_of blk t314 = ROk mt ->
    players_of blk t10 t13 t39 t311 = ROk pls ->
    start_shape blk s.

Lemma game_start_inv blk s : game_start blk = ROk s -> start_shape blk s.
Proof.
  unfold game_start. destruct (Nat.ltb_spec (length blk) 320) as [|Hlen]; [discriminate|]. intro H.
  apply rbind_ok in H as [t10 [H10 H]]. apply rbind_ok in H as [t13 [H13 H]].
  apply rbind_ok in H as [t15 [H15 H]]. apply rbind_ok in H as [t20 [H20 H]].
  apply rbind_ok in H as [t37 [H37 H]]. apply rbind_ok in H as [t39 [H39 H]].
  apply rbind_ok in H as [t311 [H311 H]]. apply rbind_ok in H as [t312 [H312 H]].
  apply rbind_ok in H as [t314 [H314 H]]. apply rbind_ok in H as [lang [Hl H]].
  apply rbind_ok in H as [mt [Hm H]]. apply rbind_ok in H as [pls [Hp H]]. inversion H; subst s. clear H.
  apply tail_at_inv in H10. apply next_tail_inv in H13, H15, H20, H37, H39, H311, H312, H314.
  destruct H10 as [[-> L10]|[-> L10]];
  destruct H13 as [[E13 ->]|[E13 [[-> L13]|[-> L13]]]]; try congruence;
  destruct H15 as [[E15 ->]|[E15 [[-> L15]|[-> L15]]]]; try congruence;
  destruct H20 as [[E20 ->]|[E20 [[-> L20]|[-> L20]]]]; try congruence;
  destruct H37 as [[E37 ->]|[E37 [[-> L37]|[-> L37]]]]; try congruence;
  destruct H39 as [[E39 ->]|[E39 [[-> L39]|[-> L39]]]]; try congruence;
  destruct H311 as [[E311 ->]|[E311 [[-> L311]|[-> L311]]]]; try congruence;
  destruct H312 as [[E312 ->]|[E312 [[-> L312]|[-> L312]]]]; try congruence;
  destruct H314 as [[E314 ->]|[E314 [[-> L314]|[-> L314]]]]; try congruence;
  (eapply mk_shape; [exact Hlen | reflexivity | .. | exact Hl | exact Hm | exact Hp]);
  try (split; intro; try congruence; lia);
  repeat split; auto.
Qed.

(* ---- the property statements ---- *)
Lemma c05_bytes_retained blk s : game_start blk = ROk s -> st_bytes s = blk.
Proof. intro H. destruct (game_start_inv blk s H) as [? ? ? ? ? ? ? ? ? ? ? ? ? Heq]. subst s. reflexivity. Qed.

Lemma c05_end_bytes_retained blk e : game_end blk = ROk e -> en_bytes e = blk.
Proof.
  unfold game_end. destruct blk as [|b r]; [discriminate|].
  destruct (negb (mem (u8_at (b :: r) 0) EndMethod_codes)); [discriminate|].
  match goal with |- context [match ?x with ROk _ => _ | RErr => RErr | RUnknown => RUnknown end] => destruct x end; try discriminate.
  match goal with |- context [match ?x with ROk _ => _ | RErr => RErr | RUnknown => RUnknown end] => destruct x end; try discriminate.
  intro H. inversion H. reflexivity.
Qed.

(* every fixed field is the value at its spec offset (block offset = spec offset - 1) *)
Lemma c05_start_fields blk s : game_start blk = ROk s ->
  st_version s = (u8_at blk 0, u8_at blk 1, u8_at blk 2) /\
  st_bitfield s = [u8_at blk 4; u8_at blk 5; u8_at blk 6; u8_at blk 7] /\
  st_bombs s = negb (u8_at blk 10 =? 0)%N /\
  st_teams s = negb (u8_at blk 12 =? 0)%N /\
  st_item_freq s = u8_at blk 15 /\ st_sd_score s = u8_at blk 16 /\
  st_stage s = be_at blk 18 2 /\ st_timer s = be_at blk 20 4 /\
  st_item_bitfield s = [u8_at blk 39; u8_at blk 40; u8_at blk 41; u8_at blk 42; u8_at blk 43] /\
  st_damage_ratio s = be_at blk 52 4 /\ st_seed s = be_at blk 316 4.
Proof. intro H. destruct (game_start_inv blk s H) as [? ? ? ? ? ? ? ? ? ? ? ? ? Heq]. subst s. cbn. repeat split; reflexivity. Qed.

(* an optional field is present exactly when the block is long enough to contain it, and then holds the spec-offset value *)
Lemma c05_optional_presence blk s : game_start blk = ROk s ->
  (st_pal s = if (416 <? length blk)%nat then Some (negb (u8_at blk 416 =? 0)%N) else None) /\
  (st_frozen s = if (417 <? length blk)%nat then Some (negb (u8_at blk 417 =? 0)%N) else None) /\
  (st_scene s = if (418 <? length blk)%nat then Some (u8_at blk 418, u8_at blk 419) else None) /\
  (st_language s = if (700 <? length blk)%nat then Some (u8_at blk 700) else None) /\
  (st_match s <> None <-> (701 < length blk)%nat) /\
  (forall id g t, st_match s = Some (id, g, t) -> g = be_at blk 752 4) /\
  (forall id g t, st_match s = Some (id, g, t) -> t = be_at blk 756 4).
Proof.
  intro H. destruct (game_start_inv blk s H) as [t15 t20 t37 t312 t314 t10 t13 t39 t311 lang mt pls Hlen Heq
    P10 P13 P15 P20 P37 P39 P311 P312 P314 Hn Hl Hm Hp].
  destruct Hn as (N10 & N13 & N15 & N20 & N37 & N39 & N311 & N312 & N314).
  subst s. cbn [mk_start st_pal st_frozen st_scene st_language st_match].
  repeat split.
  - destruct (Nat.ltb_spec 416 (length blk)) as [Hx|Hx].
    + apply P15 in Hx. subst. reflexivity.
    + destruct N15 as [->|E]; [reflexivity|]. apply P15 in E. lia.
  - destruct (Nat.ltb_spec 417 (length blk)) as [Hx|Hx].
    + apply P20 in Hx. subst. reflexivity.
    + destruct N20 as [->|E]; [reflexivity|]. apply P20 in E. lia.
  - destruct (Nat.ltb_spec 418 (length blk)) as [Hx|Hx].
    + apply P37 in Hx. subst. reflexivity.
    + destruct N37 as [->|E]; [reflexivity|]. apply P37 in E. lia.
  - destruct (Nat.ltb_spec 700 (length blk)) as [Hx|Hx].
    + apply P312 in Hx. subst t312. unfold language_of in Hl. destruct (mem (u8_at blk 700) Language_codes); inversion Hl. reflexivity.
    + destruct N312 as [->|E]; [unfold language_of in Hl; inversion Hl; reflexivity|]. apply P312 in E. lia.
  - intro Hne. destruct N314 as [->|E]; [unfold match_of in Hm; inversion Hm; subst; congruence|]. apply P314. exact E.
  - intro Hx. apply P314 in Hx. subst t314. unfold match_of in Hm.
    destruct (nul_utf8_dflt (sub blk 701 51) 50); cbn [rbind] in Hm; inversion Hm. discriminate.
  - intros id g t Hs. destruct N314 as [->|E]; [unfold match_of in Hm; inversion Hm; subst; discriminate|]. subst t314. unfold match_of in Hm.
    destruct (nul_utf8_dflt (sub blk 701 51) 50) as [a| |]; cbn [rbind] in Hm; try discriminate.
    assert (E2 : mt = Some (a, be_at blk (701 + 51) 4, be_at blk (701 + 55) 4)) by congruence.
    rewrite E2 in Hs. inversion Hs. reflexivity.
  - intros id g t Hs. destruct N314 as [->|E]; [unfold match_of in Hm; inversion Hm; subst; discriminate|]. subst t314. unfold match_of in Hm.
    destruct (nul_utf8_dflt (sub blk 701 51) 50) as [a| |]; cbn [rbind] in Hm; try discriminate.
    assert (E2 : mt = Some (a, be_at blk (701 + 51) 4, be_at blk (701 + 55) 4)) by congruence.
    rewrite E2 in Hs. inversion Hs. reflexivity.
Qed.

(* players: exactly the ports 0..3 whose type byte is Human/Cpu/Demo, in port order *)
Definition type_byte (blk : list byte) (i : nat) : N := u8_at (nth i (chunks 36 6 (skipn 100 blk)) []) 1.

Lemma player_of_port port v0b teams a b c d e p :
  player_of port v0b teams a b c d e = ROk (Some p) -> pl_port p = port /\ mem (u8_at v0b 1) PlayerType_codes = true.
Proof.
  unfold player_of.
  repeat match goal with
         | |- context [match ?x with ROk _ => _ | RErr => _ | RUnknown => _ end] => destruct x; try discriminate
         end.
  destruct (mem (u8_at v0b 1) PlayerType_codes) eqn:E; intro H; inversion H. cbn. split; reflexivity.
Qed.

Lemma player_of_none port v0b teams a b c d e :
  player_of port v0b teams a b c d e = ROk None -> mem (u8_at v0b 1) PlayerType_codes = false.
Proof.
  unfold player_of.
  repeat match goal with
         | |- context [match ?x with ROk _ => _ | RErr => _ | RUnknown => _ end] => destruct x; try discriminate
         end.
  destruct (mem (u8_at v0b 1) PlayerType_codes) eqn:E; intro H; inversion H. reflexivity.
Qed.

Lemma collect_map_ports (f : nat -> res (option player)) (good : nat -> bool) (l : list nat) out :
  (forall i p, f i = ROk (Some p) -> pl_port p = N.of_nat i /\ good i = true) ->
  (forall i, f i = ROk None -> good i = false) ->
  collect (map f l) = ROk out -> map pl_port out = map N.of_nat (filter good l).
Proof.
  intros Hs Hn. revert out. induction l as [|i r IH]; intros out H; cbn [map collect] in H.
  - inversion H. reflexivity.
  - destruct (f i) as [o| |] eqn:E; try discriminate.
    + destruct (collect (map f r)) as [l'| |] eqn:Ec; try discriminate. inversion H; subst out.
      cbn [filter]. destruct o as [p|].
      * destruct (Hs i p E) as [Hp Hg]. rewrite Hg. cbn [map]. rewrite Hp. f_equal. apply IH. reflexivity.
      * rewrite (Hn i E). apply IH. reflexivity.
    + destruct (collect (map f r)); discriminate.
Qed.

Lemma c05_players blk s : game_start blk = ROk s ->
  map pl_port (st_players s) =
  map N.of_nat (filter (fun i => mem (type_byte blk i) PlayerType_codes) [0; 1; 2; 3]%nat).
Proof.
  intro H. destruct (game_start_inv blk s H) as [t15 t20 t37 t312 t314 t10 t13 t39 t311 lang mt pls Hlen Heq
    P10 P13 P15 P20 P37 P39 P311 P312 P314 Hn Hl Hm Hp].
  subst s. cbn [mk_start st_players]. unfold players_of in Hp.
  eapply collect_map_ports; [| |exact Hp].
  - intros i p E. apply player_of_port in E. exact E.
  - intros i E. apply player_of_none in E. exact E.
Qed.

(* Game End *)
Lemma c05_end blk e : game_end blk = ROk e ->
  en_method e = u8_at blk 0 /\ mem (u8_at blk 0) EndMethod_codes = true /\
  (en_lras e <> None <-> (1 < length blk)%nat) /\
  (forall p, en_lras e = Some p -> p = if (u8_at blk 1 =? 255)%N then None else Some (u8_at blk 1)) /\
  (en_players e <> None <-> (2 < length blk)%nat).
Proof.
  unfold game_end. destruct blk as [|b r]; [discriminate|].
  destruct (mem (u8_at (b :: r) 0) EndMethod_codes) eqn:Em; cbn [negb]; [|discriminate].
  set (blk := b :: r).
  Ltac fin := repeat match goal with x := _ |- _ => subst x end; cbn [length] in *;
              repeat split; intros; try congruence; try lia; try discriminate;
              try match goal with Hp : Some _ = Some _ |- _ => inversion Hp; reflexivity end.
  destruct (Nat.leb_spec (length blk) 1) as [H1|H1].
  - destruct (Nat.leb_spec (length blk) 2) as [H2|H2]; [|lia].
    intro H. inversion H; subst e. cbn. fin.
  - destruct (u8_at blk 1 =? 255)%N eqn:E255.
    + destruct (Nat.leb_spec (length blk) 2) as [H2|H2].
      * intro H. inversion H; subst e. cbn. fin.
      * destruct (Nat.ltb_spec (length blk) 6) as [H6|H6]; [discriminate|].
        destruct (collect _) eqn:Ec; try discriminate. intro H. inversion H; subst e. cbn. fin.
    + destruct (mem (u8_at blk 1) Port_codes) eqn:Ep; [|discriminate].
      destruct (Nat.leb_spec (length blk) 2) as [H2|H2].
      * intro H. inversion H; subst e. cbn. fin.
      * destruct (Nat.ltb_spec (length blk) 6) as [H6|H6]; [discriminate|].
        destruct (collect _) eqn:Ec; try discriminate. intro H. inversion H; subst e. cbn. fin.
Qed.

(* JSON: a version-gated optional is a key of the rendering exactly when the field is present *)
Definition keys (v : jv) : list (list byte) := match v with JObj l => map fst l | _ => [] end.

Lemma c05_json_omits_absent s :
  (In (sb "is_pal") (keys (json_start s)) <-> st_pal s <> None) /\
  (In (sb "is_frozen_ps") (keys (json_start s)) <-> st_frozen s <> None) /\
  (In (sb "scene") (keys (json_start s)) <-> st_scene s <> None) /\
  (In (sb "language") (keys (json_start s)) <-> st_language s <> None) /\
  (In (sb "match") (keys (json_start s)) <-> st_match s <> None).
Proof.
  unfold json_start, keys. rewrite !map_app.
  destruct (st_pal s), (st_frozen s), (st_scene s), (st_language s), (st_match s); cbn;
    repeat split; intro H; try congruence; try discriminate;
    repeat match goal with Hx : _ \/ _ |- _ => destruct Hx as [Hx|Hx]; try discriminate Hx end; try contradiction; tauto.
Qed.

Lemma c05_json_end_omits_absent e :
  (In (sb "lras_initiator") (keys (json_end e)) <-> en_lras e <> None) /\
  (In (sb "players") (keys (json_end e)) <-> en_players e <> None).
Proof.
  unfold json_end, keys. rewrite !map_app.
  destruct (en_lras e), (en_players e); cbn; repeat split; intro H; try congruence; try discriminate;
    repeat match goal with Hx : _ \/ _ |- _ => destruct Hx as [Hx|Hx]; try discriminate Hx end; try contradiction; tauto.
Qed.
