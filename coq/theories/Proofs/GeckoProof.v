(* The Gecko-code blob: message-splitter blocks on the reader side. *)
From Coq Require Import List Arith NArith ZArith Lia Bool String ZifyBool ZifyN ZifyNat.
From Coq.Strings Require Import Byte.
From Peppi Require Import Base.Bytes Base.Outcome Base.Stream Layout.Syntax Gen.Funs Layout.Sem Layout.Rows
  Model.Ubjson Model.Start Model.Json Model.Parse Model.Reader Model.Writer Model.Recorder Proofs.Framing Proofs.FrameStep.
Import ListNotations.
Notation length := (@List.length _) (only parsing).

(* the splitter events the recorder emits for a blob of k blocks, from block position [pos] *)
Fixpoint gecko_events (k : nat) (pos : nat) (c : gecko_t) : list (N * list byte) :=
  match k with
  | O => []
  | S k' =>
      let actual := N.to_nat (gk_actual c) in
      (Event_MessageSplitter,
       firstn 512 (skipn pos (gk_bytes c)) ++ be_enc 2 (nn (Nat.min 512 (actual - pos)))
       ++ ev Event_GeckoCodes ++ [n2b (if (k' =? 0)%nat then 1 else 0)])
      :: gecko_events k' (pos + 512) c
  end.

Lemma gecko_events_bytes k pos c : flat_map enc_ev (gecko_events k pos c) = emit_gecko k pos c.
Proof.
  revert pos. induction k as [|k IH]; intro pos; [reflexivity|].
  cbn [gecko_events flat_map emit_gecko]. rewrite IH. unfold enc_ev, ev. cbn [fst snd app].
  rewrite <- !app_assoc. reflexivity.
Qed.

(* state: same state with a split accumulator / gecko field / byte count *)
Definition stg (s : pstate) (raw : list byte) (act : N) (gk : option gecko_t) (k : N) : pstate :=
  {| ps_sizes := ps_sizes s; ps_bytes_read := (ps_bytes_read s + k)%N; ps_split_raw := raw; ps_split_actual := act;
     ps_layout := ps_layout s; ps_start := ps_start s; ps_end := ps_end s; ps_frames := ps_frames s;
     ps_meta := ps_meta s; ps_gecko := gk; ps_quirk := ps_quirk s |}.

Lemma nth_app_r {A} (l1 l2 : list A) n d : (length l1 <= n)%nat -> nth n (l1 ++ l2) d = nth (n - length l1) l2 d.
Proof. intro H. apply app_nth2. lia. Qed.

Lemma splitter_block s raw act gk0 k blk sz fin :
  length blk = 512%nat -> (sz <= 512)%N -> (fin < 256)%N ->
  handle_event Event_MessageSplitter (blk ++ be_enc 2 sz ++ ev Event_GeckoCodes ++ [n2b fin]) (stg s raw act gk0 k)
  = if N.eqb fin 0
    then Ok (Event_MessageSplitter, stg s (raw ++ blk) ((act + sz) mod 4294967296)%N gk0 k)
    else Ok (Event_GeckoCodes, stg s [] ((act + sz) mod 4294967296)%N
                                   (Some {| gk_bytes := raw ++ blk; gk_actual := ((act + sz) mod 4294967296)%N |}) k).
Proof.
  intros Hb Hsz Hfin. unfold handle_event. rewrite N.eqb_refl.
  assert (Hlen : length (blk ++ be_enc 2 sz ++ ev Event_GeckoCodes ++ [n2b fin]) = 516%nat).
  { rewrite !app_length, Hb, length_be_enc. reflexivity. }
  rewrite Hlen. cbn [Nat.eqb negb].
  assert (Hsk : skipn 512 (blk ++ be_enc 2 sz ++ ev Event_GeckoCodes ++ [n2b fin]) = be_enc 2 sz ++ ev Event_GeckoCodes ++ [n2b fin]).
  { rewrite skipn_app, Hb, Nat.sub_diag. rewrite skipn_all2 by lia. reflexivity. }
  rewrite Hsk. rewrite firstn_app, length_be_enc, Nat.sub_diag. rewrite firstn_all2 by (rewrite length_be_enc; lia).
  rewrite firstn_O, app_nil_r.
  rewrite be_dec_enc by (change (256 ^ N.of_nat 2)%N with 65536%N; lia).
  destruct (N.ltb_spec 512 sz); [lia|].
  assert (H514 : nth 514 (blk ++ be_enc 2 sz ++ ev Event_GeckoCodes ++ [n2b fin]) x00 = n2b Event_GeckoCodes).
  { rewrite nth_app_r by lia. rewrite Hb. rewrite nth_app_r by (rewrite length_be_enc; lia). rewrite length_be_enc. reflexivity. }
  assert (H515 : nth 515 (blk ++ be_enc 2 sz ++ ev Event_GeckoCodes ++ [n2b fin]) x00 = n2b fin).
  { rewrite nth_app_r by lia. rewrite Hb. rewrite nth_app_r by (rewrite length_be_enc; lia). rewrite length_be_enc. reflexivity. }
  rewrite H514, H515. rewrite (b2n_n2b_small fin Hfin). rewrite (b2n_n2b_small Event_GeckoCodes) by (vm_compute; reflexivity).
  rewrite firstn_app, Hb, Nat.sub_diag. rewrite firstn_all2 by lia. rewrite firstn_O, app_nil_r.
  cbn [ps_split_raw ps_split_actual stg].
  destruct (N.eqb fin 0); cbn [negb].
  - reflexivity.
  - change (handle_known Event_GeckoCodes) with arm_gecko. unfold arm_gecko. cbn [bind]. reflexivity.
Qed.

Ltac proj := cbn [ps_sizes ps_bytes_read ps_split_raw ps_split_actual ps_layout ps_start ps_end ps_frames ps_meta ps_gecko ps_quirk].

(* all blocks of a well-formed blob *)
Lemma run_gecko_blocks c : forall k pos s raw act kb,
  (0 < k)%nat -> (pos + 512 * k = length (gk_bytes c))%nat ->
  (pos + 512 * (k - 1) < N.to_nat (gk_actual c) <= pos + 512 * k)%nat ->
  (gk_actual c < 4294967296)%N -> (act + nn (N.to_nat (gk_actual c) - pos) < 4294967296)%N ->
  exists kb', run_events (stg s raw act None kb) (gecko_events k pos c)
  = Ok (stg s [] (act + nn (N.to_nat (gk_actual c) - pos))%N
          (Some {| gk_bytes := raw ++ skipn pos (gk_bytes c); gk_actual := (act + nn (N.to_nat (gk_actual c) - pos))%N |}) kb')
  /\ kb' = (kb + evs_len (gecko_events k pos c))%N.
Proof.
  induction k as [|k IH]; intros pos s raw act kb Hk Hlen Hact Hlt Hsum; [lia|].
  cbn [gecko_events run_events].
  set (actual := N.to_nat (gk_actual c)) in *.
  assert (Hblk : length (firstn 512 (skipn pos (gk_bytes c))) = 512%nat).
  { rewrite firstn_length, skipn_length. lia. }
  match goal with |- context [handle_event _ ?pl _] => set (payload := pl) end.
  assert (Hpl : length payload = 516%nat).
  { unfold payload. rewrite !app_length, Hblk, length_be_enc. reflexivity. }
  destruct k as [|k].
  - (* the final block *)
    cbn [Nat.eqb] in payload.
    assert (Hs : handle_event Event_MessageSplitter payload (stg s raw act None kb) = _)
      by (unfold payload; apply (splitter_block s raw act None kb _ (nn (Nat.min 512 (actual - pos))) 1 Hblk); unfold nn; lia).
    rewrite Hs. cbn [N.eqb]. replace (N.eqb Event_GeckoCodes Event_GameEnd) with false by reflexivity.
    cbn [gecko_events run_events].
    replace (Nat.min 512 (actual - pos)) with (actual - pos)%nat by lia.
    rewrite N.mod_small by lia.
    eexists. split; [|reflexivity].
    f_equal. unfold add_bytes_read, stg. proj. f_equal.
    + unfold evs_len. cbn [fold_right snd]. fold payload. rewrite Hpl. lia.
    + f_equal. f_equal. rewrite firstn_all2; [reflexivity|]. rewrite skipn_length. lia.
  - (* a non-final block *)
    cbn [Nat.eqb] in payload.
    assert (Hs : handle_event Event_MessageSplitter payload (stg s raw act None kb) = _)
      by (unfold payload; apply (splitter_block s raw act None kb _ (nn (Nat.min 512 (actual - pos))) 0 Hblk); unfold nn; lia).
    rewrite Hs. cbn [N.eqb]. replace (N.eqb Event_MessageSplitter Event_GameEnd) with false by reflexivity.
    replace (Nat.min 512 (actual - pos)) with 512%nat by lia.
    rewrite N.mod_small by (unfold nn in *; lia).
    assert (Hst : add_bytes_read (stg s (raw ++ firstn 512 (skipn pos (gk_bytes c))) (act + nn 512) None kb) (nn (length payload) + 1)
                  = stg s (raw ++ firstn 512 (skipn pos (gk_bytes c))) (act + nn 512)%N None (kb + (nn (length payload) + 1))%N).
    { unfold add_bytes_read, stg. proj. f_equal. lia. }
    rewrite Hst.
    destruct (IH (pos + 512)%nat s (raw ++ firstn 512 (skipn pos (gk_bytes c))) (act + nn 512)%N (kb + (nn (length payload) + 1))%N) as (kb' & Hrun & Hkb);
      try lia.
    { unfold nn in *. lia. }
    rewrite Hrun. eexists. split; [|reflexivity].
    f_equal. unfold stg. f_equal.
    + subst kb'. rewrite evs_len_cons. cbn [snd]. lia.
    + unfold nn. lia.
    + f_equal. f_equal.
      * rewrite <- app_assoc. f_equal. rewrite <- (firstn_skipn 512 (skipn pos (gk_bytes c))) at 2.
        f_equal. rewrite skipn_skipn. f_equal; try lia.
      * unfold nn. lia.
Qed.
