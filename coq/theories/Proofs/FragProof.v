(* Fragmentation independence: exact-length reads over a fragmenting, interruptible stream wrapped in the
   hashing reader behave as the flat reads of Base/Stream.v; so does every program of sequential exact reads. *)
From Coq Require Import List Arith NArith Lia Bool ZifyBool ZifyN ZifyNat.
From Coq.Strings Require Import Byte.
From Peppi Require Import Base.Bytes Base.Outcome Base.Stream Layout.Syntax Gen.Funs Layout.Sem Layout.Rows
  Model.Utf8 Model.Ubjson Model.Start Model.Json Model.Parse Model.Reader Model.Frag.
Import ListNotations.
Notation length := (@List.length _) (only parsing).

(* ---- small facts ---- *)
Lemma option_map_app (o : option (list byte)) a b :
  option_map (fun l => l ++ b) (option_map (fun l => l ++ a) o) = option_map (fun l => l ++ a ++ b) o.
Proof. destruct o as [l|]; cbn [option_map]; [rewrite <- app_assoc|]; reflexivity. Qed.

Lemma option_map_nil (o : option (list byte)) : option_map (fun l => l ++ []) o = o.
Proof. destruct o as [l|]; cbn [option_map]; [rewrite app_nil_r|]; reflexivity. Qed.

Lemma no_fault_app a b : no_fault (a ++ b) <-> no_fault a /\ no_fault b.
Proof.
  induction a as [|[k| |] a IH]; cbn [app no_fault]; tauto.
Qed.

Lemma read_exact_f_0 fuel h : read_exact_f fuel 0 h = (Ok [], h).
Proof. destruct fuel; reflexivity. Qed.

Lemma read_exact_f_S f n h : n <> 0 ->
  read_exact_f (S f) n h =
  let '(r, h1) := hread n h in
  match r with
  | RBytes [] => (Err EIo, h1)
  | RBytes bs =>
      let '(res, h2) := read_exact_f f (n - length bs) h1 in
      (match res with
       | Ok more => Ok (bs ++ more)
       | Err e => Err e | Panic x => Panic x | Fuel => Fuel
       end, h2)
  | RInterrupted => read_exact_f f n h1
  | RFault => (Err EIo, h1)
  end.
Proof. destruct n as [|n]; [intro H; contradiction H; reflexivity | reflexivity]. Qed.

(* one delivering read() call: m bytes offered, 1 <= m <= n *)
Lemma hread_bytes n data sc hs :
  n <> 0 ->
  match sc with [] => True | Give _ :: _ => True | _ => False end ->
  exists m sc', 1 <= m <= n /\ length sc' <= length sc /\ (no_fault sc -> no_fault sc') /\
    (sc = [] \/ length sc' < length sc) /\
    hread n {| hr_inner := {| fs_data := data; fs_sched := sc |}; hr_hashed := hs |} =
    (RBytes (firstn m data),
     {| hr_inner := {| fs_data := skipn m data; fs_sched := sc' |};
        hr_hashed := option_map (fun l => l ++ firstn m data) hs |}).
Proof.
  intros Hn Hsc. destruct sc as [|[k| |] sc]; try contradiction.
  - exists n, []. repeat split; try lia; auto.
  - exists (Nat.min n (Nat.max 1 k)), sc. cbn [length no_fault]. repeat split; try lia; auto.
Qed.

Lemma split_read n m (data : list byte) :
  1 <= m <= n -> data <> [] ->
  firstn m data <> [] /\
  data = firstn m data ++ skipn m data /\
  ((length data <? n) = (length (skipn m data) <? n - length (firstn m data))) /\
  (n <= length data ->
     firstn n data = firstn m data ++ firstn (n - length (firstn m data)) (skipn m data) /\
     skipn n data = skipn (n - length (firstn m data)) (skipn m data)).
Proof.
  intros Hm Hd. split; [|split; [|split]].
  - destruct data as [|b d]; [contradiction Hd; reflexivity|]. destruct m as [|m]; [lia|]. cbn [firstn]. discriminate.
  - symmetry. apply firstn_skipn.
  - pose proof (firstn_skipn m data) as E. apply (f_equal (@List.length byte)) in E. rewrite app_length in E.
    destruct (Nat.ltb_spec (length data) n), (Nat.ltb_spec (length (skipn m data)) (n - length (firstn m data)));
      try reflexivity; try lia.
  - intro Hle. assert (Hl : length (firstn m data) = m) by (apply firstn_length_le; lia).
    rewrite Hl. pose proof (firstn_skipn m data) as E.
    split.
    + rewrite <- E at 1. rewrite firstn_app, Hl. rewrite firstn_all2 by lia. reflexivity.
    + rewrite <- E at 1. rewrite skipn_app, Hl. rewrite skipn_all2 by lia. reflexivity.
Qed.

(* ---- 1. read_exact over a fault-free schedule ---- *)
Definition rx_post (n : nat) (h : hreader) (res : outcome (list byte)) (h' : hreader) : Prop :=
  let data := fs_data (hr_inner h) in
  no_fault (fs_sched (hr_inner h')) /\
  length (fs_sched (hr_inner h')) <= length (fs_sched (hr_inner h)) /\
  if (length data <? n) then
    res = Err EIo /\ fs_data (hr_inner h') = [] /\
    hr_hashed h' = option_map (fun l => l ++ data) (hr_hashed h)
  else
    res = Ok (firstn n data) /\ fs_data (hr_inner h') = skipn n data /\
    hr_hashed h' = option_map (fun l => l ++ firstn n data) (hr_hashed h).

Lemma rx_gen : forall fuel n h,
  no_fault (fs_sched (hr_inner h)) ->
  n + length (fs_sched (hr_inner h)) <= fuel ->
  rx_post n h (fst (read_exact_f fuel n h)) (snd (read_exact_f fuel n h)).
Proof.
  induction fuel as [|f IH]; intros n h Hnf Hfuel.
  - assert (n = 0) by lia. subst n. cbn [read_exact_f fst snd]. unfold rx_post.
    cbn [firstn skipn]. rewrite option_map_nil. repeat split; auto.
  - destruct (Nat.eq_dec n 0) as [->|Hn].
    { rewrite read_exact_f_0. cbn [fst snd]. unfold rx_post.
      cbn [firstn skipn]. rewrite option_map_nil. repeat split; auto. }
    rewrite (read_exact_f_S f n h Hn).
    destruct h as [[data sc] hs]. cbn [hr_inner fs_sched fs_data hr_hashed] in *.
    assert (Hcases : match sc with [] => True | Give _ :: _ => True | _ => False end \/
                     exists sc', sc = Interrupt :: sc').
    { destruct sc as [|[k| |] sc]; cbn [no_fault] in Hnf.
      - left; exact I.
      - left; exact I.
      - right; eexists; reflexivity.
      - contradiction. }
    destruct Hcases as [Hb | [sc' ->]].
    + destruct (hread_bytes n data sc hs Hn Hb) as (m & sc' & Hm & Hlen & Hnf' & Hdec & ->).
      destruct data as [|b d].
      * rewrite firstn_nil, skipn_nil. cbn [fst snd]. unfold rx_post. cbn [hr_inner fs_sched fs_data hr_hashed length].
        destruct (Nat.ltb_spec 0 n); [|lia]. repeat split; auto.
      * destruct (split_read n m (b :: d) Hm ltac:(discriminate)) as (Hne & Hsplit & Hlt & Hok).
        set (data := b :: d) in *. clearbody data.
        set (bs := firstn m data) in *. clearbody bs.
        destruct bs as [|b0 bs0]; [contradiction Hne; reflexivity|].
        set (bs := b0 :: bs0) in *.
        assert (Hbs : 1 <= length bs) by (subst bs; cbn [length]; lia).
        set (h1 := {| hr_inner := {| fs_data := skipn m data; fs_sched := sc' |};
                      hr_hashed := option_map (fun l => l ++ bs) hs |}).
        assert (Hfuel1 : (n - length bs) + length sc' <= f).
        { destruct Hdec as [-> | Hd]; cbn [length] in *; lia. }
        specialize (IH (n - length bs) h1 (Hnf' Hnf) Hfuel1).
        change (match bs with [] => ?x | _ :: _ => ?y end) with y.
        destruct (read_exact_f f (n - length bs) h1) as [res h2]. cbn [fst snd] in *.
        unfold rx_post in *. subst h1. cbn [hr_inner fs_sched fs_data hr_hashed] in *.
        destruct IH as (IHnf & IHlen & IHres). split; [exact IHnf|]. split; [lia|].
        rewrite Hlt. destruct (length (skipn m data) <? n - length bs) eqn:Elt.
        -- destruct IHres as (-> & Hd' & Hh'). split; [reflexivity|]. split; [exact Hd'|].
           rewrite Hh', option_map_app. rewrite <- Hsplit. reflexivity.
        -- assert (Hle : n <= length data).
           { apply Nat.ltb_ge. congruence. }
           destruct (Hok Hle) as [Hf Hs]. destruct IHres as (-> & Hd' & Hh').
           rewrite Hf, Hs. split; [reflexivity|]. split; [exact Hd'|].
           rewrite Hh', option_map_app. reflexivity.
    + cbn [no_fault length] in *.
      unfold hread, fread. cbn [hr_inner fs_sched fs_data hr_hashed].
      set (h1 := {| hr_inner := {| fs_data := data; fs_sched := sc' |}; hr_hashed := hs |}).
      assert (Hfuel1 : n + length sc' <= f) by lia.
      specialize (IH n h1 Hnf Hfuel1). unfold rx_post in *. subst h1. cbn [hr_inner fs_sched fs_data hr_hashed length] in *.
      destruct IH as (IHnf & IHlen & IHres). split; [exact IHnf|]. split; [lia|]. exact IHres.
Qed.

Theorem read_exact_frag n h :
  no_fault (fs_sched (hr_inner h)) ->
  let '(res, h') := read_exact_f (fuel_for n h) n h in
  match rd_exact n (fs_data (hr_inner h)) with
  | Ok (bs, rest) =>
      res = Ok bs /\ fs_data (hr_inner h') = rest /\
      hr_hashed h' = option_map (fun l => l ++ bs) (hr_hashed h)
  | _ =>
      (* short stream: everything that was there was consumed and hashed *)
      res = Err EIo /\ fs_data (hr_inner h') = [] /\
      hr_hashed h' = option_map (fun l => l ++ fs_data (hr_inner h)) (hr_hashed h)
  end.
Proof.
  intro Hnf. pose proof (rx_gen (fuel_for n h) n h Hnf (le_n _)) as H.
  destruct (read_exact_f (fuel_for n h) n h) as [res h']. cbn [fst snd] in H.
  unfold rx_post in H. destruct H as (_ & _ & H). rewrite rd_exact_spec.
  destruct (length (fs_data (hr_inner h)) <? n); exact H.
Qed.
Print Assumptions read_exact_frag.

(* ---- 2. arbitrary schedules (faults allowed) ---- *)
(* whatever the schedule: the reader has consumed a prefix `used` of the data and hashed exactly it; the result is
   Err EIo, or Ok used with |used| = n.  Never Panic, never Fuel, never Ok with partial data. *)
Lemma rx_any : forall fuel n h,
  n + length (fs_sched (hr_inner h)) <= fuel ->
  exists used,
    fs_data (hr_inner h) = used ++ fs_data (hr_inner (snd (read_exact_f fuel n h))) /\
    hr_hashed (snd (read_exact_f fuel n h)) = option_map (fun l => l ++ used) (hr_hashed h) /\
    (fst (read_exact_f fuel n h) = Err EIo \/
     (fst (read_exact_f fuel n h) = Ok used /\ length used = n)).
Proof.
  induction fuel as [|f IH]; intros n h Hfuel.
  - assert (n = 0) by lia. subst n. cbn [read_exact_f fst snd]. exists [].
    rewrite option_map_nil. repeat split; auto.
  - destruct (Nat.eq_dec n 0) as [->|Hn].
    { rewrite read_exact_f_0. cbn [fst snd]. exists []. rewrite option_map_nil. repeat split; auto. }
    rewrite (read_exact_f_S f n h Hn).
    destruct h as [[data sc] hs]. cbn [hr_inner fs_sched fs_data hr_hashed] in *.
    assert (Hcases : match sc with [] => True | Give _ :: _ => True | _ => False end \/
                     (exists sc', sc = Interrupt :: sc') \/ (exists sc', sc = Fault :: sc')).
    { destruct sc as [|[k| |] sc].
      - left; exact I.
      - left; exact I.
      - right; left; eexists; reflexivity.
      - right; right; eexists; reflexivity. }
    destruct Hcases as [Hb | [[sc' ->] | [sc' ->]]].
    + destruct (hread_bytes n data sc hs Hn Hb) as (m & sc' & Hm & Hlen & _ & Hdec & ->).
      destruct data as [|b d].
      * rewrite firstn_nil, skipn_nil. cbn [fst snd hr_inner fs_sched fs_data hr_hashed]. exists [].
        repeat split; auto.
      * destruct (split_read n m (b :: d) Hm ltac:(discriminate)) as (Hne & Hsplit & _ & _).
        assert (Hlb : length (firstn m (b :: d)) <= n) by (rewrite firstn_length; lia).
        set (data := b :: d) in *. clearbody data.
        set (bs := firstn m data) in *. clearbody bs.
        destruct bs as [|b0 bs0]; [contradiction Hne; reflexivity|].
        set (bs := b0 :: bs0) in *.
        assert (Hbs : 1 <= length bs) by (subst bs; cbn [length]; lia).
        set (h1 := {| hr_inner := {| fs_data := skipn m data; fs_sched := sc' |};
                      hr_hashed := option_map (fun l => l ++ bs) hs |}).
        assert (Hfuel1 : (n - length bs) + length sc' <= f).
        { destruct Hdec as [-> | Hd]; cbn [length] in *; lia. }
        specialize (IH (n - length bs) h1 Hfuel1).
        change (match bs with [] => ?x | _ :: _ => ?y end) with y.
        destruct (read_exact_f f (n - length bs) h1) as [res h2]. cbn [fst snd] in *.
        subst h1. cbn [hr_inner fs_sched fs_data hr_hashed] in *.
        destruct IH as (used1 & Hd1 & Hh1 & Hres). exists (bs ++ used1).
        split; [rewrite <- app_assoc, <- Hd1; exact Hsplit|].
        split; [rewrite Hh1, option_map_app; reflexivity|].
        destruct Hres as [-> | [-> Hl]]; [left; reflexivity|right].
        split; [reflexivity|]. rewrite app_length. lia.
    + unfold hread, fread. cbn [hr_inner fs_sched fs_data hr_hashed length] in *.
      set (h1 := {| hr_inner := {| fs_data := data; fs_sched := sc' |}; hr_hashed := hs |}).
      assert (Hfuel1 : n + length sc' <= f) by lia.
      specialize (IH n h1 Hfuel1). subst h1. cbn [hr_inner fs_sched fs_data hr_hashed] in *. exact IH.
    + unfold hread, fread. cbn [hr_inner fs_sched fs_data hr_hashed fst snd]. exists [].
      rewrite option_map_nil. repeat split; auto.
Qed.

Theorem read_exact_any n h :
  let '(res, h') := read_exact_f (fuel_for n h) n h in
  exists used,
    fs_data (hr_inner h) = used ++ fs_data (hr_inner h') /\
    hr_hashed h' = option_map (fun l => l ++ used) (hr_hashed h) /\
    (res = Err EIo \/ (res = Ok used /\ rd_exact n (fs_data (hr_inner h)) = Ok (used, fs_data (hr_inner h')))).
Proof.
  pose proof (rx_any (fuel_for n h) n h (le_n _)) as H.
  destruct (read_exact_f (fuel_for n h) n h) as [res h']. cbn [fst snd] in H.
  destruct H as (used & Hd & Hh & Hres). exists used. split; [exact Hd|]. split; [exact Hh|].
  destruct Hres as [-> | [-> Hl]]; [left; reflexivity|right]. split; [reflexivity|].
  rewrite Hd. apply rd_exact_app. exact Hl.
Qed.
Print Assumptions read_exact_any.

Lemma firstn_add {A} a b (l : list A) : firstn (a + b) l = firstn a l ++ firstn b (skipn a l).
Proof.
  revert l. induction a as [|a IH]; intros l; [reflexivity|].
  destruct l as [|x l]; [cbn [Nat.add firstn skipn app]; rewrite firstn_nil; reflexivity|].
  cbn [Nat.add firstn skipn app]. rewrite IH. reflexivity.
Qed.

Lemma skipn_add {A} a b (l : list A) : skipn (a + b) l = skipn b (skipn a l).
Proof.
  revert l. induction a as [|a IH]; intros l; [reflexivity|].
  destruct l as [|x l]; [cbn [Nat.add skipn]; rewrite skipn_nil; reflexivity|].
  cbn [Nat.add skipn]. apply IH.
Qed.

(* a Fault that arrives before the schedule can have delivered n bytes: the call fails with Err EIo, having
   consumed and hashed exactly what the reads before the Fault delivered *)
Lemma rx_fault : forall pre post fuel n data hs,
  no_fault pre -> gives pre < n ->
  n + length (pre ++ Fault :: post) <= fuel ->
  let h := {| hr_inner := {| fs_data := data; fs_sched := pre ++ Fault :: post |}; hr_hashed := hs |} in
  fst (read_exact_f fuel n h) = Err EIo /\
  fs_data (hr_inner (snd (read_exact_f fuel n h))) = skipn (gives pre) data /\
  hr_hashed (snd (read_exact_f fuel n h)) = option_map (fun l => l ++ firstn (gives pre) data) hs.
Proof.
  induction pre as [|st pre IH]; intros post fuel n data hs Hnf Hg Hfuel h; subst h.
  - cbn [gives app length] in *. destruct fuel as [|f]; [lia|].
    rewrite read_exact_f_S by lia. unfold hread, fread. cbn [hr_inner fs_sched fs_data hr_hashed fst snd firstn skipn].
    rewrite option_map_nil. repeat split.
  - destruct fuel as [|f]; [cbn [app length] in Hfuel; lia|].
    rewrite read_exact_f_S by lia.
    destruct st as [k| |]; cbn [no_fault gives app length] in *; [| |contradiction].
    + unfold hread, fread. cbn [hr_inner fs_sched fs_data hr_hashed].
      replace (Nat.min n (Nat.max 1 k)) with (Nat.max 1 k) by lia.
      set (m := Nat.max 1 k) in *. assert (Hm : 1 <= m) by lia.
      destruct data as [|b d].
      * rewrite firstn_nil, !skipn_nil, firstn_nil. cbn [fst snd hr_inner fs_sched fs_data hr_hashed].
        repeat split.
      * assert (Hne : firstn m (b :: d) <> []).
        { destruct m as [|m']; [lia|]. cbn [firstn]. discriminate. }
        assert (Hlb : length (firstn m (b :: d)) <= m) by (rewrite firstn_length; lia).
        set (data := b :: d) in *. clearbody data.
        rewrite firstn_add, skipn_add.
        set (bs := firstn m data) in *. clearbody bs.
        destruct bs as [|b0 bs0]; [contradiction Hne; reflexivity|].
        set (bs := b0 :: bs0) in *.
        specialize (IH post f (n - length bs) (skipn m data) (option_map (fun l => l ++ bs) hs) Hnf
                       ltac:(lia) ltac:(lia)).
        cbn zeta in IH.
        destruct (read_exact_f f (n - length bs) _) as [res h2]. cbn [fst snd] in *.
        destruct IH as (-> & Hd & Hh). split; [reflexivity|]. split; [exact Hd|].
        rewrite Hh, option_map_app. reflexivity.
    + unfold hread, fread. cbn [hr_inner fs_sched fs_data hr_hashed].
      apply IH; [exact Hnf | exact Hg | lia].
Qed.

Theorem read_exact_fault n data pre post hs :
  no_fault pre -> gives pre < n ->
  let h := mk_hreader data (pre ++ Fault :: post) hs in
  let '(res, h') := read_exact_f (fuel_for n h) n h in
  res = Err EIo /\
  fs_data (hr_inner h') = skipn (gives pre) data /\
  hr_hashed h' = option_map (fun l => l ++ firstn (gives pre) data) hs.
Proof.
  intros Hnf Hg h.
  pose proof (rx_fault pre post (fuel_for n h) n data hs Hnf Hg (le_n _)) as H. cbn zeta in H.
  fold (mk_hreader data (pre ++ Fault :: post) hs) in H. fold h in H.
  destruct (read_exact_f (fuel_for n h) n h) as [res h']. exact H.
Qed.
Print Assumptions read_exact_fault.

(* ---- 3. programs: the fragmented run equals the flat run, for every fault-free schedule ---- *)
Lemma run_frag_flat_gen {A} (p : prog A) : forall h,
  no_fault (fs_sched (hr_inner h)) ->
  match run_flat p (fs_data (hr_inner h)) with
  | Ok (a, rest) =>
      fst (run_frag p h) = Ok a /\ fs_data (hr_inner (snd (run_frag p h))) = rest /\
      exists used, fs_data (hr_inner h) = used ++ rest /\
                   hr_hashed (snd (run_frag p h)) = option_map (fun l => l ++ used) (hr_hashed h)
  | Err e => fst (run_frag p h) = Err e
  | Panic x => fst (run_frag p h) = Panic x
  | Fuel => fst (run_frag p h) = Fuel
  end.
Proof.
  induction p as [a|e|x| |n k IH]; intros h Hnf; cbn [run_flat run_frag fst snd]; try reflexivity.
  - split; [reflexivity|]. split; [reflexivity|]. exists []. rewrite option_map_nil. split; reflexivity.
  - pose proof (rx_gen (fuel_for n h) n h Hnf (le_n _)) as H.
    destruct (read_exact_f (fuel_for n h) n h) as [res h1]. cbn [fst snd] in H.
    unfold rx_post in H. destruct H as (Hnf1 & _ & H). rewrite rd_exact_spec.
    destruct (Nat.ltb_spec (length (fs_data (hr_inner h))) n) as [Hlt|Hle].
    + destruct H as (-> & _ & _). reflexivity.
    + destruct H as (-> & Hd1 & Hh1). specialize (IH (firstn n (fs_data (hr_inner h))) h1 Hnf1).
      rewrite Hd1 in IH.
      destruct (run_flat (k (firstn n (fs_data (hr_inner h)))) (skipn n (fs_data (hr_inner h))))
        as [[a rest]|e|x|]; try exact IH.
      destruct IH as (Hres & Hrest & used & Hu & Hh). split; [exact Hres|]. split; [exact Hrest|].
      exists (firstn n (fs_data (hr_inner h)) ++ used). split.
      * rewrite <- app_assoc, <- Hu. symmetry. apply firstn_skipn.
      * rewrite Hh, Hh1, option_map_app. reflexivity.
Qed.

Theorem run_frag_flat {A} (p : prog A) data sched hashed0 :
  no_fault sched ->
  let h := mk_hreader data sched hashed0 in
  let '(res, h') := run_frag p h in
  match run_flat p data with
  | Ok (a, rest) =>
      res = Ok a /\ fs_data (hr_inner h') = rest /\
      exists used, data = used ++ rest /\ hr_hashed h' = option_map (fun l => l ++ used) hashed0
  | Err e => res = Err e
  | Panic x => res = Panic x
  | Fuel => res = Fuel
  end.
Proof.
  intros Hnf h. pose proof (run_frag_flat_gen p h Hnf) as H.
  destruct (run_frag p h) as [res h']. exact H.
Qed.
Print Assumptions run_frag_flat.

(* two fault-free schedules: same result, same remaining data, same hashed bytes -- in every case, including
   errors (a short read consumes and hashes everything that was there, under any schedule) *)
Lemma sched_indep_gen {A} (p : prog A) : forall h1 h2,
  no_fault (fs_sched (hr_inner h1)) -> no_fault (fs_sched (hr_inner h2)) ->
  fs_data (hr_inner h1) = fs_data (hr_inner h2) -> hr_hashed h1 = hr_hashed h2 ->
  fst (run_frag p h1) = fst (run_frag p h2) /\
  fs_data (hr_inner (snd (run_frag p h1))) = fs_data (hr_inner (snd (run_frag p h2))) /\
  hr_hashed (snd (run_frag p h1)) = hr_hashed (snd (run_frag p h2)).
Proof.
  induction p as [a|e|x| |n k IH]; intros h1 h2 Hnf1 Hnf2 Hd Hh; cbn [run_frag fst snd]; auto.
  pose proof (rx_gen (fuel_for n h1) n h1 Hnf1 (le_n _)) as H1.
  pose proof (rx_gen (fuel_for n h2) n h2 Hnf2 (le_n _)) as H2.
  destruct (read_exact_f (fuel_for n h1) n h1) as [res1 g1].
  destruct (read_exact_f (fuel_for n h2) n h2) as [res2 g2]. cbn [fst snd] in *.
  unfold rx_post in *. rewrite <- Hd, <- Hh in H2.
  destruct H1 as (Hg1 & _ & H1). destruct H2 as (Hg2 & _ & H2).
  destruct (length (fs_data (hr_inner h1)) <? n).
  - destruct H1 as (-> & Hd1 & Hh1). destruct H2 as (-> & Hd2 & Hh2). cbn [fst snd].
    rewrite Hd1, Hd2, Hh1, Hh2. auto.
  - destruct H1 as (-> & Hd1 & Hh1). destruct H2 as (-> & Hd2 & Hh2).
    apply IH; auto; congruence.
Qed.

Corollary schedule_independent {A} (p : prog A) data s1 s2 hashed0 :
  no_fault s1 -> no_fault s2 ->
  let r1 := run_frag p (mk_hreader data s1 hashed0) in
  let r2 := run_frag p (mk_hreader data s2 hashed0) in
  fst r1 = fst r2 /\
  fs_data (hr_inner (snd r1)) = fs_data (hr_inner (snd r2)) /\
  hr_hashed (snd r1) = hr_hashed (snd r2).
Proof. intros H1 H2. apply sched_indep_gen; auto. Qed.
Print Assumptions schedule_independent.

(* ---- 4. faults allowed: the result is the flat result or Err EIo; the hasher has seen exactly the bytes
        consumed, whatever happened ---- *)
Lemma run_frag_faulty_gen {A} (p : prog A) : forall h,
  (exists used, fs_data (hr_inner h) = used ++ fs_data (hr_inner (snd (run_frag p h))) /\
                hr_hashed (snd (run_frag p h)) = option_map (fun l => l ++ used) (hr_hashed h)) /\
  (fst (run_frag p h) = Err EIo \/
   match run_flat p (fs_data (hr_inner h)) with
   | Ok (a, rest) => fst (run_frag p h) = Ok a /\ fs_data (hr_inner (snd (run_frag p h))) = rest
   | Err e => fst (run_frag p h) = Err e
   | Panic x => fst (run_frag p h) = Panic x
   | Fuel => fst (run_frag p h) = Fuel
   end).
Proof.
  induction p as [a|e|x| |n k IH]; intros h; cbn [run_flat run_frag fst snd];
    try (split; [exists []; rewrite option_map_nil; split; reflexivity | right; auto]).
  pose proof (read_exact_any n h) as H.
  destruct (read_exact_f (fuel_for n h) n h) as [res h1].
  destruct H as (used & Hd & Hh & [-> | [-> Hrd]]).
  - cbn [fst snd]. split; [exists used; split; assumption | left; reflexivity].
  - rewrite Hrd. destruct (IH used h1) as [(used2 & Hd2 & Hh2) Hres]. split.
    + exists (used ++ used2). split.
      * rewrite <- app_assoc, <- Hd2. exact Hd.
      * rewrite Hh2, Hh, option_map_app. reflexivity.
    + exact Hres.
Qed.

Theorem run_frag_faulty {A} (p : prog A) data sched hashed0 :
  let h := mk_hreader data sched hashed0 in
  let '(res, h') := run_frag p h in
  (exists used, data = used ++ fs_data (hr_inner h') /\
                hr_hashed h' = option_map (fun l => l ++ used) hashed0) /\
  (res = Err EIo \/
   match run_flat p data with
   | Ok (a, rest) => res = Ok a /\ fs_data (hr_inner h') = rest
   | Err e => res = Err e
   | Panic x => res = Panic x
   | Fuel => res = Fuel
   end).
Proof.
  intro h. pose proof (run_frag_faulty_gen p h) as H. destruct (run_frag p h) as [res h']. exact H.
Qed.
Print Assumptions run_frag_faulty.

(* in particular: Ok only if the flat run is the same Ok *)
Corollary run_frag_ok_sound {A} (p : prog A) data sched hashed0 a :
  fst (run_frag p (mk_hreader data sched hashed0)) = Ok a ->
  exists rest, run_flat p data = Ok (a, rest).
Proof.
  intro H. pose proof (run_frag_faulty p data sched hashed0) as F. cbn zeta in F.
  destruct (run_frag p (mk_hreader data sched hashed0)) as [res h']. cbn [fst] in H. subst res.
  destruct F as (_ & [F | F]); [discriminate|].
  destruct (run_flat p data) as [[a' rest]|e|x|]; try discriminate.
  destruct F as [F _]. inversion F; subst. eauto.
Qed.
Print Assumptions run_frag_ok_sound.

(* ================================================================================================ *)
(* C. the reader model of Model/Reader.v is such a program                                           *)
(* ================================================================================================ *)
Lemma run_flat_pb {A B} (p : prog A) (f : A -> prog B) : forall bs,
  run_flat (pb p f) bs = pbind (run_flat p) (fun a => run_flat (f a)) bs.
Proof.
  induction p as [a|e|x| |n k IH]; intros bs; unfold pbind; cbn [pb run_flat]; try reflexivity.
  destruct (rd_exact n bs) as [[b r]|e|x|]; try reflexivity.
  rewrite IH. reflexivity.
Qed.

Lemma pbind_ext {A B} (p p' : parser A) (f f' : A -> parser B) bs :
  (forall bs, p bs = p' bs) -> (forall a r, f a r = f' a r) -> pbind p f bs = pbind p' f' bs.
Proof.
  intros Hp Hf. unfold pbind. rewrite Hp. destruct (p' bs) as [[a r]|e|x|]; auto.
Qed.

Lemma run_flat_exact n bs : run_flat (p_exact n) bs = rd_exact n bs.
Proof. unfold p_exact. cbn [run_flat]. destruct (rd_exact n bs) as [[b r]|e|x|]; reflexivity. Qed.

Lemma run_flat_u8 bs : run_flat p_u8 bs = rd_u8 bs.
Proof. destruct bs as [|b r]; reflexivity. Qed.

Lemma run_flat_be w bs : run_flat (p_be w) bs = rd_be w bs.
Proof.
  unfold p_be, rd_be. rewrite run_flat_pb. apply pbind_ext; [apply run_flat_exact | reflexivity].
Qed.

Lemma run_flat_expect e bs : run_flat (p_expect e) bs = expect_bytes e bs.
Proof.
  unfold p_expect, expect_bytes. rewrite run_flat_pb. apply pbind_ext; [apply run_flat_exact|].
  intros a r. destruct (list_byte_eqb e a); reflexivity.
Qed.

Lemma run_flat_lift {A} (o : outcome A) bs :
  run_flat (p_lift o) bs = match o with Ok a => Ok (a, bs) | Err e => Err e | Panic x => Panic x | Fuel => Fuel end.
Proof. destruct o; reflexivity. Qed.

Theorem run_flat_header bs : run_flat p_header bs = parse_header bs.
Proof.
  unfold p_header, parse_header. rewrite run_flat_pb.
  apply pbind_ext; [apply run_flat_expect | intros _ r; apply run_flat_be].
Qed.

Theorem run_flat_payloads bs : run_flat p_payloads bs = parse_payloads bs.
Proof.
  unfold p_payloads, parse_payloads. rewrite run_flat_pb.
  apply pbind_ext; [apply run_flat_u8|]. intros code r.
  destruct (negb (N.eqb code Event_Payloads)); [reflexivity|]. rewrite run_flat_pb.
  apply pbind_ext; [apply run_flat_u8|]. intros size r1.
  destruct (negb (N.eqb (size mod 3) 1)); [reflexivity|]. rewrite run_flat_pb.
  apply pbind_ext; [apply run_flat_exact|]. intros buf r2.
  destruct (table_entries (N.to_nat ((size - 1) / 3)) buf []) as [sizes|e|x|]; try reflexivity.
  destruct (lookup_size sizes Event_GameStart), (lookup_size sizes Event_GameEnd); reflexivity.
Qed.

Theorem run_flat_game_start sizes br bs : run_flat (p_game_start sizes br) bs = parse_game_start sizes br bs.
Proof.
  unfold p_game_start, parse_game_start. rewrite run_flat_pb.
  apply pbind_ext; [apply run_flat_u8|]. intros code r.
  destruct (lookup_size sizes code) as [size|]; [|reflexivity]. rewrite run_flat_pb.
  apply pbind_ext; [apply run_flat_exact|]. intros buf r1.
  destruct (N.eqb code Event_GameStart); [|reflexivity].
  destruct (game_start buf); reflexivity.
Qed.

Theorem run_flat_start bs : run_flat p_start bs = parse_start bs.
Proof.
  unfold p_start, parse_start. rewrite run_flat_pb.
  apply pbind_ext; [apply run_flat_payloads|]. intros [br sizes] r. rewrite run_flat_pb.
  apply pbind_ext; [intro; apply run_flat_game_start|]. intros [br2 st] r1. reflexivity.
Qed.

Theorem run_flat_event s bs : run_flat (p_event s) bs = parse_event s bs.
Proof.
  unfold p_event, parse_event. rewrite run_flat_pb.
  apply pbind_ext; [apply run_flat_u8|]. intros code r.
  destruct (lookup_size (ps_sizes s) code) as [size|]; [|reflexivity]. rewrite run_flat_pb.
  apply pbind_ext; [apply run_flat_exact|]. intros buf r1.
  destruct (handle_event code buf s) as [[code' s']|e|x|]; reflexivity.
Qed.
Print Assumptions run_flat_event.

(* the incremental API over any fault-free fragmentation: the flat model's answer, the flat model's rest,
   and the hasher fed exactly the bytes consumed *)
Definition frag_agrees {A} (p : prog A) (flat : parser A) : Prop :=
  forall data sched hashed0, no_fault sched ->
  let '(res, h') := run_frag p (mk_hreader data sched hashed0) in
  match flat data with
  | Ok (a, rest) =>
      res = Ok a /\ fs_data (hr_inner h') = rest /\
      exists used, data = used ++ rest /\ hr_hashed h' = option_map (fun l => l ++ used) hashed0
  | Err e => res = Err e
  | Panic x => res = Panic x
  | Fuel => res = Fuel
  end.

Lemma frag_agrees_of {A} (p : prog A) (flat : parser A) :
  (forall bs, run_flat p bs = flat bs) -> frag_agrees p flat.
Proof.
  intros H data sched hashed0 Hnf. rewrite <- H. apply (run_frag_flat p data sched hashed0 Hnf).
Qed.

Corollary parse_header_frag : frag_agrees p_header parse_header.
Proof. apply frag_agrees_of, run_flat_header. Qed.
Corollary parse_start_frag : frag_agrees p_start parse_start.
Proof. apply frag_agrees_of, run_flat_start. Qed.
Corollary parse_event_frag s : frag_agrees (p_event s) (parse_event s).
Proof. apply frag_agrees_of, run_flat_event. Qed.
Print Assumptions parse_header_frag.
Print Assumptions parse_start_frag.
Print Assumptions parse_event_frag.

(* ================================================================================================ *)
(* Stretch: metadata (UBJSON, byte by byte) and the one-shot read without skipping                   *)
(* ================================================================================================ *)
Lemma run_flat_consumes {A} (p : prog A) : forall bs a r,
  run_flat p bs = Ok (a, r) -> exists used, bs = used ++ r.
Proof.
  induction p as [a0|e|x| |n k IH]; intros bs a r; cbn [run_flat]; try (intro H; discriminate H).
  - intro H. apply ok_inj in H. injection H as _ Er. subst r. exists []. reflexivity.
  - destruct (rd_exact n bs) as [[b r1]|e|x|] eqn:E; try (intro H; discriminate H).
    intro H. apply IH in H as [used ->]. apply rd_exact_ok in E as [-> _].
    exists (b ++ used). rewrite app_assoc. reflexivity.
Qed.

Lemma run_flat_len {A} (p : prog A) bs a r : run_flat p bs = Ok (a, r) -> length r <= length bs.
Proof. intro H. apply run_flat_consumes in H as [used ->]. rewrite app_length. lia. Qed.

Lemma run_flat_pcount {A} (p : prog A) : forall c bs,
  run_flat (pcount p c) bs =
  match run_flat p bs with
  | Ok (a, r) => Ok ((a, c + (length bs - length r)), r)
  | Err e => Err e | Panic x => Panic x | Fuel => Fuel
  end.
Proof.
  induction p as [a0|e|x| |n k IH]; intros c bs; cbn [pcount run_flat]; try reflexivity.
  - replace (c + (length bs - length bs)) with c by lia. reflexivity.
  - destruct (rd_exact n bs) as [[b r1]|e|x|] eqn:E; try reflexivity.
    rewrite IH. destruct (run_flat (k b) r1) as [[a r]|e|x|] eqn:E2; try reflexivity.
    apply run_flat_len in E2. apply rd_exact_ok in E as [-> Hl]. rewrite app_length.
    replace (c + n + (length r1 - length r)) with (c + (length b + length r1 - length r)) by lia. reflexivity.
Qed.

(* with c = total - |bs| consumed so far, the continuation receives total - |rest| *)
Lemma run_flat_pbc {A B} (p : prog A) (f : A -> nat -> prog B) total c bs :
  c = total - length bs -> length bs <= total ->
  run_flat (pbc p c f) bs =
  match run_flat p bs with
  | Ok (a, r) => run_flat (f a (total - length r)) r
  | Err e => Err e | Panic x => Panic x | Fuel => Fuel
  end.
Proof.
  intros Hc Hle. unfold pbc. rewrite run_flat_pb. unfold pbind. rewrite run_flat_pcount.
  destruct (run_flat p bs) as [[a r]|e|x|] eqn:E; try reflexivity.
  apply run_flat_len in E. cbn [fst snd]. replace (c + (length bs - length r)) with (total - length r) by lia.
  reflexivity.
Qed.

Lemma run_flat_byte bs : run_flat p_byte bs = match bs with [] => Err EIo | b :: r => Ok (b, r) end.
Proof. destruct bs as [|b r]; reflexivity. Qed.

Lemma run_flat_str bs : run_flat p_str bs = rd_str bs.
Proof.
  unfold p_str, rd_str. rewrite run_flat_pb. unfold pbind. rewrite run_flat_byte.
  destruct bs as [|n r]; [reflexivity|]. rewrite run_flat_pb. unfold pbind. rewrite run_flat_exact, rd_exact_spec.
  destruct (length r <? N.to_nat (b2n n)); [reflexivity|].
  destruct (utf8_valid (firstn (N.to_nat (b2n n)) r)); reflexivity.
Qed.

Lemma run_flat_entries : forall fuel depth acc bs,
  run_flat (p_entries fuel depth acc) bs = entries fuel depth acc bs.
Proof.
  induction fuel as [|f IH]; intros depth acc bs; [reflexivity|].
  cbn [p_entries entries]. rewrite run_flat_pb. unfold pbind. rewrite run_flat_byte.
  destruct bs as [|c r]; [reflexivity|].
  destruct (Byte.eqb c xU).
  - rewrite run_flat_pb. unfold pbind. rewrite run_flat_str.
    destruct (rd_str r) as [[k r1]|e|x|]; cbn [bind]; try reflexivity.
    rewrite run_flat_pb. unfold pbind. rewrite run_flat_byte.
    destruct r1 as [|t r2]; [reflexivity|].
    destruct (Byte.eqb t xS).
    + rewrite run_flat_pb. unfold pbind. rewrite run_flat_byte.
      destruct r2 as [|u r3]; [reflexivity|].
      destruct (Byte.eqb u xU); [|reflexivity].
      rewrite run_flat_pb. unfold pbind. rewrite run_flat_str.
      destruct (rd_str r3) as [[s r4]|e|x|]; cbn [bind]; try reflexivity. apply IH.
    + destruct (Byte.eqb t xl).
      * rewrite run_flat_pb. unfold pbind. rewrite run_flat_exact, rd_exact_spec.
        destruct (length r2 <? 4); [reflexivity|]. apply IH.
      * destruct (Byte.eqb t xOpen); [|reflexivity].
        destruct (UBJSON_MAX_DEPTH <? depth + 1)%N; [reflexivity|].
        rewrite run_flat_pb. unfold pbind. rewrite IH.
        destruct (entries f (depth + 1) [] r2) as [[m r3]|e|x|]; cbn [bind]; try reflexivity. apply IH.
  - destruct (Byte.eqb c xClose); reflexivity.
Qed.

Theorem run_flat_read_map bs : run_flat (p_read_map (S (length bs))) bs = read_map bs.
Proof.
  unfold p_read_map, read_map. destruct (UBJSON_MAX_DEPTH <? 1)%N; [reflexivity|]. apply run_flat_entries.
Qed.

Lemma expect_bytes_len e bs u r : expect_bytes e bs = Ok (u, r) -> length r = length bs - length e.
Proof.
  unfold expect_bytes, pbind. destruct (rd_exact (length e) bs) as [[b r1]|e0|x|] eqn:E; try (intro H; discriminate H).
  apply rd_exact_ok in E as [-> Hl]. destruct (list_byte_eqb e b); [|intro H; discriminate H].
  intro H. apply ok_inj in H. injection H as _ <-. rewrite app_length. lia.
Qed.

Theorem run_flat_metadata s bs : run_flat (p_metadata s (length bs)) bs = parse_metadata s bs.
Proof.
  unfold p_metadata, parse_metadata. rewrite run_flat_pb. unfold pbind. rewrite run_flat_expect.
  destruct (expect_bytes sig_meta bs) as [[u r]|e|x|] eqn:E; try reflexivity.
  apply expect_bytes_len in E. rewrite <- E. rewrite run_flat_pb. unfold pbind. rewrite run_flat_read_map.
  destruct (read_map r) as [[m r1]|e|x|]; reflexivity.
Qed.
Print Assumptions run_flat_metadata.

Lemma run_flat_event_loop : forall fuel raw_len s bs,
  run_flat (p_event_loop fuel raw_len s) bs = event_loop fuel raw_len s bs.
Proof.
  induction fuel as [|f IH]; intros raw_len s bs; [reflexivity|].
  cbn [p_event_loop event_loop].
  destruct (N.eqb raw_len 0 || (ps_bytes_read s <? raw_len)%N); [|reflexivity].
  rewrite run_flat_pb. unfold pbind. rewrite run_flat_event.
  destruct (parse_event s bs) as [[[code s'] r]|e|x|]; try reflexivity.
  destruct (N.eqb code Event_GameEnd); [reflexivity|]. apply IH.
Qed.

Lemma rd_exact_N_eq n bs : rd_exact_N n bs = rd_exact (N.to_nat n) bs.
Proof.
  unfold rd_exact_N. destruct (N.ltb_spec (N.of_nat (length bs)) n) as [H|H]; [|reflexivity].
  rewrite rd_exact_spec. destruct (Nat.ltb_spec (length bs) (N.to_nat n)) as [_|H2]; [reflexivity|lia].
Qed.

(* a read of a file-controlled length, bounded by what can remain: with at most rem bytes left, reading
   min len (S rem) bytes has the outcome (value and rest) of reading len bytes; no huge unary number arises *)
Lemma rd_exact_bounded len rem bs :
  length bs <= rem -> rd_exact (N.to_nat (N.min len (N.of_nat (S rem)))) bs = rd_exact_N len bs.
Proof.
  intro Hrem. rewrite rd_exact_N_eq, !rd_exact_spec.
  destruct (N.le_gt_cases len (N.of_nat rem)) as [Hle|Hgt].
  - replace (N.min len (N.of_nat (S rem))) with len by lia. reflexivity.
  - destruct (Nat.ltb_spec (length bs) (N.to_nat (N.min len (N.of_nat (S rem))))) as [_|H1]; [|lia].
    destruct (Nat.ltb_spec (length bs) (N.to_nat len)) as [_|H2]; [reflexivity|lia].
Qed.

Theorem run_flat_slp_read hash bs0 :
  run_flat (p_slp_read hash (length bs0)) bs0 = slp_read {| o_skip := false; o_hash := hash |} bs0.
Proof.
  unfold p_slp_read, slp_read. cbn [o_skip o_hash].
  rewrite (run_flat_pbc _ _ (length bs0)) by lia. rewrite run_flat_header.
  destruct (parse_header bs0) as [[raw_len bs1]|e|x|] eqn:E1; cbn [bind]; try reflexivity.
  rewrite <- run_flat_header in E1. apply run_flat_len in E1.
  rewrite (run_flat_pbc _ _ (length bs0)) by lia. rewrite run_flat_start.
  destruct (parse_start bs1) as [[s bs2]|e|x|] eqn:E2; cbn [bind]; try reflexivity.
  rewrite <- run_flat_start in E2. apply run_flat_len in E2.
  rewrite (run_flat_pbc _ _ (length bs0)) by lia. rewrite run_flat_event_loop.
  replace (length bs0 - (length bs0 - length bs2)) with (length bs2) by lia.
  destruct (event_loop (S (length bs2)) raw_len s bs2) as [[s3 bs3]|e|x|] eqn:E3; cbn [bind]; try reflexivity.
  rewrite <- run_flat_event_loop in E3. apply run_flat_len in E3.
  set (s4 := if vlt (ver s3) 3 0 then frame_close s3 else s3).
  rewrite (run_flat_pbc _ _ (length bs0)) by lia.
  match goal with |- match ?X with _ => _ end = bind ?Y _ => assert (E4 : X = Y) end.
  { destruct (ps_bytes_read s4 <? raw_len)%N; [|reflexivity].
    rewrite run_flat_pb. unfold pbind. rewrite run_flat_exact, rd_exact_bounded by lia.
    destruct (rd_exact_N (raw_len - ps_bytes_read s4) bs3) as [[buf bs4]|e|x|]; cbn [bind]; try reflexivity.
    destruct (N.eqb (raw_len - ps_bytes_read s4) (1 + game_End_size (ver s4)) &&
              N.eqb (b2n (hd x00 buf)) Event_GameEnd); reflexivity. }
  match type of E4 with ?X = ?Y => destruct Y as [[s5 bs5]|e|x|] eqn:E5 end;
    rewrite E4; cbn [bind]; try reflexivity.
  apply run_flat_len in E4.
  rewrite (run_flat_pbc _ _ (length bs0)) by lia. rewrite run_flat_u8.
  destruct (rd_u8 bs5) as [[b bs6]|e|x|] eqn:E6; cbn [bind]; try reflexivity.
  rewrite <- run_flat_u8 in E6. apply run_flat_len in E6.
  rewrite (run_flat_pbc _ _ (length bs0)) by lia.
  match goal with |- match ?X with _ => _ end = bind ?Y _ => assert (E7 : X = Y) end.
  { destruct (N.eqb b 85).
    - rewrite run_flat_pb. unfold pbind.
      replace (length bs0 - (length bs0 - length bs6)) with (length bs6) by lia.
      rewrite run_flat_metadata.
      destruct (parse_metadata s5 bs6) as [[s7 bs7]|e|x|]; cbn [bind]; try reflexivity.
      rewrite run_flat_pb. unfold pbind. rewrite run_flat_expect.
      destruct (expect_bytes [x7d] bs7) as [[u bs8]|e|x|]; cbn [bind]; reflexivity.
    - destruct (N.eqb b 125); reflexivity. }
  match type of E7 with ?X = ?Y => destruct Y as [[s8 bs8]|e|x|] eqn:E8 end;
    rewrite E7; cbn [bind]; try reflexivity.
Qed.
Print Assumptions run_flat_slp_read.

(* ---- fragmented corollaries for programs whose fuel index is the (ghost) remaining length ---- *)
Definition frag_agrees_on {A} (p : prog A) (flat : parser A) (data : list byte) : Prop :=
  forall sched hashed0, no_fault sched ->
  let '(res, h') := run_frag p (mk_hreader data sched hashed0) in
  match flat data with
  | Ok (a, rest) =>
      res = Ok a /\ fs_data (hr_inner h') = rest /\
      exists used, data = used ++ rest /\ hr_hashed h' = option_map (fun l => l ++ used) hashed0
  | Err e => res = Err e
  | Panic x => res = Panic x
  | Fuel => res = Fuel
  end.

Lemma frag_agrees_on_of {A} (p : prog A) (flat : parser A) data :
  run_flat p data = flat data -> frag_agrees_on p flat data.
Proof.
  intros H sched hashed0 Hnf. rewrite <- H. apply (run_frag_flat p data sched hashed0 Hnf).
Qed.

Corollary parse_metadata_frag s data : frag_agrees_on (p_metadata s (length data)) (parse_metadata s) data.
Proof. apply frag_agrees_on_of, run_flat_metadata. Qed.
Print Assumptions parse_metadata_frag.

Corollary slp_read_frag hash data :
  frag_agrees_on (p_slp_read hash (length data)) (slp_read {| o_skip := false; o_hash := hash |}) data.
Proof. apply frag_agrees_on_of, run_flat_slp_read. Qed.
Print Assumptions slp_read_frag.

(* the count recorded in the game is the length of what the hasher was fed *)
Lemma slp_read_hashed o bs0 g rest :
  slp_read o bs0 = Ok (g, rest) ->
  g_hashed g = if o_hash o then Some (length bs0 - length rest) else None.
Proof.
  unfold slp_read. intro H.
  repeat (apply bind_ok in H as [[? ?] [_ H]]; cbv beta iota in H).
  apply ok_inj in H. injection H as <- <-. reflexivity.
Qed.

Corollary slp_read_frag_digest data sched g rest :
  no_fault sched ->
  slp_read {| o_skip := false; o_hash := true |} data = Ok (g, rest) ->
  let '(res, h') := run_frag (p_slp_read true (length data)) (mk_hreader data sched (Some [])) in
  res = Ok g /\ fs_data (hr_inner h') = rest /\
  exists used, data = used ++ rest /\ hr_hashed h' = Some used /\ g_hashed g = Some (length used).
Proof.
  intros Hnf Hflat. pose proof (slp_read_frag true data sched (Some []) Hnf) as H.
  destruct (run_frag (p_slp_read true (length data)) (mk_hreader data sched (Some []))) as [res h'].
  rewrite Hflat in H. destruct H as (Hres & Hrest & used & Hu & Hh).
  split; [exact Hres|]. split; [exact Hrest|]. exists used. split; [exact Hu|]. split; [exact Hh|].
  rewrite (slp_read_hashed _ _ _ _ Hflat). cbn [o_hash]. rewrite Hu, app_length. f_equal. lia.
Qed.
Print Assumptions slp_read_frag_digest.

(* ---- faults allowed, for the incremental API: the flat answer or Err EIo; hashed = consumed ---- *)
Definition frag_sound {A} (p : prog A) (flat : parser A) : Prop :=
  forall data sched hashed0,
  let '(res, h') := run_frag p (mk_hreader data sched hashed0) in
  (exists used, data = used ++ fs_data (hr_inner h') /\
                hr_hashed h' = option_map (fun l => l ++ used) hashed0) /\
  (res = Err EIo \/
   match flat data with
   | Ok (a, rest) => res = Ok a /\ fs_data (hr_inner h') = rest
   | Err e => res = Err e
   | Panic x => res = Panic x
   | Fuel => res = Fuel
   end).

Lemma frag_sound_of {A} (p : prog A) (flat : parser A) :
  (forall bs, run_flat p bs = flat bs) -> frag_sound p flat.
Proof.
  intros H data sched hashed0. rewrite <- H. apply (run_frag_faulty p data sched hashed0).
Qed.

Corollary parse_header_faulty : frag_sound p_header parse_header.
Proof. apply frag_sound_of, run_flat_header. Qed.
Corollary parse_start_faulty : frag_sound p_start parse_start.
Proof. apply frag_sound_of, run_flat_start. Qed.
Corollary parse_event_faulty s : frag_sound (p_event s) (parse_event s).
Proof. apply frag_sound_of, run_flat_event. Qed.
Print Assumptions parse_event_faulty.

(* ---- sanity: the model computes (non-vacuity) ---- *)
Example header_fragmented :
  let data := sig_slp ++ map n2b [0; 0; 1; 0; 7]%N in
  run_frag p_header (mk_hreader data [Give 1; Interrupt; Give 0; Give 100; Interrupt; Give 2] (Some [])) =
  (Ok 256%N, mk_hreader (map n2b [7%N]) [] (Some (sig_slp ++ map n2b [0; 0; 1; 0]%N))).
Proof. vm_compute. reflexivity. Qed.

Example header_faulted :
  let data := sig_slp ++ map n2b [0; 0; 1; 0; 7]%N in
  run_frag p_header (mk_hreader data [Give 3; Fault; Give 2] (Some [])) =
  (Err EIo, mk_hreader (skipn 3 data) [Give 2] (Some (firstn 3 data))).
Proof. vm_compute. reflexivity. Qed.

Example header_truncated :
  let data := firstn 13 (sig_slp ++ map n2b [0; 0; 1; 0; 7]%N) in
  run_frag p_header (mk_hreader data [Give 5; Interrupt] (Some [])) =
  (Err EIo, mk_hreader [] [] (Some data)).
Proof. vm_compute. reflexivity. Qed.
