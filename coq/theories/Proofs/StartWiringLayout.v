(* Game Start -> player wiring: how the hand model Model/Start.v (players_of, game_start) hands the per-port blocks to
   player_of, restated THROUGH the table that tools/rust2coq.py regenerates from the one statement of fn game_start
   (src/io/slippi/de.rs) that calls `player(..)` -- Gen/StartWiring.v: the port range, for every parameter of `player` the
   block it is taken from, the component and the index, and the adaptor chain that collects the results.

   The geometry (array element sizes / counts, offsets of the tails and of the components inside a tail) comes from the older
   Gen/Layouts.v through the lookups of Proofs/StartLayout.v.  If the source passes another block, another component of the
   3.9 tail, another index, another port number, iterates another range or collects differently, the regenerated table
   changes (or the translator fails) and the equalities below no longer hold of the unchanged hand model. *)
From Coq Require Import List Arith NArith ZArith Lia Bool String.
From Coq.Strings Require Import Byte.
From Peppi Require Import Base.Bytes Base.Outcome Gen.Funs Gen.Layouts Gen.StartWiring Model.Start Proofs.StartLayout.
Import ListNotations.
Notation length := (@List.length _) (only parsing).
Local Open Scope string_scope.

(* ---------------------------------------------------------------------------------------------------------
   the interpreter of the table *)
Definition ix_val (ix : wire_ix) (n : nat) : nat :=
  match ix with IxVar => n | IxConst k => k | IxVarPlus k => n + k end.

(* the values `player` can be called with *)
Inductive argval :=
| AvPort (p : N) | AvBlock (b : list byte) | AvBool (b : bool) | AvOpt (o : option (list byte)) | AvBad.

(* the optional tails that are in scope, by the name of their `let`: Some (Some off) = present at offset off *)
Definition tail_env := list (string * option nat).
Fixpoint env_get (e : tail_env) (name : string) : option (option nat) :=
  match e with
  | [] => None
  | (n, t) :: r => if String.eqb n name then Some t else env_get r name
  end.

(* `t.map(|p| p[ix])` reads array `t`; `t.map(|p| p.k[ix])` reads array `t.k`, which starts at its inner offset in the tail *)
Definition arr_key (tail comp : string) : string := if String.eqb comp "" then tail else tail ++ "." ++ comp.
Definition comp_inner (tail comp : string) : option nat :=
  if String.eqb comp "" then None else Some (s_inner_off tail comp).

(* off + k, written so that a component at inner offset 0 starts at the tail's own offset *)
Definition add_inner (off : nat) (inner : option nat) : nat :=
  match inner with None | Some O => off | Some (S k) => off + S k end.
Lemma add_inner_spec off inner : add_inner off inner = off + match inner with Some k => k | None => 0 end.
Proof. destruct inner as [[|k]|]; cbn [add_inner]; lia. Qed.

Definition opt_index (blk : list byte) (t : option nat) (inner : option nat) (w i : nat) : option (list byte) :=
  match t with
  | Some off => Some (sub blk (add_inner off inner + w * i) w)
  | None => None
  end.

Definition arg_val (blk : list byte) (env : tail_env) (n : nat) (s : wire_src) : argval :=
  match s with
  | WsPortOfIndex ix => AvPort (N.of_nat (ix_val ix n))
  | WsArrayRef arr ix =>
      AvBlock (nth (ix_val ix n) (chunks (pa_n arr) (pa_m arr) (skipn (off_of start_reads arr) blk)) [])
  | WsLocalNonZero name => AvBool (negb (field_at start_reads name blk =? 0)%N)
  | WsOptIndex tl comp ix =>
      match env_get env tl with
      | Some t => AvOpt (opt_index blk t (comp_inner tl comp) (pa_n (arr_key tl comp)) (ix_val ix n))
      | None => AvBad
      end
  end.

(* the call is positional, as in Rust: the k-th argument goes to the k-th parameter of fn player, which is the k-th
   argument of the hand model's player_of (parameter names: wiring_params_from_source) *)
Definition player_call (args : list argval) : res (option player) :=
  match args with
  | [AvPort p; AvBlock v0; AvBool teams; AvOpt v10; AvOpt v13; AvOpt nm; AvOpt cd; AvOpt v311] =>
      player_of p v0 teams v10 v13 nm cd v311
  | _ => RErr
  end.

(* the adaptor chain: only the recognised one has a meaning *)
Definition pipe_sem (p : list pipe_step) : option (list (res (option player)) -> res (list player)) :=
  match p with
  | [PpFilterMapTranspose; PpCollectResultVec; PpQuestion] => Some collect
  | _ => None
  end.

Definition players_of_tbl (blk : list byte) (env : tail_env) : res (list player) :=
  match pipe_sem start_players_pipeline with
  | Some f =>
      f (map (fun n => player_call (map (fun ws => arg_val blk env n (snd ws)) start_player_wiring))
             (seq (fst start_player_range) (snd start_player_range - fst start_player_range)))
  | None => RErr
  end.

Ltac ev_wiring :=
  repeat match goal with
  | |- context [env_get ?e ?n] => ev_term (env_get e n)
  | |- context [arr_key ?a ?b] => ev_term (arr_key a b)
  | |- context [comp_inner ?a ?b] => ev_term (comp_inner a b)
  end; cbv beta iota.

(* ---------------------------------------------------------------------------------------------------------
   players_of: full equality with the table-driven form, for every block and every presence pattern of the tails;
   the tails are handed over under the names of their `let`s *)
Theorem players_of_from_source blk t10 t13 t39 t311 :
  players_of blk t10 t13 t39 t311 =
  players_of_tbl blk [("players_v1_0", t10); ("players_v1_3", t13); ("players_v3_9", t39); ("players_v3_11", t311)].
Proof.
  unfold players_of, players_of_tbl, start_players_pipeline, start_player_wiring, start_player_range, opt_chunk.
  cbn [pipe_sem fst snd Nat.sub seq map arg_val ix_val player_call].
  ev_wiring. unfold opt_index. through_tables. cbn [add_inner].
  reflexivity.
Qed.

(* game_start with every number replaced by a lookup (Proofs/StartLayout.v game_start_src) and the players wired by the table *)
Definition game_start_wired (blk : list byte) : res start_t :=
  let n := length blk in
  if (n <? start_fixed_size)%nat then RErr else
  t10 <~ tail_at n (s_off "players_v1_0") (s_size "players_v1_0") ;;
  t13 <~ next_tail n t10 (s_off "players_v1_3") (s_size "players_v1_3") ;;
  t15 <~ next_tail n t13 (s_off "is_pal") (s_size "is_pal") ;;
  t20 <~ next_tail n t15 (s_off "is_frozen_ps") (s_size "is_frozen_ps") ;;
  t37 <~ next_tail n t20 (s_off "scene") (s_size "scene") ;;
  t39 <~ next_tail n t37 (s_off "players_v3_9") (s_size "players_v3_9") ;;
  t311 <~ next_tail n t39 (s_off "players_v3_11") (s_size "players_v3_11") ;;
  t312 <~ next_tail n t311 (s_off "language") (s_size "language") ;;
  t314 <~ next_tail n t312 (s_off "match") (s_size "match") ;;
  language <~ language_of blk t312 ;;
  mtch <~ match_of blk t314 ;;
  players <~ players_of_tbl blk [("players_v1_0", t10); ("players_v1_3", t13); ("players_v3_9", t39); ("players_v3_11", t311)] ;;
  ROk (mk_start blk t15 t20 t37 language mtch players).

Lemma rbind_ext {A B} (x : res A) (f g : A -> res B) : (forall a, f a = g a) -> rbind x f = rbind x g.
Proof. intro H. destruct x; cbn [rbind]; auto. Qed.

Theorem game_start_wiring_from_source blk : game_start blk = game_start_wired blk.
Proof.
  rewrite (proj1 (start_tails_from_source blk)).
  unfold game_start_src, game_start_wired. cbv zeta.
  destruct (length blk <? start_fixed_size)%nat; [reflexivity|].
  apply rbind_ext; intro t10. apply rbind_ext; intro t13. apply rbind_ext; intro t15. apply rbind_ext; intro t20.
  apply rbind_ext; intro t37. apply rbind_ext; intro t39. apply rbind_ext; intro t311. apply rbind_ext; intro t312.
  apply rbind_ext; intro t314. apply rbind_ext; intro lang. apply rbind_ext; intro mt.
  rewrite <- players_of_from_source.
  unfold players_of, players_of_src, opt_chunk. through_tables. reflexivity.
Qed.

(* ---------------------------------------------------------------------------------------------------------
   side facts about the table *)

(* the parameters of fn player, in order, are the arguments of player_of in order (Gen/Layouts.v player_block_sizes
   lists the byte-array ones among them, in the same order) *)
Theorem wiring_params_from_source :
  map fst start_player_wiring = ["port"; "v0"; "is_teams"; "v1_0"; "v1_3"; "v3_9_name"; "v3_9_code"; "v3_11"] /\
  map fst player_block_sizes = filter (fun p => negb (String.eqb p "port" || String.eqb p "is_teams")) (map fst start_player_wiring).
Proof. split; vm_compute; reflexivity. Qed.

(* every index stays inside its array, and every port number is a code of game::Port, for every n of the range: neither
   the indexing nor `Port::try_from(..).unwrap()` can panic *)
Definition src_ok (n : nat) (s : wire_src) : bool :=
  match s with
  | WsPortOfIndex ix => mem (N.of_nat (ix_val ix n)) Port_codes
  | WsArrayRef arr ix => (ix_val ix n <? pa_m arr)%nat
  | WsLocalNonZero name => match rd start_reads name with Some (_, w) => (w =? 1)%nat | None => false end
  | WsOptIndex tl comp ix => (ix_val ix n <? pa_m (arr_key tl comp))%nat
  end.
Theorem wiring_in_bounds_from_source :
  forallb (fun n => forallb (fun ws => src_ok n (snd ws)) start_player_wiring)
          (seq (fst start_player_range) (snd start_player_range - fst start_player_range)) = true.
Proof. vm_compute. reflexivity. Qed.

(* the block handed to a byte-array parameter has the size that parameter's type declares *)
Definition size_ok (pw : string * wire_src) : bool :=
  match snd pw with
  | WsArrayRef arr _ => (0 <? pa_n arr)%nat && (block_size (fst pw) =? pa_n arr)%nat
  | WsOptIndex tl comp _ => (0 <? pa_n (arr_key tl comp))%nat && (block_size (fst pw) =? pa_n (arr_key tl comp))%nat
  | _ => true
  end.
Theorem wiring_sizes_from_source : forallb size_ok start_player_wiring = true.
Proof. vm_compute. reflexivity. Qed.

(* the range is the four ports *)
Theorem wiring_range_from_source :
  seq (fst start_player_range) (snd start_player_range - fst start_player_range) = [0; 1; 2; 3]%nat /\
  N.of_nat (snd start_player_range) = NUM_PORTS.
Proof. split; vm_compute; reflexivity. Qed.

(* what the recognised chain means, stated on the hand model's collect: an error of any port aborts the whole read
   (it is never swallowed), and a port whose player() is Ok(None) is dropped without affecting the others *)
Lemma collect_err_propagates {A} (l : list (res (option A))) : In RErr l -> collect l = RErr.
Proof.
  induction l as [|x r IH]; intro H; [destruct H|].
  destruct H as [-> | H]; [reflexivity|].
  cbn [collect]. rewrite (IH H). destruct x; reflexivity.
Qed.
Lemma collect_none_dropped {A} (l : list (res (option A))) : collect (ROk None :: l) = collect l.
Proof. cbn [collect]. destruct (collect l); reflexivity. Qed.
Lemma collect_some_kept {A} (a : A) (l : list (res (option A))) l' : collect l = ROk l' -> collect (ROk (Some a) :: l) = ROk (a :: l').
Proof. intro H. cbn [collect]. rewrite H. reflexivity. Qed.

Theorem wiring_pipeline_from_source :
  start_players_pipeline = [PpFilterMapTranspose; PpCollectResultVec; PpQuestion] /\
  start_players_errors_propagate = true /\ start_players_none_dropped = true /\
  start_players_field = "players" /\
  (forall blk env, In RErr (map (fun n => player_call (map (fun ws => arg_val blk env n (snd ws)) start_player_wiring))
                                (seq (fst start_player_range) (snd start_player_range - fst start_player_range))) ->
                   players_of_tbl blk env = RErr).
Proof.
  repeat split. intros blk env H. unfold players_of_tbl.
  change (pipe_sem start_players_pipeline) with (Some (@collect player)). cbv iota beta.
  apply collect_err_propagates. exact H.
Qed.

Print Assumptions players_of_from_source.
Print Assumptions game_start_wiring_from_source.
Print Assumptions wiring_params_from_source.
Print Assumptions wiring_in_bounds_from_source.
Print Assumptions wiring_sizes_from_source.
Print Assumptions wiring_range_from_source.
Print Assumptions wiring_pipeline_from_source.
