From Coq Require Import List NArith Bool Lia ZifyBool ZifyN.
From Peppi Require Import Gen.Funs Model.VersionText.
Import ListNotations.
Local Open Scope N_scope.

(* lexicographic order on pairs and triples *)
Definition lex2_le (a b : N * N) : Prop := fst a < fst b \/ (fst a = fst b /\ snd a <= snd b).
Definition lex3_le (a b : version) : Prop :=
  v0 a < v0 b \/ (v0 a = v0 b /\ (v1 a < v1 b \/ (v1 a = v1 b /\ v2 a <= v2 b))).

Lemma c20_gte_lex v M m : slippi_Version_gte v M m = true <-> lex2_le (M, m) (v0 v, v1 v).
Proof. destruct v as [[a b] c]. unfold slippi_Version_gte, lex2_le, v0, v1. cbn [fst snd]. lia. Qed.

Lemma c20_lt_is_negation v M m : slippi_Version_lt v M m = negb (slippi_Version_gte v M m).
Proof. reflexivity. Qed.

Lemma c20_gate_monotone a b M m :
  lex2_le (v0 a, v1 a) (v0 b, v1 b) -> slippi_Version_gte a M m = true -> slippi_Version_gte b M m = true.
Proof.
  destruct a as [[a0 a1] a2], b as [[b0 b1] b2]. unfold slippi_Version_gte, lex2_le, v0, v1. cbn [fst snd]. lia.
Qed.

(* C09 *)
Lemma c09_le_lex a b : version_le a b = true <-> lex3_le a b.
Proof. destruct a as [[a0 a1] a2], b as [[b0 b1] b2]. unfold version_le, lex3_le, v0, v1, v2. cbn [fst snd]. lia. Qed.

Lemma c09_max_iff v : assert_max_version_ok v = true <-> lex3_le v MAX_SUPPORTED_VERSION.
Proof. unfold assert_max_version_ok. rewrite <- c09_le_lex. destruct (version_le v MAX_SUPPORTED_VERSION); split; congruence. Qed.

Lemma c09_max_value : MAX_SUPPORTED_VERSION = (3, 16, 0).
Proof. reflexivity. Qed.

Lemma c18_min_iff v : assert_current_version_ok v = true <-> lex3_le PEPPI_MIN_VERSION v.
Proof.
  unfold assert_current_version_ok, version_lt. rewrite <- c09_le_lex.
  destruct (version_le PEPPI_MIN_VERSION v); cbn; split; congruence.
Qed.
