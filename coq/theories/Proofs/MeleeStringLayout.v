(* MeleeString: the hand models Model/ShiftJis.v [melee_of] / [to_normalized] and Model/Start.v [take_until_nul] /
   [melee_string] / the name fields of [player_of] restated THROUGH the tables that tools/rust2coq.py regenerates from
   src/game/shift_jis.rs (`impl TryFrom<&[u8]> for MeleeString`, MeleeString::to_normalized) and from the
   MeleeString::try_from call sites of fn player in src/io/slippi/de.rs (Gen/MeleeStringSrc.v): the byte the slice is
   cut at, the default when it is absent, the slice bounds, the decoder method, the two arms of the match, the mapped
   function; per call site the field, the byte-array parameter it decodes and how its error propagates.

   If the source changes the cut byte, the default, a slice bound, the decoder, an arm, the mapped function, or which
   parameter feeds which field, the regenerated tables change and the statements below no longer hold. *)
From Coq Require Import List Arith NArith Lia Bool String.
From Coq.Strings Require Import Byte.
From Peppi Require Import Base.Bytes Base.Outcome Gen.Funs Gen.Layouts Gen.MeleeStringSrc Model.Start Model.ShiftJis.
Import ListNotations.
Notation length := (@List.length _) (only parsing).
Local Open Scope string_scope.
Local Open Scope list_scope.

(* ---- try_from ---- *)
(* s.iter().position(|&x| x == c) *)
Fixpoint position (c : N) (bs : list byte) : option nat :=
  match bs with
  | [] => None
  | b :: r => if N.eqb (b2n b) c then Some O else option_map S (position c r)
  end.

Definition first_null_tbl (bs : list byte) : nat :=
  match position melee_cut_byte bs with
  | Some k => k
  | None => match melee_cut_default with MdSliceLen => length bs | MdConst n => n end
  end.

(* &s[from..to]; None: the slice expression panics *)
Definition slice (from to : nat) (bs : list byte) : option (list byte) :=
  if (to <? from)%nat || (length bs <? to)%nat then None else Some (firstn (to - from) (skipn from bs)).

Definition melee_slice_tbl (bs : list byte) : option (list byte) := slice melee_slice_from (first_null_tbl bs) bs.

Lemma is_nul b : N.eqb (b2n b) 0 = Byte.eqb b x00.
Proof. destruct b; reflexivity. Qed.

Lemma cut_spec bs :
  let k := match position 0 bs with Some k => k | None => length bs end in
  (k <= length bs)%nat /\ firstn k bs = take_until_nul bs.
Proof.
  induction bs as [|b r IH]; cbn [position take_until_nul length]; [split; [lia|reflexivity]|].
  rewrite is_nul. destruct (Byte.eqb b x00); [split; [lia|reflexivity]|].
  cbn zeta in IH. destruct (position 0 r) as [k|]; cbn [option_map]; destruct IH as [H1 H2]; (split; [lia|]);
    cbn [firstn]; rewrite H2; reflexivity.
Qed.

(* the slice handed to the decoder is the model's take_until_nul, and the slice expression never panics *)
Theorem take_until_nul_from_source bs : melee_slice_tbl bs = Some (take_until_nul bs).
Proof.
  unfold melee_slice_tbl, first_null_tbl, melee_cut_byte, melee_cut_default, melee_slice_from, slice.
  pose proof (cut_spec bs) as H. cbn zeta in H.
  destruct (position 0 bs) as [k|]; destruct H as [H1 H2].
  - assert (E : ((k <? 0)%nat || (length bs <? k)%nat) = false)
      by (apply orb_false_iff; split; apply Nat.ltb_ge; lia).
    rewrite E. cbn [skipn]. rewrite Nat.sub_0_r, H2. reflexivity.
  - assert (E : ((length bs <? 0)%nat || (length bs <? length bs)%nat) = false)
      by (apply orb_false_iff; split; apply Nat.ltb_ge; lia).
    rewrite E. cbn [skipn]. rewrite Nat.sub_0_r, H2. reflexivity.
Qed.

(* the decoder methods of encoding_rs::Encoding that return Option (None on a malformed sequence) *)
Definition is_strict (m : string) : bool := String.eqb m "decode_without_bom_handling_and_without_replacement".

(* first arm that matches a value: "Some" matches Some(_), "None" matches None, "_" both *)
Definition arm_for (is_some : bool) : option ms_arm :=
  match find (fun a => String.eqb (fst a) "_" || String.eqb (fst a) (if is_some then "Some" else "None")) melee_arms with
  | Some a => Some (snd a)
  | None => None
  end.

(* Some (Some s): Ok; Some None: Err; None: a panic, or a shape this interpreter does not describe *)
Definition melee_of_tbl (dec : list byte -> option (list N)) (bs : list byte) : option (option (list N)) :=
  if negb (is_strict melee_decoder_method) then None else
  match melee_slice_tbl bs with
  | None => None
  | Some sl =>
      match dec sl with
      | Some cs => match arm_for true with Some MaOkDecoded => Some (Some cs) | Some MaErr => Some None | None => None end
      | None => match arm_for false with Some MaErr => Some None | _ => None end
      end
  end.

Theorem melee_of_from_source dec bs : melee_of_tbl dec bs = Some (melee_of dec bs).
Proof.
  unfold melee_of_tbl, melee_of. rewrite take_until_nul_from_source.
  change (negb (is_strict melee_decoder_method)) with false.
  change (arm_for true) with (Some MaOkDecoded). change (arm_for false) with (Some MaErr). cbv beta iota.
  destruct (dec (take_until_nul bs)); reflexivity.
Qed.

(* the executable single-byte decoder of Model/Start.v sees the same slice *)
Theorem melee_string_from_source bs :
  match melee_slice_tbl bs with Some sl => melee_string bs = sjis_go sl [] | None => False end.
Proof. rewrite take_until_nul_from_source. reflexivity. Qed.

(* ---- to_normalized ---- *)
Definition char_fn (name : string) : N -> N := if String.eqb name "fix_char" then fix_char_u32 else fun c => c.

Theorem to_normalized_from_source s : to_normalized s = map (char_fn melee_normalize_map) s.
Proof. reflexivity. Qed.

(* ---- the call sites in fn player ---- *)
Definition src_of (field : string) : string :=
  match find (fun c => String.eqb (fst (fst c)) field) melee_string_calls with Some c => snd (fst c) | None => "" end.

(* the byte-array parameters of fn player that can feed a MeleeString *)
Definition blk_named (v1_3 v3_9_name v3_9_code : option (list byte)) (name : string) : option (list byte) :=
  if String.eqb name "v1_3" then v1_3
  else if String.eqb name "v3_9_name" then v3_9_name
  else if String.eqb name "v3_9_code" then v3_9_code
  else None.

Theorem melee_calls_from_source :
  map (fun c => fst (fst c)) melee_string_calls = ["name_tag"; "netplay.name"; "netplay.code"] /\
  player_optional_order = ["ucf"; "name_tag"; "netplay"].
Proof. split; reflexivity. Qed.

(* the parameters the calls decode are byte arrays of fn player, of the sizes of the three name fields
   (Gen/Layouts.v player_block_sizes, from the parameter types: [u8; 16] name tag, [u8; 31] netplay name, [u8; 10] connect code) *)
Definition block_size (name : string) : option nat :=
  match find (fun e => String.eqb (fst e) name) player_block_sizes with Some e => Some (snd e) | None => None end.

Theorem melee_blocks_from_source :
  map (fun c => block_size (snd (fst c))) melee_string_calls = [Some 16; Some 31; Some 10]%nat.
Proof. vm_compute. reflexivity. Qed.

Ltac through_calls :=
  change (src_of "name_tag") with "v1_3" in *; change (src_of "netplay.name") with "v3_9_name" in *;
  change (src_of "netplay.code") with "v3_9_code" in *;
  unfold blk_named in *;
  repeat match goal with
         | |- context [String.eqb ?a ?b] => let v := eval vm_compute in (String.eqb a b) in change (String.eqb a b) with v
         | H : context [String.eqb ?a ?b] |- _ => let v := eval vm_compute in (String.eqb a b) in change (String.eqb a b) with v in H
         end;
  cbv beta iota in *.

(* the name fields of a decoded player are the decodings of the parameters the table names *)
Theorem player_melee_from_source port v0b teams v1_0 v1_3 nb cb v311 p :
  player_of port v0b teams v1_0 v1_3 nb cb v311 = ROk (Some p) ->
  let blk := blk_named v1_3 nb cb in
  match blk (src_of "name_tag") with
  | None => pl_name_tag p = None
  | Some b => exists s, melee_string b = SjOk s /\ pl_name_tag p = Some s
  end /\
  match blk (src_of "netplay.name"), blk (src_of "netplay.code") with
  | Some n, Some c => exists n' c' suid, melee_string n = SjOk n' /\ melee_string c = SjOk c' /\ pl_netplay p = Some (n', c', suid)
  | _, _ => pl_netplay p = None
  end.
Proof.
  intro H. cbv zeta. through_calls. unfold player_of in H.
  destruct (match v1_0 with None => ROk None | Some _ => _ end) as [ucf| |]; try discriminate.
  split.
  - destruct v1_3 as [b|].
    + destruct (melee_string b) as [s| |]; try discriminate.
      exists s. split; [reflexivity|].
      destruct (match nb with Some _ => _ | None => _ end) as [np| |]; try discriminate.
      destruct (mem (u8_at v0b 1) PlayerType_codes); inversion H; reflexivity.
    + destruct (match nb with Some _ => _ | None => _ end) as [np| |]; try discriminate.
      destruct (mem (u8_at v0b 1) PlayerType_codes); inversion H; reflexivity.
  - destruct (match v1_3 with None => ROk None | Some _ => _ end) as [nt| |]; try discriminate.
    destruct nb as [n|], cb as [c|];
      try (destruct (mem (u8_at v0b 1) PlayerType_codes); inversion H; reflexivity).
    destruct (match v311 with None => ROk None | Some _ => _ end) as [suid| |]; try discriminate.
    destruct (melee_string n) as [n'| |]; try discriminate.
    destruct (melee_string c) as [c'| |]; try discriminate.
    exists n', c', suid. repeat split.
    destruct (mem (u8_at v0b 1) PlayerType_codes); inversion H; reflexivity.
Qed.

(* every call propagates its error: an invalid sequence in a block that is present is never swallowed *)
Theorem player_melee_error_from_source port v0b teams v1_0 v1_3 nb cb v311 :
  let blk := blk_named v1_3 nb cb in
  (forall b, blk (src_of "name_tag") = Some b -> melee_string b = SjErr ->
             forall x, player_of port v0b teams v1_0 v1_3 nb cb v311 <> ROk x) /\
  (forall n c, blk (src_of "netplay.name") = Some n -> blk (src_of "netplay.code") = Some c ->
               melee_string n = SjErr \/ melee_string c = SjErr ->
               forall x, player_of port v0b teams v1_0 v1_3 nb cb v311 <> ROk x).
Proof.
  cbv zeta. through_calls. split.
  - intros b -> E x. unfold player_of. rewrite E.
    destruct (match v1_0 with None => ROk None | Some _ => _ end); discriminate.
  - intros n c -> -> E x. unfold player_of.
    destruct (match v1_0 with None => ROk None | Some _ => _ end); try discriminate.
    destruct (match v1_3 with None => ROk None | Some _ => _ end); try discriminate.
    destruct (match v311 with None => ROk None | Some _ => _ end); try discriminate.
    destruct E as [E|E]; rewrite E; [discriminate|].
    destruct (melee_string n); discriminate.
Qed.

Print Assumptions take_until_nul_from_source.
Print Assumptions melee_of_from_source.
Print Assumptions melee_string_from_source.
Print Assumptions to_normalized_from_source.
Print Assumptions melee_calls_from_source.
Print Assumptions melee_blocks_from_source.
Print Assumptions player_melee_from_source.
Print Assumptions player_melee_error_from_source.
