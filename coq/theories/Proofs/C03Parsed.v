(* C03 end to end: in the game parsed from a well-formed file, every field of every present character's pre / post record,
   of the frame start / end records and of every item is the big-endian value of the bytes at the field's spec offset
   in the corresponding event of that frame occurrence. *)
From Coq Require Import List Arith NArith ZArith Lia ZifyBool ZifyN ZifyNat Bool String.
From Coq.Strings Require Import Byte.
From Peppi Require Import Base.Bytes Base.Outcome Layout.Syntax Gen.Funs Gen.Tables Layout.Sem Layout.SpecTheory Layout.Spec Layout.Rows
  Model.Start Model.Parse Model.Reader Model.Writer Model.Recorder Model.View
  Proofs.FrameStep Proofs.C03Proof Proofs.C04Proof Proofs.C13Proof.
Import ListNotations.
Notation length := (@List.length _) (only parsing).
Local Open Scope string_scope.

(* a record payload of exactly the version's row size decodes, and every spec field present at the version is the
   big-endian value at its spec offset (offsets count from the event's command byte: hdr_of E bytes precede the payload) *)
Lemma row_vals_spec v E payload : In E events -> length payload = row_size v E ->
  forall k s, nth_error (spec_of E) k = Some s -> osince_ok v (ssince s) = true ->
  nth_error (row_vals v E payload) k = Some (be_dec (firstn (width (sprim s)) (skipn (soff s - hdr_of E) payload))).
Proof.
  intros HE Hlen k s Hk Hs. unfold row_vals, row_leaves.
  destruct (proj2 (dec_succeeds_iff (leaves_at v (read_leaves E)) payload)) as [[vals rest] Hd].
  { unfold row_size, row_leaves in Hlen. rewrite Hlen. apply le_n. }
  rewrite Hd. destruct (c03_fields E v payload vals rest k s HE Hd Hk) as [H _]. exact (proj2 (H Hs)).
Qed.

Local Opaque row_vals row_size.

(* "the fields of the decoded record [vals] of event E are the spec fields of the payload [bs]" *)
Definition spec_fields_of (v : version) (E : string) (vals : list N) (bs : list byte) : Prop :=
  forall j s, nth_error (spec_of E) j = Some s -> osince_ok v (ssince s) = true ->
    nth_error vals j = Some (be_dec (firstn (width (sprim s)) (skipn (soff s - hdr_of E) bs))).

Lemma row_vals_fields v E bs : In E events -> length bs = row_size v E -> spec_fields_of v E (row_vals v E bs) bs.
Proof. intros HE Hlen j s Hj Hs. apply row_vals_spec; assumption. Qed.

Lemma in_events_pre : In "Pre" events.   Proof. unfold events. left. reflexivity. Qed.
Lemma in_events_post : In "Post" events. Proof. unfold events. right. left. reflexivity. Qed.
Lemma in_events_start : In "Start" events. Proof. unfold events. do 2 right. left. reflexivity. Qed.
Lemma in_events_item : In "Item" events. Proof. unfold events. do 3 right. left. reflexivity. Qed.
Lemma in_events_end : In "End" events.   Proof. unfold events. do 4 right. left. reflexivity. Qed.

Lemma nth_error_combine_seq {A} (l : list A) : forall a k x, nth_error l k = Some x ->
  nth_error (combine (seq a (length l)) l) k = Some ((a + k)%nat, x).
Proof.
  induction l as [|y l IH]; intros a k x Hk; destruct k as [|k]; cbn [nth_error] in Hk; try discriminate Hk.
  - injection Hk as Hy. subst y. cbn [List.length seq combine nth_error]. rewrite Nat.add_0_r. reflexivity.
  - cbn [List.length seq combine nth_error]. rewrite (IH (S a) k x Hk). f_equal. f_equal. lia.
Qed.

Lemma slot_at_nth_error k f o : slot_at k f = Some o -> nth_error (af_slots f) k = Some (Some o).
Proof.
  unfold slot_at. intro H. destruct (nth_error (af_slots f) k) as [x|] eqn:Ek.
  - rewrite (nth_error_nth _ _ None Ek) in H. rewrite H. reflexivity.
  - apply nth_error_None in Ek. rewrite nth_overflow in H by exact Ek. discriminate H.
Qed.

(* ------------------------------------------------------------------------------------------------ *)
(* 1. the view written from one well-formed frame occurrence                                         *)
(* ------------------------------------------------------------------------------------------------ *)
Section OneFrame.
Variables (v : version) (ports : list (N * bool)) (f : aframe).
Hypothesis Hf : wf_frame v (layout_of v) (slots_of ports) f = true.
Let w := view_of v ports f.

(* characters: the k-th entry of the view is slot k; a slot with events (p, q) shows their fields *)
Lemma c03_view_chars k p q : slot_at k f = Some (p, q) ->
  exists tag cv, nth_error (slots_of ports) k = Some tag /\
                 nth_error (fv_chars w) k = Some (fst tag, snd tag, cv) /\
                 spec_fields_of v "Pre" (cv_pre cv) p /\ spec_fields_of v "Post" (cv_post cv) q.
Proof.
  intro Hk.
  destruct (wf_frame_inv _ _ _ _ Hf) as (_ & _ & _ & _ & Hlsl & Hrows & _).
  pose proof (slot_at_nth_error k f (p, q) Hk) as Hnth.
  assert (Hlt : (k < List.length (slots_of ports))%nat).
  { rewrite <- Hlsl. apply nth_error_Some. rewrite Hnth. discriminate. }
  destruct (nth_error (slots_of ports) k) as [tag|] eqn:Etag; [|apply nth_error_None in Etag; lia].
  rewrite Forall_forall in Hrows. pose proof (Hrows _ (nth_error_In _ _ Hnth)) as Hpq.
  unfold rows_ok in Hpq. destruct Hpq as [Hp Hq].
  change (sz_pre (layout_of v)) with (row_size v "Pre") in Hp.
  change (sz_post (layout_of v)) with (row_size v "Post") in Hq.
  exists tag, {| cv_pre := row_vals v "Pre" p; cv_post := row_vals v "Post" q |}.
  split; [reflexivity|]. split.
  - unfold w, view_of. cbn [fv_chars].
    rewrite nth_error_map. rewrite (nth_error_combine_seq (slots_of ports) O k tag Etag).
    cbn [option_map fst snd Nat.add]. rewrite Hk. reflexivity.
  - cbn [cv_pre cv_post]. split.
    + apply row_vals_fields; [exact in_events_pre|exact Hp].
    + apply row_vals_fields; [exact in_events_post|exact Hq].
Qed.

Lemma c03_view_start : vgte v 2 2 = true ->
  exists sv, fv_start w = Some sv /\ spec_fields_of v "Start" sv (af_start f).
Proof.
  intro Hv. destruct (wf_frame_inv _ _ _ _ Hf) as (_ & Hls & _).
  rewrite Hv in Hls. change (sz_start (layout_of v)) with (row_size v "Start") in Hls.
  exists (row_vals v "Start" (af_start f)). split.
  - unfold w, view_of. cbn [fv_start]. rewrite Hv. reflexivity.
  - apply row_vals_fields; [exact in_events_start|exact Hls].
Qed.

Lemma c03_view_end : vgte v 3 0 = true ->
  exists ev, fv_end w = Some ev /\ spec_fields_of v "End" ev (af_end f).
Proof.
  intro Hv. destruct (wf_frame_inv _ _ _ _ Hf) as (_ & _ & Hle & _).
  rewrite Hv in Hle. change (sz_end (layout_of v)) with (row_size v "End") in Hle.
  exists (row_vals v "End" (af_end f)). split.
  - unfold w, view_of. cbn [fv_end]. rewrite Hv. reflexivity.
  - apply row_vals_fields; [exact in_events_end|exact Hle].
Qed.

Lemma c03_view_items : vgte v 3 0 = true ->
  exists its, fv_items w = Some its /\ List.length its = List.length (af_items f) /\
    forall m it iv, nth_error (af_items f) m = Some it -> nth_error its m = Some iv -> spec_fields_of v "Item" iv it.
Proof.
  intro Hv. destruct (wf_frame_inv _ _ _ _ Hf) as (_ & _ & _ & Hits & _).
  rewrite Hv in Hits. rewrite Forall_forall in Hits.
  exists (map (row_vals v "Item") (af_items f)). split; [|split].
  - unfold w, view_of. cbn [fv_items]. rewrite Hv. reflexivity.
  - apply map_length.
  - intros m it iv Hm Hiv. rewrite (map_nth_error (row_vals v "Item") _ _ Hm) in Hiv.
    injection Hiv as Hiv. subst iv.
    pose proof (Hits it (nth_error_In _ _ Hm)) as Hlen.
    change (sz_item (layout_of v)) with (row_size v "Item") in Hlen.
    apply row_vals_fields; [exact in_events_item|exact Hlen].
Qed.

End OneFrame.

(* ------------------------------------------------------------------------------------------------ *)
(* 2. for a whole file                                                                                *)
(* ------------------------------------------------------------------------------------------------ *)
Section Parsed.
Variables (r : replay) (st : start_t).
Hypothesis Hwf : wf_replay r = true.
Hypothesis Hst : game_start (r_start r) = ROk st.
Let v := r_ver r.

Theorem c03_parsed_fields h i f :
  nth_error (r_frames r) i = Some f ->
  exists g w, slp_read {| o_skip := false; o_hash := h |} (emit r) = Ok (g, []) /\ frame_view v (g_frames g) i = Ok w /\
    (* characters: slot k present with payloads (p, q) is the k-th character of the view, tagged (port, follower) *)
    (forall k p q, slot_at k f = Some (p, q) ->
       exists tag cv, nth_error (slots_of (port_occupancy st)) k = Some tag /\
         nth_error (fv_chars w) k = Some (fst tag, snd tag, cv) /\
         (forall j s, nth_error (spec_of "Pre") j = Some s -> osince_ok v (ssince s) = true ->
            nth_error (cv_pre cv) j = Some (be_dec (firstn (width (sprim s)) (skipn (soff s - hdr_of "Pre") p)))) /\
         (forall j s, nth_error (spec_of "Post") j = Some s -> osince_ok v (ssince s) = true ->
            nth_error (cv_post cv) j = Some (be_dec (firstn (width (sprim s)) (skipn (soff s - hdr_of "Post") q))))) /\
    (* frame start / end records *)
    (vgte v 2 2 = true -> exists sv, fv_start w = Some sv /\
       forall j s, nth_error (spec_of "Start") j = Some s -> osince_ok v (ssince s) = true ->
         nth_error sv j = Some (be_dec (firstn (width (sprim s)) (skipn (soff s - hdr_of "Start") (af_start f))))) /\
    (vgte v 3 0 = true -> exists ev, fv_end w = Some ev /\
       forall j s, nth_error (spec_of "End") j = Some s -> osince_ok v (ssince s) = true ->
         nth_error ev j = Some (be_dec (firstn (width (sprim s)) (skipn (soff s - hdr_of "End") (af_end f))))) /\
    (* items, in order *)
    (vgte v 3 0 = true -> exists its, fv_items w = Some its /\ length its = length (af_items f) /\
       forall m it iv, nth_error (af_items f) m = Some it -> nth_error its m = Some iv ->
       forall j s, nth_error (spec_of "Item") j = Some s -> osince_ok v (ssince s) = true ->
         nth_error iv j = Some (be_dec (firstn (width (sprim s)) (skipn (soff s - hdr_of "Item") it)))).
Proof.
  intro Hi.
  destruct (c13_parsed_view r st h i f Hwf Hst Hi) as (g & Hread & Hview).
  pose proof (c04_parsed_wf r st Hwf Hst) as Hall. rewrite Forall_forall in Hall.
  pose proof (Hall f (nth_error_In _ _ Hi)) as Hf. fold v in Hf, Hview.
  exists g, (view_of v (port_occupancy st) f).
  split; [exact Hread|]. split; [exact Hview|].
  split; [|split; [|split]].
  - exact (c03_view_chars v (port_occupancy st) f Hf).
  - exact (c03_view_start v (port_occupancy st) f Hf).
  - exact (c03_view_end v (port_occupancy st) f Hf).
  - exact (c03_view_items v (port_occupancy st) f Hf).
Qed.

(* the same, addressed from the view: whatever the k-th character entry of the view is, if slot k had events (p, q)
   in this frame occurrence then its records are the fields of p and q (the draft form; it follows from the above) *)
Corollary c03_parsed_fields_view h i f :
  nth_error (r_frames r) i = Some f ->
  exists g w, slp_read {| o_skip := false; o_hash := h |} (emit r) = Ok (g, []) /\ frame_view v (g_frames g) i = Ok w /\
    (forall k tag cv p q, nth_error (fv_chars w) k = Some (fst tag, snd tag, cv) -> slot_at k f = Some (p, q) ->
       (forall j s, nth_error (spec_of "Pre") j = Some s -> osince_ok v (ssince s) = true ->
          nth_error (cv_pre cv) j = Some (be_dec (firstn (width (sprim s)) (skipn (soff s - hdr_of "Pre") p)))) /\
       (forall j s, nth_error (spec_of "Post") j = Some s -> osince_ok v (ssince s) = true ->
          nth_error (cv_post cv) j = Some (be_dec (firstn (width (sprim s)) (skipn (soff s - hdr_of "Post") q))))).
Proof.
  intro Hi. destruct (c03_parsed_fields h i f Hi) as (g & w & Hread & Hview & Hchars & _).
  exists g, w. split; [exact Hread|]. split; [exact Hview|].
  intros k tag cv p q Hnth Hk.
  destruct (Hchars k p q Hk) as (tag' & cv' & _ & Hnth' & Hpre & Hpost).
  rewrite Hnth in Hnth'. injection Hnth' as _ _ Hcv. subst cv'. split; [exact Hpre|exact Hpost].
Qed.

End Parsed.

Print Assumptions row_vals_spec.
Print Assumptions c03_parsed_fields.
Print Assumptions c03_parsed_fields_view.
