(* C13 (end-to-end part): the single-frame record view [frame_view] (model of Frame::transpose_one) of the columns
   that were parsed from a frame history is, for every in-range row index i, exactly the i-th frame OCCURRENCE of
   that history, written down directly from the occurrence ([view_of]); it never panics for an in-range index,
   and it panics (index out of bounds) for every out-of-range one.  Built on the column-shape theorems of C04. *)
From Coq Require Import List Arith NArith ZArith Lia Bool String ZifyBool ZifyN ZifyNat.
From Coq.Strings Require Import Byte.
From Peppi Require Import Base.Bytes Base.Outcome Base.Stream Layout.Syntax Gen.Funs Layout.Sem Layout.Rows Layout.RowsTheory
  Model.Ubjson Model.Start Model.Json Model.Parse Model.Reader Model.Writer Model.Recorder Model.View
  Proofs.Framing Proofs.FrameStep Proofs.StartFacts Proofs.TableFacts Proofs.UbjsonProof
  Proofs.Incremental Proofs.WriteProof Proofs.ReadProof Proofs.C04Proof.
Import ListNotations.
Notation length := (@List.length _) (only parsing).
Local Open Scope string_scope.

(* ------------------------------------------------------------------------------------------------ *)
(* 1. list facts                                                                                      *)
(* ------------------------------------------------------------------------------------------------ *)
Lemma at_row_some {A} (l : list A) i a : nth_error l i = Some a -> at_row l i = Ok a.
Proof. intro H. unfold at_row. rewrite H. reflexivity. Qed.

Lemma at_row_map {A B} (g : A -> B) (l : list A) i a : nth_error l i = Some a -> at_row (map g l) i = Ok (g a).
Proof. intro H. apply at_row_some. apply map_nth_error. exact H. Qed.

Lemma at_row_none {A} (l : list A) i : (length l <= i)%nat -> at_row l i = Panic 601.
Proof. intro H. unfold at_row. apply nth_error_None in H. rewrite H. reflexivity. Qed.

Lemma skipn_nth_cons {A} : forall (l : list A) a x, nth_error l a = Some x -> skipn a l = x :: skipn (S a) l.
Proof.
  induction l as [|y l IH]; intros a x H; [destruct a; discriminate H|].
  destruct a as [|a]; cbn [nth_error] in H.
  - injection H as ->. reflexivity.
  - change (skipn (S a) (y :: l)) with (skipn a l). change (skipn (S (S a)) (y :: l)) with (skipn (S a) l).
    apply IH. exact H.
Qed.

Lemma bind_eq {A B} (x : outcome A) (g : A -> outcome B) a r : x = Ok a -> g a = r -> bind x g = r.
Proof. intros -> <-. reflexivity. Qed.

(* reading rows a, a+1, ..., a+n-1 of a column one by one yields that slice, whenever the slice is that long *)
Lemma all_ok_slice {A} (l : list A) : forall n a,
  length (firstn n (skipn a l)) = n ->
  all_ok (map (fun k => at_row l k) (seq a n)) = Ok (firstn n (skipn a l)).
Proof.
  induction n as [|n IH]; intros a Hlen; [reflexivity|].
  destruct (nth_error l a) as [x|] eqn:Ex.
  - rewrite (skipn_nth_cons l a x Ex) in Hlen |- *. cbn [firstn length] in Hlen |- *.
    injection Hlen as Hlen. cbn [seq map all_ok]. rewrite (at_row_some l a x Ex). cbn [bind].
    rewrite (IH (S a) Hlen). cbn [bind]. reflexivity.
  - apply nth_error_None in Ex. rewrite skipn_all2 in Hlen by exact Ex. rewrite firstn_nil in Hlen.
    discriminate Hlen.
Qed.

(* a map over the slots whose result for slot k is a function of k and the slot's tag *)
Lemma all_ok_indexed {B} (F : slot -> outcome B) (H : nat -> N * bool -> B) : forall cs k0,
  (forall k c, nth_error cs k = Some c -> F c = Ok (H (k0 + k)%nat (sl_port c, sl_fol c))) ->
  all_ok (map F cs) = Ok (map (fun x : nat * (N * bool) => H (fst x) (snd x)) (combine (seq k0 (length cs)) (tags cs))).
Proof.
  induction cs as [|c cs IH]; intros k0 HF; [reflexivity|].
  cbn [map all_ok length seq tags combine fst snd].
  rewrite (HF O c eq_refl). rewrite Nat.add_0_r. cbn [bind].
  fold (tags cs). rewrite (IH (S k0)).
  - cbn [bind]. reflexivity.
  - intros k c' Hk. rewrite (HF (S k) c' Hk). f_equal. f_equal. lia.
Qed.

(* ------------------------------------------------------------------------------------------------ *)
(* 2. the view of row i is occurrence i                                                               *)
(* ------------------------------------------------------------------------------------------------ *)
Section C13.
Variables (v : version) (ports : list (N * bool)) (fs : list aframe).
Let L := layout_of v.
Hypothesis Hwf : Forall (fun f => wf_frame v L (slots_of ports) f = true) fs.
Let fr := frames_of v ports fs.

(* what the view of occurrence f should be, written directly from f: the slots are the occupied characters in port
   order; a character without events in this occurrence shows the decoded null row (transpose_one does not look at
   the validity bitmap) *)
Definition view_of (f : aframe) : fview :=
  {| fv_id := af_id f;
     fv_chars := map (fun x : nat * (N * bool) =>
                        let k := fst x in
                        (fst (snd x), snd (snd x),
                         {| cv_pre := row_vals v "Pre" (match slot_at k f with Some (p, _) => p | None => repeat x00 (sz_pre L) end);
                            cv_post := row_vals v "Post" (match slot_at k f with Some (_, q) => q | None => repeat x00 (sz_post L) end) |}))
                     (combine (seq 0 (length (slots_of ports))) (slots_of ports));
     fv_start := if vgte v 2 2 then Some (row_vals v "Start" (af_start f)) else None;
     fv_end := if vgte v 3 0 then Some (row_vals v "End" (af_end f)) else None;
     fv_items := if vgte v 3 0 then Some (map (row_vals v "Item") (af_items f)) else None |}.

Lemma c13_chars i f : nth_error fs i = Some f ->
  all_ok (map (fun c => x <- cdata_view v (sl_data c) i ;; Ok (sl_port c, sl_fol c, x)) (f_chars fr))
  = Ok (fv_chars (view_of f)).
Proof.
  intro Hi. unfold view_of. cbn [fv_chars].
  rewrite <- (c04_slot_count v ports fs Hwf). rewrite <- (c04_slots v ports fs Hwf). fold fr.
  apply (all_ok_indexed
           (fun c => x <- cdata_view v (sl_data c) i ;; Ok (sl_port c, sl_fol c, x))
           (fun k t => (fst t, snd t,
                        {| cv_pre := row_vals v "Pre" (match slot_at k f with Some (p, _) => p | None => repeat x00 (sz_pre L) end);
                           cv_post := row_vals v "Post" (match slot_at k f with Some (_, q) => q | None => repeat x00 (sz_post L) end) |}))
           (f_chars fr) O).
  intros k c Hk. cbn [Nat.add fst snd].
  destruct (c04_slot_columns v ports fs k c Hk) as (Hpre & Hpost & _). fold L in Hpre, Hpost.
  unfold cdata_view. rewrite Hpre, Hpost. unfold col_pre, col_post.
  rewrite (at_row_map _ fs i f Hi). cbn [bind]. rewrite (at_row_map _ fs i f Hi). cbn [bind]. reflexivity.
Qed.

Lemma c13_items i f : vgte v 3 0 = true -> nth_error fs i = Some f ->
  (a <- at_row (0%Z :: offsets_from 0 fs) i ;; b <- at_row (0%Z :: offsets_from 0 fs) (S i) ;;
   rs <- all_ok (map (fun k => at_row (List.concat (map af_items fs)) k) (seq (Z.to_nat a) (Z.to_nat b - Z.to_nat a))) ;;
   Ok (Some (map (row_vals v "Item") rs)))
  = Ok (Some (map (row_vals v "Item") (af_items f))).
Proof.
  intros Hv Hi. destruct (offsets_rows fs i f O Hi) as (a & H1 & H2 & H3).
  change (Z.of_nat 0) with 0%Z in H1, H2. cbn [Nat.add] in H1, H2.
  rewrite (at_row_some _ _ _ H1). cbn [bind]. rewrite (at_row_some _ _ _ H2). cbn [bind].
  rewrite !Nat2Z.id. replace (a + length (af_items f) - a)%nat with (length (af_items f)) by lia.
  rewrite all_ok_slice by (rewrite H3; reflexivity). cbn [bind]. rewrite H3. reflexivity.
Qed.

Theorem c13_view_is_occurrence : forall i f, nth_error fs i = Some f -> frame_view v fr i = Ok (view_of f).
Proof.
  intros i f Hi. unfold frame_view.
  rewrite (c13_chars i f Hi).
  unfold fr. rewrite c04_ids, c04_start, c04_end, c04_items, c04_item_offsets.
  rewrite (at_row_map af_id fs i f Hi). cbn [bind].
  assert (Hst : (if vgte v 2 2
                 then match (if vgte v 2 2 then Some (map af_start fs) else None) with
                      | Some rows => r <- at_row rows i ;; Ok (Some (row_vals v "Start" r))
                      | None => Panic 602
                      end
                 else Ok None)
                = Ok (fv_start (view_of f))).
  { unfold view_of. cbn [fv_start]. destruct (vgte v 2 2); [|reflexivity].
    rewrite (at_row_map af_start fs i f Hi). reflexivity. }
  eapply bind_eq; [exact Hst|]. cbv beta.
  assert (Hen : (if vgte v 3 0
                 then match (if vgte v 3 0 then Some (map af_end fs) else None) with
                      | Some rows => r <- at_row rows i ;; Ok (Some (row_vals v "End" r))
                      | None => Panic 603
                      end
                 else Ok None)
                = Ok (fv_end (view_of f))).
  { unfold view_of. cbn [fv_end]. destruct (vgte v 3 0); [|reflexivity].
    rewrite (at_row_map af_end fs i f Hi). reflexivity. }
  eapply bind_eq; [exact Hen|]. cbv beta.
  assert (Hit : (if vgte v 3 0
                 then match (if vgte v 3 0 then Some (0%Z :: offsets_from 0 fs) else None) with
                      | Some offs =>
                          a <- at_row offs i ;; b <- at_row offs (S i) ;;
                          rs <- all_ok (map (fun k => match (if vgte v 3 0 then Some (List.concat (map af_items fs)) else None) with
                                                      | Some items => at_row items k
                                                      | None => Panic 604
                                                      end) (seq (Z.to_nat a) (Z.to_nat b - Z.to_nat a))) ;;
                          Ok (Some (map (row_vals v "Item") rs))
                      | None => Panic 604
                      end
                 else Ok None)
                = Ok (fv_items (view_of f))).
  { unfold view_of. cbn [fv_items]. destruct (vgte v 3 0) eqn:Ev; [|reflexivity].
    cbv beta iota. apply c13_items; assumption. }
  eapply bind_eq; [exact Hit|]. cbv beta. reflexivity.
Qed.

(* out of range: the real code indexes the id column out of bounds; the model says Panic *)
Theorem c13_view_out_of_range : forall i, (length fs <= i)%nat -> exists n, frame_view v fr i = Panic n.
Proof.
  intros i Hi. exists 601%N. unfold frame_view, fr. rewrite c04_ids.
  rewrite at_row_none by (rewrite map_length; exact Hi). reflexivity.
Qed.

(* consequently the view succeeds exactly on the row indices of the history *)
Corollary c13_view_ok_iff : forall i, (exists w, frame_view v fr i = Ok w) <-> (i < length fs)%nat.
Proof.
  intro i. split.
  - intros (w & Hw). destruct (Nat.ltb_spec i (length fs)) as [Hlt|Hge]; [exact Hlt|].
    destruct (c13_view_out_of_range i Hge) as (n & Hn). rewrite Hn in Hw. discriminate Hw.
  - intro Hlt. destruct (nth_error fs i) as [f|] eqn:Ef.
    + exists (view_of f). apply c13_view_is_occurrence. exact Ef.
    + apply nth_error_None in Ef. lia.
Qed.

End C13.

(* ------------------------------------------------------------------------------------------------ *)
(* 3. for a whole file                                                                                *)
(* ------------------------------------------------------------------------------------------------ *)
Theorem c13_parsed_view r st h i f : wf_replay r = true -> game_start (r_start r) = ROk st ->
  nth_error (r_frames r) i = Some f ->
  exists g, slp_read {| o_skip := false; o_hash := h |} (emit r) = Ok (g, []) /\
            frame_view (r_ver r) (g_frames g) i = Ok (view_of (r_ver r) (port_occupancy st) f).
Proof.
  intros Hwf Hst Hi. destruct (c04_parsed r st h Hwf Hst) as (g & Hg & Hfr).
  exists g. split; [exact Hg|]. rewrite Hfr.
  apply c13_view_is_occurrence; [|exact Hi]. apply c04_parsed_wf; assumption.
Qed.

Theorem c13_parsed_view_out_of_range r st h i : wf_replay r = true -> game_start (r_start r) = ROk st ->
  (length (r_frames r) <= i)%nat ->
  exists g n, slp_read {| o_skip := false; o_hash := h |} (emit r) = Ok (g, []) /\
              frame_view (r_ver r) (g_frames g) i = Panic n.
Proof.
  intros Hwf Hst Hi. destruct (c04_parsed r st h Hwf Hst) as (g & Hg & Hfr).
  destruct (c13_view_out_of_range (r_ver r) (port_occupancy st) (r_frames r) i Hi) as (n & Hn).
  exists g, n. split; [exact Hg|]. rewrite Hfr. exact Hn.
Qed.

Print Assumptions c13_view_is_occurrence.
Print Assumptions c13_view_out_of_range.
Print Assumptions c13_view_ok_iff.
Print Assumptions c13_parsed_view.
Print Assumptions c13_parsed_view_out_of_range.
