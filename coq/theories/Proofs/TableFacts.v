(* Facts about the recorder's payload-size table and the row sizes, shared by the read and write proofs. *)
From Coq Require Import List Arith NArith ZArith Lia Bool String ZifyBool ZifyN ZifyNat.
From Coq.Strings Require Import Byte.
From Peppi Require Import Base.Bytes Base.Outcome Base.Stream Layout.Syntax Gen.Funs Layout.Sem Layout.Rows
  Model.Ubjson Model.Start Model.Json Model.Parse Model.Reader Model.Writer Model.Recorder
  Proofs.Framing Proofs.FrameStep Proofs.StartFacts.
Import ListNotations.
Notation length := (@List.length _) (only parsing).

Definition five : list string := ["Pre"; "Post"; "Start"; "End"; "Item"]%string.

Lemma tsize_filter f ls : (tsize (filter f ls) <= tsize ls)%nat.
Proof. induction ls as [|l r IH]; [apply le_n|]. cbn [filter tsize]. destruct (f l); cbn [tsize]; lia. Qed.

Lemma row_size_le v E : (row_size v E <= tsize (read_leaves E))%nat.
Proof. unfold row_size, row_leaves, leaves_at. apply tsize_filter. Qed.

Lemma full_sizes_small : forallb (fun E => (tsize (read_leaves E) <=? 1000)%nat) five = true.
Proof. vm_compute. reflexivity. Qed.

Lemma row_size_small v E : In E five -> (row_size v E <= 1000)%nat.
Proof.
  intro H. pose proof full_sizes_small as F. rewrite forallb_forall in F. specialize (F E H).
  apply Nat.leb_le in F. pose proof (row_size_le v E). lia.
Qed.

Lemma layout_small v : let L := layout_of v in
  (sz_pre L <= 1000 /\ sz_post L <= 1000 /\ sz_start L <= 1000 /\ sz_end L <= 1000 /\ sz_item L <= 1000)%nat.
Proof.
  cbn [layout_of sz_pre sz_post sz_start sz_end sz_item].
  repeat split; apply row_size_small; unfold five; cbn; tauto.
Qed.

Lemma game_End_size_bounds v : (1 <= game_End_size v <= 6)%N.
Proof. unfold game_End_size. destruct (slippi_Version_gte v 3 13); [lia|]. destruct (slippi_Version_gte v 2 0); lia. Qed.

Definition end_of (r : replay) : option end_t :=
  match end_blk r with Some b => match game_end b with ROk e => Some e | _ => None end | None => None end.

(* ---- wf_replay, unpacked ---- *)
Lemma wf_replay_inv r st : wf_replay r = true -> game_start (r_start r) = ROk st ->
  assert_max_version_ok (r_ver r) = true /\ (nn (length (r_start r)) <= 65535)%N /\
  Forall (fun f => wf_frame (r_ver r) (layout_of (r_ver r)) (slots_of (port_occupancy st)) f = true) (r_frames r) /\
  (vgte (r_ver r) 2 2 = false -> ids_from FIRST_INDEX (r_frames r) = true) /\
  wf_gecko (r_ver r) (r_gecko r) = true /\
  (forall b, end_blk r = Some b -> length b = N.to_nat (game_End_size (r_ver r)) /\ exists e, game_end b = ROk e) /\
  wf_meta (r_meta r) = true /\ (nn (length (raw_of r)) < 4294967296)%N.
Proof.
  unfold wf_replay. intros H Hst. rewrite Hst in H.
  do 7 (apply andb_true_iff in H as [H ?]).
  repeat split; try assumption.
  - apply N.leb_le. assumption.
  - apply Forall_forall. intros f Hf.
    match goal with Hx : forallb _ (r_frames r) = true |- _ => rewrite forallb_forall in Hx; apply Hx; exact Hf end.
  - intro Hv. match goal with Hx : (if vgte _ 2 2 then true else _) = true |- _ => rewrite Hv in Hx; exact Hx end.
  - match goal with Hx : match end_blk r with _ => _ end = true |- _ => rename Hx into He end.
    match goal with Hb : end_blk r = Some _ |- _ => rewrite Hb in He end.
    apply andb_true_iff in He as [He _]. apply Nat.eqb_eq in He. exact He.
  - match goal with Hx : match end_blk r with _ => _ end = true |- _ => rename Hx into He end.
    match goal with Hb : end_blk r = Some _ |- _ => rewrite Hb in He end.
    apply andb_true_iff in He as [_ He]. destruct (game_end b) as [e| |]; try discriminate. exists e. reflexivity.
  - apply N.ltb_lt. assumption.
Qed.

Lemma start_len blk st : game_start blk = ROk st -> (320 <= length blk)%nat.
Proof. unfold game_start. destruct (Nat.ltb_spec (length blk) 320); [discriminate|]. intros _. assumption. Qed.

Lemma wf_gecko_inv v c : wf_gecko v (Some c) = true ->
  vgte v 3 3 = true /\ (length (gk_bytes c) = 512 * (length (gk_bytes c) / 512))%nat /\ (0 < length (gk_bytes c) / 512)%nat /\
  (512 * (length (gk_bytes c) / 512 - 1) < N.to_nat (gk_actual c) <= 512 * (length (gk_bytes c) / 512))%nat /\
  (gk_actual c mod 65536 <> 0)%N.
Proof.
  unfold wf_gecko. intro H. do 5 (apply andb_true_iff in H as [H ?]).
  repeat match goal with
         | Hx : (_ =? _)%nat = true |- _ => apply Nat.eqb_eq in Hx
         | Hx : (_ <? _)%nat = true |- _ => apply Nat.ltb_lt in Hx
         | Hx : (_ <=? _)%nat = true |- _ => apply Nat.leb_le in Hx
         | Hx : negb _ = true |- _ => apply negb_true_iff in Hx
         | Hx : N.eqb _ _ = false |- _ => apply N.eqb_neq in Hx
         end.
  pose proof (Nat.div_mod (length (gk_bytes c)) 512 ltac:(lia)).
  repeat split; try assumption; lia.
Qed.

Lemma gte33_30 v : vgte v 3 3 = true -> vgte v 3 0 = true.
Proof. unfold vgte, slippi_Version_gte. intro H. apply orb_true_iff in H. apply orb_true_iff. destruct H as [H|H]; [left; exact H|right].
  apply andb_true_iff in H as [A B]. apply andb_true_iff. split; [exact A|]. apply N.leb_le in B. apply N.leb_le. lia. Qed.

(* ---- the recorder's table ---- *)
Section Table.
Variables (r : replay) (st : start_t).
Hypothesis Hwf : wf_replay r = true.
Hypothesis Hst : game_start (r_start r) = ROk st.

Let v := r_ver r.
Let L := layout_of v.

Lemma gecko_flag c : r_gecko r = Some c -> vgte v 3 3 = true /\ vgte v 3 0 = true /\ vgte v 2 2 = true.
Proof.
  intro Hg. destruct (wf_replay_inv r st Hwf Hst) as (_ & _ & _ & _ & Hgk & _).
  rewrite Hg in Hgk. apply wf_gecko_inv in Hgk as (H33 & _). pose proof (gte33_30 _ H33) as H30.
  repeat split; try assumption. apply gte30_22. exact H30.
Qed.

Lemma end_size : (0 < match end_blk r with Some b => nn (length b) | None => game_End_size v end < 65536)%N.
Proof.
  pose proof (game_End_size_bounds v).
  destruct (end_blk r) as [b|] eqn:Hb; [|lia].
  destruct (wf_replay_inv r st Hwf Hst) as (_ & _ & _ & _ & _ & He & _).
  destruct (He b Hb) as [Hl _]. unfold nn. fold v in Hl. lia.
Qed.

Lemma rec_table_ok : Forall entry_ok (rec_table r) /\ (length (rec_table r) <= 84)%nat /\ NoDup (map fst (rec_table r)).
Proof.
  pose proof (layout_small v) as (Hp & Hq & Hs & He & Hi). fold L in Hp, Hq, Hs, He, Hi.
  pose proof end_size as Hes. pose proof (start_len _ _ Hst) as Hsl.
  destruct (wf_replay_inv r st Hwf Hst) as (_ & Hsl2 & _ & _ & Hgk & _).
  unfold rec_table. fold v. fold L.
  assert (Hgz : forall c, r_gecko r = Some c -> (gk_actual c mod 65536 <> 0)%N).
  { intros c Hc. fold v in Hgk. rewrite Hc in Hgk. apply wf_gecko_inv in Hgk. tauto. }
  destruct (vgte v 2 2), (vgte v 3 0), (vgte v 3 3); destruct (r_gecko r) as [c|] eqn:Hg; cbn [app].
  all: try specialize (Hgz c eq_refl).
  all: unfold nn in *.
  all: split; [repeat (apply Forall_cons; [unfold entry_ok, nn; cbn [fst snd]; split; [reflexivity|
                         first [lia | pose proof (N.mod_lt (gk_actual c) 65536); lia]]|]); apply Forall_nil
              | split; [cbn [List.length]; lia | cbn [map fst]; repeat constructor; cbn; intuition discriminate]].
Qed.

Lemma lk_rev code : lookup_size (rev (rec_table r)) code = lookup_size (rec_table r) code.
Proof. apply lookup_rev. apply rec_table_ok. Qed.

Lemma lk_start : lookup_size (rec_table r) Event_GameStart = Some (nn (length (r_start r))).
Proof. reflexivity. Qed.
Lemma lk_pre : lookup_size (rec_table r) Event_FramePre = Some (nn (6 + sz_pre L)).
Proof. reflexivity. Qed.
Lemma lk_post : lookup_size (rec_table r) Event_FramePost = Some (nn (6 + sz_post L)).
Proof. reflexivity. Qed.
Lemma lk_end : lookup_size (rec_table r) Event_GameEnd
               = Some (match end_blk r with Some b => nn (length b) | None => game_End_size v end).
Proof. reflexivity. Qed.
Lemma lk_fstart : vgte v 2 2 = true -> lookup_size (rec_table r) Event_FrameStart = Some (nn (4 + sz_start L)).
Proof. intro H. unfold rec_table. fold v. rewrite H. reflexivity. Qed.
Lemma lk_item : vgte v 3 0 = true -> lookup_size (rec_table r) Event_Item = Some (nn (4 + sz_item L)).
Proof. intro H. unfold rec_table. fold v. rewrite H. destruct (vgte v 2 2); reflexivity. Qed.
Lemma lk_fend : vgte v 3 0 = true -> lookup_size (rec_table r) Event_FrameEnd = Some (nn (4 + sz_end L)).
Proof. intro H. unfold rec_table. fold v. rewrite H. destruct (vgte v 2 2); reflexivity. Qed.
Lemma lk_splitter c : r_gecko r = Some c -> lookup_size (rec_table r) Event_MessageSplitter = Some 516%N.
Proof.
  intro Hg. destruct (gecko_flag c Hg) as (H33 & H30 & H22). unfold rec_table. fold v. rewrite H33, H30, H22, Hg. reflexivity.
Qed.
End Table.
