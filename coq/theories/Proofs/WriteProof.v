(* C01, writer half: writing the game a well-formed replay denotes gives back the replay's canonical byte stream. *)
From Coq Require Import List Arith NArith ZArith Lia Bool String ZifyBool ZifyN ZifyNat.
From Coq.Strings Require Import Byte.
From Peppi Require Import Base.Bytes Base.Outcome Base.Stream Layout.Syntax Gen.Funs Layout.Sem Layout.Rows Layout.RowsTheory
  Model.Ubjson Model.Start Model.Json Model.Parse Model.Reader Model.Writer Model.Recorder
  Proofs.Framing Proofs.FrameStep Proofs.StartFacts Proofs.TableFacts Proofs.UbjsonProof.
Import ListNotations.
Notation length := (@List.length _) (only parsing).

(* end_of is defined in Proofs/TableFacts.v *)

(* ---- concat_out ---- *)
Lemma concat_out_app l1 l2 a b :
  concat_out l1 = Ok a -> concat_out l2 = Ok b -> concat_out (l1 ++ l2) = Ok (a ++ b).
Proof.
  revert a. induction l1 as [|x l1 IH]; intros a H1 H2.
  - cbn [concat_out] in H1. apply ok_inj in H1. subst a. exact H2.
  - cbn [app concat_out] in *. destruct x as [xa| | |]; cbn [bind] in *; try discriminate H1.
    destruct (concat_out l1) as [a'| | |]; cbn [bind] in *; try discriminate H1.
    apply ok_inj in H1. subst a. rewrite (IH a' eq_refl H2). cbn [bind]. rewrite app_assoc. reflexivity.
Qed.

Lemma concat_out_map {A} (f : A -> outcome (list byte)) (g : A -> list byte) l :
  (forall x, In x l -> f x = Ok (g x)) -> concat_out (map f l) = Ok (flat_map g l).
Proof.
  induction l as [|x l IH]; intro H; [reflexivity|].
  cbn [map concat_out flat_map]. rewrite (H x (or_introl eq_refl)). cbn [bind].
  rewrite IH by (intros y Hy; apply H; right; exact Hy). reflexivity.
Qed.

Lemma concat_out_ext {A} (f f' : A -> outcome (list byte)) l :
  (forall x, In x l -> f x = f' x) -> concat_out (map f l) = concat_out (map f' l).
Proof. intro H. f_equal. apply map_ext_in. exact H. Qed.

(* ---- row_at / valid_at on extended columns ---- *)
Lemma row_at_app1 (rows more : list row) i : (i < length rows)%nat -> row_at (rows ++ more) i = row_at rows i.
Proof. intro H. unfold row_at. rewrite nth_error_app1 by exact H. reflexivity. Qed.

Lemma row_at_new (rows : list row) x more : row_at (rows ++ x :: more) (length rows) = Ok x.
Proof. unfold row_at. rewrite nth_error_app2 by lia. rewrite Nat.sub_diag. reflexivity. Qed.

Lemma row_at_ok_app (rows more : list row) i x : row_at rows i = Ok x -> row_at (rows ++ more) i = Ok x.
Proof.
  unfold row_at. destruct (nth_error rows i) as [y|] eqn:E; [|discriminate].
  intro H. rewrite nth_error_app1 by (apply nth_error_Some; congruence). rewrite E. exact H.
Qed.

Lemma fol_add L c o : sl_fol (add_slot L c o) = sl_fol c. Proof. reflexivity. Qed.
Lemma port_add L c o : sl_port (add_slot L c o) = sl_port c. Proof. reflexivity. Qed.

Lemma pre_add L c o :
  c_pre (sl_data (add_slot L c o))
  = c_pre (sl_data c) ++ [match o with Some (p, _) => p | None => repeat x00 (sz_pre L) end].
Proof. destruct o as [[p q]|]; reflexivity. Qed.

Lemma post_add L c o :
  c_post (sl_data (add_slot L c o))
  = c_post (sl_data c) ++ [match o with Some (_, q) => q | None => repeat x00 (sz_post L) end].
Proof. destruct o as [[p q]|]; reflexivity. Qed.

Lemma valid_add_old L c o n i : cinv n (sl_data c) -> (i < n)%nat ->
  valid_at (c_valid (sl_data (add_slot L c o))) i = valid_at (c_valid (sl_data c)) i.
Proof.
  intros (H1 & H2 & H3) Hi. unfold add_slot. destruct o as [[p q]|]; cbn [sl_data c_valid data_push_null].
  - destruct (c_valid (sl_data c)) as [b|] eqn:E; cbn [option_map valid_at]; [|reflexivity].
    rewrite nth_error_app1 by (rewrite (H3 b eq_refl); exact Hi). reflexivity.
  - destruct (c_valid (sl_data c)) as [b|] eqn:E; cbn [valid_at].
    + rewrite nth_error_app1 by (rewrite (H3 b eq_refl); exact Hi). reflexivity.
    + rewrite nth_error_app1 by (rewrite repeat_length, H1; exact Hi).
      rewrite nth_error_repeat by (rewrite H1; exact Hi). reflexivity.
Qed.

Lemma valid_add_new L c o n : cinv n (sl_data c) ->
  valid_at (c_valid (sl_data (add_slot L c o))) n = Ok (match o with Some _ => true | None => false end).
Proof.
  intros (H1 & H2 & H3). unfold add_slot. destruct o as [[p q]|]; cbn [sl_data c_valid data_push_null].
  - destruct (c_valid (sl_data c)) as [b|] eqn:E; cbn [option_map valid_at]; [|reflexivity].
    rewrite nth_error_app2 by (rewrite (H3 b eq_refl); lia). rewrite (H3 b eq_refl), Nat.sub_diag. reflexivity.
  - cbn [valid_at].
    assert (Hl : length (match c_valid (sl_data c) with Some b => b | None => repeat true (length (c_pre (sl_data c))) end) = n).
    { destruct (c_valid (sl_data c)) as [b|]; [apply H3; reflexivity|rewrite repeat_length; exact H1]. }
    rewrite nth_error_app2 by lia. rewrite Hl, Nat.sub_diag. reflexivity.
Qed.

Section Cols.
Variable v : version.
Let L := layout_of v.

Lemma wr_pre p : length p = sz_pre L -> write_row v "Pre" p = p.
Proof. intro H. apply write_row_id_frames; [cbn; tauto|exact H]. Qed.
Lemma wr_post p : length p = sz_post L -> write_row v "Post" p = p.
Proof. intro H. apply write_row_id_frames; [cbn; tauto|exact H]. Qed.
Lemma wr_start p : length p = sz_start L -> write_row v "Start" p = p.
Proof. intro H. apply write_row_id_frames; [cbn; tauto|exact H]. Qed.
Lemma wr_end p : length p = sz_end L -> write_row v "End" p = p.
Proof. intro H. apply write_row_id_frames; [cbn; tauto|exact H]. Qed.
Lemma wr_item p : length p = sz_item L -> write_row v "Item" p = p.
Proof. intro H. apply write_row_id_frames; [cbn; tauto|exact H]. Qed.

Lemma write_slot_old pre L' c o n i id : cinv n (sl_data c) -> (i < n)%nat ->
  write_slot v pre (add_slot L' c o) i id = write_slot v pre c i id.
Proof.
  intros Hc Hi. pose proof Hc as (H1 & H2 & _).
  unfold write_slot, write_char. rewrite fol_add, port_add, (valid_add_old L' c o n i Hc Hi).
  assert (Hr : row_at (if pre then c_pre (sl_data (add_slot L' c o)) else c_post (sl_data (add_slot L' c o))) i
               = row_at (if pre then c_pre (sl_data c) else c_post (sl_data c)) i).
  { destruct pre; [rewrite pre_add|rewrite post_add]; apply row_at_app1; lia. }
  rewrite Hr. reflexivity.
Qed.

Lemma write_slot_new pre c o n id : cinv n (sl_data c) -> rows_ok L o ->
  write_slot v pre (add_slot L c o) n id = Ok (emit_char pre id (sl_port c, sl_fol c) o).
Proof.
  intros Hc Ho. pose proof Hc as (H1 & H2 & _).
  unfold write_slot, write_char. rewrite fol_add, port_add, (valid_add_new L c o n Hc).
  destruct o as [[p q]|]; cbn [bind emit_char fst snd].
  - destruct Ho as [Hp Hq].
    assert (Hr : row_at (if pre then c_pre (sl_data (add_slot L c (Some (p, q)))) else c_post (sl_data (add_slot L c (Some (p, q))))) n
                 = Ok (if pre then p else q)).
    { destruct pre; [rewrite pre_add, <- H1|rewrite post_add, <- H2]; apply row_at_new. }
    rewrite Hr. cbn [bind].
    assert (Hw : write_row v (if pre then "Pre" else "Post")%string (if pre then p else q) = (if pre then p else q)).
    { destruct pre; [apply wr_pre|apply wr_post]; assumption. }
    rewrite Hw. destruct (sl_fol c); reflexivity.
  - destruct (sl_fol c); reflexivity.
Qed.


Lemma chars_old pre L' n i id : forall chars os,
  Forall (fun c => cinv n (sl_data c)) chars -> length chars = length os -> (i < n)%nat ->
  map (fun c => write_slot v pre c i id) (map2 (add_slot L') chars os) = map (fun c => write_slot v pre c i id) chars.
Proof.
  induction chars as [|c cs IH]; intros [|o os] Hinv Hlen Hi; cbn [length] in Hlen; try discriminate Hlen; [reflexivity|].
  inversion Hinv as [|? ? Hc Hinv']; subst. cbn [map2 map]. f_equal.
  - apply (write_slot_old pre L' c o n i id Hc Hi).
  - apply IH; [exact Hinv'|lia|exact Hi].
Qed.

Lemma chars_new pre n id : forall chars os,
  Forall (fun c => cinv n (sl_data c)) chars -> length chars = length os -> Forall (rows_ok L) os ->
  concat_out (map (fun c => write_slot v pre c n id) (map2 (add_slot L) chars os)) = Ok (emit_chars pre id (tags chars) os).
Proof.
  induction chars as [|c cs IH]; intros [|o os] Hinv Hlen Hrows; cbn [length] in Hlen; try discriminate Hlen; [reflexivity|].
  inversion Hinv as [|? ? Hc Hinv']; subst. inversion Hrows as [|? ? Ho Hrows']; subst.
  cbn [map2 map concat_out]. rewrite (write_slot_new pre c o n id Hc Ho). cbn [bind].
  rewrite (IH os Hinv') by (try lia; exact Hrows'). cbn [bind].
  unfold emit_chars. cbn [tags map combine flat_map fst snd]. reflexivity.
Qed.

Lemma concat_out_mono {A} (f f' : A -> outcome (list byte)) l :
  (forall x o, In x l -> f x = Ok o -> f' x = Ok o) ->
  forall out, concat_out (map f l) = Ok out -> concat_out (map f' l) = Ok out.
Proof.
  induction l as [|x l IH]; intros H out Hc; [exact Hc|].
  cbn [map concat_out] in *. destruct (f x) as [a| | |] eqn:E; cbn [bind] in Hc; try discriminate Hc.
  rewrite (H x a (or_introl eq_refl) E). cbn [bind].
  destruct (concat_out (map f l)) as [b| | |] eqn:E2; cbn [bind] in Hc; try discriminate Hc.
  rewrite (IH (fun y o Hy => H y o (or_intror Hy)) b eq_refl). cbn [bind]. exact Hc.
Qed.

Lemma items_mono (g : row -> list byte) items more l out :
  concat_out (map (fun k => r <- row_at items k ;; Ok (g r)) l) = Ok out ->
  concat_out (map (fun k => r <- row_at (items ++ more) k ;; Ok (g r)) l) = Ok out.
Proof.
  apply concat_out_mono. intros k o _ H.
  destruct (row_at items k) as [x| | |] eqn:E; cbn [bind] in H; try discriminate H.
  rewrite (row_at_ok_app items more k x E). cbn [bind]. exact H.
Qed.

Lemma items_new (g : row -> list byte) : forall its items,
  concat_out (map (fun k => r <- row_at (items ++ its) k ;; Ok (g r)) (seq (length items) (length its)))
  = Ok (flat_map g its).
Proof.
  induction its as [|it its IH]; intro items; [reflexivity|].
  cbn [length seq map concat_out flat_map]. rewrite row_at_new. cbn [bind].
  specialize (IH (items ++ [it])). rewrite <- app_assoc in IH. cbn [app] in IH.
  rewrite app_length in IH. cbn [length] in IH. rewrite Nat.add_1_r in IH. rewrite IH. reflexivity.
Qed.

Lemma combine_snoc {A B} (l : list A) (m : list B) x y :
  length l = length m -> combine (l ++ [x]) (m ++ [y]) = combine l m ++ [(x, y)].
Proof.
  revert m. induction l as [|a l IH]; intros [|b m] H; cbn [length] in H; try discriminate H; [reflexivity|].
  cbn [app combine]. f_equal. apply IH. lia.
Qed.

(* ---- the invariant of the columns built by add_frame ---- *)
Variable slots : list (N * bool).

Record winv (fr : frames) : Prop := {
  wi_shape : shape v fr;
  wi_finv : finv fr;
  wi_tags : tags (f_chars fr) = slots;
  wi_start : forall rows, f_start fr = Some rows -> length rows = length (f_ids fr);
  wi_end : forall rows, f_end fr = Some rows -> length rows = length (f_ids fr);
  wi_off : forall offs items, f_item_off fr = Some offs -> f_item fr = Some items ->
      length offs = S (length (f_ids fr)) /\ nth_error offs (length (f_ids fr)) = Some (Z.of_nat (length items))
}.

Lemma chars_len fr f : winv fr -> wf_frame v L slots f = true -> length (f_chars fr) = length (af_slots f).
Proof.
  intros W Hf. apply wf_frame_inv in Hf as (_ & _ & _ & _ & Hl & _).
  rewrite Hl, <- (wi_tags fr W). unfold tags. rewrite map_length. reflexivity.
Qed.

Lemma winv_add fr f : winv fr -> wf_frame v L slots f = true -> winv (add_frame v L fr f).
Proof.
  intros W Hf. pose proof (chars_len fr f W Hf) as Hlen. destruct W as [W1 W2 W3 W4 W5 W6]. constructor.
  - apply shape_add. exact W1.
  - apply finv_add; assumption.
  - cbn [add_frame f_chars]. rewrite tags_add by exact Hlen. exact W3.
  - intros rows Hr. cbn [add_frame f_start f_ids] in *. destruct (f_start fr) as [rows0|]; [|discriminate Hr].
    cbn [option_map] in Hr. injection Hr as <-. rewrite !app_length. f_equal. exact (W4 rows0 eq_refl).
  - intros rows Hr. cbn [add_frame f_end f_ids] in *. destruct (f_end fr) as [rows0|]; [|discriminate Hr].
    cbn [option_map] in Hr. injection Hr as <-. rewrite !app_length. f_equal. exact (W5 rows0 eq_refl).
  - intros offs items Ho Hi. cbn [add_frame f_item_off f_item f_ids] in *.
    destruct (f_item fr) as [items0|]; [|discriminate Hi]. cbn [option_map] in Hi. injection Hi as <-.
    destruct (f_item_off fr) as [offs0|]; [|discriminate Ho]. injection Ho as <-.
    destruct (W6 offs0 items0 eq_refl eq_refl) as [Hl _].
    rewrite !app_length. cbn [length]. split; [lia|].
    rewrite nth_error_app2 by lia. replace (length (f_ids fr) + 1 - length offs0)%nat with O by lia.
    cbn [nth_error]. reflexivity.
Qed.

Lemma finv_new ports : finv (frames_new v ports).
Proof.
  unfold finv, frames_new. cbn [f_ids f_chars length]. apply Forall_forall. intros c Hc.
  apply in_flat_map in Hc as (p & _ & Hc).
  assert (E : sl_data c = empty_cdata).
  { destruct Hc as [<-|Hc]; [reflexivity|]. destruct (snd p); [|destruct Hc]. destruct Hc as [<-|[]]. reflexivity. }
  rewrite E. unfold cinv, empty_cdata. cbn. repeat split. intros b Hb. discriminate Hb.
Qed.

Lemma tags_new ports : tags (f_chars (frames_new v ports)) = slots_of ports.
Proof.
  unfold frames_new, slots_of, tags. cbn [f_chars].
  induction ports as [|[p ic] ports IH]; [reflexivity|].
  cbn [flat_map fst snd]. rewrite map_app, IH. f_equal. destruct ic; reflexivity.
Qed.

Lemma winv_new ports : slots = slots_of ports -> winv (frames_new v ports).
Proof.
  intro Hs. constructor.
  - apply shape_new.
  - apply finv_new.
  - rewrite Hs. apply tags_new.
  - unfold frames_new. cbn [f_start f_ids]. intros rows Hr. destruct (vgte v 2 2); [|discriminate Hr]. injection Hr as <-. reflexivity.
  - unfold frames_new. cbn [f_end f_ids]. intros rows Hr. destruct (vgte v 3 0); [|discriminate Hr]. injection Hr as <-. reflexivity.
  - unfold frames_new. cbn [f_item_off f_item f_ids]. intros offs items Ho Hi.
    destruct (vgte v 3 0); [|discriminate Ho]. injection Ho as <-. injection Hi as <-. split; reflexivity.
Qed.

(* ---- write_frame in parts ---- *)
Definition wf_s (fr : frames) (idx : nat) (id : Z) : outcome (list byte) :=
  if vgte v 2 2 then
    match f_start fr with
    | Some rows => r <- row_at rows idx ;; Ok (ev Event_FrameStart ++ i32_bytes id ++ write_row v "Start" r)
    | None => Panic 408
    end
  else Ok [].
Definition wf_i (fr : frames) (idx : nat) (id : Z) : outcome (list byte) :=
  if vgte v 3 0 then
    match f_item_off fr, f_item fr with
    | Some offs, Some items =>
        match nth_error offs idx, nth_error offs (S idx) with
        | Some a, Some b =>
            concat_out (map (fun k => r <- row_at items k ;;
                                      Ok (ev Event_Item ++ i32_bytes id ++ write_row v "Item" r))
                            (seq (Z.to_nat a) (Z.to_nat b - Z.to_nat a)))
        | _, _ => Panic 409
        end
    | _, _ => Panic 410
    end
  else Ok [].
Definition wf_e (fr : frames) (idx : nat) (id : Z) : outcome (list byte) :=
  if vgte v 3 0 then
    match f_end fr with
    | Some rows => r <- row_at rows idx ;; Ok (ev Event_FrameEnd ++ i32_bytes id ++ write_row v "End" r)
    | None => Panic 411
    end
  else Ok [].

Lemma write_frame_parts fr idx id :
  write_frame v fr idx id
  = (s <- wf_s fr idx id ;;
     pres <- concat_out (map (fun c => write_slot v true c idx id) (f_chars fr)) ;;
     its <- wf_i fr idx id ;;
     posts <- concat_out (map (fun c => write_slot v false c idx id) (f_chars fr)) ;;
     e <- wf_e fr idx id ;;
     Ok (s ++ pres ++ its ++ posts ++ e)).
Proof. reflexivity. Qed.

Section Step.
Variables (fr : frames) (f : aframe).
Hypothesis W : winv fr.
Hypothesis Hf : wf_frame v L slots f = true.
Let n := length (f_ids fr).
Let fr' := add_frame v L fr f.

Lemma wf_s_old i id : (i < n)%nat -> wf_s fr' i id = wf_s fr i id.
Proof.
  intro Hi. unfold wf_s, fr'. cbn [add_frame f_start]. destruct (vgte v 2 2); [|reflexivity].
  destruct (f_start fr) as [rows|] eqn:E; [|reflexivity]. cbn [option_map].
  rewrite row_at_app1 by (rewrite (wi_start fr W rows E); exact Hi). reflexivity.
Qed.

Lemma wf_e_old i id : (i < n)%nat -> wf_e fr' i id = wf_e fr i id.
Proof.
  intro Hi. unfold wf_e, fr'. cbn [add_frame f_end]. destruct (vgte v 3 0); [|reflexivity].
  destruct (f_end fr) as [rows|] eqn:E; [|reflexivity]. cbn [option_map].
  rewrite row_at_app1 by (rewrite (wi_end fr W rows E); exact Hi). reflexivity.
Qed.

Lemma wf_i_old i id out : (i < n)%nat -> wf_i fr i id = Ok out -> wf_i fr' i id = Ok out.
Proof.
  intros Hi. unfold wf_i, fr'. cbn [add_frame f_item_off f_item]. destruct (vgte v 3 0); [|intro H; exact H].
  destruct (f_item_off fr) as [offs|] eqn:Eo; [|intro H; exact H].
  destruct (f_item fr) as [items|] eqn:Ei; [|intro H; exact H]. cbn [option_map].
  destruct (wi_off fr W offs items Eo Ei) as [Hl _]. fold n in Hl.
  rewrite !nth_error_app1 by lia.
  destruct (nth_error offs i) as [a|]; [|intro H; exact H].
  destruct (nth_error offs (S i)) as [b|]; [|intro H; exact H].
  apply items_mono.
Qed.

Lemma chars_old' pre i id : (i < n)%nat ->
  map (fun c => write_slot v pre c i id) (f_chars fr') = map (fun c => write_slot v pre c i id) (f_chars fr).
Proof.
  intro Hi. unfold fr'. cbn [add_frame f_chars].
  apply (chars_old pre L n i id); [exact (wi_finv fr W)|exact (chars_len fr f W Hf)|exact Hi].
Qed.

Lemma write_frame_old i id out : (i < n)%nat -> write_frame v fr i id = Ok out -> write_frame v fr' i id = Ok out.
Proof.
  intros Hi. rewrite !write_frame_parts.
  rewrite (wf_s_old i id Hi), (wf_e_old i id Hi), !(chars_old' _ i id Hi).
  destruct (wf_s fr i id) as [s| | |]; cbn [bind]; try (intro H; exact H).
  destruct (concat_out (map (fun c => write_slot v true c i id) (f_chars fr))) as [pres| | |]; cbn [bind]; try (intro H; exact H).
  destruct (wf_i fr i id) as [its| | |] eqn:E; cbn [bind]; try (intro H; discriminate H).
  rewrite (wf_i_old i id its Hi E). cbn [bind]. intro H; exact H.
Qed.

Lemma write_frame_new : write_frame v fr' n (af_id f) = Ok (emit_frame v slots f).
Proof.
  pose proof (wf_frame_inv _ _ _ _ Hf) as (Hid & Hls & Hle & Hits & Hlsl & Hrows & _).
  pose proof (chars_len fr f W Hf) as Hlen. destruct W as [W1 W2 W3 W4 W5 W6]. destruct W1 as [S1 S2 S3 S4].
  rewrite write_frame_parts.
  assert (Es : wf_s fr' n (af_id f) = Ok (if vgte v 2 2 then ev Event_FrameStart ++ i32_bytes (af_id f) ++ af_start f else [])).
  { unfold wf_s, fr'. cbn [add_frame f_start]. destruct (vgte v 2 2) eqn:E22; [|reflexivity].
    destruct (f_start fr) as [rows|] eqn:E; [|congruence]. cbn [option_map]. unfold n. rewrite <- (W4 rows eq_refl).
    rewrite row_at_new. cbn [bind]. rewrite wr_start by exact Hls. reflexivity. }
  assert (Ee : wf_e fr' n (af_id f) = Ok (if vgte v 3 0 then ev Event_FrameEnd ++ i32_bytes (af_id f) ++ af_end f else [])).
  { unfold wf_e, fr'. cbn [add_frame f_end]. destruct (vgte v 3 0) eqn:E30; [|reflexivity].
    destruct (f_end fr) as [rows|] eqn:E; [|congruence]. cbn [option_map]. unfold n. rewrite <- (W5 rows eq_refl).
    rewrite row_at_new. cbn [bind]. rewrite wr_end by exact Hle. reflexivity. }
  assert (Ei : wf_i fr' n (af_id f)
               = Ok (if vgte v 3 0 then flat_map (fun it => ev Event_Item ++ i32_bytes (af_id f) ++ it) (af_items f) else [])).
  { unfold wf_i, fr'. cbn [add_frame f_item_off f_item]. destruct (vgte v 3 0) eqn:E30; [|reflexivity].
    destruct (f_item_off fr) as [offs|] eqn:Eo; [|congruence].
    destruct (f_item fr) as [items|] eqn:Eit; [|congruence]. cbn [option_map].
    destruct (W6 offs items eq_refl eq_refl) as [Hl Hn]. fold n in Hl, Hn.
    rewrite nth_error_app1 by lia. rewrite Hn.
    rewrite nth_error_app2 by lia. replace (S n - length offs)%nat with O by lia. cbn [nth_error].
    rewrite !Nat2Z.id. replace (length items + length (af_items f) - length items)%nat with (length (af_items f)) by lia.
    rewrite (items_new (fun r => ev Event_Item ++ i32_bytes (af_id f) ++ write_row v "Item" r)).
    f_equal. rewrite !flat_map_concat_map. f_equal. apply map_ext_in. intros it Hin.
    rewrite Forall_forall in Hits. rewrite wr_item by (apply Hits; exact Hin). reflexivity. }
  rewrite Es, Ei, Ee. cbn [bind]. unfold fr'. cbn [add_frame f_chars].
  rewrite !(chars_new _ n (af_id f) (f_chars fr) (af_slots f) W2 Hlen Hrows). cbn [bind].
  rewrite W3. reflexivity.
Qed.

Lemma write_frames_add out : write_frames v fr = Ok out -> write_frames v fr' = Ok (out ++ emit_frame v slots f).
Proof.
  unfold write_frames. intro H.
  assert (E : combine (seq 0 (length (f_ids fr'))) (f_ids fr') = combine (seq 0 n) (f_ids fr) ++ [(n, af_id f)]).
  { unfold fr'. cbn [add_frame f_ids]. rewrite app_length. cbn [length]. fold n. rewrite Nat.add_1_r, seq_S.
    apply combine_snoc. rewrite seq_length. reflexivity. }
  rewrite E, map_app. apply concat_out_app.
  - revert H. apply concat_out_mono. intros [i id] o Hin. cbn [fst snd].
    apply write_frame_old. apply in_combine_l in Hin. apply in_seq in Hin. lia.
  - cbn [map concat_out fst snd]. rewrite write_frame_new. cbn [bind]. rewrite app_nil_r. reflexivity.
Qed.
End Step.

Lemma write_frames_fold : forall fs fr out,
  winv fr -> Forall (fun f => wf_frame v L slots f = true) fs -> write_frames v fr = Ok out ->
  write_frames v (fold_left (add_frame v L) fs fr) = Ok (out ++ flat_map (emit_frame v slots) fs).
Proof.
  induction fs as [|f fs IH]; intros fr out W Hfs H.
  - cbn [fold_left flat_map]. rewrite app_nil_r. exact H.
  - inversion Hfs as [|? ? Hf Hfs']; subst. cbn [fold_left flat_map].
    rewrite (IH (add_frame v L fr f) (out ++ emit_frame v slots f)).
    + rewrite <- app_assoc. reflexivity.
    + apply winv_add; assumption.
    + exact Hfs'.
    + apply write_frames_add; assumption.
Qed.

Lemma winv_fold : forall fs fr,
  winv fr -> Forall (fun f => wf_frame v L slots f = true) fs -> winv (fold_left (add_frame v L) fs fr).
Proof.
  induction fs as [|f fs IH]; intros fr W Hfs; [exact W|].
  inversion Hfs as [|? ? Hf Hfs']; subst. cbn [fold_left]. apply IH; [apply winv_add; assumption|exact Hfs'].
Qed.

End Cols.

(* ---- the Gecko blob ---- *)
Lemma gecko_blocks_ok c K :
  length (gk_bytes c) = (512 * K)%nat -> (0 < K)%nat ->
  (512 * (K - 1) < N.to_nat (gk_actual c) <= 512 * K)%nat ->
  forall k fuel pos, (pos + 512 * k = 512 * K)%nat -> (k < fuel)%nat ->
  gecko_blocks fuel pos c = Ok (emit_gecko k pos c).
Proof.
  intros Hlen HK Hact. induction k as [|k IH]; intros fuel pos Hpos Hfuel;
    (destruct fuel as [|fuel]; [lia|]); cbn [gecko_blocks emit_gecko].
  - destruct (Nat.ltb_spec pos (N.to_nat (gk_actual c))); [lia|reflexivity].
  - destruct (Nat.ltb_spec pos (N.to_nat (gk_actual c))); [|lia].
    destruct (Nat.ltb_spec (length (gk_bytes c)) (pos + 512)); [lia|].
    rewrite (IH fuel (pos + 512)%nat) by lia. cbn [bind].
    destruct (Nat.leb_spec (N.to_nat (gk_actual c)) (pos + 512)), (Nat.eqb_spec k 0); try lia; reflexivity.
Qed.

Lemma emit_gecko_length c : forall k pos, (pos + 512 * k <= length (gk_bytes c))%nat ->
  length (emit_gecko k pos c) = (517 * k)%nat.
Proof.
  induction k as [|k IH]; intros pos H; cbn [emit_gecko]; [reflexivity|].
  rewrite !app_length, firstn_length, skipn_length, length_be_enc, IH by lia. unfold ev. cbn [length]. lia.
Qed.

(* ---- counting ---- *)
Fixpoint csome (os : list (option (list byte * list byte))) : nat :=
  match os with [] => O | Some _ :: r => S (csome r) | None :: r => csome r end.

Definition fdn (n : nat) (chars : list slot) : nat :=
  list_sum (map (fun c => n - unset_bits (c_valid (sl_data c)))%nat chars).

Lemma filter_le {A} (f : A -> bool) l : (length (filter f l) <= length l)%nat.
Proof. induction l as [|a l IH]; [apply le_n|]. cbn [filter]. destruct (f a); cbn [length]; lia. Qed.

Lemma filter_negb_true n : filter negb (repeat true n) = [].
Proof. induction n as [|n IH]; [reflexivity|]. cbn [repeat filter negb]. exact IH. Qed.

Lemma unset_le n d : cinv n d -> (unset_bits (c_valid d) <= n)%nat.
Proof.
  intros (_ & _ & H3). unfold unset_bits. destruct (c_valid d) as [b|]; [|lia].
  rewrite <- (H3 b eq_refl). apply filter_le.
Qed.

Lemma unset_add L c o :
  unset_bits (c_valid (sl_data (add_slot L c o)))
  = (unset_bits (c_valid (sl_data c)) + match o with Some _ => 0 | None => 1 end)%nat.
Proof.
  unfold add_slot, unset_bits. destruct o as [[p q]|]; cbn [sl_data c_valid data_push_null].
  - destruct (c_valid (sl_data c)) as [b|]; cbn [option_map]; [|reflexivity].
    rewrite filter_app, app_length. cbn [filter negb length]. reflexivity.
  - rewrite filter_app, app_length. cbn [filter negb length].
    destruct (c_valid (sl_data c)) as [b|]; [reflexivity|]. rewrite filter_negb_true. reflexivity.
Qed.

Lemma fdn_cons n c cs : fdn n (c :: cs) = ((n - unset_bits (c_valid (sl_data c))) + fdn n cs)%nat.
Proof. reflexivity. Qed.

Lemma fdn_add L n : forall chars os, Forall (fun c => cinv n (sl_data c)) chars -> length chars = length os ->
  fdn (S n) (map2 (add_slot L) chars os) = (fdn n chars + csome os)%nat.
Proof.
  induction chars as [|c cs IH]; intros [|o os] Hinv Hlen; cbn [length] in Hlen; try discriminate Hlen; [reflexivity|].
  inversion Hinv as [|? ? Hc Hinv']; subst. cbn [map2]. rewrite !fdn_cons.
  rewrite (IH os Hinv') by lia. rewrite unset_add. pose proof (unset_le n _ Hc).
  destruct o as [[p q]|]; cbn [csome]; lia.
Qed.

Lemma fold_counts n : forall chars a, Forall (fun c => cinv n (sl_data c)) chars ->
  fold_left (fun acc c => a <- acc ;;
                          l <- (if (n <? unset_bits (c_valid (sl_data c)))%nat then Panic 402
                                else Ok (n - unset_bits (c_valid (sl_data c)))%nat) ;;
                          Ok (a + l)%nat) chars (Ok a)
  = Ok (a + fdn n chars)%nat.
Proof.
  induction chars as [|c cs IH]; intros a Hinv; cbn [fold_left]; [unfold fdn; cbn [map list_sum]; rewrite Nat.add_0_r; reflexivity|].
  inversion Hinv as [|? ? Hc Hinv']; subst. pose proof (unset_le n _ Hc). rewrite fdn_cons.
  cbn [bind]. destruct (Nat.ltb_spec n (unset_bits (c_valid (sl_data c)))); [lia|]. cbn [bind].
  rewrite (IH _ Hinv'). f_equal. lia.
Qed.

Definition nfd (fr : frames) : nat := fdn (length (f_ids fr)) (f_chars fr).
Definition nit (fr : frames) : nat := match f_item fr with Some it => length it | None => O end.

Lemma frame_counts_eq fr : finv fr -> frame_counts fr = Ok (nn (length (f_ids fr)), nn (nfd fr), nn (nit fr)).
Proof.
  intro Hinv. unfold frame_counts. cbv zeta. rewrite (fold_counts _ _ O Hinv). cbn [bind].
  unfold nfd, nit. cbn [Nat.add]. destruct (f_item fr); reflexivity.
Qed.

Section Counts.
Variable v : version.
Let L := layout_of v.
Variable slots : list (N * bool).

Definition sum_some (fs : list aframe) : nat := list_sum (map (fun f => csome (af_slots f)) fs).
Definition sum_items (fs : list aframe) : nat := list_sum (map (fun f => length (af_items f)) fs).

Lemma sum_some_cons f fs : sum_some (f :: fs) = (csome (af_slots f) + sum_some fs)%nat. Proof. reflexivity. Qed.
Lemma sum_items_cons f fs : sum_items (f :: fs) = (length (af_items f) + sum_items fs)%nat. Proof. reflexivity. Qed.
Lemma sum_some_nil : sum_some [] = O. Proof. reflexivity. Qed.
Lemma sum_items_nil : sum_items [] = O. Proof. reflexivity. Qed.

Lemma counts_add fr f : winv v slots fr -> wf_frame v L slots f = true ->
  length (f_ids (add_frame v L fr f)) = S (length (f_ids fr)) /\
  nfd (add_frame v L fr f) = (nfd fr + csome (af_slots f))%nat /\
  nit (add_frame v L fr f) = (nit fr + length (af_items f))%nat.
Proof.
  intros W Hf. pose proof (chars_len v slots fr f W Hf) as Hlen.
  pose proof (wf_frame_inv _ _ _ _ Hf) as (_ & _ & _ & Hits & _).
  destruct W as [[S1 S2 S3 S4] W2 W3 W4 W5 W6].
  unfold nfd, nit. cbn [add_frame f_ids f_chars f_item]. rewrite app_length. cbn [length]. rewrite Nat.add_1_r.
  repeat split.
  - apply fdn_add; assumption.
  - destruct (f_item fr) as [items|]; cbn [option_map].
    + rewrite app_length. reflexivity.
    + fold L in Hits. rewrite S3 in Hits. rewrite Hits. reflexivity.
Qed.

Lemma counts_fold : forall fs fr, winv v slots fr -> Forall (fun f => wf_frame v L slots f = true) fs ->
  length (f_ids (fold_left (add_frame v L) fs fr)) = (length (f_ids fr) + length fs)%nat /\
  nfd (fold_left (add_frame v L) fs fr) = (nfd fr + sum_some fs)%nat /\
  nit (fold_left (add_frame v L) fs fr) = (nit fr + sum_items fs)%nat.
Proof.
  induction fs as [|f fs IH]; intros fr W Hfs; cbn [fold_left length];
    [rewrite sum_some_nil, sum_items_nil; repeat split; lia|].
  inversion Hfs as [|? ? Hf Hfs']; subst. rewrite sum_some_cons, sum_items_cons.
  destruct (counts_add fr f W Hf) as (A1 & A2 & A3).
  destruct (IH (add_frame v L fr f) (winv_add v slots fr f W Hf) Hfs') as (B1 & B2 & B3).
  rewrite B1, B2, B3, A1, A2, A3. repeat split; lia.
Qed.

(* ---- lengths of the canonical frame bytes ---- *)
Lemma i32_len z : length (i32_bytes z) = 4%nat.
Proof. apply length_be_enc. Qed.

Lemma emit_chars_length pre id : forall (sl : list (N * bool)) os, length os = length sl -> Forall (rows_ok L) os ->
  length (emit_chars pre id sl os) = (csome os * (7 + (if pre then sz_pre L else sz_post L)))%nat.
Proof.
  unfold emit_chars. induction sl as [|s sl IH]; intros [|o os] Hlen Hrows; cbn [length] in Hlen; try discriminate Hlen; [reflexivity|].
  inversion Hrows as [|? ? Ho Hrows']; subst. cbn [combine flat_map fst snd]. rewrite app_length, (IH os) by (try lia; exact Hrows').
  destruct o as [[p q]|]; cbn [emit_char csome]; [|cbn [length]; lia].
  destruct Ho as [Hp Hq]. rewrite !app_length, i32_len. unfold ev. cbn [length].
  destruct pre; lia.
Qed.

Lemma items_length id its : Forall (fun it => length it = sz_item L) its ->
  length (flat_map (fun it => ev Event_Item ++ i32_bytes id ++ it) its) = (length its * (5 + sz_item L))%nat.
Proof.
  induction its as [|it its IH]; intro H; [reflexivity|]. inversion H as [|? ? Hi H']; subst.
  cbn [flat_map]. rewrite !app_length, i32_len, (IH H'), Hi. unfold ev. cbn [length]. lia.
Qed.

Definition frame_len (f : aframe) : nat :=
  ((if vgte v 2 2 then 5 + sz_start L else 0)
   + csome (af_slots f) * (7 + sz_pre L)
   + length (af_items f) * (5 + sz_item L)
   + csome (af_slots f) * (7 + sz_post L)
   + (if vgte v 3 0 then 5 + sz_end L else 0))%nat.

Lemma emit_frame_length f : wf_frame v L slots f = true -> length (emit_frame v slots f) = frame_len f.
Proof.
  intro Hf. pose proof (wf_frame_inv _ _ _ _ Hf) as (_ & Hls & Hle & Hits & Hlsl & Hrows & _).
  unfold emit_frame, frame_len. rewrite !app_length, !emit_chars_length by assumption.
  destruct (vgte v 2 2), (vgte v 3 0); rewrite ?app_length, ?i32_len, ?items_length by assumption;
    try rewrite Hits; unfold ev; cbn [length]; lia.
Qed.

Lemma frames_length fs : Forall (fun f => wf_frame v L slots f = true) fs ->
  length (flat_map (emit_frame v slots) fs)
  = (length fs * (if vgte v 2 2 then 5 + sz_start L else 0)
     + sum_some fs * (7 + sz_pre L)
     + sum_items fs * (5 + sz_item L)
     + sum_some fs * (7 + sz_post L)
     + length fs * (if vgte v 3 0 then 5 + sz_end L else 0))%nat.
Proof.
  induction fs as [|f fs IH]; intro Hfs; [reflexivity|].
  inversion Hfs as [|? ? Hf Hfs']; subst. rewrite sum_some_cons, sum_items_cons. cbn [flat_map length].
  rewrite app_length, (IH Hfs'), (emit_frame_length f Hf). unfold frame_len. lia.
Qed.

End Counts.

Lemma u16_ok (x : N) : (x <= 65535)%N -> (if (65535 <? x)%N then @Panic N 401 else Ok x) = Ok x.
Proof. intro H. destruct (N.ltb_spec 65535 x); [lia|reflexivity]. Qed.

Section Main.
Variables (r : replay) (st : start_t) (h : bool).
Hypothesis Hwf : wf_replay r = true.
Hypothesis Hst : game_start (r_start r) = ROk st.

Let v := r_ver r.
Let L := layout_of v.
Let slots := slots_of (port_occupancy st).
Let g := game_of {| o_skip := false; o_hash := h |} r st (end_of r).

Lemma st_facts : st_bytes st = r_start r /\ st_version st = v.
Proof. destruct (game_start_fields _ _ Hst) as (A & B & _). split; [exact A|exact B]. Qed.

Lemma slots_r_eq : slots_r r = slots.
Proof. unfold slots_r. rewrite Hst. reflexivity. Qed.

Lemma end_cases :
  match r_end r with
  | NoEnd => end_of r = None
  | OneEnd b | TwoEnds b => exists e, end_of r = Some e /\ en_bytes e = b /\ length b = N.to_nat (game_End_size v)
  end.
Proof.
  destruct (wf_replay_inv r st Hwf Hst) as (_ & _ & _ & _ & _ & He & _).
  unfold end_of, end_blk in *. destruct (r_end r) as [|b|b]; [reflexivity| |];
    destruct (He b eq_refl) as (Hl & e & Hge); rewrite Hge; exists e;
    (repeat split; [apply game_end_bytes; exact Hge|exact Hl]).
Qed.

Lemma flags : (vgte v 3 0 = true -> vgte v 2 2 = true) /\ (vgte v 3 3 = true -> vgte v 3 0 = true) /\
              (forall c, r_gecko r = Some c -> vgte v 3 3 = true).
Proof.
  repeat split.
  - apply gte30_22.
  - apply gte33_30.
  - intros c Hc. exact (proj1 (gecko_flag r st Hwf Hst c Hc)).
Qed.

Lemma sf_pre : size_fn v "Pre" = sz_pre L. Proof. apply size_fn_row_size_frames. cbn; tauto. Qed.
Lemma sf_post : size_fn v "Post" = sz_post L. Proof. apply size_fn_row_size_frames. cbn; tauto. Qed.
Lemma sf_start : size_fn v "Start" = sz_start L. Proof. apply size_fn_row_size_frames. cbn; tauto. Qed.
Lemma sf_end : size_fn v "End" = sz_end L. Proof. apply size_fn_row_size_frames. cbn; tauto. Qed.
Lemma sf_item : size_fn v "Item" = sz_item L. Proof. apply size_fn_row_size_frames. cbn; tauto. Qed.

Lemma end_entry :
  match end_of r with Some e => nn (length (en_bytes e)) | None => game_End_size v end
  = match end_blk r with Some b => nn (length b) | None => game_End_size v end.
Proof.
  pose proof end_cases as H. unfold end_blk. destruct (r_end r) as [|b|b].
  - rewrite H. reflexivity.
  - destruct H as (e & -> & <- & _). reflexivity.
  - destruct H as (e & -> & <- & _). reflexivity.
Qed.

Lemma payload_ok : payload_sizes g = Ok (rec_table r).
Proof.
  unfold payload_sizes.
  change (g_start g) with st. change (g_end g) with (end_of r). change (g_gecko g) with (r_gecko r).
  destruct st_facts as [Hb Hv]. rewrite Hb, Hv. cbv beta zeta.
  rewrite sf_pre, sf_post, sf_start, sf_end, sf_item, end_entry.
  pose proof (layout_small v) as (Hp & Hq & Hs & He & Hi). fold L in Hp, Hq, Hs, He, Hi.
  pose proof (end_size r st Hwf Hst) as Hes. fold v in Hes.
  destruct (wf_replay_inv r st Hwf Hst) as (_ & Hsl & _).
  destruct flags as (F1 & F2 & F3).
  set (es := match end_blk r with Some b => nn (length b) | None => game_End_size v end) in *.
  replace (6 + nn (sz_pre L))%N with (nn (6 + sz_pre L)) by (unfold nn; lia).
  replace (6 + nn (sz_post L))%N with (nn (6 + sz_post L)) by (unfold nn; lia).
  replace (4 + nn (sz_start L))%N with (nn (4 + sz_start L)) by (unfold nn; lia).
  replace (4 + nn (sz_item L))%N with (nn (4 + sz_item L)) by (unfold nn; lia).
  replace (4 + nn (sz_end L))%N with (nn (4 + sz_end L)) by (unfold nn; lia).
  rewrite !u16_ok by (unfold nn in *; lia). cbn [bind].
  unfold rec_table. fold v. fold L. fold es.
  destruct (vgte v 2 2) eqn:E22, (vgte v 3 0) eqn:E30, (vgte v 3 3) eqn:E33;
    try (specialize (F1 eq_refl); discriminate F1); try (specialize (F2 eq_refl); discriminate F2);
    rewrite ?u16_ok by (unfold nn in *; lia); cbn [bind app];
    destruct (r_gecko r) as [c|] eqn:Eg; try (specialize (F3 c eq_refl); discriminate F3); reflexivity.
Qed.


(* ---- the frame columns of the game ---- *)
Let fr0 := frames_new v (port_occupancy st).
Let fr := fold_left (add_frame v L) (r_frames r) fr0.

Lemma frames_eq : g_frames g = fr.
Proof. reflexivity. Qed.

Lemma wf_frames : Forall (fun f => wf_frame v L slots f = true) (r_frames r).
Proof. destruct (wf_replay_inv r st Hwf Hst) as (_ & _ & H & _). exact H. Qed.

Lemma winv0 : winv v slots fr0.
Proof. apply winv_new. reflexivity. Qed.

Lemma winv_fr : winv v slots fr.
Proof. apply winv_fold; [exact winv0|exact wf_frames]. Qed.

Lemma fdn_0 chars : fdn 0 chars = O.
Proof. induction chars as [|c cs IH]; [reflexivity|]. rewrite fdn_cons, IH. reflexivity. Qed.

Lemma counts_ok :
  frame_counts fr = Ok (nn (length (r_frames r)), nn (sum_some (r_frames r)), nn (sum_items (r_frames r))).
Proof.
  rewrite frame_counts_eq by (exact (wi_finv _ _ _ winv_fr)).
  destruct (counts_fold v slots (r_frames r) fr0 winv0 wf_frames) as (A & B & C).
  change (fold_left (add_frame v (layout_of v)) (r_frames r) fr0) with fr in A, B, C. rewrite A, B, C.
  assert (H0 : nfd fr0 = O) by (unfold nfd; apply fdn_0).
  assert (H1 : nit fr0 = O) by (unfold nit, fr0, frames_new; cbn [f_item]; destruct (vgte v 3 0); reflexivity).
  rewrite H0, H1. reflexivity.
Qed.

Lemma write_frames_ok : write_frames v fr = Ok (flat_map (emit_frame v slots) (r_frames r)).
Proof.
  exact (write_frames_fold v slots (r_frames r) fr0 [] winv0 wf_frames eq_refl).
Qed.

(* ---- lookups that are absent for old versions ---- *)
Lemma flags_false : (vgte v 2 2 = false -> vgte v 3 0 = false) /\ (vgte v 3 0 = false -> vgte v 3 3 = false).
Proof.
  destruct flags as (F1 & F2 & _). split; intro H.
  - destruct (vgte v 3 0); [rewrite (F1 eq_refl) in H; discriminate H|reflexivity].
  - destruct (vgte v 3 3); [rewrite (F2 eq_refl) in H; discriminate H|reflexivity].
Qed.

Lemma lk_fstart_none : vgte v 2 2 = false -> lookup_size (rec_table r) Event_FrameStart = None.
Proof.
  intro E22. destruct flags_false as (G1 & G2). pose proof (G1 E22) as E30. pose proof (G2 E30) as E33.
  unfold rec_table. fold v. rewrite E22, E30, E33. reflexivity.
Qed.
Lemma lk_item_none : vgte v 3 0 = false -> lookup_size (rec_table r) Event_Item = None.
Proof.
  intro E30. destruct flags_false as (G1 & G2). pose proof (G2 E30) as E33.
  unfold rec_table. fold v. rewrite E30, E33. destruct (vgte v 2 2); reflexivity.
Qed.
Lemma lk_fend_none : vgte v 3 0 = false -> lookup_size (rec_table r) Event_FrameEnd = None.
Proof.
  intro E30. destruct flags_false as (G1 & G2). pose proof (G2 E30) as E33.
  unfold rec_table. fold v. rewrite E30, E33. destruct (vgte v 2 2); reflexivity.
Qed.

(* ---- the length of the raw element ---- *)
Definition gecko_len : nat :=
  match r_gecko r with Some c => (517 * (length (gk_bytes c) / 512))%nat | None => O end.
Definition end_len : nat :=
  match r_end r with NoEnd => O | OneEnd b => (1 + length b)%nat | TwoEnds b => ((1 + length b) + (1 + length b))%nat end.

Lemma table_bytes_length (t : list (N * N)) :
  length (flat_map (fun p : N * N => n2b (fst p) :: be_enc 2 (snd p)) t) = (3 * length t)%nat.
Proof.
  induction t as [|p t IH]; [reflexivity|]. cbn [flat_map]. rewrite app_length, IH. cbn [length]. rewrite length_be_enc. lia.
Qed.

Lemma gecko_inv c : r_gecko r = Some c ->
  length (gk_bytes c) = (512 * (length (gk_bytes c) / 512))%nat /\ (0 < length (gk_bytes c) / 512)%nat /\
  (512 * (length (gk_bytes c) / 512 - 1) < N.to_nat (gk_actual c) <= 512 * (length (gk_bytes c) / 512))%nat.
Proof.
  intro Hc. destruct (wf_replay_inv r st Hwf Hst) as (_ & _ & _ & _ & Hgk & _).
  rewrite Hc in Hgk. apply wf_gecko_inv in Hgk as (_ & A & B & C & _). repeat split; try assumption; lia.
Qed.

Lemma raw_len :
  length (raw_of r)
  = ((2 + 3 * length (rec_table r)) + 1 + length (r_start r) + gecko_len
     + (length (r_frames r) * (if vgte v 2 2 then 5 + sz_start L else 0)
        + sum_some (r_frames r) * (7 + sz_pre L)
        + sum_items (r_frames r) * (5 + sz_item L)
        + sum_some (r_frames r) * (7 + sz_post L)
        + length (r_frames r) * (if vgte v 3 0 then 5 + sz_end L else 0))
     + end_len)%nat.
Proof.
  unfold raw_of, emit_table. rewrite !app_length, table_bytes_length. fold v. rewrite slots_r_eq.
  rewrite (frames_length v slots (r_frames r) wf_frames). fold L.
  assert (Hg : length (match r_gecko r with Some c => emit_gecko (length (gk_bytes c) / 512) 0 c | None => [] end) = gecko_len).
  { unfold gecko_len. destruct (r_gecko r) as [c|] eqn:Eg; [|reflexivity].
    destruct (gecko_inv c Eg) as (A & _). apply emit_gecko_length. lia. }
  rewrite Hg.
  assert (He : length (emit_end r) = end_len).
  { unfold emit_end, end_len. destruct (r_end r) as [|b|b]; [reflexivity| |]; rewrite !app_length; unfold ev; cbn [length]; lia. }
  rewrite He. unfold ev. cbn [length]. lia.
Qed.

Lemma gecko_size_ok :
  match r_gecko r with Some c => gecko_codes_size c | None => Ok 0%N end = Ok (nn gecko_len).
Proof.
  unfold gecko_len. destruct (r_gecko r) as [c|] eqn:Eg; [|reflexivity].
  destruct (gecko_inv c Eg) as (A & _). unfold gecko_codes_size.
  assert (Hm : (length (gk_bytes c) mod 512 = 0)%nat).
  { rewrite A at 1. rewrite Nat.mul_comm. apply Nat.mod_mul. lia. }
  rewrite Hm. cbn [Nat.eqb negb]. f_equal.
  set (K := (length (gk_bytes c) / 512)%nat) in *. rewrite A. unfold nn.
  replace (N.of_nat (512 * K) / 512)%N with (N.of_nat K) by (apply N.div_unique with 0%N; lia). lia.
Qed.

Lemma items_none : vgte v 3 0 = false -> sum_items (r_frames r) = O.
Proof.
  intro E30. pose proof wf_frames as H. induction H as [|f fs Hf _ IH]; [reflexivity|].
  rewrite sum_items_cons, IH. apply wf_frame_inv in Hf as (_ & _ & _ & Hits & _).
  rewrite E30 in Hits. rewrite Hits. reflexivity.
Qed.

Lemma raw_size_ok : raw_size (rec_table r) g = Ok (nn (length (raw_of r))).
Proof.
  unfold raw_size. rewrite frames_eq, counts_ok. cbn [bind]. cbv beta zeta.
  rewrite lk_start, lk_end, lk_pre, lk_post.
  change (g_gecko g) with (r_gecko r). change (g_end g) with (end_of r).
  change (g_quirk g) with (match r_end r with TwoEnds _ => Some true | _ => None end).
  rewrite gecko_size_ok. cbn [bind]. f_equal. rewrite raw_len. fold v. fold L.
  pose proof end_cases as Hec. unfold end_len, end_blk.
  destruct flags_false as (G1 & G2).
  destruct (vgte v 2 2) eqn:E22.
  - rewrite (lk_fstart r E22). destruct (vgte v 3 0) eqn:E30.
    + rewrite (lk_item r E30), (lk_fend r E30). fold v; fold L.
      destruct (r_end r) as [|b|b]; [rewrite Hec|destruct Hec as (e & -> & _ & Hl)|destruct Hec as (e & -> & _ & Hl)];
        unfold nn; lia.
    + rewrite (lk_item_none E30), (lk_fend_none E30), (items_none E30). fold v; fold L.
      destruct (r_end r) as [|b|b]; [rewrite Hec|destruct Hec as (e & -> & _ & Hl)|destruct Hec as (e & -> & _ & Hl)];
        unfold nn; lia.
  - pose proof (G1 eq_refl) as E30. rewrite E30.
    rewrite (lk_fstart_none E22), (lk_item_none E30), (lk_fend_none E30), (items_none E30). fold v; fold L.
    destruct (r_end r) as [|b|b]; [rewrite Hec|destruct Hec as (e & -> & _ & Hl)|destruct Hec as (e & -> & _ & Hl)];
      unfold nn; lia.
Qed.

(* ---- the remaining pieces of slippi::write ---- *)
Lemma gecko_ok :
  match r_gecko r with Some c => gecko_blocks (S (length (gk_bytes c))) 0 c | None => Ok [] end
  = Ok (match r_gecko r with Some c => emit_gecko (length (gk_bytes c) / 512) 0 c | None => [] end).
Proof.
  destruct (r_gecko r) as [c|] eqn:Eg; [|reflexivity]. destruct (gecko_inv c Eg) as (A & B & C).
  apply (gecko_blocks_ok c (length (gk_bytes c) / 512)%nat A B C); lia.
Qed.

Lemma meta_ok :
  match r_meta r with
  | Some m => b <- write_map m ;; Ok (sig_meta_full ++ b ++ [x7d])
  | None => Ok []
  end = Ok (emit_meta (r_meta r)).
Proof.
  destruct (wf_replay_inv r st Hwf Hst) as (_ & _ & _ & _ & _ & _ & Hm & _).
  unfold emit_meta. destruct (r_meta r) as [t|]; [|reflexivity].
  unfold wf_meta in Hm. apply andb_true_iff in Hm as [Hm _]. apply wf_uval_b_sound in Hm.
  destruct (write_map_ok t Hm) as [b Hb]. rewrite Hb. reflexivity.
Qed.

Lemma end_ok :
  match end_of r with
  | Some e => (ev Event_GameEnd ++ en_bytes e)
              ++ match match r_end r with TwoEnds _ => Some true | _ => None end with
                 | Some true => ev Event_GameEnd ++ en_bytes e
                 | _ => []
                 end
  | None => []
  end = emit_end r.
Proof.
  pose proof end_cases as Hec. unfold emit_end. destruct (r_end r) as [|b|b].
  - rewrite Hec. reflexivity.
  - destruct Hec as (e & -> & -> & _). rewrite app_nil_r. reflexivity.
  - destruct Hec as (e & -> & -> & _). rewrite <- app_assoc. reflexivity.
Qed.

Theorem c01_write_main : slp_write g = Ok (emit r).
Proof.
  unfold slp_write. change (g_start g) with st. destruct st_facts as [Hb Hv]. rewrite Hv, Hb.
  destruct (wf_replay_inv r st Hwf Hst) as (Hmax & _ & _ & _ & _ & _ & _ & Hlt). fold v in Hmax.
  rewrite Hmax. cbn [negb].
  rewrite payload_ok. cbn [bind]. rewrite raw_size_ok. cbn [bind].
  destruct (rec_table_ok r st Hwf Hst) as (_ & Hlen & _).
  destruct (N.ltb_spec 255 (nn (length (rec_table r)) * 3 + 1)) as [Hbad|_]; [unfold nn in Hbad; lia|]. cbn [bind].
  change (g_gecko g) with (r_gecko r). rewrite gecko_ok. cbn [bind].
  rewrite frames_eq, write_frames_ok. cbn [bind].
  change (g_meta g) with (r_meta r). rewrite meta_ok. cbn [bind].
  change (g_end g) with (end_of r).
  change (g_quirk g) with (match r_end r with TwoEnds _ => Some true | _ => None end).
  rewrite end_ok. rewrite N.mod_small by exact Hlt.
  set (n := nn (length (raw_of r))).
  unfold emit. fold n. do 3 f_equal.
  unfold raw_of, emit_table. rewrite slots_r_eq. fold v. rewrite <- !app_assoc. reflexivity.
Qed.
End Main.

Theorem c01_write r st h :
  wf_replay r = true -> game_start (r_start r) = ROk st ->
  slp_write (game_of {| o_skip := false; o_hash := h |} r st (end_of r)) = Ok (emit r).
Proof. intros Hwf Hst. exact (c01_write_main r st h Hwf Hst). Qed.

Print Assumptions c01_write.
