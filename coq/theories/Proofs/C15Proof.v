From Coq Require Import List Arith NArith ZArith Lia Bool.
From Peppi Require Import Base.Outcome Gen.Funs Model.Rollbacks.
Import ListNotations.
Notation length := (@List.length _) (only parsing).
Local Open Scope Z_scope.

Definition idx (id : Z) : nat := Z.to_nat (id - FIRST_INDEX).
Definition ge_first (id : Z) : Prop := FIRST_INDEX <= id.

Lemma zb_ok id : ge_first id -> zb id = Ok (idx id).
Proof. unfold zb, ge_first, idx. intro H. destruct (Z.ltb_spec id FIRST_INDEX); [lia|reflexivity]. Qed.

Lemma idx_inj a b : ge_first a -> ge_first b -> idx a = idx b -> a = b.
Proof. unfold idx, ge_first. intros. lia. Qed.

Lemma set_true_length k l : length (set_true k l) = length l.
Proof. revert k. induction l as [|x r IH]; intros [|k]; cbn; auto. Qed.

Lemma set_true_nth k l z : (z < length l)%nat ->
  nth z (set_true k l) false = if Nat.eqb z k then true else nth z l false.
Proof.
  revert k z. induction l as [|x r IH]; intros k z Hz; [cbn in Hz; lia|].
  destruct k as [|k], z as [|z]; cbn; try reflexivity.
  - apply IH. cbn in Hz. lia.
Qed.

(* [prev]: the ids already visited; [seen] reflects exactly them *)
Definition reflects (seen : list bool) (prev : list Z) : Prop :=
  forall z, (z < length seen)%nat -> (nth z seen false = true <-> In z (map idx prev)).

Lemma scan_spec ids : forall seen prev,
  Forall ge_first ids -> Forall ge_first prev ->
  (forall id, In id ids -> (idx id < length seen)%nat) ->
  reflects seen prev ->
  exists mask, scan ids seen = Ok mask /\ length mask = length ids /\
    forall k, (k < length ids)%nat ->
      (nth k mask false = true <->
       In (nth k ids 0) prev \/ exists j, (j < k)%nat /\ nth j ids 0 = nth k ids 0).
Proof.
  induction ids as [|id r IH]; intros seen prev Hge Hprev Hb Hr.
  - exists []. cbn. repeat split; intros; lia.
  - inversion Hge as [|? ? Hid Hr']; subst.
    cbn [scan]. rewrite (zb_ok id Hid). cbn [bind].
    assert (Hlt : (idx id < length seen)%nat) by (apply Hb; left; reflexivity).
    destruct (nth_error seen (idx id)) as [b|] eqn:E; [|apply nth_error_None in E; lia].
    assert (Hbn : nth (idx id) seen false = b) by (apply nth_error_nth; exact E).
    destruct (IH (set_true (idx id) seen) (id :: prev)) as [mask [Hs [Hl Hm]]].
    + exact Hr'.
    + constructor; assumption.
    + intros id' Hin. rewrite set_true_length. apply Hb. right. exact Hin.
    + intros z Hz. rewrite set_true_length in Hz. rewrite set_true_nth by exact Hz.
      cbn [map In]. destruct (Nat.eqb_spec z (idx id)) as [->|Hne].
      * split; [intro; left; reflexivity | reflexivity].
      * rewrite (Hr z Hz). split; [intro; right; assumption | intros [Heq|Hin]; [congruence|exact Hin]].
    + rewrite Hs. cbn [bind]. exists (b :: mask). split; [reflexivity|]. split; [cbn; lia|].
      intros k Hk. destruct k as [|k].
      * cbn [nth]. rewrite <- Hbn. rewrite (Hr _ Hlt). split.
        -- intro Hin. apply in_map_iff in Hin as [x [Hx Hin]]. left.
           assert (x = id).
           { apply idx_inj; [|exact Hid|exact Hx]. rewrite Forall_forall in Hprev. apply Hprev. exact Hin. }
           subst. exact Hin.
        -- intros [Hin|[j [Hj _]]]; [apply in_map; exact Hin | lia].
      * cbn [nth]. cbn [length] in Hk. rewrite (Hm k) by lia. cbn [In]. split.
        -- intros [[Heq|Hin]|[j [Hj Hjk]]].
           ++ right. exists O. split; [lia|]. cbn. exact Heq.
           ++ left. exact Hin.
           ++ right. exists (S j). split; [lia|]. cbn. exact Hjk.
        -- intros [Hin|[j [Hj Hjk]]].
           ++ left. right. exact Hin.
           ++ destruct j as [|j]; cbn in Hjk.
              ** left. left. exact Hjk.
              ** right. exists j. split; [lia|exact Hjk].
Qed.

Lemma fold_max_ge l x : x <= fold_left Z.max l x /\ forall y, In y l -> y <= fold_left Z.max l x.
Proof.
  revert x. induction l as [|a l IH]; intros x; cbn; [split; [lia|intros y []]|].
  destruct (IH (Z.max x a)) as [H1 H2]. split; [lia|].
  intros y [->|Hin]; [lia|apply H2; exact Hin].
Qed.

Lemma fold_max_in l x : fold_left Z.max l x = x \/ In (fold_left Z.max l x) l.
Proof.
  revert x. induction l as [|a l IH]; intros x; cbn; [left; reflexivity|].
  destruct (IH (Z.max x a)) as [H|H].
  - rewrite H. destruct (Z.max_spec x a) as [[_ ->]|[_ ->]]; [right; left; reflexivity | left; reflexivity].
  - right. right. exact H.
Qed.

Lemma zmax_spec ids m : zmax ids = Some m -> In m ids /\ forall y, In y ids -> y <= m.
Proof.
  destruct ids as [|x r]; [discriminate|]. cbn. intro H. inversion H; subst. clear H.
  destruct (fold_max_ge r x) as [H1 H2]. split.
  - destruct (fold_max_in r x) as [H|H]; [left; symmetry; exact H | right; exact H].
  - intros y [->|Hin]; [exact H1 | apply H2; exact Hin].
Qed.

Lemma count_ok ids : Forall ge_first ids ->
  exists count, (match zmax ids with None => Ok O | Some m => z <- zb m ;; Ok (S z) end) = Ok count /\
                forall id, In id ids -> (idx id < count)%nat.
Proof.
  intro H. destruct (zmax ids) as [m|] eqn:E.
  - destruct (zmax_spec ids m E) as [Hin Hmax].
    assert (Hm : ge_first m) by (rewrite Forall_forall in H; apply H; exact Hin).
    rewrite (zb_ok m Hm). cbn. eexists. split; [reflexivity|].
    intros id Hi. specialize (Hmax id Hi). rewrite Forall_forall in H. specialize (H id Hi).
    unfold idx, ge_first in *. lia.
  - destruct ids; [|discriminate]. exists O. split; [reflexivity|intros id []].
Qed.

Lemma reflects_init n : reflects (repeat false n) [].
Proof.
  intros z Hz. cbn. split; [|intros []].
  intro H. assert (nth z (repeat false n) false = false).
  { clear. revert z. induction n; intros [|z]; cbn; auto. }
  congruence.
Qed.

Lemma c15_first ids : Forall ge_first ids ->
  exists mask, rollbacks ExceptFirst ids = Ok mask /\ length mask = length ids /\
    forall k, (k < length ids)%nat ->
      (nth k mask false = true <-> exists j, (j < k)%nat /\ nth j ids 0 = nth k ids 0).
Proof.
  intro H. unfold rollbacks. destruct (count_ok ids H) as [count [Hc Hb]]. rewrite Hc. cbn [bind].
  destruct (scan_spec ids (repeat false count) [] H (Forall_nil _)) as [mask [Hs [Hl Hm]]].
  - intros id Hin. rewrite repeat_length. apply Hb. exact Hin.
  - apply reflects_init.
  - exists mask. split; [exact Hs|]. split; [exact Hl|].
    intros k Hk. rewrite (Hm k Hk). cbn [In]. tauto.
Qed.

Lemma c15_last ids : Forall ge_first ids ->
  exists mask, rollbacks ExceptLast ids = Ok mask /\ length mask = length ids /\
    forall k, (k < length ids)%nat ->
      (nth k mask false = true <-> exists j, (k < j < length ids)%nat /\ nth j ids 0 = nth k ids 0).
Proof.
  intro H. unfold rollbacks. destruct (count_ok ids H) as [count [Hc Hb]]. rewrite Hc. cbn [bind].
  assert (Hrev : Forall ge_first (rev ids)).
  { rewrite Forall_forall in *. intros x Hx. apply H. apply in_rev. exact Hx. }
  destruct (scan_spec (rev ids) (repeat false count) [] Hrev (Forall_nil _)) as [mask [Hs [Hl Hm]]].
  - intros id Hin. rewrite repeat_length. apply Hb. apply in_rev. exact Hin.
  - apply reflects_init.
  - rewrite Hs. cbn [bind]. exists (rev mask). split; [reflexivity|].
    rewrite rev_length in Hl. split; [rewrite rev_length; exact Hl|].
    intros k Hk.
    rewrite rev_nth by lia. rewrite Hl.
    set (n := length ids) in *.
    rewrite (Hm (n - S k)%nat) by (rewrite rev_length; fold n; lia). cbn [In].
    assert (Hn : forall i, (i < n)%nat -> nth i (rev ids) 0 = nth (n - S i) ids 0).
    { intros i Hi. rewrite rev_nth by (fold n; lia). fold n. reflexivity. }
    split.
    + intros [[]|[j [Hj Hjk]]]. exists (n - S j)%nat. split; [lia|].
      rewrite Hn in Hjk by lia. rewrite Hn in Hjk by lia.
      replace (n - S (n - S k))%nat with k in Hjk by lia. exact Hjk.
    + intros [j [Hj Hjk]]. right. exists (n - S j)%nat. split; [lia|].
      rewrite Hn by lia. rewrite Hn by lia.
      replace (n - S (n - S j))%nat with j by lia. replace (n - S (n - S k))%nat with k by lia. exact Hjk.
Qed.

(* exactly one row per distinct id is unmarked (keep-first: the first occurrence) *)
Lemma c15_unmarked_first ids mask : Forall ge_first ids -> rollbacks ExceptFirst ids = Ok mask ->
  forall k, (k < length ids)%nat ->
    (nth k mask false = false <-> forall j, (j < k)%nat -> nth j ids 0 <> nth k ids 0).
Proof.
  intros H Hr k Hk. destruct (c15_first ids H) as [m [Hm [_ Hs]]]. rewrite Hr in Hm. inversion Hm; subst m.
  specialize (Hs k Hk). destruct (nth k mask false).
  - split; [discriminate|]. intro Hall. destruct (proj1 Hs eq_refl) as [j [Hj Hjk]]. exfalso. exact (Hall j Hj Hjk).
  - split; [|reflexivity]. intros _ j Hj Hjk. assert (false = true) by (apply Hs; exists j; auto). discriminate.
Qed.

(* a game without repeated ids yields an all-false mask, in both modes *)
Lemma c15_nodup ids k0 mask : Forall ge_first ids -> NoDup ids -> rollbacks k0 ids = Ok mask ->
  forall k, (k < length ids)%nat -> nth k mask false = false.
Proof.
  intros H Hnd Hr k Hk.
  assert (Hdist : forall i j, (i < length ids)%nat -> (j < length ids)%nat -> nth i ids 0 = nth j ids 0 -> i = j).
  { intros i j Hi Hj E. eapply NoDup_nth; eassumption. }
  destruct k0.
  - destruct (c15_first ids H) as [m [Hm [_ Hs]]]. rewrite Hr in Hm. inversion Hm; subst m.
    destruct (nth k mask false) eqn:E; [|reflexivity].
    destruct (proj1 (Hs k Hk) E) as [j [Hj Hjk]]. assert (j = k) by (apply Hdist; [lia|lia|exact Hjk]). lia.
  - destruct (c15_last ids H) as [m [Hm [_ Hs]]]. rewrite Hr in Hm. inversion Hm; subst m.
    destruct (nth k mask false) eqn:E; [|reflexivity].
    destruct (proj1 (Hs k Hk) E) as [j [Hj Hjk]]. assert (j = k) by (apply Hdist; [lia|lia|exact Hjk]). lia.
Qed.

Example c15_example :
  rollbacks ExceptFirst [-123; -122; -121; -122; -121; -120] = Ok [false; false; false; true; true; false] /\
  rollbacks ExceptLast [-123; -122; -121; -122; -121; -120] = Ok [false; true; true; false; false; false].
Proof. vm_compute. split; reflexivity. Qed.
