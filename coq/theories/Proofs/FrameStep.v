(* Event-level lemmas: what the arms of parse_event do on the events the recorder emits for one frame, and how a
   sequence of encoded events runs through the reader's main loop. *)
From Coq Require Import List Arith NArith ZArith Lia Bool String ZifyBool ZifyN ZifyNat.
From Coq.Strings Require Import Byte.
From Peppi Require Import Base.Bytes Base.Outcome Base.Stream Layout.Syntax Gen.Funs Layout.Sem Layout.Rows
  Model.Ubjson Model.Start Model.Json Model.Parse Model.Reader Model.Writer Model.Recorder Proofs.Framing.
Import ListNotations.
Notation length := (@List.length _) (only parsing).

(* ---- small facts about the state record ---- *)
Lemma frames_set s fr : ps_frames (set_frames s fr) = fr. Proof. reflexivity. Qed.
Lemma ver_set s fr : ver (set_frames s fr) = ver s. Proof. reflexivity. Qed.
Lemma layout_set s fr : ps_layout (set_frames s fr) = ps_layout s. Proof. reflexivity. Qed.
Lemma set_set s fr fr' : set_frames (set_frames s fr) fr' = set_frames s fr'. Proof. reflexivity. Qed.
Lemma set_same s : set_frames s (ps_frames s) = s. Proof. destruct s; reflexivity. Qed.

(* ---- i32 framing ---- *)
Lemma i32_roundtrip id rest : in_i32 id = true -> i32_at (i32_bytes id ++ rest) = Ok (id, rest).
Proof.
  intro H. unfold in_i32 in H. apply andb_true_iff in H as [H1 H2].
  apply Z.leb_le in H1. apply Z.ltb_lt in H2.
  unfold i32_at, i32_bytes. rewrite app_length, length_be_enc.
  destruct (Nat.ltb_spec (4 + length rest) 4); [lia|].
  rewrite firstn_app, skipn_app, length_be_enc, Nat.sub_diag.
  rewrite firstn_all2, skipn_all2 by (rewrite length_be_enc; lia). cbn [firstn skipn app]. rewrite app_nil_r.
  assert (Hm : (0 <= id mod 4294967296 < 4294967296)%Z) by (apply Z.mod_pos_bound; lia).
  rewrite be_dec_enc by (change (256 ^ N.of_nat 4)%N with 4294967296%N; lia).
  f_equal. f_equal. unfold sint. change (256 ^ N.of_nat 4)%N with 4294967296%N.
  change (4294967296 / 2)%N with 2147483648%N.
  destruct (Z.ltb_spec id 0) as [Hneg|Hpos].
  - rewrite <- (Z.mod_unique id 4294967296 (-1) (id + 4294967296)) by lia.
    destruct (N.ltb_spec (Z.to_N (id + 4294967296)) 2147483648); lia.
  - rewrite Z.mod_small by lia.
    destruct (N.ltb_spec (Z.to_N id) 2147483648); lia.
Qed.

Lemma u8_hd_cons n r : (n < 256)%N -> u8_hd (n2b n :: r) = Ok (n, r).
Proof. intro H. unfold u8_hd. rewrite b2n_n2b_small by exact H. reflexivity. Qed.

Lemma read_push_exact n rw rest : length rw = n -> read_push n (rw ++ rest) = Ok rw.
Proof.
  intro H. unfold read_push. rewrite app_length. destruct (Nat.ltb_spec (length rw + length rest) n); [lia|].
  rewrite firstn_app. replace (n - length rw)%nat with O by lia. cbn [firstn]. rewrite app_nil_r.
  rewrite firstn_all2 by lia. reflexivity.
Qed.

Lemma read_push_exact0 n rw : length rw = n -> read_push n rw = Ok rw.
Proof. intro H. rewrite <- (app_nil_r rw) at 1. apply read_push_exact. exact H. Qed.

(* ---- ids ---- *)
Lemma last_snoc {A} (l : list A) (x d : A) : last (l ++ [x]) d = x.
Proof. induction l as [|a l IH]; [reflexivity|]. cbn [app last]. destruct (l ++ [x]) eqn:E; [destruct l; discriminate|]. exact IH. Qed.

Lemma last_id_open s id : last_id (frame_open s id) = Some id.
Proof. unfold last_id, frame_open. cbn. rewrite map_app. cbn [map]. apply last_snoc. Qed.

Lemma last_id_frames s fr : f_ids fr = f_ids (ps_frames s) -> last_id (set_frames s fr) = last_id s.
Proof. intro H. unfold last_id. cbn. rewrite H. reflexivity. Qed.

Lemma expect_id_ok s id : last_id s = Some id -> expect_id s id = Ok tt.
Proof. intro H. unfold expect_id. rewrite H, Z.eqb_refl. reflexivity. Qed.

(* ---- slots ---- *)
Definition tags (cs : list slot) : list (N * bool) := map (fun c => (sl_port c, sl_fol c)) cs.

Lemma find_slot_shift cs p f i : find_slot cs p f (S i) = option_map S (find_slot cs p f i).
Proof.
  revert i. induction cs as [|c r IH]; intro i; [reflexivity|]. cbn [find_slot].
  destruct (N.eqb (sl_port c) p && Bool.eqb (sl_fol c) f); [reflexivity|apply IH].
Qed.

Lemma find_slot_nth cs k p f :
  NoDup (tags cs) -> nth_error (tags cs) k = Some (p, f) -> find_slot cs p f O = Some k.
Proof.
  revert k. induction cs as [|c r IH]; intros k Hnd Hk; [destruct k; discriminate|].
  cbn [tags map] in Hnd, Hk. inversion Hnd as [|? ? Hnotin Hnd']; subst. cbn [find_slot].
  destruct k as [|k]; cbn [nth_error] in Hk.
  - inversion Hk; subst. rewrite N.eqb_refl, Bool.eqb_reflx. reflexivity.
  - destruct (N.eqb (sl_port c) p && Bool.eqb (sl_fol c) f) eqn:E.
    + exfalso. apply andb_true_iff in E as [E1 E2]. apply N.eqb_eq in E1. apply Bool.eqb_prop in E2. subst.
      apply Hnotin. eapply nth_error_In. exact Hk.
    + rewrite find_slot_shift. rewrite (IH k Hnd' Hk). reflexivity.
Qed.

Lemma tags_upd cs k g : tags (upd_nth k (fun c => {| sl_port := sl_port c; sl_fol := sl_fol c; sl_data := g (sl_data c) |}) cs) = tags cs.
Proof. revert k. induction cs as [|c r IH]; intros [|k]; cbn; try reflexivity. f_equal. apply IH. Qed.

Lemma upd_nth_app {A} (done todo : list A) (x : A) f :
  upd_nth (length done) f (done ++ x :: todo) = done ++ f x :: todo.
Proof. induction done as [|a d IH]; cbn; [reflexivity|]. f_equal. exact IH. Qed.

(* ---- what event handling never changes: the size table, the layout, the start block, the byte count ---- *)
Definition same_env (s s' : pstate) : Prop :=
  ps_sizes s' = ps_sizes s /\ ps_layout s' = ps_layout s /\ ps_start s' = ps_start s /\ ps_bytes_read s' = ps_bytes_read s.

Lemma same_env_refl s : same_env s s. Proof. repeat split; reflexivity. Qed.
Lemma same_env_trans a b c : same_env a b -> same_env b c -> same_env a c.
Proof. unfold same_env. intros (A1 & A2 & A3 & A4) (B1 & B2 & B3 & B4). repeat split; congruence. Qed.
Lemma same_env_set s fr : same_env s (set_frames s fr). Proof. repeat split; reflexivity. Qed.
Lemma same_env_close s : same_env s (frame_close s). Proof. repeat split; reflexivity. Qed.
Lemma same_env_open s id : same_env s (frame_open s id). Proof. repeat split; reflexivity. Qed.

Ltac arm_tac H :=
  repeat match type of H with
         | context [bind ?x _] => let E := fresh "E" in destruct x as [[? ?]| | |] eqn:E; cbn [bind] in H; try discriminate H
         | context [bind ?x _] => let E := fresh "E" in destruct x eqn:E; cbn [bind] in H; try discriminate H
         | context [match ?x with Some _ => _ | None => _ end] => let E := fresh "E" in destruct x eqn:E; try discriminate H
         end.

Lemma arm_gecko_env buf s s' : arm_gecko buf s = Ok s' -> same_env s s'.
Proof. unfold arm_gecko. intro H. inversion H. repeat split; reflexivity. Qed.

Lemma arm_end_env buf s s' : arm_end buf s = Ok s' -> same_env s s'.
Proof. unfold arm_end. intro H. arm_tac H. inversion H. destruct (vlt (ver s) 3 0); repeat split; reflexivity. Qed.

Lemma arm_fstart_env buf s s' : arm_fstart buf s = Ok s' -> same_env s s'.
Proof. unfold arm_fstart. intro H. arm_tac H. inversion H. destruct (vlt (ver s) 3 0); repeat split; reflexivity. Qed.

Lemma arm_pre_env buf s s' : arm_pre buf s = Ok s' -> same_env s s'.
Proof.
  unfold arm_pre. intro H.
  destruct (i32_at buf) as [[id r]| | |]; cbn [bind] in H; try discriminate.
  destruct (u8_hd r) as [[port r1]| | |]; cbn [bind] in H; try discriminate.
  destruct (u8_hd r1) as [[folb r2]| | |]; cbn [bind] in H; try discriminate.
  match type of H with context [bind ?x _] => destruct x as [s1| | |] eqn:E1 end; cbn [bind] in H; try discriminate.
  destruct (data_lookup s1 port _); cbn [bind] in H; try discriminate.
  destruct (read_push _ r2); cbn [bind] in H; try discriminate.
  inversion H. apply (same_env_trans s s1); [|apply same_env_set].
  destruct (vgte (ver s) 2 2).
  - destruct (expect_id s id); cbn [bind] in E1; try discriminate. inversion E1. apply same_env_refl.
  - destruct (Z.eqb _ id).
    + inversion E1. repeat split; reflexivity.
    + destruct (expect_id s id); cbn [bind] in E1; try discriminate. inversion E1. apply same_env_refl.
Qed.

Lemma arm_post_env buf s s' : arm_post buf s = Ok s' -> same_env s s'.
Proof. unfold arm_post. intro H. arm_tac H. inversion H. apply same_env_set. Qed.

Lemma arm_fend_env buf s s' : arm_fend buf s = Ok s' -> same_env s s'.
Proof. unfold arm_fend. intro H. arm_tac H. inversion H. repeat split; reflexivity. Qed.

Lemma arm_item_env buf s s' : arm_item buf s = Ok s' -> same_env s s'.
Proof. unfold arm_item. intro H. arm_tac H. inversion H. apply same_env_set. Qed.

Lemma handle_known_env code buf s s' : handle_known code buf s = Ok s' -> same_env s s'.
Proof.
  unfold handle_known.
  repeat match goal with |- context [if ?c then _ else _] => destruct c end;
    try discriminate;
    eauto using arm_gecko_env, arm_end_env, arm_fstart_env, arm_pre_env, arm_post_env, arm_fend_env, arm_item_env.
  all: intro H; inversion H; apply same_env_refl.
Qed.

Lemma handle_event_env code buf s c' s' : handle_event code buf s = Ok (c', s') -> same_env s s'.
Proof.
  unfold handle_event. destruct (N.eqb code Event_MessageSplitter).
  - destruct (negb _); [discriminate|]. destruct (_ <? _)%N; [discriminate|].
    destruct (negb (N.eqb (b2n (nth 515 buf x00)) 0)).
    + destruct (handle_known _ _ _) as [s1| | |] eqn:E; cbn [bind]; try discriminate.
      intro H. inversion H; subst. apply handle_known_env in E.
      eapply same_env_trans; [|exact E]. repeat split; reflexivity.
    + intro H. inversion H. repeat split; reflexivity.
  - destruct (handle_known code buf s) as [s1| | |] eqn:E; cbn [bind]; try discriminate.
    intro H. inversion H; subst. apply handle_known_env in E. exact E.
Qed.

(* ---- running a list of events through the handler, and through the main loop ---- *)
Notation event := (N * list byte)%type (only parsing).
Definition enc_ev (e : event) : list byte := n2b (fst e) :: snd e.

Fixpoint run_events (s : pstate) (evs : list event) : outcome pstate :=
  match evs with
  | [] => Ok s
  | (c, p) :: r =>
      match handle_event c p s with
      | Ok (c', s') => if N.eqb c' Event_GameEnd then Err EInvalid
                       else run_events (add_bytes_read s' (nn (length p) + 1)%N) r
      | Err e => Err e | Panic x => Panic x | Fuel => Fuel
      end
  end.

Definition ev_ok (sizes : list (N * N)) (e : event) : Prop :=
  (fst e < 256)%N /\ lookup_size sizes (fst e) = Some (nn (length (snd e))).

Definition evs_len (evs : list event) : N := fold_right (fun e a => (nn (length (snd e)) + 1 + a)%N) 0%N evs.

Lemma run_events_app s evs1 evs2 :
  run_events s (evs1 ++ evs2) = match run_events s evs1 with Ok s' => run_events s' evs2 | Err e => Err e | Panic p => Panic p | Fuel => Fuel end.
Proof.
  revert s. induction evs1 as [|[c p] r IH]; intro s; [reflexivity|]. cbn [app run_events].
  destruct (handle_event c p s) as [[c' s']| | |]; try reflexivity.
  destruct (N.eqb c' Event_GameEnd); [reflexivity|apply IH].
Qed.

Lemma run_events_env evs : forall s s', run_events s evs = Ok s' ->
  ps_sizes s' = ps_sizes s /\ ps_layout s' = ps_layout s /\ ps_start s' = ps_start s /\
  ps_bytes_read s' = (ps_bytes_read s + evs_len evs)%N.
Proof.
  induction evs as [|[c p] r IH]; intros s s' H; cbn [run_events] in H.
  - inversion H. cbn. repeat split; try reflexivity. lia.
  - destruct (handle_event c p s) as [[c' s1]| | |] eqn:E; try discriminate.
    destruct (N.eqb c' Event_GameEnd); [discriminate|].
    apply IH in H as (H1 & H2 & H3 & H4). apply handle_event_env in E as (E1 & E2 & E3 & E4).
    cbn [ps_sizes ps_layout ps_start ps_bytes_read add_bytes_read] in *.
    repeat split; try congruence. rewrite H4, E4.
    change (evs_len ((c, p) :: r)) with (nn (length p) + 1 + evs_len r)%N. lia.
Qed.

Lemma evs_len_cons (e : N * list byte) l : evs_len (e :: l) = (nn (length (snd e)) + 1 + evs_len l)%N.
Proof. reflexivity. Qed.

Lemma evs_len_app a b : evs_len (a ++ b) = (evs_len a + evs_len b)%N.
Proof. induction a as [|e a IH]; [reflexivity|]. cbn [app]. change (evs_len (e :: a ++ b)) with (nn (length (snd e)) + 1 + evs_len (a ++ b))%N.
  change (evs_len (e :: a)) with (nn (length (snd e)) + 1 + evs_len a)%N. lia. Qed.

(* a run of events that the handler accepts goes through the main loop one event per iteration *)
Lemma loop_events evs : forall s s' fuel raw_len rest,
  run_events s evs = Ok s' ->
  Forall (ev_ok (ps_sizes s)) evs ->
  (ps_bytes_read s + evs_len evs <= raw_len)%N ->
  event_loop (length evs + fuel) raw_len s (flat_map enc_ev evs ++ rest) = event_loop fuel raw_len s' rest.
Proof.
  induction evs as [|[c p] r IH]; intros s s' fuel raw_len rest Hrun Hok Hb.
  - cbn in Hrun. inversion Hrun. reflexivity.
  - inversion Hok as [|? ? [Hc Hl] Hok']; subst. cbn [fst snd] in *.
    cbn [run_events] in Hrun. destruct (handle_event c p s) as [[c' s1]| | |] eqn:E; try discriminate.
    destruct (N.eqb c' Event_GameEnd) eqn:Ege; [discriminate|].
    cbn [length Nat.add event_loop flat_map enc_ev fst snd app].
    change (evs_len ((c, p) :: r)) with (nn (length p) + 1 + evs_len r)%N in Hb.
    replace (N.eqb raw_len 0 || (ps_bytes_read s <? raw_len)%N) with true
      by (symmetry; apply orb_true_iff; right; apply N.ltb_lt; unfold nn in *; lia).
    rewrite <- app_assoc.
    rewrite (parse_event_enc s c (nn (length p)) p) by (try assumption; unfold nn; rewrite Nat2N.id; reflexivity).
    rewrite E, Ege.
    apply handle_event_env in E as (E1 & E2 & E3 & E4).
    apply IH; [exact Hrun | | ].
    + cbn [ps_sizes add_bytes_read]. rewrite E1. exact Hok'.
    + cbn [ps_bytes_read add_bytes_read]. rewrite E4. lia.
Qed.

(* ---- column-length invariant ---- *)
Definition cinv (n : nat) (d : cdata) : Prop :=
  length (c_pre d) = n /\ length (c_post d) = n /\ (forall b, c_valid d = Some b -> length b = n).
Definition finv (fr : frames) : Prop := Forall (fun c => cinv (length (f_ids fr)) (sl_data c)) (f_chars fr).

Lemma iter_S {A} (f : A -> A) n x : Nat.iter (S n) f x = f (Nat.iter n f x). Proof. reflexivity. Qed.

Lemma pad_full L n d : length (c_pre d) = n -> pad_to L n d = d.
Proof. intro H. unfold pad_to. rewrite H, Nat.sub_diag. reflexivity. Qed.

Lemma pad_one L n d : length (c_pre d) = n -> pad_to L (S n) d = data_push_null L d.
Proof. intro H. unfold pad_to. rewrite H. replace (S n - n)%nat with 1%nat by lia. reflexivity. Qed.

Lemma cinv_push n p q d : cinv n d -> cinv (S n) (push_post q (push_pre p d)).
Proof.
  intros (H1 & H2 & H3). unfold push_post, push_pre, cinv. cbn. rewrite !app_length. cbn. repeat split; try lia.
  intros b Hb. destruct (c_valid d) as [b0|]; cbn in Hb; [|discriminate]. injection Hb as <-.
  rewrite app_length. cbn. rewrite (H3 b0 eq_refl). lia.
Qed.

Lemma cinv_null L n d : cinv n d -> cinv (S n) (data_push_null L d).
Proof.
  intros (H1 & H2 & H3). unfold data_push_null, cinv. cbn. rewrite !app_length. cbn. repeat split; try lia.
  intros b Hb. injection Hb as <-. rewrite app_length. cbn.
  destruct (c_valid d) as [b0|]; [rewrite (H3 b0 eq_refl)|rewrite repeat_length, H1]; lia.
Qed.

(* ---- the events of one frame ---- *)
Definition char_events (pre : bool) (id : Z) (slots : list (N * bool)) (os : list (option (list byte * list byte))) : list event :=
  flat_map (fun x : (N * bool) * option (list byte * list byte) => match snd x with
                     | Some (p, q) => [((if pre then Event_FramePre else Event_FramePost),
                                        i32_bytes id ++ [n2b (fst (fst x)); n2b (if snd (fst x) then 1 else 0)] ++ (if pre then p else q))]
                     | None => []
                     end) (combine slots os).

Definition frame_events (v : version) (slots : list (N * bool)) (f : aframe) : list event :=
  (if vgte v 2 2 then [(Event_FrameStart, i32_bytes (af_id f) ++ af_start f)] else [])
  ++ char_events true (af_id f) slots (af_slots f)
  ++ (if vgte v 3 0 then map (fun it => (Event_Item, i32_bytes (af_id f) ++ it)) (af_items f) else [])
  ++ char_events false (af_id f) slots (af_slots f)
  ++ (if vgte v 3 0 then [(Event_FrameEnd, i32_bytes (af_id f) ++ af_end f)] else []).

Lemma flat_map_cons' {A B} (f : A -> list B) x l : flat_map f (x :: l) = f x ++ flat_map f l.
Proof. reflexivity. Qed.

Lemma char_events_bytes pre id slots os : flat_map enc_ev (char_events pre id slots os) = emit_chars pre id slots os.
Proof.
  unfold char_events, emit_chars. induction (combine slots os) as [|x r IH]; [reflexivity|].
  rewrite !flat_map_cons', flat_map_app, IH. f_equal.
  destruct x as [[p f] [[a b]|]]; cbn [fst snd flat_map enc_ev emit_char app]; [|reflexivity].
  unfold ev. destruct pre; cbn [app]; rewrite ?app_nil_r; reflexivity.
Qed.

Lemma frame_events_bytes v slots f : flat_map enc_ev (frame_events v slots f) = emit_frame v slots f.
Proof.
  unfold frame_events, emit_frame. rewrite !flat_map_app, !char_events_bytes. unfold ev.
  destruct (vgte v 2 2), (vgte v 3 0); cbn [flat_map enc_ev fst snd app]; rewrite ?app_nil_r;
    try reflexivity; repeat f_equal;
    try (rewrite flat_map_concat_map, map_map, <- flat_map_concat_map; reflexivity).
Qed.

(* ---- normal form of the states a run of frame events goes through: same state, other frames, more bytes ---- *)
Definition st (s : pstate) (fr : frames) (k : N) : pstate := add_bytes_read (set_frames s fr) k.

Lemma st_st s fr k fr' k' : st (st s fr k) fr' k' = st s fr' (k + k')%N.
Proof. unfold st, add_bytes_read, set_frames. cbn. f_equal. lia. Qed.
Lemma st_id s : st s (ps_frames s) 0 = s.
Proof. destruct s. unfold st, add_bytes_read, set_frames. cbn. f_equal. lia. Qed.
Lemma st_frames s fr k : ps_frames (st s fr k) = fr. Proof. reflexivity. Qed.
Lemma st_layout s fr k : ps_layout (st s fr k) = ps_layout s. Proof. reflexivity. Qed.
Lemma st_ver s fr k : ver (st s fr k) = ver s. Proof. reflexivity. Qed.
Lemma st_set s fr k fr' : set_frames (st s fr k) fr' = st s fr' k. Proof. reflexivity. Qed.
Lemma st_close s fr k : frame_close (st s fr k) = st s (frame_close_frames (ps_layout s) fr) k. Proof. reflexivity. Qed.
Lemma st_open s fr k id : frame_open (st s fr k) id = st s (with_ids fr (f_ids fr ++ [id])) k. Proof. reflexivity. Qed.
Lemma st_last s fr k : last_id (st s fr k) = last (map Some (f_ids fr)) None. Proof. reflexivity. Qed.

Definition with_chars (fr : frames) (cs : list slot) : frames :=
  {| f_ids := f_ids fr; f_chars := cs; f_start := f_start fr; f_end := f_end fr; f_item_off := f_item_off fr; f_item := f_item fr |}.

Definition upd_slot (g : cdata -> cdata) (c : slot) : slot :=
  {| sl_port := sl_port c; sl_fol := sl_fol c; sl_data := g (sl_data c) |}.

Lemma handle_event_known code buf s : N.eqb code Event_MessageSplitter = false ->
  handle_event code buf s = (s' <- handle_known code buf s ;; Ok (code, s')).
Proof. intro H. unfold handle_event. rewrite H. reflexivity. Qed.

(* one Pre / Post event for the character in slot [length done] of an open frame *)
Lemma pre_event s fr k id done c todo p extra :
  last (map Some (f_ids fr)) None = Some id -> in_i32 id = true ->
  f_chars fr = done ++ c :: todo -> NoDup (tags (done ++ c :: todo)) -> (sl_port c < 256)%N ->
  length p = sz_pre (ps_layout s) ->
  handle_event Event_FramePre (i32_bytes id ++ [n2b (sl_port c); n2b (if sl_fol c then 1 else 0)] ++ p ++ extra) (st s fr k)
  = Ok (Event_FramePre, st s (with_chars fr (done ++ upd_slot (push_pre p) c :: todo)) k).
Proof.
  intros Hlast Hid Hch Hnd Hp Hlen.
  rewrite handle_event_known by reflexivity.
  change (handle_known Event_FramePre) with arm_pre. unfold arm_pre.
  rewrite i32_roundtrip by exact Hid. cbn [bind app].
  rewrite u8_hd_cons by exact Hp. cbn [bind].
  rewrite u8_hd_cons by (destruct (sl_fol c); reflexivity). cbn [bind].
  assert (Hfol : negb (N.eqb (if sl_fol c then 1 else 0) 0) = sl_fol c) by (destruct (sl_fol c); reflexivity).
  rewrite Hfol.
  assert (Hexp : expect_id (st s fr k) id = Ok tt) by (apply expect_id_ok; rewrite st_last; exact Hlast).
  match goal with |- context [bind ?x (fun s1 => bind (data_lookup s1 _ _) _)] => assert (Hs1 : x = Ok (st s fr k)) end.
  { destruct (vgte _ 2 2); [rewrite Hexp; reflexivity|].
    rewrite st_last, Hlast. cbv zeta. destruct (Z.eqb_spec (id + 1) id); [lia|]. rewrite Hexp. reflexivity. }
  rewrite Hs1. cbn [bind].
  unfold data_lookup. rewrite st_frames, Hch.
  rewrite (find_slot_nth (done ++ c :: todo) (length done) (sl_port c) (sl_fol c) Hnd).
  2:{ unfold tags. rewrite map_app. rewrite nth_error_app2 by (rewrite map_length; lia).
      rewrite map_length, Nat.sub_diag. reflexivity. }
  cbn [bind]. rewrite st_layout. rewrite read_push_exact by exact Hlen. cbn [bind].
  rewrite st_set. f_equal. f_equal. unfold upd_char, with_chars. rewrite ?st_frames. rewrite Hch.
  rewrite (upd_nth_app done todo c). reflexivity.
Qed.

Lemma post_event s fr k id done c todo q extra :
  last (map Some (f_ids fr)) None = Some id -> in_i32 id = true ->
  f_chars fr = done ++ c :: todo -> NoDup (tags (done ++ c :: todo)) -> (sl_port c < 256)%N ->
  length q = sz_post (ps_layout s) ->
  handle_event Event_FramePost (i32_bytes id ++ [n2b (sl_port c); n2b (if sl_fol c then 1 else 0)] ++ q ++ extra) (st s fr k)
  = Ok (Event_FramePost, st s (with_chars fr (done ++ upd_slot (push_post q) c :: todo)) k).
Proof.
  intros Hlast Hid Hch Hnd Hp Hlen.
  rewrite handle_event_known by reflexivity.
  change (handle_known Event_FramePost) with arm_post. unfold arm_post.
  rewrite i32_roundtrip by exact Hid. cbn [bind app].
  rewrite u8_hd_cons by exact Hp. cbn [bind].
  rewrite u8_hd_cons by (destruct (sl_fol c); reflexivity). cbn [bind].
  assert (Hfol : negb (N.eqb (if sl_fol c then 1 else 0) 0) = sl_fol c) by (destruct (sl_fol c); reflexivity).
  rewrite Hfol.
  rewrite expect_id_ok by (rewrite st_last; exact Hlast). cbn [bind].
  unfold data_lookup. rewrite st_frames, Hch.
  rewrite (find_slot_nth (done ++ c :: todo) (length done) (sl_port c) (sl_fol c) Hnd).
  2:{ unfold tags. rewrite map_app. rewrite nth_error_app2 by (rewrite map_length; lia).
      rewrite map_length, Nat.sub_diag. reflexivity. }
  cbn [bind]. rewrite st_layout. rewrite read_push_exact by exact Hlen. cbn [bind].
  rewrite st_set. f_equal. f_equal. unfold upd_char, with_chars. rewrite ?st_frames. rewrite Hch.
  rewrite (upd_nth_app done todo c). reflexivity.
Qed.

Lemma add_bytes_st s fr k n : add_bytes_read (st s fr k) n = st s fr (k + n)%N.
Proof. unfold st, add_bytes_read, set_frames. cbn. f_equal. lia. Qed.

Definition slot_upd (pre : bool) (c : slot) (o : option (list byte * list byte)) : slot :=
  match o with
  | Some (p, q) => upd_slot (if pre then push_pre p else push_post q) c
  | None => c
  end.

Definition rows_ok (L : layout) (o : option (list byte * list byte)) : Prop :=
  match o with Some (p, q) => length p = sz_pre L /\ length q = sz_post L | None => True end.

Lemma tags_app a b : tags (a ++ b) = (tags a ++ tags b)%list. Proof. apply map_app. Qed.

Lemma map2_length {A B C} (f : A -> B -> C) l m : length l = length m -> length (map2 f l m) = length l.
Proof. revert m. induction l as [|a l IH]; intros [|b m] H; cbn in *; try discriminate; try reflexivity. f_equal. apply IH. lia. Qed.

Lemma tags_map2 pre todo os : length todo = length os -> tags (map2 (slot_upd pre) todo os) = tags todo.
Proof.
  revert os. induction todo as [|c t IH]; intros [|o os] H; cbn in *; try discriminate; try reflexivity.
  f_equal; [destruct o as [[p q]|]; reflexivity | apply IH; lia].
Qed.

(* the Pre (or Post) events of one frame, over all character slots *)
Lemma run_chars (pre : bool) : forall os done todo s fr k id,
  last (map Some (f_ids fr)) None = Some id -> in_i32 id = true ->
  f_chars fr = done ++ todo -> length todo = length os ->
  NoDup (tags (done ++ todo)) -> Forall (fun c => (sl_port c < 256)%N) todo ->
  Forall (rows_ok (ps_layout s)) os ->
  run_events (st s fr k) (char_events pre id (tags todo) os)
  = Ok (st s (with_chars fr (done ++ map2 (slot_upd pre) todo os)) (k + evs_len (char_events pre id (tags todo) os))).
Proof.
  induction os as [|o os IH]; intros done todo s fr k id Hlast Hid Hch Hlen Hnd Hports Hrows.
  - destruct todo; [|discriminate]. cbn. rewrite N.add_0_r. f_equal.
    unfold with_chars. rewrite <- Hch. destruct fr; reflexivity.
  - destruct todo as [|c todo]; [discriminate|]. cbn [length] in Hlen.
    inversion Hports as [|? ? Hp Hports']; subst. inversion Hrows as [|? ? Hr Hrows']; subst.
    unfold char_events. cbn [tags map combine]. rewrite flat_map_cons'. cbn [fst snd].
    fold (tags todo). fold (char_events pre id (tags todo) os).
    destruct o as [[p q]|].
    + destruct Hr as [Hlp Hlq]. cbn [app run_events].
      match goal with |- context [handle_event _ ?pl _] => set (payload := pl) end.
      assert (Hstep : handle_event (if pre then Event_FramePre else Event_FramePost) payload (st s fr k)
                      = Ok ((if pre then Event_FramePre else Event_FramePost),
                            st s (with_chars fr (done ++ upd_slot (if pre then push_pre p else push_post q) c :: todo)) k)).
      { unfold payload. destruct pre.
        - rewrite <- (app_nil_r p) at 1. eapply (pre_event s fr k id done c todo p []); eassumption.
        - rewrite <- (app_nil_r q) at 1. eapply (post_event s fr k id done c todo q []); eassumption. }
      rewrite Hstep.
      replace (N.eqb (if pre then Event_FramePre else Event_FramePost) Event_GameEnd) with false by (destruct pre; reflexivity).
      rewrite add_bytes_st.
      set (c' := upd_slot (if pre then push_pre p else push_post q) c).
      set (fr' := with_chars fr (done ++ c' :: todo)).
      specialize (IH (done ++ [c']) todo s fr' (k + (nn (length payload) + 1))%N id).
      rewrite IH; clear IH.
      * f_equal. unfold fr', with_chars. cbn [f_ids f_chars f_start f_end f_item_off f_item map2 slot_upd].
        rewrite <- app_assoc. cbn [app]. fold c'.
        change (evs_len (((if pre then Event_FramePre else Event_FramePost), payload) :: char_events pre id (tags todo) os))
          with (nn (length payload) + 1 + evs_len (char_events pre id (tags todo) os))%N.
        f_equal. lia.
      * exact Hlast.
      * exact Hid.
      * unfold fr', with_chars. cbn [f_chars]. rewrite <- app_assoc. reflexivity.
      * lia.
      * rewrite <- app_assoc. cbn [app]. rewrite tags_app in *. cbn [tags map] in *. exact Hnd.
      * exact Hports'.
      * exact Hrows'.
    + cbn [app]. specialize (IH (done ++ [c]) todo s fr k id).
      rewrite <- !app_assoc in IH. cbn [app] in IH.
      rewrite IH; [ | exact Hlast | exact Hid | exact Hch | lia | exact Hnd | exact Hports' | exact Hrows' ].
      cbn [map2 slot_upd]. reflexivity.
Qed.

(* ---- which optional column groups exist, by version ---- *)
Record shape (v : version) (fr : frames) : Prop := {
  sh_start : match f_start fr with Some _ => vgte v 2 2 = true | None => vgte v 2 2 = false end;
  sh_end : match f_end fr with Some _ => vgte v 3 0 = true | None => vgte v 3 0 = false end;
  sh_item : match f_item fr with Some _ => vgte v 3 0 = true | None => vgte v 3 0 = false end;
  sh_off : match f_item_off fr with Some _ => vgte v 3 0 = true | None => vgte v 3 0 = false end
}.

Lemma gte30_22 v : vgte v 3 0 = true -> vgte v 2 2 = true.
Proof. destruct v as [[a b] c]. unfold vgte, slippi_Version_gte, v0, v1. cbn [fst snd]. lia. Qed.

Lemma vlt_vgte v M m : vlt v M m = negb (vgte v M m). Proof. reflexivity. Qed.

Lemma shape_new v ports : shape v (frames_new v ports).
Proof. unfold frames_new. constructor; cbn; destruct (vgte v 2 2), (vgte v 3 0); reflexivity. Qed.

Lemma shape_add v L fr f : shape v fr -> shape v (add_frame v L fr f).
Proof.
  intros [H1 H2 H3 H4]. unfold add_frame. constructor; cbn.
  - destruct (f_start fr); exact H1.
  - destruct (f_end fr); exact H2.
  - destruct (f_item fr); exact H3.
  - destruct (f_item_off fr), (f_item fr); exact H4.
Qed.

(* items of one frame *)
Lemma run_items : forall its s fr k id items0,
  last (map Some (f_ids fr)) None = Some id -> in_i32 id = true ->
  f_item fr = Some items0 -> Forall (fun it => length it = sz_item (ps_layout s)) its ->
  run_events (st s fr k) (map (fun it => (Event_Item, i32_bytes id ++ it)) its)
  = Ok (st s {| f_ids := f_ids fr; f_chars := f_chars fr; f_start := f_start fr; f_end := f_end fr;
                f_item_off := f_item_off fr; f_item := Some (items0 ++ its) |}
          (k + evs_len (map (fun it => (Event_Item, i32_bytes id ++ it)) its))).
Proof.
  induction its as [|it its IH]; intros s fr k id items0 Hlast Hid Hit Hlen.
  - cbn. rewrite N.add_0_r, app_nil_r. f_equal. f_equal. destruct fr; cbn in *. subst. reflexivity.
  - inversion Hlen as [|? ? Hl Hlen']; subst. cbn [map run_events].
    rewrite handle_event_known by reflexivity.
    change (handle_known Event_Item) with arm_item. unfold arm_item.
    rewrite i32_roundtrip by exact Hid. cbn [bind].
    rewrite expect_id_ok by (rewrite st_last; exact Hlast). cbn [bind].
    rewrite st_frames, Hit, st_layout. rewrite read_push_exact0 by exact Hl. cbn [bind].
    replace (N.eqb Event_Item Event_GameEnd) with false by reflexivity.
    rewrite st_set, add_bytes_st.
    rewrite (IH s _ _ id (items0 ++ [it])); [ | exact Hlast | exact Hid | reflexivity | exact Hlen' ].
    cbn [f_ids f_chars f_start f_end f_item_off f_item]. rewrite <- app_assoc. cbn [app].
    f_equal. f_equal.
    change (evs_len ((Event_Item, i32_bytes id ++ it) :: map (fun it0 => (Event_Item, i32_bytes id ++ it0)) its))
      with (nn (length (i32_bytes id ++ it)) + 1 + evs_len (map (fun it0 => (Event_Item, i32_bytes id ++ it0)) its))%N.
    lia.
Qed.

(* Frame Start: closes the previous frame first when there are no Frame End events (< 3.0) *)
Lemma fstart_event s fr k id rw srows :
  in_i32 id = true -> length rw = sz_start (ps_layout s) ->
  f_start fr = Some srows ->
  handle_event Event_FrameStart (i32_bytes id ++ rw) (st s fr k)
  = Ok (Event_FrameStart,
        let fr0 := if vlt (ver s) 3 0 then frame_close_frames (ps_layout s) fr else fr in
        st s {| f_ids := f_ids fr0 ++ [id]; f_chars := f_chars fr0; f_start := Some (srows ++ [rw]);
                f_end := f_end fr0; f_item_off := f_item_off fr0; f_item := f_item fr0 |} k).
Proof.
  intros Hid Hlen Hs.
  rewrite handle_event_known by reflexivity.
  change (handle_known Event_FrameStart) with arm_fstart. unfold arm_fstart.
  rewrite st_ver. rewrite i32_roundtrip by exact Hid. cbn [bind].
  destruct (vlt (ver s) 3 0).
  - rewrite st_close, st_frames. cbn [frame_close_frames f_start]. rewrite Hs.
    rewrite st_layout, read_push_exact0 by exact Hlen. cbn [bind]. reflexivity.
  - rewrite st_frames, Hs. rewrite st_layout, read_push_exact0 by exact Hlen. cbn [bind]. reflexivity.
Qed.

Lemma fend_event s fr k id rw erows offs items :
  last (map Some (f_ids fr)) None = Some id -> in_i32 id = true -> length rw = sz_end (ps_layout s) ->
  f_end fr = Some erows -> f_item_off fr = Some offs -> f_item fr = Some items ->
  handle_event Event_FrameEnd (i32_bytes id ++ rw) (st s fr k)
  = Ok (Event_FrameEnd,
        st s (frame_close_frames (ps_layout s)
                {| f_ids := f_ids fr; f_chars := f_chars fr; f_start := f_start fr; f_end := Some (erows ++ [rw]);
                   f_item_off := Some (offs ++ [Z.of_nat (length items)]); f_item := f_item fr |}) k).
Proof.
  intros Hlast Hid Hlen He Ho Hi.
  rewrite handle_event_known by reflexivity.
  change (handle_known Event_FrameEnd) with arm_fend. unfold arm_fend.
  rewrite i32_roundtrip by exact Hid. cbn [bind].
  rewrite expect_id_ok by (rewrite st_last; exact Hlast). cbn [bind].
  rewrite st_frames, He, Ho, Hi. rewrite st_layout, read_push_exact0 by exact Hlen. cbn [bind].
  rewrite st_set, st_close. reflexivity.
Qed.

(* what a frame's Pre and Post events plus closing do to a character slot is add_slot *)
Lemma chars_after L n : forall chars os,
  Forall (fun c => cinv n (sl_data c)) chars -> length chars = length os ->
  map (fun c => {| sl_port := sl_port c; sl_fol := sl_fol c; sl_data := pad_to L (S n) (sl_data c) |})
      (map2 (slot_upd false) (map2 (slot_upd true) chars os) os)
  = map2 (add_slot L) chars os.
Proof.
  induction chars as [|c chars IH]; intros [|o os] Hinv Hlen; cbn in Hlen; try discriminate; [reflexivity|].
  inversion Hinv as [|? ? Hc Hinv']; subst. cbn [map2 map]. f_equal; [|apply IH; [exact Hinv'|lia]].
  destruct o as [[p q]|]; unfold add_slot, slot_upd, upd_slot; cbn [sl_port sl_fol sl_data].
  - f_equal. rewrite pad_full.
    + unfold push_post, push_pre. cbn. reflexivity.
    + pose proof (cinv_push n p q _ Hc) as (H1 & _). exact H1.
  - f_equal. apply pad_one. destruct Hc as (H1 & _). exact H1.
Qed.

Lemma finv_add v L fr f : finv fr -> length (f_chars fr) = length (af_slots f) -> finv (add_frame v L fr f).
Proof.
  unfold finv, add_frame. cbn [f_ids f_chars]. rewrite app_length. cbn [length]. rewrite Nat.add_1_r.
  generalize (length (f_ids fr)) as n. intro n. generalize (af_slots f) as os.
  induction (f_chars fr) as [|c cs IH]; intros os Hinv Hlen; destruct os as [|o os]; cbn in Hlen; try discriminate; [constructor|].
  inversion Hinv as [|? ? Hc Hinv']; subst. cbn [map2]. constructor; [|apply IH; [exact Hinv'|lia]].
  destruct o as [[p q]|]; unfold add_slot; cbn [sl_data].
  - apply (cinv_push n p q _ Hc).
  - apply cinv_null. exact Hc.
Qed.

Lemma tags_add L chars os : length chars = length os -> tags (map2 (add_slot L) chars os) = tags chars.
Proof.
  revert os. induction chars as [|c cs IH]; intros [|o os] H; cbn in *; try discriminate; try reflexivity.
  f_equal. apply IH. lia.
Qed.

Lemma last_map_snoc (l : list Z) (x : Z) : last (map Some (l ++ [x])) None = Some x.
Proof. rewrite map_app. cbn [map]. apply last_snoc. Qed.

Lemma forallb_Forall {A} (f : A -> bool) (P : A -> Prop) l :
  (forall a, f a = true -> P a) -> forallb f l = true -> Forall P l.
Proof.
  intros H. induction l as [|a l IH]; cbn; intro Hf; [constructor|].
  apply andb_true_iff in Hf as [H1 H2]. constructor; [apply H; exact H1|apply IH; exact H2].
Qed.

(* what wf_frame gives, unpacked *)
Lemma wf_frame_inv v L slots f : wf_frame v L slots f = true ->
  in_i32 (af_id f) = true /\
  length (af_start f) = (if vgte v 2 2 then sz_start L else 0)%nat /\
  length (af_end f) = (if vgte v 3 0 then sz_end L else 0)%nat /\
  (if vgte v 3 0 then Forall (fun it => length it = sz_item L) (af_items f) else af_items f = []) /\
  length (af_slots f) = length slots /\
  Forall (rows_ok L) (af_slots f) /\
  (vgte v 2 2 = false -> exists o, In (Some o) (af_slots f)).
Proof.
  unfold wf_frame. intro H.
  do 6 (apply andb_true_iff in H as [H ?]).
  repeat split.
  - exact H.
  - apply Nat.eqb_eq. assumption.
  - apply Nat.eqb_eq. assumption.
  - destruct (vgte v 3 0).
    + eapply forallb_Forall; [|eassumption]. intros a Ha. apply Nat.eqb_eq. exact Ha.
    + destruct (af_items f); [reflexivity|discriminate].
  - apply Nat.eqb_eq. assumption.
  - eapply forallb_Forall; [|eassumption]. intros [[p q]|] Ha; cbn; [|exact I].
    apply andb_true_iff in Ha as [A B]. apply Nat.eqb_eq in A, B. split; assumption.
  - intro Hv. match goal with Hx : (if vgte v 2 2 then true else _) = true |- _ => rewrite Hv in Hx; rename Hx into Hex end.
    apply existsb_exists in Hex as [[o|] [Hin Ho]]; [|discriminate]. exists o. exact Hin.
Qed.

(* ---- one frame, versions >= 3.0 (Frame Start ... Frame End) ---- *)
Lemma frame_ge30 s fr k f slots :
  vgte (ver s) 3 0 = true ->
  shape (ver s) fr -> finv fr -> tags (f_chars fr) = slots -> NoDup slots ->
  Forall (fun c => (sl_port c < 256)%N) (f_chars fr) ->
  wf_frame (ver s) (ps_layout s) slots f = true ->
  run_events (st s fr k) (frame_events (ver s) slots f)
  = Ok (st s (add_frame (ver s) (ps_layout s) fr f) (k + evs_len (frame_events (ver s) slots f))).
Proof.
  intros Hv Hsh Hinv Htags Hnd Hports Hwf.
  pose proof (gte30_22 _ Hv) as Hv22.
  destruct (wf_frame_inv _ _ _ _ Hwf) as (Hid & Hls & Hle & Hits & Hlsl & Hrows & _).
  rewrite Hv in Hle, Hits. rewrite Hv22 in Hls.
  destruct Hsh as [S1 S2 S3 S4].
  destruct (f_start fr) as [srows|] eqn:Es; [|rewrite Hv22 in S1; discriminate].
  destruct (f_end fr) as [erows|] eqn:Ee; [|rewrite Hv in S2; discriminate].
  destruct (f_item fr) as [items|] eqn:Ei; [|rewrite Hv in S3; discriminate].
  destruct (f_item_off fr) as [offs|] eqn:Eo; [|rewrite Hv in S4; discriminate].
  assert (Hlen : length (f_chars fr) = length (af_slots f)).
  { rewrite Hlsl, <- Htags. unfold tags. rewrite map_length. reflexivity. }
  unfold frame_events. rewrite Hv, Hv22.
  set (id := af_id f) in *.
  (* Frame Start *)
  rewrite run_events_app. cbn [run_events].
  rewrite (fstart_event s fr k id (af_start f) srows Hid Hls Es).
  replace (vlt (ver s) 3 0) with false by (rewrite vlt_vgte, Hv; reflexivity). cbv zeta.
  replace (N.eqb Event_FrameStart Event_GameEnd) with false by reflexivity.
  rewrite add_bytes_st.
  set (fr1 := {| f_ids := f_ids fr ++ [id]; f_chars := f_chars fr; f_start := Some (srows ++ [af_start f]);
                 f_end := f_end fr; f_item_off := f_item_off fr; f_item := f_item fr |}).
  assert (Hl1 : last (map Some (f_ids fr1)) None = Some id) by apply last_map_snoc.
  (* Pre events *)
  rewrite run_events_app. rewrite <- Htags.
  rewrite (run_chars true (af_slots f) [] (f_chars fr) s fr1 _ id Hl1 Hid eq_refl Hlen);
    [ | cbn [app]; rewrite Htags; exact Hnd | exact Hports | exact Hrows ].
  cbn [app].
  set (cs1 := map2 (slot_upd true) (f_chars fr) (af_slots f)).
  set (fr2 := with_chars fr1 cs1).
  (* Item events *)
  rewrite run_events_app.
  rewrite (run_items (af_items f) s fr2 _ id items);
    [ | exact Hl1 | exact Hid | exact Ei | exact Hits ].
  set (fr3 := {| f_ids := f_ids fr2; f_chars := f_chars fr2; f_start := f_start fr2; f_end := f_end fr2;
                 f_item_off := f_item_off fr2; f_item := Some (items ++ af_items f) |}).
  (* Post events *)
  rewrite run_events_app.
  assert (Htags1 : tags cs1 = tags (f_chars fr)) by (apply tags_map2; exact Hlen).
  assert (Hl3 : last (map Some (f_ids fr3)) None = Some id) by exact Hl1.
  rewrite <- Htags1.
  rewrite (run_chars false (af_slots f) [] cs1 s fr3 _ id Hl3 Hid eq_refl);
    [ | unfold cs1; rewrite map2_length; [exact Hlen|exact Hlen]
      | cbn [app]; rewrite Htags1, Htags; exact Hnd
      | | exact Hrows ].
  2:{ (* ports of cs1 *)
      unfold cs1. clear - Hports Hlen. revert Hlen Hports. generalize (af_slots f). generalize (f_chars fr).
      induction l as [|c l IH]; intros [|o os] Hlen Hp; cbn in *; try discriminate; [constructor|].
      inversion Hp; subst. constructor; [destruct o as [[? ?]|]; assumption|apply IH; [lia|assumption]]. }
  cbn [app].
  set (cs2 := map2 (slot_upd false) cs1 (af_slots f)).
  set (fr4 := with_chars fr3 cs2).
  (* Frame End *)
  cbn [run_events].
  rewrite (fend_event s fr4 _ id (af_end f) erows offs (items ++ af_items f) Hl3 Hid Hle Ee Eo eq_refl).
  replace (N.eqb Event_FrameEnd Event_GameEnd) with false by reflexivity.
  rewrite add_bytes_st.
  (* the resulting frames are add_frame *)
  f_equal. f_equal.
  - unfold add_frame, frame_close_frames. cbn [f_ids f_chars f_start f_end f_item_off f_item fr4 fr3 fr2 fr1 with_chars].
    rewrite Es, Ee, Ei, Eo. cbn [option_map].
    f_equal.
    + rewrite app_length. cbn [length]. rewrite Nat.add_1_r.
      apply (chars_after (ps_layout s) (length (f_ids fr)) (f_chars fr) (af_slots f) Hinv Hlen).
    + rewrite app_length. reflexivity.
  - rewrite evs_len_cons, !evs_len_app, evs_len_cons. cbn [snd]. change (evs_len []) with 0%N. lia.
Qed.

(* ---- versions < 3.0: no Frame End, so a frame stays open until the next frame, Game End or end of stream ---- *)
Definition slot_open (c : slot) (o : option (list byte * list byte)) : slot :=
  match o with
  | Some (p, q) => upd_slot (fun d => push_post q (push_pre p d)) c
  | None => c
  end.

(* the frame's events applied, absent characters not yet padded *)
Definition add_open (fr : frames) (f : aframe) : frames :=
  {| f_ids := f_ids fr ++ [af_id f];
     f_chars := map2 slot_open (f_chars fr) (af_slots f);
     f_start := option_map (fun rows => rows ++ [af_start f]) (f_start fr);
     f_end := f_end fr; f_item_off := f_item_off fr; f_item := f_item fr |}.

Definition closef (L : layout) (fr : frames) : frames := frame_close_frames L fr.

Lemma closef_closed L fr : finv fr -> closef L fr = fr.
Proof.
  intro H. unfold closef, frame_close_frames. destruct fr as [ids cs st en io it]. cbn in *. f_equal.
  induction cs as [|c cs IH]; [reflexivity|]. inversion H as [|? ? Hc H']; subst. cbn [map]. f_equal; [|apply IH; exact H'].
  destruct c as [p fo d]. cbn in *. f_equal. apply pad_full. destruct Hc as (H1 & _). exact H1.
Qed.

Lemma map2_open_post_pre : forall chars os, length chars = length os ->
  map2 (slot_upd false) (map2 (slot_upd true) chars os) os = map2 slot_open chars os.
Proof.
  induction chars as [|c cs IH]; intros [|o os] H; cbn in *; try discriminate; try reflexivity.
  f_equal; [destruct o as [[p q]|]; reflexivity | apply IH; lia].
Qed.

Lemma close_add_open v L fr f :
  vgte v 3 0 = false -> shape v fr -> finv fr -> length (f_chars fr) = length (af_slots f) ->
  af_items f = [] ->
  closef L (add_open fr f) = add_frame v L fr f.
Proof.
  intros Hv [S1 S2 S3 S4] Hinv Hlen Hit.
  destruct (f_end fr) eqn:Ee; [rewrite Hv in S2; discriminate|].
  destruct (f_item fr) eqn:Ei; [rewrite Hv in S3; discriminate|].
  destruct (f_item_off fr) eqn:Eo; [rewrite Hv in S4; discriminate|].
  unfold closef, frame_close_frames, add_open, add_frame. cbn [f_ids f_chars f_start f_end f_item_off f_item].
  rewrite Ee, Ei, Eo. cbn [option_map]. f_equal.
  rewrite app_length. cbn [length]. rewrite Nat.add_1_r.
  rewrite <- (map2_open_post_pre (f_chars fr) (af_slots f) Hlen).
  apply (chars_after L (length (f_ids fr)) (f_chars fr) (af_slots f) Hinv Hlen).
Qed.

Lemma closef_ids L fr : f_ids (closef L fr) = f_ids fr. Proof. reflexivity. Qed.
Lemma closef_tags L fr : tags (f_chars (closef L fr)) = tags (f_chars fr).
Proof. unfold closef, frame_close_frames, tags. cbn. rewrite map_map. reflexivity. Qed.
Lemma closef_ports L fr : Forall (fun c => (sl_port c < 256)%N) (f_chars fr) -> Forall (fun c => (sl_port c < 256)%N) (f_chars (closef L fr)).
Proof. unfold closef, frame_close_frames. cbn. intro H. rewrite Forall_map. exact H. Qed.
Lemma closef_start L fr : f_start (closef L fr) = f_start fr. Proof. reflexivity. Qed.

(* ---- one frame, 2.2 <= version < 3.0: Frame Start (which closes the previous frame), Pre*, Post* ---- *)
Lemma frame_22 s fro k f slots :
  vgte (ver s) 2 2 = true -> vgte (ver s) 3 0 = false ->
  let fr := closef (ps_layout s) fro in
  shape (ver s) fr -> tags (f_chars fr) = slots -> NoDup slots ->
  Forall (fun c => (sl_port c < 256)%N) (f_chars fr) ->
  wf_frame (ver s) (ps_layout s) slots f = true ->
  run_events (st s fro k) (frame_events (ver s) slots f)
  = Ok (st s (add_open fr f) (k + evs_len (frame_events (ver s) slots f))).
Proof.
  intros Hv22 Hv30 fr Hsh Htags Hnd Hports Hwf.
  destruct (wf_frame_inv _ _ _ _ Hwf) as (Hid & Hls & Hle & Hits & Hlsl & Hrows & _).
  rewrite Hv30 in Hle, Hits. rewrite Hv22 in Hls.
  destruct Hsh as [S1 S2 S3 S4].
  destruct (f_start fr) as [srows|] eqn:Es; [|rewrite Hv22 in S1; discriminate].
  assert (Hlen : length (f_chars fr) = length (af_slots f)).
  { rewrite Hlsl, <- Htags. unfold tags. rewrite map_length. reflexivity. }
  unfold frame_events. rewrite Hv22, Hv30. cbn [app]. rewrite app_nil_r.
  set (id := af_id f) in *.
  change ((Event_FrameStart, i32_bytes id ++ af_start f) :: char_events true id slots (af_slots f) ++ char_events false id slots (af_slots f))
    with ([(Event_FrameStart, i32_bytes id ++ af_start f)] ++ char_events true id slots (af_slots f) ++ char_events false id slots (af_slots f)).
  rewrite run_events_app. cbn [run_events].
  assert (Eso : f_start fro = Some srows) by (rewrite <- Es; reflexivity).
  rewrite (fstart_event s fro k id (af_start f) srows Hid Hls Eso).
  replace (vlt (ver s) 3 0) with true by (rewrite vlt_vgte, Hv30; reflexivity). cbv zeta.
  replace (N.eqb Event_FrameStart Event_GameEnd) with false by reflexivity.
  rewrite add_bytes_st. fold (closef (ps_layout s) fro). fold fr.
  set (fr1 := {| f_ids := f_ids fr ++ [id]; f_chars := f_chars fr; f_start := Some (srows ++ [af_start f]);
                 f_end := f_end fr; f_item_off := f_item_off fr; f_item := f_item fr |}).
  assert (Hl1 : last (map Some (f_ids fr1)) None = Some id) by apply last_map_snoc.
  rewrite run_events_app. rewrite <- Htags.
  rewrite (run_chars true (af_slots f) [] (f_chars fr) s fr1 _ id Hl1 Hid eq_refl Hlen);
    [ | cbn [app]; rewrite Htags; exact Hnd | exact Hports | exact Hrows ].
  cbn [app].
  set (cs1 := map2 (slot_upd true) (f_chars fr) (af_slots f)).
  set (fr2 := with_chars fr1 cs1).
  assert (Htags1 : tags cs1 = tags (f_chars fr)) by (apply tags_map2; exact Hlen).
  rewrite <- Htags1.
  rewrite (run_chars false (af_slots f) [] cs1 s fr2 _ id Hl1 Hid eq_refl);
    [ | unfold cs1; rewrite map2_length; [exact Hlen|exact Hlen]
      | cbn [app]; rewrite Htags1, Htags; exact Hnd
      | | exact Hrows ].
  2:{ unfold cs1. clear - Hports Hlen. revert Hlen Hports. generalize (af_slots f). generalize (f_chars fr).
      induction l as [|c l IH]; intros [|o os] Hlen Hp; cbn in *; try discriminate; [constructor|].
      inversion Hp; subst. constructor; [destruct o as [[? ?]|]; assumption|apply IH; [lia|assumption]]. }
  cbn [app]. f_equal. f_equal.
  - unfold add_open, with_chars. cbn [f_ids f_chars f_start f_end f_item_off f_item fr2 fr1].
    rewrite Es. cbn [option_map]. f_equal. unfold cs1. apply map2_open_post_pre. exact Hlen.
  - rewrite evs_len_cons, !evs_len_app. cbn [snd]. lia.
Qed.

(* ---- one frame, version < 2.2: no Frame Start; the first Pre event with the next id opens the frame ---- *)
Lemma gte22_false_30 v : vgte v 2 2 = false -> vgte v 3 0 = false.
Proof. intro H. destruct (vgte v 3 0) eqn:E; [|reflexivity]. apply gte30_22 in E. congruence. Qed.

Lemma first_some {A} (os : list (option A)) : (exists o, In (Some o) os) ->
  exists nones x rest, os = nones ++ Some x :: rest /\ Forall (fun o => o = None) nones.
Proof.
  induction os as [|o os IH]; intros [x Hin]; [destruct Hin|].
  destruct o as [y|].
  - exists [], y, os. split; [reflexivity|constructor].
  - destruct Hin as [Hd|Hin]; [discriminate|].
    destruct (IH (ex_intro _ x Hin)) as (n & y & r & -> & Hn). exists (None :: n), y, r. split; [reflexivity|constructor; [reflexivity|exact Hn]].
Qed.

Lemma char_events_nones pre id : forall (tg : list (N * bool)) nones rest,
  Forall (fun o : option (list byte * list byte) => o = None) nones -> length tg = length nones ->
  forall tg2, char_events pre id (tg ++ tg2) (nones ++ rest) = char_events pre id tg2 rest.
Proof.
  induction tg as [|t tg IH]; intros [|o nones] rest Hn Hl tg2; cbn in Hl; try discriminate; [reflexivity|].
  inversion Hn; subst. unfold char_events. cbn [app combine]. rewrite flat_map_cons'. cbn [snd app].
  apply IH; [assumption|lia].
Qed.

Lemma map2_nones {A} (f : slot -> option A -> slot) (Hf : forall c, f c None = c) : forall done nones todo rest,
  Forall (fun o => o = None) nones -> length done = length nones ->
  map2 f (done ++ todo) (nones ++ rest) = done ++ map2 f todo rest.
Proof.
  induction done as [|c done IH]; intros [|o nones] todo rest Hn Hl; cbn in Hl; try discriminate; [reflexivity|].
  inversion Hn; subst. cbn [app map2]. rewrite Hf. f_equal. apply IH; [assumption|lia].
Qed.

Lemma pre_event_open s fro k id done c todo p :
  vgte (ver s) 2 2 = false ->
  (match last (map Some (f_ids fro)) None with Some l => (l + 1)%Z = id | None => id = FIRST_INDEX end) ->
  in_i32 id = true ->
  let fr := closef (ps_layout s) fro in
  f_chars fr = done ++ c :: todo -> NoDup (tags (done ++ c :: todo)) -> (sl_port c < 256)%N ->
  length p = sz_pre (ps_layout s) ->
  handle_event Event_FramePre (i32_bytes id ++ [n2b (sl_port c); n2b (if sl_fol c then 1 else 0)] ++ p) (st s fro k)
  = Ok (Event_FramePre, st s (with_chars (with_ids fr (f_ids fr ++ [id])) (done ++ upd_slot (push_pre p) c :: todo)) k).
Proof.
  intros Hv Hnext Hid fr Hch Hnd Hp Hlen.
  rewrite handle_event_known by reflexivity.
  change (handle_known Event_FramePre) with arm_pre. unfold arm_pre.
  rewrite i32_roundtrip by exact Hid. cbn [bind app].
  rewrite u8_hd_cons by exact Hp. cbn [bind].
  rewrite u8_hd_cons by (destruct (sl_fol c); reflexivity). cbn [bind].
  assert (Hfol : negb (N.eqb (if sl_fol c then 1 else 0) 0) = sl_fol c) by (destruct (sl_fol c); reflexivity).
  rewrite Hfol. rewrite st_ver, Hv.
  match goal with |- context [bind ?x (fun s1 => bind (data_lookup s1 _ _) _)] =>
    assert (Hs1 : x = Ok (st s (with_ids fr (f_ids fr ++ [id])) k)) end.
  { rewrite st_last. cbv zeta.
    assert (Hz : Z.eqb (match last (map Some (f_ids fro)) None with Some l => l | None => (FIRST_INDEX - 1)%Z end + 1) id = true).
    { destruct (last (map Some (f_ids fro)) None); apply Z.eqb_eq; lia. }
    rewrite Hz. rewrite st_close, st_open. reflexivity. }
  rewrite Hs1. cbn [bind].
  unfold data_lookup. rewrite st_frames. cbn [with_ids f_chars]. rewrite Hch.
  rewrite (find_slot_nth (done ++ c :: todo) (length done) (sl_port c) (sl_fol c) Hnd).
  2:{ unfold tags. rewrite map_app. rewrite nth_error_app2 by (rewrite map_length; lia).
      rewrite map_length, Nat.sub_diag. reflexivity. }
  cbn [bind]. rewrite st_layout. rewrite read_push_exact0 by exact Hlen. cbn [bind].
  rewrite st_set. f_equal. f_equal. unfold upd_char, with_chars. rewrite ?st_frames. cbn [with_ids f_chars f_ids f_start f_end f_item_off f_item].
  rewrite Hch. rewrite (upd_nth_app done todo c). reflexivity.
Qed.

Lemma frame_lt22 s fro k f slots :
  vgte (ver s) 2 2 = false ->
  let fr := closef (ps_layout s) fro in
  shape (ver s) fr -> tags (f_chars fr) = slots -> NoDup slots ->
  Forall (fun c => (sl_port c < 256)%N) (f_chars fr) ->
  wf_frame (ver s) (ps_layout s) slots f = true ->
  (match last (map Some (f_ids fro)) None with Some l => (l + 1)%Z = af_id f | None => af_id f = FIRST_INDEX end) ->
  run_events (st s fro k) (frame_events (ver s) slots f)
  = Ok (st s (add_open fr f) (k + evs_len (frame_events (ver s) slots f))).
Proof.
  intros Hv22 fr Hsh Htags Hnd Hports Hwf Hnext.
  pose proof (gte22_false_30 _ Hv22) as Hv30.
  destruct (wf_frame_inv _ _ _ _ Hwf) as (Hid & Hls & Hle & Hits & Hlsl & Hrows & Hex).
  destruct Hsh as [S1 S2 S3 S4].
  destruct (f_start fr) as [srows|] eqn:Es; [rewrite Hv22 in S1; discriminate|].
  assert (Hlen : length (f_chars fr) = length (af_slots f)).
  { rewrite Hlsl, <- Htags. unfold tags. rewrite map_length. reflexivity. }
  unfold frame_events. rewrite Hv22, Hv30. cbn [app]. rewrite app_nil_r.
  set (id := af_id f) in *.
  destruct (first_some (af_slots f) (Hex Hv22)) as (nones & [p q] & os' & Hos & Hn).
  (* split the character slots at the first present one *)
  assert (Hsplit : exists done c todo, f_chars fr = done ++ c :: todo /\ length done = length nones /\ length todo = length os').
  { rewrite Hos in Hlen. rewrite app_length in Hlen. cbn [length] in Hlen.
    exists (firstn (length nones) (f_chars fr)).
    destruct (skipn (length nones) (f_chars fr)) as [|c todo] eqn:Esk.
    - exfalso. assert (length (skipn (length nones) (f_chars fr)) = 0%nat) by (rewrite Esk; reflexivity).
      rewrite skipn_length in H. lia.
    - exists c, todo. split; [rewrite <- Esk; symmetry; apply firstn_skipn|].
      split; [rewrite firstn_length; lia|].
      assert (Hl : length (skipn (length nones) (f_chars fr)) = S (length todo)) by (rewrite Esk; reflexivity).
      rewrite skipn_length in Hl. lia. }
  destruct Hsplit as (done & c & todo & Hch & Hld & Hlt).
  assert (Hrows2 : rows_ok (ps_layout s) (Some (p, q)) /\ Forall (rows_ok (ps_layout s)) os').
  { rewrite Hos in Hrows. apply Forall_app in Hrows as [_ Hr]. inversion Hr; subst. split; assumption. }
  destruct Hrows2 as [[Hlp Hlq] Hrows'].
  assert (Hportc : (sl_port c < 256)%N /\ Forall (fun c0 => (sl_port c0 < 256)%N) todo).
  { rewrite Hch in Hports. apply Forall_app in Hports as [_ Hp]. inversion Hp; subst. split; assumption. }
  destruct Hportc as [Hpc Hptodo].
  assert (Hnd' : NoDup (tags (done ++ c :: todo))) by (rewrite <- Hch, Htags; exact Hnd).
  (* Pre events: the first one opens the frame *)
  rewrite run_events_app. rewrite <- Htags, Hch. rewrite Hos.
  rewrite tags_app. rewrite (char_events_nones true id (tags done) nones (Some (p, q) :: os') Hn);
    [ | unfold tags; rewrite map_length; exact Hld ].
  unfold char_events at 1. cbn [tags map combine]. rewrite flat_map_cons'. cbn [fst snd app].
  fold (tags todo). fold (char_events true id (tags todo) os').
  cbn [run_events].
  match goal with |- context [handle_event _ ?pl _] => set (payload := pl) end.
  assert (Hstep : handle_event Event_FramePre payload (st s fro k)
                  = Ok (Event_FramePre, st s (with_chars (with_ids fr (f_ids fr ++ [id])) (done ++ upd_slot (push_pre p) c :: todo)) k))
    by (unfold payload; apply (pre_event_open s fro k id done c todo p Hv22 Hnext Hid Hch Hnd' Hpc Hlp)).
  rewrite Hstep.
  replace (N.eqb Event_FramePre Event_GameEnd) with false by reflexivity.
  rewrite add_bytes_st.
  set (c' := upd_slot (push_pre p) c).
  set (fr1 := with_chars (with_ids fr (f_ids fr ++ [id])) (done ++ c' :: todo)).
  assert (Hl1 : last (map Some (f_ids fr1)) None = Some id) by apply last_map_snoc.
  rewrite (run_chars true os' (done ++ [c']) todo s fr1 _ id Hl1 Hid);
    [ | unfold fr1, with_chars; cbn [f_chars]; rewrite <- app_assoc; reflexivity
      | exact Hlt
      | rewrite <- app_assoc; cbn [app]; rewrite tags_app in *; cbn [tags map] in *; exact Hnd'
      | exact Hptodo | exact Hrows' ].
  rewrite <- app_assoc. cbn [app].
  set (cs1 := done ++ c' :: map2 (slot_upd true) todo os').
  assert (Hcs1 : cs1 = map2 (slot_upd true) (f_chars fr) (af_slots f)).
  { unfold cs1. rewrite Hch, Hos. rewrite (map2_nones (slot_upd true) (fun _ => eq_refl) done nones (c :: todo) (Some (p, q) :: os') Hn Hld).
    reflexivity. }
  set (fr2 := with_chars fr1 cs1).
  assert (Htags1 : tags cs1 = tags (f_chars fr)) by (rewrite Hcs1; apply tags_map2; exact Hlen).
  (* Post events over all slots *)
  rewrite <- Hos.
  replace (tags done ++ (sl_port c, sl_fol c) :: tags todo)%list with (tags cs1)
    by (rewrite Htags1, Hch, tags_app; reflexivity).
  rewrite (run_chars false (af_slots f) [] cs1 s fr2 _ id Hl1 Hid eq_refl);
    [ | rewrite Hcs1, map2_length; [exact Hlen|exact Hlen]
      | cbn [app]; rewrite Htags1, Htags; exact Hnd
      | | exact Hrows ].
  2:{ rewrite Hcs1. clear - Hports Hlen. revert Hlen Hports. generalize (af_slots f). generalize (f_chars fr).
      induction l as [|c l IH]; intros [|o os] Hlen Hp; cbn in *; try discriminate; [constructor|].
      inversion Hp; subst. constructor; [destruct o as [[? ?]|]; assumption|apply IH; [lia|assumption]]. }
  cbn [app]. f_equal. f_equal.
  - unfold add_open, with_chars, with_ids. cbn [f_ids f_chars f_start f_end f_item_off f_item fr2 fr1].
    rewrite Es. cbn [option_map]. f_equal.
    + rewrite Hcs1. apply map2_open_post_pre. exact Hlen.
    + unfold fr2, fr1, with_chars, with_ids. cbn [f_start]. exact Es.
  - rewrite !evs_len_app.
    assert (He : char_events true id ((sl_port c, sl_fol c) :: tags todo) (Some (p, q) :: os')
                 = (Event_FramePre, payload) :: char_events true id (tags todo) os') by reflexivity.
    rewrite He, evs_len_cons. cbn [snd]. lia.
Qed.

(* ---- a whole frame history ---- *)
Definition step_frames (v : version) (L : layout) (fro : frames) (f : aframe) : frames :=
  if vgte v 3 0 then add_frame v L fro f else add_open (closef L fro) f.

Definition frames_run (v : version) (L : layout) (fr0 : frames) (fs : list aframe) : frames :=
  fold_left (step_frames v L) fs fr0.

Definition next_ok (fro : frames) (z : Z) : Prop :=
  match last (map Some (f_ids fro)) None with Some l => (l + 1)%Z = z | None => z = FIRST_INDEX end.

(* what is known of the state between frames *)
Record between (v : version) (L : layout) (slots : list (N * bool)) (fro : frames) : Prop := {
  bt_shape : shape v (closef L fro);
  bt_inv : finv (closef L fro);
  bt_tags : tags (f_chars (closef L fro)) = slots;
  bt_ports : Forall (fun c => (sl_port c < 256)%N) (f_chars (closef L fro));
  bt_closed : vgte v 3 0 = true -> closef L fro = fro
}.

Lemma ports_add L chars os : length chars = length os ->
  Forall (fun c => (sl_port c < 256)%N) chars -> Forall (fun c => (sl_port c < 256)%N) (map2 (add_slot L) chars os).
Proof.
  revert os. induction chars as [|c cs IH]; intros [|o os] Hl Hp; cbn in *; try discriminate; [constructor|].
  inversion Hp; subst. constructor; [assumption|apply IH; [lia|assumption]].
Qed.

Lemma between_add v L slots fr f :
  shape v fr -> finv fr -> tags (f_chars fr) = slots -> Forall (fun c => (sl_port c < 256)%N) (f_chars fr) ->
  length (af_slots f) = length slots ->
  between v L slots (add_frame v L fr f).
Proof.
  intros Hsh Hinv Htags Hports Hl.
  assert (Hlen : length (f_chars fr) = length (af_slots f)) by (rewrite Hl, <- Htags; unfold tags; rewrite map_length; reflexivity).
  pose proof (finv_add v L fr f Hinv Hlen) as Hinv'.
  assert (Hc : closef L (add_frame v L fr f) = add_frame v L fr f) by (apply closef_closed; exact Hinv').
  constructor; rewrite ?Hc.
  - apply shape_add. exact Hsh.
  - exact Hinv'.
  - unfold add_frame. cbn [f_chars]. rewrite tags_add by exact Hlen. exact Htags.
  - unfold add_frame. cbn [f_chars]. apply ports_add; assumption.
  - intros _. reflexivity.
Qed.

Lemma ids_from_cons z f fs : ids_from z (f :: fs) = true -> af_id f = z /\ ids_from (z + 1) fs = true.
Proof. cbn. intro H. apply andb_true_iff in H as [H1 H2]. apply Z.eqb_eq in H1. split; assumption. Qed.

Lemma run_frames v L slots : forall fs s fro k,
  ver s = v -> ps_layout s = L -> NoDup slots ->
  between v L slots fro ->
  Forall (fun f => wf_frame v L slots f = true) fs ->
  (vgte v 2 2 = false -> exists z, next_ok fro z /\ ids_from z fs = true) ->
  run_events (st s fro k) (flat_map (frame_events v slots) fs)
  = Ok (st s (frames_run v L fro fs) (k + evs_len (flat_map (frame_events v slots) fs))) /\
  between v L slots (frames_run v L fro fs).
Proof.
  induction fs as [|f fs IH]; intros s fro k Hver HL Hnd Hbt Hwf Hids.
  - cbn. rewrite N.add_0_r. split; [reflexivity|exact Hbt].
  - inversion Hwf as [|? ? Hwff Hwf']; subst.
    destruct Hbt as [Bsh Binv Btags Bports Bclosed].
    destruct (wf_frame_inv _ _ _ _ Hwff) as (Hid & _ & _ & Hits & Hlsl & _ & _).
    cbn [flat_map]. rewrite run_events_app.
    assert (Hstep : run_events (st s fro k) (frame_events (ver s) slots f)
                    = Ok (st s (step_frames (ver s) (ps_layout s) fro f) (k + evs_len (frame_events (ver s) slots f))) /\
                    between (ver s) (ps_layout s) slots (step_frames (ver s) (ps_layout s) fro f) /\
                    (vgte (ver s) 2 2 = false -> next_ok (step_frames (ver s) (ps_layout s) fro f) (af_id f + 1))).
    { unfold step_frames. destruct (vgte (ver s) 3 0) eqn:Hv30.
      - rewrite <- (Bclosed eq_refl) at 1.
        rewrite (Bclosed eq_refl) in Bsh, Binv, Btags, Bports.
        rewrite (Bclosed eq_refl).
        split; [apply (frame_ge30 s fro k f slots Hv30 Bsh Binv Btags Hnd Bports Hwff)|].
        split; [apply between_add; assumption|].
        intro H22. apply gte30_22 in Hv30. congruence.
      - assert (Hlen : length (f_chars (closef (ps_layout s) fro)) = length (af_slots f))
          by (rewrite Hlsl, <- Btags; unfold tags; rewrite map_length; reflexivity).
        assert (Hit : af_items f = []) by exact Hits.
        assert (Hbt' : between (ver s) (ps_layout s) slots (add_open (closef (ps_layout s) fro) f)).
        { pose proof (close_add_open (ver s) (ps_layout s) _ f Hv30 Bsh Binv Hlen Hit) as Hc.
          pose proof (between_add (ver s) (ps_layout s) slots _ f Bsh Binv Btags Bports Hlsl) as [A1 A2 A3 A4 A5].
          rewrite closef_closed in A1, A2, A3, A4 by (apply finv_add; assumption).
          constructor; rewrite ?Hc; try assumption. intro Hx. congruence. }
        assert (Hnx : next_ok (add_open (closef (ps_layout s) fro) f) (af_id f + 1)).
        { unfold next_ok, add_open. cbn [f_ids]. rewrite last_map_snoc. reflexivity. }
        destruct (vgte (ver s) 2 2) eqn:Hv22.
        + split; [apply (frame_22 s fro k f slots Hv22 Hv30 Bsh Btags Hnd Bports Hwff)|].
          split; [exact Hbt'|intros _; exact Hnx].
        + destruct (Hids eq_refl) as (z & Hnext & Hfrom). apply ids_from_cons in Hfrom as [Hz _]. subst z.
          split; [apply (frame_lt22 s fro k f slots Hv22 Bsh Btags Hnd Bports Hwff Hnext)|].
          split; [exact Hbt'|intros _; exact Hnx]. }
    destruct Hstep as (Hrun & Hbt1 & Hnx1). rewrite Hrun.
    destruct (IH s (step_frames (ver s) (ps_layout s) fro f) (k + evs_len (frame_events (ver s) slots f))%N eq_refl eq_refl Hnd Hbt1 Hwf') as [Hrun2 Hbt2].
    { intro H22. destruct (Hids H22) as (z & _ & Hfrom). apply ids_from_cons in Hfrom as [Hz Hfrom']. subst z.
      exists (af_id f + 1)%Z. split; [apply Hnx1; exact H22|exact Hfrom']. }
    rewrite Hrun2. split; [|exact Hbt2].
    f_equal. f_equal. rewrite evs_len_app. lia.
Qed.

(* closing the final state gives the fold of add_frame over the history *)
Lemma close_run v L slots : forall fs fro,
  between v L slots fro -> Forall (fun f => wf_frame v L slots f = true) fs ->
  closef L (frames_run v L fro fs) = fold_left (add_frame v L) fs (closef L fro).
Proof.
  induction fs as [|f fs IH]; intros fro Hbt Hwf; [reflexivity|].
  inversion Hwf as [|? ? Hwff Hwf']; subst.
  destruct Hbt as [Bsh Binv Btags Bports Bclosed].
  destruct (wf_frame_inv _ _ _ _ Hwff) as (_ & _ & _ & Hits & Hlsl & _ & _).
  assert (Hlen : length (f_chars (closef L fro)) = length (af_slots f))
    by (rewrite Hlsl, <- Btags; unfold tags; rewrite map_length; reflexivity).
  cbn [frames_run fold_left]. fold (frames_run v L (step_frames v L fro f) fs).
  assert (Hstep : between v L slots (step_frames v L fro f) /\ closef L (step_frames v L fro f) = add_frame v L (closef L fro) f).
  { unfold step_frames. destruct (vgte v 3 0) eqn:Hv30.
    - rewrite <- (Bclosed eq_refl) at 1 2. split.
      + apply between_add; assumption.
      + apply closef_closed. apply finv_add; assumption.
    - assert (Hit : af_items f = []) by exact Hits.
      pose proof (close_add_open v L _ f Hv30 Bsh Binv Hlen Hit) as Hc. split; [|exact Hc].
      pose proof (between_add v L slots _ f Bsh Binv Btags Bports Hlsl) as [A1 A2 A3 A4 A5].
      rewrite closef_closed in A1, A2, A3, A4 by (apply finv_add; assumption).
      constructor; rewrite ?Hc; try assumption. intro Hx. congruence. }
  destruct Hstep as [Hbt1 Hc1]. rewrite (IH _ Hbt1 Hwf'). rewrite Hc1. reflexivity.
Qed.
