(* C01, reader half: reading the canonical byte stream of a well-formed replay yields exactly the game the
   replay denotes.  Assembles Framing (header, table, start), GeckoProof (splitter blocks), FrameStep (frame
   history), UbjsonProof (metadata). *)
From Coq Require Import List Arith NArith ZArith Lia Bool String ZifyBool ZifyN ZifyNat.
From Coq.Strings Require Import Byte.
From Peppi Require Import Base.Bytes Base.Outcome Base.Stream Layout.Syntax Gen.Funs Layout.Sem Layout.Rows
  Model.Ubjson Model.Start Model.Json Model.Parse Model.Reader Model.Writer Model.Recorder
  Proofs.Framing Proofs.FrameStep Proofs.GeckoProof Proofs.StartFacts Proofs.TableFacts Proofs.UbjsonProof.
Import ListNotations.
Notation length := (@List.length _) (only parsing).

(* ---- slp_read cut into named pieces (definitional) ---- *)
Definition read_skip (o : opts) (raw_len : N) (s : pstate) (bs : list byte) : outcome (pstate * list byte) :=
  if o_skip o then
    match lookup_size (ps_sizes s) Event_GameEnd with
    | None => Panic 301
    | Some esz =>
        let end_offset := (1 + esz)%N in
        if N.eqb raw_len 0 || (raw_len <? ps_bytes_read s + end_offset)%N then Err EInvalid
        else
          let skip := (raw_len - ps_bytes_read s - end_offset)%N in
          Ok (add_bytes_read s skip, drop_upto skip bs)
    end
  else Ok (s, bs).

Definition read_dup (raw_len : N) (s : pstate) (bs : list byte) : outcome (pstate * list byte) :=
  if (ps_bytes_read s <? raw_len)%N then
    let len := (raw_len - ps_bytes_read s)%N in
    '(buf, bs) <- rd_exact_N len bs ;;
    if N.eqb len (1 + game_End_size (ver s)) && N.eqb (b2n (hd x00 buf)) Event_GameEnd
    then Ok (set_quirk s, bs) else Ok (s, bs)
  else Ok (s, bs).

Definition read_tail (o : opts) (bs0 : list byte) (s : pstate) (bs : list byte) : outcome (game * list byte) :=
  '(b, bs) <- rd_u8 bs ;;
  '(s, bs) <-
     (if N.eqb b 85 then
        '(s, bs) <- parse_metadata s bs ;;
        '(_, bs) <- expect_bytes [x7d] bs ;;
        Ok (s, bs)
      else if N.eqb b 125 then Ok (s, bs)
      else Err EInvalid) ;;
  Ok (game_of_state s (if o_hash o then Some (length bs0 - length bs)%nat else None), bs).

Lemma slp_read_eq o bs0 :
  slp_read o bs0 =
  ('(raw_len, bs) <- parse_header bs0 ;;
   '(s, bs) <- parse_start bs ;;
   '(s, bs) <- read_skip o raw_len s bs ;;
   '(s, bs) <- event_loop (S (length bs)) raw_len s bs ;;
   let s := if vlt (ver s) 3 0 then frame_close s else s in
   '(s, bs) <- read_dup raw_len s bs ;;
   read_tail o bs0 s bs).
Proof. reflexivity. Qed.

(* ---- the tail: metadata and the closing brace ---- *)
Lemma sig_meta_full_eq : sig_meta_full = n2b 85 :: sig_meta.
Proof. reflexivity. Qed.

Lemma wf_meta_inv t : wf_meta (Some t) = true -> wf_tree t /\ (1 + depth_map t <= UBJSON_MAX_DEPTH)%N.
Proof.
  unfold wf_meta. intro H. apply andb_true_iff in H as [H1 H2]. split.
  - exact (wf_uval_b_sound _ _ H1).
  - apply N.leb_le. exact H2.
Qed.

Lemma emit_meta_some t : wf_meta (Some t) = true -> exists b, write_map t = Ok b /\ emit_meta (Some t) = sig_meta_full ++ b ++ [x7d].
Proof.
  intro H. destruct (wf_meta_inv t H) as [Hw _]. destruct (write_map_ok t Hw) as [b Hb].
  exists b. split; [exact Hb|]. unfold emit_meta. rewrite Hb. reflexivity.
Qed.

Lemma read_tail_emit o bs0 s m :
  wf_meta m = true ->
  read_tail o bs0 s (emit_meta m ++ [x7d])
  = Ok (game_of_state (match m with Some t => set_meta s t | None => s end)
                      (if o_hash o then Some (length bs0) else None), []).
Proof.
  intro Hm. destruct m as [t|].
  - destruct (emit_meta_some t Hm) as (b & Hb & He). destruct (wf_meta_inv t Hm) as [Hw Hd].
    rewrite He, sig_meta_full_eq. unfold read_tail. cbn [app rd_u8 bind].
    replace (b2n (n2b 85)) with 85%N by reflexivity. cbn [N.eqb Pos.eqb].
    unfold parse_metadata, pbind. rewrite <- !app_assoc. rewrite expect_bytes_app.
    change ([x7d] ++ [x7d]) with (xClose :: [x7d]).
    rewrite (read_write_map t b [x7d] Hw Hd Hb). cbn [bind].
    replace (expect_bytes [x7d] [x7d]) with (@Ok (unit * list byte) (tt, [])) by reflexivity.
    cbn [bind List.length]. rewrite Nat.sub_0_r. reflexivity.
  - unfold emit_meta, read_tail. cbn [app rd_u8 bind].
    replace (b2n x7d) with 125%N by reflexivity. cbn [N.eqb Pos.eqb bind List.length]. rewrite Nat.sub_0_r. reflexivity.
Qed.

(* ---- the doubled Game End ---- *)
Lemma read_dup_none raw_len s bs : ps_bytes_read s = raw_len -> read_dup raw_len s bs = Ok (s, bs).
Proof. intro H. unfold read_dup. rewrite H, N.ltb_irrefl. reflexivity. Qed.

Lemma read_dup_second raw_len s b rest :
  (ps_bytes_read s + (1 + nn (length b)) = raw_len)%N -> nn (length b) = game_End_size (ver s) ->
  read_dup raw_len s (ev Event_GameEnd ++ b ++ rest) = Ok (set_quirk s, rest).
Proof.
  intros Hb Hl. unfold read_dup.
  replace (ps_bytes_read s <? raw_len)%N with true by (symmetry; apply N.ltb_lt; lia).
  replace (raw_len - ps_bytes_read s)%N with (1 + nn (length b))%N by lia.
  unfold rd_exact_N.
  replace (N.of_nat (length (ev Event_GameEnd ++ b ++ rest)) <? 1 + nn (length b))%N with false.
  2:{ symmetry. apply N.ltb_ge. rewrite !app_length. unfold ev, nn. cbn [List.length]. lia. }
  rewrite app_assoc. rewrite rd_exact_app.
  2:{ rewrite app_length. unfold ev, nn. cbn [List.length]. lia. }
  cbn [bind]. rewrite Hl, N.eqb_refl. unfold ev. cbn [app hd].
  replace (b2n (n2b Event_GameEnd)) with Event_GameEnd by reflexivity. rewrite N.eqb_refl. reflexivity.
Qed.

(* ---- one Game End event ends the loop ---- *)
Lemma end_step f raw_len s b e rest :
  lookup_size (ps_sizes s) Event_GameEnd = Some (nn (length b)) -> game_end b = ROk e ->
  (ps_bytes_read s < raw_len)%N ->
  event_loop (S f) raw_len s (ev Event_GameEnd ++ b ++ rest)
  = Ok (add_bytes_read (set_end (if vlt (ver s) 3 0 then frame_close s else s) e) (nn (length b) + 1), rest).
Proof.
  intros Hl He Hb. cbn [event_loop].
  replace (N.eqb raw_len 0 || (ps_bytes_read s <? raw_len)%N) with true
    by (symmetry; apply orb_true_iff; right; apply N.ltb_lt; exact Hb).
  unfold ev. cbn [app].
  rewrite (parse_event_enc s Event_GameEnd (nn (length b)) b rest); [|reflexivity|exact Hl|unfold nn; rewrite Nat2N.id; reflexivity].
  rewrite handle_event_known by reflexivity.
  change (handle_known Event_GameEnd) with arm_end. unfold arm_end. rewrite He. cbn [res_outcome bind].
  rewrite N.eqb_refl. reflexivity.
Qed.

Lemma loop_exit f raw_len s bs : raw_len <> 0%N -> ps_bytes_read s = raw_len -> event_loop (S f) raw_len s bs = Ok (s, bs).
Proof.
  intros Hz Hb. cbn [event_loop]. rewrite Hb, N.ltb_irrefl.
  replace (N.eqb raw_len 0) with false by (symmetry; apply N.eqb_neq; exact Hz). reflexivity.
Qed.

(* ---- events and bytes ---- *)
Lemma evs_len_bytes es : evs_len es = nn (length (flat_map enc_ev es)).
Proof.
  induction es as [|e es IH]; [reflexivity|]. rewrite evs_len_cons, IH. cbn [flat_map]. rewrite app_length.
  generalize (length (flat_map enc_ev es)). intro n.
  unfold enc_ev, nn. cbn [List.length]. lia.
Qed.

Lemma evs_count_le es : (length es <= length (flat_map enc_ev es))%nat.
Proof.
  induction es as [|e es IH]; [apply le_n|]. cbn [flat_map List.length]. rewrite app_length. unfold enc_ev at 1. cbn [List.length]. lia.
Qed.

Lemma flat_map_flat_map {A B C} (f : A -> list B) (g : B -> list C) l :
  flat_map g (flat_map f l) = flat_map (fun a => flat_map g (f a)) l.
Proof. induction l as [|a l IH]; [reflexivity|]. cbn [flat_map]. rewrite flat_map_app, IH. reflexivity. Qed.

Lemma length_i32 z : length (i32_bytes z) = 4%nat.
Proof. unfold i32_bytes. apply length_be_enc. Qed.

(* ---- frames_new ---- *)
Lemma tags_new v ports : tags (f_chars (frames_new v ports)) = slots_of ports.
Proof.
  unfold frames_new, slots_of, tags. cbn [f_chars]. induction ports as [|[p ic] ps IH]; [reflexivity|].
  cbn [flat_map fst snd]. destruct ic; cbn [app map sl_port sl_fol]; rewrite IH; reflexivity.
Qed.

Lemma finv_new v ports : finv (frames_new v ports).
Proof.
  unfold finv, frames_new. cbn [f_ids f_chars List.length]. apply Forall_forall. intros c Hc.
  apply in_flat_map in Hc as (p & _ & Hc). destruct (snd p); cbn in Hc.
  - destruct Hc as [<-|[<-|[]]]; repeat split; try reflexivity; intros b Hb; discriminate.
  - destruct Hc as [<-|[]]; repeat split; try reflexivity; intros b Hb; discriminate.
Qed.

Lemma between_new v L ports :
  Forall (fun sl : N * bool => (fst sl < 256)%N) (slots_of ports) ->
  between v L (slots_of ports) (frames_new v ports).
Proof.
  intro Hp. pose proof (closef_closed L _ (finv_new v ports)) as Hc.
  constructor; rewrite ?Hc.
  - apply shape_new.
  - apply finv_new.
  - apply tags_new.
  - rewrite <- tags_new with (v := v) in Hp. unfold tags in Hp. rewrite Forall_map in Hp. exact Hp.
  - intros _. reflexivity.
Qed.

(* ---- gecko events are table-conformant ---- *)
Lemma gecko_events_ok c : forall k pos, (pos + 512 * k <= length (gk_bytes c))%nat ->
  Forall (fun e : N * list byte => fst e = Event_MessageSplitter /\ length (snd e) = 516%nat) (gecko_events k pos c).
Proof.
  induction k as [|k IH]; intros pos H; [constructor|]. cbn [gecko_events]. constructor.
  - cbn [fst snd]. split; [reflexivity|]. rewrite !app_length, firstn_length, skipn_length, length_be_enc. unfold ev. cbn [List.length]. lia.
  - apply IH. lia.
Qed.

Section Read.
Variables (r : replay) (st : start_t).
Hypothesis Hwf : wf_replay r = true.
Hypothesis Hst : game_start (r_start r) = ROk st.

Let v := r_ver r.
Let L := layout_of v.
Let ports := port_occupancy st.
Let slots := slots_of ports.
Let t := rec_table r.
Let sizes := rev t.
Let fs := r_frames r.
Let rawlen := nn (length (raw_of r)).

Lemma Hver : st_version st = v.
Proof. destruct (game_start_fields _ _ Hst) as (_ & H & _). exact H. Qed.

Definition B0 : N := (1 + (nn (length t) * 3 + 1) + nn (length (r_start r)) + 1)%N.

Definition s0 : pstate :=
  {| ps_sizes := sizes; ps_bytes_read := B0; ps_split_raw := []; ps_split_actual := 0;
     ps_layout := L; ps_start := st; ps_end := None;
     ps_frames := frames_new v ports; ps_meta := None; ps_gecko := None; ps_quirk := None |}.

Lemma ver_s0 : ver s0 = v. Proof. exact Hver. Qed.

Lemma parse_start_raw rest : parse_start (emit_table t ++ ev Event_GameStart ++ r_start r ++ rest) = Ok (s0, rest).
Proof.
  destruct (rec_table_ok r st Hwf Hst) as (Hok & Hlen & Hnd).
  unfold parse_start, pbind.
  rewrite parse_payloads_emit; try assumption.
  2:{ fold t. unfold t. rewrite (lk_rev r st Hwf Hst), lk_start. discriminate. }
  2:{ fold t. unfold t. rewrite (lk_rev r st Hwf Hst), lk_end. discriminate. }
  cbv beta iota.
  rewrite (parse_game_start_emit (rev (rec_table r)) _ (r_start r) st rest); [| |exact Hst].
  2:{ rewrite (lk_rev r st Hwf Hst), lk_start. reflexivity. }
  unfold ret. rewrite Hver. reflexivity.
Qed.

(* the byte stream, regrouped *)
Definition Gb : list byte := match r_gecko r with Some c => emit_gecko (length (gk_bytes c) / 512) 0 c | None => [] end.
Definition Fb : list byte := flat_map (emit_frame v slots) fs.

Lemma raw_split : raw_of r = emit_table t ++ ev Event_GameStart ++ r_start r ++ Gb ++ Fb ++ emit_end r.
Proof. unfold raw_of, Gb, Fb, slots_r. rewrite Hst. reflexivity. Qed.

Definition gevs : list (N * list byte) :=
  match r_gecko r with Some c => gecko_events (length (gk_bytes c) / 512) 0 c | None => [] end.
Definition fevs : list (N * list byte) := flat_map (frame_events v slots) fs.

Lemma gevs_bytes : flat_map enc_ev gevs = Gb.
Proof. unfold gevs, Gb. destruct (r_gecko r); [apply gecko_events_bytes|reflexivity]. Qed.

Lemma fevs_bytes : flat_map enc_ev fevs = Fb.
Proof.
  unfold fevs, Fb. rewrite flat_map_flat_map. induction fs as [|f l IH]; [reflexivity|].
  cbn [flat_map]. rewrite frame_events_bytes, IH. reflexivity.
Qed.

Lemma B0_len : B0 = nn (length (emit_table t ++ ev Event_GameStart ++ r_start r)).
Proof.
  unfold B0, emit_table. rewrite !app_length. unfold ev. cbn [List.length].
  assert (Hfl : forall l : list (N * N), length (flat_map (fun p => n2b (fst p) :: be_enc 2 (snd p)) l) = (3 * length l)%nat).
  { induction l as [|x l IHl]; [reflexivity|]. cbn [flat_map List.length app]. rewrite app_length, length_be_enc, IHl. lia. }
  rewrite Hfl. unfold nn. lia.
Qed.

Lemma rawlen_eq : rawlen = (B0 + evs_len gevs + evs_len fevs + nn (length (emit_end r)))%N.
Proof.
  unfold rawlen. rewrite raw_split, B0_len, !evs_len_bytes, gevs_bytes, fevs_bytes.
  rewrite !app_length. unfold nn. lia.
Qed.

Lemma wf_frames : Forall (fun f => wf_frame v L slots f = true) fs.
Proof. destruct (wf_replay_inv r st Hwf Hst) as (_ & _ & H & _). exact H. Qed.

(* ---- every event of the stream has the size the table announces ---- *)
Lemma char_events_ok pre id sl os :
  Forall (rows_ok L) os ->
  Forall (fun sx : N * bool => (fst sx < 256)%N) sl ->
  Forall (ev_ok sizes) (char_events pre id sl os).
Proof.
  intros Hos. revert sl. induction Hos as [|o os Ho Hos IH]; intros [|sx sl] Hsl; try (unfold char_events; cbn [combine flat_map]; constructor).
  unfold char_events. cbn [combine flat_map]. inversion Hsl as [|? ? Hs Hsl']; subst.
  apply Forall_app. split; [|apply IH; exact Hsl'].
  cbn [snd fst]. destruct o as [[p q]|]; [|constructor]. constructor; [|constructor].
  destruct Ho as [Hp Hq]. unfold ev_ok. cbn [fst snd]. unfold sizes, t. rewrite (lk_rev r st Hwf Hst).
  destruct pre.
  - split; [reflexivity|]. rewrite lk_pre. f_equal. rewrite !app_length, length_i32. cbn [List.length]. fold v L. unfold nn. lia.
  - split; [reflexivity|]. rewrite lk_post. f_equal. rewrite !app_length, length_i32. cbn [List.length]. fold v L. unfold nn. lia.
Qed.

Lemma slots_small : Forall (fun sx : N * bool => (fst sx < 256)%N) slots.
Proof. exact (slots_ports_small _ _ Hst). Qed.

Lemma frame_events_ok f : wf_frame v L slots f = true -> Forall (ev_ok sizes) (frame_events v slots f).
Proof.
  intro Hf. destruct (wf_frame_inv _ _ _ _ Hf) as (_ & Hls & Hle & Hits & _ & Hrows & _).
  unfold frame_events. repeat (apply Forall_app; split).
  - destruct (vgte v 2 2) eqn:H22; [|constructor]. constructor; [|constructor].
    unfold ev_ok. cbn [fst snd]. split; [reflexivity|]. unfold sizes, t. rewrite (lk_rev r st Hwf Hst), (lk_fstart r H22).
    f_equal. rewrite app_length, length_i32, Hls. fold v L. reflexivity.
  - apply char_events_ok; [exact Hrows|exact slots_small].
  - destruct (vgte v 3 0) eqn:H30; [|constructor]. apply Forall_forall. intros e He. apply in_map_iff in He as (it & <- & Hit).
    rewrite Forall_forall in Hits. specialize (Hits it Hit).
    unfold ev_ok. cbn [fst snd]. split; [reflexivity|]. unfold sizes, t. rewrite (lk_rev r st Hwf Hst), (lk_item r H30).
    f_equal. rewrite app_length, length_i32, Hits. fold v L. reflexivity.
  - apply char_events_ok; [exact Hrows|exact slots_small].
  - destruct (vgte v 3 0) eqn:H30; [|constructor]. constructor; [|constructor].
    unfold ev_ok. cbn [fst snd]. split; [reflexivity|]. unfold sizes, t. rewrite (lk_rev r st Hwf Hst), (lk_fend r H30).
    f_equal. rewrite app_length, length_i32, Hle. fold v L. reflexivity.
Qed.

Lemma fevs_ok : Forall (ev_ok sizes) fevs.
Proof.
  unfold fevs. pose proof wf_frames as H. induction H as [|f l Hf Hl IH]; [constructor|].
  cbn [flat_map]. apply Forall_app. split; [apply frame_events_ok; exact Hf|exact IH].
Qed.

Lemma gevs_ok : Forall (ev_ok sizes) gevs.
Proof.
  unfold gevs. destruct (r_gecko r) as [c|] eqn:Hg; [|constructor].
  destruct (wf_replay_inv r st Hwf Hst) as (_ & _ & _ & _ & Hgk & _). rewrite Hg in Hgk.
  apply wf_gecko_inv in Hgk as (_ & Hlen & _).
  pose proof (gecko_events_ok c (length (gk_bytes c) / 512) 0 ltac:(lia)) as H.
  eapply Forall_impl; [|exact H]. intros e [He1 He2]. unfold ev_ok. rewrite He1, He2. split; [reflexivity|].
  unfold sizes, t. rewrite (lk_rev r st Hwf Hst), (lk_splitter r st Hwf Hst c Hg). reflexivity.
Qed.

(* ---- running the whole event stream ---- *)
Lemma stg_s0 : stg s0 [] 0 None 0 = s0.
Proof. unfold stg, s0. cbn [ps_sizes ps_bytes_read ps_layout ps_start ps_end ps_frames ps_meta ps_quirk]. f_equal. lia. Qed.

Lemma enc_len_const (n : nat) (es : list (N * list byte)) :
  Forall (fun e => length (snd e) = n) es -> length (flat_map enc_ev es) = (S n * length es)%nat.
Proof.
  induction 1 as [|e es He Hes IH]; [cbn [flat_map List.length]; lia|]. cbn [flat_map List.length]. rewrite app_length, IH. unfold enc_ev. cbn [List.length]. lia.
Qed.

Lemma gecko_events_count c : forall k pos, length (gecko_events k pos c) = k.
Proof. induction k as [|k IH]; intro pos; [reflexivity|]. cbn [gecko_events List.length]. rewrite IH. reflexivity. Qed.

Definition sg : pstate :=
  match r_gecko r with Some c => stg s0 [] (gk_actual c) (Some c) (evs_len gevs) | None => s0 end.

Lemma run_gecko : run_events s0 gevs = Ok sg.
Proof.
  unfold sg. pose proof rawlen_eq as Hraw. unfold gevs in *. destruct (r_gecko r) as [c|] eqn:Hg; [|reflexivity].
  destruct (wf_replay_inv r st Hwf Hst) as (_ & _ & _ & _ & Hgk & _ & _ & Hbound). rewrite Hg in Hgk.
  apply wf_gecko_inv in Hgk as (_ & Hlen & Hk & Hwin & _).
  set (k := (length (gk_bytes c) / 512)%nat) in *.
  assert (Hbytes : evs_len (gecko_events k 0 c) = nn (517 * k)).
  { rewrite evs_len_bytes. f_equal. rewrite (enc_len_const 516).
    - rewrite gecko_events_count. reflexivity.
    - eapply Forall_impl; [|apply (gecko_events_ok c k 0); lia]. intros e [_ He]. exact He. }
  assert (Hact : (gk_actual c < 4294967296)%N).
  { fold rawlen in Hbound. unfold nn in *. lia. }
  destruct (run_gecko_blocks c k 0 s0 [] 0%N 0%N Hk ltac:(lia) ltac:(lia) Hact ltac:(unfold nn; lia)) as (kb & Hrun & Hkb).
  rewrite stg_s0 in Hrun. rewrite Hrun. f_equal. subst kb.
  replace (0 + nn (N.to_nat (gk_actual c) - 0))%N with (gk_actual c) by (unfold nn; lia).
  rewrite N.add_0_l. change ([] ++ skipn 0 (gk_bytes c)) with (gk_bytes c). destruct c; reflexivity.
Qed.

Lemma sg_frames : ps_frames sg = frames_new v ports. Proof. unfold sg. destruct (r_gecko r); reflexivity. Qed.
Lemma sg_ver : ver sg = v. Proof. unfold sg. destruct (r_gecko r); exact Hver. Qed.
Lemma sg_layout : ps_layout sg = L. Proof. unfold sg. destruct (r_gecko r); reflexivity. Qed.

Definition FR : frames := frames_run v L (frames_new v ports) fs.
Definition s1 : pstate := FrameStep.st sg FR (evs_len fevs).

Lemma run_all : run_events s0 (gevs ++ fevs) = Ok s1 /\ between v L slots FR.
Proof.
  rewrite run_events_app, run_gecko. rewrite <- (st_id sg) at 1. rewrite sg_frames.
  destruct (wf_replay_inv r st Hwf Hst) as (_ & _ & _ & Hids & _).
  destruct (run_frames v L slots fs sg (frames_new v ports) 0%N sg_ver sg_layout (slots_r_nodup _ _ Hst)
              (between_new v L ports slots_small) wf_frames) as [Hrun Hbt].
  { intro H22. exists FIRST_INDEX. split; [reflexivity|apply Hids; exact H22]. }
  unfold fevs, s1, FR. rewrite Hrun. rewrite N.add_0_l. split; [reflexivity|exact Hbt].
Qed.

Lemma s1_env : ps_sizes s1 = sizes /\ ps_layout s1 = L /\ ps_start s1 = st /\
               ps_bytes_read s1 = (B0 + evs_len gevs + evs_len fevs)%N.
Proof.
  destruct run_all as [H _]. apply run_events_env in H as (H1 & H2 & H3 & H4).
  rewrite evs_len_app in H4. repeat split; try assumption. rewrite H4. cbn [s0 ps_bytes_read]. lia.
Qed.

Lemma s1_ver : ver s1 = v. Proof. unfold s1. rewrite st_ver. exact sg_ver. Qed.
Lemma s1_frames : ps_frames s1 = FR. Proof. reflexivity. Qed.
Lemma s1_misc : ps_gecko s1 = r_gecko r /\ ps_end s1 = None /\ ps_quirk s1 = None /\ ps_meta s1 = None.
Proof. unfold s1, sg. destruct (r_gecko r); repeat split; reflexivity. Qed.

Lemma loop_body rest :
  event_loop (S (length (Gb ++ Fb ++ rest))) rawlen s0 (Gb ++ Fb ++ rest)
  = event_loop (S (length (Gb ++ Fb ++ rest) - length (gevs ++ fevs))) rawlen s1 rest.
(* note: S (a - b), not S a - b *)
Proof.
  destruct run_all as [Hrun _].
  assert (Hb : Gb ++ Fb ++ rest = flat_map enc_ev (gevs ++ fevs) ++ rest).
  { rewrite flat_map_app, gevs_bytes, fevs_bytes, <- app_assoc. reflexivity. }
  assert (Hc : (length (gevs ++ fevs) <= length (Gb ++ Fb ++ rest))%nat).
  { rewrite Hb. rewrite (app_length (flat_map enc_ev (gevs ++ fevs)) rest). pose proof (evs_count_le (gevs ++ fevs)). lia. }
  set (n := length (Gb ++ Fb ++ rest)) in *.
  change (S n - length (gevs ++ fevs))%nat with (S n - length (gevs ++ fevs))%nat.
  replace (S n) with (length (gevs ++ fevs) + S (n - length (gevs ++ fevs)))%nat at 1 by lia.
  rewrite Hb. apply loop_events.
  - exact Hrun.
  - cbn [s0 ps_sizes]. apply Forall_app. split; [exact gevs_ok|exact fevs_ok].
  - cbn [s0 ps_bytes_read]. rewrite evs_len_app, rawlen_eq. lia.
Qed.

(* ---- the frames of the result ---- *)
Lemma final_frames : closef L FR = frames_of v ports fs /\ closef L (closef L FR) = closef L FR /\
                     (vgte v 3 0 = true -> closef L FR = FR).
Proof.
  destruct run_all as [_ Hbt]. repeat split.
  - unfold FR. rewrite (close_run v L slots fs _ (between_new v L ports slots_small) wf_frames).
    rewrite (closef_closed L _ (finv_new v ports)). reflexivity.
  - apply closef_closed. apply (bt_inv _ _ _ _ Hbt).
  - apply (bt_closed _ _ _ _ Hbt).
Qed.

Definition close_if (s : pstate) : pstate := if vlt (ver s) 3 0 then frame_close s else s.

Lemma close_if_proj s :
  ps_sizes (close_if s) = ps_sizes s /\ ps_bytes_read (close_if s) = ps_bytes_read s /\ ps_layout (close_if s) = ps_layout s /\
  ps_start (close_if s) = ps_start s /\ ps_end (close_if s) = ps_end s /\ ps_meta (close_if s) = ps_meta s /\
  ps_gecko (close_if s) = ps_gecko s /\ ps_quirk (close_if s) = ps_quirk s /\ ver (close_if s) = ver s /\
  ps_frames (close_if s) = if vlt (ver s) 3 0 then closef (ps_layout s) (ps_frames s) else ps_frames s.
Proof. unfold close_if. destruct (vlt (ver s) 3 0); repeat split; reflexivity. Qed.

Lemma cl_FR : (if vlt v 3 0 then closef L FR else FR) = frames_of v ports fs.
Proof.
  destruct final_frames as (Hff & Hcc & Hc30). rewrite vlt_vgte. destruct (vgte v 3 0); cbn [negb].
  - rewrite <- Hc30 by reflexivity. exact Hff.
  - exact Hff.
Qed.

Lemma cl_cl : (if vlt v 3 0 then closef L (frames_of v ports fs) else frames_of v ports fs) = frames_of v ports fs.
Proof.
  destruct final_frames as (Hff & Hcc & Hc30). destruct (vlt v 3 0); [|reflexivity]. rewrite <- Hff. exact Hcc.
Qed.

Lemma emit_split : emit r = sig_slp ++ be_enc 4 rawlen ++ emit_table t ++ ev Event_GameStart ++ r_start r ++ Gb ++ Fb
                            ++ emit_end r ++ emit_meta (r_meta r) ++ [x7d].
Proof. unfold emit. fold rawlen. rewrite raw_split, <- !app_assoc. reflexivity. Qed.

Lemma game_eq_full s' (h : bool) :
  ps_start s' = st -> ps_end s' = end_of r -> ps_frames s' = frames_of v ports fs -> ps_meta s' = None ->
  ps_gecko s' = r_gecko r -> ps_quirk s' = (match r_end r return option bool with TwoEnds _ => Some true | _ => None end) ->
  game_of_state (match r_meta r with Some m => set_meta s' m | None => s' end) (if h then Some (length (emit r)) else None)
  = game_of {| o_skip := false; o_hash := h |} r st (end_of r).
Proof.
  intros H1 H2 H3 H4 H5 H6. unfold game_of_state, game_of. cbn [o_skip o_hash].
  destruct (r_meta r); cbn [set_meta ps_start ps_end ps_frames ps_meta ps_gecko ps_quirk]; rewrite ?H1, ?H2, ?H3, ?H4, ?H5, ?H6; reflexivity.
Qed.

Lemma end_lookup b : end_blk r = Some b -> lookup_size (ps_sizes s1) Event_GameEnd = Some (nn (length b)).
Proof.
  intro Hb. destruct s1_env as (Hsz & _). rewrite Hsz. unfold sizes, t. rewrite (lk_rev r st Hwf Hst), lk_end, Hb. reflexivity.
Qed.

Theorem read_full h :
  slp_read {| o_skip := false; o_hash := h |} (emit r)
  = Ok (game_of {| o_skip := false; o_hash := h |} r st (end_of r), []).
Proof.
  destruct (wf_replay_inv r st Hwf Hst) as (_ & _ & _ & _ & _ & Hend & Hmeta & Hbound).
  pose proof s1_env as (Hsz & Hlay & Hstart & Hbr). pose proof s1_misc as (Hgk & Hen & Hq & Hm).
  pose proof rawlen_eq as Hraw. pose proof s1_ver as Hv1.
  rewrite emit_split at 1. rewrite slp_read_eq.
  rewrite parse_header_emit by exact Hbound. cbn [bind].
  rewrite parse_start_raw. cbn [bind].
  unfold read_skip. cbn [o_skip bind].
  rewrite loop_body. rewrite <- emit_split.
  set (fuel := (length (Gb ++ Fb ++ emit_end r ++ emit_meta (r_meta r) ++ [x7d]) - length (gevs ++ fevs))%nat).
  fold (close_if s1).
  destruct (close_if_proj s1) as (C1 & C2 & C3 & C4 & C5 & C6 & C7 & C8 & C9 & C10).
  rewrite Hv1, Hlay in C10. change (ps_frames s1) with FR in C10. rewrite cl_FR in C10.
  destruct (r_end r) as [|b|b] eqn:Hre; unfold emit_end in *; rewrite Hre in *.
  - (* no Game End *)
    rewrite app_nil_l. cbn [List.length] in Hraw.
    rewrite loop_exit; [| unfold nn in *; unfold B0 in *; lia | unfold nn in *; lia]. cbn [bind].
    fold (close_if s1).
    rewrite read_dup_none by (rewrite C2; unfold nn in *; lia).
    cbn [bind]. rewrite (read_tail_emit _ _ _ _ Hmeta). cbn [o_hash]. f_equal. f_equal.
    apply game_eq_full; rewrite ?C4, ?C5, ?C6, ?C7, ?C8, ?C10; try assumption; try reflexivity.
    + rewrite Hen. unfold end_of, end_blk. rewrite Hre. reflexivity.
    + rewrite Hre. exact Hq.
  - (* one Game End *)
    assert (Hb : end_blk r = Some b) by (unfold end_blk; rewrite Hre; reflexivity).
    destruct (Hend b Hb) as [Hbl [e He]].
    rewrite app_length in Hraw. unfold ev in Hraw. cbn [List.length] in Hraw.
    rewrite <- app_assoc.
    rewrite (end_step fuel rawlen s1 b e _ (end_lookup b Hb) He) by (unfold nn in *; lia).
    cbn [bind]. fold (close_if s1).
    set (sE := add_bytes_read (set_end (close_if s1) e) (nn (length b) + 1)).
    fold (close_if sE).
    destruct (close_if_proj sE) as (D1 & D2 & D3 & D4 & D5 & D6 & D7 & D8 & D9 & D10).
    change (ver sE) with (ver (close_if s1)) in D10. change (ps_layout sE) with (ps_layout (close_if s1)) in D10.
    change (ps_frames sE) with (ps_frames (close_if s1)) in D10. rewrite C9, Hv1, C3, Hlay, C10, cl_cl in D10.
    rewrite read_dup_none.
    2:{ rewrite D2. change (ps_bytes_read sE) with (ps_bytes_read (close_if s1) + (nn (length b) + 1))%N. rewrite C2. unfold nn in *. lia. }
    cbn [bind]. rewrite (read_tail_emit _ _ _ _ Hmeta). cbn [o_hash]. f_equal. f_equal.
    apply game_eq_full; rewrite ?D4, ?D5, ?D6, ?D7, ?D8, ?D10; try reflexivity.
    + change (ps_start sE) with (ps_start (close_if s1)). rewrite C4. exact Hstart.
    + change (ps_end sE) with (Some e). unfold end_of. rewrite Hb, He. reflexivity.
    + change (ps_meta sE) with (ps_meta (close_if s1)). rewrite C6. exact Hm.
    + change (ps_gecko sE) with (ps_gecko (close_if s1)). rewrite C7. exact Hgk.
    + change (ps_quirk sE) with (ps_quirk (close_if s1)). rewrite C8, Hre. exact Hq.
  - (* doubled Game End *)
    assert (Hb : end_blk r = Some b) by (unfold end_blk; rewrite Hre; reflexivity).
    destruct (Hend b Hb) as [Hbl [e He]].
    rewrite !app_length in Hraw. unfold ev in Hraw. cbn [List.length] in Hraw.
    rewrite <- !app_assoc.
    rewrite (end_step fuel rawlen s1 b e _ (end_lookup b Hb) He) by (unfold nn in *; lia).
    cbn [bind]. fold (close_if s1).
    set (sE := add_bytes_read (set_end (close_if s1) e) (nn (length b) + 1)).
    fold (close_if sE).
    destruct (close_if_proj sE) as (D1 & D2 & D3 & D4 & D5 & D6 & D7 & D8 & D9 & D10).
    change (ver sE) with (ver (close_if s1)) in D10, D9. change (ps_layout sE) with (ps_layout (close_if s1)) in D10.
    change (ps_frames sE) with (ps_frames (close_if s1)) in D10. rewrite C9, Hv1, C3, Hlay, C10, cl_cl in D10.
    rewrite C9, Hv1 in D9.
    rewrite read_dup_second.
    2:{ rewrite D2. change (ps_bytes_read sE) with (ps_bytes_read (close_if s1) + (nn (length b) + 1))%N. rewrite C2. unfold nn in *. lia. }
    2:{ rewrite D9. unfold nn. rewrite Hbl. fold v. lia. }
    cbn [bind]. rewrite (read_tail_emit _ _ _ _ Hmeta). cbn [o_hash]. f_equal. f_equal.
    apply game_eq_full.
    + change (ps_start (set_quirk (close_if sE))) with (ps_start (close_if sE)). rewrite D4.
      change (ps_start sE) with (ps_start (close_if s1)). rewrite C4. exact Hstart.
    + change (ps_end (set_quirk (close_if sE))) with (ps_end (close_if sE)). rewrite D5.
      change (ps_end sE) with (Some e). unfold end_of. rewrite Hb, He. reflexivity.
    + change (ps_frames (set_quirk (close_if sE))) with (ps_frames (close_if sE)). exact D10.
    + change (ps_meta (set_quirk (close_if sE))) with (ps_meta (close_if sE)). rewrite D6.
      change (ps_meta sE) with (ps_meta (close_if s1)). rewrite C6. exact Hm.
    + change (ps_gecko (set_quirk (close_if sE))) with (ps_gecko (close_if sE)). rewrite D7.
      change (ps_gecko sE) with (ps_gecko (close_if s1)). rewrite C7. exact Hgk.
    + rewrite Hre. reflexivity.
Qed.

(* ---- the skip-frames path (finished replays) ---- *)
Lemma skipn_exact {A} (X Y : list A) n : length X = n -> skipn n (X ++ Y) = Y.
Proof. intro H. rewrite skipn_app, H, Nat.sub_diag. rewrite skipn_all2 by lia. reflexivity. Qed.

Lemma game_eq_skip s' (h : bool) :
  ps_start s' = st -> ps_end s' = end_of r -> ps_frames s' = frames_new v ports -> ps_meta s' = None ->
  ps_gecko s' = None -> ps_quirk s' = None ->
  game_of_state (match r_meta r with Some m => set_meta s' m | None => s' end) (if h then Some (length (emit r)) else None)
  = game_of {| o_skip := true; o_hash := h |} r st (end_of r).
Proof.
  intros H1 H2 H3 H4 H5 H6. unfold game_of_state, game_of. cbn [o_skip o_hash].
  destruct (r_meta r); cbn [set_meta ps_start ps_end ps_frames ps_meta ps_gecko ps_quirk]; rewrite ?H1, ?H2, ?H3, ?H4, ?H5, ?H6; reflexivity.
Qed.

Lemma cl_new : (if vlt v 3 0 then closef L (frames_new v ports) else frames_new v ports) = frames_new v ports.
Proof. destruct (vlt v 3 0); [|reflexivity]. apply closef_closed. apply finv_new. Qed.

Theorem read_skipping h :
  finished r = true ->
  slp_read {| o_skip := true; o_hash := h |} (emit r)
  = Ok (game_of {| o_skip := true; o_hash := h |} r st (end_of r), []).
Proof.
  intro Hfin.
  destruct (wf_replay_inv r st Hwf Hst) as (_ & _ & _ & _ & _ & Hend & Hmeta & Hbound).
  pose proof rawlen_eq as Hraw.
  assert (Hb : exists b, end_blk r = Some b /\ exists X, Gb ++ Fb ++ emit_end r = X ++ ev Event_GameEnd ++ b /\
                         length (Gb ++ Fb ++ emit_end r) = (length X + 1 + length b)%nat /\ (length b + 1 <= length (emit_end r))%nat).
  { unfold finished, end_blk, emit_end in *. destruct (r_end r) as [|b|b]; [discriminate| |]; exists b; (split; [reflexivity|]).
    - exists (Gb ++ Fb). rewrite <- !app_assoc. split; [reflexivity|]. rewrite !app_length. unfold ev. cbn [List.length]. lia.
    - exists (Gb ++ Fb ++ ev Event_GameEnd ++ b). rewrite <- !app_assoc. split; [reflexivity|]. rewrite !app_length. unfold ev. cbn [List.length]. lia. }
  destruct Hb as (b & Hb & X & HX & HlenX & Hle).
  destruct (Hend b Hb) as [Hbl [e He]].
  assert (Hlk : lookup_size (ps_sizes s0) Event_GameEnd = Some (nn (length b))).
  { cbn [s0 ps_sizes]. unfold sizes, t. rewrite (lk_rev r st Hwf Hst), lk_end, Hb. reflexivity. }
  assert (HGF : (nn (length (Gb ++ Fb ++ emit_end r)) = evs_len gevs + evs_len fevs + nn (length (emit_end r)))%N).
  { rewrite !evs_len_bytes, gevs_bytes, fevs_bytes, !app_length. unfold nn. lia. }
  rewrite emit_split at 1. rewrite slp_read_eq.
  rewrite parse_header_emit by exact Hbound. cbn [bind].
  rewrite parse_start_raw. cbn [bind]. rewrite <- emit_split.
  unfold read_skip. cbn [o_skip]. rewrite Hlk.
  replace (N.eqb rawlen 0 || (rawlen <? ps_bytes_read s0 + (1 + nn (length b)))%N) with false.
  2:{ symmetry. apply orb_false_iff. cbn [s0 ps_bytes_read]. split; [apply N.eqb_neq|apply N.ltb_ge]; unfold nn, B0 in *; lia. }
  cbn [bind].
  set (skip := (rawlen - ps_bytes_read s0 - (1 + nn (length b)))%N).
  assert (Hskip : N.to_nat skip = length X).
  { unfold skip. cbn [s0 ps_bytes_read]. unfold nn in *. lia. }
  assert (Hdrop : drop_upto skip (Gb ++ Fb ++ emit_end r ++ emit_meta (r_meta r) ++ [x7d])
                  = ev Event_GameEnd ++ b ++ emit_meta (r_meta r) ++ [x7d]).
  { replace (Gb ++ Fb ++ emit_end r ++ emit_meta (r_meta r) ++ [x7d])
      with ((Gb ++ Fb ++ emit_end r) ++ emit_meta (r_meta r) ++ [x7d]) by (rewrite <- !app_assoc; reflexivity).
    rewrite HX, <- !app_assoc.
    unfold drop_upto. rewrite !app_length. unfold ev. cbn [List.length].
    match goal with |- context [(?a <=? skip)%N] => destruct (N.leb_spec a skip) as [Hbad|_]; [lia|] end.
    apply skipn_exact. symmetry. exact Hskip. }
  rewrite Hdrop.
  set (sS := add_bytes_read s0 skip).
  rewrite (end_step _ rawlen sS b e _ Hlk He).
  2:{ unfold sS, skip. cbn [add_bytes_read s0 ps_bytes_read]. unfold nn, B0 in *. lia. }
  cbn [bind]. fold (close_if sS).
  set (sE := add_bytes_read (set_end (close_if sS) e) (nn (length b) + 1)).
  fold (close_if sE).
  destruct (close_if_proj sS) as (C1 & C2 & C3 & C4 & C5 & C6 & C7 & C8 & C9 & C10).
  destruct (close_if_proj sE) as (D1 & D2 & D3 & D4 & D5 & D6 & D7 & D8 & D9 & D10).
  change (ver sS) with (ver s0) in C10, C9. rewrite ver_s0 in C10, C9.
  change (ps_layout sS) with L in C10, C3. change (ps_frames sS) with (frames_new v ports) in C10. rewrite cl_new in C10.
  change (ver sE) with (ver (close_if sS)) in D10. change (ps_layout sE) with (ps_layout (close_if sS)) in D10.
  change (ps_frames sE) with (ps_frames (close_if sS)) in D10. rewrite C9, C3, C10, cl_new in D10.
  rewrite read_dup_none.
  2:{ rewrite D2. change (ps_bytes_read sE) with (ps_bytes_read (close_if sS) + (nn (length b) + 1))%N. rewrite C2.
      unfold sS, skip. cbn [add_bytes_read s0 ps_bytes_read]. unfold nn, B0 in *. lia. }
  cbn [bind]. rewrite (read_tail_emit _ _ _ _ Hmeta). cbn [o_hash]. f_equal. f_equal.
  apply game_eq_skip; rewrite ?D4, ?D5, ?D6, ?D7, ?D8, ?D10; try reflexivity.
  + change (ps_start sE) with (ps_start (close_if sS)). rewrite C4. reflexivity.
  + change (ps_end sE) with (Some e). unfold end_of. rewrite Hb, He. reflexivity.
  + change (ps_meta sE) with (ps_meta (close_if sS)). rewrite C6. reflexivity.
  + change (ps_gecko sE) with (ps_gecko (close_if sS)). rewrite C7. reflexivity.
  + change (ps_quirk sE) with (ps_quirk (close_if sS)). rewrite C8. reflexivity.
Qed.
End Read.

Check read_full : forall r st, wf_replay r = true -> game_start (r_start r) = ROk st -> forall h,
  slp_read {| o_skip := false; o_hash := h |} (emit r) = Ok (game_of {| o_skip := false; o_hash := h |} r st (end_of r), []).
Print Assumptions read_full.

Print Assumptions read_skipping.
