(* The offsets of the hand model Model/Start.v (game_start, player_of, game_end), restated THROUGH the read layout
   that tools/rust2coq.py regenerates from the text of src/io/slippi/de.rs on every run (Gen/Layouts.v).

   Every theorem below mentions an offset or a width only as a lookup in a regenerated table
   (start_reads, start_tails, start_player_arrays, player_reads, player_ucf_reads, end_reads, end_tails) and is
   proved from the lemmas about the unchanged hand model (Proofs/C05Proof.v, plus a few proved here) by evaluating
   the closed lookups.  If the Rust source reorders two reads, changes a width, renames or drops a read, the
   regenerated table changes, the evaluated lookup no longer coincides with the number written in Model/Start.v,
   and this file stops compiling. *)
From Coq Require Import List Arith NArith ZArith Lia Bool String.
From Coq.Strings Require Import Byte.
From Peppi Require Import Base.Bytes Base.Outcome Gen.Funs Gen.Layouts Model.Start Proofs.C05Proof.
Import ListNotations.
Notation length := (@List.length _) (only parsing).
Local Open Scope string_scope.

(* ---------------------------------------------------------------------------------------------------------
   lookups in the regenerated tables *)
Definition rtab := list (string * nat * nat).          (* (name, offset, width) *)
Definition ttab := list (string * nat * rtab).         (* (tail name, size, named reads relative to the tail) *)

Fixpoint rd (tbl : rtab) (name : string) : option (nat * nat) :=
  match tbl with
  | [] => None
  | (n, off, w) :: r => if String.eqb n name then Some (off, w) else rd r name
  end.

(* the big-endian value / the bytes / the raw block of a named read *)
Definition field_at (tbl : rtab) (name : string) (blk : list byte) : N :=
  match rd tbl name with Some (off, w) => be_at blk off w | None => 0%N end.
Definition bytes_at (tbl : rtab) (name : string) (blk : list byte) : list N :=
  match rd tbl name with Some (off, w) => map (u8_at blk) (seq off w) | None => [] end.
Definition off_of (tbl : rtab) (name : string) : nat := match rd tbl name with Some (off, _) => off | None => 0 end.

(* optional tails: tail k starts at the fixed size plus the sizes of the tails before it *)
Definition tail_sizes (tl : ttab) : list nat := map (fun t => snd (fst t)) tl.
Definition tail_off (fixed : nat) (tl : ttab) (k : nat) : nat := fixed + list_sum (firstn k (tail_sizes tl)).
Fixpoint tidx (tl : ttab) (name : string) : option nat :=
  match tl with
  | [] => None
  | (n, _, _) :: r => if String.eqb n name then Some 0 else option_map S (tidx r name)
  end.
Definition tl_off (fixed : nat) (tl : ttab) (name : string) : nat :=
  match tidx tl name with Some k => tail_off fixed tl k | None => 0 end.
Definition tl_size (tl : ttab) (name : string) : nat :=
  match tidx tl name with Some k => nth k (tail_sizes tl) 0 | None => 0 end.
Definition tl_inner (tl : ttab) (name : string) : rtab :=
  match tidx tl name with Some k => nth k (map snd tl) [] | None => [] end.
(* a named read inside a tail, as (absolute offset, width) *)
Definition tfield (fixed : nat) (tl : ttab) (tname fname : string) : option (nat * nat) :=
  match tidx tl tname with
  | Some k => match rd (nth k (map snd tl) []) fname with
              | Some (off, w) => Some (tail_off fixed tl k + off, w)
              | None => None
              end
  | None => None
  end.
Definition tail_field_at fixed tl tname fname (blk : list byte) : N :=
  match tfield fixed tl tname fname with Some (off, w) => be_at blk off w | None => 0%N end.
Definition tail_sub_at fixed tl tname fname (blk : list byte) : list byte :=
  match tfield fixed tl tname fname with Some (off, w) => sub blk off w | None => [] end.
(* a tail that is one unnamed read: its value is the whole tail *)
Definition tail_value_at fixed tl tname (blk : list byte) : N := be_at blk (tl_off fixed tl tname) (tl_size tl tname).

(* game_start *)
Definition s_off := tl_off start_fixed_size start_tails.
Definition s_size := tl_size start_tails.
Definition s_value := tail_value_at start_fixed_size start_tails.
Definition s_field := tail_field_at start_fixed_size start_tails.
Definition s_sub := tail_sub_at start_fixed_size start_tails.
Definition s_inner_off (tname fname : string) : nat := off_of (tl_inner start_tails tname) fname.
(* player_bytes::<N, M>: the element size N and the count M *)
Definition pa_n (name : string) : nat := match rd start_player_arrays name with Some (n, _) => n | None => 0 end.
Definition pa_m (name : string) : nat := match rd start_player_arrays name with Some (_, m) => m | None => 0 end.
(* game_end *)
Definition e_off := tl_off end_fixed_size end_tails.
Definition e_size := tl_size end_tails.
Definition e_value := tail_value_at end_fixed_size end_tails.
Definition e_field := tail_field_at end_fixed_size end_tails.

(* evaluate every CLOSED table lookup in the goal (vm_compute on closed terms only), then the matches on the results *)
Ltac ev_term x := let v := eval vm_compute in x in progress change x with v.
Ltac ev_closed :=
  repeat match goal with
  | |- context [rd ?t ?n] => ev_term (rd t n)
  | |- context [off_of ?t ?n] => ev_term (off_of t n)
  | |- context [tfield ?f ?t ?a ?b] => ev_term (tfield f t a b)
  | |- context [tl_off ?f ?t ?a] => ev_term (tl_off f t a)
  | |- context [tl_size ?t ?a] => ev_term (tl_size t a)
  | |- context [s_inner_off ?a ?b] => ev_term (s_inner_off a b)
  | |- context [pa_n ?a] => ev_term (pa_n a)
  | |- context [pa_m ?a] => ev_term (pa_m a)
  | |- context [start_fixed_size] => ev_term start_fixed_size
  | |- context [end_fixed_size] => ev_term end_fixed_size
  end; cbv beta iota.
Ltac through_tables :=
  unfold s_off, s_size, s_value, s_field, s_sub, e_off, e_size, e_value, e_field,
         field_at, bytes_at, tail_field_at, tail_sub_at, tail_value_at;
  ev_closed; cbn [map seq].

(* ---------------------------------------------------------------------------------------------------------
   game_start: the fixed part *)
Theorem start_fields_from_source blk s : game_start blk = ROk s ->
  st_version s = (field_at start_reads "version.0" blk, field_at start_reads "version.1" blk,
                  field_at start_reads "version.2" blk) /\
  st_bitfield s = bytes_at start_reads "bitfield" blk /\
  st_bombs s = negb (field_at start_reads "is_raining_bombs" blk =? 0)%N /\
  st_teams s = negb (field_at start_reads "is_teams" blk =? 0)%N /\
  st_item_freq s = field_at start_reads "item_spawn_frequency" blk /\
  st_sd_score s = field_at start_reads "self_destruct_score" blk /\
  st_stage s = field_at start_reads "stage" blk /\
  st_timer s = field_at start_reads "timer" blk /\
  st_item_bitfield s = bytes_at start_reads "item_spawn_bitfield" blk /\
  st_damage_ratio s = field_at start_reads "damage_ratio" blk /\
  st_seed s = field_at start_reads "random_seed" blk.
Proof.
  intro H. apply c05_start_fields in H. through_tables. exact H.
Qed.

(* ---------------------------------------------------------------------------------------------------------
   game_start: the optional tails.  [game_start_src] is Model/Start.v's game_start with every tail offset and
   size, the fixed size, and the per-player array geometry replaced by lookups in the regenerated tables. *)
Definition players_of_src (blk : list byte) (t10 t13 t39 t311 : option nat) : res (list player) :=
  let is_teams := negb (field_at start_reads "is_teams" blk =? 0)%N in
  let pv0 := chunks (pa_n "players_v0") (pa_m "players_v0") (skipn (off_of start_reads "players_v0") blk) in
  collect (map (fun i => player_of (N.of_nat i) (nth i pv0 []) is_teams
                                   (opt_chunk blk t10 (pa_n "players_v1_0") i)
                                   (opt_chunk blk t13 (pa_n "players_v1_3") i)
                                   (opt_chunk blk t39 (pa_n "players_v3_9.0") i)
                                   (match t39 with
                                    | Some off => Some (sub blk (off + s_inner_off "players_v3_9" "1" + pa_n "players_v3_9.1" * i)
                                                            (pa_n "players_v3_9.1"))
                                    | None => None
                                    end)
                                   (opt_chunk blk t311 (pa_n "players_v3_11") i))
               [0; 1; 2; 3]%nat).

Definition game_start_src (blk : list byte) : res start_t :=
  let n := length blk in
  if (n <? start_fixed_size)%nat then RErr else
  t10 <~ tail_at n (s_off "players_v1_0") (s_size "players_v1_0") ;;
  t13 <~ next_tail n t10 (s_off "players_v1_3") (s_size "players_v1_3") ;;
  t15 <~ next_tail n t13 (s_off "is_pal") (s_size "is_pal") ;;
  t20 <~ next_tail n t15 (s_off "is_frozen_ps") (s_size "is_frozen_ps") ;;
  t37 <~ next_tail n t20 (s_off "scene") (s_size "scene") ;;
  t39 <~ next_tail n t37 (s_off "players_v3_9") (s_size "players_v3_9") ;;
  t311 <~ next_tail n t39 (s_off "players_v3_11") (s_size "players_v3_11") ;;
  t312 <~ next_tail n t311 (s_off "language") (s_size "language") ;;
  t314 <~ next_tail n t312 (s_off "match") (s_size "match") ;;
  language <~ language_of blk t312 ;;
  mtch <~ match_of blk t314 ;;
  players <~ players_of_src blk t10 t13 t39 t311 ;;
  ROk (mk_start blk t15 t20 t37 language mtch players).

(* the tails of the source, in source order, are exactly the chain of the hand model *)
Definition tail_names (tl : ttab) : list string := map (fun t => fst (fst t)) tl.

Theorem start_tails_from_source blk :
  game_start blk = game_start_src blk /\
  tail_names start_tails = ["players_v1_0"; "players_v1_3"; "is_pal"; "is_frozen_ps"; "scene"; "players_v3_9";
                            "players_v3_11"; "language"; "match"].
Proof.
  split.
  - unfold game_start, game_start_src, players_of, players_of_src. through_tables. reflexivity.
  - vm_compute. reflexivity.
Qed.

(* every optional field, through the tables *)
Lemma start_match_id blk s id g t : game_start blk = ROk s -> st_match s = Some (id, g, t) ->
  nul_utf8_dflt (sub blk 701 51) 50 = ROk id.
Proof.
  intros H Hs. destruct (game_start_inv blk s H) as [t15 t20 t37 t312 t314 t10 t13 t39 t311 lang mt pls Hlen Heq
    P10 P13 P15 P20 P37 P39 P311 P312 P314 Hn Hl Hm Hp].
  destruct Hn as (_ & _ & _ & _ & _ & _ & _ & _ & N314).
  subst s. cbn [mk_start st_match] in Hs. subst mt.
  destruct N314 as [-> | ->]; unfold match_of in Hm; [discriminate|].
  destruct (nul_utf8_dflt (sub blk 701 51) 50) as [a| |]; cbn [rbind] in Hm; try discriminate.
  inversion Hm. reflexivity.
Qed.

(* the optional fields of the hand model, with its own constants *)
Lemma start_optional_model blk s : game_start blk = ROk s ->
  (st_pal s = if (416 <? length blk)%nat then Some (negb (u8_at blk 416 =? 0)%N) else None) /\
  (st_frozen s = if (417 <? length blk)%nat then Some (negb (u8_at blk 417 =? 0)%N) else None) /\
  (st_scene s = if (418 <? length blk)%nat then Some (u8_at blk 418, u8_at blk 419) else None) /\
  (st_language s = if (700 <? length blk)%nat then Some (u8_at blk 700) else None) /\
  (st_match s <> None <-> (701 < length blk)%nat) /\
  (forall id g t, st_match s = Some (id, g, t) ->
     nul_utf8_dflt (sub blk 701 51) 50 = ROk id /\ g = be_at blk 752 4 /\ t = be_at blk 756 4).
Proof.
  intro H. destruct (c05_optional_presence blk s H) as (Hp & Hf & Hs & Hl & Hm & Hg & Ht).
  split; [exact Hp|]. split; [exact Hf|]. split; [exact Hs|]. split; [exact Hl|]. split; [exact Hm|].
  intros id g t Hmt. split; [exact (start_match_id blk s id g t H Hmt)|].
  split; [exact (Hg id g t Hmt)|exact (Ht id g t Hmt)].
Qed.

Theorem start_optional_from_source blk s : game_start blk = ROk s ->
  (st_pal s = if (s_off "is_pal" <? length blk)%nat then Some (negb (s_value "is_pal" blk =? 0)%N) else None) /\
  (st_frozen s = if (s_off "is_frozen_ps" <? length blk)%nat then Some (negb (s_value "is_frozen_ps" blk =? 0)%N) else None) /\
  (st_scene s = if (s_off "scene" <? length blk)%nat
                then Some (s_field "scene" "minor" blk, s_field "scene" "major" blk) else None) /\
  (st_language s = if (s_off "language" <? length blk)%nat then Some (s_value "language" blk) else None) /\
  (st_match s <> None <-> (s_off "match" < length blk)%nat) /\
  (forall id g t, st_match s = Some (id, g, t) ->
     nul_utf8_dflt (s_sub "match" "id" blk) 50 = ROk id /\
     g = s_field "match" "game" blk /\ t = s_field "match" "tiebreaker" blk).
Proof.
  intro H. apply start_optional_model in H. through_tables. exact H.
Qed.

(* ---------------------------------------------------------------------------------------------------------
   player *)
Lemma player_of_fields port v0b teams v10 v13 nm cd v311 p :
  player_of port v0b teams v10 v13 nm cd v311 = ROk (Some p) ->
  pl_character p = u8_at v0b 0 /\ pl_type p = u8_at v0b 1 /\ pl_stocks p = u8_at v0b 2 /\ pl_costume p = u8_at v0b 3 /\
  pl_team p = (if teams then Some (u8_at v0b 9, u8_at v0b 7) else None) /\
  pl_handicap p = u8_at v0b 8 /\ pl_bitfield p = u8_at v0b 12 /\
  pl_cpu_level p = (if (pl_type p =? 1)%N then Some (u8_at v0b 15) else None) /\
  pl_offense p = be_at v0b 24 4 /\ pl_defense p = be_at v0b 28 4 /\ pl_scale p = be_at v0b 32 4 /\
  match v10 with
  | None => pl_ucf p = None
  | Some b => exists d sd, opt_enum (be_at b 0 4) DashBack_codes = ROk d /\
                           opt_enum (be_at b 4 4) ShieldDrop_codes = ROk sd /\ pl_ucf p = Some (d, sd)
  end.
Proof.
  unfold player_of. cbv zeta.
  destruct v10 as [b|].
  - destruct (opt_enum (be_at b 0 4) DashBack_codes) as [d| |] eqn:Ed; try discriminate.
    destruct (opt_enum (be_at b 4 4) ShieldDrop_codes) as [sd| |] eqn:Es; try discriminate.
    repeat match goal with
           | |- context [match ?x with ROk _ => _ | RErr => _ | RUnknown => _ end] => destruct x; try discriminate
           end.
    destruct (mem (u8_at v0b 1) PlayerType_codes); intro H; inversion H.
    cbn [pl_character pl_type pl_stocks pl_costume pl_team pl_handicap pl_bitfield pl_cpu_level pl_offense pl_defense pl_scale pl_ucf].
    repeat split. exists d, sd. repeat split.
  - repeat match goal with
           | |- context [match ?x with ROk _ => _ | RErr => _ | RUnknown => _ end] => destruct x; try discriminate
           end.
    destruct (mem (u8_at v0b 1) PlayerType_codes); intro H; inversion H.
    cbn [pl_character pl_type pl_stocks pl_costume pl_team pl_handicap pl_bitfield pl_cpu_level pl_offense pl_defense pl_scale pl_ucf].
    repeat split.
Qed.

Theorem player_fields_from_source port v0b teams v10 v13 nm cd v311 p :
  player_of port v0b teams v10 v13 nm cd v311 = ROk (Some p) ->
  pl_character p = field_at player_reads "character" v0b /\
  pl_type p = field_at player_reads "type" v0b /\
  pl_stocks p = field_at player_reads "stocks" v0b /\
  pl_costume p = field_at player_reads "costume" v0b /\
  pl_team p = (if teams then Some (field_at player_reads "team_color" v0b, field_at player_reads "team_shade" v0b)
               else None) /\
  pl_handicap p = field_at player_reads "handicap" v0b /\
  pl_bitfield p = field_at player_reads "bitfield" v0b /\
  pl_cpu_level p = (if (pl_type p =? 1)%N then Some (field_at player_reads "cpu_level" v0b) else None) /\
  pl_offense p = field_at player_reads "offense_ratio" v0b /\
  pl_defense p = field_at player_reads "defense_ratio" v0b /\
  pl_scale p = field_at player_reads "model_scale" v0b /\
  match v10 with
  | None => pl_ucf p = None
  | Some b => exists d sd, opt_enum (field_at player_ucf_reads "dash_back" b) DashBack_codes = ROk d /\
                           opt_enum (field_at player_ucf_reads "shield_drop" b) ShieldDrop_codes = ROk sd /\
                           pl_ucf p = Some (d, sd)
  end.
Proof.
  intro H. apply player_of_fields in H. through_tables. exact H.
Qed.

(* the blocks handed to player have the sizes of its parameters' types; its reads stay inside them *)
Definition block_size (name : string) : nat :=
  match find (fun x => String.eqb (fst x) name) player_block_sizes with Some (_, n) => n | None => 0 end.

Theorem player_blocks_from_source :
  pa_n "players_v0" = block_size "v0" /\ pa_n "players_v1_0" = block_size "v1_0" /\
  pa_n "players_v1_3" = block_size "v1_3" /\ pa_n "players_v3_9.0" = block_size "v3_9_name" /\
  pa_n "players_v3_9.1" = block_size "v3_9_code" /\ pa_n "players_v3_11" = block_size "v3_11" /\
  (player_read_total <= block_size "v0")%nat /\ (player_ucf_read_total <= block_size "v1_0")%nat.
Proof. vm_compute. repeat split; repeat constructor. Qed.

(* ---------------------------------------------------------------------------------------------------------
   game_end *)
Lemma end_players_inv blk e l : game_end blk = ROk e -> en_players e = Some l ->
  (6 <= length blk)%nat /\
  collect (map (fun i => player_end (N.of_nat i) (u8_at blk (2 + i))) [0; 1; 2; 3]%nat) = ROk l.
Proof.
  unfold game_end. destruct blk as [|b r]; [discriminate|].
  destruct (negb (mem (u8_at (b :: r) 0) EndMethod_codes)); [discriminate|].
  set (blk := b :: r).
  match goal with |- context [match ?x with ROk _ => _ | RErr => RErr | RUnknown => RUnknown end] => destruct x end; try discriminate.
  destruct (Nat.leb_spec (length blk) 2) as [H2|H2].
  - intro H. inversion H; subst e. cbn [en_players]. discriminate.
  - destruct (Nat.ltb_spec (length blk) 6) as [H6|H6]; [discriminate|].
    destruct (collect _) as [l'| |] eqn:Ec; try discriminate.
    intro H. inversion H; subst e. cbn [en_players]. intro Hl. inversion Hl; subst l'. split; [exact H6|reflexivity].
Qed.

Lemma end_fields_model blk e : game_end blk = ROk e ->
  en_method e = u8_at blk 0 /\
  (en_lras e <> None <-> (1 < length blk)%nat) /\
  (forall p, en_lras e = Some p -> p = if (u8_at blk 1 =? 255)%N then None else Some (u8_at blk 1)) /\
  (en_players e <> None <-> (2 < length blk)%nat) /\
  (forall l, en_players e = Some l ->
     (2 + 4 <= length blk)%nat /\
     collect [player_end 0 (u8_at blk 2); player_end 1 (u8_at blk 3);
              player_end 2 (u8_at blk 4); player_end 3 (u8_at blk 5)] = ROk l).
Proof.
  intro H. destruct (c05_end blk e H) as (Hm & _ & Hl & Hv & Hp).
  split; [exact Hm|]. split; [exact Hl|]. split; [exact Hv|]. split; [exact Hp|].
  intros l Hpl. exact (end_players_inv blk e l H Hpl).
Qed.

Theorem end_fields_from_source blk e : game_end blk = ROk e ->
  en_method e = field_at end_reads "method" blk /\
  (en_lras e <> None <-> (e_off "lras_initiator" < length blk)%nat) /\
  (forall p, en_lras e = Some p ->
     p = if (e_value "lras_initiator" blk =? 255)%N then None else Some (e_value "lras_initiator" blk)) /\
  (en_players e <> None <-> (e_off "players" < length blk)%nat) /\
  (forall l, en_players e = Some l ->
     (e_off "players" + e_size "players" <= length blk)%nat /\
     collect [player_end 0 (e_field "players" "placements.0" blk); player_end 1 (e_field "players" "placements.1" blk);
              player_end 2 (e_field "players" "placements.2" blk); player_end 3 (e_field "players" "placements.3" blk)] = ROk l).
Proof.
  intro H. apply end_fields_model in H. through_tables. exact H.
Qed.

(* the fixed part of game_end is what the hand model requires before it reads the method byte *)
Theorem end_tails_from_source :
  end_fixed_size = 1%nat /\ tail_names end_tails = ["lras_initiator"; "players"] /\
  forall blk e, game_end blk = ROk e -> (end_fixed_size <= length blk)%nat.
Proof.
  split; [vm_compute; reflexivity|]. split; [vm_compute; reflexivity|].
  intros blk e. unfold game_end. destruct blk; [discriminate|]. intros _. ev_closed. cbn [length]. lia.
Qed.

(* sanity: the regenerated tables are well formed (reads in increasing order, inside the fixed part / the tail) *)
Fixpoint reads_wf (from : nat) (tbl : rtab) (upto : nat) : bool :=
  match tbl with
  | [] => (from <=? upto)%nat
  | (_, off, w) :: r => (from <=? off)%nat && (1 <=? w)%nat && reads_wf (off + w) r upto
  end.

Lemma layout_tables_wf :
  reads_wf 0 start_reads start_fixed_size = true /\
  (off_of start_reads "players_v0" + pa_n "players_v0" * pa_m "players_v0" <=? start_fixed_size)%nat = true /\
  forallb (fun t => reads_wf 0 (snd t) (snd (fst t))) start_tails = true /\
  reads_wf 0 player_reads player_read_total = true /\
  reads_wf 0 player_ucf_reads player_ucf_read_total = true /\
  reads_wf 0 end_reads end_fixed_size = true /\
  forallb (fun t => reads_wf 0 (snd t) (snd (fst t))) end_tails = true.
Proof. vm_compute. repeat split. Qed.

Print Assumptions start_fields_from_source.
Print Assumptions start_tails_from_source.
Print Assumptions start_optional_from_source.
Print Assumptions player_fields_from_source.
Print Assumptions player_blocks_from_source.
Print Assumptions end_fields_from_source.
Print Assumptions end_tails_from_source.
Print Assumptions layout_tables_wf.
