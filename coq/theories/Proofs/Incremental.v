(* C12, per-call part: driving the incremental API one event per call, every call only ever APPENDS to the frame
   columns (so what has been parsed so far is a prefix of what any later state, and the final game, contains), the
   frame count never decreases, and the reported consumed-byte count grows by exactly the number of raw bytes the
   call consumed.  No invariant on the state is needed: the statements hold for every [pstate]. *)
From Coq Require Import List Arith NArith ZArith Lia Bool String ZifyBool ZifyN ZifyNat.
From Coq.Strings Require Import Byte.
From Peppi Require Import Base.Bytes Base.Outcome Base.Stream Layout.Syntax Gen.Funs Layout.Sem Layout.Rows
  Model.Ubjson Model.Start Model.Json Model.Parse Model.Reader
  Proofs.FrameStep.
Import ListNotations.
Notation length := (@List.length _) (only parsing).

(* ------------------------------------------------------------------------------------------------ *)
(* 1. the order on column sets                                                                      *)
(* ------------------------------------------------------------------------------------------------ *)

(* abstract validity: None means all-true of the current length *)
Definition valid_bits (d : cdata) : list bool :=
  match c_valid d with Some b => b | None => repeat true (length (c_pre d)) end.

Definition prefix {A} (a b : list A) : Prop := exists t, b = a ++ t.
Definition oprefix {A} (a b : option (list A)) : Prop :=
  match a, b with Some x, Some y => prefix x y | None, None => True | _, _ => False end.

(* every column of [a] is a prefix of the corresponding column of [b]; same slots in the same order *)
Definition cdata_le (a b : cdata) : Prop :=
  prefix (c_pre a) (c_pre b) /\ prefix (c_post a) (c_post b) /\ prefix (valid_bits a) (valid_bits b).
Definition frames_le (a b : frames) : Prop :=
  prefix (f_ids a) (f_ids b) /\
  Forall2 (fun x y => sl_port x = sl_port y /\ sl_fol x = sl_fol y /\ cdata_le (sl_data x) (sl_data y)) (f_chars a) (f_chars b) /\
  oprefix (f_start a) (f_start b) /\ oprefix (f_end a) (f_end b) /\ oprefix (f_item_off a) (f_item_off b) /\ oprefix (f_item a) (f_item b).

Definition slot_le (x y : slot) : Prop :=
  sl_port x = sl_port y /\ sl_fol x = sl_fol y /\ cdata_le (sl_data x) (sl_data y).

Lemma frames_le_intro a b :
  prefix (f_ids a) (f_ids b) -> Forall2 slot_le (f_chars a) (f_chars b) ->
  oprefix (f_start a) (f_start b) -> oprefix (f_end a) (f_end b) ->
  oprefix (f_item_off a) (f_item_off b) -> oprefix (f_item a) (f_item b) -> frames_le a b.
Proof. intros H1 H2 H3 H4 H5 H6. unfold frames_le. exact (conj H1 (conj H2 (conj H3 (conj H4 (conj H5 H6))))). Qed.

Lemma prefix_refl {A} (a : list A) : prefix a a.
Proof. exists []. symmetry. apply app_nil_r. Qed.
Lemma prefix_app {A} (a t : list A) : prefix a (a ++ t).
Proof. exists t. reflexivity. Qed.
Lemma prefix_trans {A} (a b c : list A) : prefix a b -> prefix b c -> prefix a c.
Proof. intros [t ->] [u ->]. exists (t ++ u). symmetry. apply app_assoc. Qed.
Lemma prefix_length {A} (a b : list A) : prefix a b -> (length a <= length b)%nat.
Proof. intros [t ->]. rewrite app_length. lia. Qed.

Lemma oprefix_refl {A} (a : option (list A)) : oprefix a a.
Proof. destruct a; cbn; [apply prefix_refl|exact I]. Qed.
Lemma oprefix_trans {A} (a b c : option (list A)) : oprefix a b -> oprefix b c -> oprefix a c.
Proof. destruct a, b, c; cbn; try contradiction; try (intros; exact I). apply prefix_trans. Qed.
Lemma oprefix_app {A} (a : option (list A)) x t : a = Some x -> oprefix a (Some (x ++ t)).
Proof. intros ->. cbn. apply prefix_app. Qed.

Lemma cdata_le_refl d : cdata_le d d.
Proof. repeat split; apply prefix_refl. Qed.
Lemma cdata_le_trans a b c : cdata_le a b -> cdata_le b c -> cdata_le a c.
Proof. intros (A1 & A2 & A3) (B1 & B2 & B3). unfold cdata_le.
  split; [eapply prefix_trans; eassumption|]. split; eapply prefix_trans; eassumption. Qed.

Lemma slot_le_refl c : slot_le c c.
Proof. unfold slot_le. auto using cdata_le_refl. Qed.
Lemma slot_le_trans a b c : slot_le a b -> slot_le b c -> slot_le a c.
Proof.
  intros (A1 & A2 & A3) (B1 & B2 & B3). unfold slot_le.
  split; [congruence|]. split; [congruence|]. eapply cdata_le_trans; eassumption.
Qed.

Lemma chars_le_refl cs : Forall2 slot_le cs cs.
Proof. induction cs as [|c r IH]; constructor; [apply slot_le_refl|exact IH]. Qed.
Lemma chars_le_trans a : forall b c, Forall2 slot_le a b -> Forall2 slot_le b c -> Forall2 slot_le a c.
Proof.
  induction a as [|x a IH]; intros b c Hab Hbc.
  - inversion Hab; subst. inversion Hbc; subst. constructor.
  - inversion Hab as [|? y ? b' Hxy Hab']; subst. inversion Hbc as [|? z ? c' Hyz Hbc']; subst.
    constructor; [eapply slot_le_trans; eassumption|]. eapply IH; eassumption.
Qed.
Lemma chars_le_map (g : slot -> slot) cs : (forall c, slot_le c (g c)) -> Forall2 slot_le cs (map g cs).
Proof. intro Hg. induction cs as [|c r IH]; cbn [map]; constructor; [apply Hg|exact IH]. Qed.
Lemma chars_le_upd (g : slot -> slot) cs : (forall c, slot_le c (g c)) -> forall i, Forall2 slot_le cs (upd_nth i g cs).
Proof.
  intro Hg. induction cs as [|c r IH]; intros [|j]; cbn [upd_nth]; try constructor;
    [apply Hg|apply chars_le_refl|apply slot_le_refl|apply IH].
Qed.

Theorem frames_le_refl a : frames_le a a.
Proof.
  apply frames_le_intro; try apply oprefix_refl; [apply prefix_refl|apply chars_le_refl].
Qed.

Theorem frames_le_trans a b c : frames_le a b -> frames_le b c -> frames_le a c.
Proof.
  intros (A1 & A2 & A3 & A4 & A5 & A6) (B1 & B2 & B3 & B4 & B5 & B6).
  apply frames_le_intro; try (eapply oprefix_trans; eassumption).
  - eapply prefix_trans; eassumption.
  - eapply chars_le_trans; [exact A2|exact B2].
Qed.

(* ------------------------------------------------------------------------------------------------ *)
(* 2. the primitive column operations only append                                                   *)
(* ------------------------------------------------------------------------------------------------ *)

Lemma repeat_snoc {A} (x : A) n : repeat x (S n) = repeat x n ++ [x].
Proof. induction n as [|n IH]; [reflexivity|]. cbn [repeat app] in *. f_equal. exact IH. Qed.

Lemma cdata_le_null L d : cdata_le d (data_push_null L d).
Proof.
  unfold cdata_le, data_push_null, valid_bits. cbn [c_pre c_post c_valid].
  split; [apply prefix_app|]. split; [apply prefix_app|]. apply prefix_app.
Qed.

Lemma cdata_le_push_pre rw d : cdata_le d (push_pre rw d).
Proof.
  unfold cdata_le, push_pre, valid_bits. cbn [c_pre c_post c_valid].
  split; [apply prefix_app|]. split; [apply prefix_refl|].
  destruct (c_valid d) as [b|]; cbn [option_map].
  - apply prefix_app.
  - rewrite app_length. cbn [List.length]. rewrite Nat.add_1_r, repeat_snoc. apply prefix_app.
Qed.

Lemma cdata_le_push_post rw d : cdata_le d (push_post rw d).
Proof.
  unfold cdata_le, push_post, valid_bits. cbn [c_pre c_post c_valid].
  split; [apply prefix_refl|]. split; [apply prefix_app|]. apply prefix_refl.
Qed.

Lemma cdata_le_iter L n d : cdata_le d (Nat.iter n (data_push_null L) d).
Proof.
  induction n as [|n IH]; [apply cdata_le_refl|]. rewrite iter_S.
  eapply cdata_le_trans; [exact IH|apply cdata_le_null].
Qed.

Lemma cdata_le_pad L len d : cdata_le d (pad_to L len d).
Proof. unfold pad_to. apply cdata_le_iter. Qed.

(* ------------------------------------------------------------------------------------------------ *)
(* 3. the frame-level operations only append                                                        *)
(* ------------------------------------------------------------------------------------------------ *)

Lemma frames_le_close L fr : frames_le fr (frame_close_frames L fr).
Proof.
  apply frames_le_intro; unfold frame_close_frames; cbn [f_ids f_chars f_start f_end f_item_off f_item];
    try apply oprefix_refl; [apply prefix_refl|].
  apply chars_le_map. intro c. unfold slot_le. cbn [sl_port sl_fol sl_data].
  split; [reflexivity|]. split; [reflexivity|]. apply cdata_le_pad.
Qed.

Lemma frames_le_open fr id : frames_le fr (with_ids fr (f_ids fr ++ [id])).
Proof.
  apply frames_le_intro; unfold with_ids; cbn [f_ids f_chars f_start f_end f_item_off f_item];
    try apply oprefix_refl; [apply prefix_app|apply chars_le_refl].
Qed.

Lemma frames_le_upd fr i g : (forall d, cdata_le d (g d)) -> frames_le fr (upd_char fr i g).
Proof.
  intro Hg.
  apply frames_le_intro; unfold upd_char; cbn [f_ids f_chars f_start f_end f_item_off f_item];
    try apply oprefix_refl; [apply prefix_refl|].
  apply chars_le_upd. intro c. unfold slot_le. cbn [sl_port sl_fol sl_data].
  split; [reflexivity|]. split; [reflexivity|]. apply Hg.
Qed.

Lemma close_le s : frames_le (ps_frames s) (ps_frames (frame_close s)).
Proof. unfold frame_close. rewrite frames_set. apply frames_le_close. Qed.

Lemma open_le s id : frames_le (ps_frames s) (ps_frames (frame_open s id)).
Proof. unfold frame_open. rewrite frames_set. apply frames_le_open. Qed.

Lemma maybe_close_le (b : bool) s : frames_le (ps_frames s) (ps_frames (if b then frame_close s else s)).
Proof. destruct b; [apply close_le|apply frames_le_refl]. Qed.

(* ------------------------------------------------------------------------------------------------ *)
(* 4. the arms of parse_event                                                                       *)
(* ------------------------------------------------------------------------------------------------ *)

Lemma arm_gecko_le buf s s' : arm_gecko buf s = Ok s' -> frames_le (ps_frames s) (ps_frames s').
Proof. unfold arm_gecko. intro H. apply ok_inj in H. subst s'. cbn [ps_frames set_gecko]. apply frames_le_refl. Qed.

Lemma arm_end_le buf s s' : arm_end buf s = Ok s' -> frames_le (ps_frames s) (ps_frames s').
Proof.
  unfold arm_end. intro H.
  destruct (res_outcome (game_end buf)) as [e| | |]; cbn [bind] in H; try discriminate H.
  apply ok_inj in H. subst s'. cbn [ps_frames set_end]. apply maybe_close_le.
Qed.

Lemma arm_fstart_le buf s s' : arm_fstart buf s = Ok s' -> frames_le (ps_frames s) (ps_frames s').
Proof.
  unfold arm_fstart. intro H.
  destruct (i32_at buf) as [[id r]| | |]; cbn [bind] in H; try discriminate H.
  pose proof (maybe_close_le (vlt (ver s) 3 0) s) as Hc.
  set (s1 := if vlt (ver s) 3 0 then frame_close s else s) in *.
  destruct (f_start (ps_frames s1)) as [rows|] eqn:Es; [|discriminate H].
  destruct (read_push (sz_start (ps_layout s)) r) as [rw| | |]; cbn [bind] in H; try discriminate H.
  apply ok_inj in H. subst s'. rewrite frames_set.
  eapply frames_le_trans; [exact Hc|].
  unfold frame_open. rewrite frames_set. unfold with_ids.
  apply frames_le_intro; cbn [f_ids f_chars f_start f_end f_item_off f_item];
    try apply oprefix_refl; [apply prefix_app|apply chars_le_refl|].
  apply oprefix_app. exact Es.
Qed.

Lemma arm_pre_le buf s s' : arm_pre buf s = Ok s' -> frames_le (ps_frames s) (ps_frames s').
Proof.
  unfold arm_pre. intro H.
  destruct (i32_at buf) as [[id r]| | |]; cbn [bind] in H; try discriminate H.
  destruct (u8_hd r) as [[port r1]| | |]; cbn [bind] in H; try discriminate H.
  destruct (u8_hd r1) as [[folb r2]| | |]; cbn [bind] in H; try discriminate H.
  match type of H with context [bind ?x _] => destruct x as [s1| | |] eqn:E1 end; cbn [bind] in H; try discriminate H.
  destruct (data_lookup s1 port _) as [i| | |]; cbn [bind] in H; try discriminate H.
  destruct (read_push _ r2) as [rw| | |]; cbn [bind] in H; try discriminate H.
  apply ok_inj in H. subst s'. rewrite frames_set.
  apply (frames_le_trans _ (ps_frames s1)); [|apply frames_le_upd; intro d; apply cdata_le_push_pre].
  destruct (vgte (ver s) 2 2).
  - destruct (expect_id s id); cbn [bind] in E1; try discriminate E1. apply ok_inj in E1. subst s1. apply frames_le_refl.
  - destruct (Z.eqb _ id).
    + apply ok_inj in E1. subst s1.
      eapply frames_le_trans; [apply close_le|apply open_le].
    + destruct (expect_id s id); cbn [bind] in E1; try discriminate E1. apply ok_inj in E1. subst s1. apply frames_le_refl.
Qed.

Lemma arm_post_le buf s s' : arm_post buf s = Ok s' -> frames_le (ps_frames s) (ps_frames s').
Proof.
  unfold arm_post. intro H.
  destruct (i32_at buf) as [[id r]| | |]; cbn [bind] in H; try discriminate H.
  destruct (u8_hd r) as [[port r1]| | |]; cbn [bind] in H; try discriminate H.
  destruct (u8_hd r1) as [[folb r2]| | |]; cbn [bind] in H; try discriminate H.
  destruct (expect_id s id); cbn [bind] in H; try discriminate H.
  destruct (data_lookup s port _) as [i| | |]; cbn [bind] in H; try discriminate H.
  destruct (read_push _ r2) as [rw| | |]; cbn [bind] in H; try discriminate H.
  apply ok_inj in H. subst s'. rewrite frames_set.
  apply frames_le_upd. intro d. apply cdata_le_push_post.
Qed.

Lemma arm_fend_le buf s s' : arm_fend buf s = Ok s' -> frames_le (ps_frames s) (ps_frames s').
Proof.
  unfold arm_fend. intro H.
  destruct (i32_at buf) as [[id r]| | |]; cbn [bind] in H; try discriminate H.
  destruct (expect_id s id); cbn [bind] in H; try discriminate H.
  destruct (f_end (ps_frames s)) as [erows|] eqn:Ee; [|discriminate H].
  destruct (f_item_off (ps_frames s)) as [offs|] eqn:Eo; [|discriminate H].
  destruct (f_item (ps_frames s)) as [items|] eqn:Ei; [|discriminate H].
  destruct (read_push _ r) as [rw| | |]; cbn [bind] in H; try discriminate H.
  apply ok_inj in H. subst s'.
  eapply frames_le_trans; [|apply close_le]. rewrite frames_set.
  apply frames_le_intro; cbn [f_ids f_chars f_start f_end f_item_off f_item];
    [apply prefix_refl|apply chars_le_refl|..];
    rewrite ?Ee, ?Eo, ?Ei; first [apply oprefix_refl | apply oprefix_app; reflexivity].
Qed.

Lemma arm_item_le buf s s' : arm_item buf s = Ok s' -> frames_le (ps_frames s) (ps_frames s').
Proof.
  unfold arm_item. intro H.
  destruct (i32_at buf) as [[id r]| | |]; cbn [bind] in H; try discriminate H.
  destruct (expect_id s id); cbn [bind] in H; try discriminate H.
  destruct (f_item (ps_frames s)) as [items|] eqn:Ei; [|discriminate H].
  destruct (read_push _ r) as [rw| | |]; cbn [bind] in H; try discriminate H.
  apply ok_inj in H. subst s'. rewrite frames_set.
  apply frames_le_intro; cbn [f_ids f_chars f_start f_end f_item_off f_item];
    [apply prefix_refl|apply chars_le_refl|..];
    rewrite ?Ei; first [apply oprefix_refl | apply oprefix_app; reflexivity].
Qed.

Lemma handle_known_le code buf s s' : handle_known code buf s = Ok s' -> frames_le (ps_frames s) (ps_frames s').
Proof.
  unfold handle_known.
  repeat match goal with |- context [if ?c then _ else _] => destruct c end;
    try discriminate;
    eauto using arm_gecko_le, arm_end_le, arm_fstart_le, arm_pre_le, arm_post_le, arm_fend_le, arm_item_le.
  all: intro H; apply ok_inj in H; subst s'; apply frames_le_refl.
Qed.

Lemma handle_event_le code buf s c' s' : handle_event code buf s = Ok (c', s') -> frames_le (ps_frames s) (ps_frames s').
Proof.
  unfold handle_event. destruct (N.eqb code Event_MessageSplitter).
  - destruct (negb _); [discriminate|]. destruct (_ <? _)%N; [discriminate|].
    destruct (negb (N.eqb (b2n (nth 515 buf x00)) 0)).
    + destruct (handle_known _ _ _) as [s1| | |] eqn:E; cbn [bind]; try discriminate.
      intro H. apply ok_inj in H. injection H as <- <-. apply handle_known_le in E. exact E.
    + intro H. apply ok_inj in H. injection H as <- <-. cbn [ps_frames set_split]. apply frames_le_refl.
  - destruct (handle_known code buf s) as [s1| | |] eqn:E; cbn [bind]; try discriminate.
    intro H. apply ok_inj in H. injection H as <- <-. apply handle_known_le in E. exact E.
Qed.

(* ------------------------------------------------------------------------------------------------ *)
(* 5. one API call                                                                                  *)
(* ------------------------------------------------------------------------------------------------ *)

(* what a successful call is made of *)
Lemma parse_event_inv s bs c s' rest :
  parse_event s bs = Ok (c, s', rest) ->
  exists b buf size s1,
    bs = b :: buf ++ rest /\ length buf = N.to_nat size /\
    lookup_size (ps_sizes s) (b2n b) = Some size /\
    handle_event (b2n b) buf s = Ok (c, s1) /\ s' = add_bytes_read s1 (size + 1)%N.
Proof.
  unfold parse_event, pbind. intro H.
  destruct bs as [|b bs1]; cbn [rd_u8] in H; [discriminate H|].
  destruct (lookup_size (ps_sizes s) (b2n b)) as [size|] eqn:El; [|discriminate H].
  destruct (rd_exact (N.to_nat size) bs1) as [[buf r]| | |] eqn:Er; try discriminate H.
  apply rd_exact_ok in Er as [-> Hlen].
  destruct (handle_event (b2n b) buf s) as [[c1 s1]| | |] eqn:Eh; try discriminate H.
  apply ok_inj in H. injection H as <- <- <-.
  exists b, buf, size, s1. repeat split; try assumption; reflexivity.
Qed.

(* 1. one API call only ever APPENDS to the columns *)
Theorem parse_event_monotone s bs c s' rest :
  parse_event s bs = Ok (c, s', rest) -> frames_le (ps_frames s) (ps_frames s').
Proof.
  intro H. apply parse_event_inv in H as (b & buf & size & s1 & _ & _ & _ & Hh & ->).
  cbn [ps_frames add_bytes_read]. eapply handle_event_le. exact Hh.
Qed.

(* consequence: the frame count never decreases *)
Corollary parse_event_count s bs c s' rest :
  parse_event s bs = Ok (c, s', rest) -> (length (f_ids (ps_frames s)) <= length (f_ids (ps_frames s')))%nat.
Proof. intro H. apply parse_event_monotone in H as (H & _). apply prefix_length. exact H. Qed.

(* 2. consumed-byte accounting: bytes_read grows by exactly the number of bytes this call consumed *)
Theorem parse_event_accounting s bs c s' rest :
  parse_event s bs = Ok (c, s', rest) ->
  exists used, bs = used ++ rest /\ ps_bytes_read s' = (ps_bytes_read s + N.of_nat (length used))%N.
Proof.
  intro H. apply parse_event_inv in H as (b & buf & size & s1 & -> & Hlen & _ & Hh & ->).
  exists (b :: buf). split; [reflexivity|].
  apply handle_event_env in Hh as (_ & _ & _ & Hbr).
  cbn [ps_bytes_read add_bytes_read List.length]. rewrite Hbr, Hlen. lia.
Qed.

(* ------------------------------------------------------------------------------------------------ *)
(* 6. any number of calls                                                                           *)
(* ------------------------------------------------------------------------------------------------ *)

Fixpoint drive (n : nat) (s : pstate) (bs : list byte) : outcome (pstate * list byte) :=
  match n with O => Ok (s, bs) | S k => match parse_event s bs with Ok (_, s', r) => drive k s' r | Err e => Err e | Panic p => Panic p | Fuel => Fuel end end.

Theorem drive_monotone n s bs s' rest : drive n s bs = Ok (s', rest) -> frames_le (ps_frames s) (ps_frames s').
Proof.
  revert s bs. induction n as [|n IH]; intros s bs H; cbn [drive] in H.
  - apply ok_inj in H. injection H as <- <-. apply frames_le_refl.
  - destruct (parse_event s bs) as [[[c s1] r]| | |] eqn:E; try discriminate H.
    eapply frames_le_trans; [eapply parse_event_monotone; exact E|]. eapply IH. exact H.
Qed.

Corollary drive_count n s bs s' rest :
  drive n s bs = Ok (s', rest) -> (length (f_ids (ps_frames s)) <= length (f_ids (ps_frames s')))%nat.
Proof. intro H. apply drive_monotone in H as (H & _). apply prefix_length. exact H. Qed.

Theorem drive_accounting n s bs s' rest : drive n s bs = Ok (s', rest) ->
  exists used, bs = used ++ rest /\ ps_bytes_read s' = (ps_bytes_read s + N.of_nat (length used))%N.
Proof.
  revert s bs. induction n as [|n IH]; intros s bs H; cbn [drive] in H.
  - apply ok_inj in H. injection H as <- <-. exists []. split; [reflexivity|]. cbn [List.length]. lia.
  - destruct (parse_event s bs) as [[[c s1] r]| | |] eqn:E; try discriminate H.
    apply parse_event_accounting in E as (u1 & -> & Hb1).
    apply IH in H as (u2 & -> & Hb2).
    exists (u1 ++ u2). split; [apply app_assoc|].
    rewrite Hb2, Hb1, app_length. lia.
Qed.

(* calls compose: the state after n + m calls is the state after m calls from the state after n calls; so the
   state after ANY earlier call is below the state after any later one (and below the final game) *)
Lemma drive_add n m s bs :
  drive (n + m) s bs = match drive n s bs with Ok (s1, r) => drive m s1 r | Err e => Err e | Panic p => Panic p | Fuel => Fuel end.
Proof.
  revert s bs. induction n as [|n IH]; intros s bs; cbn [Nat.add drive]; [reflexivity|].
  destruct (parse_event s bs) as [[[c s1] r]| | |]; try reflexivity. apply IH.
Qed.

Corollary drive_prefix_of_later n m s bs s1 r1 s2 r2 :
  drive n s bs = Ok (s1, r1) -> drive (n + m) s bs = Ok (s2, r2) -> frames_le (ps_frames s1) (ps_frames s2).
Proof. intros H1 H2. rewrite drive_add, H1 in H2. eapply drive_monotone. exact H2. Qed.

(* 4. the one-shot loop is the same driver: every successful event_loop run is some drive *)
Theorem event_loop_is_drive fuel raw_len s bs s' rest :
  event_loop fuel raw_len s bs = Ok (s', rest) -> exists n, drive n s bs = Ok (s', rest).
Proof.
  revert s bs. induction fuel as [|f IH]; intros s bs H; cbn [event_loop] in H; [discriminate H|].
  destruct (N.eqb raw_len 0 || (ps_bytes_read s <? raw_len)%N).
  - destruct (parse_event s bs) as [[[c s1] r]| | |] eqn:E; try discriminate H.
    destruct (N.eqb c Event_GameEnd).
    + exists 1%nat. cbn [drive]. rewrite E. exact H.
    + apply IH in H as [n Hn]. exists (S n). cbn [drive]. rewrite E. exact Hn.
  - exists O. exact H.
Qed.

(* hence the loop inherits both properties *)
Corollary event_loop_monotone fuel raw_len s bs s' rest :
  event_loop fuel raw_len s bs = Ok (s', rest) -> frames_le (ps_frames s) (ps_frames s').
Proof. intro H. apply event_loop_is_drive in H as [n H]. eapply drive_monotone. exact H. Qed.

Corollary event_loop_accounting fuel raw_len s bs s' rest :
  event_loop fuel raw_len s bs = Ok (s', rest) ->
  exists used, bs = used ++ rest /\ ps_bytes_read s' = (ps_bytes_read s + N.of_nat (length used))%N.
Proof. intro H. apply event_loop_is_drive in H as [n H]. eapply drive_accounting. exact H. Qed.

Print Assumptions frames_le_refl.
Print Assumptions frames_le_trans.
Print Assumptions parse_event_monotone.
Print Assumptions parse_event_count.
Print Assumptions parse_event_accounting.
Print Assumptions drive_monotone.
Print Assumptions drive_accounting.
Print Assumptions drive_prefix_of_later.
Print Assumptions event_loop_is_drive.
Print Assumptions event_loop_monotone.
Print Assumptions event_loop_accounting.
