(* C03: closed agreement obligations on the regenerated tables + the generic theorem instantiated. *)
From Coq Require Import List NArith String Bool Lia ZifyBool ZifyN.
From Coq.Strings Require Import Byte.
From Peppi Require Import Base.Bytes Layout.Syntax Gen.Funs Layout.Sem Layout.SpecTheory Layout.Spec Layout.Shapes Gen.Tables Layout.Rows.
Import ListNotations.


(* obligation: what src/frame/mutable.rs says now, flattened, is the hand spec (paths, types, offsets, since) *)
Lemma tables_agree_with_spec :
  forallb (fun E => agrees (hdr_of E) (read_leaves E) (spec_of E)) events = true.
Proof. vm_compute. reflexivity. Qed.

(* obligation: the tables are not the empty fallback *)
Lemma tables_flatten :
  forallb (fun E => match flatten tbl_read_push tbl_mut_decl E with Some (_ :: _) => true | _ => false end) events = true.
Proof. vm_compute. reflexivity. Qed.

Lemma agree_E E : In E events -> agrees (hdr_of E) (read_leaves E) (spec_of E) = true.
Proof. intro H. pose proof tables_agree_with_spec as A. rewrite forallb_forall in A. apply A. exact H. Qed.

Lemma c03_fields : forall E v payload vals rest k s,
  In E events ->
  dec (leaves_at v (read_leaves E)) payload = Some (vals, rest) ->
  nth_error (spec_of E) k = Some s ->
  (osince_ok v (ssince s) = true ->
     nth_error (map lpath (leaves_at v (read_leaves E))) k = Some (spath s) /\
     nth_error vals k = Some (be_dec (firstn (width (sprim s)) (skipn (soff s - hdr_of E) payload)))) /\
  (osince_ok v (ssince s) = false -> ~ In (spath s) (map lpath (leaves_at v (read_leaves E)))).
Proof. intros E v payload vals rest k s HE Hd Hk. eapply spec_fields; [apply agree_E; exact HE | exact Hd | exact Hk]. Qed.

Lemma c03_no_other_fields : forall E, In E events -> map lpath (read_leaves E) = map spath (spec_of E).
Proof. intros E HE. eapply spec_complete. apply agree_E. exact HE. Qed.

(* "present precisely when the replay's version is at least the version that introduced it" *)
Lemma c03_since_is_lex : forall v M m,
  osince_ok v (Some (M, m)) = true <-> (M < v0 v \/ (M = v0 v /\ m <= v1 v))%N.
Proof.
  intros [[a b] c] M m. unfold osince_ok, gte, slippi_Version_gte, v0, v1. cbn [fst snd]. lia.
Qed.

(* decoding succeeds exactly when the payload is at least as long as the version's layout *)
Lemma c03_total : forall E v payload,
  (exists r, dec (leaves_at v (read_leaves E)) payload = Some r) <-> (tsize (leaves_at v (read_leaves E)) <= length payload)%nat.
Proof. intros. apply dec_succeeds_iff. Qed.

(* non-vacuity: a concrete 3.16 pre-frame payload decodes, and e.g. "percent" (offset 0x3C) is read from bytes 53..56 *)
Example c03_example :
  let payload := map (fun n => match Byte.of_N n with Some b => b | None => x00 end)
                     (map N.of_nat (seq 0 58)) in
  exists vals rest, dec (leaves_at (3,16,0)%N (read_leaves "Pre")) payload = Some (vals, rest) /\
                    nth_error vals 15 = Some (be_dec (firstn 4 (skipn 53 payload))) /\ rest = [].
Proof. vm_compute. eexists. eexists. repeat split. Qed.
