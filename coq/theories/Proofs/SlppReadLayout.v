(* Assembly of a game by the .slpp reader: the hand model Model/Slpp.v [read_entries] (its frames.arrow arm) and [slpp_read]
   (the final match on the accumulators) restated THROUGH the tables that tools/rust2coq.py regenerates from the text of
   src/io/peppi/de.rs fn read and fn read_arrow_frames (Gen/SlppReadSrc.v):
   - the six `let mut <acc>: Option<..> = None` accumulators;
   - the statements of the frames.arrow arm: the version taken from the `start` accumulator (an error when there is none
     yet), the test `opts.map_or(<default>, |o| o.<field>)`, and the statements of BOTH branches -- the skipping branch
     (an empty frame table for the start's version and port occupancy) and the reading branch (declared size, read_to_end,
     the short-entry test, the call of read_arrow_frames);
   - the assembly after the loop: which accumulators must be present (and in which order the tests run), which are passed
     on as Options, and which fields of the peppi.json record become the game's hash and quirks;
   - fn read_arrow_frames: the magic bytes, the prologue, what the loop does with the first chunk, with a further chunk,
     with StreamState::Waiting, with an error of the stream, and the result after the loop.
   The names / order / `break` of the arms are Gen/SlppEntries.v (Proofs/SlppLayout.v), the other arms Gen/SlppHelpers.v
   (Proofs/SlppHelpersLayout.v).

   The equalities are FULL (every Err included).  The model works on whole entries (list of (name, content)), so the
   declared size of an entry is the length of its content there: [frames_arm_from_source] instantiates the interpreter's
   `declared` with [length c], and [frames_arm_short_from_source] states separately what the table-driven arm does when the
   content is shorter than declared (an error BEFORE the decoder is called).
   The frames decoder itself is a Section parameter of the model ([dec_frames]); read_arrow_frames has no hand-written
   counterpart, so its step table is pinned by theorems about a table-driven loop over an abstract Arrow stream
   ([raf_tbl]): exactly one record batch -- empty or not -- is accepted.

   If the source changes the default of skip_frames, exchanges the branches, takes the version or the ports from elsewhere,
   drops or weakens the short-entry test, makes a missing accumulator a default instead of an error, accepts a second batch,
   skips an empty batch, or ignores Waiting, the regenerated tables change (or the translator fails) and these theorems no
   longer hold of the unchanged hand model. *)
From Coq Require Import List Arith NArith ZArith Lia Bool String.
From Coq.Strings Require Import Byte.
From Peppi Require Import Base.Bytes Base.Outcome Gen.Funs Gen.SlppReadSrc Model.Ubjson Model.Start Model.Json Model.Parse
  Model.Reader Model.Slpp Proofs.SlppProof.
Import ListNotations.
Notation length := (@List.length _) (only parsing).
Local Open Scope string_scope.
Local Open Scope list_scope.

Transparent name_of kind_of.

Ltac ev_term x := let v := eval vm_compute in x in progress change x with v.
Ltac ev_strings := repeat match goal with |- context [String.eqb ?a ?b] => ev_term (String.eqb a b) end.

Definition is_some {A} (o : option A) : bool := match o with Some _ => true | None => false end.

Fixpoint lookup {A} (tbl : list (string * A)) (k : string) : option A :=
  match tbl with
  | [] => None
  | (n, a) :: r => if String.eqb n k then Some a else lookup r k
  end.

(* ---------------------------------------------------------------------------------------------------------
   (1) the accumulators, by the name of their `let mut` *)
Definition acc_present (name : string) (a : racc) : bool :=
  if String.eqb name "start" then is_some (ra_start a)
  else if String.eqb name "end" then is_some (ra_end a)
  else if String.eqb name "metadata" then is_some (ra_meta a)
  else if String.eqb name "gecko_codes" then is_some (ra_gecko a)
  else if String.eqb name "frames" then is_some (ra_frames a)
  else if String.eqb name "peppi" then is_some (ra_peppi a)
  else false.

Definition acc_start (name : string) (a : racc) : option start_t := if String.eqb name "start" then ra_start a else None.

(* all accumulators start as None, and they are the six components of the model's [racc] *)
Theorem racc0_from_source :
  map fst slpp_read_accs = ["start"; "end"; "metadata"; "gecko_codes"; "frames"; "peppi"] /\
  forallb (fun n => negb (acc_present n racc0)) (map fst slpp_read_accs) = true.
Proof. split; vm_compute; reflexivity. Qed.

(* a field path from a game::Start *)
Definition start_version_at (path : list string) (s : start_t) : option version :=
  match path with
  | [a; b] => if String.eqb a "slippi" && String.eqb b "version" then Some (st_version s) else None
  | _ => None
  end.

(* ---------------------------------------------------------------------------------------------------------
   (2) the frames.arrow arm *)
(* de::Opts { skip_frames: bool }; the caller passes Option<&Opts> *)
Definition skip_tbl (o : option bool) : bool :=
  match o with
  | None => slpp_frames_skip_default
  | Some b => if String.eqb slpp_frames_skip_field "skip_frames" then b else false
  end.
(* what the hand model takes for the options: no options = frames are read *)
Definition skip_of_opts (o : option bool) : bool := match o with None => false | Some b => b end.

Record fregs := { fr_start : option start_t; fr_size : option nat; fr_buf : option (list byte) }.
Definition fregs0 : fregs := {| fr_start := None; fr_size := None; fr_buf := None |}.

Definition fver_val (ver : version) (rg : fregs) (v : fver) : option version :=
  match v with
  | FvLocalVersion => Some ver
  | FvStartField p => match fr_start rg with Some s => start_version_at p s | None => None end
  end.

Definition cmp_nat (c : fcmp) (a b : nat) : bool :=
  match c with FcLt => (a <? b)%nat | FcLe => (a <=? b)%nat | FcNe => negb (a =? b)%nat end.

Section Reader.
  Variable dec_peppi : list byte -> option (version * option (list byte) * option bool).
  Variable dec_meta : list byte -> option (option utree).
  Variable dec_frames : version -> list byte -> outcome frames.

  (* the statements of one branch, in order, over the registers (the bound start, the declared size, the buffer);
     `declared` is file.size(), c the bytes the entry actually yields *)
  Fixpoint run_branch (steps : list fb_step) (a : racc) (ver : version) (declared : nat) (c : list byte) (rg : fregs)
    : outcome frames :=
    match steps with
    | [] => Panic 0
    | FbRequireStart acc :: r =>
        match acc_start acc a with
        | Some s => run_branch r a ver declared c {| fr_start := Some s; fr_size := fr_size rg; fr_buf := fr_buf rg |}
        | None => Err EInvalid
        end
    | FbEmptyFrames _ v fn :: _ =>
        match fver_val ver rg v, fr_start rg with
        | Some vv, Some s => if String.eqb fn "port_occupancy" then Ok (frames_new vv (port_occupancy s)) else Panic 0
        | _, _ => Panic 0
        end
    | FbDeclaredSize :: r => run_branch r a ver declared c {| fr_start := fr_start rg; fr_size := Some declared; fr_buf := fr_buf rg |}
    | FbNewBuf :: r => run_branch r a ver declared c {| fr_start := fr_start rg; fr_size := fr_size rg; fr_buf := Some [] |}
    | FbReadToEnd :: r =>
        match fr_buf rg with
        | Some b => run_branch r a ver declared c {| fr_start := fr_start rg; fr_size := fr_size rg; fr_buf := Some (b ++ c) |}
        | None => Panic 0
        end
    | FbShortIsErr cmp :: r =>
        match fr_buf rg, fr_size rg with
        | Some b, Some n => if cmp_nat cmp (length b) n then Err EInvalid else run_branch r a ver declared c rg
        | _, _ => Panic 0
        end
    | FbDecode fn v :: _ =>
        match fver_val ver rg v, fr_buf rg with
        | Some vv, Some b => if String.eqb fn "read_arrow_frames" then dec_frames vv b else Panic 0
        | _, _ => Panic 0
        end
    end.

  Definition set_frames (target : string) (fr : frames) (a : racc) : option racc :=
    if String.eqb target "frames"
    then Some (upd a (ra_start a) (ra_end a) (ra_meta a) (ra_gecko a) (Some fr) (ra_peppi a)) else None.

  Definition frames_arm_tbl (o : option bool) (declared : nat) (c : list byte) (a : racc) : outcome racc :=
    let '(vacc, vpath) := slpp_frames_version in
    match acc_start vacc a with
    | None => Err EInvalid                                           (* .ok_or(err!("no start"))? *)
    | Some s0 =>
        match start_version_at vpath s0 with
        | None => Panic 0
        | Some ver =>
            fr <- run_branch (if skip_tbl o then slpp_frames_when_skip else slpp_frames_otherwise) a ver declared c fregs0 ;;
            match set_frames slpp_frames_target fr a with Some a' => Ok a' | None => Panic 0 end        (* then `break` *)
        end
    end.

  Theorem frames_arm_from_source o skip p c r a : kind_of p = KFrames -> skip = skip_of_opts o ->
    kind_of (sb slpp_frames_entry) = KFrames /\
    read_entries dec_peppi dec_meta dec_frames skip ((p, c) :: r) a = frames_arm_tbl o (length c) c a.
  Proof.
    intros H ->. split; [vm_compute; reflexivity|].
    rewrite re_cons, H. unfold frames_arm_tbl, slpp_frames_version, acc_start.
    ev_strings. cbv iota.
    destruct (ra_start a) as [s|] eqn:Hs; [|reflexivity].
    unfold start_version_at. ev_strings. cbn [andb].
    destruct o as [[|]|]; cbn [skip_of_opts skip_tbl slpp_frames_skip_default slpp_frames_skip_field];
      ev_strings; cbv iota;
      unfold slpp_frames_when_skip, slpp_frames_otherwise, slpp_frames_target, set_frames, fregs0;
      cbn [run_branch fver_val fr_start fr_size fr_buf cmp_nat app]; unfold acc_start, start_version_at;
      ev_strings; cbv iota; cbn [andb fr_start]; rewrite ?Hs; cbn [bind];
      rewrite ?Nat.ltb_irrefl;
      try (destruct (dec_frames (st_version s) c)); reflexivity.
  Qed.

  (* a truncated archive yields a short entry: the reading branch refuses it before the decoder sees it *)
  Theorem frames_arm_short_from_source o declared c a s : ra_start a = Some s -> skip_tbl o = false ->
    (length c < declared)%nat -> frames_arm_tbl o declared c a = Err EInvalid.
  Proof.
    intros Hs Ho Hl. unfold frames_arm_tbl, slpp_frames_version, acc_start. ev_strings. cbv iota. rewrite Hs.
    unfold start_version_at. ev_strings. cbn [andb]. rewrite Ho.
    unfold slpp_frames_otherwise, fregs0.
    cbn [run_branch fr_start fr_size fr_buf cmp_nat app].
    apply Nat.ltb_lt in Hl. rewrite Hl. reflexivity.
  Qed.

  (* the empty table of the skipping branch is built with capacity 0, and the skipping branch never touches the entry *)
  Theorem frames_arm_skip_from_source :
    (exists v f, In (FbEmptyFrames 0 v f) slpp_frames_when_skip) /\
    forall a ver d1 d2 c1 c2, run_branch slpp_frames_when_skip a ver d1 c1 fregs0 =
                                  run_branch slpp_frames_when_skip a ver d2 c2 fregs0.
  Proof.
    split; [do 2 eexists; unfold slpp_frames_when_skip; cbn [In]; right; left; reflexivity|].
    intros. unfold slpp_frames_when_skip. cbn [run_branch]. destruct (acc_start "start" a); reflexivity.
  Qed.

  (* ---------------------------------------------------------------------------------------------------------
     (3) after the loop *)
  Fixpoint check_required (names : list string) (a : racc) : outcome unit :=
    match names with
    | [] => Ok tt
    | n :: r => if acc_present n a then check_required r a else Err EInvalid          (* <acc>.ok_or(err!(..))? *)
    end.

  Notation pinfo := (version * option (list byte) * option bool)%type (only parsing).

  Definition get_start (a : racc) : option start_t :=
    match lookup slpp_read_assembly "start" with
    | Some (AsRequired n) => if String.eqb n "start" then ra_start a else None
    | _ => None
    end.
  Definition get_frames (a : racc) : option frames :=
    match lookup slpp_read_assembly "frames" with
    | Some (AsRequired n) => if String.eqb n "frames" then ra_frames a else None
    | _ => None
    end.
  Definition get_end (a : racc) : option (option end_t) :=
    match lookup slpp_read_assembly "end" with
    | Some (AsOptional n) => if String.eqb n "end" then Some (ra_end a) else None
    | _ => None
    end.
  Definition get_meta (a : racc) : option (option utree) :=
    match lookup slpp_read_assembly "metadata" with
    | Some (AsOptional n) => if String.eqb n "metadata" then Some (ra_meta a) else None
    | _ => None
    end.
  Definition get_gecko (a : racc) : option (option gecko_t) :=
    match lookup slpp_read_assembly "gecko_codes" with
    | Some (AsOptional n) => if String.eqb n "gecko_codes" then Some (ra_gecko a) else None
    | _ => None
    end.
  Definition get_hash (a : racc) : option (option (list byte)) :=
    match lookup slpp_read_assembly "hash", ra_peppi a with
    | Some (AsRequiredField n f), Some (_, h, _) => if String.eqb n "peppi" && String.eqb f "slp_hash" then Some h else None
    | _, _ => None
    end.
  Definition get_quirks (a : racc) : option (option bool) :=
    match lookup slpp_read_assembly "quirks", ra_peppi a with
    | Some (AsRequiredField n f), Some (_, _, q) => if String.eqb n "peppi" && String.eqb f "quirks" then Some q else None
    | _, _ => None
    end.

  Definition assemble_tbl (a : racc) : outcome sgame :=
    _ <- check_required slpp_read_required a ;;
    match get_start a, get_end a, get_frames a, get_meta a, get_gecko a, get_hash a, get_quirks a with
    | Some s, Some e, Some fr, Some m, Some k, Some h, Some q =>
        Ok {| sg_game := {| g_start := s; g_end := e; g_frames := fr; g_meta := m; g_gecko := k; g_hashed := None; g_quirk := q |};
              sg_hash := h |}
    | _, _, _, _, _, _, _ => Panic 0
    end.

  Theorem slpp_read_from_source skip es :
    slpp_read dec_peppi dec_meta dec_frames skip es =
    (a <- read_entries dec_peppi dec_meta dec_frames skip es racc0 ;; assemble_tbl a).
  Proof.
    unfold slpp_read. destruct (read_entries _ _ _ skip es racc0) as [a| | |]; try reflexivity. cbn [bind].
    unfold assemble_tbl, slpp_read_required, get_start, get_end, get_frames, get_meta, get_gecko, get_hash, get_quirks.
    repeat match goal with |- context [lookup slpp_read_assembly ?n] => ev_term (lookup slpp_read_assembly n) end.
    cbv iota. cbn [check_required]. unfold acc_present. ev_strings. cbv iota. cbn [andb].
    destruct (ra_peppi a) as [[[pv h] q]|]; [|reflexivity].
    destruct (ra_start a) as [s|]; [|reflexivity].
    destruct (ra_frames a) as [fr|]; [|reflexivity].
    reflexivity.
  Qed.

  (* which accumulators are required and which are optional, read off the table *)
  Theorem slpp_read_required_from_source :
    (forall n, In n slpp_read_required <-> n = "peppi" \/ n = "start" \/ n = "frames") /\
    map (fun x => fst x) (filter (fun x => match snd x with AsOptional _ => true | _ => false end) slpp_read_assembly) =
      ["metadata"; "end"; "gecko_codes"].
  Proof.
    split; [|vm_compute; reflexivity].
    intro n. unfold slpp_read_required. cbn [In]. intuition (subst; auto).
  Qed.
End Reader.

(* ---------------------------------------------------------------------------------------------------------
   (4) read_arrow_frames over an abstract Arrow stream: each item of the StreamReader is a chunk (its arrays), the
   Waiting state, or an error; `dec` stands for Frame::from_struct_array(<array downcast to StructArray>, version) *)
Inductive sitem (A : Type) := SiChunk (arrays : list A) | SiWaiting | SiFail.
Arguments SiChunk {A} arrays.
Arguments SiWaiting {A}.
Arguments SiFail {A}.

Section Raf.
  Context {A B : Type}.
  Variable dec : A -> B.

  Fixpoint raf_loop (items : list (sitem A)) (frame : option B) : outcome (option B) :=
    match items with
    | [] => Ok frame
    | SiFail :: r => if raf_item_error_propagates then Err EArrow else raf_loop r frame          (* match result? *)
    | SiWaiting :: r =>
        match raf_on_waiting with
        | RaErr => Err EInvalid
        | RaIgnore => raf_loop r frame
        | RaStop => Ok frame
        | _ => Panic 0
        end
    | SiChunk arrays :: r =>
        match (match frame with None => raf_on_chunk_first | Some _ => raf_on_chunk_again end) with
        | RaErr => Err EInvalid
        | RaIgnore => raf_loop r frame
        | RaStop => Ok frame
        | RaStoreDecoded k ty f =>
            if String.eqb ty "StructArray" && String.eqb f "from_struct_array" then
              match nth_error arrays k with
              | Some x => raf_loop r (Some (dec x))
              | None => Panic 1                                    (* index out of bounds *)
              end
            else Panic 0
        | RaOkStored => Panic 0
        end
    end.

  Definition raf_tbl (items : list (sitem A)) : outcome B :=
    fr <- raf_loop items None ;;
    match fr with
    | Some f => match raf_end_with_frame with RaOkStored => Ok f | RaErr => Err EInvalid | _ => Panic 0 end
    | None => match raf_end_without_frame with RaErr => Err EInvalid | _ => Panic 0 end
    end.

  (* exactly one record batch; nothing is asked of the batch itself (an empty one is accepted like any other) *)
  Theorem raf_one_batch_from_source x xs : raf_tbl [SiChunk (x :: xs)] = Ok (dec x).
  Proof. reflexivity. Qed.

  Theorem raf_errors_from_source :
    raf_tbl [] = Err EInvalid /\                                                         (* "no batches" *)
    (forall x xs ys r, raf_tbl (SiChunk (x :: xs) :: SiChunk ys :: r) = Err EInvalid) /\  (* "multiple batches" *)
    (forall r, raf_tbl (SiWaiting :: r) = Err EInvalid) /\
    (forall x xs r, raf_tbl (SiChunk (x :: xs) :: SiWaiting :: r) = Err EInvalid) /\
    (forall r, raf_tbl (SiFail :: r) = Err EArrow) /\
    (forall x xs r, raf_tbl (SiChunk (x :: xs) :: SiFail :: r) = Err EArrow).
  Proof. repeat split; reflexivity. Qed.

  Theorem raf_ok_iff_from_source items b :
    raf_tbl items = Ok b <-> exists x xs, items = [SiChunk (x :: xs)] /\ b = dec x.
  Proof.
    split.
    - destruct items as [|[[|x xs]| |] r]; try discriminate.
      destruct r as [|[ys| |] r']; try discriminate.
      intro H. apply ok_inj in H. eauto.
    - intros (x & xs & -> & ->). reflexivity.
  Qed.
End Raf.

(* the magic number is the text "ARROW1" followed by two NUL bytes, and the prologue is expect_bytes, read_stream_metadata,
   StreamReader::new in this order *)
Theorem raf_prologue_from_source :
  arrow_stream_magic = (map b2n (sb "ARROW1") ++ [0; 0])%N /\
  raf_prologue = [RpExpectMagic; RpReadStreamMetadata; RpNewStreamReader].
Proof. split; vm_compute; reflexivity. Qed.

(* a frames decoder of the shape the source has: the magic (a short or different prefix is an error), then the stream *)
Definition dec_frames_tbl {A} (stream_of : list byte -> outcome (list (sitem A))) (dec : version -> A -> frames)
           (v : version) (bs : list byte) : outcome frames :=
  let n := List.length arrow_stream_magic in
  if (List.length bs <? n)%nat then Err EIo
  else if negb (forallb (fun p => N.eqb (b2n (fst p)) (snd p)) (combine (firstn n bs) arrow_stream_magic)) then Err EInvalid
  else items <- stream_of (skipn n bs) ;; raf_tbl (dec v) items.

Theorem dec_frames_tbl_one_batch {A} (stream_of : list byte -> outcome (list (sitem A))) dec v rest x xs :
  stream_of rest = Ok [SiChunk (x :: xs)] ->
  dec_frames_tbl stream_of dec v (map n2b arrow_stream_magic ++ rest) = Ok (dec v x).
Proof.
  intro H. unfold dec_frames_tbl, arrow_stream_magic. cbn [map app List.length].
  change (skipn 8 (n2b 65 :: n2b 82 :: n2b 82 :: n2b 79 :: n2b 87 :: n2b 49 :: n2b 0 :: n2b 0 :: rest)) with rest.
  rewrite H. reflexivity.
Qed.

Print Assumptions racc0_from_source.
Print Assumptions frames_arm_from_source.
Print Assumptions frames_arm_short_from_source.
Print Assumptions frames_arm_skip_from_source.
Print Assumptions slpp_read_from_source.
Print Assumptions slpp_read_required_from_source.
Print Assumptions raf_one_batch_from_source.
Print Assumptions raf_errors_from_source.
Print Assumptions raf_ok_iff_from_source.
Print Assumptions raf_prologue_from_source.
Print Assumptions dec_frames_tbl_one_batch.
