(* Version text: the hand model Model/VersionText.v [show] / [parse] / [parse_u8] restated THROUGH the tables that
   tools/rust2coq.py regenerates from `impl fmt::Display for Version` and `impl str::FromStr for Version` of
   src/io/slippi/mod.rs and src/io/peppi/mod.rs, and from fn parse_u8 of src/io/mod.rs (Gen/VersionTextSrc.v):
   the pieces of the format string with the field each placeholder prints, the separator of `split`, the number of
   `i.next()` calls, the accepting pattern, the parser and the binder of every constructor argument, and the integer
   type `str::parse` is instantiated at (taken from the return type of parse_u8).

   The hand model has ONE show / parse for both Version types; both sets of tables are tied to it.
   If the source changes the format string, the argument order, the separator, the arity, the pattern, the order of the
   constructor arguments or the target type, the regenerated tables change and the equalities below no longer hold. *)
From Coq Require Import List Arith NArith Lia Bool String ZifyBool ZifyN.
From Peppi Require Import Gen.Funs Gen.VersionTextSrc Model.VersionText.
Import ListNotations.
Notation length := (@List.length _) (only parsing).
Local Open Scope string_scope.
Local Open Scope list_scope.
Local Open Scope N_scope.

(* ---- Display ---- *)
Definition comp (k : nat) (v : version) : N :=
  match k with O => v0 v | S O => v1 v | _ => v2 v end.

(* write!(f, <pieces>): literal pieces verbatim, every placeholder is Display of a u8 *)
Definition show_tbl (pieces : list vt_piece) (v : version) : str :=
  List.concat (map (fun p => match p with VpLit s => s | VpField k => show_u8 (comp k v) end) pieces).

Theorem show_from_source_slippi v : show v = show_tbl slippi_version_display v.
Proof.
  unfold show, show_tbl, slippi_version_display, DOT. cbn [map List.concat comp]. rewrite app_nil_r. reflexivity.
Qed.

Theorem show_from_source_peppi v : show v = show_tbl peppi_version_display v.
Proof.
  unfold show, show_tbl, peppi_version_display, DOT. cbn [map List.concat comp]. rewrite app_nil_r. reflexivity.
Qed.

(* ---- str::parse::<uN>: optional '+', at least one ASCII digit, value <= 2^bits - 1 ---- *)
Fixpoint digits_val_max (mx acc : N) (s : str) : option N :=
  match s with
  | [] => Some acc
  | c :: r => if is_digit c then
                let acc' := acc * 10 + (c - 48) in
                if mx <? acc' then None else digits_val_max mx acc' r
              else None
  end.

(* signed targets (a leading '-' accepted) are not what the model describes: no parser *)
Definition parse_uint (bits : N) (signed : bool) (s : str) : option N :=
  if signed then None else
  match s with
  | [] => None
  | c :: r =>
      if c =? PLUS then match r with [] => None | _ => digits_val_max (2 ^ bits - 1) 0 r end
      else digits_val_max (2 ^ bits - 1) 0 s
  end.

Lemma digits_val_max_255 s : forall acc, digits_val_max 255 acc s = digits_val acc s.
Proof. induction s as [|c r IH]; intro acc; cbn; [reflexivity|]. rewrite IH. reflexivity. Qed.

Theorem parse_u8_from_source s : parse_u8 s = parse_uint parse_u8_target_bits parse_u8_target_signed s.
Proof.
  unfold parse_u8, parse_uint, parse_u8_target_signed, parse_u8_target_bits.
  change (2 ^ 8 - 1) with 255. destruct s as [|c r]; [reflexivity|].
  rewrite !digits_val_max_255. reflexivity.
Qed.

(* the parser a constructor argument names *)
Definition parser_named (name : string) : str -> option N :=
  if String.eqb name "parse_u8" then parse_uint parse_u8_target_bits parse_u8_target_signed else fun _ => None.

(* ---- FromStr ---- *)
Fixpoint split_acc (sep : N) (cur : str) (s : str) : list str :=
  match s with
  | [] => [rev cur]
  | c :: r => if c =? sep then rev cur :: split_acc sep [] r else split_acc sep (c :: cur) r
  end.
Definition split_on (sep : N) (s : str) : list str := split_acc sep [] s.

Lemma split_acc_dot s : forall cur, split_acc 46 cur s = split_dot_acc cur s.
Proof. induction s as [|c r IH]; intro cur; cbn; [reflexivity|]. rewrite !IH. reflexivity. Qed.

(* the tuple (i.next(), .., i.next()) of n calls on the iterator over [parts] *)
Definition nexts (n : nat) (parts : list str) : list (option str) := map (fun k => nth_error parts k) (seq 0 n).

(* matching against (Some(b0), .., None, ..): Some binders = the bound components in order *)
Fixpoint match_pat (pat : list bool) (xs : list (option str)) : option (list str) :=
  match pat, xs with
  | [], [] => Some []
  | true :: p, Some x :: r => match match_pat p r with Some bs => Some (x :: bs) | None => None end
  | false :: p, None :: r => match_pat p r
  | _, _ => None
  end.

(* the constructor arguments, evaluated left to right, each with `?` *)
Fixpoint ctor_args (ctor : list (string * nat)) (binders : list str) : option (list N) :=
  match ctor with
  | [] => Some []
  | (f, k) :: r =>
      match parser_named f (nth k binders []) with
      | Some x => match ctor_args r binders with Some xs => Some (x :: xs) | None => None end
      | None => None
      end
  end.

Definition parse_tbl (sep : N) (ncalls : nat) (pat : list bool) (ctor : list (string * nat)) (s : str) : option version :=
  match match_pat pat (nexts ncalls (split_on sep s)) with
  | Some binders =>
      match ctor_args ctor binders with
      | Some [x; y; z] => Some (x, y, z)
      | _ => None
      end
  | None => None
  end.

Lemma parse_tbl_std s :
  parse s = parse_tbl 46 4 [true; true; true; false] [("parse_u8", 0%nat); ("parse_u8", 1%nat); ("parse_u8", 2%nat)] s.
Proof.
  unfold parse, parse_tbl, split_on, split_dot. rewrite split_acc_dot.
  destruct (split_dot_acc [] s) as [|a [|b [|c [|d l]]]]; try reflexivity.
  unfold nexts. cbn [seq map nth_error match_pat ctor_args nth].
  change (parser_named "parse_u8") with (parse_uint parse_u8_target_bits parse_u8_target_signed).
  rewrite <- !parse_u8_from_source.
  destruct (parse_u8 a), (parse_u8 b), (parse_u8 c); reflexivity.
Qed.

Theorem parse_from_source_slippi s :
  parse s = parse_tbl slippi_version_split_char slippi_version_next_calls slippi_version_accept slippi_version_ctor s.
Proof. exact (parse_tbl_std s). Qed.

Theorem parse_from_source_peppi s :
  parse s = parse_tbl peppi_version_split_char peppi_version_next_calls peppi_version_accept peppi_version_ctor s.
Proof. exact (parse_tbl_std s). Qed.

(* the two Version types read and print alike *)
Theorem version_text_tables_agree :
  slippi_version_display = peppi_version_display /\ slippi_version_split_char = peppi_version_split_char /\
  slippi_version_next_calls = peppi_version_next_calls /\ slippi_version_accept = peppi_version_accept /\
  slippi_version_ctor = peppi_version_ctor.
Proof. repeat split; reflexivity. Qed.

(* the round trip, stated on the table-driven forms *)
Corollary parse_show_from_source v : u8_version v ->
  parse_tbl slippi_version_split_char slippi_version_next_calls slippi_version_accept slippi_version_ctor
            (show_tbl slippi_version_display v) = Some v /\
  parse_tbl peppi_version_split_char peppi_version_next_calls peppi_version_accept peppi_version_ctor
            (show_tbl peppi_version_display v) = Some v.
Proof.
  intro H. rewrite <- parse_from_source_slippi, <- show_from_source_slippi, <- parse_from_source_peppi, <- show_from_source_peppi.
  split; apply parse_show; exact H.
Qed.

Print Assumptions show_from_source_slippi.
Print Assumptions show_from_source_peppi.
Print Assumptions parse_u8_from_source.
Print Assumptions parse_from_source_slippi.
Print Assumptions parse_from_source_peppi.
Print Assumptions version_text_tables_agree.
Print Assumptions parse_show_from_source.
