(* Tolerated irregularities, continued: on top of Irregular.v (unknown events interleaved, extra table entries, junk
   after a single Game End), the known events may also be REORDERED inside a frame by exchanges of adjacent
   independent frame-interior events (Permute.v).  The stream still parses to the game of the canonical replay, and
   (C17) writing that game gives the canonical stream. *)
From Coq Require Import List Arith NArith ZArith Lia Bool String ZifyBool ZifyN ZifyNat Permutation.
From Coq.Strings Require Import Byte.
From Peppi Require Import Base.Bytes Base.Outcome Base.Stream Layout.Syntax Gen.Funs Layout.Sem Layout.Rows
  Model.Ubjson Model.Start Model.Json Model.Parse Model.Reader Model.Writer Model.Recorder
  Proofs.Framing Proofs.FrameStep Proofs.GeckoProof Proofs.StartFacts Proofs.TableFacts Proofs.UbjsonProof
  Proofs.ReadProof Proofs.C08Proof Proofs.Irregular Proofs.Permute Proofs.WriteProof.
Import ListNotations.
Notation length := (@List.length _) (only parsing).

(* ---- definitions ---- *)
Definition reordered (r : replay) (canon evs : list (N * list byte)) : Prop :=
  if vgte (r_ver r) 2 2 then swaps canon evs else swaps_old canon evs.

Definition wf_irreg2 (r : replay) (st : start_t) (x : irreg) : Prop :=
  NoDup (map fst (ig_extra x)) /\
  Forall (fun p => known_code (fst p) = false /\ (fst p < 256)%N /\ (0 < snd p < 65536)%N) (ig_extra x) /\
  (length (rec_table r ++ ig_extra x) <= 84)%nat /\
  reordered r (canon_events r st) (filter (fun e => known_code (fst e)) (ig_events x)) /\
  Forall (fun e => known_code (fst e) = false -> lookup_size (ig_extra x) (fst e) = Some (nn (length (snd e)))) (ig_events x) /\
  (ig_junk x <> [] -> (exists b, r_end r = OneEnd b) /\
                      ~ (nn (length (ig_junk x)) = (1 + game_End_size (r_ver r))%N /\ b2n (hd x00 (ig_junk x)) = Event_GameEnd)) /\
  (nn (length (raw_irr r x)) < 4294967296)%N.

Lemma reordered_refl r l : reordered r l l.
Proof. unfold reordered. destruct (vgte (r_ver r) 2 2); [apply sw_refl|apply swo_refl]. Qed.

Lemma reordered_swaps r a b : reordered r a b -> swaps a b.
Proof. unfold reordered. destruct (vgte (r_ver r) 2 2); [intro H; exact H|apply swaps_old_swaps]. Qed.

(* the old notion is an instance *)
Lemma wf_irreg_2 r st x : wf_irreg r st x -> wf_irreg2 r st x.
Proof.
  intros (H1 & H2 & H3 & H4 & H5 & H6 & H7). repeat split; try assumption.
  - rewrite H4. apply reordered_refl.
  - apply H6. assumption.
  - apply H6. assumption.
Qed.

Lemma evs_len_filter_le (f : N * list byte -> bool) l : (evs_len (filter f l) <= evs_len l)%N.
Proof.
  induction l as [|e l IH]; [apply N.le_refl|]. cbn [filter]. destruct (f e); rewrite ?evs_len_cons; lia.
Qed.

Section Irr2.
Variables (r : replay) (st : start_t) (x : irreg).
Hypothesis Hwf : wf_replay r = true.
Hypothesis Hst : game_start (r_start r) = ROk st.
Hypothesis Hx2 : wf_irreg2 r st x.

Local Notation t' := (rec_table r ++ ig_extra x).
Local Notation sizes' := (rev (rec_table r ++ ig_extra x)).
Local Notation evs := (ig_events x).
Local Notation rawlen' := (nn (length (raw_irr r x))).
Local Notation S0 := (s0' r st x).
Local Notation S1 := (s1' r st x).
Local Notation B := (B0' r x).
Local Notation kevs := (filter kn (ig_events x)).

Lemma Hsw : swaps (canon_events r st) kevs.
Proof. destruct Hx2 as (_ & _ & _ & H & _). exact (reordered_swaps r _ _ H). Qed.

(* the rendering with the same extra table entries and just the canonical events: the table lemmas of Irregular.v apply to it *)
Definition xc : irreg := {| ig_extra := ig_extra x; ig_events := canon_events r st; ig_junk := [] |}.

Lemma Hxc : wf_irreg r st xc.
Proof.
  destruct Hx2 as (H1 & H2 & H3 & _ & _ & _ & H7).
  unfold wf_irreg. cbn [xc ig_extra ig_events ig_junk].
  split; [exact H1|]. split; [exact H2|]. split; [exact H3|].
  split; [apply filter_id; exact (canon_known r st)|].
  split; [eapply Forall_impl; [|exact (canon_known r st)]; intros e Hk Hn; unfold kn in Hk; congruence|].
  split; [intro H; exfalso; apply H; reflexivity|].
  rewrite (rawlen'_eq r x Hwf) in H7. rewrite (rawlen'_eq r xc Hwf).
  change (B0' r xc) with B. cbn [xc ig_events ig_junk List.length].
  pose proof (swaps_evs_len _ _ Hsw) as Hl. pose proof (evs_len_filter_le kn evs) as Hle.
  unfold nn in *. lia.
Qed.

Lemma lk2_known c v : lookup_size (rev (rec_table r)) c = Some v -> lookup_size sizes' c = Some v.
Proof. exact (lk'_known r st xc Hwf Hst Hxc c v). Qed.

Lemma lk2_unknown c : known_code c = false -> lookup_size sizes' c = lookup_size (ig_extra x) c.
Proof. exact (lk'_unknown r st xc Hwf Hst Hxc c). Qed.

Lemma parse_start_irr2 rest : parse_start (emit_table t' ++ ev Event_GameStart ++ r_start r ++ rest) = Ok (S0, rest).
Proof. exact (parse_start_irr r st xc Hwf Hst Hxc rest). Qed.

Lemma canon_ok : Forall (ev_ok (rev (rec_table r))) (canon_events r st).
Proof. rewrite canon_events_eq. apply Forall_app. split; [exact (gevs_ok r st Hwf Hst)|exact (fevs_ok r st Hwf Hst)]. Qed.

(* (b) every event has the size the table announces *)
Lemma evs_ok2 : Forall (ev_ok sizes') evs.
Proof.
  destruct Hx2 as (_ & Hex & _ & _ & Hunk & _).
  pose proof (swaps_ok _ _ _ Hsw canon_ok) as Hk. rewrite Forall_forall in Hk.
  apply Forall_forall. intros e He. destruct (kn e) eqn:Hke.
  - destruct (Hk e) as [Hc Hl]; [apply filter_In; split; assumption|].
    split; [exact Hc|]. apply lk2_known. exact Hl.
  - rewrite Forall_forall in Hunk. specialize (Hunk e He Hke). split.
    + apply lookup_in in Hunk. rewrite Forall_forall in Hex. destruct (Hex _ Hunk) as (_ & Hc & _). exact Hc.
    + rewrite lk2_unknown by exact Hke. exact Hunk.
Qed.

(* (a) the run of the events: canonical run, then the exchanges, then the unknown events *)
Lemma run_canon : run_events S0 (canon_events r st) = Ok (reenv (s1 r st) sizes' (B + evs_len (canon_events r st))).
Proof.
  unfold s0'. rewrite run_events_re, canon_events_eq. destruct (run_all r st Hwf Hst) as [Hrun _]. rewrite Hrun. reflexivity.
Qed.

Lemma run_known : run_events S0 kevs = Ok (reenv (s1 r st) sizes' (B + evs_len (canon_events r st))).
Proof.
  destruct Hx2 as (_ & _ & _ & Hre & _). fold kn in Hre. unfold reordered in Hre.
  destruct (vgte (r_ver r) 2 2) eqn:Hv.
  - apply (run_events_swaps S0 (canon_events r st) kevs); [|exact Hre|exact run_canon].
    change (ver S0) with (ver (s0 r st)). rewrite (ver_s0 r st Hst). exact Hv.
  - apply (run_events_swaps_old S0 (canon_events r st) kevs Hre). exact run_canon.
Qed.

Lemma run_irr2 : run_events S0 evs = Ok S1.
Proof. rewrite (run_interleaved evs S0 _ run_known). reflexivity. Qed.

Lemma loop_body2 rest :
  event_loop (S (length (Eb x ++ rest))) rawlen' S0 (Eb x ++ rest)
  = event_loop (S (length (Eb x ++ rest) - length evs)) rawlen' S1 rest.
Proof.
  assert (Hc : (length evs <= length (Eb x ++ rest))%nat).
  { rewrite app_length. pose proof (evs_count_le evs). unfold Eb in *. lia. }
  set (n := length (Eb x ++ rest)) in *.
  replace (S n) with (length evs + S (n - length evs))%nat at 1 by lia.
  unfold Eb. apply loop_events.
  - exact run_irr2.
  - exact evs_ok2.
  - change (ps_bytes_read S0) with B. rewrite (rawlen'_eq r x Hwf). lia.
Qed.

Lemma end_lookup2 b : end_blk r = Some b -> lookup_size (ps_sizes S1) Event_GameEnd = Some (nn (length b)).
Proof.
  intro Hb. change (ps_sizes S1) with sizes'. apply lk2_known. rewrite (lk_rev r st Hwf Hst), lk_end, Hb. reflexivity.
Qed.

Lemma read_irr_gen2 h bs0 :
  ('(raw_len, bs) <- parse_header (emit_irr r x) ;;
   '(s, bs) <- parse_start bs ;;
   '(s, bs) <- read_skip {| o_skip := false; o_hash := h |} raw_len s bs ;;
   '(s, bs) <- event_loop (S (length bs)) raw_len s bs ;;
   let s := if vlt (ver s) 3 0 then frame_close s else s in
   '(s, bs) <- read_dup raw_len s bs ;;
   read_tail {| o_skip := false; o_hash := h |} bs0 s bs)
  = Ok (with_hashed (game_of {| o_skip := false; o_hash := h |} r st (end_of r)) (if h then Some (length bs0) else None), []).
Proof.
  destruct (wf_replay_inv r st Hwf Hst) as (_ & _ & _ & _ & _ & Hend & Hmeta & _).
  destruct Hx2 as (_ & _ & _ & _ & _ & Hjunk & Hbound).
  pose proof (s1_misc r st) as (Hgk & Hen & Hq & Hm).
  pose proof (s1_env r st Hwf Hst) as (_ & Hlay & Hstart & _).
  pose proof (rawlen'_eq r x Hwf) as Hraw. pose proof (s1_ver r st Hst) as Hv1.
  assert (HB : (0 < B)%N) by (unfold B0'; lia).
  rewrite emit_irr_split.
  rewrite parse_header_emit by exact Hbound. cbn [bind].
  rewrite parse_start_irr2. cbn [bind].
  unfold read_skip. cbn [o_skip bind].
  rewrite loop_body2.
  set (fuel := (length (Eb x ++ emit_end r ++ ig_junk x ++ emit_meta (r_meta r) ++ [x7d]) - length evs)%nat).
  destruct (close_if_proj S1) as (C1 & C2 & C3 & C4 & C5 & C6 & C7 & C8 & C9 & C10).
  change (ver S1) with (ver (s1 r st)) in C9, C10. change (ps_layout S1) with (ps_layout (s1 r st)) in C3, C10.
  rewrite Hv1, Hlay in C10. change (ps_frames S1) with (FR r st) in C10. rewrite (cl_FR r st Hwf Hst) in C10.
  change (ps_bytes_read S1) with (B + evs_len evs)%N in C2.
  change (ps_start S1) with (ps_start (s1 r st)) in C4. change (ps_end S1) with (ps_end (s1 r st)) in C5.
  change (ps_meta S1) with (ps_meta (s1 r st)) in C6. change (ps_gecko S1) with (ps_gecko (s1 r st)) in C7.
  change (ps_quirk S1) with (ps_quirk (s1 r st)) in C8.
  rewrite Hstart in C4. rewrite Hen in C5. rewrite Hm in C6. rewrite Hgk in C7. rewrite Hq in C8. rewrite Hv1 in C9. rewrite Hlay in C3.
  destruct (r_end r) as [|b|b] eqn:Hre; unfold emit_end in *; rewrite Hre in *.
  - (* no Game End: no junk either *)
    assert (Hj : ig_junk x = []).
    { destruct (ig_junk x) as [|j0 jr]; [reflexivity|]. destruct Hjunk as [[b0 Hb0] _]; discriminate. }
    rewrite Hj in *. rewrite !app_nil_l. cbn [List.length] in Hraw.
    rewrite loop_exit; [| unfold nn in *; lia | change (ps_bytes_read S1) with (B + evs_len evs)%N; unfold nn in *; lia]. cbn [bind].
    fold (close_if S1).
    rewrite read_dup_none by (rewrite C2; unfold nn in *; lia).
    cbn [bind]. rewrite (read_tail_emit _ _ _ _ Hmeta). cbn [o_hash]. f_equal. f_equal.
    apply game_eq_irr; try assumption.
    + unfold end_of, end_blk. rewrite Hre. exact C5.
    + rewrite Hre. exact C8.
  - (* one Game End, possibly junk after it *)
    assert (Hb : end_blk r = Some b) by (unfold end_blk; rewrite Hre; reflexivity).
    destruct (Hend b Hb) as [Hbl [e He]].
    rewrite app_length in Hraw. unfold ev in Hraw. cbn [List.length] in Hraw.
    rewrite <- app_assoc.
    rewrite (end_step fuel rawlen' S1 b e _ (end_lookup2 b Hb) He)
      by (change (ps_bytes_read S1) with (B + evs_len evs)%N; unfold nn in *; lia).
    cbn [bind]. fold (close_if S1).
    set (sE := add_bytes_read (set_end (close_if S1) e) (nn (length b) + 1)).
    fold (close_if sE).
    destruct (close_if_proj sE) as (D1 & D2 & D3 & D4 & D5 & D6 & D7 & D8 & D9 & D10).
    change (ver sE) with (ver (close_if S1)) in D10, D9. change (ps_layout sE) with (ps_layout (close_if S1)) in D10.
    change (ps_frames sE) with (ps_frames (close_if S1)) in D10. rewrite C9, C3, C10 in D10. rewrite (cl_cl r st Hwf Hst) in D10.
    rewrite C9 in D9.
    change (ps_bytes_read sE) with (ps_bytes_read (close_if S1) + (nn (length b) + 1))%N in D2. rewrite C2 in D2.
    change (ps_start sE) with (ps_start (close_if S1)) in D4. rewrite C4 in D4.
    change (ps_end sE) with (Some e) in D5.
    change (ps_meta sE) with (ps_meta (close_if S1)) in D6. rewrite C6 in D6.
    change (ps_gecko sE) with (ps_gecko (close_if S1)) in D7. rewrite C7 in D7.
    change (ps_quirk sE) with (ps_quirk (close_if S1)) in D8. rewrite C8 in D8.
    assert (Hres : read_dup rawlen' (close_if sE) (ig_junk x ++ emit_meta (r_meta r) ++ [x7d])
                   = Ok (close_if sE, emit_meta (r_meta r) ++ [x7d])).
    { destruct (ig_junk x) as [|j0 jr] eqn:Hj.
      - cbn [app]. apply read_dup_none. rewrite D2. cbn [List.length] in Hraw. unfold nn in *. lia.
      - apply (read_dup_junk r x Hwf); [discriminate| rewrite D2; unfold nn in *; lia |].
        rewrite D9. destruct Hjunk as [_ Hno]; [discriminate|]. exact Hno. }
    rewrite Hres.
    cbn [bind]. rewrite (read_tail_emit _ _ _ _ Hmeta). cbn [o_hash]. f_equal. f_equal.
    apply game_eq_irr; try assumption.
    + rewrite D5. unfold end_of. rewrite Hb, He. reflexivity.
    + rewrite Hre. exact D8.
  - (* doubled Game End: no junk *)
    assert (Hj : ig_junk x = []).
    { destruct (ig_junk x) as [|j0 jr]; [reflexivity|]. destruct Hjunk as [[b0 Hb0] _]; discriminate. }
    rewrite Hj in *. cbn [List.length] in Hraw.
    assert (Hb : end_blk r = Some b) by (unfold end_blk; rewrite Hre; reflexivity).
    destruct (Hend b Hb) as [Hbl [e He]].
    rewrite !app_length in Hraw. unfold ev in Hraw. cbn [List.length] in Hraw.
    rewrite <- !app_assoc.
    rewrite (end_step fuel rawlen' S1 b e _ (end_lookup2 b Hb) He)
      by (change (ps_bytes_read S1) with (B + evs_len evs)%N; unfold nn in *; lia).
    cbn [bind]. fold (close_if S1).
    set (sE := add_bytes_read (set_end (close_if S1) e) (nn (length b) + 1)).
    fold (close_if sE).
    destruct (close_if_proj sE) as (D1 & D2 & D3 & D4 & D5 & D6 & D7 & D8 & D9 & D10).
    change (ver sE) with (ver (close_if S1)) in D10, D9. change (ps_layout sE) with (ps_layout (close_if S1)) in D10.
    change (ps_frames sE) with (ps_frames (close_if S1)) in D10. rewrite C9, C3, C10 in D10. rewrite (cl_cl r st Hwf Hst) in D10.
    rewrite C9 in D9.
    change (ps_bytes_read sE) with (ps_bytes_read (close_if S1) + (nn (length b) + 1))%N in D2. rewrite C2 in D2.
    change (ps_start sE) with (ps_start (close_if S1)) in D4. rewrite C4 in D4.
    change (ps_end sE) with (Some e) in D5.
    change (ps_meta sE) with (ps_meta (close_if S1)) in D6. rewrite C6 in D6.
    change (ps_gecko sE) with (ps_gecko (close_if S1)) in D7. rewrite C7 in D7.
    cbn [app].
    rewrite read_dup_second; [| rewrite D2; unfold nn in *; lia | rewrite D9; unfold nn; rewrite Hbl; lia].
    cbn [bind]. rewrite (read_tail_emit _ _ _ _ Hmeta). cbn [o_hash]. f_equal. f_equal.
    apply game_eq_irr.
    + change (ps_start (set_quirk (close_if sE))) with (ps_start (close_if sE)). exact D4.
    + change (ps_end (set_quirk (close_if sE))) with (ps_end (close_if sE)). rewrite D5. unfold end_of. rewrite Hb, He. reflexivity.
    + change (ps_frames (set_quirk (close_if sE))) with (ps_frames (close_if sE)). exact D10.
    + change (ps_meta (set_quirk (close_if sE))) with (ps_meta (close_if sE)). exact D6.
    + change (ps_gecko (set_quirk (close_if sE))) with (ps_gecko (close_if sE)). exact D7.
    + rewrite Hre. reflexivity.
Qed.

Theorem read_irregular2_sec h :
  slp_read {| o_skip := false; o_hash := h |} (emit_irr r x)
  = Ok (with_hashed (game_of {| o_skip := false; o_hash := h |} r st (end_of r))
                    (if h then Some (length (emit_irr r x)) else None), []).
Proof. rewrite slp_read_eq. apply read_irr_gen2. Qed.
End Irr2.

(* ---- MAIN ---- *)
Theorem read_irregular2 r st x h :
  wf_replay r = true -> game_start (r_start r) = ROk st -> wf_irreg2 r st x ->
  slp_read {| o_skip := false; o_hash := h |} (emit_irr r x)
  = Ok (with_hashed (game_of {| o_skip := false; o_hash := h |} r st (end_of r))
                    (if h then Some (length (emit_irr r x)) else None), []).
Proof. intros Hwf Hst Hx. exact (read_irregular2_sec r st x Hwf Hst Hx h). Qed.

(* ---- non-vacuity: any reordering of the canonical events is a wf_irreg2 rendering ---- *)
Lemma wf_irreg2_reordered r st evs :
  wf_replay r = true -> game_start (r_start r) = ROk st -> reordered r (canon_events r st) evs ->
  wf_irreg2 r st {| ig_extra := []; ig_events := evs; ig_junk := [] |}.
Proof.
  intros Hwf Hst Hre. destruct (rec_table_ok r st Hwf Hst) as (_ & Hlen & _).
  destruct (wf_replay_inv r st Hwf Hst) as (_ & _ & _ & _ & _ & _ & _ & Hbound).
  pose proof (reordered_swaps r _ _ Hre) as Hsw.
  assert (Hk : Forall (fun e => kn e = true) evs).
  { eapply Permutation_Forall; [apply swaps_perm; exact Hsw|exact (canon_known r st)]. }
  unfold wf_irreg2. cbn [ig_extra ig_events ig_junk map].
  split; [constructor|]. split; [constructor|]. split; [rewrite app_nil_r; exact Hlen|].
  split; [fold kn; rewrite (filter_id kn evs Hk); exact Hre|].
  split; [eapply Forall_impl; [|exact Hk]; intros e He Hn; unfold kn in He; congruence|].
  split; [intro H; exfalso; apply H; reflexivity|].
  rewrite <- (raw_irr0 r st Hst) in Hbound.
  unfold raw_irr, irreg0 in *. cbn [ig_extra ig_events ig_junk] in *.
  rewrite !app_length in *. rewrite <- (swaps_bytes_len _ _ Hsw). exact Hbound.
Qed.

(* e.g. from version 2.2 on, an Item event exchanged with the Post event that follows it *)
Lemma wf_irreg2_item_post r st l1 a b l2 :
  wf_replay r = true -> game_start (r_start r) = ROk st -> vgte (r_ver r) 2 2 = true ->
  canon_events r st = l1 ++ (Event_Item, a) :: (Event_FramePost, b) :: l2 ->
  wf_irreg2 r st {| ig_extra := []; ig_events := l1 ++ (Event_FramePost, b) :: (Event_Item, a) :: l2; ig_junk := [] |}.
Proof.
  intros Hwf Hst Hv Hc. apply wf_irreg2_reordered; try assumption.
  unfold reordered. rewrite Hv, Hc. apply sw_swap. reflexivity.
Qed.

(* ---- C17: the irregular stream reads to a game whose serialisation is the canonical stream ---- *)
Theorem c17_irregular2 r st x h :
  wf_replay r = true -> game_start (r_start r) = ROk st -> wf_irreg2 r st x ->
  exists g, slp_read {| o_skip := false; o_hash := h |} (emit_irr r x) = Ok (g, []) /\ slp_write g = Ok (emit r) /\
    parse_header (emit r) = Ok (nn (length (raw_of r)), raw_of r ++ emit_meta (r_meta r) ++ [x7d]) /\
    exists g', slp_read {| o_skip := false; o_hash := h |} (emit r) = Ok (g', []) /\
       g_start g' = g_start g /\ g_end g' = g_end g /\ g_meta g' = g_meta g /\ g_gecko g' = g_gecko g /\
       g_frames g' = g_frames g /\ g_quirk g' = g_quirk g /\ slp_write g' = Ok (emit r).
Proof.
  intros Hwf Hst Hx.
  destruct (wf_replay_inv r st Hwf Hst) as (_ & _ & _ & _ & _ & _ & _ & Hbound).
  eexists. split; [exact (read_irregular2 r st x h Hwf Hst Hx)|].
  split; [exact (c01_write r st h Hwf Hst)|].
  split; [unfold emit; apply parse_header_emit; exact Hbound|].
  exists (game_of {| o_skip := false; o_hash := h |} r st (end_of r)).
  split; [exact (read_full r st Hwf Hst h)|].
  repeat split; try reflexivity. exact (c01_write r st h Hwf Hst).
Qed.

Print Assumptions read_irregular2.
Print Assumptions wf_irreg_2.
Print Assumptions wf_irreg2_item_post.
Print Assumptions c17_irregular2.
