(* Tolerated irregularities: the reader on streams with unknown events interleaved anywhere, extra payload-table
   entries (for codes peppi does not know) and junk bytes after a single Game End.  Such a stream parses to exactly
   the game of the canonical replay (only the hashed length differs).  Generalises ReadProof.read_full. *)
From Coq Require Import List Arith NArith ZArith Lia Bool String ZifyBool ZifyN ZifyNat.
From Coq.Strings Require Import Byte.
From Peppi Require Import Base.Bytes Base.Outcome Base.Stream Layout.Syntax Gen.Funs Layout.Sem Layout.Rows
  Model.Ubjson Model.Start Model.Json Model.Parse Model.Reader Model.Writer Model.Recorder
  Proofs.Framing Proofs.FrameStep Proofs.GeckoProof Proofs.StartFacts Proofs.TableFacts Proofs.UbjsonProof
  Proofs.ReadProof Proofs.C08Proof.
Import ListNotations.
Notation length := (@List.length _) (only parsing).

(* ---- definitions ---- *)
Definition known_code (c : N) : bool := existsb (N.eqb c) Event_codes.

Record irreg := { ig_extra : list (N * N); ig_events : list (N * list byte); ig_junk : list byte }.

Definition raw_irr (r : replay) (x : irreg) : list byte :=
  emit_table (rec_table r ++ ig_extra x) ++ ev Event_GameStart ++ r_start r
  ++ flat_map enc_ev (ig_events x) ++ emit_end r ++ ig_junk x.

Definition emit_irr (r : replay) (x : irreg) : list byte :=
  sig_slp ++ be_enc 4 (nn (length (raw_irr r x))) ++ raw_irr r x ++ emit_meta (r_meta r) ++ [x7d].

Definition canon_events (r : replay) (st : start_t) : list (N * list byte) :=
  (match r_gecko r with Some c => gecko_events (length (gk_bytes c) / 512) 0 c | None => [] end)
  ++ flat_map (frame_events (r_ver r) (slots_of (port_occupancy st))) (r_frames r).

Definition wf_irreg (r : replay) (st : start_t) (x : irreg) : Prop :=
  NoDup (map fst (ig_extra x)) /\
  Forall (fun p => known_code (fst p) = false /\ (fst p < 256)%N /\ (0 < snd p < 65536)%N) (ig_extra x) /\
  (length (rec_table r ++ ig_extra x) <= 84)%nat /\
  filter (fun e => known_code (fst e)) (ig_events x) = canon_events r st /\
  Forall (fun e => known_code (fst e) = false -> lookup_size (ig_extra x) (fst e) = Some (nn (length (snd e)))) (ig_events x) /\
  (ig_junk x <> [] -> (exists b, r_end r = OneEnd b) /\
                      ~ (nn (length (ig_junk x)) = (1 + game_End_size (r_ver r))%N /\ b2n (hd x00 (ig_junk x)) = Event_GameEnd)) /\
  (nn (length (raw_irr r x)) < 4294967296)%N.

Definition with_hashed (g : game) (h : option nat) : game :=
  {| g_start := g_start g; g_end := g_end g; g_frames := g_frames g; g_meta := g_meta g;
     g_gecko := g_gecko g; g_hashed := h; g_quirk := g_quirk g |}.

Lemma canon_events_eq r st : canon_events r st = gevs r ++ fevs r st.
Proof. reflexivity. Qed.

(* ---- event handling reads neither the size table nor the byte count ---- *)
Definition reenv (s : pstate) (sz : list (N * N)) (b : N) : pstate :=
  {| ps_sizes := sz; ps_bytes_read := b; ps_split_raw := ps_split_raw s;
     ps_split_actual := ps_split_actual s; ps_layout := ps_layout s; ps_start := ps_start s;
     ps_end := ps_end s; ps_frames := ps_frames s; ps_meta := ps_meta s; ps_gecko := ps_gecko s; ps_quirk := ps_quirk s |}.

Definition omap {A B} (f : A -> B) (o : outcome A) : outcome B :=
  match o with Ok a => Ok (f a) | Err e => Err e | Panic p => Panic p | Fuel => Fuel end.


Section Reenv.
Variables (sz : list (N * N)) (b : N).
Local Notation R := (fun s => reenv s sz b).

Lemma re_ver s : ver (reenv s sz b) = ver s. Proof. reflexivity. Qed.
Lemma re_layout s : ps_layout (reenv s sz b) = ps_layout s. Proof. reflexivity. Qed.
Lemma re_frames s : ps_frames (reenv s sz b) = ps_frames s. Proof. reflexivity. Qed.
Lemma re_split_raw s : ps_split_raw (reenv s sz b) = ps_split_raw s. Proof. reflexivity. Qed.
Lemma re_split_actual s : ps_split_actual (reenv s sz b) = ps_split_actual s. Proof. reflexivity. Qed.
Lemma re_last s : last_id (reenv s sz b) = last_id s. Proof. reflexivity. Qed.
Lemma re_expect s id : expect_id (reenv s sz b) id = expect_id s id. Proof. reflexivity. Qed.
Lemma re_lookup s p f : data_lookup (reenv s sz b) p f = data_lookup s p f. Proof. reflexivity. Qed.
Lemma re_close s : frame_close (reenv s sz b) = reenv (frame_close s) sz b. Proof. reflexivity. Qed.
Lemma re_open s id : frame_open (reenv s sz b) id = reenv (frame_open s id) sz b. Proof. reflexivity. Qed.
Lemma re_set_frames s fr : set_frames (reenv s sz b) fr = reenv (set_frames s fr) sz b. Proof. reflexivity. Qed.
Lemma re_set_end s e : set_end (reenv s sz b) e = reenv (set_end s e) sz b. Proof. reflexivity. Qed.
Lemma re_set_gecko s g : set_gecko (reenv s sz b) g = reenv (set_gecko s g) sz b. Proof. reflexivity. Qed.
Lemma re_set_split s raw a : set_split (reenv s sz b) raw a = reenv (set_split s raw a) sz b. Proof. reflexivity. Qed.

Ltac re_norm := rewrite ?re_ver, ?re_layout, ?re_frames, ?re_split_raw, ?re_split_actual, ?re_last, ?re_expect, ?re_lookup,
                        ?re_close, ?re_open, ?re_set_frames, ?re_set_end, ?re_set_gecko, ?re_set_split.

Ltac no_re x := lazymatch x with context [reenv] => fail | _ => idtac end.
Ltac re_go :=
  cbv zeta;
  repeat (re_norm; cbn [bind omap];
          match goal with
          | |- ?x = ?x => reflexivity
          | |- context [if ?x then _ else _] => no_re x; destruct x
          | |- context [bind ?x _] => no_re x; destruct x as [[? ?]| | |]
          | |- context [bind ?x _] => no_re x; destruct x
          | |- context [match ?x with Some _ => _ | None => _ end] => no_re x; destruct x
          end);
  try reflexivity.

Lemma arm_gecko_re buf s : arm_gecko buf (reenv s sz b) = omap R (arm_gecko buf s).
Proof. unfold arm_gecko. re_go. Qed.

Lemma arm_end_re buf s : arm_end buf (reenv s sz b) = omap R (arm_end buf s).
Proof. unfold arm_end. re_go. Qed.

Lemma arm_fstart_re buf s : arm_fstart buf (reenv s sz b) = omap R (arm_fstart buf s).
Proof. unfold arm_fstart. re_go. Qed.

Definition pre_s1 (s : pstate) (id : Z) : outcome pstate :=
  if vgte (ver s) 2 2 then (_ <- expect_id s id ;; Ok s)
  else
    let lid := match last_id s with Some l => l | None => (FIRST_INDEX - 1)%Z end in
    if Z.eqb (lid + 1) id then Ok (frame_open (frame_close s) id)
    else (_ <- expect_id s id ;; Ok s).

Lemma pre_s1_re s id : pre_s1 (reenv s sz b) id = omap R (pre_s1 s id).
Proof.
  unfold pre_s1. cbv zeta. re_norm. destruct (vgte (ver s) 2 2).
  - destruct (expect_id s id); reflexivity.
  - destruct (Z.eqb _ id); [reflexivity|]. destruct (expect_id s id); reflexivity.
Qed.

Lemma arm_pre_re buf s : arm_pre buf (reenv s sz b) = omap R (arm_pre buf s).
Proof.
  unfold arm_pre.
  destruct (i32_at buf) as [[id r]| | |]; cbn [bind omap]; try reflexivity.
  destruct (u8_hd r) as [[port r1]| | |]; cbn [bind omap]; try reflexivity.
  destruct (u8_hd r1) as [[folb r2]| | |]; cbn [bind omap]; try reflexivity.
  fold (pre_s1 (reenv s sz b) id). fold (pre_s1 s id). rewrite pre_s1_re.
  destruct (pre_s1 s id) as [s1| | |]; cbn [bind omap]; try reflexivity.
  re_norm. destruct (data_lookup s1 port _); cbn [bind omap]; try reflexivity.
  destruct (read_push _ r2); cbn [bind omap]; reflexivity.
Qed.

Lemma arm_post_re buf s : arm_post buf (reenv s sz b) = omap R (arm_post buf s).
Proof. unfold arm_post. re_go. Qed.

Lemma arm_fend_re buf s : arm_fend buf (reenv s sz b) = omap R (arm_fend buf s).
Proof. unfold arm_fend. re_go. Qed.

Lemma arm_item_re buf s : arm_item buf (reenv s sz b) = omap R (arm_item buf s).
Proof. unfold arm_item. re_go. Qed.

Lemma handle_known_re code buf s : handle_known code buf (reenv s sz b) = omap R (handle_known code buf s).
Proof.
  unfold handle_known.
  repeat match goal with |- context [if ?c then _ else _] => destruct c; [try reflexivity|] end;
    auto using arm_gecko_re, arm_end_re, arm_fstart_re, arm_pre_re, arm_post_re, arm_fend_re, arm_item_re.
Qed.

Lemma handle_event_re code buf s :
  handle_event code buf (reenv s sz b) = omap (fun cs : N * pstate => (fst cs, reenv (snd cs) sz b)) (handle_event code buf s).
Proof.
  unfold handle_event. destruct (N.eqb code Event_MessageSplitter).
  - destruct (negb _); [reflexivity|]. rewrite re_split_actual, re_split_raw, !re_set_split.
    destruct (_ <? _)%N; [reflexivity|].
    destruct (negb (N.eqb (b2n (nth 515 buf x00)) 0)).
    + rewrite handle_known_re. destruct (handle_known _ _ _); reflexivity.
    + reflexivity.
  - rewrite handle_known_re. destruct (handle_known code buf s); reflexivity.
Qed.
End Reenv.

Lemma reenv_add s sz b n : add_bytes_read (reenv s sz b) n = reenv (add_bytes_read s n) sz (b + n).
Proof. reflexivity. Qed.
Lemma reenv_reenv s sz b sz' b' : reenv (reenv s sz b) sz' b' = reenv s sz' b'.
Proof. reflexivity. Qed.
Lemma reenv_self s : reenv s (ps_sizes s) (ps_bytes_read s) = s.
Proof. destruct s; reflexivity. Qed.
Lemma add_as_reenv s n : add_bytes_read s n = reenv s (ps_sizes s) (ps_bytes_read s + n).
Proof. reflexivity. Qed.

Lemma run_events_re sz evs : forall b s,
  run_events (reenv s sz b) evs = omap (fun s' => reenv s' sz (b + evs_len evs)) (run_events s evs).
Proof.
  induction evs as [|[c p] evs IH]; intros b s.
  - cbn [run_events omap]. change (evs_len []) with 0%N. rewrite N.add_0_r. reflexivity.
  - cbn [run_events]. rewrite handle_event_re.
    destruct (handle_event c p s) as [[c' s']| | |]; cbn [omap fst snd]; try reflexivity.
    destruct (N.eqb c' Event_GameEnd); [reflexivity|].
    rewrite reenv_add, IH. rewrite evs_len_cons. cbn [snd].
    replace (b + (nn (length p) + 1) + evs_len evs)%N with (b + (nn (length p) + 1 + evs_len evs))%N by lia. reflexivity.
Qed.

(* ---- unknown events interleaved in a run the handler accepts ---- *)
Definition kn (e : N * list byte) : bool := known_code (fst e).

Lemma unknown_not_end c : known_code c = false -> N.eqb c Event_GameEnd = false.
Proof.
  intro H. destruct (N.eqb_spec c Event_GameEnd) as [->|]; [|reflexivity]. vm_compute in H. discriminate.
Qed.

Lemma run_interleaved evs : forall s s1,
  run_events s (filter kn evs) = Ok s1 ->
  run_events s evs = Ok (reenv s1 (ps_sizes s) (ps_bytes_read s + evs_len evs)).
Proof.
  induction evs as [|[c p] evs IH]; intros s s1 Hrun.
  - cbn [filter run_events] in *. apply ok_inj in Hrun. subst s1.
    change (evs_len []) with 0%N. rewrite N.add_0_r, reenv_self. reflexivity.
  - cbn [filter] in Hrun. unfold kn at 1 in Hrun. cbn [fst] in Hrun.
    rewrite evs_len_cons. cbn [snd].
    destruct (known_code c) eqn:Hk.
    + cbn [run_events] in *.
      destruct (handle_event c p s) as [[c' s']| | |] eqn:E; try discriminate.
      destruct (N.eqb c' Event_GameEnd); [discriminate|].
      apply handle_event_env in E as (E1 & E2 & E3 & E4).
      rewrite (IH _ _ Hrun). cbn [add_bytes_read ps_sizes ps_bytes_read]. rewrite E1, E4. f_equal. f_equal. lia.
    + cbn [run_events]. rewrite (c08_unknown_event_noop c p s Hk), (unknown_not_end c Hk).
      rewrite (IH (add_bytes_read s (nn (length p) + 1)) (reenv s1 (ps_sizes s) (ps_bytes_read s + (nn (length p) + 1) + evs_len (filter kn evs)))).
      * rewrite reenv_reenv. cbn [add_bytes_read ps_sizes ps_bytes_read]. f_equal. f_equal. lia.
      * rewrite add_as_reenv, run_events_re, Hrun. reflexivity.
Qed.

(* ---- the longer table ---- *)
Lemma rec_codes_known r c : In c (map fst (rec_table r)) -> known_code c = true.
Proof.
  unfold rec_table. destruct (vgte (r_ver r) 2 2), (vgte (r_ver r) 3 0), (vgte (r_ver r) 3 3), (r_gecko r); cbn [app map fst In];
    intro H; repeat (destruct H as [<-|H]; [reflexivity|]); destruct H.
Qed.

Lemma lookup_in l c v : lookup_size l c = Some v -> In (c, v) l.
Proof.
  induction l as [|[k w] l IH]; cbn [lookup_size]; [discriminate|].
  destruct (N.eqb_spec k c) as [->|_].
  - intro H. injection H as ->. left. reflexivity.
  - intro H. right. apply IH. exact H.
Qed.

Lemma lookup_unknown_rec r c : known_code c = false -> lookup_size (rec_table r) c = None.
Proof.
  intro H. apply lookup_none. intro Hin. apply rec_codes_known in Hin. congruence.
Qed.

Lemma filter_id {A} (f : A -> bool) l : Forall (fun a => f a = true) l -> filter f l = l.
Proof. induction 1 as [|a l Ha Hl IH]; [reflexivity|]. cbn [filter]. rewrite Ha, IH. reflexivity. Qed.

Lemma emit_table_len tb : nn (length (emit_table tb)) = (1 + (nn (length tb) * 3 + 1))%N.
Proof.
  unfold emit_table. rewrite !app_length. unfold ev. cbn [List.length].
  assert (Hfl : forall l : list (N * N), length (flat_map (fun p => n2b (fst p) :: be_enc 2 (snd p)) l) = (3 * length l)%nat).
  { induction l as [|y l IHl]; [reflexivity|]. cbn [flat_map List.length app]. rewrite app_length, length_be_enc, IHl. lia. }
  rewrite Hfl. unfold nn. lia.
Qed.

Section Irr.
Variables (r : replay) (st : start_t) (x : irreg).
Hypothesis Hwf : wf_replay r = true.
Hypothesis Hst : game_start (r_start r) = ROk st.
Hypothesis Hx : wf_irreg r st x.

Let t' := rec_table r ++ ig_extra x.
Let sizes' := rev t'.

Lemma extra_entry_ok : Forall entry_ok (ig_extra x).
Proof.
  destruct Hx as (_ & H & _). eapply Forall_impl; [|exact H]. intros p (_ & H1 & H2). split; assumption.
Qed.

Lemma table_ok' : Forall entry_ok t' /\ NoDup (map fst t').
Proof.
  destruct (rec_table_ok r st Hwf Hst) as (Hok & _ & Hnd). destruct Hx as (Hnd2 & Hex & _).
  split.
  - apply Forall_app. split; [exact Hok|exact extra_entry_ok].
  - unfold t'. rewrite map_app.
    assert (Hdis : forall c, In c (map fst (rec_table r)) -> ~ In c (map fst (ig_extra x))).
    { intros c H1 H2. apply rec_codes_known in H1. apply in_map_iff in H2 as (p & <- & Hp).
      rewrite Forall_forall in Hex. destruct (Hex p Hp) as (Hk & _). congruence. }
    revert Hnd Hdis. generalize (map fst (rec_table r)) as l1. induction l1 as [|a l1 IH]; intros Hnd Hdis; [exact Hnd2|].
    inversion Hnd as [|? ? Hn Hnd']; subst. cbn [app]. constructor.
    + intro Hin. apply in_app_or in Hin as [Hin|Hin]; [exact (Hn Hin)|]. apply (Hdis a); [left; reflexivity|exact Hin].
    + apply IH; [exact Hnd'|]. intros c Hc. apply Hdis. right. exact Hc.
Qed.

Lemma lk' c : lookup_size sizes' c
              = match lookup_size (rec_table r) c with Some v => Some v | None => lookup_size (ig_extra x) c end.
Proof. unfold sizes'. rewrite lookup_rev by apply table_ok'. apply lookup_app. Qed.

Lemma lk'_known c v : lookup_size (rev (rec_table r)) c = Some v -> lookup_size sizes' c = Some v.
Proof. intro H. rewrite (lk_rev r st Hwf Hst) in H. rewrite lk', H. reflexivity. Qed.

Lemma lk'_unknown c : known_code c = false -> lookup_size sizes' c = lookup_size (ig_extra x) c.
Proof. intro H. rewrite lk', (lookup_unknown_rec r c H). reflexivity. Qed.

Definition B0' : N := (1 + (nn (length t') * 3 + 1) + nn (length (r_start r)) + 1)%N.
Definition s0' : pstate := reenv (s0 r st) sizes' B0'.

Lemma parse_start_irr rest : parse_start (emit_table t' ++ ev Event_GameStart ++ r_start r ++ rest) = Ok (s0', rest).
Proof.
  destruct table_ok' as (Hok & Hnd). destruct Hx as (_ & _ & Hlen & _).
  unfold parse_start, pbind.
  rewrite parse_payloads_emit; try assumption.
  2:{ fold sizes'. rewrite (lk'_known _ (nn (length (r_start r)))); [discriminate|]. rewrite (lk_rev r st Hwf Hst). apply lk_start. }
  2:{ fold sizes'. erewrite lk'_known; [discriminate|]. rewrite (lk_rev r st Hwf Hst). apply lk_end. }
  cbv beta iota.
  rewrite (parse_game_start_emit (rev t') _ (r_start r) st rest); [| |exact Hst].
  2:{ fold sizes'. apply lk'_known. rewrite (lk_rev r st Hwf Hst). apply lk_start. }
  unfold ret. rewrite (Hver r st Hst). reflexivity.
Qed.

Lemma B0'_len : B0' = nn (length (emit_table t' ++ ev Event_GameStart ++ r_start r)).
Proof.
  unfold B0'. rewrite <- emit_table_len. rewrite !app_length. unfold ev. cbn [List.length]. unfold nn. lia.
Qed.

(* ---- the events ---- *)
Let evs := ig_events x.
Let rawlen' := nn (length (raw_irr r x)).
Definition Eb : list byte := flat_map enc_ev (ig_events x).

Lemma evs_ok' : Forall (ev_ok sizes') evs.
Proof.
  destruct Hx as (_ & Hex & _ & Hfil & Hunk & _).
  apply Forall_forall. intros e He. destruct (kn e) eqn:Hk.
  - assert (Hin : In e (gevs r ++ fevs r st)).
    { rewrite <- canon_events_eq, <- Hfil. apply filter_In. split; [exact He|exact Hk]. }
    assert (Hok : ev_ok (rev (rec_table r)) e).
    { pose proof (gevs_ok r st Hwf Hst) as Hg. pose proof (fevs_ok r st Hwf Hst) as Hf.
      rewrite Forall_forall in Hg, Hf. apply in_app_or in Hin as [Hin|Hin]; [apply Hg|apply Hf]; exact Hin. }
    destruct Hok as [Hc Hl]. split; [exact Hc|]. apply lk'_known. exact Hl.
  - rewrite Forall_forall in Hunk. specialize (Hunk e He Hk).
    split.
    + apply lookup_in in Hunk. rewrite Forall_forall in Hex. destruct (Hex _ Hunk) as (_ & Hc & _). exact Hc.
    + rewrite lk'_unknown by exact Hk. exact Hunk.
Qed.

Definition s1' : pstate := reenv (s1 r st) sizes' (B0' + evs_len (ig_events x)).

Lemma run_irr : run_events s0' evs = Ok s1'.
Proof.
  destruct Hx as (_ & _ & _ & Hfil & _).
  rewrite (run_interleaved evs s0' (reenv (s1 r st) sizes' (B0' + evs_len (gevs r ++ fevs r st)))).
  - reflexivity.
  - fold kn in Hfil. unfold evs. rewrite Hfil, canon_events_eq. unfold s0'. rewrite run_events_re.
    destruct (run_all r st Hwf Hst) as [Hrun _]. rewrite Hrun. reflexivity.
Qed.

Lemma rawlen'_eq : rawlen' = (B0' + evs_len evs + nn (length (emit_end r)) + nn (length (ig_junk x)))%N.
Proof.
  unfold rawlen', raw_irr. fold t'. rewrite B0'_len, evs_len_bytes. rewrite !app_length. unfold evs, nn. lia.
Qed.

Lemma loop_body' rest :
  event_loop (S (length (Eb ++ rest))) rawlen' s0' (Eb ++ rest)
  = event_loop (S (length (Eb ++ rest) - length evs)) rawlen' s1' rest.
Proof.
  assert (Hc : (length evs <= length (Eb ++ rest))%nat).
  { rewrite app_length. pose proof (evs_count_le evs). unfold Eb, evs in *. lia. }
  set (n := length (Eb ++ rest)) in *.
  replace (S n) with (length evs + S (n - length evs))%nat at 1 by lia.
  unfold Eb. apply loop_events.
  - exact run_irr.
  - exact evs_ok'.
  - change (ps_bytes_read s0') with B0'. rewrite rawlen'_eq. fold evs. lia.
Qed.

(* ---- the end of the stream ---- *)
Lemma read_dup_junk raw_len s junk rest :
  junk <> [] -> (ps_bytes_read s + nn (length junk) = raw_len)%N ->
  ~ (nn (length junk) = (1 + game_End_size (ver s))%N /\ b2n (hd x00 junk) = Event_GameEnd) ->
  read_dup raw_len s (junk ++ rest) = Ok (s, rest).
Proof.
  intros Hne Hb Hno. unfold read_dup.
  assert (Hpos : (0 < length junk)%nat) by (destruct junk; [congruence|cbn [List.length]; lia]).
  replace (ps_bytes_read s <? raw_len)%N with true by (symmetry; apply N.ltb_lt; unfold nn in *; lia).
  replace (raw_len - ps_bytes_read s)%N with (nn (length junk)) by lia.
  unfold rd_exact_N.
  replace (N.of_nat (length (junk ++ rest)) <? nn (length junk))%N with false
    by (symmetry; apply N.ltb_ge; rewrite app_length; unfold nn; lia).
  rewrite rd_exact_app by (unfold nn; rewrite Nat2N.id; reflexivity).
  cbn [bind].
  destruct (N.eqb_spec (nn (length junk)) (1 + game_End_size (ver s))) as [H1|H1]; [|reflexivity].
  destruct (N.eqb_spec (b2n (hd x00 junk)) Event_GameEnd) as [H2|H2]; [|reflexivity].
  exfalso. apply Hno. split; assumption.
Qed.

Lemma game_eq_irr s' (h : bool) hh :
  ps_start s' = st -> ps_end s' = end_of r -> ps_frames s' = frames_of (r_ver r) (port_occupancy st) (r_frames r) ->
  ps_meta s' = None -> ps_gecko s' = r_gecko r ->
  ps_quirk s' = (match r_end r return option bool with TwoEnds _ => Some true | _ => None end) ->
  game_of_state (match r_meta r with Some m => set_meta s' m | None => s' end) hh
  = with_hashed (game_of {| o_skip := false; o_hash := h |} r st (end_of r)) hh.
Proof.
  intros H1 H2 H3 H4 H5 H6. unfold game_of_state, game_of, with_hashed.
  cbn [o_skip o_hash g_start g_end g_frames g_meta g_gecko g_hashed g_quirk].
  destruct (r_meta r); cbn [set_meta ps_start ps_end ps_frames ps_meta ps_gecko ps_quirk]; rewrite ?H1, ?H2, ?H3, ?H4, ?H5, ?H6; reflexivity.
Qed.

Lemma end_lookup' b : end_blk r = Some b -> lookup_size (ps_sizes s1') Event_GameEnd = Some (nn (length b)).
Proof.
  intro Hb. change (ps_sizes s1') with sizes'. apply lk'_known. rewrite (lk_rev r st Hwf Hst), lk_end, Hb. reflexivity.
Qed.

Let L := layout_of (r_ver r).

Lemma emit_irr_split :
  emit_irr r x = sig_slp ++ be_enc 4 rawlen' ++ emit_table t' ++ ev Event_GameStart ++ r_start r ++ Eb
                 ++ emit_end r ++ ig_junk x ++ emit_meta (r_meta r) ++ [x7d].
Proof. unfold emit_irr. fold rawlen'. unfold raw_irr. fold t'. fold Eb. rewrite <- !app_assoc. reflexivity. Qed.

Lemma read_irr_gen h bs0 :
  ('(raw_len, bs) <- parse_header (emit_irr r x) ;;
   '(s, bs) <- parse_start bs ;;
   '(s, bs) <- read_skip {| o_skip := false; o_hash := h |} raw_len s bs ;;
   '(s, bs) <- event_loop (S (length bs)) raw_len s bs ;;
   let s := if vlt (ver s) 3 0 then frame_close s else s in
   '(s, bs) <- read_dup raw_len s bs ;;
   read_tail {| o_skip := false; o_hash := h |} bs0 s bs)
  = Ok (with_hashed (game_of {| o_skip := false; o_hash := h |} r st (end_of r)) (if h then Some (length bs0) else None), []).
Proof.
  destruct (wf_replay_inv r st Hwf Hst) as (_ & _ & _ & _ & _ & Hend & Hmeta & _).
  destruct Hx as (_ & _ & _ & _ & _ & Hjunk & Hbound).
  pose proof (s1_misc r st) as (Hgk & Hen & Hq & Hm).
  pose proof (s1_env r st Hwf Hst) as (_ & Hlay & Hstart & _).
  pose proof rawlen'_eq as Hraw. pose proof (s1_ver r st Hst) as Hv1.
  assert (HB : (0 < B0')%N) by (unfold B0'; lia).
  rewrite emit_irr_split.
  rewrite parse_header_emit by exact Hbound. cbn [bind].
  rewrite parse_start_irr. cbn [bind].
  unfold read_skip. cbn [o_skip bind].
  rewrite loop_body'.
  set (fuel := (length (Eb ++ emit_end r ++ ig_junk x ++ emit_meta (r_meta r) ++ [x7d]) - length evs)%nat).
  destruct (close_if_proj s1') as (C1 & C2 & C3 & C4 & C5 & C6 & C7 & C8 & C9 & C10).
  change (ver s1') with (ver (s1 r st)) in C9, C10. change (ps_layout s1') with (ps_layout (s1 r st)) in C3, C10.
  rewrite Hv1, Hlay in C10. change (ps_frames s1') with (FR r st) in C10. rewrite (cl_FR r st Hwf Hst) in C10.
  change (ps_bytes_read s1') with (B0' + evs_len evs)%N in C2.
  change (ps_start s1') with (ps_start (s1 r st)) in C4. change (ps_end s1') with (ps_end (s1 r st)) in C5.
  change (ps_meta s1') with (ps_meta (s1 r st)) in C6. change (ps_gecko s1') with (ps_gecko (s1 r st)) in C7.
  change (ps_quirk s1') with (ps_quirk (s1 r st)) in C8.
  rewrite Hstart in C4. rewrite Hen in C5. rewrite Hm in C6. rewrite Hgk in C7. rewrite Hq in C8. rewrite Hv1 in C9. rewrite Hlay in C3.
  destruct (r_end r) as [|b|b] eqn:Hre; unfold emit_end in *; rewrite Hre in *.
  - (* no Game End: no junk either *)
    assert (Hj : ig_junk x = []).
    { destruct (ig_junk x) as [|j0 jr]; [reflexivity|]. destruct Hjunk as [[b0 Hb0] _]; discriminate. }
    rewrite Hj in *. rewrite !app_nil_l. cbn [List.length] in Hraw.
    rewrite loop_exit; [| unfold nn in *; lia | change (ps_bytes_read s1') with (B0' + evs_len evs)%N; unfold nn in *; lia]. cbn [bind].
    fold (close_if s1').
    rewrite read_dup_none by (rewrite C2; unfold nn in *; lia).
    cbn [bind]. rewrite (read_tail_emit _ _ _ _ Hmeta). cbn [o_hash]. f_equal. f_equal.
    apply game_eq_irr; try assumption.
    + unfold end_of, end_blk. rewrite Hre. exact C5.
    + rewrite Hre. exact C8.
  - (* one Game End, possibly junk after it *)
    assert (Hb : end_blk r = Some b) by (unfold end_blk; rewrite Hre; reflexivity).
    destruct (Hend b Hb) as [Hbl [e He]].
    rewrite app_length in Hraw. unfold ev in Hraw. cbn [List.length] in Hraw.
    rewrite <- app_assoc.
    rewrite (end_step fuel rawlen' s1' b e _ (end_lookup' b Hb) He)
      by (change (ps_bytes_read s1') with (B0' + evs_len evs)%N; unfold nn in *; lia).
    cbn [bind]. fold (close_if s1').
    set (sE := add_bytes_read (set_end (close_if s1') e) (nn (length b) + 1)).
    fold (close_if sE).
    destruct (close_if_proj sE) as (D1 & D2 & D3 & D4 & D5 & D6 & D7 & D8 & D9 & D10).
    change (ver sE) with (ver (close_if s1')) in D10, D9. change (ps_layout sE) with (ps_layout (close_if s1')) in D10.
    change (ps_frames sE) with (ps_frames (close_if s1')) in D10. rewrite C9, C3, C10 in D10. rewrite (cl_cl r st Hwf Hst) in D10.
    rewrite C9 in D9.
    change (ps_bytes_read sE) with (ps_bytes_read (close_if s1') + (nn (length b) + 1))%N in D2. rewrite C2 in D2.
    change (ps_start sE) with (ps_start (close_if s1')) in D4. rewrite C4 in D4.
    change (ps_end sE) with (Some e) in D5.
    change (ps_meta sE) with (ps_meta (close_if s1')) in D6. rewrite C6 in D6.
    change (ps_gecko sE) with (ps_gecko (close_if s1')) in D7. rewrite C7 in D7.
    change (ps_quirk sE) with (ps_quirk (close_if s1')) in D8. rewrite C8 in D8.
    assert (Hres : read_dup rawlen' (close_if sE) (ig_junk x ++ emit_meta (r_meta r) ++ [x7d])
                   = Ok (close_if sE, emit_meta (r_meta r) ++ [x7d])).
    { destruct (ig_junk x) as [|j0 jr] eqn:Hj.
      - cbn [app]. apply read_dup_none. rewrite D2. cbn [List.length] in Hraw. unfold nn in *. lia.
      - apply read_dup_junk; [discriminate| rewrite D2; unfold nn in *; lia |].
        rewrite D9. destruct Hjunk as [_ Hno]; [discriminate|]. exact Hno. }
    rewrite Hres.
    cbn [bind]. rewrite (read_tail_emit _ _ _ _ Hmeta). cbn [o_hash]. f_equal. f_equal.
    apply game_eq_irr; try assumption.
    + rewrite D5. unfold end_of. rewrite Hb, He. reflexivity.
    + rewrite Hre. exact D8.
  - (* doubled Game End: no junk *)
    assert (Hj : ig_junk x = []).
    { destruct (ig_junk x) as [|j0 jr]; [reflexivity|]. destruct Hjunk as [[b0 Hb0] _]; discriminate. }
    rewrite Hj in *. cbn [List.length] in Hraw.
    assert (Hb : end_blk r = Some b) by (unfold end_blk; rewrite Hre; reflexivity).
    destruct (Hend b Hb) as [Hbl [e He]].
    rewrite !app_length in Hraw. unfold ev in Hraw. cbn [List.length] in Hraw.
    rewrite <- !app_assoc.
    rewrite (end_step fuel rawlen' s1' b e _ (end_lookup' b Hb) He)
      by (change (ps_bytes_read s1') with (B0' + evs_len evs)%N; unfold nn in *; lia).
    cbn [bind]. fold (close_if s1').
    set (sE := add_bytes_read (set_end (close_if s1') e) (nn (length b) + 1)).
    fold (close_if sE).
    destruct (close_if_proj sE) as (D1 & D2 & D3 & D4 & D5 & D6 & D7 & D8 & D9 & D10).
    change (ver sE) with (ver (close_if s1')) in D10, D9. change (ps_layout sE) with (ps_layout (close_if s1')) in D10.
    change (ps_frames sE) with (ps_frames (close_if s1')) in D10. rewrite C9, C3, C10 in D10. rewrite (cl_cl r st Hwf Hst) in D10.
    rewrite C9 in D9.
    change (ps_bytes_read sE) with (ps_bytes_read (close_if s1') + (nn (length b) + 1))%N in D2. rewrite C2 in D2.
    change (ps_start sE) with (ps_start (close_if s1')) in D4. rewrite C4 in D4.
    change (ps_end sE) with (Some e) in D5.
    change (ps_meta sE) with (ps_meta (close_if s1')) in D6. rewrite C6 in D6.
    change (ps_gecko sE) with (ps_gecko (close_if s1')) in D7. rewrite C7 in D7.
    cbn [app].
    rewrite read_dup_second; [| rewrite D2; unfold nn in *; lia | rewrite D9; unfold nn; rewrite Hbl; lia].
    cbn [bind]. rewrite (read_tail_emit _ _ _ _ Hmeta). cbn [o_hash]. f_equal. f_equal.
    apply game_eq_irr.
    + change (ps_start (set_quirk (close_if sE))) with (ps_start (close_if sE)). exact D4.
    + change (ps_end (set_quirk (close_if sE))) with (ps_end (close_if sE)). rewrite D5. unfold end_of. rewrite Hb, He. reflexivity.
    + change (ps_frames (set_quirk (close_if sE))) with (ps_frames (close_if sE)). exact D10.
    + change (ps_meta (set_quirk (close_if sE))) with (ps_meta (close_if sE)). exact D6.
    + change (ps_gecko (set_quirk (close_if sE))) with (ps_gecko (close_if sE)). exact D7.
    + rewrite Hre. reflexivity.
Qed.

Theorem read_irregular_sec h :
  slp_read {| o_skip := false; o_hash := h |} (emit_irr r x)
  = Ok (with_hashed (game_of {| o_skip := false; o_hash := h |} r st (end_of r))
                    (if h then Some (length (emit_irr r x)) else None), []).
Proof. rewrite slp_read_eq. apply read_irr_gen. Qed.
End Irr.

(* ---- the main theorem ---- *)
Theorem read_irregular r st x h :
  wf_replay r = true -> game_start (r_start r) = ROk st -> wf_irreg r st x ->
  slp_read {| o_skip := false; o_hash := h |} (emit_irr r x)
  = Ok (with_hashed (game_of {| o_skip := false; o_hash := h |} r st (end_of r))
                    (if h then Some (length (emit_irr r x)) else None), []).
Proof. intros Hwf Hst Hx. exact (read_irregular_sec r st x Hwf Hst Hx h). Qed.

(* ---- non-vacuity: the canonical rendering is an irregular rendering, so read_irregular subsumes read_full ---- *)
Definition irreg0 (r : replay) (st : start_t) : irreg :=
  {| ig_extra := []; ig_events := canon_events r st; ig_junk := [] |}.

Lemma gecko_events_known c : forall k pos, Forall (fun e => kn e = true) (gecko_events k pos c).
Proof. induction k as [|k IH]; intro pos; [constructor|]. cbn [gecko_events]. constructor; [reflexivity|apply IH]. Qed.

Lemma char_events_known pre id sl os : Forall (fun e => kn e = true) (char_events pre id sl os).
Proof.
  unfold char_events. induction (combine sl os) as [|y l IH]; [constructor|].
  cbn [flat_map]. apply Forall_app. split; [|exact IH].
  destruct (snd y) as [[p q]|]; [|constructor]. constructor; [|constructor]. destruct pre; reflexivity.
Qed.

Lemma frame_events_known v sl f : Forall (fun e => kn e = true) (frame_events v sl f).
Proof.
  unfold frame_events. repeat (apply Forall_app; split); try apply char_events_known.
  - destruct (vgte v 2 2); [|constructor]. constructor; [reflexivity|constructor].
  - destruct (vgte v 3 0); [|constructor]. apply Forall_forall. intros e He. apply in_map_iff in He as (it & <- & _). reflexivity.
  - destruct (vgte v 3 0); [|constructor]. constructor; [reflexivity|constructor].
Qed.

Lemma canon_known r st : Forall (fun e => kn e = true) (canon_events r st).
Proof.
  unfold canon_events. apply Forall_app. split.
  - destruct (r_gecko r); [apply gecko_events_known|constructor].
  - induction (r_frames r) as [|f l IH]; [constructor|]. cbn [flat_map]. apply Forall_app. split; [apply frame_events_known|exact IH].
Qed.

Lemma raw_irr0 r st : game_start (r_start r) = ROk st -> raw_irr r (irreg0 r st) = raw_of r.
Proof.
  intro Hst. unfold raw_irr, irreg0. cbn [ig_extra ig_events ig_junk]. rewrite !app_nil_r.
  rewrite canon_events_eq, flat_map_app, (gevs_bytes r), (fevs_bytes r st), (raw_split r st Hst), <- !app_assoc. reflexivity.
Qed.

Lemma emit_irr0 r st : game_start (r_start r) = ROk st -> emit_irr r (irreg0 r st) = emit r.
Proof. intro Hst. unfold emit_irr, emit. rewrite (raw_irr0 r st Hst). reflexivity. Qed.

Lemma wf_irreg0 r st : wf_replay r = true -> game_start (r_start r) = ROk st -> wf_irreg r st (irreg0 r st).
Proof.
  intros Hwf Hst. destruct (rec_table_ok r st Hwf Hst) as (_ & Hlen & _).
  destruct (wf_replay_inv r st Hwf Hst) as (_ & _ & _ & _ & _ & _ & _ & Hbound).
  unfold wf_irreg. rewrite (raw_irr0 r st Hst). cbn [irreg0 ig_extra ig_events ig_junk map].
  repeat split.
  - constructor.
  - constructor.
  - rewrite app_nil_r. exact Hlen.
  - apply filter_id. exact (canon_known r st).
  - eapply Forall_impl; [|exact (canon_known r st)]. intros e Hk Hn. unfold kn in Hk. congruence.
  - exfalso. apply H. reflexivity.
  - exfalso. apply H. reflexivity.
  - exact Hbound.
Qed.

(* read_full as an instance of read_irregular *)
Corollary read_full_again r st h :
  wf_replay r = true -> game_start (r_start r) = ROk st ->
  slp_read {| o_skip := false; o_hash := h |} (emit r)
  = Ok (game_of {| o_skip := false; o_hash := h |} r st (end_of r), []).
Proof.
  intros Hwf Hst. pose proof (read_irregular r st (irreg0 r st) h Hwf Hst (wf_irreg0 r st Hwf Hst)) as H.
  rewrite (emit_irr0 r st Hst) in H. rewrite H. reflexivity.
Qed.

Print Assumptions read_irregular.
Print Assumptions wf_irreg0.
Print Assumptions emit_irr0.
Print Assumptions read_full_again.

(* ---- C17: the game accepted from an irregular stream is written as the canonical stream, which is self-consistent
        and a fixed point ---- *)
From Peppi Require Import Proofs.WriteProof.

Lemma slp_write_hashed g h : slp_write (with_hashed g h) = slp_write g.
Proof. reflexivity. Qed.

Theorem c17_irregular r st x h :
  wf_replay r = true -> game_start (r_start r) = ROk st -> wf_irreg r st x ->
  exists g,
    slp_read {| o_skip := false; o_hash := h |} (emit_irr r x) = Ok (g, []) /\
    slp_write g = Ok (emit r) /\
    parse_header (emit r) = Ok (nn (length (raw_of r)), raw_of r ++ emit_meta (r_meta r) ++ [x7d]) /\
    exists g', slp_read {| o_skip := false; o_hash := h |} (emit r) = Ok (g', []) /\
               g_start g' = g_start g /\ g_end g' = g_end g /\ g_meta g' = g_meta g /\ g_gecko g' = g_gecko g /\
               g_frames g' = g_frames g /\ g_quirk g' = g_quirk g /\
               slp_write g' = Ok (emit r).
Proof.
  intros Hwf Hst Hx.
  set (g0 := game_of {| o_skip := false; o_hash := h |} r st (end_of r)).
  exists (with_hashed g0 (if h then Some (length (emit_irr r x)) else None)).
  split; [apply read_irregular; assumption|].
  split; [rewrite slp_write_hashed; apply c01_write; assumption|].
  destruct (wf_replay_inv r st Hwf Hst) as (_ & _ & _ & _ & _ & _ & _ & Hb).
  split; [unfold emit; apply parse_header_emit; exact Hb|].
  exists g0. split; [apply read_full; assumption|].
  repeat split; try reflexivity. apply c01_write; assumption.
Qed.
Print Assumptions c17_irregular.
