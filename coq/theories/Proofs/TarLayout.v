(* tar entries of a .slpp archive: the byte-level model of Model/Slpp.v (tar_header, tar_entry, tar_bytes: the blocks
   tar::Builder emits for the headers fn tar_append builds) restated THROUGH the step list that tools/rust2coq.py regenerates
   from src/io/peppi/ser.rs (Gen/TarSrc.v): the header constructor, set_size(buf.len()), set_path, set_mode(<literal>),
   set_cksum, builder.append(&header, buf) IN THEIR ORDER, and the closing `tar.into_inner()?.flush()?` of fn write.

   The interpreter keeps a header as its fields, performs the setters in table order (so a checksum taken before a later
   setter does not cover that setter's bytes), and emits header + data + padding at the append step.  What the tar crate does
   inside each call (octal formatting, the "ustar  \0" magic of a GNU header, mtime 0, zero uid / gid, two zero blocks on
   into_inner) is the hand model's and is tied to the real archive bytes by the differential run of C18. *)
From Coq Require Import List Arith NArith ZArith Lia Bool String.
From Coq.Strings Require Import Byte.
From Peppi Require Import Base.Bytes Base.Outcome Gen.Funs Gen.TarSrc Model.Json Model.Slpp.
Import ListNotations.
Notation length := (@List.length _) (only parsing).
Local Open Scope string_scope.
Local Open Scope list_scope.

(* a 512-byte header by its fields; uid, gid, type flag, link name and everything after the magic stay zero *)
Record hdr := { h_name : list byte; h_mode : list byte; h_size : list byte; h_mtime : list byte; h_ck : list byte; h_magic : list byte }.

Definition hdr_bytes (h : hdr) : list byte :=
  pad_to 100 (h_name h) ++ h_mode h ++ zeros 8 ++ zeros 8 ++ h_size h ++ h_mtime h ++ h_ck h ++ [x00] ++ zeros 100
  ++ h_magic h ++ zeros (512 - 265).

(* tar::Header::new_gnu() / new_ustar() / new_old(): zeroed, the magic of the kind, mtime set to 0 *)
Definition hdr_new (k : tar_hkind) : hdr :=
  {| h_name := []; h_mode := zeros 8; h_size := zeros 12; h_mtime := oct_digits 11 0 ++ [x00]; h_ck := zeros 8;
     h_magic := match k with
                | ThGnu => sb "ustar  " ++ [x00]
                | ThUstar => sb "ustar" ++ [x00] ++ sb "00"
                | ThOld => zeros 8
                end |}.
Definition hdr_zero : hdr := {| h_name := []; h_mode := zeros 8; h_size := zeros 12; h_mtime := zeros 12; h_ck := zeros 8; h_magic := zeros 8 |}.

Definition with_ck (h : hdr) (ck : list byte) : hdr :=
  {| h_name := h_name h; h_mode := h_mode h; h_size := h_size h; h_mtime := h_mtime h; h_ck := ck; h_magic := h_magic h |}.

Fixpoint tar_run (steps : list tar_step) (name buf : list byte) (h : hdr) : list byte :=
  match steps with
  | [] => []
  | TsNew k :: r => tar_run r name buf (hdr_new k)
  | TsSetSizeBufLen :: r =>
      tar_run r name buf {| h_name := h_name h; h_mode := h_mode h; h_size := oct_digits 11 (N.of_nat (length buf)) ++ [x00];
                            h_mtime := h_mtime h; h_ck := h_ck h; h_magic := h_magic h |}
  | TsSetPath :: r =>
      tar_run r name buf {| h_name := name; h_mode := h_mode h; h_size := h_size h; h_mtime := h_mtime h; h_ck := h_ck h;
                            h_magic := h_magic h |}
  | TsSetMode m :: r =>
      tar_run r name buf {| h_name := h_name h; h_mode := oct_digits 7 m ++ [x00]; h_size := h_size h; h_mtime := h_mtime h;
                            h_ck := h_ck h; h_magic := h_magic h |}
  | TsSetCksum :: r =>
      (* the sum of all header bytes with the checksum field taken as eight spaces *)
      tar_run r name buf (with_ck h (oct_digits 7 (sum_bytes (hdr_bytes (with_ck h (repeat x20 8)))) ++ [x00]))
  | TsAppendBuf :: r =>
      (hdr_bytes h ++ buf ++ zeros ((512 - length buf mod 512) mod 512)) ++ tar_run r name buf h
  end.

Definition tar_entry_tbl (e : entry) : list byte := tar_run tar_append_steps (fst e) (snd e) hdr_zero.

Lemma mode_text : oct_digits 7 420 = sb "0000644".
Proof. vm_compute. reflexivity. Qed.

Lemma header_as_fields name size ck :
  tar_header_nock name size ck =
  hdr_bytes {| h_name := name; h_mode := oct_digits 7 420 ++ [x00]; h_size := oct_digits 11 (N.of_nat size) ++ [x00];
               h_mtime := oct_digits 11 0 ++ [x00]; h_ck := ck; h_magic := sb "ustar  " ++ [x00] |}.
Proof.
  unfold tar_header_nock, hdr_bytes. cbn [h_name h_mode h_size h_mtime h_ck h_magic]. rewrite mode_text.
  repeat rewrite <- app_assoc. reflexivity.
Qed.

Theorem tar_entry_from_source e : tar_entry e = tar_entry_tbl e.
Proof.
  unfold tar_entry, tar_entry_tbl, tar_header, tar_append_steps. cbv zeta.
  cbn [tar_run hdr_new with_ck h_name h_mode h_size h_mtime h_ck h_magic].
  rewrite !header_as_fields. rewrite app_nil_r. reflexivity.
Qed.

(* the closing statement: into_inner (or finish) writes the two terminating zero blocks once; flush writes nothing *)
Fixpoint fin_run (steps : list tar_fin) (finished : bool) : list byte :=
  match steps with
  | [] => []
  | TfIntoInner :: r | TfFinish :: r => (if finished then [] else zeros 1024) ++ fin_run r true
  | TfFlush :: r => fin_run r finished
  end.

Theorem tar_bytes_from_source es : tar_bytes es = flat_map tar_entry_tbl es ++ fin_run tar_finish_steps false.
Proof.
  unfold tar_bytes, tar_finish_steps. cbn [fin_run]. rewrite app_nil_r.
  f_equal. apply flat_map_ext. intro e. apply tar_entry_from_source.
Qed.

(* the constants the Python predictor tools/pv/tarutil.py (used by tools/pv/props/C18.py) writes into its headers:
   mode "0000644\0" = 0o644, magic "ustar  \0" = a GNU header, checksum last, data after the header, 1024 zero bytes at the end *)
Theorem tar_constants_from_source :
  tar_append_steps = [TsNew ThGnu; TsSetSizeBufLen; TsSetPath; TsSetMode 420; TsSetCksum; TsAppendBuf] /\
  tar_finish_steps = [TfIntoInner; TfFlush] /\
  (420 = 6 * 64 + 4 * 8 + 4)%N /\ oct_digits 7 420 ++ [x00] = sb "0000644" ++ [x00] /\
  h_magic (hdr_new ThGnu) = sb "ustar  " ++ [x00].
Proof. repeat split; vm_compute; reflexivity. Qed.

Print Assumptions tar_entry_from_source.
Print Assumptions tar_bytes_from_source.
Print Assumptions tar_constants_from_source.
