From Coq Require Import List Arith NArith ZArith Lia Bool String.
From Coq.Strings Require Import Byte.
From Peppi Require Import Base.Bytes Base.Outcome Gen.Funs Model.Ubjson Model.Start Model.Json Model.Parse Model.Reader Model.Slpp.
Import ListNotations.
Notation length := (@List.length _) (only parsing).

(* the reader recognises each name the writer uses (closed computations) *)
Lemma kind_of_name k : kind_of (name_of k) = match k with KStartJson | KEndJson | KOther => KOther | x => x end.
Proof. destruct k; vm_compute; reflexivity. Qed.

Lemma le32_roundtrip n : (n < 4294967296)%N -> le32_dec (le32 n) = n /\ length (le32 n) = 4%nat.
Proof.
  intro H. unfold le32_dec, le32. rewrite rev_involutive. rewrite N.mod_small by exact H.
  split; [apply be_dec_enc; exact H | rewrite rev_length; apply length_be_enc].
Qed.

Opaque name_of kind_of.

Section RoundTrip.
  Variable enc_peppi : version -> option (list byte) -> option bool -> list byte.
  Variable dec_peppi : list byte -> option (version * option (list byte) * option bool).
  Variable enc_meta : option utree -> list byte.
  Variable dec_meta : list byte -> option (option utree).
  Variable enc_start : start_t -> list byte.
  Variable enc_end : end_t -> list byte.
  Variable enc_frames : compression -> version -> list (N * bool) -> frames -> outcome (list byte).
  Variable dec_frames : version -> list byte -> outcome frames.

  (* what is assumed of serde_json and of the Arrow IPC file writer / stream reader (under each compression) *)
  Hypothesis peppi_rt : forall v h q, dec_peppi (enc_peppi v h q) = Some (v, h, q).
  Hypothesis meta_rt : forall m, dec_meta (enc_meta m) = Some m.
  Hypothesis frames_rt : forall c v ports fr b, enc_frames c v ports fr = Ok b -> dec_frames v b = Ok fr.

  Notation W := (slpp_write enc_peppi enc_meta enc_start enc_end enc_frames).
  Notation Rd := (slpp_read dec_peppi dec_meta dec_frames).
  Notation RE := (read_entries dec_peppi dec_meta dec_frames).

  (* a game as the .slp reader produces it: start/end records are the parse of their retained raw blocks *)
  Definition coherent (g : game) : Prop :=
    game_start (st_bytes (g_start g)) = ROk (g_start g) /\
    (forall e, g_end g = Some e -> game_end (en_bytes e) = ROk e) /\
    (forall k, g_gecko g = Some k -> (gk_actual k < 4294967296)%N).

  Definition strip_hash (g : game) : game :=
    {| g_start := g_start g; g_end := g_end g; g_frames := g_frames g; g_meta := g_meta g;
       g_gecko := g_gecko g; g_hashed := None; g_quirk := g_quirk g |}.

  Lemma current_ok : assert_current_version_ok PEPPI_CURRENT_VERSION = true.
  Proof. vm_compute. reflexivity. Qed.

  Lemma re_cons skip p c r a :
    RE skip ((p, c) :: r) a =
      match kind_of p with
      | KPeppi =>
        match dec_peppi c with
        | None => Err EJson
        | Some (pv, h, q) =>
            if assert_current_version_ok pv
            then RE skip r (upd a (ra_start a) (ra_end a) (ra_meta a) (ra_gecko a) (ra_frames a) (Some (pv, h, q)))
            else Err EInvalid
        end
      | KStartRaw =>
        s <- res_out (game_start c) ;;
        RE skip r (upd a (Some s) (ra_end a) (ra_meta a) (ra_gecko a) (ra_frames a) (ra_peppi a))
      | KEndRaw =>
        e <- res_out (game_end c) ;;
        RE skip r (upd a (ra_start a) (Some e) (ra_meta a) (ra_gecko a) (ra_frames a) (ra_peppi a))
      | KMeta =>
        match dec_meta c with
        | None => Err EJson
        | Some m => RE skip r (upd a (ra_start a) (ra_end a) m (ra_gecko a) (ra_frames a) (ra_peppi a))
        end
      | KGecko =>
        if (length c <? 4)%nat then Err EIo
        else RE skip r (upd a (ra_start a) (ra_end a) (ra_meta a)
                            (Some {| gk_bytes := skipn 4 c; gk_actual := le32_dec (firstn 4 c) |})
                            (ra_frames a) (ra_peppi a))
      | KFrames =>
        match ra_start a with
        | None => Err EInvalid
        | Some s =>
            fr <- (if skip then Ok (frames_new (st_version s) (port_occupancy s)) else dec_frames (st_version s) c) ;;
            Ok (upd a (ra_start a) (ra_end a) (ra_meta a) (ra_gecko a) (Some fr) (ra_peppi a))
        end
      | _ => RE skip r a
      end.
  Proof. reflexivity. Qed.

  Ltac step k := rewrite re_cons; rewrite (kind_of_name k); cbv beta iota;
                 cbn [upd ra_start ra_end ra_meta ra_gecko ra_frames ra_peppi racc0].

  Lemma gecko_entry k : (gk_actual k < 4294967296)%N ->
    (length (le32 (gk_actual k) ++ gk_bytes k) <? 4)%nat = false /\
    skipn 4 (le32 (gk_actual k) ++ gk_bytes k) = gk_bytes k /\
    le32_dec (firstn 4 (le32 (gk_actual k) ++ gk_bytes k)) = gk_actual k.
  Proof.
    intro H. destruct (le32_roundtrip (gk_actual k) H) as [Hd Hl].
    rewrite app_length, Hl. split; [apply Nat.ltb_ge; lia|].
    split.
    - rewrite skipn_app, Hl, Nat.sub_diag. rewrite skipn_all2 by lia. reflexivity.
    - rewrite firstn_app, Hl, Nat.sub_diag. rewrite firstn_all2 by lia. rewrite firstn_O, app_nil_r. exact Hd.
  Qed.

  (* the accumulator after reading everything the writer emits before frames.arrow *)
  Lemma read_prefix skip g fr rest a0 :
    coherent (sg_game g) ->
    RE skip ([(name_of KPeppi, enc_peppi PEPPI_CURRENT_VERSION (sg_hash g) (g_quirk (sg_game g)));
              (name_of KMeta, enc_meta (g_meta (sg_game g)));
              (name_of KStartJson, enc_start (g_start (sg_game g)));
              (name_of KStartRaw, st_bytes (g_start (sg_game g)))]
             ++ (match g_end (sg_game g) with Some e => [(name_of KEndJson, enc_end e); (name_of KEndRaw, en_bytes e)] | None => [] end)
             ++ (match g_gecko (sg_game g) with Some k => [(name_of KGecko, le32 (gk_actual k) ++ gk_bytes k)] | None => [] end)
             ++ (name_of KFrames, fr) :: rest)%list a0
    = RE skip ((name_of KFrames, fr) :: rest)
         (upd a0 (Some (g_start (sg_game g))) (match g_end (sg_game g) with Some e => Some e | None => ra_end a0 end)
              (g_meta (sg_game g)) (match g_gecko (sg_game g) with Some k => Some k | None => ra_gecko a0 end)
              (ra_frames a0) (Some (PEPPI_CURRENT_VERSION, sg_hash g, g_quirk (sg_game g)))).
  Proof.
    intros (Hs & He & Hk). cbn [app].
    step KPeppi. rewrite peppi_rt, current_ok.
    step KMeta. rewrite meta_rt.
    step KStartJson. step KStartRaw. rewrite Hs. cbn [res_out bind].
    destruct (g_end (sg_game g)) as [e|]; cbn [app].
    - step KEndJson. step KEndRaw. rewrite (He e eq_refl). cbn [res_out bind].
      destruct (g_gecko (sg_game g)) as [k|]; cbn [app].
      + step KGecko. destruct (gecko_entry k (Hk k eq_refl)) as (H1 & H2 & H3). rewrite H1, H2, H3.
        destruct k; reflexivity.
      + reflexivity.
    - destruct (g_gecko (sg_game g)) as [k|]; cbn [app].
      + step KGecko. destruct (gecko_entry k (Hk k eq_refl)) as (H1 & H2 & H3). rewrite H1, H2, H3.
        destruct k; reflexivity.
      + reflexivity.
  Qed.

  (* C02 at the entry level: every game the writer accepts reads back as the same game, with its hash and quirks *)
  Theorem slpp_roundtrip c g es :
    coherent (sg_game g) -> W c g = Ok es ->
    Rd false es = Ok {| sg_game := strip_hash (sg_game g); sg_hash := sg_hash g |}.
  Proof.
    intros Hc Hw. unfold slpp_write in Hw.
    destruct (assert_max_version_ok (st_version (g_start (sg_game g)))); cbn [negb] in Hw; [|discriminate].
    destruct (enc_frames c _ _ _) as [fr| | |] eqn:Ef; cbn [bind] in Hw; try discriminate.
    apply ok_inj in Hw. subst es.
    apply frames_rt in Ef.
    unfold slpp_read. rewrite (read_prefix false g fr [] racc0 Hc).
    step KFrames. rewrite Ef. cbn [bind upd ra_start ra_end ra_meta ra_gecko ra_frames ra_peppi racc0].
    unfold strip_hash. destruct (sg_game g) as [st en frs mt gk hs qk]. cbn.
    destruct en, gk; reflexivity.
  Qed.

  (* C18: entry order and presence conditions *)
  Theorem slpp_entry_order c g es : W c g = Ok es ->
    map fst es =
    ([name_of KPeppi; name_of KMeta; name_of KStartJson; name_of KStartRaw]
     ++ (match g_end (sg_game g) with Some _ => [name_of KEndJson; name_of KEndRaw] | None => [] end)
     ++ (match g_gecko (sg_game g) with Some _ => [name_of KGecko] | None => [] end)
     ++ [name_of KFrames])%list.
  Proof.
    unfold slpp_write. destruct (assert_max_version_ok _); cbn [negb]; [|discriminate].
    destruct (enc_frames c _ _ _); cbn [bind]; try discriminate. intro H. inversion H; subst es.
    destruct (g_end (sg_game g)), (g_gecko (sg_game g)); reflexivity.
  Qed.

  (* the raw entries are the retained blocks, and the JSON entries are the renderings of the same records *)
  Theorem slpp_entries_consistent c g es : W c g = Ok es ->
    In (name_of KStartRaw, st_bytes (g_start (sg_game g))) es /\
    In (name_of KStartJson, enc_start (g_start (sg_game g))) es /\
    (forall e, g_end (sg_game g) = Some e -> In (name_of KEndRaw, en_bytes e) es /\ In (name_of KEndJson, enc_end e) es).
  Proof.
    unfold slpp_write. destruct (assert_max_version_ok _); cbn [negb]; [|discriminate].
    destruct (enc_frames c _ _ _); cbn [bind]; try discriminate. intro H. inversion H; subst es. clear H.
    repeat split.
    - cbn. auto.
    - cbn. auto.
    - rewrite H. cbn. auto 10.
    - rewrite H. cbn. auto 10.
  Qed.

  (* refusal above the maximum version (C09 at the .slpp writer) *)
  Theorem slpp_write_refuses c g : assert_max_version_ok (st_version (g_start (sg_game g))) = false -> W c g = Err EInvalid.
  Proof. intro H. unfold slpp_write. rewrite H. reflexivity. Qed.

  (* entries the reader does not know are ignored wherever they stand before frames.arrow *)
  Theorem slpp_unknown_ignored skip pre p c post a :
    kind_of p = KOther -> RE skip (pre ++ (p, c) :: post) a = RE skip (pre ++ post) a.
  Proof.
    intro Hk. revert a. induction pre as [|[p0 c0] pre IH]; intro a.
    - cbn [app read_entries]. rewrite Hk. reflexivity.
    - cbn [app read_entries]. destruct (kind_of p0); try apply IH.
      + destruct (dec_peppi c0) as [[[pv h] q]|]; [|reflexivity]. destruct (assert_current_version_ok pv); [apply IH|reflexivity].
      + destruct (dec_meta c0); [apply IH|reflexivity].
      + destruct (res_out (game_start c0)); cbn [bind]; try reflexivity. apply IH.
      + destruct (res_out (game_end c0)); cbn [bind]; try reflexivity. apply IH.
      + destruct (length c0 <? 4)%nat; [reflexivity|apply IH].
      + reflexivity.
  Qed.

  (* an archive whose format version is below the minimum is rejected *)
  Theorem slpp_old_version_rejected skip p c rest pv h q :
    kind_of p = KPeppi -> dec_peppi c = Some (pv, h, q) -> assert_current_version_ok pv = false ->
    Rd skip ((p, c) :: rest) = Err EInvalid.
  Proof. intros Hk Hd Hv. unfold slpp_read. cbn [read_entries]. rewrite Hk, Hd, Hv. reflexivity. Qed.

  (* skip_frames: same start, end, metadata, gecko, hash, quirks; frames empty *)
  Theorem slpp_skip c g es :
    coherent (sg_game g) -> W c g = Ok es ->
    exists g', Rd true es = Ok g' /\ sg_hash g' = sg_hash g /\
               g_start (sg_game g') = g_start (sg_game g) /\ g_end (sg_game g') = g_end (sg_game g) /\
               g_meta (sg_game g') = g_meta (sg_game g) /\ g_quirk (sg_game g') = g_quirk (sg_game g) /\
               g_frames (sg_game g') = frames_new (st_version (g_start (sg_game g))) (port_occupancy (g_start (sg_game g))).
  Proof.
    intros Hc Hw. unfold slpp_write in Hw.
    destruct (assert_max_version_ok (st_version (g_start (sg_game g)))); cbn [negb] in Hw; [|discriminate].
    destruct (enc_frames c _ _ _) as [fr| | |] eqn:Ef; cbn [bind] in Hw; try discriminate.
    apply ok_inj in Hw. subst es.
    unfold slpp_read. rewrite (read_prefix true g fr [] racc0 Hc).
    step KFrames. cbn [bind upd ra_start ra_end ra_meta ra_gecko ra_frames ra_peppi racc0].
    eexists. split; [reflexivity|]. cbn. destruct (g_end (sg_game g)); repeat split; reflexivity.
  Qed.
End RoundTrip.

(* C18: the file signature is at offset 0 of the bytes tar::Builder writes for the first entry *)
Lemma tar_starts_with_first_name name content rest :
  length name = 10%nat -> firstn 10 (tar_bytes ((name, content) :: rest)) = name.
Proof.
  intro H. unfold tar_bytes. cbn [flat_map]. unfold tar_entry, tar_header, tar_header_nock. cbn [fst snd].
  unfold pad_to. rewrite <- !app_assoc. rewrite firstn_app. rewrite H, Nat.sub_diag, firstn_O, app_nil_r.
  apply firstn_all2. lia.
Qed.

Lemma signature_is_peppi_json : name_of KPeppi = map n2b PEPPI_FILE_SIGNATURE.
Proof. vm_compute. reflexivity. Qed.
