(* C14, totality part: the Arrow export [arrow_frame] of the frames of a parsed game never panics, for every version and
   every port configuration with at least one port, and the top-level struct has the per-version children
   id, ports, start (>= 2.2), end (>= 3.7), item (>= 3.0).
   The regenerated tables enter only through closed boolean checks discharged by vm_compute:
   [dt_ok] (shape of tbl_data_type), [arrow_leaves_match] (Transpose.v), [first_ungated], [end_first_gate]. *)
From Coq Require Import List Arith NArith ZArith Lia Bool String ZifyBool ZifyN ZifyNat.
From Coq.Strings Require Import Byte.
From Peppi Require Import Base.Bytes Base.Outcome Base.Stream Layout.Syntax Gen.Funs Gen.Tables Layout.Sem Layout.Rows
  Layout.RowsTheory Layout.Shapes Layout.Transpose
  Model.Ubjson Model.Start Model.Json Model.Parse Model.Reader Model.Writer Model.Recorder Model.View
  Proofs.Framing Proofs.FrameStep Proofs.StartFacts Proofs.TableFacts Proofs.UbjsonProof
  Proofs.Incremental Proofs.WriteProof Proofs.ReadProof Proofs.C04Proof.
Import ListNotations.
Notation length := (@List.length _) (only parsing).
Local Open Scope string_scope.

Definition child_name (t : atree) : string :=
  match t with APrim n _ _ => n | AStruct n _ _ _ => n | AList n _ _ _ _ => n end.

(* ------------------------------------------------------------------------------------------------ *)
(* 1. the supported shape of a data_type table                                                        *)
(* ------------------------------------------------------------------------------------------------ *)
Fixpoint dt_instr (i : instr) : bool :=
  match i with
  | Fld _ (Some _) _ => true
  | SubT _ _ => true
  | Gate _ _ body => forallb dt_instr body
  | _ => false
  end.

Definition dt_table (tbl : table) : bool := forallb (fun kv => forallb dt_instr (snd kv)) tbl.
Definition dt_ok : bool := dt_table tbl_data_type.

Lemma dt_assoc (tbl : table) ty body :
  dt_table tbl = true -> assoc ty tbl = Some body -> forallb dt_instr body = true.
Proof.
  unfold dt_table. induction tbl as [|[k b] t IH]; intros Hp Ha.
  - cbn in Ha. discriminate.
  - cbn [forallb snd] in Hp. apply andb_true_iff in Hp as [Hb Ht].
    cbn [assoc] in Ha. destruct (String.eqb ty k).
    + inversion Ha; subst. exact Hb.
    + apply IH; assumption.
Qed.

(* number of loose leaves that version v enables *)
Definition len (v : version) (gs : list gate) : bool := forallb (gte v) gs.
Definition cnt (v : version) (ls : list loose_leaf) : nat :=
  length (filter (fun l : loose_leaf => len v (snd l)) ls).

Lemma cnt_app v a b : cnt v (a ++ b)%list = (cnt v a + cnt v b)%nat.
Proof. unfold cnt. rewrite filter_app, app_length. reflexivity. Qed.

(* ------------------------------------------------------------------------------------------------ *)
(* 2. one-step unfoldings                                                                             *)
(* ------------------------------------------------------------------------------------------------ *)
Lemma af_nil f v n valid cols : arrow_fields (S f) v n valid [] cols = Some ([], cols).
Proof. reflexivity. Qed.

Lemma af_cons f v n valid i r cols :
  arrow_fields (S f) v n valid (i :: r) cols =
  match (match i with
         | Fld nm (Some p) _ => match cols with c :: cr => Some ([APrim nm p c], cr) | [] => None end
         | SubT nm ty =>
           match assoc ty tbl_data_type with
           | Some body =>
             match arrow_fields f v n valid body cols with
             | Some (ch, cr) =>
               Some ([AStruct nm n (match assoc ty tbl_into_validity with Some true => valid | _ => None end) ch], cr)
             | None => None
             end
           | None => None
           end
         | Gate M m body => if slippi_Version_gte v M m then arrow_fields f v n valid body cols else Some ([], cols)
         | _ => None
         end) with
  | Some (a, cr) =>
    match arrow_fields (S f) v n valid r cr with Some (b, cr') => Some ((a ++ b)%list, cr') | None => None end
  | None => None
  end.
Proof. reflexivity. Qed.

Lemma own_gated_nil f gs : own_gated (S f) [] gs = [].
Proof. reflexivity. Qed.

Lemma own_gated_cons f i r gs :
  own_gated (S f) (i :: r) gs =
  ((match i with
    | Fld n _ _ => [(n, gs)]
    | Sub n _ => [(n, gs)]
    | SubT n _ => [(n, gs)]
    | Gate M m body => own_gated f body (gs ++ [(M, m)])%list
    | _ => []
    end) ++ own_gated (S f) r gs)%list.
Proof. reflexivity. Qed.

(* ------------------------------------------------------------------------------------------------ *)
(* 3. disabled gate contexts                                                                          *)
(* ------------------------------------------------------------------------------------------------ *)
Lemma flat_loose_cnt0 v tbl decls fuel :
  forall St pfx gs ins ls,
    len v gs = false ->
    flat_loose tbl decls fuel St pfx gs ins = Some ls -> cnt v ls = O.
Proof.
  induction fuel as [|f IHf]; intros St pfx gs ins ls Hgs Hfl; [cbn in Hfl; discriminate|].
  revert ls Hfl. induction ins as [|i r IHr]; intros ls Hfl.
  - rewrite flat_loose_nil in Hfl. inversion Hfl; subst. reflexivity.
  - rewrite flat_loose_cons in Hfl.
    match type of Hfl with match ?h with _ => _ end = _ => destruct h as [a|] eqn:Eh end; [|discriminate].
    destruct (flat_loose tbl decls (S f) St pfx gs r) as [b|] eqn:Er; [|discriminate].
    specialize (IHr b eq_refl).
    inversion Hfl; subst. rewrite cnt_app, IHr. clear Hfl IHr Er.
    cut (cnt v a = O); [intro Hc; rewrite Hc; reflexivity|].
    destruct i as [n p u|n u|n ty|p| | |M m body].
    + inversion Eh; subst. unfold cnt. cbn [filter snd]. rewrite Hgs. reflexivity.
    + destruct (assoc St decls) as [d|]; [|discriminate].
      destruct (decl_sub_type d n) as [ty|]; [|discriminate].
      destruct (assoc ty tbl) as [body|]; [|discriminate].
      eapply IHf; [exact Hgs|exact Eh].
    + destruct (assoc ty tbl) as [body|]; [|discriminate].
      eapply IHf; [exact Hgs|exact Eh].
    + inversion Eh; subst. unfold cnt. cbn [filter snd]. rewrite Hgs. reflexivity.
    + inversion Eh; subst. reflexivity.
    + inversion Eh; subst. reflexivity.
    + eapply IHf; [|exact Eh]. unfold len in *. rewrite forallb_snoc, Hgs. reflexivity.
Qed.

Lemma own_gated_disabled v fuel : forall ins gs,
  len v gs = false -> filter (fun x : string * list gate => len v (snd x)) (own_gated fuel ins gs) = [].
Proof.
  induction fuel as [|f IHf]; intros ins gs Hgs; [reflexivity|].
  induction ins as [|i r IHr]; [reflexivity|].
  rewrite own_gated_cons, filter_app, IHr, app_nil_r.
  destruct i as [n p u|n u|n ty|p| | |M m body]; try reflexivity;
    try (cbn [filter snd]; rewrite Hgs; reflexivity).
  apply IHf. unfold len in *. rewrite forallb_snoc, Hgs. reflexivity.
Qed.

(* ------------------------------------------------------------------------------------------------ *)
(* 4. arrow_fields succeeds when there are enough columns, and consumes one column per enabled leaf   *)
(* ------------------------------------------------------------------------------------------------ *)
Lemma skipn_add {A} (a b : nat) (l : list A) : skipn (a + b) l = skipn b (skipn a l).
Proof.
  revert l. induction a as [|a IH]; intro l; [reflexivity|].
  destruct l as [|x l]; cbn [Nat.add skipn]; [destruct b; reflexivity|]. apply IH.
Qed.

Lemma af_total v n valid decls fuel :
  dt_ok = true ->
  forall St pfx gs ins ls cols,
    forallb dt_instr ins = true ->
    len v gs = true ->
    flat_loose tbl_data_type decls fuel St pfx gs ins = Some ls ->
    (cnt v ls <= length cols)%nat ->
    exists ch, arrow_fields fuel v n valid ins cols = Some (ch, skipn (cnt v ls) cols).
Proof.
  intro Hok.
  induction fuel as [|f IHf]; intros St pfx gs ins ls cols Hp Hgs Hfl Hlen; [cbn in Hfl; discriminate|].
  revert ls cols Hp Hfl Hlen. induction ins as [|i r IHr]; intros ls cols Hp Hfl Hlen.
  - rewrite flat_loose_nil in Hfl. inversion Hfl; subst. exists []. rewrite af_nil. reflexivity.
  - rewrite flat_loose_cons in Hfl. rewrite af_cons.
    cbn [forallb] in Hp. apply andb_true_iff in Hp as [Hpi Hpr].
    match type of Hfl with match ?h with _ => _ end = _ => destruct h as [a0|] eqn:Eh0 end; [|discriminate].
    destruct (flat_loose tbl_data_type decls (S f) St pfx gs r) as [b|] eqn:Er; [|discriminate].
    inversion Hfl; subst ls. clear Hfl. rewrite cnt_app in Hlen. rewrite cnt_app, skipn_add.
    (* the head statement *)
    assert (Hhere : exists a,
      (match i with
       | Fld nm (Some p) _ => match cols with c :: cr => Some ([APrim nm p c], cr) | [] => None end
       | SubT nm ty =>
         match assoc ty tbl_data_type with
         | Some body =>
           match arrow_fields f v n valid body cols with
           | Some (ch, cr) =>
             Some ([AStruct nm n (match assoc ty tbl_into_validity with Some true => valid | _ => None end) ch], cr)
           | None => None
           end
         | None => None
         end
       | Gate M m body => if slippi_Version_gte v M m then arrow_fields f v n valid body cols else Some ([], cols)
       | _ => None
       end) = Some (a, skipn (cnt v a0) cols)).
    { destruct i as [nm p u|nm u|nm ty|p| | |M m body]; cbn [dt_instr] in Hpi; try discriminate.
      - destruct p as [p|]; [|discriminate]. inversion Eh0; subst a0.
        unfold cnt in *. cbn [filter snd] in *. rewrite Hgs in *. cbn [length] in *.
        destruct cols as [|c cr]; [cbn [length] in Hlen; lia|]. eexists. reflexivity.
      - destruct (assoc ty tbl_data_type) as [body|] eqn:Ea; [|discriminate].
        assert (Hb : forallb dt_instr body = true) by (eapply dt_assoc; [exact Hok|exact Ea]).
        assert (Hl : (cnt v a0 <= length cols)%nat) by lia.
        destruct (IHf _ _ _ _ _ cols Hb Hgs Eh0 Hl) as [ch Hch]. rewrite Hch. eexists. reflexivity.
      - destruct (slippi_Version_gte v M m) eqn:Eg.
        + assert (Hl : (cnt v a0 <= length cols)%nat) by lia.
          assert (Hgs' : len v (gs ++ [(M, m)])%list = true).
          { unfold len in *. rewrite forallb_snoc, Hgs. unfold gte. cbn [fst snd]. rewrite Eg. reflexivity. }
          destruct (IHf _ _ _ _ _ cols Hpi Hgs' Eh0 Hl) as [ch Hch]. exists ch. exact Hch.
        + assert (H0 : cnt v a0 = O).
          { eapply flat_loose_cnt0; [|exact Eh0]. unfold len in *. rewrite forallb_snoc.
            unfold gte at 2. cbn [fst snd]. rewrite Eg. apply andb_false_r. }
          rewrite H0. exists []. reflexivity. }
    destruct Hhere as [a Ha]. rewrite Ha.
    assert (Hl : (cnt v b <= length (skipn (cnt v a0) cols))%nat) by (rewrite skipn_length; lia).
    destruct (IHr b (skipn (cnt v a0) cols) Hpr eq_refl Hl) as [ch Hch]. rewrite Hch.
    eexists. reflexivity.
Qed.

(* the number of children is the number of enabled own-level fields *)
Lemma af_children v n valid fuel : forall gs ins cols ch cr,
  len v gs = true ->
  arrow_fields fuel v n valid ins cols = Some (ch, cr) ->
  length ch = length (filter (fun x : string * list gate => len v (snd x)) (own_gated fuel ins gs)).
Proof.
  induction fuel as [|f IHf]; intros gs ins cols ch cr Hgs H; [cbn in H; discriminate|].
  revert cols ch cr H. induction ins as [|i r IHr]; intros cols ch cr H.
  - rewrite af_nil in H. inversion H; subst. reflexivity.
  - rewrite af_cons in H. rewrite own_gated_cons, filter_app, app_length.
    match type of H with match ?h with _ => _ end = _ => destruct h as [[a cr0]|] eqn:Eh end; [|discriminate].
    destruct (arrow_fields (S f) v n valid r cr0) as [[b cr1]|] eqn:Er; [|discriminate].
    inversion H; subst ch cr. clear H. rewrite app_length. rewrite (IHr _ _ _ Er). f_equal.
    destruct i as [nm p u|nm u|nm ty|p| | |M m body]; try discriminate.
    + destruct p as [p|]; [|discriminate]. destruct cols as [|c cr']; [discriminate|].
      inversion Eh; subst. cbn [filter snd]. rewrite Hgs. reflexivity.
    + destruct (assoc ty tbl_data_type) as [body|]; [|discriminate].
      destruct (arrow_fields f v n valid body cols) as [[ch cr']|]; [|discriminate].
      inversion Eh; subst. cbn [filter snd]. rewrite Hgs. reflexivity.
    + destruct (slippi_Version_gte v M m) eqn:Eg.
      * eapply IHf; [|exact Eh]. unfold len in *. rewrite forallb_snoc, Hgs. unfold gte. cbn [fst snd].
        rewrite Eg. reflexivity.
      * inversion Eh; subst. rewrite own_gated_disabled; [reflexivity|].
        unfold len in *. rewrite forallb_snoc. unfold gte at 2. cbn [fst snd]. rewrite Eg. apply andb_false_r.
Qed.

(* ------------------------------------------------------------------------------------------------ *)
(* 5. the Arrow leaves are the reader's leaves: as many enabled leaves as columns                     *)
(* ------------------------------------------------------------------------------------------------ *)
Lemma cnt_leaves v (a : list loose_leaf) (b : list gleaf) :
  Nat.eqb (length a) (length b) = true ->
  forallb (fun p : loose_leaf * gleaf =>
             String.eqb (fst (fst (fst p))) (lpath (snd p))
             && oprim_eqb (snd (fst (fst p))) (Some (lprim (snd p)))
             && gates_eqb (snd (fst p)) (lgates (snd p))) (combine a b) = true ->
  cnt v a = length (leaves_at v b).
Proof.
  revert b. induction a as [|x a IH]; intros b Hlen Hall; destruct b as [|y b].
  - reflexivity.
  - cbn in Hlen. discriminate.
  - cbn in Hlen. discriminate.
  - cbn [combine forallb fst snd] in Hall.
    apply andb_true_iff in Hall as [Hxy Hall]. apply andb_true_iff in Hxy as [_ Hg].
    apply gates_eqb_eq in Hg.
    assert (Hlen' : Nat.eqb (length a) (length b) = true).
    { apply Nat.eqb_eq in Hlen. apply Nat.eqb_eq. cbn [List.length] in Hlen. lia. }
    specialize (IH b Hlen' Hall).
    unfold cnt, leaves_at in *. cbn [filter]. unfold enabled at 1. unfold len at 1. rewrite Hg.
    destruct (forallb (gte v) (lgates y)); cbn [List.length]; rewrite IH; reflexivity.
Qed.

Lemma alm_cnt v E : arrow_leaves_match E = true ->
  exists body a, assoc E tbl_data_type = Some body /\
                 flat_loose tbl_data_type tbl_imm_decl 24 E "" [] body = Some a /\
                 cnt v a = length (row_leaves v E).
Proof.
  unfold arrow_leaves_match, flatten_loose. intro H.
  destruct (assoc E tbl_data_type) as [body|]; [|discriminate].
  destruct (flat_loose tbl_data_type tbl_imm_decl 24 E "" [] body) as [a|] eqn:Ea; [|discriminate].
  apply andb_true_iff in H as [Hl Hf].
  exists body, a. split; [reflexivity|]. split; [exact Ea|].
  unfold row_leaves. apply cnt_leaves; assumption.
Qed.

Lemma columns_of_length v E rows : length (columns_of v E rows) = length (row_leaves v E).
Proof. unfold columns_of. rewrite map_length, seq_length. reflexivity. Qed.

(* ------------------------------------------------------------------------------------------------ *)
(* 6. arrow_struct                                                                                    *)
(* ------------------------------------------------------------------------------------------------ *)
Lemma arrow_struct_ok v E name rows valid :
  dt_ok = true -> arrow_leaves_match E = true ->
  (exists nm gs rest, own_of tbl_data_type E = (nm, gs) :: rest /\ len v gs = true) ->
  exists sv ch, arrow_struct v E name rows valid = Ok (AStruct name (length rows) sv ch).
Proof.
  intros Hok Hm (nm & gs & rest & Hown & Hgs).
  destruct (alm_cnt v E Hm) as (body & a & Hassoc & Hfl & Hcnt).
  unfold arrow_struct. unfold own_of in Hown. rewrite Hassoc in *.
  assert (Hb : forallb dt_instr body = true) by (eapply dt_assoc; [exact Hok|exact Hassoc]).
  assert (Hl : (cnt v a <= length (columns_of v E rows))%nat) by (rewrite columns_of_length; lia).
  destruct (af_total v (length rows) valid tbl_imm_decl 24 Hok E "" [] body a (columns_of v E rows) Hb eq_refl Hfl Hl)
    as [ch Hch].
  rewrite Hch.
  pose proof (af_children v (length rows) valid 24 [] body _ _ _ eq_refl Hch) as Hlen.
  rewrite Hown in Hlen. cbn [filter snd] in Hlen. rewrite Hgs in Hlen. cbn [List.length] in Hlen.
  destruct ch as [|c ch']; [cbn [List.length] in Hlen; discriminate|].
  eexists. eexists. reflexivity.
Qed.

(* closed checks on the regenerated tables *)
Definition first_ungated (E : string) : bool :=
  match own_of tbl_data_type E with (_, []) :: _ => true | _ => false end.

Definition end_first_gate : bool :=
  match own_of tbl_data_type "End" with (_, gs) :: _ => gates_eqb gs [(3%N, 7%N)] | [] => false end.

Lemma dt_ok_true : dt_ok = true.
Proof. vm_compute. reflexivity. Qed.

Lemma alm_all : forallb arrow_leaves_match ["Pre"; "Post"; "Start"; "End"; "Item"] = true.
Proof. vm_compute. reflexivity. Qed.

Lemma first_ungated_all : forallb first_ungated ["Pre"; "Post"; "Start"; "Item"] = true.
Proof. vm_compute. reflexivity. Qed.

Lemma end_first_gate_true : end_first_gate = true.
Proof. vm_compute. reflexivity. Qed.

Lemma alm_of E : In E ["Pre"; "Post"; "Start"; "End"; "Item"] -> arrow_leaves_match E = true.
Proof. intro H. exact (proj1 (forallb_forall _ _) alm_all E H). Qed.

Lemma arrow_struct_ungated v E name rows valid :
  In E ["Pre"; "Post"; "Start"; "Item"] ->
  exists sv ch, arrow_struct v E name rows valid = Ok (AStruct name (length rows) sv ch).
Proof.
  intro Hin.
  apply arrow_struct_ok; [exact dt_ok_true| |].
  - apply alm_of. cbn [In] in *. intuition.
  - pose proof (proj1 (forallb_forall _ _) first_ungated_all E Hin) as Hf. unfold first_ungated in Hf.
    destruct (own_of tbl_data_type E) as [|[nm gs] rest]; [discriminate|].
    destruct gs as [|g gs]; [|discriminate]. exists nm, [], rest. split; reflexivity.
Qed.

Lemma arrow_struct_end v name rows valid :
  vgte v 3 7 = true ->
  exists sv ch, arrow_struct v "End" name rows valid = Ok (AStruct name (length rows) sv ch).
Proof.
  intro Hv.
  apply arrow_struct_ok; [exact dt_ok_true| |].
  - apply alm_of. cbn [In]. intuition.
  - pose proof end_first_gate_true as Hf. unfold end_first_gate in Hf.
    destruct (own_of tbl_data_type "End") as [|[nm gs] rest]; [discriminate|].
    apply gates_eqb_eq in Hf. subst gs. exists nm, [(3%N, 7%N)], rest. split; [reflexivity|].
    unfold len. cbn [forallb]. unfold gte. cbn [fst snd]. unfold vgte in Hv. rewrite Hv. reflexivity.
Qed.

(* ------------------------------------------------------------------------------------------------ *)
(* 7. Data, ports                                                                                     *)
(* ------------------------------------------------------------------------------------------------ *)
Lemma arrow_data_ok v name d :
  length (c_pre d) = length (c_post d) -> exists t, arrow_data v name d = Ok t.
Proof.
  intro Hl. unfold arrow_data. rewrite Hl, Nat.eqb_refl. cbn [negb].
  destruct (arrow_struct_ungated v "Pre" "pre" (c_pre d) (c_valid d)) as (sv1 & ch1 & H1); [cbn [In]; intuition|].
  destruct (arrow_struct_ungated v "Post" "post" (c_post d) (c_valid d)) as (sv2 & ch2 & H2); [cbn [In]; intuition|].
  rewrite H1. cbn [bind]. rewrite H2. cbn [bind]. eexists. reflexivity.
Qed.

Lemma all_ok_map {A B} (f : A -> outcome B) (l : list A) :
  (forall x, In x l -> exists b, f x = Ok b) ->
  exists r, all_ok (map f l) = Ok r /\ length r = length l.
Proof.
  induction l as [|x l IH]; intro H.
  - exists []. split; reflexivity.
  - destruct (H x (or_introl eq_refl)) as [b Hb].
    destruct (IH (fun y Hy => H y (or_intror Hy))) as (r & Hr & Hlen).
    exists (b :: r). cbn [map all_ok]. rewrite Hb. cbn [bind]. rewrite Hr. cbn [bind].
    split; [reflexivity|]. cbn [List.length]. rewrite Hlen. reflexivity.
Qed.

(* every group's data are the data of slots *)
Lemma group_ports_in fuel : forall cs g, In g (group_ports fuel cs) ->
  (exists c, In c cs /\ snd (fst g) = sl_data c) /\
  (forall d, snd g = Some d -> exists c, In c cs /\ d = sl_data c).
Proof.
  induction fuel as [|f IH]; intros cs g Hg; [destruct Hg|].
  cbn [group_ports] in Hg. destruct cs as [|c r]; [destruct Hg|].
  destruct r as [|c2 r2].
  - destruct Hg as [<-|[]]. cbn [fst snd]. split.
    + exists c. split; [left; reflexivity|reflexivity].
    + intros d Hd. discriminate.
  - destruct (sl_fol c2 && N.eqb (sl_port c2) (sl_port c)).
    + destruct Hg as [<-|Hg].
      * cbn [fst snd]. split.
        -- exists c. split; [left; reflexivity|reflexivity].
        -- intros d Hd. inversion Hd; subst. exists c2. split; [right; left; reflexivity|reflexivity].
      * destruct (IH r2 g Hg) as [(c' & Hc' & E1) H2]. split.
        -- exists c'. split; [right; right; exact Hc'|exact E1].
        -- intros d Hd. destruct (H2 d Hd) as (c'' & Hc'' & E2). exists c''. split; [right; right; exact Hc''|exact E2].
    + destruct Hg as [<-|Hg].
      * cbn [fst snd]. split.
        -- exists c. split; [left; reflexivity|reflexivity].
        -- intros d Hd. discriminate.
      * destruct (IH (c2 :: r2) g Hg) as [(c' & Hc' & E1) H2]. split.
        -- exists c'. split; [right; exact Hc'|exact E1].
        -- intros d Hd. destruct (H2 d Hd) as (c'' & Hc'' & E2). exists c''. split; [right; exact Hc''|exact E2].
Qed.

Lemma group_ports_nonempty fuel cs : cs <> [] -> fuel <> O -> group_ports fuel cs <> [].
Proof.
  intros Hcs Hf. destruct fuel as [|f]; [congruence|]. destruct cs as [|c r]; [congruence|].
  cbn [group_ports]. destruct r as [|c2 r2]; [discriminate|].
  destruct (sl_fol c2 && N.eqb (sl_port c2) (sl_port c)); discriminate.
Qed.

Lemma slots_of_nonempty ports : ports <> [] -> slots_of ports <> [].
Proof.
  destruct ports as [|p r]; [congruence|]. intros _. unfold slots_of. cbn [flat_map].
  destruct (snd p); discriminate.
Qed.

Lemma vgte_30_22 v : vgte v 3 0 = true -> vgte v 2 2 = true.
Proof.
  destruct v as [[x y] z]. unfold vgte, slippi_Version_gte, v0, v1. cbn [fst snd]. lia.
Qed.

(* ------------------------------------------------------------------------------------------------ *)
(* 8. the export of the frames of a parsed game                                                       *)
(* ------------------------------------------------------------------------------------------------ *)
Section C14.
Variables (v : version) (ports : list (N * bool)) (fs : list aframe).
Let L := layout_of v.
Hypothesis Hwf : Forall (fun f => wf_frame v L (slots_of ports) f = true) fs.
Hypothesis Hports : ports <> [].

Let fr := frames_of v ports fs.

Lemma c14_ports_ok : exists ps,
  all_ok (map (fun g : N * cdata * option cdata =>
                 l <- arrow_data v "leader" (snd (fst g)) ;;
                 f <- (match snd g with
                       | Some d => x <- arrow_data v "follower" d ;; Ok [x]
                       | None => Ok []
                       end) ;;
                 Ok (AStruct (port_name (fst (fst g))) (length (c_pre (snd (fst g)))) None (l :: f)))
              (group_ports (length (f_chars fr)) (f_chars fr))) = Ok ps /\ ps <> [].
Proof.
  assert (Hslot : forall c, In c (f_chars fr) -> length (c_pre (sl_data c)) = length (c_post (sl_data c))).
  { intros c Hc. apply In_nth_error in Hc as [k Hk].
    destruct (c04_lengths v ports fs k c Hk) as (H1 & H2 & _). fold fr in Hk. rewrite H1, H2. reflexivity. }
  assert (Hne : f_chars fr <> []).
  { intro E. pose proof (c04_slot_count v ports fs Hwf) as Hc. fold fr in Hc. rewrite E in Hc.
    cbn [List.length] in Hc. pose proof (slots_of_nonempty ports Hports) as Hs.
    destruct (slots_of ports); [congruence|cbn [List.length] in Hc; discriminate]. }
  match goal with |- exists ps, all_ok (map ?f ?l) = _ /\ _ =>
    destruct (all_ok_map f l) as (r & Hr & Hlen) end.
  - intros g Hg. destruct (group_ports_in _ _ g Hg) as [(c & Hc & E1) H2].
    destruct (arrow_data_ok v "leader" (snd (fst g))) as [t Ht]; [rewrite E1; apply Hslot; exact Hc|].
    rewrite Ht. cbn [bind].
    destruct (snd g) as [d|] eqn:Ed.
    + destruct (H2 d eq_refl) as (c' & Hc' & E2).
      destruct (arrow_data_ok v "follower" d) as [t' Ht']; [rewrite E2; apply Hslot; exact Hc'|].
      rewrite Ht'. cbn [bind]. eexists. reflexivity.
    + cbn [bind]. eexists. reflexivity.
  - exists r. split; [exact Hr|].
    intro E. subst r. cbn [List.length] in Hlen.
    assert (Hg : group_ports (length (f_chars fr)) (f_chars fr) <> []).
    { apply group_ports_nonempty; [exact Hne|]. destruct (f_chars fr); [congruence|discriminate]. }
    destruct (group_ports (length (f_chars fr)) (f_chars fr)); [congruence|discriminate].
Qed.

Theorem c14_export_total : exists n kids,
  arrow_frame v (frames_of v ports fs) = Ok (AStruct "frame" n None kids) /\ n = length fs /\
  map child_name kids =
    (["id"; "ports"] ++ (if vgte v 2 2 then ["start"] else []) ++ (if vgte v 3 0 && vgte v 3 7 then ["end"] else [])
     ++ (if vgte v 3 0 then ["item"] else []))%list.
Proof.
  fold fr. unfold arrow_frame.
  destruct c14_ports_ok as (ps & Hps & Hne). rewrite Hps. cbn [bind].
  destruct ps as [|p0 ps']; [congruence|]. cbn [bind].
  assert (Hn : length (f_ids fr) = length fs).
  { unfold fr. rewrite (c04_ids v ports fs). apply map_length. }
  pose proof (c04_start v ports fs) as Hst. pose proof (c04_end v ports fs) as Hen.
  pose proof (c04_items v ports fs) as Hit. pose proof (c04_item_offsets v ports fs) as Hio.
  fold fr in Hst, Hen, Hit, Hio.
  destruct (vgte v 2 2) eqn:E22.
  - rewrite Hst.
    destruct (arrow_struct_ungated v "Start" "start" (map af_start fs) None) as (sv & ch & Hs); [cbn [In]; intuition|].
    rewrite Hs. cbn [bind].
    destruct (vgte v 3 0) eqn:E30.
    + rewrite Hen, Hio, Hit.
      destruct (arrow_struct_ungated v "Item" "item" (List.concat (map af_items fs)) None) as (sv' & ch' & Hi);
        [cbn [In]; intuition|].
      rewrite Hi.
      destruct (vgte v 3 7) eqn:E37.
      * destruct (arrow_struct_end v "end" (map af_end fs) None E37) as (sv'' & ch'' & He).
        rewrite He. cbn [bind].
        eexists. eexists. split; [reflexivity|]. split; [exact Hn|]. reflexivity.
      * cbn [bind].
        eexists. eexists. split; [reflexivity|]. split; [exact Hn|]. reflexivity.
    + eexists. eexists. split; [reflexivity|]. split; [exact Hn|]. reflexivity.
  - assert (E30 : vgte v 3 0 = false).
    { destruct (vgte v 3 0) eqn:E; [|reflexivity]. apply vgte_30_22 in E. congruence. }
    rewrite E30. eexists. eexists. split; [reflexivity|]. split; [exact Hn|]. reflexivity.
Qed.

End C14.

Print Assumptions af_total.
Print Assumptions af_children.
Print Assumptions arrow_struct_ok.
Print Assumptions c14_export_total.
