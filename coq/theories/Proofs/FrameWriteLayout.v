(* The per-frame write order of the .slp writer: the hand model Model/Writer.v [write_frame] / [write_slot] / [write_char]
   is the interpretation of the tables that tools/rust2coq.py regenerates from the text of the hand-written head of
   src/frame/immutable/slippi.rs (impl Frame::write, impl PortData::write_pre/write_post, impl Data::write_pre/write_post):
   Gen/FrameWrite.v -- the five groups of a frame in source order with their `if version.gte(M, m)` gates, and the
   header writes (event code, i32 frame id, port byte, is_follower byte) in front of every record.

   If the source reorders two groups, changes a gate, an event, the header of an event or the record written after it, the
   regenerated tables change and these theorems no longer hold of the unchanged hand model. *)
From Coq Require Import List Arith NArith ZArith Lia Bool String.
From Coq.Strings Require Import Byte.
From Peppi Require Import Base.Bytes Base.Outcome Base.Stream Layout.Syntax Gen.Funs Gen.FrameWrite Layout.Sem Layout.Rows
  Model.Ubjson Model.Start Model.Json Model.Parse Model.Reader Model.Writer.
Import ListNotations.
Notation length := (@List.length _) (only parsing).
Local Open Scope string_scope.
Local Open Scope list_scope.

(* ---- lookups (closed once applied to a literal name) ---- *)
Fixpoint code_of (tbl : list (string * N)) (name : string) : option N :=
  match tbl with
  | [] => None
  | (n, c) :: r => if String.eqb n name then Some c else code_of r name
  end.
Definition ecode (e : string) : N := match code_of frame_event_codes e with Some c => c | None => 0%N end.

Fixpoint data_lookup (tbl : list (string * list hfield * string * string)) (m : string) : option (list hfield * string * string) :=
  match tbl with
  | [] => None
  | (n, h, f, r) :: t => if String.eqb n m then Some (h, f, r) else data_lookup t m
  end.
Fixpoint port_lookup (tbl : list (string * list (string * string * bool * bool))) (m : string) : option (list (string * string * bool * bool)) :=
  match tbl with
  | [] => None
  | (n, rows) :: t => if String.eqb n m then Some rows else port_lookup t m
  end.
Fixpoint who_lookup (rows : list (string * string * bool * bool)) (who : string) : option (string * bool * bool) :=
  match rows with
  | [] => None
  | (w, callee, fol, extra) :: t => if String.eqb w who then Some (callee, fol, extra) else who_lookup t who
  end.

(* the fields of the Rust structs and their counterparts in the model's records *)
Inductive dfield := DPre | DPost.
Definition dfield_of (s : string) : option dfield :=
  if String.eqb s "pre" then Some DPre else if String.eqb s "post" then Some DPost else None.
Definition data_rows (d : cdata) (f : dfield) : list row := match f with DPre => c_pre d | DPost => c_post d end.

Inductive ffield := FStart | FEnd.
Definition ffield_of (s : string) : option ffield :=
  if String.eqb s "start" then Some FStart else if String.eqb s "end" then Some FEnd else None.
Definition frame_rows (fr : frames) (f : ffield) : option (list row) := match f with FStart => f_start fr | FEnd => f_end fr end.
Definition frame_site (f : ffield) : N := match f with FStart => 408%N | FEnd => 411%N end.   (* the unwrap() panic sites of the model *)

(* the header writes, in order, in front of [tail] *)
Definition hdr_then (h : list hfield) (id : Z) (port : N) (fol : bool) (tail : list byte) : list byte :=
  fold_right (fun f acc =>
                match f with
                | HCode e => ev (ecode e) ++ acc
                | HFrameIdI32 => i32_bytes id ++ acc
                | HPortU8 => [n2b port] ++ acc
                | HFollowerU8 => [n2b (if fol then 1 else 0)%N] ++ acc
                end) tail h.

(* ---- the interpreters ---- *)
(* Data::<m> *)
Definition write_char_tbl (m : string) (v : version) (d : cdata) (idx : nat) (id : Z) (port : N) (fol : bool) : outcome (list byte) :=
  match data_lookup data_write_tbl m with
  | Some (hdr, field, rec) =>
      match dfield_of field with
      | Some df =>
          ok <- valid_at (c_valid d) idx ;;
          if ok then r <- row_at (data_rows d df) idx ;; Ok (hdr_then hdr id port fol (write_row v rec r)) else Ok []
      | None => Panic 0
      end
  | None => Panic 0
  end.

(* PortData::<m>, for one character slot of the port (the leader, or the follower when present) *)
Definition write_slot_tbl (m : string) (v : version) (c : slot) (idx : nat) (id : Z) : outcome (list byte) :=
  match port_lookup portdata_write_tbl m with
  | Some rows =>
      match who_lookup rows (if sl_fol c then "follower" else "leader") with
      | Some (callee, fol, extra) =>
          if extra then
            ok <- valid_at (c_valid (sl_data c)) idx ;;
            if ok then write_char_tbl callee v (sl_data c) idx id (sl_port c) fol else Ok []
          else write_char_tbl callee v (sl_data c) idx id (sl_port c) fol
      | None => Panic 0
      end
  | None => Panic 0
  end.

(* one group of Frame::write *)
Definition step_out (v : version) (fr : frames) (idx : nat) (id : Z) (st : fstep) : outcome (list byte) :=
  match st with
  | FsRow hdr field rec =>
      match ffield_of field with
      | Some ff =>
          match frame_rows fr ff with
          | Some rows => r <- row_at rows idx ;; Ok (hdr_then hdr id 0 false (write_row v rec r))
          | None => Panic (frame_site ff)
          end
      | None => Panic 0
      end
  | FsPorts m => concat_out (map (fun c => write_slot_tbl m v c idx id) (f_chars fr))
  | FsItems hdr offsets field rec =>
      if String.eqb offsets "item_offset" && String.eqb field "item" then
        match f_item_off fr, f_item fr with
        | Some offs, Some items =>
            match nth_error offs idx, nth_error offs (S idx) with
            | Some a, Some b =>
                concat_out (map (fun k => r <- row_at items k ;; Ok (hdr_then hdr id 0 false (write_row v rec r)))
                                (seq (Z.to_nat a) (Z.to_nat b - Z.to_nat a)))
            | _, _ => Panic 409
            end
        | _, _ => Panic 410
        end
      else Panic 0
  end.

Definition gated (v : version) (g : option (N * N)) (x : outcome (list byte)) : outcome (list byte) :=
  match g with Some (M, m) => if vgte v M m then x else Ok [] | None => x end.

(* Frame::write, one frame: the groups in table order, each under its gate *)
Definition write_frame_tbl (tbl : list (fstep * option (N * N))) (v : version) (fr : frames) (idx : nat) (id : Z) : outcome (list byte) :=
  concat_out (map (fun sg => gated v (snd sg) (step_out v fr idx id (fst sg))) tbl).

(* ---- evaluation of the closed lookups ---- *)
Ltac ev_term x := let v := eval vm_compute in x in progress change x with v.
Ltac ev_closed :=
  repeat match goal with
  | |- context [data_lookup ?t ?m] => ev_term (data_lookup t m)
  | |- context [port_lookup ?t ?m] => ev_term (port_lookup t m)
  | |- context [who_lookup ?t ?m] => ev_term (who_lookup t m)
  | |- context [dfield_of ?s] => ev_term (dfield_of s)
  | |- context [ffield_of ?s] => ev_term (ffield_of s)
  | |- context [ecode ?s] => ev_term (ecode s)
  | |- context [String.eqb ?a ?b] => ev_term (String.eqb a b)
  end; cbv beta iota.

(* ---- Data::write_pre / write_post ---- *)
Theorem write_char_from_source v pre d idx id port fol :
  write_char v pre d idx id port fol = write_char_tbl (if pre then "write_pre" else "write_post") v d idx id port fol.
Proof.
  destruct pre; unfold write_char, write_char_tbl; ev_closed;
    cbn [data_rows hdr_then fold_right app]; reflexivity.
Qed.

(* ---- PortData::write_pre / write_post ---- *)
Theorem write_slot_from_source v pre c idx id :
  write_slot v pre c idx id = write_slot_tbl (if pre then "write_pre" else "write_post") v c idx id.
Proof.
  unfold write_slot, write_slot_tbl.
  destruct pre; destruct (sl_fol c); ev_closed;
    rewrite ?(write_char_from_source v true), ?(write_char_from_source v false); reflexivity.
Qed.

(* ---- Frame::write ---- *)
Lemma concat_out5 (A B C D E : outcome (list byte)) :
  concat_out [A; B; C; D; E] = (s <- A ;; p <- B ;; i <- C ;; q <- D ;; e <- E ;; Ok (s ++ p ++ i ++ q ++ e)).
Proof.
  cbn [concat_out].
  destruct A; cbn [bind]; try reflexivity.
  destruct B; cbn [bind]; try reflexivity.
  destruct C; cbn [bind]; try reflexivity.
  destruct D; cbn [bind]; try reflexivity.
  destruct E; cbn [bind]; try reflexivity.
  rewrite app_nil_r. reflexivity.
Qed.

Theorem write_frame_from_source v fr idx id :
  write_frame v fr idx id = write_frame_tbl frame_write_steps v fr idx id.
Proof.
  unfold write_frame, write_frame_tbl, frame_write_steps.
  cbn [map fst snd gated step_out]. ev_closed.
  cbn [frame_rows frame_site hdr_then fold_right andb].
  rewrite (map_ext _ _ (fun c => write_slot_from_source v true c idx id)).
  rewrite (map_ext _ _ (fun c => write_slot_from_source v false c idx id)).
  cbv beta iota.
  rewrite concat_out5. reflexivity.
Qed.

(* every event of a character is the code byte, then i32 + port + is_follower = 4 + 1 + 1 = 6 payload bytes in front of the row;
   the per-frame events are the code byte, then the i32 = 4 payload bytes (the header constants 6 and 4 of payload_sizes, which
   do not count the code byte) *)
Theorem header_sizes_from_source id port fol tail :
  Forall (fun x => length (hdr_then (snd (fst (fst x))) id port fol tail) = (1 + 6 + length tail)%nat) data_write_tbl /\
  Forall (fun sg => match fst sg with
                    | FsRow h _ _ | FsItems h _ _ _ => length (hdr_then h id port fol tail) = (1 + 4 + length tail)%nat
                    | FsPorts _ => True
                    end) frame_write_steps.
Proof.
  assert (Hi : length (i32_bytes id) = 4%nat) by (unfold i32_bytes; apply length_be_enc).
  split; unfold data_write_tbl, frame_write_steps;
    repeat first [apply Forall_nil | apply Forall_cons]; cbn [fst snd hdr_then fold_right]; try exact I;
    unfold ev; rewrite ?app_length, ?Hi; cbn [length]; lia.
Qed.

Print Assumptions write_char_from_source.
Print Assumptions write_slot_from_source.
Print Assumptions write_frame_from_source.
Print Assumptions header_sizes_from_source.
