(* The arithmetic of slippi::read (src/io/slippi/de.rs fn read / fn parse_metadata) -- the skip-frames offsets and refusal
   condition, the event-loop condition and its break, the version gate of the final frame_close, the duplicate-Game-End test
   and the bytes of the metadata dispatch -- restated THROUGH the Gallina expressions and constants that tools/rust2coq.py
   regenerates from the Rust text with its expression front end (Gen/ReadTail.v).

   [slp_read_src] is Model/Reader.v's slp_read with each of those sub-expressions replaced by the regenerated definition;
   the pieces are the named cuts of Proofs/ReadProof.v (read_skip, read_dup, read_tail; slp_read_eq).  If the source changes
   one of the expressions (an offset, a comparison, the gate, a byte), the regenerated definition changes and the equalities
   below no longer hold of the unchanged hand model. *)
From Coq Require Import List Arith NArith ZArith Lia Bool String.
From Coq.Strings Require Import Byte.
From Peppi Require Import Base.Bytes Base.Outcome Base.Stream Layout.Syntax Gen.Funs Gen.ReadTail Layout.Sem Layout.Rows
  Model.Ubjson Model.Start Model.Json Model.Parse Model.Reader Proofs.ReadProof.
Import ListNotations.
Notation length := (@List.length _) (only parsing).

Ltac ev_term x := let v := eval vm_compute in x in progress change x with v.

(* ---- skip_frames ---- *)
Definition read_skip_src (o : opts) (raw_len : N) (s : pstate) (bs : list byte) : outcome (pstate * list byte) :=
  if o_skip o then
    match lookup_size (ps_sizes s) skip_size_event with
    | None => Panic 301
    | Some esz =>
        let end_offset := skip_end_offset esz in
        if skip_refused raw_len (ps_bytes_read s) end_offset then Err EInvalid
        else
          let skip := skip_amount raw_len (ps_bytes_read s) end_offset in
          Ok (add_bytes_read s skip, drop_upto skip bs)
    end
  else Ok (s, bs).

Theorem read_skip_from_source o raw_len s bs : read_skip o raw_len s bs = read_skip_src o raw_len s bs.
Proof. unfold read_skip, read_skip_src, skip_size_event, skip_end_offset, skip_refused, skip_amount. reflexivity. Qed.

(* ---- the event loop: condition and break ---- *)
Definition event_loop_step_src (rec : pstate -> list byte -> outcome (pstate * list byte)) (raw_len : N) (s : pstate) (bs : list byte)
  : outcome (pstate * list byte) :=
  if loop_continues raw_len (ps_bytes_read s) then
    match parse_event s bs with
    | Ok (code, s', r) => if N.eqb code loop_break_event then Ok (s', r) else rec s' r
    | Err e => Err e | Panic p => Panic p | Fuel => Fuel
    end
  else Ok (s, bs).

Theorem event_loop_from_source f raw_len s bs :
  event_loop (S f) raw_len s bs = event_loop_step_src (event_loop f raw_len) raw_len s bs.
Proof. cbn [event_loop]. unfold event_loop_step_src, loop_continues, loop_break_event. reflexivity. Qed.

(* ---- the final frame_close ---- *)
Definition final_close_src (s : pstate) : pstate :=
  if vlt (ver s) (fst final_close_lt) (snd final_close_lt) then frame_close s else s.

Theorem final_close_from_source s : (if vlt (ver s) 3 0 then frame_close s else s) = final_close_src s.
Proof. unfold final_close_src. ev_term final_close_lt. cbn [fst snd]. reflexivity. Qed.

(* ---- the duplicate Game End ---- *)
Definition read_dup_src (raw_len : N) (s : pstate) (bs : list byte) : outcome (pstate * list byte) :=
  if dup_present raw_len (ps_bytes_read s) then
    let len := dup_len raw_len (ps_bytes_read s) in
    '(buf, bs) <- rd_exact_N len bs ;;
    if dup_is_game_end len (game_End_size (ver s)) (b2n (hd x00 buf))
    then Ok (set_quirk s, bs) else Ok (s, bs)
  else Ok (s, bs).

Theorem read_dup_from_source raw_len s bs : read_dup raw_len s bs = read_dup_src raw_len s bs.
Proof. unfold read_dup, read_dup_src, dup_present, dup_len, dup_is_game_end. reflexivity. Qed.

(* ---- the metadata dispatch ---- *)
Definition read_tail_src (o : opts) (bs0 : list byte) (s : pstate) (bs : list byte) : outcome (game * list byte) :=
  '(b, bs) <- rd_u8 bs ;;
  '(s, bs) <-
     (if N.eqb b meta_present_byte then
        '(s, bs) <- parse_metadata s bs ;;
        '(_, bs) <- expect_bytes (map n2b meta_close_bytes) bs ;;
        Ok (s, bs)
      else if N.eqb b meta_absent_byte then Ok (s, bs)
      else Err EInvalid) ;;
  Ok (game_of_state s (if o_hash o then Some (length bs0 - length bs)%nat else None), bs).

Theorem read_tail_from_source o bs0 s bs : read_tail o bs0 s bs = read_tail_src o bs0 s bs.
Proof.
  unfold read_tail, read_tail_src.
  ev_term meta_present_byte. ev_term meta_absent_byte. ev_term (map n2b meta_close_bytes).
  reflexivity.
Qed.

Theorem meta_key_from_source : sig_meta = map n2b meta_key_bytes.
Proof. vm_compute. reflexivity. Qed.

(* ---- all of read() ---- *)
Definition slp_read_src (o : opts) (bs0 : list byte) : outcome (game * list byte) :=
  '(raw_len, bs) <- parse_header bs0 ;;
  '(s, bs) <- parse_start bs ;;
  '(s, bs) <- read_skip_src o raw_len s bs ;;
  '(s, bs) <- event_loop (S (length bs)) raw_len s bs ;;
  let s := final_close_src s in
  '(s, bs) <- read_dup_src raw_len s bs ;;
  read_tail_src o bs0 s bs.

Lemma bind_ext2 {A B} (x : outcome A) (f h : A -> outcome B) : (forall a, f a = h a) -> bind x f = bind x h.
Proof. intro H. destruct x; cbn [bind]; auto. Qed.

Theorem slp_read_from_source o bs0 : slp_read o bs0 = slp_read_src o bs0.
Proof.
  rewrite slp_read_eq. unfold slp_read_src.
  apply bind_ext2; intros [raw_len bs].
  apply bind_ext2; intros [s bs1].
  rewrite read_skip_from_source.
  apply bind_ext2; intros [s2 bs2].
  apply bind_ext2; intros [s3 bs3].
  cbv zeta. rewrite final_close_from_source, read_dup_from_source.
  apply bind_ext2; intros [s4 bs4].
  apply read_tail_from_source.
Qed.

Print Assumptions read_skip_from_source.
Print Assumptions event_loop_from_source.
Print Assumptions final_close_from_source.
Print Assumptions read_dup_from_source.
Print Assumptions read_tail_from_source.
Print Assumptions meta_key_from_source.
Print Assumptions slp_read_from_source.
