(* Concrete well-formed replays: the hypotheses of the read/write theorems are satisfiable (non-vacuity),
   in each framing regime, with rollbacks, absent characters, items, gecko blocks, doubled end, metadata. *)
From Coq Require Import List Arith NArith ZArith Bool String.
From Coq.Strings Require Import Byte.
From Peppi Require Import Base.Bytes Base.Outcome Layout.Syntax Gen.Funs Layout.Sem Layout.Rows
  Model.Ubjson Model.Start Model.Parse Model.Reader Model.Writer Model.Recorder.
Import ListNotations.

(* a 320-byte Game Start block: version bytes, everything else zero (four Human players, character 0) *)
Definition ex_start (M m : N) : list byte := [n2b M; n2b m; x00; x00] ++ repeat x00 316.

Definition ex_frame (v : version) (id : Z) (present : list bool) (nitems : nat) : aframe :=
  let L := layout_of v in
  {| af_id := id;
     af_start := if vgte v 2 2 then repeat x01 (sz_start L) else [];
     af_slots := map (fun b : bool => if b then Some (repeat x02 (sz_pre L), repeat x03 (sz_post L)) else None) present;
     af_items := if vgte v 3 0 then repeat (repeat x04 (sz_item L)) nitems else [];
     af_end := if vgte v 3 0 then repeat x05 (sz_end L) else [] |}.

Definition ex_end (v : version) : list byte := repeat x02 (N.to_nat (game_End_size v)).   (* method 2 = Game *)

Definition ex_meta : utree := [([x61], UInt 4294967295); ([x62], UMap [([x63], UStr [x64; x65])])].

Definition ex_replay (M m : N) (gecko : option gecko_t) (e : bool -> aend) (meta : option utree) (ids : list (Z * list bool * nat)) : replay :=
  let v := (M, m, 0%N) in
  {| r_start := ex_start M m; r_gecko := gecko;
     r_frames := map (fun x : Z * list bool * nat => ex_frame v (fst (fst x)) (snd (fst x)) (snd x)) ids;
     r_end := e true; r_meta := meta |}.

(* >= 3.0, with a rollback (frame -122 twice), an absent character, items, gecko blocks (2 blocks, 700 bytes used),
   doubled Game End, metadata *)
Definition ex_r37 : replay :=
  ex_replay 3 7 (Some {| gk_bytes := repeat x07 1024; gk_actual := 700 |})
            (fun _ => TwoEnds (ex_end (3, 7, 0)%N)) (Some ex_meta)
            [((-123)%Z, [true; true; true; true], 0%nat); ((-122)%Z, [true; false; true; true], 2%nat);
             ((-122)%Z, [true; true; true; false], 1%nat)].
(* 2.2 <= v < 3.0: Frame Start only; no Game End, no metadata *)
Definition ex_r25 : replay :=
  ex_replay 2 5 None (fun _ => NoEnd) None
            [((-123)%Z, [true; true; true; true], 0%nat); ((-123)%Z, [false; true; true; true], 0%nat)].
(* < 2.2: no Frame Start / End; consecutive ids; a character absent from a frame *)
Definition ex_r10 : replay :=
  ex_replay 1 0 None (fun _ => OneEnd (ex_end (1, 0, 0)%N)) (Some ex_meta)
            [((-123)%Z, [true; true; true; true], 0%nat); ((-122)%Z, [true; false; true; true], 0%nat)].

Lemma ex_r37_wf : wf_replay ex_r37 = true /\ res_is_ok (game_start (r_start ex_r37)) = true /\ finished ex_r37 = true.
Proof. vm_compute. repeat split; reflexivity. Qed.
Lemma ex_r25_wf : wf_replay ex_r25 = true /\ res_is_ok (game_start (r_start ex_r25)) = true.
Proof. vm_compute. repeat split; reflexivity. Qed.
Lemma ex_r10_wf : wf_replay ex_r10 = true /\ res_is_ok (game_start (r_start ex_r10)) = true /\ finished ex_r10 = true.
Proof. vm_compute. repeat split; reflexivity. Qed.
