(* C07 (.slp part): truncation.  A successful one-shot read is stable under appended input (the appended bytes
   stay unread), hence a stream that is read completely has no proper prefix that reads successfully; with
   totality (Totality.slp_read_safe) every proper prefix of the canonical byte stream of a well-formed replay
   is rejected with an error -- never a game built from partial data, never a panic -- with and without the
   skip-frames option. *)
From Coq Require Import List Arith NArith ZArith Lia Bool String ZifyBool ZifyN ZifyNat.
From Coq.Strings Require Import Byte.
From Peppi Require Import Base.Bytes Base.Outcome Base.Stream Layout.Syntax Gen.Funs Layout.Sem Layout.Rows
  Model.Ubjson Model.Start Model.Json Model.Parse Model.Reader Model.Writer Model.Recorder
  Proofs.Framing Proofs.FrameStep Proofs.GeckoProof Proofs.StartFacts Proofs.TableFacts Proofs.UbjsonProof
  Proofs.Totality Proofs.ReadProof.
Import ListNotations.
Notation length := (@List.length _) (only parsing).

(* ------------------------------------------------------------------------------------------------ *)
(* 1. extension stability of the stream parsers (Stream.extends)                                    *)
(* ------------------------------------------------------------------------------------------------ *)

Lemma rd_u8_extends : extends rd_u8.
Proof.
  intros bs ext a r H. destruct bs as [|b bs']; [discriminate H|].
  cbn [rd_u8] in H. apply ok_inj in H. injection H as <- <-. reflexivity.
Qed.

Lemma rd_be_extends w : extends (rd_be w).
Proof. unfold rd_be. apply pbind_extends; [apply rd_exact_extends | intro a; apply ret_extends]. Qed.

Lemma expect_bytes_extends e : extends (expect_bytes e).
Proof.
  unfold expect_bytes. apply pbind_extends; [apply rd_exact_extends|].
  intro b. destruct (list_byte_eqb e b); [apply ret_extends | apply fail_extends].
Qed.

Lemma parse_header_extends : extends parse_header.
Proof. unfold parse_header. apply pbind_extends; [apply expect_bytes_extends | intros _; apply rd_be_extends]. Qed.

Lemma parse_payloads_extends : extends parse_payloads.
Proof.
  unfold parse_payloads. apply pbind_extends; [apply rd_u8_extends|].
  intro code. destruct (negb (N.eqb code Event_Payloads)); [apply fail_extends|].
  apply pbind_extends; [apply rd_u8_extends|].
  intro size. destruct (negb (N.eqb (size mod 3) 1)); [apply fail_extends|].
  apply pbind_extends; [apply rd_exact_extends|].
  intros buf bs ext a r. cbv beta.
  destruct (table_entries _ buf []) as [sizes| | |]; try (intro H; discriminate H).
  destruct (lookup_size sizes Event_GameStart); [|intro H; discriminate H].
  destruct (lookup_size sizes Event_GameEnd); [|intro H; discriminate H].
  intro H. apply ok_inj in H. injection H as <- <-. reflexivity.
Qed.

Lemma parse_game_start_extends sizes br : extends (parse_game_start sizes br).
Proof.
  unfold parse_game_start. apply pbind_extends; [apply rd_u8_extends|].
  intro code. destruct (lookup_size sizes code) as [size|]; [|apply fail_extends].
  apply pbind_extends; [apply rd_exact_extends|].
  intro buf. destruct (N.eqb code Event_GameStart); [|apply fail_extends].
  destruct (game_start buf); [apply ret_extends | apply fail_extends | apply fail_extends].
Qed.

Lemma parse_start_extends : extends parse_start.
Proof.
  unfold parse_start. apply pbind_extends; [apply parse_payloads_extends|].
  intros [br sizes]. apply pbind_extends; [apply parse_game_start_extends|].
  intros [br2 st]. cbv zeta. apply ret_extends.
Qed.

Lemma parse_event_extends s : extends (parse_event s).
Proof.
  unfold parse_event. apply pbind_extends; [apply rd_u8_extends|].
  intro code. destruct (lookup_size (ps_sizes s) code) as [size|]; [|apply fail_extends].
  apply pbind_extends; [apply rd_exact_extends|].
  intros buf bs ext a r. cbv beta.
  destruct (handle_event code buf s) as [[c' s']| | |]; try (intro H; discriminate H).
  intro H. apply ok_inj in H. injection H as <- <-. reflexivity.
Qed.

Lemma read_map_extends : extends read_map.
Proof.
  intros bs ext m r. unfold read_map.
  destruct (UBJSON_MAX_DEPTH <? 1)%N; [intro H; discriminate H|].
  intro H. apply (entries_ext _ (S (length (bs ++ ext))) _ _ _ _ _ ext) in H; [exact H|].
  rewrite app_length. lia.
Qed.

Lemma parse_metadata_extends s : extends (parse_metadata s).
Proof.
  unfold parse_metadata. apply pbind_extends; [apply expect_bytes_extends|].
  intros _ bs ext a r. cbv beta.
  destruct (read_map bs) as [[m r0]| | |] eqn:E; try (intro H; discriminate H).
  rewrite (read_map_extends _ ext _ _ E).
  intro H. apply ok_inj in H. injection H as <- <-. reflexivity.
Qed.

(* ------------------------------------------------------------------------------------------------ *)
(* 2. the event loop: a successful run is stable under more fuel and appended input                 *)
(* ------------------------------------------------------------------------------------------------ *)

Lemma event_loop_ext : forall f f' raw_len s bs s' rest suf,
  (f <= f')%nat -> event_loop f raw_len s bs = Ok (s', rest) ->
  event_loop f' raw_len s (bs ++ suf) = Ok (s', rest ++ suf).
Proof.
  induction f as [|f IH]; intros f' raw_len s bs s' rest suf Hle; [intro H; discriminate H|].
  destruct f' as [|f']; [lia|].
  assert (Hle' : (f <= f')%nat) by lia.
  cbn [event_loop].
  destruct (N.eqb raw_len 0 || (ps_bytes_read s <? raw_len)%N).
  - destruct (parse_event s bs) as [[[c s1] r]| | |] eqn:E; try (intro H; discriminate H).
    rewrite (parse_event_extends s _ suf _ _ E).
    destruct (N.eqb c Event_GameEnd).
    + intro H. apply ok_inj in H. injection H as <- <-. reflexivity.
    + apply IH. exact Hle'.
  - intro H. apply ok_inj in H. injection H as <- <-. reflexivity.
Qed.

Corollary event_loop_fuel_mono f f' raw_len s bs x :
  (f <= f')%nat -> event_loop f raw_len s bs = Ok x -> event_loop f' raw_len s bs = Ok x.
Proof.
  destruct x as [s' rest]. intros Hle H.
  pose proof (event_loop_ext f f' raw_len s bs s' rest [] Hle H) as K.
  rewrite !app_nil_r in K. exact K.
Qed.

(* ------------------------------------------------------------------------------------------------ *)
(* 3. the pieces of slp_read                                                                        *)
(* ------------------------------------------------------------------------------------------------ *)

(* the skip step is not extension-stable by itself (drop_upto returns [] on a short input), but when it
   returns [] the event loop that follows fails: bytes_read < raw_len, and parse_event on [] is an error *)
Lemma read_skip_ext o raw_len s bs s2 bs3 suf x :
  read_skip o raw_len s bs = Ok (s2, bs3) ->
  event_loop (S (length bs3)) raw_len s2 bs3 = Ok x ->
  read_skip o raw_len s (bs ++ suf) = Ok (s2, bs3 ++ suf).
Proof.
  unfold read_skip. destruct (o_skip o).
  2:{ intros H _. apply ok_inj in H. injection H as <- <-. reflexivity. }
  destruct (lookup_size (ps_sizes s) Event_GameEnd) as [esz|]; [|intro H; discriminate H].
  cbv zeta.
  destruct (N.eqb raw_len 0 || (raw_len <? ps_bytes_read s + (1 + esz))%N) eqn:C; [intro H; discriminate H|].
  apply orb_false_iff in C as [C1 C2]. apply N.eqb_neq in C1. apply N.ltb_ge in C2.
  set (skip := (raw_len - ps_bytes_read s - (1 + esz))%N).
  intro H. apply ok_inj in H. injection H as <- <-.
  unfold drop_upto.
  destruct (N.leb_spec (N.of_nat (length bs)) skip) as [Hshort|Hlong].
  - (* the skip reaches the end of the input: the loop cannot succeed *)
    intro L. exfalso. cbn [List.length event_loop] in L.
    assert (Hlt : (ps_bytes_read (add_bytes_read s skip) <? raw_len)%N = true).
    { cbn [add_bytes_read ps_bytes_read]. apply N.ltb_lt. subst skip. lia. }
    rewrite Hlt, orb_true_r in L.
    unfold parse_event, pbind in L. cbn [rd_u8] in L. discriminate L.
  - intros _.
    destruct (N.leb_spec (N.of_nat (length (bs ++ suf))) skip) as [Hshort'|_].
    { rewrite app_length in Hshort'. lia. }
    rewrite skipn_app_le by lia. reflexivity.
Qed.

Lemma rd_exact_N_extends n : extends (rd_exact_N n).
Proof.
  intros bs ext a r. unfold rd_exact_N.
  destruct (N.ltb_spec (N.of_nat (length bs)) n) as [Hlt|Hge]; [intro H; discriminate H|].
  destruct (N.ltb_spec (N.of_nat (length (bs ++ ext))) n) as [Hlt'|_].
  { rewrite app_length in Hlt'. lia. }
  apply rd_exact_extends.
Qed.

Lemma read_dup_extends raw_len s : extends (read_dup raw_len s).
Proof.
  intros bs ext a r. unfold read_dup.
  destruct (ps_bytes_read s <? raw_len)%N.
  - cbv zeta.
    destruct (rd_exact_N (raw_len - ps_bytes_read s) bs) as [[buf r0]| | |] eqn:E; cbn [bind];
      try (intro H; discriminate H).
    rewrite (rd_exact_N_extends _ _ ext _ _ E). cbn [bind].
    destruct (_ && _); intro H; apply ok_inj in H; injection H as <- <-; reflexivity.
  - intro H. apply ok_inj in H. injection H as <- <-. reflexivity.
Qed.

(* the tail records how much of the original input was consumed: unchanged when both the original input and
   the rest grow by the same suffix, provided the rest is no longer than the original input *)
Lemma read_tail_ext o bs0 s bs g rest suf :
  read_tail o bs0 s bs = Ok (g, rest) -> (length rest <= length bs0)%nat ->
  read_tail o (bs0 ++ suf) s (bs ++ suf) = Ok (g, rest ++ suf).
Proof.
  unfold read_tail. intros H Hlen.
  destruct (rd_u8 bs) as [[b bs1]| | |] eqn:E1; cbn [bind] in H; try discriminate H.
  rewrite (rd_u8_extends _ suf _ _ E1). cbn [bind].
  match type of H with bind ?X _ = _ =>
    assert (K : forall s7 bs7, X = Ok (s7, bs7) ->
      (if N.eqb b 85
       then '(s0, bs2) <- parse_metadata s (bs1 ++ suf);; '(_, bs3) <- expect_bytes [x7d] bs2;; Ok (s0, bs3)
       else if N.eqb b 125 then Ok (s, bs1 ++ suf) else Err EInvalid) = Ok (s7, bs7 ++ suf)) end.
  { intros s7 bs7. destruct (N.eqb b 85).
    - destruct (parse_metadata s bs1) as [[s6 r6]| | |] eqn:E2; cbn [bind]; try (intro K; discriminate K).
      rewrite (parse_metadata_extends s _ suf _ _ E2). cbn [bind].
      destruct (expect_bytes [x7d] r6) as [[u r7]| | |] eqn:E3; cbn [bind]; try (intro K; discriminate K).
      rewrite (expect_bytes_extends _ _ suf _ _ E3). cbn [bind].
      intro K. apply ok_inj in K. injection K as <- <-. reflexivity.
    - destruct (N.eqb b 125); [|intro K; discriminate K].
      intro K. apply ok_inj in K. injection K as <- <-. reflexivity. }
  match type of H with bind ?X _ = _ => destruct X as [[s7 bs7]| | |] eqn:E4 end; cbn [bind] in H; try discriminate H.
  rewrite (K s7 bs7 eq_refl). cbn [bind].
  apply ok_inj in H. injection H as <- <-.
  rewrite !app_length.
  replace (length bs0 + length suf - (length bs7 + length suf))%nat with (length bs0 - length bs7)%nat by lia.
  reflexivity.
Qed.

(* ------------------------------------------------------------------------------------------------ *)
(* 4. the one-shot reader                                                                           *)
(* ------------------------------------------------------------------------------------------------ *)

(* extension stability: a successful read is unchanged by appending bytes, except that the appended bytes
   stay unread *)
Theorem slp_read_extends o p g rest suf :
  slp_read o p = Ok (g, rest) -> slp_read o (p ++ suf) = Ok (g, rest ++ suf).
Proof.
  intro H.
  assert (Hlen : (length rest <= length p)%nat).
  { apply slp_read_consumes in H as [used ->]. rewrite app_length. lia. }
  rewrite slp_read_eq in H. rewrite slp_read_eq.
  destruct (parse_header p) as [[raw_len bs1]| | |] eqn:E1; cbn [bind] in H; try discriminate H.
  rewrite (parse_header_extends _ suf _ _ E1). cbn [bind].
  destruct (parse_start bs1) as [[s1 bs2]| | |] eqn:E2; cbn [bind] in H; try discriminate H.
  rewrite (parse_start_extends _ suf _ _ E2). cbn [bind].
  destruct (read_skip o raw_len s1 bs2) as [[s2 bs3]| | |] eqn:E3; cbn [bind] in H; try discriminate H.
  destruct (event_loop (S (length bs3)) raw_len s2 bs3) as [[s3 bs4]| | |] eqn:E4; cbn [bind] in H; try discriminate H.
  rewrite (read_skip_ext _ _ _ _ _ _ suf _ E3 E4). cbn [bind].
  rewrite (event_loop_ext (S (length bs3)) (S (length (bs3 ++ suf))) raw_len s2 bs3 s3 bs4 suf);
    [| rewrite app_length; lia | exact E4].
  cbn [bind]. cbv zeta. cbv zeta in H.
  destruct (read_dup raw_len (if vlt (ver s3) 3 0 then frame_close s3 else s3) bs4) as [[s5 bs5]| | |] eqn:E5;
    cbn [bind] in H; try discriminate H.
  rewrite (read_dup_extends _ _ _ suf _ _ E5). cbn [bind].
  apply read_tail_ext; assumption.
Qed.

(* hence: if reading a stream consumes all of it, no proper prefix can be read successfully *)
Theorem no_partial_ok o whole g p suf :
  slp_read o whole = Ok (g, []) -> whole = p ++ suf -> suf <> [] ->
  forall g' rest', slp_read o p <> Ok (g', rest').
Proof.
  intros Hw -> Hsuf g' rest' Hp.
  apply (slp_read_extends _ _ _ _ suf) in Hp. rewrite Hp in Hw.
  apply ok_inj in Hw. injection Hw as _ Hnil.
  apply app_eq_nil in Hnil as [_ Hnil]. exact (Hsuf Hnil).
Qed.

(* a read that consumed everything and is not Ok on a proper prefix is an error there (totality) *)
Lemma truncated_err o whole g p suf :
  slp_read o whole = Ok (g, []) -> whole = p ++ suf -> suf <> [] -> exists e, slp_read o p = Err e.
Proof.
  intros Hw Hsplit Hsuf.
  pose proof (slp_read_safe o p) as Hs.
  pose proof (no_partial_ok o whole g p suf Hw Hsplit Hsuf) as Hn.
  destruct (slp_read o p) as [[g' rest']|e| |]; cbn [safe] in Hs.
  - exfalso. exact (Hn g' rest' eq_refl).
  - exists e. reflexivity.
  - contradiction.
  - contradiction.
Qed.

(* ------------------------------------------------------------------------------------------------ *)
(* 5. C07: every proper prefix of the byte stream of a well-formed replay is rejected with an error  *)
(* ------------------------------------------------------------------------------------------------ *)

Theorem truncated_full r st h p suf :
  wf_replay r = true -> game_start (r_start r) = ROk st -> emit r = p ++ suf -> suf <> [] ->
  exists e, slp_read {| o_skip := false; o_hash := h |} p = Err e.
Proof.
  intros Hwf Hst Hsplit Hsuf.
  eapply truncated_err; [apply (read_full r st Hwf Hst h) | exact Hsplit | exact Hsuf].
Qed.

Theorem truncated_skip r st h p suf :
  wf_replay r = true -> game_start (r_start r) = ROk st -> finished r = true -> emit r = p ++ suf -> suf <> [] ->
  exists e, slp_read {| o_skip := true; o_hash := h |} p = Err e.
Proof.
  intros Hwf Hst Hfin Hsplit Hsuf.
  eapply truncated_err; [apply (read_skipping r st Hwf Hst h Hfin) | exact Hsplit | exact Hsuf].
Qed.

Print Assumptions event_loop_ext.
Print Assumptions slp_read_extends.
Print Assumptions no_partial_ok.
Print Assumptions truncated_full.
Print Assumptions truncated_skip.
