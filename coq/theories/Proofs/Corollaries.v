(* Corollaries of the read theorems: C10 (skip-frames), C11 (hash coverage), C16 (metadata presence, JSON copy). *)
From Coq Require Import List Arith NArith ZArith Lia Bool String ZifyBool ZifyN ZifyNat.
From Coq.Strings Require Import Byte.
From Peppi Require Import Base.Bytes Base.Outcome Base.Stream Layout.Syntax Gen.Funs Layout.Sem Layout.Rows
  Model.Ubjson Model.Start Model.Json Model.Parse Model.Reader Model.Writer Model.Recorder
  Proofs.Framing Proofs.FrameStep Proofs.StartFacts Proofs.TableFacts Proofs.UbjsonProof Proofs.ReadProof.
Import ListNotations.
Notation length := (@List.length _) (only parsing).

(* C10 *)
Lemma c10_skip_vs_full r st h h' :
  wf_replay r = true -> game_start (r_start r) = ROk st -> finished r = true ->
  exists gf gs,
    slp_read {| o_skip := false; o_hash := h |} (emit r) = Ok (gf, []) /\
    slp_read {| o_skip := true; o_hash := h' |} (emit r) = Ok (gs, []) /\
    g_start gs = g_start gf /\ g_end gs = g_end gf /\ g_meta gs = g_meta gf /\
    g_frames gs = frames_new (st_version (g_start gf)) (port_occupancy (g_start gf)) /\
    f_ids (g_frames gs) = [].
Proof.
  intros Hwf Hst Hfin.
  exists (game_of {| o_skip := false; o_hash := h |} r st (end_of r)), (game_of {| o_skip := true; o_hash := h' |} r st (end_of r)).
  split; [apply read_full; assumption|]. split; [apply read_skipping; assumption|].
  unfold game_of. cbn [o_skip g_start g_end g_meta g_frames]. rewrite (Hver r st Hst). repeat split; reflexivity.
Qed.

(* C11: the hashed prefix is the whole file, with and without skipping; no hash when not requested *)
Lemma c11_hash_covers_file r st (sk h : bool) :
  wf_replay r = true -> game_start (r_start r) = ROk st -> (sk = true -> finished r = true) ->
  exists g, slp_read {| o_skip := sk; o_hash := h |} (emit r) = Ok (g, []) /\
            g_hashed g = if h then Some (length (emit r)) else None.
Proof.
  intros Hwf Hst Hfin. destruct sk.
  - exists (game_of {| o_skip := true; o_hash := h |} r st (end_of r)). split; [apply read_skipping; auto|]. reflexivity.
  - exists (game_of {| o_skip := false; o_hash := h |} r st (end_of r)). split; [apply read_full; auto|]. reflexivity.
Qed.

(* C16: metadata presence and content *)
Lemma c16_meta_preserved r st (sk h : bool) :
  wf_replay r = true -> game_start (r_start r) = ROk st -> (sk = true -> finished r = true) ->
  exists g, slp_read {| o_skip := sk; o_hash := h |} (emit r) = Ok (g, []) /\ g_meta g = r_meta r.
Proof.
  intros Hwf Hst Hfin. destruct sk.
  - exists (game_of {| o_skip := true; o_hash := h |} r st (end_of r)). split; [apply read_skipping; auto|]. reflexivity.
  - exists (game_of {| o_skip := false; o_hash := h |} r st (end_of r)). split; [apply read_full; auto|]. reflexivity.
Qed.

(* C16: the JSON copy determines the tree, keys in order *)
Fixpoint uval_of_jv (j : jv) : option uval :=
  match j with
  | JStr s => Some (UStr s)
  | JInt z => Some (UInt (Z.to_N (z mod 4294967296)%Z))
  | JObj l =>
      match (fix go (l : list (list byte * jv)) : option utree :=
               match l with
               | [] => Some []
               | (k, v) :: r => match uval_of_jv v, go r with Some a, Some b => Some ((k, a) :: b) | _, _ => None end
               end) l with
      | Some m => Some (UMap m)
      | None => None
      end
  | _ => None
  end.

Lemma sint4_inv n : (n < 4294967296)%N -> Z.to_N (sint 4 n mod 4294967296)%Z = n.
Proof.
  intro H. unfold sint. change (256 ^ N.of_nat 4)%N with 4294967296%N. change (4294967296 / 2)%N with 2147483648%N.
  destruct (N.ltb_spec n 2147483648).
  - rewrite Z.mod_small by lia. lia.
  - replace ((Z.of_N n - Z.of_N 4294967296) mod 4294967296)%Z with (Z.of_N n).
    + lia.
    + symmetry. rewrite <- (Z.mod_small (Z.of_N n) 4294967296) at 2 by lia.
      replace (Z.of_N n - Z.of_N 4294967296)%Z with (Z.of_N n + (-1) * 4294967296)%Z by lia.
      apply Z.mod_add. lia.
Qed.

Lemma c16_json_roundtrip : forall v, wf_val v -> uval_of_jv (jv_of_uval v) = Some v.
Proof.
  apply (wf_val_ind2 (fun v _ => uval_of_jv (jv_of_uval v) = Some v)
                     (fun m _ => uval_of_jv (jv_of_uval (UMap m)) = Some (UMap m))).
  - intros s _. reflexivity.
  - intros n Hn. cbn [jv_of_uval uval_of_jv]. rewrite sint4_inv by exact Hn. reflexivity.
  - intros m _ IH. exact IH.
  - reflexivity.
  - intros k v r _ _ IHv _ IHr _.
    cbn [jv_of_uval uval_of_jv] in *. rewrite IHv.
    match type of IHr with match ?x with _ => _ end = _ => destruct x as [m'|] eqn:E; [|discriminate] end.
    injection IHr as ->. reflexivity.
Qed.
