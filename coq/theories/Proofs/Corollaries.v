(* Corollaries of the read theorems: C10 (skip-frames), C11 (hash coverage), C16 (metadata presence, JSON copy). *)
From Coq Require Import List Arith NArith ZArith Lia Bool String ZifyBool ZifyN ZifyNat.
From Coq.Strings Require Import Byte.
From Peppi Require Import Base.Bytes Base.Outcome Base.Stream Layout.Syntax Gen.Funs Layout.Sem Layout.Rows
  Model.Ubjson Model.Start Model.Json Model.Parse Model.Reader Model.Writer Model.Recorder
  Proofs.Framing Proofs.FrameStep Proofs.StartFacts Proofs.TableFacts Proofs.UbjsonProof Proofs.ReadProof.
Import ListNotations.
Notation length := (@List.length _) (only parsing).

(* C10 *)
Lemma c10_skip_vs_full r st h h' :
  wf_replay r = true -> game_start (r_start r) = ROk st -> finished r = true ->
  exists gf gs,
    slp_read {| o_skip := false; o_hash := h |} (emit r) = Ok (gf, []) /\
    slp_read {| o_skip := true; o_hash := h' |} (emit r) = Ok (gs, []) /\
    g_start gs = g_start gf /\ g_end gs = g_end gf /\ g_meta gs = g_meta gf /\
    g_frames gs = frames_new (st_version (g_start gf)) (port_occupancy (g_start gf)) /\
    f_ids (g_frames gs) = [].
Proof.
  intros Hwf Hst Hfin.
  exists (game_of {| o_skip := false; o_hash := h |} r st (end_of r)), (game_of {| o_skip := true; o_hash := h' |} r st (end_of r)).
  split; [apply read_full; assumption|]. split; [apply read_skipping; assumption|].
  unfold game_of. cbn [o_skip g_start g_end g_meta g_frames]. rewrite (Hver r st Hst). repeat split; reflexivity.
Qed.

(* C11: the hashed prefix is the whole file, with and without skipping; no hash when not requested *)
Lemma c11_hash_covers_file r st (sk h : bool) :
  wf_replay r = true -> game_start (r_start r) = ROk st -> (sk = true -> finished r = true) ->
  exists g, slp_read {| o_skip := sk; o_hash := h |} (emit r) = Ok (g, []) /\
            g_hashed g = if h then Some (length (emit r)) else None.
Proof.
  intros Hwf Hst Hfin. destruct sk.
  - exists (game_of {| o_skip := true; o_hash := h |} r st (end_of r)). split; [apply read_skipping; auto|]. reflexivity.
  - exists (game_of {| o_skip := false; o_hash := h |} r st (end_of r)). split; [apply read_full; auto|]. reflexivity.
Qed.

(* C16: metadata presence and content *)
Lemma c16_meta_preserved r st (sk h : bool) :
  wf_replay r = true -> game_start (r_start r) = ROk st -> (sk = true -> finished r = true) ->
  exists g, slp_read {| o_skip := sk; o_hash := h |} (emit r) = Ok (g, []) /\ g_meta g = r_meta r.
Proof.
  intros Hwf Hst Hfin. destruct sk.
  - exists (game_of {| o_skip := true; o_hash := h |} r st (end_of r)). split; [apply read_skipping; auto|]. reflexivity.
  - exists (game_of {| o_skip := false; o_hash := h |} r st (end_of r)). split; [apply read_full; auto|]. reflexivity.
Qed.

(* C16: the JSON copy determines the tree, keys in order *)
Fixpoint uval_of_jv (j : jv) : option uval :=
  match j with
  | JStr s => Some (UStr s)
  | JInt z => Some (UInt (Z.to_N (z mod 4294967296)%Z))
  | JObj l =>
      match (fix go (l : list (list byte * jv)) : option utree :=
               match l with
               | [] => Some []
               | (k, v) :: r => match uval_of_jv v, go r with Some a, Some b => Some ((k, a) :: b) | _, _ => None end
               end) l with
      | Some m => Some (UMap m)
      | None => None
      end
  | _ => None
  end.

Lemma sint4_inv n : (n < 4294967296)%N -> Z.to_N (sint 4 n mod 4294967296)%Z = n.
Proof.
  intro H. unfold sint. change (256 ^ N.of_nat 4)%N with 4294967296%N. change (4294967296 / 2)%N with 2147483648%N.
  destruct (N.ltb_spec n 2147483648).
  - rewrite Z.mod_small by lia. lia.
  - replace ((Z.of_N n - Z.of_N 4294967296) mod 4294967296)%Z with (Z.of_N n).
    + lia.
    + symmetry. rewrite <- (Z.mod_small (Z.of_N n) 4294967296) at 2 by lia.
      replace (Z.of_N n - Z.of_N 4294967296)%Z with (Z.of_N n + (-1) * 4294967296)%Z by lia.
      apply Z.mod_add. lia.
Qed.

Lemma c16_json_roundtrip : forall v, wf_val v -> uval_of_jv (jv_of_uval v) = Some v.
Proof.
  apply (wf_val_ind2 (fun v _ => uval_of_jv (jv_of_uval v) = Some v)
                     (fun m _ => uval_of_jv (jv_of_uval (UMap m)) = Some (UMap m))).
  - intros s _. reflexivity.
  - intros n Hn. cbn [jv_of_uval uval_of_jv]. rewrite sint4_inv by exact Hn. reflexivity.
  - intros m _ IH. exact IH.
  - reflexivity.
  - intros k v r _ _ IHv _ IHr _.
    cbn [jv_of_uval uval_of_jv] in *. rewrite IHv.
    match type of IHr with match ?x with _ => _ end = _ => destruct x as [m'|] eqn:E; [|discriminate] end.
    injection IHr as ->. reflexivity.
Qed.

(* ---- C01 / C17: the two halves put together ---- *)
From Peppi Require Import Proofs.WriteProof Proofs.Incremental.

Lemma c01_roundtrip r st h :
  wf_replay r = true -> game_start (r_start r) = ROk st ->
  exists g, slp_read {| o_skip := false; o_hash := h |} (emit r) = Ok (g, []) /\ slp_write g = Ok (emit r).
Proof.
  intros Hwf Hst. exists (game_of {| o_skip := false; o_hash := h |} r st (end_of r)). split.
  - apply read_full; assumption.
  - apply c01_write; assumption.
Qed.

(* C17 on canonical input: the written file declares the actual length of its raw element, re-reads to the same game,
   and writing that game again is a fixed point *)
Lemma c17_canonical r st h :
  wf_replay r = true -> game_start (r_start r) = ROk st ->
  let g := game_of {| o_skip := false; o_hash := h |} r st (end_of r) in
  slp_write g = Ok (emit r) /\
  parse_header (emit r) = Ok (nn (length (raw_of r)), raw_of r ++ emit_meta (r_meta r) ++ [x7d]) /\
  slp_read {| o_skip := false; o_hash := h |} (emit r) = Ok (g, []).
Proof.
  intros Hwf Hst g. destruct (wf_replay_inv r st Hwf Hst) as (_ & _ & _ & _ & _ & _ & _ & Hb).
  split; [apply c01_write; assumption|]. split; [|apply read_full; assumption].
  unfold emit. apply parse_header_emit. exact Hb.
Qed.

(* ---- C12: the one-shot reader is the incremental driver plus a fixed epilogue ---- *)
Lemma read_dup_inv raw s bs s' bs' : read_dup raw s bs = Ok (s', bs') -> s' = s \/ s' = set_quirk s.
Proof.
  unfold read_dup. destruct (ps_bytes_read s <? raw)%N.
  - destruct (rd_exact_N (raw - ps_bytes_read s) bs) as [[buf r]| | |]; cbn [bind]; try discriminate.
    destruct (_ && _); intro H; apply ok_inj in H; injection H as <- <-; auto.
  - intro H. apply ok_inj in H. injection H as <- <-. auto.
Qed.

Lemma read_tail_inv o bs0 s bs g rest : read_tail o bs0 s bs = Ok (g, rest) ->
  exists s' hh, g = game_of_state s' hh /\ (s' = s \/ exists m, s' = set_meta s m).
Proof.
  unfold read_tail. destruct (rd_u8 bs) as [[b r]| | |]; cbn [bind]; try discriminate.
  destruct (N.eqb b 85).
  - unfold parse_metadata, pbind. destruct (expect_bytes sig_meta r) as [[u r1]| | |]; cbn [bind]; try discriminate.
    destruct (read_map r1) as [[m r2]| | |]; cbn [bind]; try discriminate.
    destruct (expect_bytes [x7d] r2) as [[u2 r3]| | |]; cbn [bind]; try discriminate.
    intro H. apply ok_inj in H. injection H as <- <-. eexists _, _. split; [reflexivity|]. right. eexists. reflexivity.
  - destruct (N.eqb b 125); cbn [bind]; try discriminate.
    intro H. apply ok_inj in H. injection H as <- <-. eexists _, _. split; [reflexivity|]. left. reflexivity.
Qed.

Lemma c12_oneshot_is_driver bs g rest h :
  slp_read {| o_skip := false; o_hash := h |} bs = Ok (g, rest) ->
  exists raw_len bs1 s0 bs2 n s1 bs3,
    parse_header bs = Ok (raw_len, bs1) /\ parse_start bs1 = Ok (s0, bs2) /\ drive n s0 bs2 = Ok (s1, bs3) /\
    g_start g = ps_start s1 /\ g_end g = ps_end s1 /\ g_gecko g = ps_gecko s1 /\
    g_frames g = ps_frames (close_if s1).
Proof.
  rewrite slp_read_eq. intro H.
  destruct (parse_header bs) as [[raw_len bs1]| | |] eqn:Eh; cbn [bind] in H; try discriminate.
  destruct (parse_start bs1) as [[s0 bs2]| | |] eqn:Es; cbn [bind] in H; try discriminate.
  unfold read_skip in H. cbn [o_skip bind] in H.
  destruct (event_loop (S (length bs2)) raw_len s0 bs2) as [[s1 bs3]| | |] eqn:El; cbn [bind] in H; try discriminate.
  fold (close_if s1) in H.
  destruct (read_dup raw_len (close_if s1) bs3) as [[s2 bs4]| | |] eqn:Ed; cbn [bind] in H; try discriminate.
  apply event_loop_is_drive in El as [n Hn].
  apply read_dup_inv in Ed. apply read_tail_inv in H as (s3 & hh & -> & Hs3).
  exists raw_len, bs1, s0, bs2, n, s1, bs3. repeat split; try reflexivity; try exact Hn; try exact Es.
  all: unfold game_of_state; cbn [g_start g_end g_gecko g_frames];
    destruct (close_if_proj s1) as (C1 & C2 & C3 & C4 & C5 & C6 & C7 & C8 & C9 & C10);
    destruct Hs3 as [->|[m ->]]; destruct Ed as [->| ->]; cbn [set_meta set_quirk ps_start ps_end ps_gecko ps_frames]; congruence.
Qed.

(* ---- C02: the whole chain .slp -> game -> .slpp -> game -> .slp on a well-formed replay ---- *)
From Peppi Require Import Model.Slpp Proofs.SlppProof.

Lemma gecko_actual_small r st c :
  wf_replay r = true -> game_start (r_start r) = ROk st -> r_gecko r = Some c -> (gk_actual c < 4294967296)%N.
Proof.
  intros Hwf Hst Hg. destruct (wf_replay_inv r st Hwf Hst) as (_ & _ & _ & _ & _ & _ & _ & Hb).
  destruct (gecko_inv r st Hwf Hst c Hg) as (Hl & Hk & Hw).
  pose proof (raw_len r st Hwf Hst) as Hr. unfold gecko_len in Hr. rewrite Hg in Hr.
  unfold nn in Hb. lia.
Qed.

Lemma game_of_coherent r st h :
  wf_replay r = true -> game_start (r_start r) = ROk st ->
  coherent (game_of {| o_skip := false; o_hash := h |} r st (end_of r)).
Proof.
  intros Hwf Hst. unfold coherent, game_of. cbn [g_start g_end g_gecko o_skip]. repeat split.
  - destruct (game_start_fields _ _ Hst) as (Hb & _). rewrite Hb. exact Hst.
  - intros e He. unfold end_of in He. destruct (end_blk r) as [b|]; [|discriminate].
    destruct (game_end b) as [e'| |] eqn:Hg; try discriminate. injection He as <-.
    rewrite (game_end_bytes _ _ Hg). exact Hg.
  - intros k Hk. exact (gecko_actual_small r st k Hwf Hst Hk).
Qed.

Lemma c02_full_chain
  enc_peppi dec_peppi enc_meta dec_meta enc_start enc_end enc_frames dec_frames :
  (forall v h q, dec_peppi (enc_peppi v h q) = Some (v, h, q)) ->
  (forall m, dec_meta (enc_meta m) = Some m) ->
  (forall c v ports fr b, enc_frames c v ports fr = Ok b -> dec_frames v b = Ok fr) ->
  forall r st h c hash es,
    wf_replay r = true -> game_start (r_start r) = ROk st ->
    let g := game_of {| o_skip := false; o_hash := h |} r st (end_of r) in
    slpp_write enc_peppi enc_meta enc_start enc_end enc_frames c {| sg_game := g; sg_hash := hash |} = Ok es ->
    slp_read {| o_skip := false; o_hash := h |} (emit r) = Ok (g, []) /\
    exists g2, slpp_read dec_peppi dec_meta dec_frames false es = Ok {| sg_game := g2; sg_hash := hash |} /\
               slp_write g2 = Ok (emit r).
Proof.
  intros H1 H2 H3 r st h c hash es Hwf Hst g Hw.
  split; [apply read_full; assumption|].
  exists (strip_hash g). split.
  - apply (slpp_roundtrip enc_peppi dec_peppi enc_meta dec_meta enc_start enc_end enc_frames dec_frames H1 H2 H3 c
             {| sg_game := g; sg_hash := hash |} es).
    + apply game_of_coherent; assumption.
    + exact Hw.
  - change (slp_write (strip_hash g)) with (slp_write g). apply c01_write; assumption.
Qed.

(* ---- C11 end to end: any fragmentation of a well-formed file, full read: the hasher is fed the file, exactly ---- *)
From Peppi Require Import Model.Frag Proofs.FragProof.

Lemma read_full_frag r st sched :
  wf_replay r = true -> game_start (r_start r) = ROk st -> no_fault sched ->
  let data := emit r in
  let '(res, h') := run_frag (p_slp_read true (length data)) (mk_hreader data sched (Some [])) in
  res = Ok (game_of {| o_skip := false; o_hash := true |} r st (end_of r)) /\
  fs_data (hr_inner h') = [] /\ hr_hashed h' = Some data.
Proof.
  intros Hwf Hst Hnf data.
  pose proof (read_full r st Hwf Hst true) as Hflat. fold data in Hflat.
  pose proof (slp_read_frag_digest data sched _ _ Hnf Hflat) as H.
  destruct (run_frag (p_slp_read true (length data)) (mk_hreader data sched (Some []))) as [res h'].
  destruct H as (Hres & Hrest & used & Hu & Hh & _). rewrite app_nil_r in Hu. subst used.
  repeat split; assumption.
Qed.
