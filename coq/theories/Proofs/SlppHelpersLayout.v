(* The helpers of the .slpp reader: the arms of the hand model Model/Slpp.v [read_entries] for gecko_codes.raw, metadata.json,
   start.raw, end.raw and peppi.json, and the gecko_codes.raw entry of [slpp_write], restated THROUGH the constants and
   tables that tools/rust2coq.py regenerates from the text of src/io/peppi/de.rs (fn read_peppi_gecko_codes,
   fn read_peppi_metadata, fn read_peppi_start, fn read_peppi_end, the arms of fn read that call them and
   assert_current_version) and of src/io/peppi/ser.rs (the gecko_codes.raw block of fn write) -- Gen/SlppHelpers.v.
   assert_current_version itself is Gen/Funs.v [assert_current_version_ok] (already regenerated).

   If the source changes the length or the byte order of the actual_size prefix on either side, what a JSON null / object
   / other value becomes, the decoder of a raw entry, or drops the version check, the regenerated definitions change and
   these theorems no longer hold of the unchanged hand model. *)
From Coq Require Import List Arith NArith ZArith Lia Bool String.
From Coq.Strings Require Import Byte.
From Peppi Require Import Base.Bytes Base.Outcome Gen.Funs Gen.SlppHelpers Model.Ubjson Model.Start Model.Json Model.Parse
  Model.Reader Model.Slpp Proofs.SlppProof.
Import ListNotations.
Notation length := (@List.length _) (only parsing).
Local Open Scope string_scope.
Local Open Scope list_scope.

Transparent name_of kind_of.

(* ---- gecko_codes.raw: a u32 prefix, then the bytes ---- *)
Definition dec_size (little_endian : bool) (b : list byte) : N := if little_endian then be_dec (rev b) else be_dec b.
Definition enc_size (little_endian : bool) (n : N) : list byte :=
  let b := be_enc 4 (n mod 4294967296)%N in if little_endian then rev b else b.

(* the reader: read_exact of the prefix (an entry shorter than that is an I/O error), the rest with read_to_end *)
Theorem gecko_arm_from_source dp dm df skip p c r a : kind_of p = KGecko ->
  read_entries dp dm df skip ((p, c) :: r) a =
    if (length c <? slpp_gecko_size_len)%nat then Err EIo
    else read_entries dp dm df skip r
           (upd a (ra_start a) (ra_end a) (ra_meta a)
                (Some {| gk_bytes := skipn slpp_gecko_size_len c;
                         gk_actual := dec_size slpp_gecko_read_little_endian (firstn slpp_gecko_size_len c) |})
                (ra_frames a) (ra_peppi a)).
Proof. intro H. rewrite re_cons, H. reflexivity. Qed.

(* the writer: the prefix, then the bytes *)
Theorem gecko_write_from_source enc_peppi enc_meta enc_start enc_end enc_frames c g es k :
  slpp_write enc_peppi enc_meta enc_start enc_end enc_frames c g = Ok es -> g_gecko (sg_game g) = Some k ->
  In (name_of KGecko, enc_size slpp_gecko_write_little_endian (gk_actual k) ++ gk_bytes k) es.
Proof.
  unfold slpp_write. intros H Hk.
  destruct (negb (assert_max_version_ok (st_version (g_start (sg_game g))))); [discriminate|].
  destruct (enc_frames c _ _ _) as [fr| | |]; cbn [bind] in H; try discriminate.
  apply ok_inj in H. subst es. rewrite Hk.
  apply in_or_app. right. apply in_or_app. right. apply in_or_app. left. left. reflexivity.
Qed.

(* both sides use the same width and byte order *)
Theorem gecko_size_agrees n :
  length (enc_size slpp_gecko_write_little_endian n) = slpp_gecko_size_len /\
  dec_size slpp_gecko_read_little_endian (enc_size slpp_gecko_write_little_endian n) = (n mod 4294967296)%N.
Proof.
  unfold dec_size, enc_size, slpp_gecko_read_little_endian, slpp_gecko_write_little_endian, slpp_gecko_size_len.
  split; [rewrite rev_length; apply length_be_enc|].
  rewrite rev_involutive. apply be_dec_enc. apply N.mod_lt. discriminate.
Qed.

(* ---- metadata.json: null => None, an object => Some(map), anything else => an error ---- *)
Inductive mshape := MsNull | MsObject (m : utree) | MsOther (variant : string).
Fixpoint arm_of (tbl : list (string * meta_res)) (variant : string) : meta_res :=
  match tbl with
  | [] => MrErr                      (* the catch-all arm *)
  | (n, r) :: t => if String.eqb n variant then r else arm_of t variant
  end.
(* the result in the convention of the model's dec_meta: None = an error, Some None = no metadata *)
Definition meta_of_shape (tbl : list (string * meta_res)) (s : mshape) : option (option utree) :=
  match s with
  | MsNull => match arm_of tbl "Null" with MrNone => Some None | _ => None end
  | MsObject m => match arm_of tbl "Object" with MrSomeMap => Some (Some m) | MrNone => Some None | MrErr => None end
  | MsOther v => match arm_of tbl v with MrNone => Some None | _ => None end
  end.

Theorem meta_arms_from_source :
  meta_of_shape slpp_meta_arms MsNull = Some None /\
  (forall m, meta_of_shape slpp_meta_arms (MsObject m) = Some (Some m)) /\
  (forall v, v <> "Null" -> v <> "Object" -> meta_of_shape slpp_meta_arms (MsOther v) = None).
Proof.
  split; [vm_compute; reflexivity|]. split; [intro m; vm_compute; reflexivity|].
  intros v H1 H2. unfold meta_of_shape, slpp_meta_arms. cbn [arm_of].
  destruct (String.eqb_spec "Null" v) as [E|_]; [congruence|].
  destruct (String.eqb_spec "Object" v) as [E|_]; [congruence|]. reflexivity.
Qed.

(* the arm of the model, for a dec_meta that is serde_json followed by the source's match *)
Theorem meta_arm_from_source dp (shape : list byte -> option mshape) df skip p c r a : kind_of p = KMeta ->
  let dm := fun c => match shape c with Some s => meta_of_shape slpp_meta_arms s | None => None end in
  read_entries dp dm df skip ((p, c) :: r) a =
    match shape c with
    | None => Err EJson                                         (* serde_json::from_reader(r)? *)
    | Some MsNull => read_entries dp dm df skip r (upd a (ra_start a) (ra_end a) None (ra_gecko a) (ra_frames a) (ra_peppi a))
    | Some (MsObject m) =>
        read_entries dp dm df skip r (upd a (ra_start a) (ra_end a) (Some m) (ra_gecko a) (ra_frames a) (ra_peppi a))
    | Some (MsOther v) =>
        if String.eqb "Null" v || String.eqb "Object" v then read_entries dp dm df skip ((p, c) :: r) a else Err EJson
    end.
Proof.
  intros H dm. rewrite re_cons, H. unfold dm.
  destruct (shape c) as [[|m|v]|] eqn:E; try reflexivity.
  destruct (String.eqb "Null" v) eqn:E1; cbn [orb]; [reflexivity|].
  destruct (String.eqb "Object" v) eqn:E2; [reflexivity|].
  unfold meta_of_shape, slpp_meta_arms. cbn [arm_of]. rewrite E1, E2. reflexivity.
Qed.

(* ---- start.raw / end.raw: the whole entry, decoded by game_start / game_end; and which arm calls which helper ---- *)
Fixpoint call_of (tbl : list (string * string * string * bool)) (entry : string) : option (string * string * bool) :=
  match tbl with
  | [] => None
  | (e, var, helper, wrapped) :: t => if String.eqb e entry then Some (var, helper, wrapped) else call_of t entry
  end.
Fixpoint decoder_of (tbl : list (string * string)) (helper : string) : option string :=
  match tbl with
  | [] => None
  | (h, d) :: t => if String.eqb h helper then Some d else decoder_of t helper
  end.
Definition raw_decoder (entry : string) : option string :=
  match call_of slpp_read_calls entry with
  | Some (_, helper, true) => decoder_of slpp_raw_decoders helper
  | _ => None
  end.
Definition start_decoder (d : option string) : option (list byte -> res start_t) :=
  match d with Some s => if String.eqb s "game_start" then Some game_start else None | None => None end.
Definition end_decoder (d : option string) : option (list byte -> res end_t) :=
  match d with Some s => if String.eqb s "game_end" then Some game_end else None | None => None end.

Theorem raw_arms_from_source dp dm df skip p c r a :
  (kind_of p = KStartRaw ->
   exists f, start_decoder (raw_decoder "start.raw") = Some f /\
     read_entries dp dm df skip ((p, c) :: r) a =
       (s <- res_out (f c) ;; read_entries dp dm df skip r (upd a (Some s) (ra_end a) (ra_meta a) (ra_gecko a) (ra_frames a) (ra_peppi a)))) /\
  (kind_of p = KEndRaw ->
   exists f, end_decoder (raw_decoder "end.raw") = Some f /\
     read_entries dp dm df skip ((p, c) :: r) a =
       (e <- res_out (f c) ;; read_entries dp dm df skip r (upd a (ra_start a) (Some e) (ra_meta a) (ra_gecko a) (ra_frames a) (ra_peppi a)))).
Proof.
  assert (Es : raw_decoder "start.raw" = Some "game_start") by (vm_compute; reflexivity).
  assert (Ee : raw_decoder "end.raw" = Some "game_end") by (vm_compute; reflexivity).
  split; intro H; eexists; (split; [rewrite ?Es, ?Ee; reflexivity|]); rewrite re_cons, H; reflexivity.
Qed.

(* every helper is called from the arm of the entry the model reads it from, and only metadata is stored unwrapped
   (read_peppi_metadata already returns an Option) *)
Theorem slpp_read_calls_from_source :
  map (fun x => (kind_of (sb (fst (fst (fst x)))), snd (fst x), snd x)) slpp_read_calls =
    [(KStartRaw, "read_peppi_start", true); (KEndRaw, "read_peppi_end", true);
     (KMeta, "read_peppi_metadata", false); (KGecko, "read_peppi_gecko_codes", true)].
Proof. vm_compute. reflexivity. Qed.

(* ---- peppi.json: decode, check the version, store ---- *)
Notation pinfo := (version * option (list byte) * option bool)%type (only parsing).
Fixpoint run_peppi (steps : list peppi_step) (dp : list byte -> option pinfo) (c : list byte) (cur : option pinfo) (a : racc)
  : outcome racc :=
  match steps with
  | [] => Ok a
  | PjDecode :: t => match dp c with Some x => run_peppi t dp c (Some x) a | None => Err EJson end
  | PjAssertCurrentVersion :: t =>
      match cur with
      | Some (pv, _, _) => if assert_current_version_ok pv then run_peppi t dp c cur a else Err EInvalid
      | None => Panic 0
      end
  | PjStore :: t =>
      match cur with
      | Some x => run_peppi t dp c cur (upd a (ra_start a) (ra_end a) (ra_meta a) (ra_gecko a) (ra_frames a) (Some x))
      | None => Panic 0
      end
  end.

Theorem peppi_arm_from_source dp dm df skip p c r a : kind_of p = KPeppi ->
  kind_of (sb slpp_peppi_entry) = KPeppi /\
  read_entries dp dm df skip ((p, c) :: r) a = (a' <- run_peppi slpp_peppi_arm dp c None a ;; read_entries dp dm df skip r a').
Proof.
  intro H. split; [vm_compute; reflexivity|].
  rewrite re_cons, H. unfold slpp_peppi_arm. cbn [run_peppi].
  destruct (dp c) as [[[pv h] q]|]; [|reflexivity].
  destruct (assert_current_version_ok pv); reflexivity.
Qed.

(* assert_current_version (Gen/Funs.v): refuses exactly the versions below MIN_VERSION *)
Theorem assert_current_version_from_source v : assert_current_version_ok v = version_le PEPPI_MIN_VERSION v.
Proof. unfold assert_current_version_ok, version_lt. destruct (version_le PEPPI_MIN_VERSION v); reflexivity. Qed.

Print Assumptions gecko_arm_from_source.
Print Assumptions gecko_write_from_source.
Print Assumptions gecko_size_agrees.
Print Assumptions meta_arms_from_source.
Print Assumptions meta_arm_from_source.
Print Assumptions raw_arms_from_source.
Print Assumptions slpp_read_calls_from_source.
Print Assumptions peppi_arm_from_source.
Print Assumptions assert_current_version_from_source.
