(* An executable (boolean) form of the well-formedness predicate [wf_irreg2] of Irregular2.v, proved sound.  The
   correspondence run feeds the description [x : irreg] an independent generator used to build an irregular stream
   (unknown events interleaved, extra payload-table entries, junk after Game End, events reordered inside a frame)
   to the extracted model; the model recomputes [emit_irr r x] and DECIDES with [wf_irreg2_b] that the description is
   inside the domain of [read_irregular2].  Everything here is computable: no Prop inside the definitions. *)
From Coq Require Import List Arith NArith ZArith Lia Bool String ZifyBool ZifyN ZifyNat Permutation.
From Coq.Strings Require Import Byte.
From Peppi Require Import Base.Bytes Base.Outcome Base.Stream Layout.Syntax Gen.Funs Layout.Sem Layout.Rows
  Model.Ubjson Model.Start Model.Json Model.Parse Model.Reader Model.Writer Model.Recorder
  Proofs.Framing Proofs.FrameStep Proofs.GeckoProof Proofs.StartFacts Proofs.TableFacts Proofs.UbjsonProof
  Proofs.ReadProof Proofs.C08Proof Proofs.Irregular Proofs.Permute Proofs.WriteProof Proofs.Irregular2.
Import ListNotations.
Notation length := (@List.length _) (only parsing).

(* ---- equality of events ---- *)
Definition ev_eqb (a b : N * list byte) : bool := N.eqb (fst a) (fst b) && list_byte_eqb (snd a) (snd b).

Lemma ev_eqb_eq a b : ev_eqb a b = true <-> a = b.
Proof.
  destruct a as [ca pa], b as [cb pb]. unfold ev_eqb. cbn [fst snd].
  rewrite andb_true_iff, N.eqb_eq, list_byte_eqb_eq. split.
  - intros [H1 H2]. subst. reflexivity.
  - intro H. injection H as H1 H2. split; assumption.
Qed.

Lemma ev_eqb_refl a : ev_eqb a a = true.
Proof. apply ev_eqb_eq. reflexivity. Qed.

(* ---- remove the first occurrence of e from l, returning the elements before it and after it ---- *)
Fixpoint split_first (e : N * list byte) (l : list (N * list byte))
  : option (list (N * list byte) * list (N * list byte)) :=
  match l with
  | [] => None
  | y :: l' =>
      if ev_eqb e y then Some ([], l')
      else match split_first e l' with
           | Some (l1, l2) => Some (y :: l1, l2)
           | None => None
           end
  end.

Lemma split_first_spec e : forall l l1 l2, split_first e l = Some (l1, l2) -> l = l1 ++ e :: l2.
Proof.
  induction l as [|y l IH]; intros l1 l2 H; cbn [split_first] in H; [discriminate|].
  destruct (ev_eqb e y) eqn:E.
  - apply ev_eqb_eq in E. subst y. injection H as <- <-. reflexivity.
  - destruct (split_first e l) as [[m1 m2]|] eqn:Es; [|discriminate].
    injection H as <- <-. cbn [app]. f_equal. apply IH. reflexivity.
Qed.

(* the occurrence found is the FIRST one: e is not among the elements before it *)
Lemma split_first_notin e : forall l l1 l2, split_first e l = Some (l1, l2) -> ~ In e l1.
Proof.
  induction l as [|y l IH]; intros l1 l2 H; cbn [split_first] in H; [discriminate|].
  destruct (ev_eqb e y) eqn:E.
  - injection H as <- <-. intros [].
  - destruct (split_first e l) as [[m1 m2]|] eqn:Es; [|discriminate].
    injection H as <- <-. intros [Hin|Hin].
    + subst y. rewrite ev_eqb_refl in E. discriminate.
    + exact (IH m1 m2 eq_refl Hin).
Qed.

Lemma split_first_none e : forall l, split_first e l = None -> ~ In e l.
Proof.
  induction l as [|y l IH]; intro H; cbn [split_first] in H; [intros []|].
  destruct (ev_eqb e y) eqn:E; [discriminate|].
  destruct (split_first e l) as [[m1 m2]|] eqn:Es; [discriminate|].
  intros [Hin|Hin].
  - subst y. rewrite ev_eqb_refl in E. discriminate.
  - exact (IH eq_refl Hin).
Qed.

(* ---- sound decision procedure for Permute.reorder: take the events of [canon] in order; each must occur in [evs]
        with only events independent of it in front of it (among those not yet matched) ---- *)
Fixpoint reorder_b (canon evs : list (N * list byte)) : bool :=
  match canon with
  | [] => match evs with [] => true | _ => false end
  | e :: c' =>
      match split_first e evs with
      | Some (l1, l2) => forallb (fun y => independent e y) l1 && reorder_b c' (l1 ++ l2)
      | None => false
      end
  end.

Lemma reorder_b_sound canon : forall evs, reorder_b canon evs = true -> reorder canon evs.
Proof.
  induction canon as [|e c' IH]; intros evs H; cbn [reorder_b] in H.
  - destruct evs as [|y evs]; [apply ro_nil|discriminate].
  - destruct (split_first e evs) as [[l1 l2]|] eqn:Es; [|discriminate].
    apply andb_true_iff in H as [Hind Hrec].
    apply split_first_spec in Es. subst evs.
    apply ro_cons.
    + apply IH. exact Hrec.
    + apply Forall_forall. intros y Hy. rewrite forallb_forall in Hind. apply Hind. exact Hy.
Qed.

Lemma reorder_b_refl l : reorder_b l l = true.
Proof.
  induction l as [|e l IH]; [reflexivity|].
  cbn [reorder_b split_first]. rewrite ev_eqb_refl. cbn [forallb app andb]. exact IH.
Qed.

Corollary reorder_b_swaps canon evs : reorder_b canon evs = true -> swaps canon evs.
Proof. intro H. apply reorder_swaps, reorder_b_sound. exact H. Qed.

(* ---- equality of event lists ---- *)
Definition list_ev_eqb (a b : list (N * list byte)) : bool :=
  (length a =? length b)%nat && forallb (fun p => ev_eqb (fst p) (snd p)) (combine a b).

Lemma list_ev_eqb_eq a : forall b, list_ev_eqb a b = true <-> a = b.
Proof.
  unfold list_ev_eqb. induction a as [|y a IH]; intros [|z b]; cbn [List.length combine forallb fst snd Nat.eqb andb].
  - split; reflexivity.
  - split; discriminate.
  - split; discriminate.
  - split.
    + intro H. apply andb_true_iff in H as [H1 H2]. apply andb_true_iff in H2 as [H2 H3].
      apply ev_eqb_eq in H2. subst z. f_equal. apply IH. apply andb_true_iff. split; assumption.
    + intro H. injection H as <- <-. rewrite ev_eqb_refl. cbn [andb].
      apply (proj2 (IH a) eq_refl).
Qed.

(* ---- decidable NoDup on codes ---- *)
Fixpoint nodup_N (l : list N) : bool :=
  match l with
  | [] => true
  | c :: l' => negb (existsb (N.eqb c) l') && nodup_N l'
  end.

Lemma nodup_N_sound l : nodup_N l = true -> NoDup l.
Proof.
  induction l as [|c l IH]; intro H; [constructor|].
  cbn [nodup_N] in H. apply andb_true_iff in H as [H1 H2]. constructor.
  - intro Hin. apply negb_true_iff in H1.
    assert (E : existsb (N.eqb c) l = true) by (apply existsb_exists; exists c; split; [exact Hin|apply N.eqb_refl]).
    congruence.
  - apply IH. exact H2.
Qed.

Lemma nodup_N_complete l : NoDup l -> nodup_N l = true.
Proof.
  induction 1 as [|c l Hn _ IH]; [reflexivity|].
  cbn [nodup_N]. rewrite IH, andb_true_r. apply negb_true_iff.
  destruct (existsb (N.eqb c) l) eqn:E; [|reflexivity].
  apply existsb_exists in E as (d & Hd & Hcd). apply N.eqb_eq in Hcd. subst d. contradiction.
Qed.

(* ---- the boolean form of wf_irreg2.  It implies wf_irreg2.  For versions before 2.2 it demands the canonical order
        of the known events (swaps_old by swo_refl); from 2.2 on it accepts every reordering that reorder_b accepts. ---- *)
Definition extra_entry_b (p : N * N) : bool :=
  negb (known_code (fst p)) && (fst p <? 256)%N && (0 <? snd p)%N && (snd p <? 65536)%N.

Definition event_sized_b (extra : list (N * N)) (e : N * list byte) : bool :=
  known_code (fst e)
  || match lookup_size extra (fst e) with
     | Some sz => N.eqb sz (nn (length (snd e)))
     | None => false
     end.

Definition order_b (r : replay) (canon kn : list (N * list byte)) : bool :=
  if vgte (r_ver r) 2 2 then reorder_b canon kn else list_ev_eqb canon kn.

Definition junk_b (r : replay) (junk : list byte) : bool :=
  match junk with
  | [] => true
  | _ => (match r_end r with OneEnd _ => true | _ => false end)
         && negb (N.eqb (nn (length junk)) (1 + game_End_size (r_ver r)) && N.eqb (b2n (hd x00 junk)) Event_GameEnd)
  end.

Definition wf_irreg2_b (r : replay) (st : start_t) (x : irreg) : bool :=
  nodup_N (map fst (ig_extra x))
  && forallb extra_entry_b (ig_extra x)
  && (length (rec_table r ++ ig_extra x) <=? 84)%nat
  && order_b r (canon_events r st) (filter (fun e => known_code (fst e)) (ig_events x))
  && forallb (event_sized_b (ig_extra x)) (ig_events x)
  && junk_b r (ig_junk x)
  && (nn (length (raw_irr r x)) <? 4294967296)%N.

Lemma order_b_sound r canon kn : order_b r canon kn = true -> reordered r canon kn.
Proof.
  unfold order_b, reordered. destruct (vgte (r_ver r) 2 2); intro H.
  - apply reorder_b_swaps. exact H.
  - apply list_ev_eqb_eq in H. subst kn. apply swo_refl.
Qed.

Lemma junk_b_sound r junk : junk_b r junk = true ->
  junk <> [] -> (exists b, r_end r = OneEnd b) /\
                ~ (nn (length junk) = (1 + game_End_size (r_ver r))%N /\ b2n (hd x00 junk) = Event_GameEnd).
Proof.
  intros H Hne. destruct junk as [|j0 jr]; [exfalso; apply Hne; reflexivity|].
  unfold junk_b in H. apply andb_true_iff in H as [H1 H2]. split.
  - destruct (r_end r) as [|b|b]; try discriminate. exists b. reflexivity.
  - intros [E1 E2]. apply negb_true_iff in H2. apply andb_false_iff in H2 as [H2|H2]; apply N.eqb_neq in H2; contradiction.
Qed.

Theorem wf_irreg2_b_sound r st x : wf_irreg2_b r st x = true -> wf_irreg2 r st x.
Proof.
  unfold wf_irreg2_b. intro H.
  apply andb_true_iff in H as [H H7]. apply andb_true_iff in H as [H H6]. apply andb_true_iff in H as [H H5].
  apply andb_true_iff in H as [H H4]. apply andb_true_iff in H as [H H3]. apply andb_true_iff in H as [H1 H2].
  unfold wf_irreg2.
  split; [apply nodup_N_sound; exact H1|].
  split.
  { apply Forall_forall. intros p Hp. rewrite forallb_forall in H2. specialize (H2 p Hp). unfold extra_entry_b in H2.
    apply andb_true_iff in H2 as [H2 Hd]. apply andb_true_iff in H2 as [H2 Hc]. apply andb_true_iff in H2 as [Ha Hb].
    apply negb_true_iff in Ha. apply N.ltb_lt in Hb, Hc, Hd. repeat split; assumption. }
  split; [apply Nat.leb_le; exact H3|].
  split; [apply order_b_sound; exact H4|].
  split.
  { apply Forall_forall. intros e He Hk. rewrite forallb_forall in H5. specialize (H5 e He). unfold event_sized_b in H5.
    rewrite Hk in H5. cbn [orb] in H5.
    destruct (lookup_size (ig_extra x) (fst e)) as [sz|]; [|discriminate].
    apply N.eqb_eq in H5. subst sz. reflexivity. }
  split; [apply junk_b_sound; exact H6|].
  apply N.ltb_lt. exact H7.
Qed.

(* ---- hence the executable statement the correspondence run relies on ---- *)
Corollary read_irregular_checked r st x h :
  wf_replay r = true -> game_start (r_start r) = ROk st -> wf_irreg2_b r st x = true ->
  slp_read {| o_skip := false; o_hash := h |} (emit_irr r x)
  = Ok (with_hashed (game_of {| o_skip := false; o_hash := h |} r st (end_of r))
                    (if h then Some (length (emit_irr r x)) else None), []).
Proof. intros Hwf Hst Hb. apply read_irregular2; [exact Hwf|exact Hst|apply wf_irreg2_b_sound; exact Hb]. Qed.

(* and C17 for checked descriptions: the game read from the irregular stream is written as the canonical stream *)
Corollary c17_irregular_checked r st x h :
  wf_replay r = true -> game_start (r_start r) = ROk st -> wf_irreg2_b r st x = true ->
  exists g, slp_read {| o_skip := false; o_hash := h |} (emit_irr r x) = Ok (g, []) /\ slp_write g = Ok (emit r).
Proof.
  intros Hwf Hst Hb.
  destruct (c17_irregular2 r st x h Hwf Hst (wf_irreg2_b_sound r st x Hb)) as (g & Hr & Hw & _).
  exists g. split; assumption.
Qed.

(* ---- non-vacuity: the checker accepts the canonical rendering of every well-formed replay ---- *)
Lemma forallb_sized_known extra l : Forall (fun e => kn e = true) l -> forallb (event_sized_b extra) l = true.
Proof.
  intro H. apply forallb_forall. intros e He. rewrite Forall_forall in H. specialize (H e He).
  unfold event_sized_b. unfold kn in H. rewrite H. reflexivity.
Qed.

Lemma wf_irreg2_b_canon r st :
  wf_replay r = true -> game_start (r_start r) = ROk st -> wf_irreg2_b r st (irreg0 r st) = true.
Proof.
  intros Hwf Hst. destruct (rec_table_ok r st Hwf Hst) as (_ & Hlen & _).
  destruct (wf_replay_inv r st Hwf Hst) as (_ & _ & _ & _ & _ & _ & _ & Hbound).
  unfold wf_irreg2_b. rewrite (raw_irr0 r st Hst). cbn [irreg0 ig_extra ig_events ig_junk map nodup_N forallb junk_b andb].
  rewrite app_nil_r.
  assert (E1 : (length (rec_table r) <=? 84)%nat = true) by (apply Nat.leb_le; exact Hlen).
  rewrite E1. cbn [andb].
  fold kn. rewrite (filter_id kn _ (canon_known r st)).
  assert (E2 : order_b r (canon_events r st) (canon_events r st) = true).
  { unfold order_b. destruct (vgte (r_ver r) 2 2); [apply reorder_b_refl|apply list_ev_eqb_eq; reflexivity]. }
  rewrite E2. cbn [andb].
  rewrite (forallb_sized_known [] _ (canon_known r st)). cbn [andb].
  apply N.ltb_lt. exact Hbound.
Qed.

(* ---- sanity examples for reorder_b on tiny event lists ---- *)
Definition ex_item : N * list byte := (Event_Item, [x00; x00; x00; x07; x00; x01]).
Definition ex_pre0 : N * list byte := (Event_FramePre, [x00; x00; x00; x07; x00; x00; x11]).
Definition ex_post0 : N * list byte := (Event_FramePost, [x00; x00; x00; x07; x00; x00; x22]).
Definition ex_pre1 : N * list byte := (Event_FramePre, [x00; x00; x00; x07; x01; x00; x33]).
Definition ex_post1 : N * list byte := (Event_FramePost, [x00; x00; x00; x07; x01; x00; x44]).

(* accepted: an Item exchanged with the Post that follows it *)
Example reorder_b_item_post : reorder_b [ex_pre0; ex_item; ex_post0] [ex_pre0; ex_post0; ex_item] = true.
Proof. vm_compute. reflexivity. Qed.

(* accepted: Pre/Post of two different characters interleaved the other way round *)
Example reorder_b_two_chars :
  reorder_b [ex_pre0; ex_pre1; ex_post0; ex_post1] [ex_pre1; ex_post1; ex_pre0; ex_post0] = true.
Proof. vm_compute. reflexivity. Qed.

(* rejected: a Pre and the Post of the same character (same slot bytes) exchanged *)
Example reorder_b_pre_post_same : reorder_b [ex_pre0; ex_post0] [ex_post0; ex_pre0] = false.
Proof. vm_compute. reflexivity. Qed.

(* rejected: two Items exchanged (item order is data) *)
Example reorder_b_two_items :
  reorder_b [ex_item; (Event_Item, [x00; x00; x00; x07; x00; x02])] [(Event_Item, [x00; x00; x00; x07; x00; x02]); ex_item] = false.
Proof. vm_compute. reflexivity. Qed.

(* rejected: an event missing, an event added *)
Example reorder_b_missing : reorder_b [ex_pre0; ex_post0] [ex_pre0] = false.
Proof. vm_compute. reflexivity. Qed.
Example reorder_b_added : reorder_b [ex_pre0] [ex_pre0; ex_post0] = false.
Proof. vm_compute. reflexivity. Qed.

(* follower bytes 1 and 2 decode to the same character: not exchanged *)
Example reorder_b_follower_alias :
  reorder_b [(Event_FramePre, [x00; x00; x00; x07; x00; x01]); (Event_FramePost, [x00; x00; x00; x07; x00; x02])]
            [(Event_FramePost, [x00; x00; x00; x07; x00; x02]); (Event_FramePre, [x00; x00; x00; x07; x00; x01])] = false.
Proof. vm_compute. reflexivity. Qed.

Print Assumptions ev_eqb_eq.
Print Assumptions reorder_b_sound.
Print Assumptions list_ev_eqb_eq.
Print Assumptions nodup_N_sound.
Print Assumptions wf_irreg2_b_sound.
Print Assumptions read_irregular_checked.
Print Assumptions c17_irregular_checked.
Print Assumptions wf_irreg2_b_canon.
