(* Fragmentation independence of the skip-frames path: io::copy(take(n)) over a fragmenting, interruptible stream
   wrapped in the hashing reader leaves what Reader.drop_upto leaves and hashes exactly what it passed over;
   programs with the two skipping steps (Model/FragSkip.v prog2) run the same fragmented as flat; the one-shot
   reader with o_skip = true is such a program. *)
From Coq Require Import List Arith NArith Lia Bool ZifyBool ZifyN ZifyNat.
From Coq.Strings Require Import Byte.
From Peppi Require Import Base.Bytes Base.Outcome Base.Stream Layout.Syntax Gen.Funs Layout.Sem Layout.Rows
  Model.Utf8 Model.Ubjson Model.Start Model.Json Model.Parse Model.Reader Model.Frag Model.FragSkip
  Proofs.FragProof.
Import ListNotations.
Notation length := (@List.length _) (only parsing).

(* ---- small facts ---- *)
Lemma copy_buf_pos : (0 < copy_buf)%N.
Proof. reflexivity. Qed.

Lemma copy_chunk_bounds limit : limit <> 0%N -> 1 <= copy_chunk limit /\ (N.of_nat (copy_chunk limit) <= limit)%N.
Proof. intro H. unfold copy_chunk. pose proof copy_buf_pos. lia. Qed.

Lemma drop_upto_skipn n bs : drop_upto n bs = skipn (N.to_nat n) bs.
Proof.
  unfold drop_upto. destruct (N.leb_spec (N.of_nat (length bs)) n) as [H|H]; [|reflexivity].
  symmetry. apply skipn_all2. lia.
Qed.

Lemma take_upto_firstn n bs : take_upto n bs = firstn (N.to_nat n) bs.
Proof.
  unfold take_upto. destruct (N.leb_spec (N.of_nat (length bs)) n) as [H|H]; [|reflexivity].
  symmetry. apply firstn_all2. lia.
Qed.

Lemma take_drop_upto n bs : take_upto n bs ++ drop_upto n bs = bs.
Proof. rewrite take_upto_firstn, drop_upto_skipn. apply firstn_skipn. Qed.

Lemma drop_upto_0 bs : drop_upto 0 bs = bs.
Proof. rewrite drop_upto_skipn. reflexivity. Qed.

Lemma take_upto_0 bs : take_upto 0 bs = [].
Proof. rewrite take_upto_firstn. reflexivity. Qed.

Lemma drop_upto_nil n : drop_upto n [] = [].
Proof. rewrite drop_upto_skipn. apply skipn_nil. Qed.

Lemma take_upto_nil n : take_upto n [] = [].
Proof. rewrite take_upto_firstn. apply firstn_nil. Qed.

Lemma length_drop_upto n bs : length (drop_upto n bs) = N.to_nat (N.of_nat (length bs) - n).
Proof. rewrite drop_upto_skipn, skipn_length. lia. Qed.

Theorem hseek_N_eq n h : hseek_N n h = hseek (N.to_nat n) h.
Proof. unfold hseek_N, hseek. rewrite drop_upto_skipn. reflexivity. Qed.

(* one delivering read of at most m <= limit bytes, then the rest of the skip *)
Lemma skip_step (limit : N) m (data : list byte) :
  1 <= m -> (N.of_nat m <= limit)%N ->
  let l := N.of_nat (length (firstn m data)) in
  drop_upto (limit - l) (skipn m data) = drop_upto limit data /\
  take_upto limit data = firstn m data ++ take_upto (limit - l) (skipn m data).
Proof.
  intros Hm Hle l. subst l. rewrite !drop_upto_skipn, !take_upto_firstn, firstn_length.
  destruct (Nat.le_gt_cases (length data) m) as [Hs|Hl].
  - rewrite (skipn_all2 data) by lia. rewrite skipn_nil, firstn_nil, app_nil_r.
    rewrite (firstn_all2 data) by lia. rewrite skipn_all2 by lia. rewrite firstn_all2 by lia. auto.
  - replace (Nat.min m (length data)) with m by lia.
    assert (E : N.to_nat limit = m + N.to_nat (limit - N.of_nat m)) by lia.
    set (r := N.to_nat (limit - N.of_nat m)) in *. clearbody r. rewrite E.
    rewrite skipn_add, firstn_add. auto.
Qed.

(* ---- 1. io::copy(take(limit)) ---- *)
Lemma copy_take_f_0 fuel h : copy_take_f fuel 0 h = (Ok tt, h).
Proof. destruct fuel; reflexivity. Qed.

Lemma copy_take_f_S f limit h : limit <> 0%N ->
  copy_take_f (S f) limit h =
  let '(r, h1) := hread (copy_chunk limit) h in
  match r with
  | RBytes [] => (Ok tt, h1)
  | RBytes bs => copy_take_f f (limit - N.of_nat (length bs)) h1
  | RInterrupted => copy_take_f f limit h1
  | RFault => (Err EIo, h1)
  end.
Proof.
  intro H. cbn [copy_take_f]. destruct (N.eqb_spec limit 0) as [E|_]; [contradiction|reflexivity].
Qed.

(* whatever the schedule: a prefix `used` of the data was consumed and hashed; the loop ends with Ok having passed
   over exactly take_upto limit data, or with Err EIo at a Fault *)
Lemma copy_gen : forall fuel limit h,
  length (fs_data (hr_inner h)) + length (fs_sched (hr_inner h)) < fuel ->
  exists used,
    fs_data (hr_inner h) = used ++ fs_data (hr_inner (snd (copy_take_f fuel limit h))) /\
    hr_hashed (snd (copy_take_f fuel limit h)) = option_map (fun l => l ++ used) (hr_hashed h) /\
    length (fs_sched (hr_inner (snd (copy_take_f fuel limit h)))) <= length (fs_sched (hr_inner h)) /\
    (no_fault (fs_sched (hr_inner h)) -> no_fault (fs_sched (hr_inner (snd (copy_take_f fuel limit h))))) /\
    ((fst (copy_take_f fuel limit h) = Ok tt /\ used = take_upto limit (fs_data (hr_inner h)) /\
      fs_data (hr_inner (snd (copy_take_f fuel limit h))) = drop_upto limit (fs_data (hr_inner h))) \/
     (fst (copy_take_f fuel limit h) = Err EIo /\ ~ no_fault (fs_sched (hr_inner h)))).
Proof.
  induction fuel as [|f IH]; intros limit h Hfuel; [lia|].
  destruct (N.eq_dec limit 0) as [->|Hl].
  { rewrite copy_take_f_0. cbn [fst snd]. exists []. rewrite option_map_nil, take_upto_0, drop_upto_0.
    repeat split; auto. }
  rewrite (copy_take_f_S f limit h Hl).
  destruct (copy_chunk_bounds limit Hl) as [Hc1 Hc2].
  destruct h as [[data sc] hs]. cbn [hr_inner fs_sched fs_data hr_hashed] in *.
  assert (Hcases : match sc with [] => True | Give _ :: _ => True | _ => False end \/
                   (exists sc', sc = Interrupt :: sc') \/ (exists sc', sc = Fault :: sc')).
  { destruct sc as [|[k| |] sc].
    - left; exact I.
    - left; exact I.
    - right; left; eexists; reflexivity.
    - right; right; eexists; reflexivity. }
  destruct Hcases as [Hb | [[sc' ->] | [sc' ->]]].
  - destruct (hread_bytes (copy_chunk limit) data sc hs ltac:(lia) Hb) as (m & sc' & Hm & Hlen & Hnf' & _ & ->).
    destruct data as [|b d].
    + rewrite firstn_nil, skipn_nil. cbn [fst snd hr_inner fs_sched fs_data hr_hashed]. exists [].
      rewrite take_upto_nil, drop_upto_nil. repeat split; auto.
    + destruct (split_read (copy_chunk limit) m (b :: d) Hm ltac:(discriminate)) as (Hne & Hsplit & _ & _).
      destruct (skip_step limit m (b :: d) ltac:(lia) ltac:(lia)) as [Hdrop Htake].
      assert (Hshort : length (skipn m (b :: d)) < length (b :: d)).
      { rewrite skipn_length. cbn [length]. lia. }
      set (data := b :: d) in *. clearbody data.
      set (bs := firstn m data) in *. clearbody bs.
      destruct bs as [|b0 bs0]; [contradiction Hne; reflexivity|].
      set (bs := b0 :: bs0) in *.
      set (h1 := {| hr_inner := {| fs_data := skipn m data; fs_sched := sc' |};
                    hr_hashed := option_map (fun l => l ++ bs) hs |}).
      assert (Hfuel1 : length (fs_data (hr_inner h1)) + length (fs_sched (hr_inner h1)) < f).
      { subst h1. cbn [hr_inner fs_sched fs_data]. lia. }
      specialize (IH (limit - N.of_nat (length bs))%N h1 Hfuel1).
      change (match bs with [] => ?x | _ :: _ => ?y end) with y.
      destruct (copy_take_f f (limit - N.of_nat (length bs)) h1) as [res h2]. cbn [fst snd] in *.
      subst h1. cbn [hr_inner fs_sched fs_data hr_hashed] in *.
      destruct IH as (used1 & Hd1 & Hh1 & Hl1 & Hnf1 & Hres). exists (bs ++ used1).
      split; [rewrite <- app_assoc, <- Hd1; exact Hsplit|].
      split; [rewrite Hh1, option_map_app; reflexivity|].
      split; [lia|]. split; [tauto|].
      destruct Hres as [(-> & -> & Hd2) | (-> & Hf)].
      * left. split; [reflexivity|]. split; [symmetry; exact Htake|]. rewrite Hd2. exact Hdrop.
      * right. split; [reflexivity|]. tauto.
  - unfold hread, fread. cbn [hr_inner fs_sched fs_data hr_hashed length no_fault] in *.
    set (h1 := {| hr_inner := {| fs_data := data; fs_sched := sc' |}; hr_hashed := hs |}).
    assert (Hfuel1 : length (fs_data (hr_inner h1)) + length (fs_sched (hr_inner h1)) < f).
    { subst h1. cbn [hr_inner fs_sched fs_data]. lia. }
    specialize (IH limit h1 Hfuel1). subst h1. cbn [hr_inner fs_sched fs_data hr_hashed] in *.
    destruct IH as (used1 & Hd1 & Hh1 & Hl1 & Hnf1 & Hres). exists used1.
    split; [exact Hd1|]. split; [exact Hh1|]. split; [lia|]. split; [exact Hnf1|]. exact Hres.
  - unfold hread, fread. cbn [hr_inner fs_sched fs_data hr_hashed fst snd length no_fault]. exists [].
    rewrite option_map_nil. split; [reflexivity|]. split; [reflexivity|]. split; [lia|]. split; [tauto|].
    right. split; [reflexivity|]. tauto.
Qed.

Theorem copy_take_frag fuel limit h :
  no_fault (fs_sched (hr_inner h)) -> copy_fuel h <= fuel ->
  let '(res, h') := copy_take_f fuel limit h in
  let data := fs_data (hr_inner h) in
  res = Ok tt /\
  fs_data (hr_inner h') = drop_upto limit data /\
  data = take_upto limit data ++ drop_upto limit data /\
  hr_hashed h' = option_map (fun l => l ++ take_upto limit data) (hr_hashed h) /\
  no_fault (fs_sched (hr_inner h')).
Proof.
  intros Hnf Hfuel. unfold copy_fuel in Hfuel.
  destruct (copy_gen fuel limit h ltac:(lia)) as (used & Hd & Hh & _ & Hnf' & Hres).
  destruct (copy_take_f fuel limit h) as [res h']. cbn [fst snd] in *. cbn zeta.
  destruct Hres as [(-> & -> & Hd') | (_ & Hf)]; [|contradiction].
  split; [reflexivity|]. split; [exact Hd'|]. split; [symmetry; apply take_drop_upto|].
  split; [exact Hh | exact (Hnf' Hnf)].
Qed.
Print Assumptions copy_take_frag.

(* faults allowed: Err EIo, or the same; in both cases hashed = consumed *)
Theorem copy_take_any fuel limit h :
  copy_fuel h <= fuel ->
  let '(res, h') := copy_take_f fuel limit h in
  let data := fs_data (hr_inner h) in
  exists used,
    data = used ++ fs_data (hr_inner h') /\
    hr_hashed h' = option_map (fun l => l ++ used) (hr_hashed h) /\
    (res = Err EIo \/
     (res = Ok tt /\ used = take_upto limit data /\ fs_data (hr_inner h') = drop_upto limit data)).
Proof.
  intros Hfuel. unfold copy_fuel in Hfuel.
  destruct (copy_gen fuel limit h ltac:(lia)) as (used & Hd & Hh & _ & _ & Hres).
  destruct (copy_take_f fuel limit h) as [res h']. cbn [fst snd] in *. cbn zeta.
  exists used. split; [exact Hd|]. split; [exact Hh|].
  destruct Hres as [H | (-> & _)]; [right; exact H | left; reflexivity].
Qed.
Print Assumptions copy_take_any.

(* ---- 2. programs with skipping steps ---- *)
Theorem run_flat2_lift {A} (p : prog A) : forall bs, run_flat2 (lift p) bs = run_flat p bs.
Proof.
  induction p as [a|e|x| |n k IH]; intros bs; cbn [lift run_flat2 run_flat]; try reflexivity.
  destruct (rd_exact n bs) as [[b r]|e|x|]; try reflexivity. apply IH.
Qed.

Theorem run_frag2_lift {A} (p : prog A) : forall h, run_frag2 (lift p) h = run_frag p h.
Proof.
  induction p as [a|e|x| |n k IH]; intros h; cbn [lift run_frag2 run_frag]; try reflexivity.
  destruct (read_exact_f (fuel_for n h) n h) as [[b|e|x|] h1]; try reflexivity. apply IH.
Qed.
Print Assumptions run_flat2_lift.
Print Assumptions run_frag2_lift.

Lemma no_seek_lift {A} (p : prog A) : no_seek (lift p).
Proof. induction p as [a|e|x| |n k IH]; cbn [lift no_seek]; auto. Qed.

Lemma no_seek_pb2 {A B} (p : prog2 A) (f : A -> prog2 B) :
  no_seek p -> (forall a, no_seek (f a)) -> no_seek (pb2 p f).
Proof.
  intros Hp Hf. induction p as [a|e|x| |n k IH|n k IH|n k IH]; cbn [pb2 no_seek] in *; auto.
Qed.

Lemma no_seek_seeked {A} (p : prog2 A) : no_seek p -> forall bs, seeked p bs = false.
Proof.
  induction p as [a|e|x| |n k IH|n k IH|n k IH]; cbn [no_seek seeked]; intros Hp bs; try reflexivity.
  - destruct (rd_exact n bs) as [[b r]|e|x|]; try reflexivity. apply IH, Hp.
  - apply IH, Hp.
  - contradiction.
Qed.

Lemma run_flat2_pb2 {A B} (p : prog2 A) (f : A -> prog2 B) : forall bs,
  run_flat2 (pb2 p f) bs =
  match run_flat2 p bs with
  | Ok (a, r) => run_flat2 (f a) r
  | Err e => Err e | Panic x => Panic x | Fuel => Fuel
  end.
Proof.
  induction p as [a|e|x| |n k IH|n k IH|n k IH]; intros bs; cbn [pb2 run_flat2]; try reflexivity.
  - destruct (rd_exact n bs) as [[b r]|e|x|]; try reflexivity. apply IH.
  - apply IH.
  - apply IH.
Qed.

(* fault-free schedules: the flat run's value and rest; the bytes passed over or read are `used`; the hasher was
   fed exactly `used`, unless the run went through a seek, after which there is no hasher *)
Lemma run_frag2_flat2_gen {A} (p : prog2 A) : forall h,
  no_fault (fs_sched (hr_inner h)) ->
  match run_flat2 p (fs_data (hr_inner h)) with
  | Ok (a, rest) =>
      fst (run_frag2 p h) = Ok a /\ fs_data (hr_inner (snd (run_frag2 p h))) = rest /\
      exists used, fs_data (hr_inner h) = used ++ rest /\
                   hr_hashed (snd (run_frag2 p h)) =
                   if seeked p (fs_data (hr_inner h)) then None
                   else option_map (fun l => l ++ used) (hr_hashed h)
  | Err e => fst (run_frag2 p h) = Err e
  | Panic x => fst (run_frag2 p h) = Panic x
  | Fuel => fst (run_frag2 p h) = Fuel
  end.
Proof.
  induction p as [a|e|x| |n k IH|n k IH|n k IH]; intros h Hnf; cbn [run_flat2 run_frag2 seeked fst snd];
    try reflexivity.
  - split; [reflexivity|]. split; [reflexivity|]. exists []. rewrite option_map_nil. split; reflexivity.
  - pose proof (rx_gen (fuel_for n h) n h Hnf (le_n _)) as H.
    destruct (read_exact_f (fuel_for n h) n h) as [res h1]. cbn [fst snd] in H.
    unfold rx_post in H. destruct H as (Hnf1 & _ & H). rewrite rd_exact_spec.
    destruct (Nat.ltb_spec (length (fs_data (hr_inner h))) n) as [Hlt|Hle].
    + destruct H as (-> & _ & _). reflexivity.
    + destruct H as (-> & Hd1 & Hh1). specialize (IH (firstn n (fs_data (hr_inner h))) h1 Hnf1).
      rewrite Hd1 in IH.
      destruct (run_flat2 (k (firstn n (fs_data (hr_inner h)))) (skipn n (fs_data (hr_inner h))))
        as [[a rest]|e|x|]; try exact IH.
      destruct IH as (Hres & Hrest & used & Hu & Hh). split; [exact Hres|]. split; [exact Hrest|].
      exists (firstn n (fs_data (hr_inner h)) ++ used). split.
      * rewrite <- app_assoc, <- Hu. symmetry. apply firstn_skipn.
      * rewrite Hh, Hh1, option_map_app. reflexivity.
  - pose proof (copy_take_frag (copy_fuel h) n h Hnf (le_n _)) as H.
    destruct (copy_take_f (copy_fuel h) n h) as [res h1]. cbn zeta in H.
    destruct H as (-> & Hd1 & Hsplit & Hh1 & Hnf1). specialize (IH h1 Hnf1). rewrite Hd1 in IH.
    destruct (run_flat2 k (drop_upto n (fs_data (hr_inner h)))) as [[a rest]|e|x|]; try exact IH.
    destruct IH as (Hres & Hrest & used & Hu & Hh). split; [exact Hres|]. split; [exact Hrest|].
    exists (take_upto n (fs_data (hr_inner h)) ++ used). split.
    + rewrite <- app_assoc, <- Hu. exact Hsplit.
    + rewrite Hh, Hh1, option_map_app. reflexivity.
  - specialize (IH (hseek_N n h) Hnf). unfold hseek_N in IH at 1. cbn [hr_inner fs_data] in IH.
    destruct (run_flat2 k (drop_upto n (fs_data (hr_inner h)))) as [[a rest]|e|x|]; try exact IH.
    destruct IH as (Hres & Hrest & used & Hu & Hh). split; [exact Hres|]. split; [exact Hrest|].
    exists (take_upto n (fs_data (hr_inner h)) ++ used). split.
    + rewrite <- app_assoc, <- Hu. symmetry. apply take_drop_upto.
    + rewrite Hh. unfold hseek_N. cbn [hr_hashed option_map].
      destruct (seeked k _); reflexivity.
Qed.

Theorem run_frag2_flat2 {A} (p : prog2 A) data sched hashed0 :
  no_fault sched ->
  let h := mk_hreader data sched hashed0 in
  let '(res, h') := run_frag2 p h in
  match run_flat2 p data with
  | Ok (a, rest) =>
      res = Ok a /\ fs_data (hr_inner h') = rest /\
      exists used, data = used ++ rest /\
                   hr_hashed h' = if seeked p data then None else option_map (fun l => l ++ used) hashed0
  | Err e => res = Err e
  | Panic x => res = Panic x
  | Fuel => res = Fuel
  end.
Proof.
  intros Hnf h. pose proof (run_frag2_flat2_gen p h Hnf) as H.
  destruct (run_frag2 p h) as [res h']. exact H.
Qed.
Print Assumptions run_frag2_flat2.

(* a program without seeks: exactly Frag.run_frag_flat *)
Corollary run_frag2_flat2_no_seek {A} (p : prog2 A) data sched hashed0 :
  no_seek p -> no_fault sched ->
  let '(res, h') := run_frag2 p (mk_hreader data sched hashed0) in
  match run_flat2 p data with
  | Ok (a, rest) =>
      res = Ok a /\ fs_data (hr_inner h') = rest /\
      exists used, data = used ++ rest /\ hr_hashed h' = option_map (fun l => l ++ used) hashed0
  | Err e => res = Err e
  | Panic x => res = Panic x
  | Fuel => res = Fuel
  end.
Proof.
  intros Hns Hnf. pose proof (run_frag2_flat2 p data sched hashed0 Hnf) as H. cbn zeta in H.
  rewrite (no_seek_seeked p Hns) in H. exact H.
Qed.
Print Assumptions run_frag2_flat2_no_seek.

(* faults allowed: Err EIo or the flat answer; a prefix `used` of the data was consumed; the hasher was fed
   exactly `used` or (after a seek) is gone *)
Lemma run_frag2_faulty_gen {A} (p : prog2 A) : forall h,
  (exists used, fs_data (hr_inner h) = used ++ fs_data (hr_inner (snd (run_frag2 p h))) /\
                (hr_hashed (snd (run_frag2 p h)) = None \/
                 hr_hashed (snd (run_frag2 p h)) = option_map (fun l => l ++ used) (hr_hashed h)) /\
                (no_seek p -> hr_hashed (snd (run_frag2 p h)) = option_map (fun l => l ++ used) (hr_hashed h))) /\
  (fst (run_frag2 p h) = Err EIo \/
   match run_flat2 p (fs_data (hr_inner h)) with
   | Ok (a, rest) => fst (run_frag2 p h) = Ok a /\ fs_data (hr_inner (snd (run_frag2 p h))) = rest
   | Err e => fst (run_frag2 p h) = Err e
   | Panic x => fst (run_frag2 p h) = Panic x
   | Fuel => fst (run_frag2 p h) = Fuel
   end).
Proof.
  induction p as [a|e|x| |n k IH|n k IH|n k IH]; intros h; cbn [run_flat2 run_frag2 no_seek fst snd];
    try solve [split; [exists []; rewrite option_map_nil; repeat split; auto | right; auto]].
  - pose proof (read_exact_any n h) as H.
    destruct (read_exact_f (fuel_for n h) n h) as [res h1].
    destruct H as (used & Hd & Hh & [-> | [-> Hrd]]).
    + cbn [fst snd]. split; [exists used; repeat split; auto | left; reflexivity].
    + rewrite Hrd. destruct (IH used h1) as [(used2 & Hd2 & Hh2 & Hns2) Hres]. split; [|exact Hres].
      exists (used ++ used2). split; [rewrite <- app_assoc, <- Hd2; exact Hd|].
      rewrite Hh, option_map_app in Hh2, Hns2. split; [exact Hh2|]. intro Hns. apply Hns2, Hns.
  - pose proof (copy_take_any (copy_fuel h) n h (le_n _)) as H.
    destruct (copy_take_f (copy_fuel h) n h) as [res h1]. cbn zeta in H.
    destruct H as (used & Hd & Hh & [-> | (-> & _ & Hd1)]).
    + cbn [fst snd]. split; [exists used; repeat split; auto | left; reflexivity].
    + rewrite <- Hd1. destruct (IH h1) as [(used2 & Hd2 & Hh2 & Hns2) Hres]. split; [|exact Hres].
      exists (used ++ used2). split; [rewrite <- app_assoc, <- Hd2; exact Hd|].
      rewrite Hh, option_map_app in Hh2, Hns2. split; [exact Hh2|]. exact Hns2.
  - destruct (IH (hseek_N n h)) as [(used2 & Hd2 & Hh2 & _) Hres].
    unfold hseek_N in Hd2 at 1, Hres at 3. cbn [hr_inner fs_data] in Hd2, Hres. split; [|exact Hres].
    exists (take_upto n (fs_data (hr_inner h)) ++ used2).
    split; [rewrite <- app_assoc, <- Hd2; symmetry; apply take_drop_upto|].
    split; [|contradiction]. left. destruct Hh2 as [Hh2|Hh2]; rewrite Hh2; reflexivity.
Qed.

Theorem run_frag2_faulty {A} (p : prog2 A) data sched hashed0 :
  let h := mk_hreader data sched hashed0 in
  let '(res, h') := run_frag2 p h in
  (exists used, data = used ++ fs_data (hr_inner h') /\
                (hr_hashed h' = None \/ hr_hashed h' = option_map (fun l => l ++ used) hashed0) /\
                (no_seek p -> hr_hashed h' = option_map (fun l => l ++ used) hashed0)) /\
  (res = Err EIo \/
   match run_flat2 p data with
   | Ok (a, rest) => res = Ok a /\ fs_data (hr_inner h') = rest
   | Err e => res = Err e
   | Panic x => res = Panic x
   | Fuel => res = Fuel
   end).
Proof.
  intro h. pose proof (run_frag2_faulty_gen p h) as H. destruct (run_frag2 p h) as [res h']. exact H.
Qed.
Print Assumptions run_frag2_faulty.

(* ---- 3. the one-shot reader with o_skip = true is such a program ---- *)
(* Reader.slp_read from the event loop on; total = the length of the whole input *)
Definition slp_tail (hash : bool) (total : nat) (raw_len : N) (s : pstate) (bs : list byte)
  : outcome (game * list byte) :=
  '(s, bs) <- event_loop (S (length bs)) raw_len s bs ;;
  let s := if vlt (ver s) 3 0 then frame_close s else s in
  '(s, bs) <-
     (if (ps_bytes_read s <? raw_len)%N then
        let len := (raw_len - ps_bytes_read s)%N in
        '(buf, bs) <- rd_exact_N len bs ;;
        if N.eqb len (1 + game_End_size (ver s)) && N.eqb (b2n (hd x00 buf)) Event_GameEnd
        then Ok (set_quirk s, bs) else Ok (s, bs)
      else Ok (s, bs)) ;;
  '(b, bs) <- rd_u8 bs ;;
  '(s, bs) <-
     (if N.eqb b 85 then
        '(s, bs) <- parse_metadata s bs ;;
        '(_, bs) <- expect_bytes [x7d] bs ;;
        Ok (s, bs)
      else if N.eqb b 125 then Ok (s, bs)
      else Err EInvalid) ;;
  Ok (game_of_state s (if hash then Some (total - length bs)%nat else None), bs).

Lemma slp_read_unfold o bs0 :
  slp_read o bs0 =
  ('(raw_len, bs) <- parse_header bs0 ;;
   '(s, bs) <- parse_start bs ;;
   '(s, bs) <-
     (if o_skip o then
        match lookup_size (ps_sizes s) Event_GameEnd with
        | None => Panic 301
        | Some esz =>
            let end_offset := (1 + esz)%N in
            if N.eqb raw_len 0 || (raw_len <? ps_bytes_read s + end_offset)%N then Err EInvalid
            else
              let skip := (raw_len - ps_bytes_read s - end_offset)%N in
              Ok (add_bytes_read s skip, drop_upto skip bs)
        end
      else Ok (s, bs)) ;;
   slp_tail (o_hash o) (length bs0) raw_len s bs).
Proof. reflexivity. Qed.

(* Frag.p_slp_read is header, start, then p_slp_tail *)
Lemma p_slp_read_tail_eq hash total :
  p_slp_read hash total =
  pbc p_header 0 (fun raw_len c => pbc p_start c (fun s c => p_slp_tail hash total raw_len s c)).
Proof. reflexivity. Qed.

Lemma run_flat_slp_tail hash total raw_len s bs2 :
  length bs2 <= total ->
  run_flat (p_slp_tail hash total raw_len s (total - length bs2)) bs2 = slp_tail hash total raw_len s bs2.
Proof.
  intro Hle2. unfold p_slp_tail, slp_tail.
  rewrite (run_flat_pbc _ _ total) by lia. rewrite run_flat_event_loop.
  replace (total - (total - length bs2)) with (length bs2) by lia.
  destruct (event_loop (S (length bs2)) raw_len s bs2) as [[s3 bs3]|e|x|] eqn:E3; cbn [bind]; try reflexivity.
  rewrite <- run_flat_event_loop in E3. apply run_flat_len in E3.
  set (s4 := if vlt (ver s3) 3 0 then frame_close s3 else s3).
  rewrite (run_flat_pbc _ _ total) by lia.
  match goal with |- match ?X with _ => _ end = bind ?Y _ => assert (E4 : X = Y) end.
  { destruct (ps_bytes_read s4 <? raw_len)%N; [|reflexivity].
    rewrite run_flat_pb. unfold pbind. rewrite run_flat_exact, rd_exact_bounded by lia.
    destruct (rd_exact_N (raw_len - ps_bytes_read s4) bs3) as [[buf bs4]|e|x|]; cbn [bind]; try reflexivity.
    destruct (N.eqb (raw_len - ps_bytes_read s4) (1 + game_End_size (ver s4)) &&
              N.eqb (b2n (hd x00 buf)) Event_GameEnd); reflexivity. }
  match type of E4 with ?X = ?Y => destruct Y as [[s5 bs5]|e|x|] eqn:E5 end;
    rewrite E4; cbn [bind]; try reflexivity.
  apply run_flat_len in E4.
  rewrite (run_flat_pbc _ _ total) by lia. rewrite run_flat_u8.
  destruct (rd_u8 bs5) as [[b bs6]|e|x|] eqn:E6; cbn [bind]; try reflexivity.
  rewrite <- run_flat_u8 in E6. apply run_flat_len in E6.
  rewrite (run_flat_pbc _ _ total) by lia.
  match goal with |- match ?X with _ => _ end = bind ?Y _ => assert (E7 : X = Y) end.
  { destruct (N.eqb b 85).
    - rewrite run_flat_pb. unfold pbind.
      replace (total - (total - length bs6)) with (length bs6) by lia.
      rewrite run_flat_metadata.
      destruct (parse_metadata s5 bs6) as [[s7 bs7]|e|x|]; cbn [bind]; try reflexivity.
      rewrite run_flat_pb. unfold pbind. rewrite run_flat_expect.
      destruct (expect_bytes [x7d] bs7) as [[u bs8]|e|x|]; cbn [bind]; reflexivity.
    - destruct (N.eqb b 125); reflexivity. }
  match type of E7 with ?X = ?Y => destruct Y as [[s8 bs8]|e|x|] eqn:E8 end;
    rewrite E7; cbn [bind]; try reflexivity.
Qed.

Lemma run_flat_slp_head bs0 :
  run_flat p_slp_head bs0 =
  ('(raw_len, bs) <- parse_header bs0 ;;
   '(s, bs) <- parse_start bs ;;
   Ok ((raw_len, s, length bs0 - length bs), bs)).
Proof.
  unfold p_slp_head.
  rewrite (run_flat_pbc _ _ (length bs0)) by lia. rewrite run_flat_header.
  destruct (parse_header bs0) as [[raw_len bs1]|e|x|] eqn:E1; cbn [bind]; try reflexivity.
  rewrite <- run_flat_header in E1. apply run_flat_len in E1.
  rewrite (run_flat_pbc _ _ (length bs0)) by lia. rewrite run_flat_start.
  destruct (parse_start bs1) as [[s bs2]|e|x|] eqn:E2; cbn [bind]; reflexivity.
Qed.

Lemma count_after_skip_eq total n (bs : list byte) :
  length bs <= total ->
  count_after_skip total (total - length bs) n = total - length (drop_upto n bs).
Proof. intro H. unfold count_after_skip. rewrite length_drop_upto. lia. Qed.

Theorem run_flat2_slp_read_skip hash bs0 :
  run_flat2 (p_slp_read_skip hash (length bs0)) bs0 = slp_read {| o_skip := true; o_hash := hash |} bs0.
Proof.
  rewrite slp_read_unfold. cbn [o_skip o_hash]. unfold p_slp_read_skip.
  rewrite run_flat2_pb2, run_flat2_lift, run_flat_slp_head.
  destruct (parse_header bs0) as [[raw_len bs1]|e|x|] eqn:E1; cbn [bind]; try reflexivity.
  rewrite <- run_flat_header in E1. apply run_flat_len in E1.
  destruct (parse_start bs1) as [[s bs2]|e|x|] eqn:E2; cbn [bind]; try reflexivity.
  rewrite <- run_flat_start in E2. apply run_flat_len in E2.
  destruct (lookup_size (ps_sizes s) Event_GameEnd) as [esz|]; [|reflexivity].
  cbn zeta.
  destruct (N.eqb raw_len 0 || (raw_len <? ps_bytes_read s + (1 + esz))%N); [reflexivity|].
  cbn [bind].
  set (skip := (raw_len - ps_bytes_read s - (1 + esz))%N).
  assert (Hle : length (drop_upto skip bs2) <= length bs0).
  { rewrite length_drop_upto. lia. }
  rewrite count_after_skip_eq by lia.
  destruct hash; cbn [run_flat2]; rewrite run_flat2_lift; apply run_flat_slp_tail; exact Hle.
Qed.
Print Assumptions run_flat2_slp_read_skip.

(* ---- 4. fragmented corollaries for the skipping reader ---- *)
Lemma seeked_pb2 {A B} (p : prog2 A) (f : A -> prog2 B) : forall bs,
  seeked (pb2 p f) bs =
  if seeked p bs then true
  else match run_flat2 p bs with Ok (a, r) => seeked (f a) r | _ => false end.
Proof.
  induction p as [a|e|x| |n k IH|n k IH|n k IH]; intros bs; cbn [pb2 seeked run_flat2]; try reflexivity.
  - destruct (rd_exact n bs) as [[b r]|e|x|]; try reflexivity. apply IH.
  - apply IH.
Qed.

(* hashing on: the reader never seeks *)
Lemma no_seek_slp_read_skip_hash total : no_seek (p_slp_read_skip true total).
Proof.
  unfold p_slp_read_skip. apply no_seek_pb2; [apply no_seek_lift|]. intros [[raw_len s] c].
  destruct (lookup_size (ps_sizes s) Event_GameEnd) as [esz|]; [|exact I]. cbn zeta.
  destruct (N.eqb raw_len 0 || (raw_len <? ps_bytes_read s + (1 + esz))%N); [exact I|].
  cbn [no_seek]. apply no_seek_lift.
Qed.

(* hashing off: every successful run went through the seek *)
Lemma seeked_slp_read_skip_nohash total bs g r :
  run_flat2 (p_slp_read_skip false total) bs = Ok (g, r) -> seeked (p_slp_read_skip false total) bs = true.
Proof.
  unfold p_slp_read_skip. rewrite run_flat2_pb2, seeked_pb2.
  rewrite (no_seek_seeked _ (no_seek_lift p_slp_head)).
  destruct (run_flat2 (lift p_slp_head) bs) as [[[[raw_len s] c] r1]|e|x|]; try (intro H; discriminate H).
  destruct (lookup_size (ps_sizes s) Event_GameEnd) as [esz|]; [|intro H; discriminate H]. cbn zeta.
  destruct (N.eqb raw_len 0 || (raw_len <? ps_bytes_read s + (1 + esz))%N); [intro H; discriminate H|].
  reflexivity.
Qed.

(* for every data and fault-free schedule the fragmented skip-read returns what the flat model returns; the bytes
   read or skipped are `used`; hashing on: the hasher was fed exactly `used` (the skipped bytes included);
   hashing off: the seek has removed the hasher *)
Theorem slp_read_skip_frag hash data sched hashed0 :
  no_fault sched ->
  let '(res, h') := run_frag2 (p_slp_read_skip hash (length data)) (mk_hreader data sched hashed0) in
  match slp_read {| o_skip := true; o_hash := hash |} data with
  | Ok (g, rest) =>
      res = Ok g /\ fs_data (hr_inner h') = rest /\
      exists used, data = used ++ rest /\
                   hr_hashed h' = if hash then option_map (fun l => l ++ used) hashed0 else None
  | Err e => res = Err e
  | Panic x => res = Panic x
  | Fuel => res = Fuel
  end.
Proof.
  intro Hnf. pose proof (run_frag2_flat2 (p_slp_read_skip hash (length data)) data sched hashed0 Hnf) as H.
  cbn zeta in H.
  destruct (run_frag2 (p_slp_read_skip hash (length data)) (mk_hreader data sched hashed0)) as [res h'].
  rewrite <- run_flat2_slp_read_skip.
  destruct (run_flat2 (p_slp_read_skip hash (length data)) data) as [[g rest]|e|x|] eqn:E; try exact H.
  destruct H as (Hres & Hrest & used & Hu & Hh). split; [exact Hres|]. split; [exact Hrest|].
  exists used. split; [exact Hu|]. destruct hash.
  - rewrite (no_seek_seeked _ (no_seek_slp_read_skip_hash (length data))) in Hh. exact Hh.
  - rewrite (seeked_slp_read_skip_nohash _ _ _ _ E) in Hh. exact Hh.
Qed.
Print Assumptions slp_read_skip_frag.

(* the digest: hashing on, from an empty hasher; no side condition is needed: when the file is shorter than the
   declared skip, drop_upto leaves [] on the flat side and io::copy stops at the end of the data having hashed
   everything there was; both sides have then consumed (and the fragmented side hashed) the whole input *)
Theorem slp_read_skip_frag_digest data sched g rest :
  no_fault sched ->
  slp_read {| o_skip := true; o_hash := true |} data = Ok (g, rest) ->
  let '(res, h') := run_frag2 (p_slp_read_skip true (length data)) (mk_hreader data sched (Some [])) in
  res = Ok g /\ fs_data (hr_inner h') = rest /\
  exists used, data = used ++ rest /\ hr_hashed h' = Some used /\ g_hashed g = Some (length used).
Proof.
  intros Hnf Hflat. pose proof (slp_read_skip_frag true data sched (Some []) Hnf) as H.
  destruct (run_frag2 (p_slp_read_skip true (length data)) (mk_hreader data sched (Some []))) as [res h'].
  rewrite Hflat in H. destruct H as (Hres & Hrest & used & Hu & Hh).
  split; [exact Hres|]. split; [exact Hrest|]. exists used. split; [exact Hu|]. split; [exact Hh|].
  rewrite (slp_read_hashed _ _ _ _ Hflat). cbn [o_hash]. rewrite Hu, app_length. f_equal. lia.
Qed.
Print Assumptions slp_read_skip_frag_digest.

(* hashing off: no digest on either side *)
Corollary slp_read_skip_frag_nohash data sched hashed0 g rest :
  no_fault sched ->
  slp_read {| o_skip := true; o_hash := false |} data = Ok (g, rest) ->
  let '(res, h') := run_frag2 (p_slp_read_skip false (length data)) (mk_hreader data sched hashed0) in
  res = Ok g /\ fs_data (hr_inner h') = rest /\ hr_hashed h' = None /\ g_hashed g = None.
Proof.
  intros Hnf Hflat. pose proof (slp_read_skip_frag false data sched hashed0 Hnf) as H.
  destruct (run_frag2 (p_slp_read_skip false (length data)) (mk_hreader data sched hashed0)) as [res h'].
  rewrite Hflat in H. destruct H as (Hres & Hrest & used & Hu & Hh).
  split; [exact Hres|]. split; [exact Hrest|]. split; [exact Hh|].
  rewrite (slp_read_hashed _ _ _ _ Hflat). reflexivity.
Qed.
Print Assumptions slp_read_skip_frag_nohash.

(* faults allowed: Err EIo or the flat model's answer; with hashing on the hasher was fed exactly the bytes
   consumed, whatever happened *)
Theorem slp_read_skip_faulty hash data sched hashed0 :
  let '(res, h') := run_frag2 (p_slp_read_skip hash (length data)) (mk_hreader data sched hashed0) in
  (exists used, data = used ++ fs_data (hr_inner h') /\
                (hr_hashed h' = None \/ hr_hashed h' = option_map (fun l => l ++ used) hashed0) /\
                (hash = true -> hr_hashed h' = option_map (fun l => l ++ used) hashed0)) /\
  (res = Err EIo \/
   match slp_read {| o_skip := true; o_hash := hash |} data with
   | Ok (g, rest) => res = Ok g /\ fs_data (hr_inner h') = rest
   | Err e => res = Err e
   | Panic x => res = Panic x
   | Fuel => res = Fuel
   end).
Proof.
  pose proof (run_frag2_faulty (p_slp_read_skip hash (length data)) data sched hashed0) as H. cbn zeta in H.
  destruct (run_frag2 (p_slp_read_skip hash (length data)) (mk_hreader data sched hashed0)) as [res h'].
  rewrite <- run_flat2_slp_read_skip. destruct H as [(used & Hu & Hh & Hns) Hres]. split; [|exact Hres].
  exists used. split; [exact Hu|]. split; [exact Hh|]. intros ->. apply Hns, no_seek_slp_read_skip_hash.
Qed.
Print Assumptions slp_read_skip_faulty.

(* two fault-free schedules: the same result, rest and hashed bytes whenever the flat run succeeds, and the
   same result otherwise *)
Corollary schedule_independent2 {A} (p : prog2 A) data s1 s2 hashed0 :
  no_fault s1 -> no_fault s2 ->
  let r1 := run_frag2 p (mk_hreader data s1 hashed0) in
  let r2 := run_frag2 p (mk_hreader data s2 hashed0) in
  fst r1 = fst r2 /\
  (forall a, fst r1 = Ok a ->
     fs_data (hr_inner (snd r1)) = fs_data (hr_inner (snd r2)) /\ hr_hashed (snd r1) = hr_hashed (snd r2)).
Proof.
  intros H1 H2 r1 r2. subst r1 r2.
  pose proof (run_frag2_flat2 p data s1 hashed0 H1) as F1. pose proof (run_frag2_flat2 p data s2 hashed0 H2) as F2.
  cbn zeta in F1, F2.
  destruct (run_frag2 p (mk_hreader data s1 hashed0)) as [res1 g1].
  destruct (run_frag2 p (mk_hreader data s2 hashed0)) as [res2 g2]. cbn [fst snd].
  destruct (run_flat2 p data) as [[a rest]|e|x|].
  - destruct F1 as (-> & Hd1 & u1 & Hu1 & Hh1). destruct F2 as (-> & Hd2 & u2 & Hu2 & Hh2).
    split; [reflexivity|]. intros _ _. split; [congruence|].
    assert (u1 = u2) by (apply (app_inv_tail rest); congruence). subst u2. congruence.
  - subst. split; [reflexivity|]. intros a H; discriminate H.
  - subst. split; [reflexivity|]. intros a H; discriminate H.
  - subst. split; [reflexivity|]. intros a H; discriminate H.
Qed.
Print Assumptions schedule_independent2.

(* ---- sanity: the model computes (non-vacuity) ---- *)
Definition ex_data : list byte := map n2b [1; 2; 3; 4; 5; 6; 7; 8; 9; 10]%N.

Example copy_fragmented :
  let h := mk_hreader ex_data [Give 1; Interrupt; Give 0; Give 2; Interrupt] (Some []) in
  copy_take_f (copy_fuel h) 6 h = (Ok tt, mk_hreader (skipn 6 ex_data) [] (Some (firstn 6 ex_data))).
Proof. vm_compute. reflexivity. Qed.

(* the limit exceeds the data: everything there is is hashed, Ok *)
Example copy_past_end :
  let h := mk_hreader ex_data [Give 3; Interrupt; Give 4] (Some []) in
  copy_take_f (copy_fuel h) 4294967295 h = (Ok tt, mk_hreader [] [] (Some ex_data)).
Proof. vm_compute. reflexivity. Qed.

Example copy_faulted :
  let h := mk_hreader ex_data [Give 3; Fault; Give 4] (Some []) in
  copy_take_f (copy_fuel h) 6 h = (Err EIo, mk_hreader (skipn 3 ex_data) [Give 4] (Some (firstn 3 ex_data))).
Proof. vm_compute. reflexivity. Qed.

Example prog2_copy_then_read :
  run_frag2 (P2Read 2 (fun a => PCopy 5 (P2Read 1 (fun b => P2Ret (a, b)))))
            (mk_hreader ex_data [Give 1; Give 1; Give 2; Interrupt; Give 1] (Some [])) =
  (Ok (firstn 2 ex_data, [n2b 8%N]), mk_hreader (skipn 8 ex_data) [] (Some (firstn 8 ex_data))).
Proof. vm_compute. reflexivity. Qed.

Example prog2_seek_then_read :
  run_frag2 (P2Read 2 (fun a => PSeek 5 (P2Read 1 (fun b => P2Ret (a, b)))))
            (mk_hreader ex_data [Give 1; Give 1; Give 2] (Some [])) =
  (Ok (firstn 2 ex_data, [n2b 8%N]), mk_hreader (skipn 8 ex_data) [] None).
Proof. vm_compute. reflexivity. Qed.

(* ---- end to end (C10/C11 over a fragmenting stream): for EVERY finished well-formed replay and every
        fault-free fragmentation, the skipping read with hashing on returns exactly the game of the replay,
        consumes the whole file, and the hasher has been fed exactly the whole file ---- *)
From Peppi Require Model.Writer Model.Recorder Proofs.TableFacts Proofs.ReadProof.

Corollary read_skipping_frag r st sched :
  Recorder.wf_replay r = true -> game_start (Recorder.r_start r) = ROk st -> Recorder.finished r = true ->
  no_fault sched ->
  let data := Recorder.emit r in
  let '(res, h') := run_frag2 (p_slp_read_skip true (length data)) (mk_hreader data sched (Some [])) in
  res = Ok (Recorder.game_of {| o_skip := true; o_hash := true |} r st (TableFacts.end_of r)) /\
  fs_data (hr_inner h') = [] /\ hr_hashed h' = Some data.
Proof.
  intros Hwf Hst Hfin Hnf data.
  pose proof (ReadProof.read_skipping r st Hwf Hst true Hfin) as Hflat. fold data in Hflat.
  pose proof (slp_read_skip_frag_digest data sched _ _ Hnf Hflat) as H.
  destruct (run_frag2 (p_slp_read_skip true (length data)) (mk_hreader data sched (Some []))) as [res h'].
  destruct H as (Hres & Hrest & used & Hu & Hh & _). split; [exact Hres|]. split; [exact Hrest|].
  rewrite Hh, Hu, app_nil_r. reflexivity.
Qed.
Print Assumptions read_skipping_frag.
