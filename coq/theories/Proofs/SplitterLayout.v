(* The message splitter (Gecko codes): the constants of the hand model -- Model/Parse.v [handle_event] (splitter branch) and
   Model/Writer.v [gecko_blocks] -- restated THROUGH what tools/rust2coq.py regenerates from the text of
   src/io/slippi/de.rs fn handle_splitter_event and src/io/slippi/ser.rs fn gecko_codes (Gen/Splitter.v).

   If the source changes the block length 516, the position of the size / wrapped-event / final bytes, the 512-byte data
   slice, the size cap, or -- on the writer side -- the order of the five writes, the block size, the cap of the size field,
   the step of `pos` or the place where the final flag is computed, these theorems stop following from the hand model. *)
From Coq Require Import List Arith NArith ZArith Lia Bool String.
From Coq.Strings Require Import Byte.
From Peppi Require Import Base.Bytes Base.Outcome Base.Stream Layout.Syntax Gen.Funs Gen.Splitter Layout.Sem Layout.Rows
  Model.Ubjson Model.Start Model.Json Model.Parse Model.Reader Model.Writer.
Import ListNotations.
Notation length := (@List.length _) (only parsing).
Local Open Scope string_scope.
Local Open Scope list_scope.

Ltac ev_term x := let v := eval vm_compute in x in progress change x with v.

(* ---------------------------------------------------------------------------------------------------------
   reader: handle_splitter_event *)
Definition handle_event_src (code : N) (buf : list byte) (s : pstate) : outcome (N * pstate) :=
  if N.eqb code Event_MessageSplitter then
    if negb (length buf =? splitter_block_len)%nat then Err EInvalid else
    let actual := be_dec (firstn (snd splitter_size_at) (skipn (fst splitter_size_at) buf)) in
    if (splitter_max_size <? actual)%N then Err EInvalid else
    let wrapped := b2n (nth splitter_wrapped_at buf x00) in
    let final := negb (N.eqb (b2n (nth splitter_final_at buf x00)) 0) in
    let raw' := ps_split_raw s ++ firstn (snd splitter_data) (skipn (fst splitter_data) buf) in
    let act' := ((ps_split_actual s + actual) mod 4294967296)%N in
    if final then
      s' <- handle_known wrapped raw' (set_split s [] act') ;; Ok (wrapped, s')
    else Ok (code, set_split s raw' act')
  else s' <- handle_known code buf s ;; Ok (code, s').

Theorem handle_event_from_source code buf s : handle_event code buf s = handle_event_src code buf s.
Proof.
  unfold handle_event, handle_event_src.
  ev_term splitter_block_len. ev_term splitter_size_at. ev_term splitter_max_size. ev_term splitter_wrapped_at.
  ev_term splitter_final_at. ev_term splitter_data. cbn [fst snd].
  reflexivity.
Qed.

(* ---------------------------------------------------------------------------------------------------------
   writer: gecko_codes *)
Fixpoint code_of (tbl : list (string * N)) (name : string) : option N :=
  match tbl with
  | [] => None
  | (n, c) :: r => if String.eqb n name then Some c else code_of r name
  end.
Definition ecode (e : string) : N := match code_of splitter_event_codes e with Some c => c | None => 0%N end.

(* one pass of the loop body at position pos; [k] continues with the position after the body *)
Fixpoint gw_block (steps : list gwrite) (c : gecko_t) (actual pos : nat) (k : nat -> outcome (list byte)) : outcome (list byte) :=
  match steps with
  | [] => k pos
  | st :: r =>
      match st with
      | GwCode e => b <- gw_block r c actual pos k ;; Ok (ev (ecode e) ++ b)
      | GwBlock len =>
          if (length (gk_bytes c) <? pos + len)%nat then Panic 405          (* codes.bytes[pos..pos + len] *)
          else b <- gw_block r c actual pos k ;; Ok (firstn len (skipn pos (gk_bytes c)) ++ b)
      | GwSizeU16Min cap => b <- gw_block r c actual pos k ;; Ok (be_enc 2 (nn (Nat.min cap (actual - pos))) ++ b)
      | GwAdvance n => gw_block r c actual (pos + n)%nat k
      | GwFinalFlag => b <- gw_block r c actual pos k ;; Ok ([n2b (if (actual <=? pos)%nat then 1 else 0)%N] ++ b)
      end
  end.

(* while pos < actual_size { body } *)
Fixpoint gecko_blocks_tbl (steps : list gwrite) (fuel : nat) (pos : nat) (c : gecko_t) : outcome (list byte) :=
  match fuel with
  | O => Fuel
  | S f =>
      let actual := N.to_nat (gk_actual c) in
      if (pos <? actual)%nat then gw_block steps c actual pos (fun p => gecko_blocks_tbl steps f p c) else Ok []
  end.

Theorem gecko_blocks_from_source fuel pos c : gecko_blocks fuel pos c = gecko_blocks_tbl gecko_write_steps fuel pos c.
Proof.
  revert pos. induction fuel as [|f IH]; intro pos; [reflexivity|].
  cbn [gecko_blocks gecko_blocks_tbl]. cbv zeta.
  destruct (pos <? N.to_nat (gk_actual c))%nat; [|reflexivity].
  unfold gecko_write_steps. cbn [gw_block].
  repeat match goal with |- context [ecode ?e] => ev_term (ecode e) end.
  destruct (length (gk_bytes c) <? pos + 512)%nat; [reflexivity|].
  rewrite <- IH.
  destruct (gecko_blocks f (pos + 512) c); cbn [bind app]; reflexivity.
Qed.

(* the two sides agree with each other: the payload the writer lays out after the MessageSplitter code byte is the block the
   reader takes apart (data, size, wrapped event, final flag at the reader's offsets; total = the reader's block length) *)
Fixpoint gw_layout (steps : list gwrite) (off : nat) : list (string * nat * nat) :=
  match steps with
  | [] => []
  | GwCode e :: r => ("code:" ++ e, off, 1)%string :: gw_layout r (off + 1)
  | GwBlock len :: r => ("data"%string, off, len) :: gw_layout r (off + len)
  | GwSizeU16Min _ :: r => ("size"%string, off, 2) :: gw_layout r (off + 2)
  | GwAdvance _ :: r => gw_layout r off
  | GwFinalFlag :: r => ("final"%string, off, 1) :: gw_layout r (off + 1)
  end.

Theorem splitter_write_read_agree :
  gw_layout (tl gecko_write_steps) 0 =
    [("data", fst splitter_data, snd splitter_data); ("size", fst splitter_size_at, snd splitter_size_at);
     ("code:GeckoCodes", splitter_wrapped_at, 1); ("final", splitter_final_at, 1)]%string /\
  hd GwFinalFlag gecko_write_steps = GwCode "MessageSplitter" /\
  list_sum (map (fun x => snd x) (gw_layout (tl gecko_write_steps) 0)) = splitter_block_len /\
  (forall n, In (GwSizeU16Min n) gecko_write_steps -> N.of_nat n = splitter_max_size) /\
  (forall n, In (GwAdvance n) gecko_write_steps -> n = snd splitter_data).
Proof.
  split; [vm_compute; reflexivity|]. split; [vm_compute; reflexivity|]. split; [vm_compute; reflexivity|].
  split; intros n H; cbn [In gecko_write_steps] in H;
    repeat match type of H with _ \/ _ => destruct H as [H|H] end; try contradiction; try discriminate;
    inversion H; vm_compute; reflexivity.
Qed.

Print Assumptions handle_event_from_source.
Print Assumptions gecko_blocks_from_source.
Print Assumptions splitter_write_read_agree.
