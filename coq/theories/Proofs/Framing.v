(* Byte-level framing lemmas: what the reader model does on the header, the payload table, Game Start and on one
   encoded event.  Everything here is independent of frames. *)
From Coq Require Import List Arith NArith ZArith Lia Bool String ZifyBool ZifyN ZifyNat.
From Coq.Strings Require Import Byte.
From Peppi Require Import Base.Bytes Base.Outcome Base.Stream Layout.Syntax Gen.Funs Layout.Sem Layout.Rows
  Model.Ubjson Model.Start Model.Json Model.Parse Model.Reader Model.Writer Model.Recorder.
Import ListNotations.
Notation length := (@List.length _) (only parsing).

Lemma b2n_n2b_small n : (n < 256)%N -> b2n (n2b n) = n.
Proof. intro H. rewrite b2n_n2b. apply N.mod_small. exact H. Qed.

Lemma list_byte_eqb_refl l : list_byte_eqb l l = true.
Proof. apply list_byte_eqb_eq. reflexivity. Qed.

(* ---- header ---- *)
Lemma expect_bytes_app e rest : expect_bytes e (e ++ rest) = Ok (tt, rest).
Proof.
  unfold expect_bytes, pbind. rewrite rd_exact_app by reflexivity. rewrite list_byte_eqb_refl. reflexivity.
Qed.

Lemma rd_be_app w n rest : (n < 256 ^ N.of_nat w)%N -> rd_be w (be_enc w n ++ rest) = Ok (n, rest).
Proof.
  intro H. unfold rd_be, pbind. rewrite rd_exact_app by apply length_be_enc. unfold ret. rewrite be_dec_enc by exact H. reflexivity.
Qed.

Lemma parse_header_emit n rest : (n < 4294967296)%N -> parse_header (sig_slp ++ be_enc 4 n ++ rest) = Ok (n, rest).
Proof.
  intro H. unfold parse_header, pbind. rewrite expect_bytes_app. apply rd_be_app. exact H.
Qed.

(* ---- one encoded event ---- *)
Lemma parse_event_enc s code size payload rest :
  (code < 256)%N -> lookup_size (ps_sizes s) code = Some size -> length payload = N.to_nat size ->
  parse_event s (n2b code :: payload ++ rest) =
  match handle_event code payload s with
  | Ok (code', s') => Ok (code', add_bytes_read s' (size + 1)%N, rest)
  | Err e => Err e | Panic p => Panic p | Fuel => Fuel
  end.
Proof.
  intros Hc Hl Hp. unfold parse_event, pbind. cbn [rd_u8]. rewrite (b2n_n2b_small code Hc), Hl.
  rewrite rd_exact_app by exact Hp. reflexivity.
Qed.

(* ---- payload table ---- *)
Definition entry_ok (p : N * N) : Prop := (fst p < 256)%N /\ (0 < snd p < 65536)%N.

Lemma be2_dec_enc sz : (sz < 65536)%N ->
  exists h l, be_enc 2 sz = [h; l] /\ (b2n h * 256 + b2n l)%N = sz.
Proof.
  intro H. exists (n2b (sz / 256)), (n2b sz). split.
  - cbn [be_enc]. change (256 ^ N.of_nat 1)%N with 256%N. change (256 ^ N.of_nat 0)%N with 1%N.
    rewrite N.div_1_r. reflexivity.
  - rewrite !b2n_n2b. rewrite (N.mod_small (sz / 256)) by (apply N.div_lt_upper_bound; lia).
    pose proof (N.div_mod sz 256). lia.
Qed.

Lemma table_entries_emit t : forall acc rest,
  Forall entry_ok t ->
  table_entries (length t) (flat_map (fun p => n2b (fst p) :: be_enc 2 (snd p)) t ++ rest) acc = Ok (rev t ++ acc)%list.
Proof.
  induction t as [|[c sz] t IH]; intros acc rest Hok; [reflexivity|].
  inversion Hok as [|? ? [Hc Hs] Hok']; subst. cbn [fst snd] in *.
  destruct (be2_dec_enc sz ltac:(lia)) as (h & l & He & Hv).
  cbn [length flat_map fst snd]. rewrite He. cbn [app table_entries]. rewrite Hv.
  destruct (N.eqb_spec sz 0) as [->|_]; [lia|].
  rewrite (b2n_n2b_small c Hc). rewrite IH by exact Hok'.
  cbn [rev]. rewrite <- app_assoc. reflexivity.
Qed.

Lemma lookup_app l1 l2 c :
  lookup_size (l1 ++ l2) c = match lookup_size l1 c with Some x => Some x | None => lookup_size l2 c end.
Proof.
  induction l1 as [|[k v] r IH]; cbn [app lookup_size]; [reflexivity|].
  destruct (N.eqb k c); [reflexivity|apply IH].
Qed.

Lemma lookup_none l c : ~ In c (map fst l) -> lookup_size l c = None.
Proof.
  induction l as [|[k v] r IH]; cbn; intro H; [reflexivity|].
  destruct (N.eqb_spec k c) as [->|Hne]; [exfalso; apply H; left; reflexivity|].
  apply IH. intro Hin. apply H. right. exact Hin.
Qed.

Lemma lookup_rev l c : NoDup (map fst l) -> lookup_size (rev l) c = lookup_size l c.
Proof.
  induction l as [|[k v] r IH]; intro Hnd; [reflexivity|].
  cbn [map fst] in Hnd. inversion Hnd as [|? ? Hnotin Hnd']; subst.
  cbn [rev]. rewrite lookup_app. rewrite IH by exact Hnd'. cbn [lookup_size].
  destruct (N.eqb_spec k c) as [->|Hne].
  - rewrite (lookup_none r c Hnotin). reflexivity.
  - destruct (lookup_size r c); reflexivity.
Qed.

Lemma parse_payloads_emit t rest :
  Forall entry_ok t -> (length t <= 84)%nat ->
  lookup_size (rev t) Event_GameStart <> None -> lookup_size (rev t) Event_GameEnd <> None ->
  parse_payloads (emit_table t ++ rest) = Ok ((1 + (nn (length t) * 3 + 1))%N, rev t, rest).
Proof.
  intros Hok Hlen Hs He. unfold parse_payloads, emit_table, pbind, ev.
  cbn [app rd_u8]. rewrite (b2n_n2b_small Event_Payloads) by (vm_compute; reflexivity).
  rewrite N.eqb_refl. cbn [negb app rd_u8].
  assert (Hn : (nn (length t) * 3 + 1 < 256)%N) by (unfold nn; lia).
  rewrite (b2n_n2b_small _ Hn).
  replace ((nn (length t) * 3 + 1) mod 3)%N with 1%N.
  2:{ rewrite N.add_comm. rewrite N.mod_add by lia. reflexivity. }
  cbn [N.eqb Pos.eqb negb].
  replace (nn (length t) * 3 + 1 - 1)%N with (nn (length t) * 3)%N by lia.
  assert (Hflen : forall l : list (N * N), length (flat_map (fun p => n2b (fst p) :: be_enc 2 (snd p)) l) = (3 * length l)%nat).
  { induction l as [|x l IHl]; [reflexivity|]. cbn [flat_map length app]. rewrite app_length, length_be_enc, IHl. lia. }
  rewrite rd_exact_app by (rewrite Hflen; unfold nn; lia).
  rewrite N.div_mul by lia. unfold nn. rewrite Nat2N.id.
  pose proof (table_entries_emit t [] [] Hok) as Ht. rewrite !app_nil_r in Ht. rewrite Ht.
  destruct (lookup_size (rev t) Event_GameStart); [|congruence].
  destruct (lookup_size (rev t) Event_GameEnd); [|congruence].
  reflexivity.
Qed.

(* ---- Game Start ---- *)
Lemma parse_game_start_emit sizes br blk st rest :
  lookup_size sizes Event_GameStart = Some (nn (length blk)) -> game_start blk = ROk st ->
  parse_game_start sizes br (ev Event_GameStart ++ blk ++ rest) = Ok ((br + nn (length blk) + 1)%N, st, rest).
Proof.
  intros Hl Hs. unfold parse_game_start, pbind, ev. cbn [app rd_u8].
  rewrite (b2n_n2b_small Event_GameStart) by (vm_compute; reflexivity). rewrite Hl.
  rewrite rd_exact_app by (unfold nn; rewrite Nat2N.id; reflexivity).
  rewrite N.eqb_refl. rewrite Hs. reflexivity.
Qed.
