(* JSON shape of game::Start / game::End: the hand renderings of Model/Json.v (json_start, json_player, json_end: what
   serde_json::to_vec(&game.start) stores as start.json in a .slpp archive and what the harness prints through cjson)
   restated THROUGH the tables that tools/rust2coq.py regenerates from the `#[derive(Serialize)]` declarations of
   src/game/mod.rs, src/io/slippi/mod.rs and src/game/shift_jis.rs (Gen/JsonShape.v): per struct the JSON keys IN ORDER,
   the omission rule of every key (#[serde(skip_serializing_if = "Option::is_none")] or always written), and the kind of
   every field (unsigned / signed integer, f32, bool, string, nested struct, tuple struct / newtype, unit enum by variant
   name, array, Vec, Option).

   [render] is a generic table-driven serialiser over a small universe of values; [gv_start] / [gv_player] / [gv_end] map
   the records of Model/Start.v to that universe BY RUST FIELD NAME (in no particular order: order, presence and kind all
   come from the table).  The theorems are full equalities of JSON values.  A field added, removed, reordered, renamed,
   retyped (u8 -> i8, Option<T> -> T ..), or given / deprived of an omission attribute changes the table and the equality
   fails; a Rust field the hand map does not know is rendered as an explicit `null` under its key, which the hand rendering
   never produces. *)
From Coq Require Import List Arith NArith ZArith Bool String Ascii.
From Coq.Strings Require Import Byte.
From Peppi Require Import Base.Bytes Gen.Funs Gen.JsonShape Model.Ubjson Model.Start Model.Json Model.Api.
Import ListNotations.
Local Open Scope string_scope.
Local Open Scope list_scope.

(* ---------------------------------------------------------------------------------------------------------
   the value universe: numbers are bit patterns (as in Model/Start.v); options and lists carry the map to the universe,
   so that presence tests and iteration are the hand model's own *)
Inductive gval : Type :=
| GNum (n : N) | GBool (b : bool) | GStr (s : list byte)
| GOpt {A : Type} (o : option A) (g : A -> gval)
| GList {A : Type} (l : list A) (g : A -> gval)
| GTup (l : list gval)
| GRec (fs : list (string * gval)).

Fixpoint assoc {B} (l : list (string * B)) (k : string) : option B :=
  match l with
  | [] => None
  | (n, b) :: r => if String.eqb n k then Some b else assoc r k
  end.

(* a unit enum is rendered as the name of the variant with that code: the regenerated (code, name) list, in the format
   Model/Json.v's enum_name takes *)
Fixpoint string_codes (s : string) : list N :=
  match s with EmptyString => [] | String a r => N_of_ascii a :: string_codes r end.
Definition enum_table (name : string) : list (N * list N) :=
  match assoc json_enums name with
  | Some vs => map (fun p => (fst p, string_codes (snd p))) vs
  | None => []
  end.

(* flat_map without the final `++ []` (the same list: concat_fields_spec) *)
Fixpoint concat_fields {X Y} (F : X -> list Y) (l : list X) : list Y :=
  match l with
  | [] => []
  | [x] => F x
  | x :: r => F x ++ concat_fields F r
  end.
Lemma concat_fields_spec {X Y} (F : X -> list Y) l : concat_fields F l = flat_map F l.
Proof.
  induction l as [|x [|y r] IH]; [reflexivity| cbn; rewrite app_nil_r; reflexivity |].
  change (concat_fields F (x :: y :: r)) with (F x ++ concat_fields F (y :: r)). rewrite IH. reflexivity.
Qed.

Fixpoint render (fuel : nat) (k : jkind) (v : gval) {struct fuel} : jv :=
  match fuel with
  | O => JNull
  | S f =>
    match k, v with
    | JkUInt _, GNum n => jn n
    | JkSInt bits, GNum n => JInt (sint (bits / 8) n)
    | JkF32, GNum n => JF32 n
    | JkBool, GBool b => JBool b
    | JkString, GStr s => JStr s
    | JkEnum name, GNum n => enum_name (enum_table name) n
    | JkOption k', GOpt o g => match o with Some a => render f k' (g a) | None => JNull end
    | JkArray _ k', GList l g => JArr (map (fun a => render f k' (g a)) l)
    | JkVec k', GList l g => JArr (map (fun a => render f k' (g a)) l)
    | JkTuple name, v =>
        match assoc json_tuples name with
        | Some [k1] => render f k1 v                       (* serde newtype struct: rendered as its only field *)
        | Some ks =>
            match v with
            | GTup l => JArr ((fix zipr (ks : list jkind) (l : list gval) : list jv :=
                                 match ks, l with
                                 | k1 :: ks', x :: l' => render f k1 x :: zipr ks' l'
                                 | _, _ => []
                                 end) ks l)
            | _ => JNull
            end
        | None => JNull
        end
    | JkStruct name, GRec fs =>
        match assoc json_structs name with
        | Some tbl =>
            JObj (concat_fields (fun fd =>
                    match fd with
                    | (key, fname, om, fk) =>
                        match assoc fs fname with
                        | None => [(sb key, JNull)]           (* a field of the source the hand map does not have *)
                        | Some fv =>
                            match om, fv with
                            | JoSkipIfNone, GOpt o g =>
                                match o with
                                | Some a => [(sb key, render f fk (GOpt (Some a) g))]
                                | None => []
                                end
                            | JoSkipIfNone, _ => [(sb key, JNull)]
                            | JoAlways, _ => [(sb key, render f fk fv)]
                            end
                        end
                    end) tbl)
        | None => JNull
        end
    | _, _ => JNull
    end
  end.

(* deeper than any chain Start -> players -> Player -> ucf -> Ucf -> dash_back -> DashBack *)
Definition json_fuel : nat := 12.

(* ---------------------------------------------------------------------------------------------------------
   the records of Model/Start.v, by Rust field name *)
Definition gv_team (t : N * N) : gval := GRec [("shade", GNum (snd t)); ("color", GNum (fst t))].
Definition gv_ucf (u : option N * option N) : gval :=
  GRec [("dash_back", GOpt (fst u) GNum); ("shield_drop", GOpt (snd u) GNum)].
Definition gv_netplay (n : list byte * list byte * option (list byte)) : gval :=
  GRec [("name", GStr (fst (fst n))); ("code", GStr (snd (fst n))); ("suid", GOpt (snd n) GStr)].

Definition gv_player (p : player) : gval :=
  GRec [("port", GNum (pl_port p)); ("character", GNum (pl_character p)); ("type", GNum (pl_type p));
        ("stocks", GNum (pl_stocks p)); ("costume", GNum (pl_costume p)); ("team", GOpt (pl_team p) gv_team);
        ("handicap", GNum (pl_handicap p)); ("bitfield", GNum (pl_bitfield p)); ("cpu_level", GOpt (pl_cpu_level p) GNum);
        ("offense_ratio", GNum (pl_offense p)); ("defense_ratio", GNum (pl_defense p)); ("model_scale", GNum (pl_scale p));
        ("ucf", GOpt (pl_ucf p) gv_ucf); ("name_tag", GOpt (pl_name_tag p) GStr); ("netplay", GOpt (pl_netplay p) gv_netplay)].

Definition gv_scene (sc : N * N) : gval := GRec [("minor", GNum (fst sc)); ("major", GNum (snd sc))].
Definition gv_match (m : list byte * N * N) : gval :=
  GRec [("id", GStr (fst (fst m))); ("game", GNum (snd (fst m))); ("tiebreaker", GNum (snd m))].

Definition gv_start (s : start_t) : gval :=
  GRec [("bytes", GStr (st_bytes s));
        ("slippi", GRec [("version", GTup [GNum (v0 (st_version s)); GNum (v1 (st_version s)); GNum (v2 (st_version s))])]);
        ("bitfield", GList (st_bitfield s) GNum); ("is_raining_bombs", GBool (st_bombs s)); ("is_teams", GBool (st_teams s));
        ("item_spawn_frequency", GNum (st_item_freq s)); ("self_destruct_score", GNum (st_sd_score s));
        ("stage", GNum (st_stage s)); ("timer", GNum (st_timer s)); ("item_spawn_bitfield", GList (st_item_bitfield s) GNum);
        ("damage_ratio", GNum (st_damage_ratio s)); ("players", GList (st_players s) gv_player);
        ("random_seed", GNum (st_seed s)); ("is_pal", GOpt (st_pal s) GBool); ("is_frozen_ps", GOpt (st_frozen s) GBool);
        ("scene", GOpt (st_scene s) gv_scene); ("language", GOpt (st_language s) GNum); ("match", GOpt (st_match s) gv_match)].

Definition gv_player_end (pp : N * N) : gval := GRec [("port", GNum (fst pp)); ("placement", GNum (snd pp))].
Definition gv_end (e : end_t) : gval :=
  GRec [("bytes", GStr (en_bytes e)); ("method", GNum (en_method e));
        ("lras_initiator", GOpt (en_lras e) (fun o => GOpt o GNum));
        ("players", GOpt (en_players e) (fun l => GList l gv_player_end))].

(* ---------------------------------------------------------------------------------------------------------
   the enums: the regenerated (code, variant name) lists are the name tables the hand rendering uses *)
Theorem json_enums_from_source :
  enum_table "Port" = Port_names /\ enum_table "PlayerType" = PlayerType_names /\ enum_table "DashBack" = DashBack_names /\
  enum_table "ShieldDrop" = ShieldDrop_names /\ enum_table "Language" = Language_names /\ enum_table "EndMethod" = EndMethod_names.
Proof. repeat split; vm_compute; reflexivity. Qed.

(* ---------------------------------------------------------------------------------------------------------
   the renderings, struct by struct (the nested ones first, so that a difference is reported at the struct it is in) *)
Theorem json_team_from_source t :
  JObj (fld "color" (jn (fst t)) ++ fld "shade" (jn (snd t))) = render json_fuel (JkStruct "Team") (gv_team t).
Proof. reflexivity. Qed.

Theorem json_ucf_from_source u :
  JObj (nfld "dash_back" (enum_name DashBack_names) (fst u) ++ nfld "shield_drop" (enum_name ShieldDrop_names) (snd u))
  = render json_fuel (JkStruct "Ucf") (gv_ucf u).
Proof. reflexivity. Qed.

Theorem json_netplay_from_source n :
  JObj (fld "name" (JStr (fst (fst n))) ++ fld "code" (JStr (snd (fst n))) ++ ofld "suid" JStr (snd n))
  = render json_fuel (JkStruct "Netplay") (gv_netplay n).
Proof. reflexivity. Qed.

Theorem json_player_from_source p : json_player p = render json_fuel (JkStruct "Player") (gv_player p).
Proof. reflexivity. Qed.

Theorem json_scene_from_source sc :
  JObj (fld "minor" (jn (fst sc)) ++ fld "major" (jn (snd sc))) = render json_fuel (JkStruct "Scene") (gv_scene sc).
Proof. reflexivity. Qed.

Theorem json_match_from_source m :
  JObj (fld "id" (JStr (fst (fst m))) ++ fld "game" (jn (snd (fst m))) ++ fld "tiebreaker" (jn (snd m)))
  = render json_fuel (JkStruct "Match") (gv_match m).
Proof. reflexivity. Qed.

Theorem json_start_from_source s : json_start s = render json_fuel (JkStruct "Start") (gv_start s).
Proof. reflexivity. Qed.

Theorem json_player_end_from_source pp :
  JObj (fld "port" (enum_name Port_names (fst pp)) ++ fld "placement" (jn (snd pp)))
  = render json_fuel (JkStruct "PlayerEnd") (gv_player_end pp).
Proof. reflexivity. Qed.

Theorem json_end_from_source e : json_end e = render json_fuel (JkStruct "End") (gv_end e).
Proof. reflexivity. Qed.

(* as the harness prints them (Model/Api.v) *)
Corollary api_cjson_from_source :
  (forall s, api_cjson_start s = cjson (render json_fuel (JkStruct "Start") (gv_start s))) /\
  (forall e, api_cjson_end e = cjson (render json_fuel (JkStruct "End") (gv_end e))).
Proof.
  split; intro x; unfold api_cjson_start, api_cjson_end; [rewrite json_start_from_source | rewrite json_end_from_source]; reflexivity.
Qed.

(* ---------------------------------------------------------------------------------------------------------
   keys and presence conditions, read off the table alone *)
Definition keys_of (name : string) : list (string * jomit) :=
  match assoc json_structs name with
  | Some tbl => map (fun fd => match fd with (key, _, om, _) => (key, om) end) tbl
  | None => []
  end.

Theorem json_keys_from_source :
  keys_of "Start" =
    [("slippi", JoAlways); ("bitfield", JoAlways); ("is_raining_bombs", JoAlways); ("is_teams", JoAlways);
     ("item_spawn_frequency", JoAlways); ("self_destruct_score", JoAlways); ("stage", JoAlways); ("timer", JoAlways);
     ("item_spawn_bitfield", JoAlways); ("damage_ratio", JoAlways); ("players", JoAlways); ("random_seed", JoAlways);
     ("is_pal", JoSkipIfNone); ("is_frozen_ps", JoSkipIfNone); ("scene", JoSkipIfNone); ("language", JoSkipIfNone);
     ("match", JoSkipIfNone)] /\
  keys_of "Player" =
    [("port", JoAlways); ("character", JoAlways); ("type", JoAlways); ("stocks", JoAlways); ("costume", JoAlways);
     ("team", JoAlways); ("handicap", JoAlways); ("bitfield", JoAlways); ("cpu_level", JoAlways); ("offense_ratio", JoAlways);
     ("defense_ratio", JoAlways); ("model_scale", JoAlways); ("ucf", JoSkipIfNone); ("name_tag", JoSkipIfNone);
     ("netplay", JoSkipIfNone)] /\
  keys_of "End" = [("method", JoAlways); ("lras_initiator", JoSkipIfNone); ("players", JoSkipIfNone)] /\
  json_skipped = [("Start", "bytes"); ("End", "bytes")].
Proof. repeat split; vm_compute; reflexivity. Qed.

Print Assumptions json_enums_from_source.
Print Assumptions json_team_from_source.
Print Assumptions json_ucf_from_source.
Print Assumptions json_netplay_from_source.
Print Assumptions json_player_from_source.
Print Assumptions json_scene_from_source.
Print Assumptions json_match_from_source.
Print Assumptions json_start_from_source.
Print Assumptions json_player_end_from_source.
Print Assumptions json_end_from_source.
Print Assumptions api_cjson_from_source.
Print Assumptions json_keys_from_source.
