(* The prologue of the .slp reader: the hand model Model/Reader.v [parse_header] / [parse_payloads] / [parse_game_start]
   restated THROUGH the constants and Gallina expressions that tools/rust2coq.py regenerates from the text of
   src/io/slippi/de.rs fn parse_header, fn parse_payloads, fn parse_game_start (Gen/ReadPrologue.v): the signature and the
   width of the raw length; the event code the table must start with, the test on its size byte, the length of the
   buffer, the number of entries (a step_by loop), the reads of one entry, the rejection of a zero size, the two sizes
   that must be present, the number of bytes reported as read; the event a Game Start must carry and the bytes_read
   arithmetic.

   If the source changes one of these (an offset, a comparison, a width, an event, the order of the entry's reads), the
   regenerated definitions change and the equalities below no longer hold of the unchanged hand model. *)
From Coq Require Import List Arith NArith ZArith Lia Bool String.
From Coq.Strings Require Import Byte.
From Peppi Require Import Base.Bytes Base.Outcome Base.Stream Layout.Syntax Gen.Funs Gen.ReadPrologue Layout.Sem Layout.Rows
  Model.Ubjson Model.Start Model.Json Model.Parse Model.Reader.
Import ListNotations.
Notation length := (@List.length _) (only parsing).
Local Open Scope string_scope.

(* ---- parse_header ---- *)
Definition parse_header_src : parser N :=
  pbind (expect_bytes (map n2b header_signature)) (fun _ => rd_be header_len_width).

Theorem parse_header_from_source bs : parse_header bs = parse_header_src bs.
Proof. unfold parse_header, parse_header_src, sig_slp, header_signature, header_len_width. reflexivity. Qed.

(* ---- the entries of the size table ---- *)
(* the big-endian reads of one entry, in table order *)
Fixpoint rd_fields (fs : list (string * nat)) (buf : list byte) : option (list (string * N) * list byte) :=
  match fs with
  | [] => Some ([], buf)
  | (n, w) :: r =>
      match take_exact w buf with
      | Some (a, rest) =>
          match rd_fields r rest with
          | Some (vs, rest') => Some ((n, be_dec a) :: vs, rest')
          | None => None
          end
      | None => None
      end
  end.
Fixpoint fld (vs : list (string * N)) (name : string) : N :=
  match vs with
  | [] => 0%N
  | (n, x) :: r => if String.eqb n name then x else fld r name
  end.

Fixpoint table_entries_src (k : nat) (buf : list byte) (acc : list (N * N)) : outcome (list (N * N)) :=
  match k with
  | O => Ok acc
  | S k' =>
      match rd_fields payloads_entry_reads buf with
      | Some (vs, r) =>
          let sz := fld vs "size" in
          if payloads_zero_size_rejected && N.eqb sz 0 then Err EInvalid
          else table_entries_src k' r ((fld vs "code", sz) :: acc)
      | None => Err EIo
      end
  end.

Lemma table_entries_from_source k : forall buf acc, table_entries k buf acc = table_entries_src k buf acc.
Proof.
  induction k as [|k IH]; intros buf acc; [reflexivity|].
  cbn [table_entries table_entries_src]. unfold payloads_entry_reads, payloads_zero_size_rejected.
  cbn [rd_fields take_exact].
  destruct buf as [|c [|h [|l r]]]; try reflexivity.
  cbn [fld]. change (String.eqb "size" "size") with true. change (String.eqb "code" "size") with false.
  change (String.eqb "code" "code") with true. cbv beta iota. cbn [andb].
  change (be_dec [h; l]) with (b2n h * 256 + b2n l)%N. change (be_dec [c]) with (b2n c).
  destruct (N.eqb (b2n h * 256 + b2n l) 0); [reflexivity|]. apply IH.
Qed.

(* ---- parse_payloads ---- *)
(* the number of iterations of `for _ in (0..upper).step_by(step)` *)
Definition loop_iters (size : N) : nat :=
  N.to_nat ((payloads_loop_upper size + (payloads_loop_step - 1)) / payloads_loop_step)%N.

Definition required_present (sizes : list (N * N)) : bool :=
  forallb (fun e => match lookup_size sizes e with Some _ => true | None => false end) payloads_required.

Definition parse_payloads_src : parser (N * list (N * N)) :=
  pbind rd_u8 (fun code =>
  if negb (N.eqb code payloads_event) then fail EInvalid else
  pbind rd_u8 (fun size =>
  if payloads_size_refused size then fail EInvalid else
  pbind (rd_exact (N.to_nat (payloads_buf_len size))) (fun buf =>
  fun bs =>
    match table_entries_src (loop_iters size) buf [] with
    | Ok sizes => if required_present sizes then Ok (payloads_bytes_read size, sizes, bs) else Err EInvalid
    | Err e => Err e | Panic p => Panic p | Fuel => Fuel
    end))).

(* on a size byte that passes the source's test, the step_by loop runs (size - 1) / 3 times *)
Lemma loop_iters_eq size : payloads_size_refused size = false -> loop_iters size = N.to_nat ((size - 1) / 3)%N.
Proof.
  unfold payloads_size_refused, loop_iters, payloads_loop_upper, payloads_loop_step. intro H.
  apply negb_false_iff in H. apply N.eqb_eq in H.
  pose proof (N.div_mod size 3 ltac:(discriminate)) as Hd. rewrite H in Hd.
  set (q := (size / 3)%N) in *.
  assert (E1 : (size - 1 = 3 * q)%N) by lia.
  f_equal. rewrite E1.
  rewrite (N.mul_comm 3 q), N.div_mul by discriminate.
  symmetry. apply N.div_unique with (r := 2%N); [reflexivity|lia].
Qed.

(* full equality: the same value, the same error class in every failing case (both required sizes are looked up after the
   whole table has been read; a missing one is the same class of error whichever it is) *)
Theorem parse_payloads_from_source bs : parse_payloads bs = parse_payloads_src bs.
Proof.
  unfold parse_payloads, parse_payloads_src, pbind.
  destruct (rd_u8 bs) as [[code r]| | |]; try reflexivity.
  unfold payloads_event. destruct (negb (N.eqb code Event_Payloads)); [reflexivity|].
  destruct (rd_u8 r) as [[size r2]| | |]; try reflexivity.
  change (negb (N.eqb (size mod 3) 1)) with (payloads_size_refused size).
  destruct (payloads_size_refused size) eqn:Hs; [reflexivity|].
  unfold payloads_buf_len.
  destruct (rd_exact (N.to_nat (size - 1)) r2) as [[buf r3]| | |]; try reflexivity.
  rewrite (loop_iters_eq size Hs), <- table_entries_from_source.
  destruct (table_entries (N.to_nat ((size - 1) / 3)) buf []) as [sizes| | |]; try reflexivity.
  unfold required_present, payloads_required, payloads_bytes_read. cbn [forallb].
  destruct (lookup_size sizes Event_GameStart), (lookup_size sizes Event_GameEnd); reflexivity.
Qed.

(* ---- parse_game_start ---- *)
Definition parse_game_start_src (sizes : list (N * N)) (bytes_read : N) : parser (N * start_t) :=
  pbind rd_u8 (fun code =>
  match lookup_size sizes code with
  | None => fail EInvalid
  | Some size =>
      pbind (rd_exact (N.to_nat size)) (fun buf =>
      if N.eqb code game_start_event then
        match game_start buf with
        | ROk st => ret (game_start_bytes_read bytes_read size, st)
        | RErr => fail EInvalid
        | RUnknown => fail EUnknown
        end
      else fail EInvalid)
  end).

Theorem parse_game_start_from_source sizes bytes_read bs :
  parse_game_start sizes bytes_read bs = parse_game_start_src sizes bytes_read bs.
Proof. unfold parse_game_start, parse_game_start_src, game_start_event, game_start_bytes_read. reflexivity. Qed.

(* ---- parse_start, with the three restated ---- *)
Definition parse_start_src : parser pstate :=
  pbind parse_payloads_src (fun '(br, sizes) =>
  pbind (parse_game_start_src sizes br) (fun '(br2, st) =>
  let ports := port_occupancy st in
  ret {| ps_sizes := sizes; ps_bytes_read := br2; ps_split_raw := []; ps_split_actual := 0;
         ps_layout := layout_of (st_version st); ps_start := st; ps_end := None;
         ps_frames := frames_new (st_version st) ports; ps_meta := None; ps_gecko := None; ps_quirk := None |})).

Theorem parse_start_from_source bs : parse_start bs = parse_start_src bs.
Proof.
  unfold parse_start, parse_start_src, pbind. rewrite parse_payloads_from_source.
  destruct (parse_payloads_src bs) as [[[br sizes] r]| | |]; try reflexivity;
    rewrite parse_game_start_from_source; reflexivity.
Qed.

Print Assumptions parse_header_from_source.
Print Assumptions table_entries_from_source.
Print Assumptions parse_payloads_from_source.
Print Assumptions parse_game_start_from_source.
Print Assumptions parse_start_from_source.
