(* C17, order of the events inside a frame: exchanging adjacent INDEPENDENT frame-interior events (an Item and a
   Pre/Post; two Pre/Post events of different characters) does not change what the event handler computes.

   Full equality of outcomes is FALSE when both orders are rejected: the error reported is that of the first event
   that fails.  Counterexample (any version, any state s whose last frame id is not 7): e1 = (Event_Item, []) fails
   with EIo (no room for the frame id); e2 = (Event_FramePre, id 7, port 0, follower 0) fails with EInvalid (wrong
   frame id): run_events s [e1; e2] = Err EIo but run_events s [e2; e1] = Err EInvalid ([swap_not_eq] below proves
   this).  What holds, and is proved here: one order is accepted iff the other is, with the same final state
   ([run_events_swaps], [run_events_swaps_iff], [run_events_swaps_sim]). *)
From Coq Require Import List Arith NArith ZArith Lia Bool String ZifyBool ZifyN ZifyNat Permutation.
From Coq.Strings Require Import Byte.
From Peppi Require Import Base.Bytes Base.Outcome Base.Stream Layout.Syntax Gen.Funs Layout.Sem Layout.Rows
  Model.Ubjson Model.Start Model.Json Model.Parse Model.Reader Model.Writer Model.Recorder
  Proofs.FrameStep.
Import ListNotations.
Notation length := (@List.length _) (only parsing).

Notation event := (N * list byte)%type (only parsing).
Definition ev_kind (e : event) : N := fst e.
Definition ev_id_bytes (e : event) : list byte := firstn 4 (snd e).
Definition ev_slot_bytes (e : event) : list byte := firstn 2 (skipn 4 (snd e)).   (* port, follower flag of a Pre/Post *)
Definition is_pre (e : event) : bool := N.eqb (fst e) Event_FramePre.
Definition is_post (e : event) : bool := N.eqb (fst e) Event_FramePost.
Definition is_item (e : event) : bool := N.eqb (fst e) Event_Item.
Definition is_char (e : event) : bool := is_pre e || is_post e.
Definition interior (e : event) : bool := is_pre e || is_post e || is_item e.

(* the character a Pre/Post event is about, DECODED: follower bytes 1 and 2 denote the same character *)
Definition slot_key (e : event) : option (N * bool) :=
  match ev_slot_bytes e with
  | [p; f] => Some (b2n p, negb (N.eqb (b2n f) 0))
  | _ => None
  end.

Definition key_eqb (k1 k2 : N * bool) : bool := N.eqb (fst k1) (fst k2) && Bool.eqb (snd k1) (snd k2).

Definition keys_differ (e1 e2 : event) : bool :=
  match slot_key e1, slot_key e2 with
  | Some k1, Some k2 => negb (key_eqb k1 k2)
  | _, _ => false
  end.

(* two adjacent events may be exchanged when they are frame-interior events that touch different columns:
   an Item and a Pre/Post (either order); two Pre/Post events whose slot bytes decode to DIFFERENT characters.
   Not exchanged: a Pre and a Post of the same character; two Items (item order is data). *)
Definition independent (e1 e2 : event) : bool :=
  (is_item e1 && is_char e2) || (is_char e1 && is_item e2) || (is_char e1 && is_char e2 && keys_differ e1 e2).

Inductive swaps : list event -> list event -> Prop :=
| sw_refl l : swaps l l
| sw_swap l1 e1 e2 l2 : independent e1 e2 = true -> swaps (l1 ++ e1 :: e2 :: l2) (l1 ++ e2 :: e1 :: l2)
| sw_trans a b c : swaps a b -> swaps b c -> swaps a c.

(* ---- [independent] and [swaps] are symmetric ---- *)
Lemma key_eqb_sym k1 k2 : key_eqb k1 k2 = key_eqb k2 k1.
Proof. unfold key_eqb. rewrite N.eqb_sym. f_equal. destruct (snd k1), (snd k2); reflexivity. Qed.

Lemma key_eqb_eq k1 k2 : key_eqb k1 k2 = true <-> k1 = k2.
Proof.
  destruct k1 as [p1 f1], k2 as [p2 f2]. unfold key_eqb. cbn [fst snd]. rewrite andb_true_iff, N.eqb_eq. split.
  - intros [H1 H2]. apply Bool.eqb_prop in H2. congruence.
  - intro H. injection H as -> ->. split; [reflexivity|apply Bool.eqb_reflx].
Qed.

Lemma keys_differ_sym e1 e2 : keys_differ e1 e2 = keys_differ e2 e1.
Proof. unfold keys_differ. destruct (slot_key e1), (slot_key e2); try reflexivity. rewrite key_eqb_sym. reflexivity. Qed.

Lemma independent_sym e1 e2 : independent e1 e2 = independent e2 e1.
Proof.
  unfold independent. rewrite (keys_differ_sym e1 e2).
  destruct (is_item e1), (is_item e2), (is_char e1), (is_char e2), (keys_differ e2 e1); reflexivity.
Qed.

Lemma swaps_sym a b : swaps a b -> swaps b a.
Proof.
  induction 1 as [l|l1 e1 e2 l2 H|a b c _ IH1 _ IH2].
  - apply sw_refl.
  - apply sw_swap. rewrite independent_sym. exact H.
  - eapply sw_trans; eassumption.
Qed.

Lemma independent_interior e1 e2 : independent e1 e2 = true -> interior e1 = true /\ interior e2 = true.
Proof.
  unfold independent, interior, is_char.
  destruct (is_pre e1), (is_post e1), (is_item e1), (is_pre e2), (is_post e2), (is_item e2); cbn; intro H;
    try discriminate; split; reflexivity.
Qed.

(* ---- side facts ---- *)
Lemma swaps_perm evs evs' : swaps evs evs' -> Permutation evs evs'.
Proof.
  induction 1 as [l|l1 e1 e2 l2 H|a b c _ IH1 _ IH2].
  - apply Permutation_refl.
  - apply Permutation_app_head. apply perm_swap.
  - eapply Permutation_trans; eassumption.
Qed.

Lemma swaps_evs_len evs evs' : swaps evs evs' -> evs_len evs = evs_len evs'.
Proof.
  induction 1 as [l|l1 e1 e2 l2 H|a b c _ IH1 _ IH2].
  - reflexivity.
  - rewrite !evs_len_app, !evs_len_cons. lia.
  - congruence.
Qed.

Lemma swaps_bytes_len evs evs' : swaps evs evs' -> length (flat_map enc_ev evs) = length (flat_map enc_ev evs').
Proof.
  induction 1 as [l|l1 e1 e2 l2 H|a b c _ IH1 _ IH2].
  - reflexivity.
  - rewrite !flat_map_app, !app_length, !flat_map_cons', !app_length. lia.
  - congruence.
Qed.

Lemma swaps_ok sizes evs evs' : swaps evs evs' -> Forall (ev_ok sizes) evs -> Forall (ev_ok sizes) evs'.
Proof. intros H. apply Permutation_Forall. apply swaps_perm. exact H. Qed.

Lemma swaps_app_r l1 l1' l2 : swaps l1 l1' -> swaps (l1 ++ l2) (l1' ++ l2).
Proof.
  induction 1 as [l|la e1 e2 lb H|a b c _ IH1 _ IH2].
  - apply sw_refl.
  - rewrite <- !app_assoc. cbn [app]. apply sw_swap. exact H.
  - eapply sw_trans; eassumption.
Qed.

Lemma swaps_app_l l1 l2 l2' : swaps l2 l2' -> swaps (l1 ++ l2) (l1 ++ l2').
Proof.
  induction 1 as [l|la e1 e2 lb H|a b c _ IH1 _ IH2].
  - apply sw_refl.
  - rewrite !app_assoc. apply sw_swap. exact H.
  - eapply sw_trans; eassumption.
Qed.

Lemma swaps_app l1 l2 l1' l2' : swaps l1 l1' -> swaps l2 l2' -> swaps (l1 ++ l2) (l1' ++ l2').
Proof. intros H1 H2. eapply sw_trans; [apply swaps_app_r; exact H1|apply swaps_app_l; exact H2]. Qed.

Lemma swaps_cons e l l' : swaps l l' -> swaps (e :: l) (e :: l').
Proof. intro H. apply (swaps_app_l [e]). exact H. Qed.

(* ---- the arms of Pre, Post and Item as functions of the frames, the layout and the version only ---- *)
Definition last_ids (fr : frames) : option Z := last (map Some (f_ids fr)) None.

Definition chk_id (fr : frames) (id : Z) : outcome unit :=
  match last_ids fr with
  | Some l => if Z.eqb l id then Ok tt else Err EInvalid
  | None => Err EInvalid
  end.

Definition lookup_fr (fr : frames) (k : N * bool) : outcome nat :=
  match find_slot (f_chars fr) (fst k) (snd k) O with
  | Some i => Ok i
  | None => Err EInvalid
  end.

(* the header of a Pre/Post payload: frame id, character, rest *)
Definition dec_char (buf : list byte) : outcome (Z * (N * bool) * list byte) :=
  '(id, r) <- i32_at buf ;;
  '(port, r) <- u8_hd r ;;
  '(folb, r) <- u8_hd r ;;
  Ok (id, (port, negb (N.eqb folb 0)), r).

Definition step_char (push : row -> cdata -> cdata) (n : nat) (buf : list byte) (fr : frames) : outcome frames :=
  '(id, k, r) <- dec_char buf ;;
  _ <- chk_id fr id ;;
  i <- lookup_fr fr k ;;
  rw <- read_push n r ;;
  Ok (upd_char fr i (push rw)).

Definition with_item (fr : frames) (items : list row) : frames :=
  {| f_ids := f_ids fr; f_chars := f_chars fr; f_start := f_start fr; f_end := f_end fr;
     f_item_off := f_item_off fr; f_item := Some items |}.

Definition step_item (n : nat) (buf : list byte) (fr : frames) : outcome frames :=
  '(id, r) <- i32_at buf ;;
  _ <- chk_id fr id ;;
  match f_item fr with
  | None => Err EInvalid
  | Some items => rw <- read_push n r ;; Ok (with_item fr (items ++ [rw]))
  end.

(* the frame id an event carries (meaningful when the payload has at least 4 bytes) *)
Definition id_of (buf : list byte) : Z := sint 4 (be_dec (firstn 4 buf)).
Definition lid (fr : frames) : Z := match last_ids fr with Some l => l | None => (FIRST_INDEX - 1)%Z end.
(* before 2.2, a Pre event carrying the next id closes the current frame and opens the next *)
Definition open_close (L : layout) (fr : frames) (id : Z) : frames :=
  with_ids (frame_close_frames L fr) (f_ids fr ++ [id]).

Definition step_pre (v22 : bool) (L : layout) (buf : list byte) (fr : frames) : outcome frames :=
  if v22 then step_char push_pre (sz_pre L) buf fr
  else if Z.eqb (lid fr + 1) (id_of buf) then step_char push_pre (sz_pre L) buf (open_close L fr (id_of buf))
  else step_char push_pre (sz_pre L) buf fr.

Definition ev_step (v22 : bool) (L : layout) (e : event) (fr : frames) : outcome frames :=
  if is_pre e then step_pre v22 L (snd e) fr
  else if is_post e then step_char push_post (sz_post L) (snd e) fr
  else step_item (sz_item L) (snd e) fr.

Lemma i32_at_id buf id r : i32_at buf = Ok (id, r) -> id = id_of buf /\ r = skipn 4 buf /\ (4 <= length buf)%nat.
Proof.
  unfold i32_at, id_of. destruct (Nat.ltb_spec (length buf) 4) as [Hl|Hl]; [discriminate|].
  intro H. apply ok_inj in H. injection H as <- <-. repeat split. exact Hl.
Qed.

Lemma chk_id_open L fr id : chk_id (open_close L fr id) id = Ok tt.
Proof.
  unfold chk_id, last_ids, open_close. cbn [with_ids f_ids]. rewrite last_map_snoc, Z.eqb_refl. reflexivity.
Qed.

Lemma arm_pre_step buf s :
  arm_pre buf s = (fr' <- step_pre (vgte (ver s) 2 2) (ps_layout s) buf (ps_frames s) ;; Ok (set_frames s fr')).
Proof.
  unfold arm_pre, step_pre, step_char, dec_char.
  destruct (i32_at buf) as [[id r]| | |] eqn:Ei; cbn [bind].
  2-4: destruct (vgte (ver s) 2 2); [reflexivity|]; destruct (Z.eqb _ _); reflexivity.
  apply i32_at_id in Ei as (Hid & _ & _). rewrite <- Hid.
  destruct (u8_hd r) as [[port r1]| | |]; cbn [bind].
  2-4: destruct (vgte (ver s) 2 2); [reflexivity|]; destruct (Z.eqb _ _); reflexivity.
  destruct (u8_hd r1) as [[folb r2]| | |]; cbn [bind].
  2-4: destruct (vgte (ver s) 2 2); [reflexivity|]; destruct (Z.eqb _ _); reflexivity.
  change (expect_id s id) with (chk_id (ps_frames s) id).
  change (match last_id s with Some l => l | None => (FIRST_INDEX - 1)%Z end) with (lid (ps_frames s)).
  destruct (vgte (ver s) 2 2).
  - destruct (chk_id (ps_frames s) id) as [[]| | |]; cbn [bind]; try reflexivity.
    change (data_lookup s port (negb (N.eqb folb 0))) with (lookup_fr (ps_frames s) (port, negb (N.eqb folb 0))).
    destruct (lookup_fr _ _); cbn [bind]; try reflexivity.
    destruct (read_push _ r2); cbn [bind]; reflexivity.
  - cbv zeta. destruct (Z.eqb (lid (ps_frames s) + 1) id).
    + cbn [bind]. rewrite chk_id_open. cbn [bind].
      change (data_lookup (frame_open (frame_close s) id) port (negb (N.eqb folb 0)))
        with (lookup_fr (open_close (ps_layout s) (ps_frames s) id) (port, negb (N.eqb folb 0))).
      destruct (lookup_fr _ _); cbn [bind]; try reflexivity.
      destruct (read_push _ r2); cbn [bind]; reflexivity.
    + destruct (chk_id (ps_frames s) id) as [[]| | |]; cbn [bind]; try reflexivity.
      change (data_lookup s port (negb (N.eqb folb 0))) with (lookup_fr (ps_frames s) (port, negb (N.eqb folb 0))).
      destruct (lookup_fr _ _); cbn [bind]; try reflexivity.
      destruct (read_push _ r2); cbn [bind]; reflexivity.
Qed.

Lemma arm_post_step buf s :
  arm_post buf s = (fr' <- step_char push_post (sz_post (ps_layout s)) buf (ps_frames s) ;; Ok (set_frames s fr')).
Proof.
  unfold arm_post, step_char, dec_char.
  destruct (i32_at buf) as [[id r]| | |]; cbn [bind]; try reflexivity.
  destruct (u8_hd r) as [[port r1]| | |]; cbn [bind]; try reflexivity.
  destruct (u8_hd r1) as [[folb r2]| | |]; cbn [bind]; try reflexivity.
  change (expect_id s id) with (chk_id (ps_frames s) id).
  destruct (chk_id (ps_frames s) id) as [[]| | |]; cbn [bind]; try reflexivity.
  change (data_lookup s port (negb (N.eqb folb 0))) with (lookup_fr (ps_frames s) (port, negb (N.eqb folb 0))).
  destruct (lookup_fr _ _); cbn [bind]; try reflexivity.
  destruct (read_push _ r2); cbn [bind]; reflexivity.
Qed.

Lemma arm_item_step buf s :
  arm_item buf s = (fr' <- step_item (sz_item (ps_layout s)) buf (ps_frames s) ;; Ok (set_frames s fr')).
Proof.
  unfold arm_item, step_item.
  destruct (i32_at buf) as [[id r]| | |]; cbn [bind]; try reflexivity.
  change (expect_id s id) with (chk_id (ps_frames s) id).
  destruct (chk_id (ps_frames s) id) as [[]| | |]; cbn [bind]; try reflexivity.
  destruct (f_item (ps_frames s)); [|reflexivity].
  destruct (read_push _ r); cbn [bind]; reflexivity.
Qed.

Lemma handle_event_step e s : interior e = true ->
  handle_event (fst e) (snd e) s
  = (fr' <- ev_step (vgte (ver s) 2 2) (ps_layout s) e (ps_frames s) ;; Ok (fst e, set_frames s fr')).
Proof.
  destruct e as [c p]. unfold interior, ev_step, is_pre, is_post, is_item. cbn [fst snd]. intro H.
  destruct (N.eqb_spec c Event_FramePre) as [->|N1].
  { rewrite handle_event_known by reflexivity. change (handle_known Event_FramePre) with arm_pre.
    rewrite arm_pre_step. destruct (step_pre _ _ _ _); reflexivity. }
  destruct (N.eqb_spec c Event_FramePost) as [->|N2].
  { rewrite handle_event_known by reflexivity. change (handle_known Event_FramePost) with arm_post.
    rewrite arm_post_step. destruct (step_char _ _ _ _); reflexivity. }
  destruct (N.eqb_spec c Event_Item) as [->|N3]; [|discriminate].
  rewrite handle_event_known by reflexivity. change (handle_known Event_Item) with arm_item.
  rewrite arm_item_step. destruct (step_item _ _ _); reflexivity.
Qed.

(* run_events on an interior event, in terms of the frames-level step *)
Lemma interior_not_end e : interior e = true -> N.eqb (fst e) Event_GameEnd = false.
Proof.
  unfold interior, is_pre, is_post, is_item. intro H.
  destruct (N.eqb_spec (fst e) Event_FramePre) as [->|]; [reflexivity|].
  destruct (N.eqb_spec (fst e) Event_FramePost) as [->|]; [reflexivity|].
  destruct (N.eqb_spec (fst e) Event_Item) as [->|]; [reflexivity|discriminate].
Qed.

Lemma run_step e l s : interior e = true ->
  run_events s (e :: l)
  = match ev_step (vgte (ver s) 2 2) (ps_layout s) e (ps_frames s) with
    | Ok fr' => run_events (st s fr' (nn (length (snd e)) + 1)) l
    | Err x => Err x | Panic x => Panic x | Fuel => Fuel
    end.
Proof.
  intro H. pose proof (interior_not_end e H) as Hne. pose proof (handle_event_step e s H) as Hs.
  destruct e as [c p]. cbn [fst snd] in *. cbn [run_events]. rewrite Hs.
  destruct (ev_step _ _ _ _); cbn [bind]; try reflexivity. rewrite Hne. reflexivity.
Qed.

(* ---- slots: lookup reads tags only; updates at different indexes commute ---- *)
Lemma find_slot_upd cs k g p f i :
  find_slot (upd_nth k (fun c => {| sl_port := sl_port c; sl_fol := sl_fol c; sl_data := g (sl_data c) |}) cs) p f i
  = find_slot cs p f i.
Proof.
  revert k i. induction cs as [|c r IH]; intros [|k] i; cbn [upd_nth find_slot sl_port sl_fol]; try reflexivity.
  rewrite IH. reflexivity.
Qed.

Lemma find_slot_sound cs p f : forall i0 i, find_slot cs p f i0 = Some i ->
  exists j, i = (i0 + j)%nat /\ nth_error (tags cs) j = Some (p, f).
Proof.
  induction cs as [|c r IH]; intros i0 i H; cbn [find_slot] in H; [discriminate|].
  destruct (N.eqb (sl_port c) p && Bool.eqb (sl_fol c) f) eqn:E.
  - apply andb_true_iff in E as [E1 E2]. apply N.eqb_eq in E1. apply Bool.eqb_prop in E2.
    injection H as <-. exists O. split; [lia|]. cbn [tags map nth_error]. congruence.
  - apply IH in H as (j & -> & Hj). exists (S j). split; [lia|]. exact Hj.
Qed.

Lemma find_slot_key cs k i : find_slot cs (fst k) (snd k) O = Some i -> nth_error (tags cs) i = Some k.
Proof. intro H. apply find_slot_sound in H as (j & -> & Hj). destruct k. exact Hj. Qed.

Lemma upd_nth_comm {A} (f g : A -> A) : forall (l : list A) i j, i <> j ->
  upd_nth i f (upd_nth j g l) = upd_nth j g (upd_nth i f l).
Proof.
  induction l as [|x l IH]; intros [|i] [|j] H; cbn [upd_nth]; try reflexivity; [lia|].
  f_equal. apply IH. lia.
Qed.

Lemma upd_char_comm fr i j f g : i <> j -> upd_char (upd_char fr j g) i f = upd_char (upd_char fr i f) j g.
Proof.
  intro H. unfold upd_char. cbn [f_ids f_chars f_start f_end f_item_off f_item]. f_equal.
  apply upd_nth_comm. exact H.
Qed.

Lemma lookup_upd fr i g k : lookup_fr (upd_char fr i g) k = lookup_fr fr k.
Proof. unfold lookup_fr, upd_char. cbn [f_chars]. rewrite find_slot_upd. reflexivity. Qed.

(* ---- inversion and introduction for the steps ---- *)
Lemma step_char_inv push n buf fr fr' : step_char push n buf fr = Ok fr' ->
  exists id k r i rw, dec_char buf = Ok (id, k, r) /\ chk_id fr id = Ok tt /\
    find_slot (f_chars fr) (fst k) (snd k) O = Some i /\ read_push n r = Ok rw /\ fr' = upd_char fr i (push rw).
Proof.
  unfold step_char. intro H.
  destruct (dec_char buf) as [[[id k] r]| | |] eqn:E1; cbn [bind] in H; try discriminate.
  destruct (chk_id fr id) as [[]| | |] eqn:E2; cbn [bind] in H; try discriminate.
  unfold lookup_fr in H.
  destruct (find_slot (f_chars fr) (fst k) (snd k) O) as [i|] eqn:E3; cbn [bind] in H; try discriminate.
  destruct (read_push n r) as [rw| | |] eqn:E4; cbn [bind] in H; try discriminate.
  apply ok_inj in H. exists id, k, r, i, rw. repeat split; try assumption. symmetry. exact H.
Qed.

Lemma step_char_intro push n buf fr id k r i rw :
  dec_char buf = Ok (id, k, r) -> chk_id fr id = Ok tt ->
  find_slot (f_chars fr) (fst k) (snd k) O = Some i -> read_push n r = Ok rw ->
  step_char push n buf fr = Ok (upd_char fr i (push rw)).
Proof.
  intros H1 H2 H3 H4. unfold step_char, lookup_fr. rewrite H1. cbn [bind]. rewrite H2. cbn [bind].
  rewrite H3. cbn [bind]. rewrite H4. reflexivity.
Qed.

Lemma step_item_inv n buf fr fr' : step_item n buf fr = Ok fr' ->
  exists id r items rw, i32_at buf = Ok (id, r) /\ chk_id fr id = Ok tt /\ f_item fr = Some items /\
    read_push n r = Ok rw /\ fr' = with_item fr (items ++ [rw]).
Proof.
  unfold step_item. intro H.
  destruct (i32_at buf) as [[id r]| | |] eqn:E1; cbn [bind] in H; try discriminate.
  destruct (chk_id fr id) as [[]| | |] eqn:E2; cbn [bind] in H; try discriminate.
  destruct (f_item fr) as [items|] eqn:E3; try discriminate.
  destruct (read_push n r) as [rw| | |] eqn:E4; cbn [bind] in H; try discriminate.
  apply ok_inj in H. exists id, r, items, rw. repeat split; try assumption. symmetry. exact H.
Qed.

Lemma step_item_intro n buf fr id r items rw :
  i32_at buf = Ok (id, r) -> chk_id fr id = Ok tt -> f_item fr = Some items -> read_push n r = Ok rw ->
  step_item n buf fr = Ok (with_item fr (items ++ [rw])).
Proof.
  intros H1 H2 H3 H4. unfold step_item. rewrite H1. cbn [bind]. rewrite H2. cbn [bind]. rewrite H3, H4. reflexivity.
Qed.

(* the decoded header agrees with the byte-level accessors *)
Lemma dec_char_key c buf id k r : dec_char buf = Ok (id, k, r) -> id = id_of buf /\ slot_key (c, buf) = Some k.
Proof.
  unfold dec_char. intro H.
  destruct (i32_at buf) as [[id0 r0]| | |] eqn:Ei; cbn [bind] in H; try discriminate.
  apply i32_at_id in Ei as (-> & -> & _).
  unfold slot_key, ev_slot_bytes. cbn [snd].
  destruct (skipn 4 buf) as [|x [|y r2]]; cbn [u8_hd bind] in H; try discriminate.
  apply ok_inj in H. injection H as <- <- _. split; reflexivity.
Qed.

Lemma chk_id_last fr id : chk_id fr id = Ok tt <-> last_ids fr = Some id.
Proof.
  unfold chk_id. destruct (last_ids fr) as [l|]; [|split; discriminate].
  destruct (Z.eqb_spec l id) as [->|N]; split; try reflexivity; try discriminate. intro H. congruence.
Qed.

(* ---- two independent steps commute (versions with Frame Start events: no step opens a frame) ---- *)
Lemma char_char_comm f g n1 n2 e1 e2 fr fr1 fr2 :
  keys_differ e1 e2 = true ->
  step_char f n1 (snd e1) fr = Ok fr1 -> step_char g n2 (snd e2) fr1 = Ok fr2 ->
  exists fr1', step_char g n2 (snd e2) fr = Ok fr1' /\ step_char f n1 (snd e1) fr1' = Ok fr2.
Proof.
  intros Hk H1 H2.
  apply step_char_inv in H1 as (id1 & k1 & r1 & i1 & rw1 & D1 & C1 & F1 & R1 & ->).
  apply step_char_inv in H2 as (id2 & k2 & r2 & i2 & rw2 & D2 & C2 & F2 & R2 & ->).
  change (chk_id fr id2 = Ok tt) in C2.
  unfold upd_char in F2. cbn [f_chars] in F2. rewrite find_slot_upd in F2.
  assert (Hne : i1 <> i2).
  { intros ->. apply find_slot_key in F1, F2. rewrite F1 in F2. injection F2 as ->.
    destruct e1 as [c1 b1], e2 as [c2 b2]. cbn [snd] in *.
    apply (dec_char_key c1) in D1 as [_ K1]. apply (dec_char_key c2) in D2 as [_ K2].
    unfold keys_differ in Hk. rewrite K1, K2 in Hk.
    assert (E : key_eqb k2 k2 = true) by (apply key_eqb_eq; reflexivity). rewrite E in Hk. discriminate. }
  exists (upd_char fr i2 (g rw2)). split.
  - apply (step_char_intro g n2 _ fr id2 k2 r2 i2 rw2 D2 C2 F2 R2).
  - rewrite (step_char_intro f n1 _ (upd_char fr i2 (g rw2)) id1 k1 r1 i1 rw1 D1).
    + f_equal. apply upd_char_comm. exact Hne.
    + exact C1.
    + unfold upd_char. cbn [f_chars]. rewrite find_slot_upd. exact F1.
    + exact R1.
Qed.

Lemma char_item_comm f n1 n2 b1 b2 fr fr1 fr2 :
  step_char f n1 b1 fr = Ok fr1 -> step_item n2 b2 fr1 = Ok fr2 ->
  exists fr1', step_item n2 b2 fr = Ok fr1' /\ step_char f n1 b1 fr1' = Ok fr2.
Proof.
  intros H1 H2.
  apply step_char_inv in H1 as (id1 & k1 & r1 & i1 & rw1 & D1 & C1 & F1 & R1 & ->).
  apply step_item_inv in H2 as (id2 & r2 & items & rw2 & D2 & C2 & I2 & R2 & ->).
  change (chk_id fr id2 = Ok tt) in C2. change (f_item fr = Some items) in I2.
  exists (with_item fr (items ++ [rw2])). split.
  - apply (step_item_intro n2 b2 fr id2 r2 items rw2 D2 C2 I2 R2).
  - rewrite (step_char_intro f n1 b1 (with_item fr (items ++ [rw2])) id1 k1 r1 i1 rw1 D1 C1 F1 R1). reflexivity.
Qed.

Lemma item_char_comm f n1 n2 b1 b2 fr fr1 fr2 :
  step_item n2 b2 fr = Ok fr1 -> step_char f n1 b1 fr1 = Ok fr2 ->
  exists fr1', step_char f n1 b1 fr = Ok fr1' /\ step_item n2 b2 fr1' = Ok fr2.
Proof.
  intros H2 H1.
  apply step_item_inv in H2 as (id2 & r2 & items & rw2 & D2 & C2 & I2 & R2 & ->).
  apply step_char_inv in H1 as (id1 & k1 & r1 & i1 & rw1 & D1 & C1 & F1 & R1 & ->).
  change (chk_id fr id1 = Ok tt) in C1. change (find_slot (f_chars fr) (fst k1) (snd k1) O = Some i1) in F1.
  exists (upd_char fr i1 (f rw1)). split.
  - apply (step_char_intro f n1 b1 fr id1 k1 r1 i1 rw1 D1 C1 F1 R1).
  - rewrite (step_item_intro n2 b2 (upd_char fr i1 (f rw1)) id2 r2 items rw2 D2 C2 I2 R2). reflexivity.
Qed.

Lemma is_item_not_char e : is_item e = true -> is_pre e = false /\ is_post e = false.
Proof. unfold is_item, is_pre, is_post. intro H. apply N.eqb_eq in H. rewrite H. split; reflexivity. Qed.

Lemma ev_step_char L e : is_char e = true ->
  exists f n, forall fr, ev_step true L e fr = step_char f n (snd e) fr.
Proof.
  unfold is_char, ev_step, step_pre. intro H. destruct (is_pre e).
  - exists push_pre, (sz_pre L). reflexivity.
  - cbn [orb] in H. rewrite H. exists push_post, (sz_post L). reflexivity.
Qed.

Lemma ev_step_item v L e fr : is_item e = true -> ev_step v L e fr = step_item (sz_item L) (snd e) fr.
Proof. intro H. apply is_item_not_char in H as [H1 H2]. unfold ev_step. rewrite H1, H2. reflexivity. Qed.

Lemma step_comm L e1 e2 fr fr1 fr2 : independent e1 e2 = true ->
  ev_step true L e1 fr = Ok fr1 -> ev_step true L e2 fr1 = Ok fr2 ->
  exists fr1', ev_step true L e2 fr = Ok fr1' /\ ev_step true L e1 fr1' = Ok fr2.
Proof.
  unfold independent. intros Hi H1 H2.
  apply orb_true_iff in Hi as [Hi|Hi]; [apply orb_true_iff in Hi as [Hi|Hi]|]; apply andb_true_iff in Hi as [A B].
  - destruct (ev_step_char L e2 B) as (f & n & Hf). rewrite Hf in H2. rewrite (ev_step_item _ _ _ _ A) in H1.
    destruct (item_char_comm f n _ _ _ _ _ _ H1 H2) as (fr1' & X & Y).
    exists fr1'. rewrite Hf, (ev_step_item _ _ _ _ A). split; assumption.
  - destruct (ev_step_char L e1 A) as (f & n & Hf). rewrite Hf in H1. rewrite (ev_step_item _ _ _ _ B) in H2.
    destruct (char_item_comm f n _ _ _ _ _ _ H1 H2) as (fr1' & X & Y).
    exists fr1'. rewrite Hf, (ev_step_item _ _ _ _ B). split; assumption.
  - apply andb_true_iff in A as [A1 A2].
    destruct (ev_step_char L e1 A1) as (f & n1 & Hf). destruct (ev_step_char L e2 A2) as (g & n2 & Hg).
    rewrite Hf in H1. rewrite Hg in H2.
    destruct (char_char_comm f g n1 n2 e1 e2 _ _ _ B H1 H2) as (fr1' & X & Y).
    exists fr1'. rewrite Hf, Hg. split; assumption.
Qed.

(* ---- lifting to run_events ---- *)
Lemma pair_swap s e1 e2 l s' :
  interior e1 = true -> interior e2 = true ->
  (forall fr1 fr2, ev_step (vgte (ver s) 2 2) (ps_layout s) e1 (ps_frames s) = Ok fr1 ->
                   ev_step (vgte (ver s) 2 2) (ps_layout s) e2 fr1 = Ok fr2 ->
     exists fr1', ev_step (vgte (ver s) 2 2) (ps_layout s) e2 (ps_frames s) = Ok fr1' /\
                  ev_step (vgte (ver s) 2 2) (ps_layout s) e1 fr1' = Ok fr2) ->
  run_events s (e1 :: e2 :: l) = Ok s' -> run_events s (e2 :: e1 :: l) = Ok s'.
Proof.
  intros I1 I2 Hc H.
  rewrite (run_step e1 _ s I1) in H.
  destruct (ev_step (vgte (ver s) 2 2) (ps_layout s) e1 (ps_frames s)) as [fr1| | |] eqn:E1; try discriminate.
  rewrite (run_step e2 _ _ I2) in H. rewrite st_ver, st_layout, st_frames in H.
  destruct (ev_step (vgte (ver s) 2 2) (ps_layout s) e2 fr1) as [fr2| | |] eqn:E2; try discriminate.
  destruct (Hc fr1 fr2 eq_refl E2) as (fr1' & X & Y).
  rewrite (run_step e2 _ s I2), X. rewrite (run_step e1 _ _ I1). rewrite st_ver, st_layout, st_frames, Y.
  rewrite st_st in *.
  replace (nn (length (snd e2)) + 1 + (nn (length (snd e1)) + 1))%N
    with (nn (length (snd e1)) + 1 + (nn (length (snd e2)) + 1))%N by lia.
  exact H.
Qed.

Lemma run_events_ver s evs s' : run_events s evs = Ok s' -> ver s' = ver s.
Proof. intro H. apply run_events_env in H as (_ & _ & H & _). unfold ver. rewrite H. reflexivity. Qed.

(* MAIN (versions with Frame Start events, >= 2.2) *)
Theorem run_events_swaps s evs evs' :
  vgte (ver s) 2 2 = true -> swaps evs evs' ->
  forall s', run_events s evs = Ok s' -> run_events s evs' = Ok s'.
Proof.
  intros Hv Hsw. revert s Hv.
  induction Hsw as [l|l1 e1 e2 l2 Hi|a b c _ IH1 _ IH2]; intros s Hv s' H.
  - exact H.
  - rewrite run_events_app in *.
    destruct (run_events s l1) as [s1| | |] eqn:E1; try discriminate.
    pose proof (run_events_ver _ _ _ E1) as Hv1.
    destruct (independent_interior _ _ Hi) as [I1 I2].
    apply (pair_swap s1 e1 e2 l2 s' I1 I2); [|exact H].
    rewrite Hv1, Hv. intros fr1 fr2. apply step_comm. exact Hi.
  - apply IH2; [exact Hv|]. apply IH1; [exact Hv|exact H].
Qed.

Corollary run_events_swaps_iff s evs evs' s' :
  vgte (ver s) 2 2 = true -> swaps evs evs' -> (run_events s evs = Ok s' <-> run_events s evs' = Ok s').
Proof.
  intros Hv Hsw. split; apply run_events_swaps; try exact Hv; [exact Hsw|apply swaps_sym; exact Hsw].
Qed.

(* the two outcomes are the same accepted state, or both are rejections (possibly with different error classes) *)
Definition outcome_sim {A} (x y : outcome A) : Prop :=
  match x, y with
  | Ok a, Ok b => a = b
  | Ok _, _ | _, Ok _ => False
  | _, _ => True
  end.

Lemma outcome_sim_of_iff {A} (x y : outcome A) : (forall a, x = Ok a <-> y = Ok a) -> outcome_sim x y.
Proof.
  intro H. destruct x as [a| | |], y as [b| | |]; cbn; try exact I.
  - destruct (H a) as [H1 _]. specialize (H1 eq_refl). apply ok_inj in H1. congruence.
  - destruct (H a) as [H1 _]. specialize (H1 eq_refl). discriminate.
  - destruct (H a) as [H1 _]. specialize (H1 eq_refl). discriminate.
  - destruct (H a) as [H1 _]. specialize (H1 eq_refl). discriminate.
  - destruct (H b) as [_ H1]. specialize (H1 eq_refl). discriminate.
  - destruct (H b) as [_ H1]. specialize (H1 eq_refl). discriminate.
  - destruct (H b) as [_ H1]. specialize (H1 eq_refl). discriminate.
Qed.

Corollary run_events_swaps_sim s evs evs' :
  vgte (ver s) 2 2 = true -> swaps evs evs' -> outcome_sim (run_events s evs) (run_events s evs').
Proof. intros Hv Hsw. apply outcome_sim_of_iff. intro a. apply run_events_swaps_iff; assumption. Qed.

(* ---- STRETCH: all versions, including those before 2.2 where the first Pre of a frame opens it ----
   Before 2.2 the exchange of two independent events is NOT sound in every state: with the last frame id = id - 1,
   [Pre id c1; Post id c2] is accepted (the Pre opens frame id) while [Post id c2; Pre id c1] is rejected (the Post
   comes before its frame is open): [old_swap_counterexample] below.  It is sound
   - when both events are Pre events carrying the same id bytes (whichever comes first opens the frame), or
   - when the frame is already open at the exchange: the state's last id is the id both events carry; in a list,
     that is guaranteed when the event just before the pair is an interior event carrying the same id bytes. *)
Lemma id_of_bytes (e1 e2 : event) : ev_id_bytes e1 = ev_id_bytes e2 -> id_of (snd e1) = id_of (snd e2).
Proof. unfold ev_id_bytes, id_of. intros ->. reflexivity. Qed.

Lemma step_same_test L e fr : Z.eqb (lid fr + 1) (id_of (snd e)) = false -> ev_step false L e fr = ev_step true L e fr.
Proof. intro H. unfold ev_step, step_pre. rewrite H. reflexivity. Qed.

Lemma step_same_open L e fr : last_ids fr = Some (id_of (snd e)) -> ev_step false L e fr = ev_step true L e fr.
Proof. intro H. apply step_same_test. unfold lid. rewrite H. apply Z.eqb_neq. lia. Qed.

Lemma step_opening L e fr : is_pre e = true -> Z.eqb (lid fr + 1) (id_of (snd e)) = true ->
  ev_step false L e fr = ev_step true L e (open_close L fr (id_of (snd e))).
Proof. intros Hp H. unfold ev_step, step_pre. rewrite Hp, H. reflexivity. Qed.

Lemma step_char_ids push n buf fr fr' : step_char push n buf fr = Ok fr' ->
  last_ids fr = Some (id_of buf) /\ last_ids fr' = Some (id_of buf).
Proof.
  intro H. apply step_char_inv in H as (id & k & r & i & rw & D & C & _ & _ & ->).
  apply (dec_char_key 0%N) in D as [-> _]. apply chk_id_last in C. split; exact C.
Qed.

Lemma step_item_ids n buf fr fr' : step_item n buf fr = Ok fr' ->
  last_ids fr = Some (id_of buf) /\ last_ids fr' = Some (id_of buf).
Proof.
  intro H. apply step_item_inv in H as (id & r & items & rw & D & C & _ & _ & ->).
  apply i32_at_id in D as [-> _]. apply chk_id_last in C. split; exact C.
Qed.

Lemma ev_step_true_ids L e fr fr' : ev_step true L e fr = Ok fr' ->
  last_ids fr = Some (id_of (snd e)) /\ last_ids fr' = Some (id_of (snd e)).
Proof.
  unfold ev_step, step_pre. destruct (is_pre e); [apply step_char_ids|].
  destruct (is_post e); [apply step_char_ids|apply step_item_ids].
Qed.

(* after any accepted interior event the last frame id is the one the event carries *)
Lemma ev_step_ids v L e fr fr' : ev_step v L e fr = Ok fr' -> last_ids fr' = Some (id_of (snd e)).
Proof.
  destruct v; [intro H; apply ev_step_true_ids in H as [_ H]; exact H|].
  unfold ev_step, step_pre. destruct (is_pre e).
  - destruct (Z.eqb _ _); intro H; apply step_char_ids in H as [_ H]; exact H.
  - destruct (is_post e); intro H; [apply step_char_ids in H|apply step_item_ids in H]; destruct H as [_ H]; exact H.
Qed.

(* the frame is open: any version *)
Lemma step_comm_open v L e1 e2 fr fr1 fr2 :
  independent e1 e2 = true -> last_ids fr = Some (id_of (snd e1)) -> id_of (snd e1) = id_of (snd e2) ->
  ev_step v L e1 fr = Ok fr1 -> ev_step v L e2 fr1 = Ok fr2 ->
  exists fr1', ev_step v L e2 fr = Ok fr1' /\ ev_step v L e1 fr1' = Ok fr2.
Proof.
  intros Hi Hl Hid H1 H2. destruct v; [apply (step_comm L e1 e2 fr fr1 fr2 Hi H1 H2)|].
  rewrite step_same_open in H1 by exact Hl.
  pose proof (ev_step_true_ids _ _ _ _ H1) as [_ Hl1].
  rewrite step_same_open in H2 by (rewrite <- Hid; exact Hl1).
  destruct (step_comm L e1 e2 fr fr1 fr2 Hi H1 H2) as (fr1' & X & Y).
  exists fr1'. pose proof (ev_step_true_ids _ _ _ _ X) as [_ Hl2].
  rewrite step_same_open by (rewrite <- Hid; exact Hl).
  rewrite step_same_open by (rewrite Hid; exact Hl2). split; assumption.
Qed.

(* two Pre events with the same id: any version, any state *)
Lemma step_comm_pre v L e1 e2 fr fr1 fr2 :
  independent e1 e2 = true -> is_pre e1 = true -> is_pre e2 = true -> id_of (snd e1) = id_of (snd e2) ->
  ev_step v L e1 fr = Ok fr1 -> ev_step v L e2 fr1 = Ok fr2 ->
  exists fr1', ev_step v L e2 fr = Ok fr1' /\ ev_step v L e1 fr1' = Ok fr2.
Proof.
  intros Hi P1 P2 Hid H1 H2. destruct v; [apply (step_comm L e1 e2 fr fr1 fr2 Hi H1 H2)|].
  destruct (Z.eqb (lid fr + 1) (id_of (snd e1))) eqn:Et.
  - (* the first of the two opens the frame *)
    rewrite (step_opening L e1 fr P1 Et) in H1.
    pose proof (ev_step_true_ids _ _ _ _ H1) as [_ Hl1].
    rewrite step_same_open in H2 by (rewrite <- Hid; exact Hl1).
    destruct (step_comm L e1 e2 _ fr1 fr2 Hi H1 H2) as (fr1' & X & Y).
    exists fr1'. pose proof (ev_step_true_ids _ _ _ _ X) as [_ Hl2].
    rewrite (step_opening L e2 fr P2) by (rewrite <- Hid; exact Et). rewrite <- Hid.
    rewrite step_same_open by (rewrite Hid; exact Hl2). split; assumption.
  - (* the frame is already open, or both are rejected *)
    pose proof H1 as H1'. rewrite (step_same_test L e1 fr Et) in H1'.
    apply ev_step_true_ids in H1' as [Hl _].
    apply (step_comm_open false L e1 e2 fr fr1 fr2 Hi Hl Hid H1 H2).
Qed.

(* state-level statements, all versions *)
Lemma last_ids_state s : last_ids (ps_frames s) = last_id s. Proof. reflexivity. Qed.

Theorem run_events_swap_open s e1 e2 l s' :
  independent e1 e2 = true -> last_id s = Some (id_of (snd e1)) -> ev_id_bytes e1 = ev_id_bytes e2 ->
  run_events s (e1 :: e2 :: l) = Ok s' -> run_events s (e2 :: e1 :: l) = Ok s'.
Proof.
  intros Hi Hl Hid. destruct (independent_interior _ _ Hi) as [I1 I2].
  apply (pair_swap s e1 e2 l s' I1 I2). intros fr1 fr2.
  apply step_comm_open; [exact Hi|exact Hl|apply id_of_bytes; exact Hid].
Qed.

Theorem run_events_swap_pre s e1 e2 l s' :
  independent e1 e2 = true -> is_pre e1 = true -> is_pre e2 = true -> ev_id_bytes e1 = ev_id_bytes e2 ->
  run_events s (e1 :: e2 :: l) = Ok s' -> run_events s (e2 :: e1 :: l) = Ok s'.
Proof.
  intros Hi P1 P2 Hid. destruct (independent_interior _ _ Hi) as [I1 I2].
  apply (pair_swap s e1 e2 l s' I1 I2). intros fr1 fr2.
  apply step_comm_pre; [exact Hi|exact P1|exact P2|apply id_of_bytes; exact Hid].
Qed.

(* list-level: the exchanges that are sound in every version *)
Inductive swaps_old : list event -> list event -> Prop :=
| swo_refl l : swaps_old l l
| swo_pre l1 e1 e2 l2 :
    independent e1 e2 = true -> is_pre e1 = true -> is_pre e2 = true -> ev_id_bytes e1 = ev_id_bytes e2 ->
    swaps_old (l1 ++ e1 :: e2 :: l2) (l1 ++ e2 :: e1 :: l2)
| swo_open l1 e0 e1 e2 l2 :
    interior e0 = true -> independent e1 e2 = true ->
    ev_id_bytes e0 = ev_id_bytes e1 -> ev_id_bytes e0 = ev_id_bytes e2 ->
    swaps_old (l1 ++ e0 :: e1 :: e2 :: l2) (l1 ++ e0 :: e2 :: e1 :: l2)
| swo_trans a b c : swaps_old a b -> swaps_old b c -> swaps_old a c.

Lemma swaps_old_swaps a b : swaps_old a b -> swaps a b.
Proof.
  induction 1 as [l|l1 e1 e2 l2 Hi _ _ _|l1 e0 e1 e2 l2 _ Hi _ _|a b c _ IH1 _ IH2].
  - apply sw_refl.
  - apply sw_swap. exact Hi.
  - change (l1 ++ e0 :: e1 :: e2 :: l2) with (l1 ++ [e0] ++ e1 :: e2 :: l2).
    change (l1 ++ e0 :: e2 :: e1 :: l2) with (l1 ++ [e0] ++ e2 :: e1 :: l2).
    rewrite !app_assoc. apply sw_swap. exact Hi.
  - eapply sw_trans; eassumption.
Qed.

Lemma swaps_old_sym a b : swaps_old a b -> swaps_old b a.
Proof.
  induction 1 as [l|l1 e1 e2 l2 Hi P1 P2 Hid|l1 e0 e1 e2 l2 I0 Hi H1 H2|a b c _ IH1 _ IH2].
  - apply swo_refl.
  - apply swo_pre; [rewrite independent_sym; exact Hi|exact P2|exact P1|symmetry; exact Hid].
  - apply swo_open; [exact I0|rewrite independent_sym; exact Hi|exact H2|exact H1].
  - eapply swo_trans; eassumption.
Qed.

Theorem run_events_swaps_old s evs evs' :
  swaps_old evs evs' -> forall s', run_events s evs = Ok s' -> run_events s evs' = Ok s'.
Proof.
  intros Hsw. revert s.
  induction Hsw as [l|l1 e1 e2 l2 Hi P1 P2 Hid|l1 e0 e1 e2 l2 I0 Hi Hid1 Hid2|a b c _ IH1 _ IH2]; intros s s' H.
  - exact H.
  - rewrite run_events_app in *.
    destruct (run_events s l1) as [s1| | |]; try discriminate.
    apply (run_events_swap_pre s1 e1 e2 l2 s' Hi P1 P2 Hid H).
  - rewrite run_events_app in *.
    destruct (run_events s l1) as [s1| | |]; try discriminate.
    rewrite (run_step e0 _ s1 I0) in H. rewrite (run_step e0 _ s1 I0).
    destruct (ev_step (vgte (ver s1) 2 2) (ps_layout s1) e0 (ps_frames s1)) as [fr0| | |] eqn:E0; try discriminate.
    apply ev_step_ids in E0.
    apply (run_events_swap_open _ e1 e2 l2 s' Hi); [|congruence|exact H].
    rewrite <- last_ids_state, st_frames, E0. f_equal. apply id_of_bytes. exact Hid1.
  - apply IH2. apply IH1. exact H.
Qed.

Corollary run_events_swaps_old_iff s evs evs' s' :
  swaps_old evs evs' -> (run_events s evs = Ok s' <-> run_events s evs' = Ok s').
Proof. intro Hsw. split; apply run_events_swaps_old; [exact Hsw|apply swaps_old_sym; exact Hsw]. Qed.

Corollary run_events_swaps_old_sim s evs evs' :
  swaps_old evs evs' -> outcome_sim (run_events s evs) (run_events s evs').
Proof. intro Hsw. apply outcome_sim_of_iff. intro a. apply run_events_swaps_old_iff. exact Hsw. Qed.

(* ---- using [swaps]: moving an event past a block of events it is independent of; reorderings ---- *)
Lemma swaps_move e l1 l2 : Forall (fun x => independent e x = true) l1 -> swaps (e :: l1 ++ l2) (l1 ++ e :: l2).
Proof.
  induction 1 as [|x l1 Hx _ IH]; [apply sw_refl|]. cbn [app].
  eapply sw_trans; [apply (sw_swap [] e x (l1 ++ l2) Hx)|]. cbn [app]. apply swaps_cons. exact IH.
Qed.

(* l' is l with events moved only past events they are independent of: the permutations of l that keep the
   relative order of every two dependent events (in particular each character's Pre before its Post, the Items in
   their order).  No event is independent of itself, so equal events are handled consistently. *)
Inductive reorder : list event -> list event -> Prop :=
| ro_nil : reorder [] []
| ro_cons e l l1 l2 : reorder l (l1 ++ l2) -> Forall (fun x => independent e x = true) l1 ->
    reorder (e :: l) (l1 ++ e :: l2).

Lemma reorder_swaps l l' : reorder l l' -> swaps l l'.
Proof.
  induction 1 as [|e l l1 l2 _ IH Hf]; [apply sw_refl|].
  eapply sw_trans; [apply swaps_cons; exact IH|apply swaps_move; exact Hf].
Qed.

Lemma reorder_refl l : reorder l l.
Proof. induction l as [|e l IH]; [apply ro_nil|]. apply (ro_cons e l [] l IH). constructor. Qed.

Corollary run_events_reorder s evs evs' s' :
  vgte (ver s) 2 2 = true -> reorder evs evs' -> (run_events s evs = Ok s' <-> run_events s evs' = Ok s').
Proof. intros Hv H. apply run_events_swaps_iff; [exact Hv|apply reorder_swaps; exact H]. Qed.

Lemma independent_irrefl e : independent e e = false.
Proof.
  unfold independent, keys_differ. destruct (is_item e) eqn:A.
  - apply is_item_not_char in A as [A1 A2]. unfold is_char. rewrite A1, A2. reflexivity.
  - destruct (is_char e); [|reflexivity]. cbn [andb orb]. destruct (slot_key e) as [k|]; [|reflexivity].
    assert (E : key_eqb k k = true) by (apply key_eqb_eq; reflexivity). rewrite E. reflexivity.
Qed.

(* ---- the counterexamples, proved ---- *)
(* full equality of outcomes fails when both orders are rejected *)
Lemma swap_not_eq s :
  vgte (ver s) 2 2 = true -> last_id s <> Some 7%Z ->
  let e1 : event := (Event_Item, []) in
  let e2 : event := (Event_FramePre, [x00; x00; x00; x07; x00; x00]) in
  independent e1 e2 = true /\ run_events s [e1; e2] = Err EIo /\ run_events s [e2; e1] = Err EInvalid.
Proof.
  intros Hv Hl e1 e2. split; [reflexivity|]. split.
  - rewrite (run_step e1) by reflexivity. rewrite ev_step_item by reflexivity. reflexivity.
  - rewrite (run_step e2) by reflexivity. rewrite Hv.
    change (ev_step true (ps_layout s) e2 (ps_frames s))
      with (step_char push_pre (sz_pre (ps_layout s)) (snd e2) (ps_frames s)).
    unfold step_char.
    assert (D : dec_char (snd e2) = Ok (7%Z, (0%N, false), [])) by (vm_compute; reflexivity).
    rewrite D. cbn [bind]. unfold chk_id. rewrite last_ids_state.
    destruct (last_id s) as [l|]; [|reflexivity].
    destruct (Z.eqb_spec l 7) as [->|N]; [congruence|reflexivity].
Qed.

(* before 2.2, a Post cannot be moved in front of the Pre that opens its frame *)
Definition cx_layout : layout := {| sz_pre := 0; sz_post := 0; sz_start := 0; sz_end := 0; sz_item := 0 |}.
Definition cx_frames : frames :=
  {| f_ids := [];
     f_chars := [ {| sl_port := 0; sl_fol := false; sl_data := empty_cdata |};
                  {| sl_port := 1; sl_fol := false; sl_data := empty_cdata |} ];
     f_start := None; f_end := None; f_item_off := None; f_item := None |}.

Lemma old_swap_counterexample s :
  vgte (ver s) 2 2 = false -> ps_layout s = cx_layout -> ps_frames s = cx_frames ->
  let e1 : event := (Event_FramePre, [xff; xff; xff; x85; x00; x00]) in      (* id -123 = FIRST_INDEX, port 0 *)
  let e2 : event := (Event_FramePost, [xff; xff; xff; x85; x01; x00]) in     (* id -123, port 1 *)
  independent e1 e2 = true /\ ev_id_bytes e1 = ev_id_bytes e2 /\
  is_ok (run_events s [e1; e2]) = true /\ run_events s [e2; e1] = Err EInvalid.
Proof.
  intros Hv HL Hf e1 e2. split; [reflexivity|]. split; [reflexivity|]. split.
  - rewrite (run_step e1) by reflexivity. rewrite Hv, HL, Hf.
    assert (E1 : ev_step false cx_layout e1 cx_frames
                 = Ok (upd_char (open_close cx_layout cx_frames (-123)) 0 (push_pre []))) by (vm_compute; reflexivity).
    rewrite E1. rewrite (run_step e2) by reflexivity. rewrite st_ver, st_layout, st_frames, Hv, HL.
    match goal with |- context [ev_step false cx_layout e2 ?fr] =>
      assert (E2 : ev_step false cx_layout e2 fr = Ok (upd_char fr 1 (push_post []))) by (vm_compute; reflexivity) end.
    rewrite E2. reflexivity.
  - rewrite (run_step e2) by reflexivity. rewrite Hv, HL, Hf.
    assert (E2 : ev_step false cx_layout e2 cx_frames = Err EInvalid) by (vm_compute; reflexivity).
    rewrite E2. reflexivity.
Qed.

Print Assumptions run_events_swaps.
Print Assumptions run_events_swaps_iff.
Print Assumptions run_events_swaps_sim.
Print Assumptions run_events_swaps_old.
Print Assumptions run_events_swaps_old_sim.
Print Assumptions run_events_swap_open.
Print Assumptions run_events_swap_pre.
Print Assumptions run_events_reorder.
Print Assumptions swaps_perm.
Print Assumptions swaps_evs_len.
Print Assumptions swaps_bytes_len.
Print Assumptions swaps_ok.
Print Assumptions swaps_app.
Print Assumptions swap_not_eq.
Print Assumptions old_swap_counterexample.
