From Coq Require Import List Arith NArith ZArith Lia Bool String.
From Coq.Strings Require Import Byte.
From Peppi Require Import Base.Bytes Base.Outcome Base.Stream Layout.Syntax Gen.Funs Layout.Sem Layout.Rows
  Model.Ubjson Model.Start Model.Json Model.Parse Model.Reader.
Import ListNotations.
Notation length := (@List.length _) (only parsing).

(* an event whose code peppi does not know leaves the state unchanged *)
Lemma c08_unknown_event_noop code buf s :
  existsb (N.eqb code) Event_codes = false -> handle_event code buf s = Ok (code, s).
Proof.
  intro H. unfold handle_event.
  assert (Hs : N.eqb code Event_MessageSplitter = false).
  { destruct (N.eqb code Event_MessageSplitter) eqn:E; [|reflexivity].
    apply N.eqb_eq in E. subst. vm_compute in H. discriminate. }
  rewrite Hs. unfold handle_known.
  repeat match goal with
         | |- context [N.eqb code ?c] =>
           let E := fresh "E" in
           destruct (N.eqb code c) eqn:E;
             [apply N.eqb_eq in E; subst code; vm_compute in H; discriminate|]
         end.
  reflexivity.
Qed.

(* ... and parse_event just consumes it and counts its bytes *)
Lemma c08_unknown_event_skipped s code size payload rest :
  existsb (N.eqb code) Event_codes = false -> (code < 256)%N ->
  lookup_size (ps_sizes s) code = Some size -> length payload = N.to_nat size ->
  parse_event s (n2b code :: payload ++ rest) = Ok (code, add_bytes_read s (size + 1)%N, rest).
Proof.
  intros Hu Hc Hl Hp. unfold parse_event, pbind. cbn [rd_u8].
  assert (Hb : b2n (n2b code) = code) by (rewrite b2n_n2b; apply N.mod_small; exact Hc).
  rewrite Hb, Hl. rewrite rd_exact_app by exact Hp.
  rewrite (c08_unknown_event_noop code payload s Hu). reflexivity.
Qed.

(* extra trailing payload bytes never change what the generated readers decode *)
Lemma c08_read_push_ignores_suffix n payload extra row :
  read_push n payload = Ok row -> read_push n (payload ++ extra) = Ok row.
Proof.
  unfold read_push. destruct (Nat.ltb_spec (length payload) n) as [|H]; [discriminate|].
  intro E. inversion E; subst. rewrite app_length.
  destruct (Nat.ltb_spec (length payload + length extra) n); [lia|].
  rewrite firstn_app. replace (n - length payload)%nat with O by lia. cbn [firstn]. rewrite app_nil_r. reflexivity.
Qed.

Lemma c08_decoder_ignores_suffix v E payload extra vals rest :
  dec (row_leaves v E) payload = Some (vals, rest) -> dec (row_leaves v E) (payload ++ extra) = Some (vals, rest ++ extra).
Proof. apply dec_ignores_suffix. Qed.

(* Game Start: bytes beyond the last tail peppi knows (block length >= 760) do not change any exposed field *)
Lemma sub_app blk extra off len : (off + len <= length blk)%nat -> sub (blk ++ extra) off len = sub blk off len.
Proof.
  intro Hb. unfold sub. rewrite skipn_app, firstn_app, skipn_length.
  replace (len - (length blk - off))%nat with O by lia. cbn [firstn]. rewrite app_nil_r. reflexivity.
Qed.

Lemma u8_at_app blk extra off : (off < length blk)%nat -> u8_at (blk ++ extra) off = u8_at blk off.
Proof. intro H. unfold u8_at. rewrite sub_app by lia. reflexivity. Qed.

Lemma be_at_app blk extra off w : (off + w <= length blk)%nat -> be_at (blk ++ extra) off w = be_at blk off w.
Proof. intro H. unfold be_at. rewrite sub_app by lia. reflexivity. Qed.

Lemma nth_chunks i k n bs : nth i (chunks n k bs) [] = if (i <? k)%nat then firstn n (skipn (n * i) bs) else [].
Proof.
  revert i bs. induction k as [|k IH]; intros i bs; cbn [chunks].
  - destruct i; reflexivity.
  - destruct i as [|i]; [rewrite Nat.mul_0_r; reflexivity|]. cbn [nth]. rewrite IH.
    destruct (Nat.ltb_spec i k), (Nat.ltb_spec (S i) (S k)); try lia; [|reflexivity].
    rewrite skipn_skipn. f_equal. f_equal. lia.
Qed.

Lemma players_of_app blk extra :
  (760 <= length blk)%nat ->
  players_of (blk ++ extra) (Some 320%nat) (Some 352%nat) (Some 420%nat) (Some 584%nat) =
  players_of blk (Some 320%nat) (Some 352%nat) (Some 420%nat) (Some 584%nat).
Proof.
  intro Hlen. unfold players_of. f_equal. apply map_ext_in. intros i Hi.
  assert (Hi4 : (i < 4)%nat) by (cbn in Hi; lia).
  unfold opt_chunk. rewrite u8_at_app by lia. rewrite !sub_app by lia.
  rewrite !nth_chunks. destruct (Nat.ltb_spec i 6); [|lia].
  rewrite !skipn_skipn.
  change (firstn 36 (skipn (100 + 36 * i) (blk ++ extra))) with (sub (blk ++ extra) (100 + 36 * i) 36).
  rewrite sub_app by lia. reflexivity.
Qed.

Lemma tail_present n off need : (off + need <= n)%nat -> (off < n)%nat -> tail_at n off need = ROk (Some off).
Proof.
  intros Ha Hb. unfold tail_at. destruct (Nat.leb_spec n off) as [Hc|Hc]; [lia|].
  destruct (Nat.ltb_spec n (off + need)) as [Hd|Hd]; [lia|]. reflexivity.
Qed.

Lemma game_start_full blk : (760 <= length blk)%nat ->
  game_start blk =
  (language <~ language_of blk (Some 700%nat) ;; mtch <~ match_of blk (Some 701%nat) ;;
   players <~ players_of blk (Some 320%nat) (Some 352%nat) (Some 420%nat) (Some 584%nat) ;;
   ROk (mk_start blk (Some 416%nat) (Some 417%nat) (Some 418%nat) language mtch players)).
Proof.
  intro H. unfold game_start. destruct (Nat.ltb_spec (length blk) 320) as [Hq|Hq]; [lia|].
  rewrite (tail_present _ 320 32) by lia. cbn [rbind next_tail].
  rewrite (tail_present _ 352 64) by lia. cbn [rbind next_tail].
  rewrite (tail_present _ 416 1) by lia. cbn [rbind next_tail].
  rewrite (tail_present _ 417 1) by lia. cbn [rbind next_tail].
  rewrite (tail_present _ 418 2) by lia. cbn [rbind next_tail].
  rewrite (tail_present _ 420 164) by lia. cbn [rbind next_tail].
  rewrite (tail_present _ 584 116) by lia. cbn [rbind next_tail].
  rewrite (tail_present _ 700 1) by lia. cbn [rbind next_tail].
  rewrite (tail_present _ 701 59) by lia. cbn [rbind next_tail].
  reflexivity.
Qed.

Lemma c08_start_ignores_suffix blk extra s :
  (760 <= length blk)%nat -> game_start blk = ROk s ->
  exists s', game_start (blk ++ extra) = ROk s' /\
             st_players s' = st_players s /\ st_version s' = st_version s /\ st_stage s' = st_stage s /\
             st_timer s' = st_timer s /\ st_bitfield s' = st_bitfield s /\ st_item_bitfield s' = st_item_bitfield s /\
             st_bombs s' = st_bombs s /\ st_teams s' = st_teams s /\ st_item_freq s' = st_item_freq s /\
             st_sd_score s' = st_sd_score s /\ st_damage_ratio s' = st_damage_ratio s /\
             st_language s' = st_language s /\ st_match s' = st_match s /\ st_scene s' = st_scene s /\
             st_pal s' = st_pal s /\ st_frozen s' = st_frozen s /\ st_seed s' = st_seed s /\
             st_bytes s' = blk ++ extra.
Proof.
  intros Hlen H. rewrite game_start_full in H by exact Hlen.
  rewrite game_start_full by (rewrite app_length; lia).
  rewrite players_of_app by exact Hlen.
  assert (Hl : language_of (blk ++ extra) (Some 700%nat) = language_of blk (Some 700%nat)).
  { unfold language_of. rewrite u8_at_app by lia. reflexivity. }
  assert (Hm : match_of (blk ++ extra) (Some 701%nat) = match_of blk (Some 701%nat)).
  { unfold match_of. rewrite sub_app by lia. rewrite !be_at_app by lia. reflexivity. }
  rewrite Hl, Hm.
  destruct (language_of blk (Some 700%nat)) as [lang| |]; cbn [rbind] in *; try discriminate.
  destruct (match_of blk (Some 701%nat)) as [mt| |]; cbn [rbind] in *; try discriminate.
  destruct (players_of blk _ _ _ _) as [pls| |]; cbn [rbind] in *; try discriminate.
  inversion H; subst s. eexists. split; [reflexivity|].
  unfold mk_start. cbn [st_players st_version st_stage st_timer st_bitfield st_item_bitfield st_bombs st_teams st_item_freq
                        st_sd_score st_damage_ratio st_language st_match st_scene st_pal st_frozen st_seed st_bytes map].
  rewrite !u8_at_app by lia. rewrite !be_at_app by lia. repeat split; reflexivity.
Qed.
