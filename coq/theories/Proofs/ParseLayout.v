(* The event handler of the .slp reader: the arms of Model/Parse.v (arm_gecko .. arm_item, handle_known) and the prologue / epilogue
   of Model/Reader.v parse_event are the interpretation of the step lists that tools/rust2coq.py regenerates from the text of
   src/io/slippi/de.rs fn parse_event (Gen/ParseEvent.v: for every arm of `match event`, its statements in source order from a closed
   vocabulary).  The interpreter uses the hand model's own primitives for each step (frame_open, frame_close, expect_id, data_lookup,
   upd_char, read_push, i32_at, u8_hd, set_end, set_gecko); what the theorems tie to the source is WHICH steps an arm performs and IN
   WHICH ORDER, the version gates (lt 3.0 for the simulated frame end, gte 2.2 for the Pre id rule), the constant FIRST_INDEX - 1,
   the column each arm touches, that validity.push(true) happens in the Pre arm only, and `bytes_read += size + 1`. *)
From Coq Require Import List Arith NArith ZArith Lia Bool String.
From Coq.Strings Require Import Byte.
From Peppi Require Import Base.Bytes Base.Outcome Base.Stream Layout.Syntax Gen.Funs Gen.ParseEvent Layout.Sem Layout.Rows
  Model.Ubjson Model.Start Model.Json Model.Parse Model.Reader.
Import ListNotations.
Notation length := (@List.length _) (only parsing).
Local Open Scope string_scope.
Local Open Scope list_scope.

Ltac ev_term x := let v := eval vm_compute in x in progress change x with v.

(* ---- the registers of an arm: the state, the cursor r over the payload, and the values bound by the reads ---- *)
Record ctx := { cx_s : pstate; cx_r : list byte; cx_id : Z; cx_port : N; cx_fol : bool; cx_slot : nat }.

Definition with_s (c : ctx) (s : pstate) : ctx :=
  {| cx_s := s; cx_r := cx_r c; cx_id := cx_id c; cx_port := cx_port c; cx_fol := cx_fol c; cx_slot := cx_slot c |}.

(* ---- the columns ---- *)
Inductive col := CStart | CEnd | CItem | CPre | CPost.
Definition col_of (c : string) : option col :=
  if String.eqb c "start" then Some CStart else if String.eqb c "end" then Some CEnd else if String.eqb c "item" then Some CItem
  else if String.eqb c "pre" then Some CPre else if String.eqb c "post" then Some CPost else None.

Definition col_size (L : layout) (c : col) : nat :=
  match c with CStart => sz_start L | CEnd => sz_end L | CItem => sz_item L | CPre => sz_pre L | CPost => sz_post L end.

(* the Option<..> columns of the frame *)
Definition fcol_get (fr : frames) (c : col) : option (list row) :=
  match c with CStart => f_start fr | CEnd => f_end fr | CItem => f_item fr | _ => None end.
Definition fcol_set (fr : frames) (c : col) (v : option (list row)) : frames :=
  match c with
  | CStart => {| f_ids := f_ids fr; f_chars := f_chars fr; f_start := v; f_end := f_end fr; f_item_off := f_item_off fr; f_item := f_item fr |}
  | CEnd => {| f_ids := f_ids fr; f_chars := f_chars fr; f_start := f_start fr; f_end := v; f_item_off := f_item_off fr; f_item := f_item fr |}
  | CItem => {| f_ids := f_ids fr; f_chars := f_chars fr; f_start := f_start fr; f_end := f_end fr; f_item_off := f_item_off fr; f_item := v |}
  | _ => fr
  end.

(* the character columns: validity.push(true), pre.read_push, post.read_push taken apart *)
Definition push_valid (d : cdata) : cdata :=
  {| c_pre := c_pre d; c_post := c_post d; c_valid := option_map (fun b => b ++ [true]) (c_valid d) |}.
Definition push_pre_row (rw : row) (d : cdata) : cdata := {| c_pre := c_pre d ++ [rw]; c_post := c_post d; c_valid := c_valid d |}.

(* ---- one statement ---- *)
Fixpoint run_step (buf0 : list byte) (st : pe_step) (c : ctx) {struct st} : outcome ctx :=
  let run_list := fix run_list (l : list pe_step) (c : ctx) {struct l} : outcome ctx :=
      match l with [] => Ok c | x :: r => c' <- run_step buf0 x c ;; run_list r c' end in
  let s := cx_s c in
  match st with
  | PsFail => Err EInvalid
  | PsCloseIfLt M m => Ok (with_s c (if vlt (ver s) M m then frame_close s else s))
  | PsReadId =>
      '(id, r) <- i32_at (cx_r c) ;;
      Ok {| cx_s := s; cx_r := r; cx_id := id; cx_port := cx_port c; cx_fol := cx_fol c; cx_slot := cx_slot c |}
  | PsReadPort =>
      '(p, r) <- u8_hd (cx_r c) ;;
      Ok {| cx_s := s; cx_r := r; cx_id := cx_id c; cx_port := p; cx_fol := cx_fol c; cx_slot := cx_slot c |}
  | PsReadFollowerNonZero =>
      '(b, r) <- u8_hd (cx_r c) ;;
      Ok {| cx_s := s; cx_r := r; cx_id := cx_id c; cx_port := cx_port c; cx_fol := negb (N.eqb b 0); cx_slot := cx_slot c |}
  | PsRequireColumn cn =>
      match col_of cn with
      | Some cl => match fcol_get (ps_frames s) cl with Some _ => Ok c | None => Err EInvalid end
      | None => Panic 0
      end
  | PsOpenFrame => Ok (with_s c (frame_open s (cx_id c)))
  | PsExpectId => _ <- expect_id s (cx_id c) ;; Ok c
  | PsClose => Ok (with_s c (frame_close s))
  | PsIfGte M m yes no => if vgte (ver s) M m then run_list yes c else run_list no c
  | PsIfNextId d k yes no =>
      let lid := match last_id s with Some l => l | None => d end in
      if Z.eqb (lid + k) (cx_id c) then run_list yes c else run_list no c
  | PsDataMut =>
      i <- data_lookup s (cx_port c) (cx_fol c) ;;
      Ok {| cx_s := s; cx_r := cx_r c; cx_id := cx_id c; cx_port := cx_port c; cx_fol := cx_fol c; cx_slot := i |}
  | PsPushValidityTrue => Ok (with_s c (set_frames s (upd_char (ps_frames s) (cx_slot c) push_valid)))
  | PsReadPush cn =>
      match col_of cn with
      | Some cl =>
          rw <- read_push (col_size (ps_layout s) cl) (cx_r c) ;;
          match cl with
          | CPre => Ok (with_s c (set_frames s (upd_char (ps_frames s) (cx_slot c) (push_pre_row rw))))
          | CPost => Ok (with_s c (set_frames s (upd_char (ps_frames s) (cx_slot c) (push_post rw))))
          | _ => match fcol_get (ps_frames s) cl with
                 | Some rows => Ok (with_s c (set_frames s (fcol_set (ps_frames s) cl (Some (rows ++ [rw])))))
                 | None => Panic 202                      (* .as_mut().unwrap() on an absent column *)
                 end
          end
      | None => Panic 0
      end
  | PsPushItemOffset =>
      let fr := ps_frames s in
      match f_item_off fr, f_item fr with
      | Some offs, Some items =>
          Ok (with_s c (set_frames s {| f_ids := f_ids fr; f_chars := f_chars fr; f_start := f_start fr; f_end := f_end fr;
                                        f_item_off := Some (offs ++ [Z.of_nat (length items)]); f_item := f_item fr |}))
      | _, _ => Panic 201                                 (* item_offset / item unwrap *)
      end
  | PsSetGecko => Ok (with_s c (set_gecko s {| gk_bytes := buf0; gk_actual := ps_split_actual s |}))
  | PsSetEndFromBlock => e <- res_outcome (game_end buf0) ;; Ok (with_s c (set_end s e))
  end.

Definition run_list (buf0 : list byte) : list pe_step -> ctx -> outcome ctx :=
  fix run_list (l : list pe_step) (c : ctx) {struct l} : outcome ctx :=
    match l with [] => Ok c | x :: r => c' <- run_step buf0 x c ;; run_list r c' end.

(* an arm: r = &mut &*buf, then its statements in order *)
Definition run_steps (steps : list pe_step) (buf : list byte) (s : pstate) : outcome pstate :=
  c <- run_list buf steps {| cx_s := s; cx_r := buf; cx_id := 0%Z; cx_port := 0%N; cx_fol := false; cx_slot := O |} ;;
  Ok (cx_s c).

Fixpoint steps_lookup (arms : list (string * list pe_step)) (name : string) : list pe_step :=
  match arms with
  | [] => [PsFail]
  | (n, st) :: r => if String.eqb n name then st else steps_lookup r name
  end.
Definition steps_of (name : string) : list pe_step := steps_lookup parse_event_arms name.

Ltac unfold_arm name :=
  unfold run_steps; ev_term (steps_of name);
  cbn [run_list run_step bind with_s cx_s cx_r cx_id cx_port cx_fol cx_slot];
  repeat match goal with |- context [col_of ?c] => ev_term (col_of c) end;
  cbv beta iota.

(* ---- the simple arms ---- *)
Theorem arm_gecko_from_source buf s : arm_gecko buf s = run_steps (steps_of "GeckoCodes") buf s.
Proof. unfold arm_gecko. unfold_arm "GeckoCodes". reflexivity. Qed.

Theorem arm_end_from_source buf s : arm_end buf s = run_steps (steps_of "GameEnd") buf s.
Proof.
  unfold arm_end. unfold_arm "GameEnd". cbv zeta.
  destruct (res_outcome (game_end buf)); cbn [bind with_s cx_s]; reflexivity.
Qed.

(* ---- facts about the model's setters used below ---- *)
Lemma upd_nth_comp {A} i (f g : A -> A) l : upd_nth i g (upd_nth i f l) = upd_nth i (fun x => g (f x)) l.
Proof. revert i. induction l as [|x r IH]; intros [|j]; cbn [upd_nth]; try reflexivity. rewrite IH. reflexivity. Qed.

Lemma upd_nth_ext {A} i (f g : A -> A) l : (forall x, f x = g x) -> upd_nth i f l = upd_nth i g l.
Proof. intro H. revert i. induction l as [|x r IH]; intros [|j]; cbn [upd_nth]; try reflexivity; [rewrite H|rewrite IH]; reflexivity. Qed.

Lemma upd_char_comp fr i f g : upd_char (upd_char fr i f) i g = upd_char fr i (fun d => g (f d)).
Proof. unfold upd_char. cbn [f_ids f_chars f_start f_end f_item_off f_item]. rewrite upd_nth_comp. reflexivity. Qed.

Lemma push_pre_split rw : (fun d => push_pre_row rw (push_valid d)) = push_pre rw.
Proof. reflexivity. Qed.

Lemma layout_close_if s M m : ps_layout (if vlt (ver s) M m then frame_close s else s) = ps_layout s.
Proof. destruct (vlt (ver s) M m); reflexivity. Qed.

(* ---- FrameStart ---- *)
Theorem arm_fstart_from_source buf s : arm_fstart buf s = run_steps (steps_of "FrameStart") buf s.
Proof.
  unfold arm_fstart. unfold_arm "FrameStart". cbv zeta.
  set (s1 := if vlt (ver s) 3 0 then frame_close s else s).
  assert (HL : ps_layout s1 = ps_layout s) by apply layout_close_if.
  destruct (i32_at buf) as [[id r]| | |]; cbn [bind with_s cx_s cx_r cx_id cx_port cx_fol cx_slot]; try reflexivity.
  cbn [fcol_get].
  destruct (f_start (ps_frames s1)) as [rows|] eqn:Es; cbn [bind with_s cx_s cx_r cx_id cx_port cx_fol cx_slot]; [|reflexivity].
  cbn [col_size]. change (ps_layout (frame_open s1 id)) with (ps_layout s1). rewrite HL.
  destruct (read_push (sz_start (ps_layout s)) r) as [rw| | |]; cbn [bind]; try reflexivity.
  change (f_start (ps_frames (frame_open s1 id))) with (f_start (ps_frames s1)). rewrite Es.
  cbn [bind with_s cx_s fcol_set]. reflexivity.
Qed.

(* ---- FramePre ---- *)
Theorem arm_pre_from_source buf s : arm_pre buf s = run_steps (steps_of "FramePre") buf s.
Proof.
  unfold arm_pre. unfold_arm "FramePre". cbv zeta.
  destruct (i32_at buf) as [[id r]| | |]; cbn [bind with_s cx_s cx_r cx_id cx_port cx_fol cx_slot]; try reflexivity.
  destruct (u8_hd r) as [[port r1]| | |]; cbn [bind with_s cx_s cx_r cx_id cx_port cx_fol cx_slot]; try reflexivity.
  destruct (u8_hd r1) as [[folb r2]| | |]; cbn [bind with_s cx_s cx_r cx_id cx_port cx_fol cx_slot]; try reflexivity.
  assert (Tail : forall s1, ps_layout s1 = ps_layout s ->
     (i <- data_lookup s1 port (negb (folb =? 0)%N);;
      rw <- read_push (sz_pre (ps_layout s)) r2;; Ok (set_frames s1 (upd_char (ps_frames s1) i (push_pre rw)))) =
     (c <- (c' <- (i <- data_lookup s1 port (negb (folb =? 0)%N);;
                   Ok {| cx_s := s1; cx_r := r2; cx_id := id; cx_port := port; cx_fol := negb (folb =? 0)%N; cx_slot := i |});;
            c'0 <- run_step buf PsPushValidityTrue c';;
            c'1 <- run_step buf (PsReadPush "pre") c'0;; Ok c'1);; Ok (cx_s c))).
  { intros s1 HL. destruct (data_lookup s1 port (negb (folb =? 0)%N)) as [i| | |]; cbn [bind]; try reflexivity.
    cbn [run_step bind with_s cx_s cx_r cx_id cx_port cx_fol cx_slot].
    repeat match goal with |- context [col_of ?c] => ev_term (col_of c) end. cbv beta iota. cbn [col_size].
    change (ps_layout (set_frames s1 (upd_char (ps_frames s1) i push_valid))) with (ps_layout s1). rewrite HL.
    destruct (read_push (sz_pre (ps_layout s)) r2) as [rw| | |]; cbn [bind with_s cx_s]; try reflexivity.
    change (ps_frames (set_frames s1 (upd_char (ps_frames s1) i push_valid))) with (upd_char (ps_frames s1) i push_valid).
    rewrite upd_char_comp, push_pre_split. reflexivity. }
  destruct (vgte (ver s) 2 2).
  - destruct (expect_id s id) as [[]| | |]; cbn [bind]; try reflexivity. apply Tail. reflexivity.
  - destruct (Z.eqb _ id).
    + cbn [bind with_s cx_s cx_r cx_id cx_port cx_fol cx_slot]. apply Tail. reflexivity.
    + destruct (expect_id s id) as [[]| | |]; cbn [bind]; try reflexivity. apply Tail. reflexivity.
Qed.

(* ---- FramePost ---- *)
Theorem arm_post_from_source buf s : arm_post buf s = run_steps (steps_of "FramePost") buf s.
Proof.
  unfold arm_post. unfold_arm "FramePost". cbv zeta.
  destruct (i32_at buf) as [[id r]| | |]; cbn [bind with_s cx_s cx_r cx_id cx_port cx_fol cx_slot]; try reflexivity.
  destruct (u8_hd r) as [[port r1]| | |]; cbn [bind with_s cx_s cx_r cx_id cx_port cx_fol cx_slot]; try reflexivity.
  destruct (u8_hd r1) as [[folb r2]| | |]; cbn [bind with_s cx_s cx_r cx_id cx_port cx_fol cx_slot]; try reflexivity.
  destruct (expect_id s id) as [[]| | |]; cbn [bind with_s cx_s cx_r cx_id cx_port cx_fol cx_slot]; try reflexivity.
  destruct (data_lookup s port (negb (folb =? 0)%N)) as [i| | |]; cbn [bind with_s cx_s cx_r cx_id cx_port cx_fol cx_slot]; try reflexivity.
  cbn [col_size].
  destruct (read_push (sz_post (ps_layout s)) r2) as [rw| | |]; cbn [bind with_s cx_s]; reflexivity.
Qed.

(* ---- FrameEnd ---- *)
Theorem arm_fend_from_source buf s : arm_fend buf s = run_steps (steps_of "FrameEnd") buf s.
Proof.
  unfold arm_fend. unfold_arm "FrameEnd". cbv zeta.
  destruct (i32_at buf) as [[id r]| | |]; cbn [bind with_s cx_s cx_r cx_id cx_port cx_fol cx_slot]; try reflexivity.
  destruct (expect_id s id) as [[]| | |]; cbn [bind with_s cx_s cx_r cx_id cx_port cx_fol cx_slot]; try reflexivity.
  cbn [fcol_get].
  destruct (f_end (ps_frames s)) as [erows|] eqn:Ee; cbn [bind with_s cx_s cx_r cx_id cx_port cx_fol cx_slot]; [|reflexivity].
  destruct (f_item_off (ps_frames s)) as [offs|] eqn:Eo; cbn [bind with_s cx_s cx_r cx_id cx_port cx_fol cx_slot]; [|reflexivity].
  destruct (f_item (ps_frames s)) as [items|] eqn:Ei; cbn [bind with_s cx_s cx_r cx_id cx_port cx_fol cx_slot]; [|reflexivity].
  cbn [col_size ps_layout set_frames].
  destruct (read_push (sz_end (ps_layout s)) r) as [rw| | |]; cbn [bind]; try reflexivity.
  cbn [fcol_get ps_frames set_frames f_end]. rewrite Ee. cbn [bind with_s cx_s fcol_set ps_frames set_frames f_ids f_chars f_start f_end f_item_off f_item].
  reflexivity.
Qed.

(* ---- Item ---- *)
Theorem arm_item_from_source buf s : arm_item buf s = run_steps (steps_of "Item") buf s.
Proof.
  unfold arm_item. unfold_arm "Item". cbv zeta.
  destruct (i32_at buf) as [[id r]| | |]; cbn [bind with_s cx_s cx_r cx_id cx_port cx_fol cx_slot]; try reflexivity.
  destruct (expect_id s id) as [[]| | |]; cbn [bind with_s cx_s cx_r cx_id cx_port cx_fol cx_slot]; try reflexivity.
  cbn [fcol_get].
  destruct (f_item (ps_frames s)) as [items|] eqn:Ei; cbn [bind with_s cx_s cx_r cx_id cx_port cx_fol cx_slot]; [|reflexivity].
  cbn [col_size fcol_get]. rewrite Ei.
  destruct (read_push (sz_item (ps_layout s)) r) as [rw| | |]; cbn [bind with_s cx_s fcol_set]; reflexivity.
Qed.

(* ---- the dispatch: `if let Some(event) = Event::try_from(code).ok() { match event { .. } }` ---- *)
Fixpoint code_of (tbl : list (string * N)) (name : string) : option N :=
  match tbl with
  | [] => None
  | (n, c) :: r => if String.eqb n name then Some c else code_of r name
  end.
Definition ecode (e : string) : N := match code_of parse_event_codes e with Some c => c | None => 0%N end.

Fixpoint dispatch (arms : list (string * list pe_step)) (code : N) : option (list pe_step) :=
  match arms with
  | [] => None
  | (n, st) :: r => if N.eqb code (ecode n) then Some st else dispatch r code
  end.

Definition handle_known_src (code : N) (buf : list byte) (s : pstate) : outcome pstate :=
  match dispatch parse_event_arms code with
  | Some steps => run_steps steps buf s
  | None => Ok s                           (* a code that is not an Event: nothing happens *)
  end.

Lemma run_fail buf s : run_steps [PsFail] buf s = Err EInvalid.
Proof. reflexivity. Qed.
Lemma run_nop buf s : run_steps [] buf s = Ok s.
Proof. reflexivity. Qed.

Theorem handle_known_from_source code buf s : handle_known code buf s = handle_known_src code buf s.
Proof.
  unfold handle_known, handle_known_src.
  rewrite arm_gecko_from_source, arm_end_from_source, arm_fstart_from_source, arm_pre_from_source, arm_post_from_source,
    arm_fend_from_source, arm_item_from_source.
  unfold steps_of. unfold parse_event_arms at 8. cbn [dispatch].
  repeat match goal with
         | |- context [ecode ?e] => ev_term (ecode e)
         | |- context [steps_lookup parse_event_arms ?n] => ev_term (steps_lookup parse_event_arms n)
         end.
  unfold Event_Payloads, Event_MessageSplitter, Event_GeckoCodes, Event_GameStart, Event_GameEnd, Event_FrameStart,
    Event_FramePre, Event_FramePost, Event_FrameEnd, Event_Item.
  repeat match goal with |- context [N.eqb code ?k] => destruct (N.eqb code k) end;
    rewrite ?run_fail, ?run_nop; reflexivity.
Qed.

(* every variant of de::Event has an arm *)
Theorem parse_event_arms_cover :
  forallb (fun e => existsb (String.eqb e) (map fst parse_event_arms)) (map fst parse_event_codes) = true.
Proof. vm_compute. reflexivity. Qed.

(* ---- prologue / epilogue of parse_event ---- *)
Definition parse_event_src (s : pstate) : parser (N * pstate) :=
  pbind rd_u8 (fun code =>
  match lookup_size (ps_sizes s) code with
  | None => fail EInvalid
  | Some size =>
      pbind (rd_exact (N.to_nat size)) (fun buf =>
      fun bs =>
        match handle_event code buf s with
        | Ok (code', s') => Ok (code', add_bytes_read s' (pe_bytes_read_increment size), bs)
        | Err e => Err e | Panic p => Panic p | Fuel => Fuel
        end)
  end).

Theorem parse_event_from_source s : parse_event s = parse_event_src s.
Proof. unfold parse_event, parse_event_src, pe_bytes_read_increment. reflexivity. Qed.

(* ---- the helpers of impl ParseState: the one recognised shape of each, and what the model's counterpart does ---- *)
Theorem helpers_from_source :
  parse_state_helpers = [("last_id", PhLastOfIds); ("frame_open", PhPushId); ("expect_id", PhOkIffLastIdEq);
                         ("data_mut", PhPortIndexPortMatchFollower); ("frame_close", PhPadAllToLenWithPushNull)] /\
  (forall s, last_id s = last (map Some (f_ids (ps_frames s))) None) /\
  (forall s id, f_ids (ps_frames (frame_open s id)) = f_ids (ps_frames s) ++ [id]) /\
  (forall s id, expect_id s id = Ok tt <-> last_id s = Some id) /\
  (forall s port fol i, data_lookup s port fol = Ok i ->
     exists c, nth_error (f_chars (ps_frames s)) i = Some c /\ sl_port c = port /\ sl_fol c = fol) /\
  (forall s, f_ids (ps_frames (frame_close s)) = f_ids (ps_frames s) /\
             map (fun c => (sl_port c, sl_fol c)) (f_chars (ps_frames (frame_close s))) =
             map (fun c => (sl_port c, sl_fol c)) (f_chars (ps_frames s))).
Proof.
  split; [vm_compute; reflexivity|]. split; [reflexivity|]. split; [reflexivity|]. split; [|split].
  - intros s id. unfold expect_id. destruct (last_id s) as [l|]; [|split; discriminate].
    destruct (Z.eqb_spec l id) as [->|Hn]; split; intro H; try reflexivity; try discriminate. inversion H. contradiction.
  - intros s port fol i. unfold data_lookup.
    assert (G : forall cs k i, find_slot cs port fol k = Some i ->
                exists c, nth_error cs (i - k) = Some c /\ sl_port c = port /\ sl_fol c = fol /\ (k <= i)%nat).
    { induction cs as [|c r IH]; intros k j H; cbn [find_slot] in H; [discriminate|].
      destruct (N.eqb_spec (sl_port c) port) as [Hp|Hp]; cbn [andb] in H.
      - destruct (Bool.eqb (sl_fol c) fol) eqn:Hf.
        + inversion H; subst j. rewrite Nat.sub_diag. exists c. apply eqb_prop in Hf. repeat split; auto.
        + destruct (IH (S k) j H) as (c' & Hn & A & B & C). exists c'.
          replace (j - k)%nat with (S (j - S k)) by lia. cbn [nth_error]. repeat split; auto. lia.
      - destruct (IH (S k) j H) as (c' & Hn & A & B & C). exists c'.
        replace (j - k)%nat with (S (j - S k)) by lia. cbn [nth_error]. repeat split; auto. lia. }
    destruct (find_slot (f_chars (ps_frames s)) port fol 0) as [j|] eqn:E; intro H; inversion H; subst j.
    destruct (G _ _ _ E) as (c & Hn & A & B & _). rewrite Nat.sub_0_r in Hn. exists c. auto.
  - intro s. split; [reflexivity|]. unfold frame_close, frame_close_frames. cbn [ps_frames set_frames f_chars].
    rewrite map_map. reflexivity.
Qed.

Print Assumptions arm_gecko_from_source.
Print Assumptions arm_end_from_source.
Print Assumptions arm_fstart_from_source.
Print Assumptions arm_pre_from_source.
Print Assumptions arm_post_from_source.
Print Assumptions arm_fend_from_source.
Print Assumptions arm_item_from_source.
Print Assumptions handle_known_from_source.
Print Assumptions parse_event_arms_cover.
Print Assumptions parse_event_from_source.
Print Assumptions helpers_from_source.
