(* C07, .slpp half at the entry level: an archive cut at any entry boundary before the end lacks frames.arrow (the
   writer emits it last) and is rejected -- never read as a game with partial or empty frames. *)
From Coq Require Import List Arith NArith ZArith Lia Bool String.
From Coq.Strings Require Import Byte.
From Peppi Require Import Base.Bytes Base.Outcome Gen.Funs Model.Ubjson Model.Start Model.Json Model.Parse Model.Reader Model.Slpp
  Proofs.SlppProof.
Import ListNotations.
Notation length := (@List.length _) (only parsing).

Section Cut.
  Variable enc_peppi : version -> option (list byte) -> option bool -> list byte.
  Variable dec_peppi : list byte -> option (version * option (list byte) * option bool).
  Variable enc_meta : option utree -> list byte.
  Variable dec_meta : list byte -> option (option utree).
  Variable enc_start : start_t -> list byte.
  Variable enc_end : end_t -> list byte.
  Variable enc_frames : compression -> version -> list (N * bool) -> frames -> outcome (list byte).
  Variable dec_frames : version -> list byte -> outcome frames.

  Notation RE := (read_entries dec_peppi dec_meta dec_frames).
  Notation Rd := (slpp_read dec_peppi dec_meta dec_frames).
  Notation W := (slpp_write enc_peppi enc_meta enc_start enc_end enc_frames).

  Definition not_frames (e : list byte * list byte) : Prop := kind_of (fst e) <> KFrames.

  (* reading entries none of which is frames.arrow: an error, or an accumulator that still has no frames *)
  Lemma re_no_frames skip : forall l a, Forall not_frames l -> ra_frames a = None ->
    match RE skip l a with Ok a' => ra_frames a' = None | Err _ => True | _ => False end.
  Proof.
    induction l as [|[p c] l IH]; intros a Hl Ha; [exact Ha|].
    inversion Hl as [|? ? Hp Hl']; subst. unfold not_frames in Hp. cbn [fst] in Hp.
    cbn [read_entries]. destruct (kind_of p) eqn:Hk; try (apply IH; assumption); try congruence.
    - destruct (dec_peppi c) as [[[pv h] q]|]; [|exact I]. destruct (assert_current_version_ok pv); [|exact I]. apply IH; assumption.
    - destruct (dec_meta c); [|exact I]. apply IH; assumption.
    - destruct (game_start c); cbn [res_out bind]; try exact I. apply IH; assumption.
    - destruct (game_end c); cbn [res_out bind]; try exact I. apply IH; assumption.
    - destruct (length c <? 4)%nat; [exact I|]. apply IH; assumption.
  Qed.

  Lemma rd_no_frames skip l : Forall not_frames l -> exists e, Rd skip l = Err e.
  Proof.
    intro Hl. pose proof (re_no_frames skip l racc0 Hl eq_refl) as H. unfold slpp_read.
    destruct (RE skip l racc0) as [a| e | |]; cbn [bind]; try contradiction; [|eexists; reflexivity].
    destruct (ra_peppi a) as [[[pv h] q]|]; [|eexists; reflexivity].
    destruct (ra_start a); [|eexists; reflexivity]. rewrite H. eexists; reflexivity.
  Qed.

  Lemma name_not_frames k c : k <> KFrames -> not_frames (name_of k, c).
  Proof. intro Hk. unfold not_frames. cbn [fst]. rewrite kind_of_name. destruct k; congruence. Qed.

  (* every proper prefix (at entry granularity) of what the writer emits is rejected, with and without skip_frames *)
  Theorem slpp_cut_rejected skip c g es pre suf :
    W c g = Ok es -> es = (pre ++ suf)%list -> suf <> [] -> exists e, Rd skip pre = Err e.
  Proof.
    intros Hw Hsplit Hsuf. apply rd_no_frames.
    unfold slpp_write in Hw. destruct (assert_max_version_ok _); cbn [negb] in Hw; [|discriminate].
    destruct (enc_frames c _ _ _) as [fr| | |]; cbn [bind] in Hw; try discriminate.
    apply ok_inj in Hw.
    set (body := ([(name_of KPeppi, enc_peppi PEPPI_CURRENT_VERSION (sg_hash g) (g_quirk (sg_game g)));
                   (name_of KMeta, enc_meta (g_meta (sg_game g)));
                   (name_of KStartJson, enc_start (g_start (sg_game g)));
                   (name_of KStartRaw, st_bytes (g_start (sg_game g)))]
                  ++ (match g_end (sg_game g) with Some e => [(name_of KEndJson, enc_end e); (name_of KEndRaw, en_bytes e)] | None => [] end)
                  ++ (match g_gecko (sg_game g) with Some k => [(name_of KGecko, le32 (gk_actual k) ++ gk_bytes k)] | None => [] end))%list) in *.
    assert (Hes : es = (body ++ [(name_of KFrames, fr)])%list) by (rewrite <- Hw; unfold body; rewrite <- !app_assoc; reflexivity).
    assert (Hbody : Forall not_frames body).
    { unfold body. repeat (apply Forall_app; split); repeat constructor;
        try (destruct (g_end (sg_game g)); repeat constructor);
        try (destruct (g_gecko (sg_game g)); repeat constructor);
        apply name_not_frames; discriminate. }
    (* pre is a prefix of body: suf is non-empty and the frames entry is the last one *)
    assert (Hpre : exists t, body = (pre ++ t)%list).
    { rewrite Hes in Hsplit. destruct (exists_last Hsuf) as (suf' & x & ->).
      rewrite app_assoc in Hsplit. apply app_inj_tail in Hsplit as [Hb _]. exists suf'. exact Hb. }
    destruct Hpre as [t Ht]. rewrite Ht in Hbody. apply Forall_app in Hbody as [Hp _]. exact Hp.
  Qed.
End Cut.
Print Assumptions slpp_cut_rejected.
