(* raw_size, frame_counts and gecko_codes_size of the .slp writer (src/io/slippi/ser.rs): the hand model Model/Writer.v restated
   THROUGH the tables that tools/rust2coq.py regenerates from the Rust text (Gen/WriterRaw.v): the summands of raw_size in source
   order, the initialisers of FrameCounts, and the constants of gecko_codes_size.

   If the source adds, drops, reorders (observably) or changes a summand, counts a different column, changes an event, or changes
   512 / 512 + 5, the regenerated table changes and the theorems below no longer hold of the unchanged hand model. *)
From Coq Require Import List Arith NArith ZArith Lia Bool String.
From Coq.Strings Require Import Byte.
From Peppi Require Import Base.Bytes Base.Outcome Base.Stream Layout.Syntax Gen.Funs Gen.WriterRaw Layout.Sem Layout.Rows
  Model.Ubjson Model.Start Model.Json Model.Parse Model.Reader Model.Writer.
Import ListNotations.
Notation length := (@List.length _) (only parsing).
Local Open Scope string_scope.
Local Open Scope N_scope.

Ltac ev_term x := let v := eval vm_compute in x in progress change x with v.

Fixpoint code_of (tbl : list (string * N)) (name : string) : option N :=
  match tbl with
  | [] => None
  | (n, c) :: r => if String.eqb n name then Some c else code_of r name
  end.
Definition ecode (e : string) : N := match code_of raw_event_codes e with Some c => c | None => 0 end.

(* ---------------------------------------------------------------------------------------------------------
   frame_counts *)
Fixpoint fc_lookup (tbl : list (string * fc_field)) (name : string) : fc_field :=
  match tbl with
  | [] => FcFramesLen
  | (n, f) :: r => if String.eqb n name then f else fc_lookup r name
  end.

Definition per_len (k : fc_len) (len : nat) (d : cdata) : outcome nat :=
  match k with
  | FcLen => Ok len
  | FcLenMinusUnset => if (len <? unset_bits (c_valid d))%nat then Panic 402 else Ok (len - unset_bits (c_valid d))%nat
  end.

(* the model's flat character slots: a port's leader (sl_fol = false) and, when present, its follower (sl_fol = true) *)
Definition fc_val (f : fc_field) (fr : frames) : outcome N :=
  let len := length (f_ids fr) in
  match f with
  | FcFramesLen => Ok (nn len)
  | FcPortsSum l fo =>
      fd <- fold_left (fun acc c => a <- acc ;; x <- per_len (if sl_fol c then fo else l) len (sl_data c) ;; Ok (a + x)%nat)
                      (f_chars fr) (Ok O) ;;
      Ok (nn fd)
  | FcItemIds => Ok (match f_item fr with Some it => nn (length it) | None => 0 end)
  end.

Definition frame_counts_tbl (tbl : list (string * fc_field)) (fr : frames) : outcome (N * N * N) :=
  a <- fc_val (fc_lookup tbl "frames") fr ;;
  b <- fc_val (fc_lookup tbl "frame_data") fr ;;
  c <- fc_val (fc_lookup tbl "items") fr ;;
  Ok (a, b, c).

Lemma fold_left_ext2 {A B} (f h : A -> B -> A) l i : (forall a b, f a b = h a b) -> fold_left f l i = fold_left h l i.
Proof. intro H. revert i. induction l as [|x r IH]; intro i; cbn [fold_left]; [reflexivity|]. rewrite H. apply IH. Qed.

Theorem frame_counts_from_source fr : frame_counts fr = frame_counts_tbl frame_counts_fields fr.
Proof.
  unfold frame_counts, frame_counts_tbl. cbv zeta.
  repeat match goal with |- context [fc_lookup ?t ?n] => ev_term (fc_lookup t n) end.
  cbn [fc_val bind].
  rewrite (fold_left_ext2
             (fun acc c => a <- acc;; x <- per_len (if sl_fol c then FcLenMinusUnset else FcLenMinusUnset) (length (f_ids fr)) (sl_data c);; Ok (a + x)%nat)
             (fun acc c => a <- acc;; l <- (if (length (f_ids fr) <? unset_bits (c_valid (sl_data c)))%nat then Panic 402
                                            else Ok (length (f_ids fr) - unset_bits (c_valid (sl_data c)))%nat);; Ok (a + l)%nat)).
  2:{ intros a b. destruct (sl_fol b); reflexivity. }
  destruct (fold_left _ (f_chars fr) (Ok O)); reflexivity.
Qed.

(* ---------------------------------------------------------------------------------------------------------
   gecko_codes_size *)
Definition gecko_codes_size_src (c : gecko_t) : outcome N :=
  if negb (Nat.eqb (length (gk_bytes c) mod gecko_size_mod) 0) then Panic 403
  else Ok (gecko_size_total (nn (length (gk_bytes c)) / gecko_size_div)).

Theorem gecko_codes_size_from_source c : gecko_codes_size c = gecko_codes_size_src c.
Proof.
  unfold gecko_codes_size, gecko_codes_size_src, gecko_size_total.
  ev_term gecko_size_mod. ev_term gecko_size_div.
  repeat match goal with |- context [N.add (Npos ?a) (Npos ?b)] => ev_term (N.add (Npos a) (Npos b)) end.
  reflexivity.
Qed.

(* ---------------------------------------------------------------------------------------------------------
   raw_size *)
Definition cnt_of (c : string) (frames fdata items : N) : N :=
  if String.eqb c "frames" then frames else if String.eqb c "frame_data" then fdata else if String.eqb c "items" then items else 0.

(* sizes[&(E as u8)]: panics when absent *)
Definition req (sizes : list (N * N)) (e : string) : outcome N :=
  match lookup_size sizes (ecode e) with Some s => Ok s | None => Panic 404 end.

Definition is_double (g : game) : bool := match g_quirk g with Some true => true | _ => false end.

(* a summand; lookups happen only where the source performs them (inside the closures / match arms) *)
Definition term_val (sizes : list (N * N)) (g : game) (frames fdata items : N) (t : rterm) : outcome N :=
  match t with
  | RtConst n => Ok n
  | RtTableLen k => Ok (k * nn (length sizes))
  | RtSize e => req sizes e
  | RtIfEnd k e => match g_end g with Some _ => s <- req sizes e ;; Ok (k + s) | None => Ok 0 end
  | RtIfEndDouble k e =>
      match g_end g with Some _ => if is_double g then s <- req sizes e ;; Ok (k + s) else Ok 0 | None => Ok 0 end
  | RtCountReq c k e => s <- req sizes e ;; Ok (cnt_of c frames fdata items * (k + s))
  | RtCountOpt c k e =>
      Ok (match lookup_size sizes (ecode e) with Some s => cnt_of c frames fdata items * (k + s) | None => 0 end)
  | RtGecko => match g_gecko g with Some c => gecko_codes_size c | None => Ok 0 end
  end.

Fixpoint rs_eval (terms : list rterm) (sizes : list (N * N)) (g : game) (frames fdata items : N) : outcome (list N) :=
  match terms with
  | [] => Ok []
  | t :: r => v <- term_val sizes g frames fdata items t ;; vs <- rs_eval r sizes g frames fdata items ;; Ok (v :: vs)
  end.

Definition rs_sum (vs : list N) : N := match vs with [] => 0 | v :: r => fold_left N.add r v end.

(* let counts = frame_counts(..); then the summands left to right *)
Definition raw_size_of_terms (terms : list rterm) (sizes : list (N * N)) (g : game) : outcome N :=
  '(frames, fdata, items) <- frame_counts (g_frames g) ;;
  vs <- rs_eval terms sizes g frames fdata items ;;
  Ok (rs_sum vs).

(* The hand model looks GameEnd up even when the game has no end (Panic 404 if absent); the source looks it up only inside
   `game.end.as_ref().map_or(..)`.  The two differ exactly when the game has no end AND the table has no GameEnd entry, which
   never happens for a table made by payload_sizes (second theorem); the first theorem excludes that corner by its hypothesis.
   Everywhere else the equality is full: same value, same panic (402 from frame_counts first, then 404, then 403). *)
Theorem raw_size_from_source sizes g :
  (g_end g = None -> lookup_size sizes Event_GameEnd <> None) ->
  raw_size sizes g = raw_size_of_terms raw_size_terms sizes g.
Proof.
  intro H. unfold raw_size, raw_size_of_terms.
  destruct (frame_counts (g_frames g)) as [[[fr fd] it]| | |]; cbn [bind]; try reflexivity.
  unfold raw_size_terms. cbn [rs_eval term_val]. unfold req, is_double.
  repeat match goal with
         | |- context [ecode ?e] => ev_term (ecode e)
         | |- context [cnt_of ?c fr fd it] => let v := eval cbv in (cnt_of c fr fd it) in change (cnt_of c fr fd it) with v
         end.
  unfold Event_GameStart, Event_GameEnd, Event_FramePre, Event_FramePost, Event_FrameStart, Event_FrameEnd, Event_Item in *.
  set (GK := match g_gecko g with Some c => gecko_codes_size c | None => Ok 0 end).
  destruct (lookup_size sizes 54) as [gs|]; cbn [bind]; [|reflexivity].
  destruct (g_end g) as [e|] eqn:Ee; destruct (lookup_size sizes 57) as [ge|]; cbn [bind];
    try reflexivity; try (exfalso; apply H; reflexivity).
  - destruct (g_quirk g) as [[|]|]; cbn [bind];
      (destruct (lookup_size sizes 55) as [pre|]; cbn [bind]; [|reflexivity]);
      (destruct (lookup_size sizes 56) as [post|]; cbn [bind]; [|reflexivity]);
      destruct GK; cbn [bind rs_sum fold_left]; reflexivity.
  - destruct (g_quirk g) as [[|]|]; cbn [bind];
      (destruct (lookup_size sizes 55) as [pre|]; cbn [bind]; [|reflexivity]);
      (destruct (lookup_size sizes 56) as [post|]; cbn [bind]; [|reflexivity]);
      destruct GK; cbn [bind rs_sum fold_left]; reflexivity.
Qed.

(* every table made by payload_sizes has a GameEnd entry *)
Lemma payload_sizes_has_game_end g sizes : payload_sizes g = Ok sizes -> lookup_size sizes Event_GameEnd <> None.
Proof.
  unfold payload_sizes. cbv zeta. intro H.
  repeat match type of H with
         | bind ?x _ = Ok _ => let a := fresh "a" in let Ha := fresh "Ha" in apply bind_ok in H as [a [Ha H]]; clear Ha
         | (if ?c then _ else _) = Ok _ => destruct c
         | match ?x with Some _ => _ | None => _ end = Ok _ => destruct x
         end;
    apply ok_inj in H; subst sizes;
    unfold Event_GameStart, Event_FramePre, Event_FramePost, Event_GameEnd; cbn [app lookup_size N.eqb Pos.eqb]; discriminate.
Qed.

Theorem raw_size_of_payload_sizes_from_source g sizes :
  payload_sizes g = Ok sizes -> raw_size sizes g = raw_size_of_terms raw_size_terms sizes g.
Proof. intro H. apply raw_size_from_source. intros _. exact (payload_sizes_has_game_end g sizes H). Qed.

Print Assumptions frame_counts_from_source.
Print Assumptions gecko_codes_size_from_source.
Print Assumptions raw_size_from_source.
Print Assumptions raw_size_of_payload_sizes_from_source.
