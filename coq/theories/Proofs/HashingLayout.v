(* The hashing reader: the hand models Model/Frag.v [hread] / [hseek] / [mk_hreader], Model/FragSkip.v [hseek_N] /
   [p_slp_read_skip], the hash flag of Model/Reader.v [slp_read] and the option defaults used by Model/Abstract.v /
   Model/Api.v restated THROUGH the tables that tools/rust2coq.py regenerates from src/io/mod.rs (struct HashingReader,
   HashingReader::{new, into_digest}, impl Read, impl Seek, fn format_hash) and from the option / hashing lines of
   fn read in src/io/slippi/de.rs (Gen/HashingSrc.v): which bytes a read() call feeds to the hasher, that seek drops
   the hasher, that a hasher exists iff the flag is set, which Opts field each flag comes from and its value when
   `opts` is None, which skipping step is taken when hashing, and the text format of the digest.

   The hasher itself (XXH3-64) is not modelled: [hr_hashed] is the list of bytes fed to it, the digest a function of it.
   The text format has no hand model; [format_hash_from_source] states the format of the property (C11: "xxh3:" followed
   by 16 lower-case hex digits of the 64-bit digest) of the regenerated constants.

   If the source changes the slice fed to the hasher, the effect of seek, the construction, an option default or field,
   the copy/seek choice or the format, the regenerated tables change and the statements below no longer hold. *)
From Coq Require Import List Arith NArith Lia Bool String.
From Coq.Strings Require Import Byte.
From Peppi Require Import Base.Bytes Base.Outcome Base.Stream Layout.Syntax Gen.Funs Gen.HashingSrc Layout.Sem Layout.Rows
  Model.Utf8 Model.Ubjson Model.Start Model.Json Model.Parse Model.Reader Model.Writer Model.Recorder Model.Frag Model.FragSkip
  Model.Abstract Model.Api.
Import ListNotations.
Notation length := (@List.length _) (only parsing).
Local Open Scope string_scope.
Local Open Scope list_scope.

(* ---- impl Read for HashingReader ---- *)
(* the registers of one read() call: the inner reader, the hasher, n (the bytes the inner read returned) *)
Record rd_ctx := { rc_inner : fstream; rc_hashed : option (list byte); rc_n : list byte }.

(* one statement; Done: the call returns (early, by the `?` of the inner read, or by the final Ok(n)) *)
Inductive step_res := Done (r : rres * hreader) | Cont (c : rd_ctx).
Definition hread_step (len : nat) (st : hr_read_step) (c : rd_ctx) : step_res :=
  match st with
  | HrInnerReadQuestion =>
      let '(r, s') := fread len (rc_inner c) in
      match r with
      | RBytes bs => Cont {| rc_inner := s'; rc_hashed := rc_hashed c; rc_n := bs |}
      | _ => Done (r, {| hr_inner := s'; hr_hashed := rc_hashed c |})
      end
  | HrUpdateUptoN from =>
      (* h.update(&buf[from..n]) where buf[..n] holds the bytes just read *)
      Cont {| rc_inner := rc_inner c; rc_hashed := option_map (fun l => l ++ skipn from (rc_n c)) (rc_hashed c); rc_n := rc_n c |}
  | HrReturnN => Done (RBytes (rc_n c), {| hr_inner := rc_inner c; hr_hashed := rc_hashed c |})
  end.

Fixpoint hread_steps (len : nat) (sts : list hr_read_step) (c : rd_ctx) : option (rres * hreader) :=
  match sts with
  | [] => None
  | st :: r => match hread_step len st c with Done res => Some res | Cont c' => hread_steps len r c' end
  end.

Definition hread_tbl (len : nat) (h : hreader) : option (rres * hreader) :=
  hread_steps len hr_read_steps {| rc_inner := hr_inner h; rc_hashed := hr_hashed h; rc_n := [] |}.

Theorem hread_from_source len h : hread_tbl len h = Some (hread len h).
Proof.
  unfold hread_tbl, hread, hr_read_steps. cbn [hread_steps hread_step rc_inner rc_hashed rc_n].
  destruct (fread len (hr_inner h)) as [[bs| |] s']; cbn [hread_steps hread_step rc_inner rc_hashed rc_n skipn]; reflexivity.
Qed.

(* ---- impl Seek ---- *)
Definition after_seek (hashed : option (list byte)) : option (list byte) := if hr_seek_clears_hasher then None else hashed.

Theorem hseek_from_source n h :
  hseek n h = {| hr_inner := {| fs_data := skipn n (fs_data (hr_inner h)); fs_sched := fs_sched (hr_inner h) |};
                 hr_hashed := after_seek (hr_hashed h) |} /\
  forall k, hseek_N k h = {| hr_inner := {| fs_data := drop_upto k (fs_data (hr_inner h)); fs_sched := fs_sched (hr_inner h) |};
                             hr_hashed := after_seek (hr_hashed h) |}.
Proof. split; reflexivity. Qed.

(* ---- HashingReader::new / into_digest ---- *)
Definition new_hasher (hash : bool) : option (list byte) :=
  match hr_new_hasher with HnThenFresh => if hash then Some [] else None end.

Definition hreader_new_tbl (hash : bool) (data : list byte) (sched : list rstep) : hreader :=
  {| hr_inner := {| fs_data := data; fs_sched := sched |}; hr_hashed := new_hasher hash |}.

(* into_digest: self.hasher.as_deref().map(<format>) -- present iff the hasher is; the model reports how many bytes it was fed *)
Definition digest_tbl {A} (format : list byte -> A) (h : hreader) : option A := option_map format (hr_hashed h).

Theorem api_read_sched_from_source hash data sched :
  api_read_sched hash data sched =
  let '(res, h') := run_frag (p_slp_read hash (List.length data)) (hreader_new_tbl hash data sched) in
  (res, fs_data (hr_inner h'), digest_tbl (@List.length byte) h').
Proof. reflexivity. Qed.

(* ---- the options of fn read ---- *)
Definition opt_field (name : string) (o : opts) : bool :=
  if String.eqb name "compute_hash" then o_hash o else if String.eqb name "skip_frames" then o_skip o else false.

(* let hash = opts.map_or(<default>, |o| o.<field>); if opts.map_or(<default>, |o| o.<field>) { skip } *)
Definition opts_of_src (o : option opts) : opts :=
  {| o_skip := match o with None => opts_skip_default | Some o => opt_field opts_skip_field o end;
     o_hash := match o with None => opts_hash_default | Some o => opt_field opts_hash_field o end |}.

Theorem opts_from_source :
  opts_of_src None = {| o_skip := false; o_hash := false |} /\ forall o, opts_of_src (Some o) = o.
Proof. split; [reflexivity|]. intros [s h]. reflexivity. Qed.

(* read(r, None), the reader the class membership test of Model/Abstract.v runs *)
Theorem in_class_from_source bs :
  in_class bs =
  match slp_read (opts_of_src None) bs with
  | Ok (g, rest) =>
      let r := replay_of_game g in
      Some (match rest with [] => true | _ => false end && wf_replay r && list_byte_eqb (emit r) bs)
  | _ => None
  end.
Proof. reflexivity. Qed.

Theorem api_read_from_source skip hash bs : api_read skip hash bs = slp_read (opts_of_src (Some {| o_skip := skip; o_hash := hash |})) bs.
Proof. reflexivity. Qed.

(* ---- the skip: copy (hashed) when hashing, seek otherwise ---- *)
Definition skip_step_tbl {A} (hash : bool) (skip : N) (k : prog2 A) : prog2 A :=
  match find (fun e => Bool.eqb (fst e) hash) hashing_skip_steps with
  | Some (_, HsCopyTake) => PCopy skip k
  | Some (_, HsSeekCurrent) => PSeek skip k
  | None => P2Panic 0
  end.

Definition p_slp_read_skip_src (hash : bool) (total : nat) : prog2 game :=
  pb2 (lift p_slp_head) (fun '(raw_len, s, c) =>
  match lookup_size (ps_sizes s) Event_GameEnd with
  | None => P2Panic 301
  | Some esz =>
      let end_offset := (1 + esz)%N in
      if N.eqb raw_len 0 || (raw_len <? ps_bytes_read s + end_offset)%N then P2Fail EInvalid
      else
        let skip := (raw_len - ps_bytes_read s - end_offset)%N in
        skip_step_tbl hash skip (lift (p_slp_tail hash total raw_len (add_bytes_read s skip) (count_after_skip total c skip)))
  end).

Theorem p_slp_read_skip_from_source hash total : p_slp_read_skip hash total = p_slp_read_skip_src hash total.
Proof. destruct hash; reflexivity. Qed.

(* ---- format_hash ---- *)
(* the characters of format!("<prefix>{:0<width>x}", d) *)
Definition hex_digit (upper : bool) (d : N) : N := (if N.ltb d 10 then 48 + d else (if upper then 55 else 87) + d)%N.
Fixpoint hex_digits (upper : bool) (w : nat) (d : N) : list N :=
  match w with
  | O => []
  | S w' => hex_digits upper w' (d / 16)%N ++ [hex_digit upper (d mod 16)%N]
  end.
(* for a digest below 16^width and zero padding *)
Definition hash_text (d : N) : list N := hash_prefix ++ hex_digits hash_hex_uppercase hash_hex_width d.

Theorem format_hash_from_source :
  hash_prefix = [120; 120; 104; 51; 58]%N (* "xxh3:" *) /\ hash_hex_width = 16%nat /\ hash_hex_zero_padded = true /\
  hash_hex_uppercase = false /\ hash_digest_method = "digest" (* Xxh3::digest: the 64-bit digest *) /\
  hr_digest_format_fn = "format_hash" /\
  (forall d, length (hash_text d) = 21%nat) /\
  hash_text 6345550409572837658%N (* 0x580fec7a32ec691a *) =
    [120; 120; 104; 51; 58; 53; 56; 48; 102; 101; 99; 55; 97; 51; 50; 101; 99; 54; 57; 49; 97]%N (* "xxh3:580fec7a32ec691a" *).
Proof.
  repeat split; vm_compute; reflexivity.
Qed.

(* ---- the order of the hashing lines in fn read ---- *)
Theorem read_hashing_order_from_source : read_wraps_reader_first = true /\ read_digest_taken_last = true.
Proof. split; reflexivity. Qed.

Print Assumptions hread_from_source.
Print Assumptions hseek_from_source.
Print Assumptions api_read_sched_from_source.
Print Assumptions opts_from_source.
Print Assumptions in_class_from_source.
Print Assumptions api_read_from_source.
Print Assumptions p_slp_read_skip_from_source.
Print Assumptions format_hash_from_source.
Print Assumptions read_hashing_order_from_source.
