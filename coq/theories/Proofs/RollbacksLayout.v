(* Rollback marking: the hand model Model/Rollbacks.v [rollbacks] restated THROUGH the pieces that tools/rust2coq.py
   regenerates from the text of src/frame/immutable/mod.rs Frame::rollbacks / Frame::rollbacks_ (Gen/RollbacksSrc.v):
   the iteration order per variant of `Rollbacks`, the initial value of `result` and of `seen`, the expression for
   unique_id_count (default, the checked i64 -> usize conversion, the expression around it), the zero-based id of the
   loop, and the loop body as a decision table (condition on seen[zero_based_id]; the assignments of the two branches).

   The interpreter below follows the SOURCE: it iterates over (index, id) pairs in the order the table gives for the
   variant and WRITES result[idx] / seen[zero_based_id] by index.  The hand model scans the ids in iteration order,
   builds the list of marks, and reverses it for ExceptLast.  The theorem is a FULL equality for all id lists, panics
   included (501: usize::try_from(..).unwrap() on a negative difference -- in unique_id_count or in the loop;
   502: seen[zero_based_id] out of bounds).

   If the source changes an initial value, the order of a variant, an assignment, the condition or one of the index
   expressions, the regenerated definitions change and the proofs below no longer go through. *)
From Coq Require Import List Arith NArith ZArith Lia Bool String.
From Peppi Require Import Base.Outcome Gen.Funs Gen.RollbacksSrc Model.Rollbacks.
Import ListNotations.
Notation length := (@List.length _) (only parsing).
Local Open Scope string_scope.
Local Open Scope list_scope.

(* ---- the interpreter of the regenerated pieces ---- *)
(* usize::try_from(<i64>).unwrap() *)
Definition try_usize (z : Z) : outcome N := if (z <? 0)%Z then Panic 501 else Ok (Z.to_N z).

(* v[k] = x; None: index out of bounds *)
Fixpoint set_nth {A} (k : nat) (x : A) (l : list A) : option (list A) :=
  match l, k with
  | [], _ => None
  | _ :: r, O => Some (x :: r)
  | y :: r, S j => match set_nth j x r with Some r' => Some (y :: r') | None => None end
  end.

Definition order_of (variant : string) : option rb_iter :=
  match find (fun e => String.eqb (fst e) variant) rollbacks_order with Some e => Some (snd e) | None => None end.

(* self.id.values_iter().enumerate() [.rev()] *)
Definition iterate (o : rb_iter) (ids : list Z) : list (nat * Z) :=
  let e := combine (seq 0 (length ids)) ids in
  match o with RbEnumerate => e | RbEnumerateRev => rev e end.

(* one assignment of a branch; 502: seen[..] out of bounds, 503: result[..] out of bounds *)
Definition assign (z idx : nat) (st : list bool * list bool) (a : rb_cell * bool) : outcome (list bool * list bool) :=
  match fst a with
  | RbSeenAtId => match set_nth z (snd a) (fst st) with Some s => Ok (s, snd st) | None => Panic 502 end
  | RbResultAtIdx => match set_nth idx (snd a) (snd st) with Some r => Ok (fst st, r) | None => Panic 503 end
  end.

Fixpoint assigns (z idx : nat) (st : list bool * list bool) (l : list (rb_cell * bool)) : outcome (list bool * list bool) :=
  match l with
  | [] => Ok st
  | a :: r => st' <- assign z idx st a ;; assigns z idx st' r
  end.

Fixpoint loop_tbl (its : list (nat * Z)) (seen result : list bool) : outcome (list bool) :=
  match its with
  | [] => Ok result
  | (idx, id) :: r =>
      u <- try_usize (rb_zero_based_arg id) ;;
      let z := N.to_nat (rb_zero_based_of u) in
      match nth_error seen z with
      | None => Panic 502
      | Some b =>
          let cond := if rb_cond_negated then negb b else b in
          st <- assigns z idx (seen, result) (if cond then rb_then else rb_else) ;;
          loop_tbl r (fst st) (snd st)
      end
  end.

Definition rollbacks_tbl (variant : string) (ids : list Z) : outcome (list bool) :=
  match order_of variant with
  | None => Panic 500
  | Some o =>
      let result := repeat rb_result_init (length ids) in
      count <- (match zmax ids with
                | None => Ok rb_count_default
                | Some m => u <- try_usize (rb_count_arg m) ;; Ok (rb_count_of u)
                end) ;;
      let seen := repeat rb_seen_init (N.to_nat count) in
      loop_tbl (iterate o ids) seen result
  end.

Definition keep_name (k : keep) : string := match k with ExceptFirst => "ExceptFirst" | ExceptLast => "ExceptLast" end.

(* ---- lemmas ---- *)
Lemma try_usize_zb id : (u <- try_usize (id - FIRST_INDEX)%Z ;; Ok (N.to_nat u)) = zb id.
Proof.
  unfold try_usize, zb.
  destruct (Z.ltb_spec (id - FIRST_INDEX) 0), (Z.ltb_spec id FIRST_INDEX); try lia; cbn [bind]; [reflexivity|].
  rewrite Z_N_nat. reflexivity.
Qed.

Lemma set_nth_set_true z seen b : nth_error seen z = Some b -> set_nth z true seen = Some (set_true z seen).
Proof.
  revert z. induction seen as [|x r IH]; intros [|z] H; cbn in *; try discriminate; [reflexivity|].
  rewrite (IH z H). reflexivity.
Qed.

Lemma set_true_same z seen : nth_error seen z = Some true -> set_true z seen = seen.
Proof.
  revert z. induction seen as [|x r IH]; intros [|z] H; cbn in *; try discriminate.
  - inversion H. reflexivity.
  - rewrite (IH z H). reflexivity.
Qed.

Lemma set_nth_mid {A} (pre : list A) x y suf : set_nth (length pre) x (pre ++ y :: suf) = Some (pre ++ x :: suf).
Proof. induction pre as [|a pre IH]; cbn; [reflexivity|]. rewrite IH. reflexivity. Qed.

(* one iteration of the source's loop body at a cell that holds [y] = one step of the hand model's scan:
   seen becomes set_true z seen and the cell receives the old seen[z] *)
Lemma body_step z (pre : list bool) y suf seen b :
  nth_error seen z = Some b ->
  assigns z (length pre) (seen, pre ++ y :: suf)
          (if (if rb_cond_negated then negb b else b) then rb_then else rb_else)
  = Ok (set_true z seen, pre ++ b :: suf).
Proof.
  intro H. unfold rb_cond_negated, rb_then, rb_else.
  destruct b; cbn [negb assigns assign fst snd bind].
  - rewrite set_nth_mid. cbn [bind]. rewrite (set_true_same z seen H). reflexivity.
  - rewrite (set_nth_set_true z seen false H). cbn [bind fst snd]. rewrite set_nth_mid. reflexivity.
Qed.

Lemma loop_step idx id r seen result :
  loop_tbl ((idx, id) :: r) seen result =
  (z <- zb id ;;
   match nth_error seen z with
   | None => Panic 502
   | Some b =>
       st <- assigns z idx (seen, result) (if (if rb_cond_negated then negb b else b) then rb_then else rb_else) ;;
       loop_tbl r (fst st) (snd st)
   end).
Proof.
  cbn [loop_tbl]. unfold rb_zero_based_arg, rb_zero_based_of.
  rewrite <- try_usize_zb. destruct (try_usize (id - FIRST_INDEX)); reflexivity.
Qed.

(* forward iteration: cells pre ++ [cell n ..] are filled left to right *)
Lemma loop_forward ids : forall seen pre,
  loop_tbl (combine (seq (length pre) (length ids)) ids) seen (pre ++ repeat false (length ids))
  = (r <- scan ids seen ;; Ok (pre ++ r)).
Proof.
  induction ids as [|id ids IH]; intros seen pre.
  - cbn. reflexivity.
  - cbn [length seq combine repeat scan]. rewrite loop_step.
    destruct (zb id) as [z| | |]; cbn [bind]; try reflexivity.
    destruct (nth_error seen z) as [b|] eqn:E; [|reflexivity].
    rewrite (body_step z pre false (repeat false (length ids)) seen b E). cbn [bind fst snd].
    replace (pre ++ b :: repeat false (length ids)) with ((pre ++ [b]) ++ repeat false (length ids))
      by (rewrite <- app_assoc; reflexivity).
    replace (S (length pre)) with (length (pre ++ [b])) by (rewrite app_length; cbn; lia).
    rewrite IH. destruct (scan ids (set_true z seen)); cbn [bind]; try reflexivity.
    rewrite <- app_assoc. reflexivity.
Qed.

Lemma combine_snoc {A B} (l : list A) (m : list B) a b :
  length l = length m -> combine (l ++ [a]) (m ++ [b]) = combine l m ++ [(a, b)].
Proof.
  revert m. induction l as [|x l IH]; intros [|y m] H; cbn in *; try discriminate; [reflexivity|].
  rewrite IH by lia. reflexivity.
Qed.

(* backward iteration: the cells before [suf] are filled right to left *)
Lemma loop_backward ids : forall seen suf,
  loop_tbl (rev (combine (seq 0 (length ids)) ids)) seen (repeat false (length ids) ++ suf)
  = (r <- scan (rev ids) seen ;; Ok (rev r ++ suf)).
Proof.
  induction ids as [|id ids IH] using rev_ind; intros seen suf.
  - cbn. reflexivity.
  - rewrite app_length. cbn [length]. rewrite Nat.add_1_r, seq_S, Nat.add_0_l.
    rewrite combine_snoc by (rewrite seq_length; reflexivity).
    rewrite !rev_unit. rewrite loop_step. cbn [scan].
    destruct (zb id) as [z| | |]; cbn [bind]; try reflexivity.
    destruct (nth_error seen z) as [b|] eqn:E; [|reflexivity].
    replace (repeat false (S (length ids)) ++ suf) with (repeat false (length ids) ++ false :: suf)
      by (rewrite <- (Nat.add_1_r (length ids)), repeat_app, <- app_assoc; reflexivity).
    rewrite <- (repeat_length false (length ids)) at 1.
    rewrite (body_step z (repeat false (length ids)) false suf seen b E). cbn [bind fst snd].
    rewrite IH. destruct (scan (rev ids) (set_true z seen)); cbn [bind]; try reflexivity.
    cbn [rev]. rewrite <- app_assoc. reflexivity.
Qed.

Lemma count_from_source ids :
  (count <- (match zmax ids with
             | None => Ok rb_count_default
             | Some m => u <- try_usize (rb_count_arg m) ;; Ok (rb_count_of u)
             end) ;; Ok (N.to_nat count))
  = match zmax ids with None => Ok O | Some m => z <- zb m ;; Ok (S z) end.
Proof.
  unfold rb_count_default, rb_count_arg, rb_count_of.
  destruct (zmax ids) as [m|]; [|reflexivity].
  rewrite <- try_usize_zb. destruct (try_usize (m - FIRST_INDEX)) as [u| | |]; cbn [bind]; try reflexivity.
  f_equal. lia.
Qed.

(* ---- the theorem ---- *)
Theorem rollbacks_from_source k ids : rollbacks k ids = rollbacks_tbl (keep_name k) ids.
Proof.
  unfold rollbacks, rollbacks_tbl.
  pose proof (count_from_source ids) as C. unfold rb_result_init, rb_seen_init.
  destruct k; cbn [keep_name].
  - change (order_of "ExceptFirst") with (Some RbEnumerate). cbv beta iota. cbn [iterate].
    destruct (zmax ids) as [m|].
    + destruct (try_usize (rb_count_arg m)) as [u| | |]; cbn [bind] in C |- *;
        destruct (zb m) as [z| | |]; cbn [bind] in C |- *; try discriminate; try reflexivity; try (inversion C; reflexivity).
      apply ok_inj in C. rewrite C.
      pose proof (loop_forward ids (repeat false (S z)) []) as L. cbn [length app] in L. rewrite L.
      destruct (scan ids (repeat false (S z))); reflexivity.
    + cbn [bind] in C |- *. apply ok_inj in C. rewrite C.
      pose proof (loop_forward ids (repeat false 0) []) as L. cbn [length app] in L. rewrite L.
      destruct (scan ids (repeat false 0)); reflexivity.
  - change (order_of "ExceptLast") with (Some RbEnumerateRev). cbv beta iota. cbn [iterate].
    destruct (zmax ids) as [m|].
    + destruct (try_usize (rb_count_arg m)) as [u| | |]; cbn [bind] in C |- *;
        destruct (zb m) as [z| | |]; cbn [bind] in C |- *; try discriminate; try reflexivity; try (inversion C; reflexivity).
      apply ok_inj in C. rewrite C.
      rewrite <- (app_nil_r (repeat false (length ids))).
      rewrite (loop_backward ids (repeat false (S z)) []).
      destruct (scan (rev ids) (repeat false (S z))); cbn [bind]; try reflexivity. rewrite app_nil_r. reflexivity.
    + cbn [bind] in C |- *. apply ok_inj in C. rewrite C.
      rewrite <- (app_nil_r (repeat false (length ids))).
      rewrite (loop_backward ids (repeat false 0) []).
      destruct (scan (rev ids) (repeat false 0)); cbn [bind]; try reflexivity. rewrite app_nil_r. reflexivity.
Qed.

(* every variant of `enum Rollbacks` has an arm, and the arms are the model's two cases *)
Theorem rollbacks_variants_from_source :
  rollbacks_variants = map keep_name [ExceptFirst; ExceptLast] /\ map fst rollbacks_order = rollbacks_variants.
Proof. split; reflexivity. Qed.

(* result[idx] can never be out of bounds (Panic 503 is unreachable): a corollary of the equality, since the hand
   model has no such outcome *)
Corollary rollbacks_no_503 k ids : rollbacks_tbl (keep_name k) ids <> Panic 503.
Proof.
  rewrite <- rollbacks_from_source. unfold rollbacks.
  assert (HS : forall l seen, scan l seen <> Panic 503).
  { induction l as [|id l IH]; intros seen; cbn [scan]; [discriminate|].
    unfold zb. destruct (id <? FIRST_INDEX)%Z; cbn [bind]; [discriminate|].
    destruct (nth_error seen (Z.to_nat (id - FIRST_INDEX))); [|discriminate].
    specialize (IH (set_true (Z.to_nat (id - FIRST_INDEX)) seen)).
    destruct (scan l (set_true (Z.to_nat (id - FIRST_INDEX)) seen)); cbn [bind]; congruence. }
  destruct (zmax ids) as [m|]; cbn [bind].
  - unfold zb. destruct (m <? FIRST_INDEX)%Z; cbn [bind]; [discriminate|].
    destruct k; [apply HS|].
    specialize (HS (rev ids) (repeat false (S (Z.to_nat (m - FIRST_INDEX))))).
    destruct (scan (rev ids) (repeat false (S (Z.to_nat (m - FIRST_INDEX))))); cbn [bind]; congruence.
  - destruct k; [apply HS|].
    specialize (HS (rev ids) (repeat false 0)).
    destruct (scan (rev ids) (repeat false 0)); cbn [bind]; congruence.
Qed.

Print Assumptions rollbacks_from_source.
Print Assumptions rollbacks_variants_from_source.
Print Assumptions rollbacks_no_503.
