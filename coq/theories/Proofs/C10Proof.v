(* C10: the result of a skip-frames read can itself be written out and re-read. *)
From Coq Require Import List Arith NArith ZArith Lia Bool String ZifyBool ZifyN ZifyNat.
From Coq.Strings Require Import Byte.
From Peppi Require Import Base.Bytes Base.Outcome Base.Stream Layout.Syntax Gen.Funs Layout.Sem Layout.Rows
  Model.Ubjson Model.Start Model.Json Model.Parse Model.Reader Model.Writer Model.Recorder
  Proofs.Framing Proofs.FrameStep Proofs.StartFacts Proofs.TableFacts Proofs.ReadProof Proofs.WriteProof.
Import ListNotations.
Notation length := (@List.length _) (only parsing).

(* the replay a skip-frames result denotes: same start, end (once) and metadata; no frames, no gecko blob *)
Definition skipped (r : replay) : replay :=
  {| r_start := r_start r; r_gecko := None; r_frames := [];
     r_end := match end_blk r with Some b => OneEnd b | None => NoEnd end; r_meta := r_meta r |}.

Lemma skipped_ver r : r_ver (skipped r) = r_ver r. Proof. reflexivity. Qed.
Lemma skipped_end_blk r : end_blk (skipped r) = end_blk r.
Proof. unfold skipped. unfold end_blk at 1. cbn [r_end]. unfold end_blk. destruct (r_end r); reflexivity. Qed.
Lemma skipped_end_of r : end_of (skipped r) = end_of r.
Proof. unfold end_of. rewrite skipped_end_blk. reflexivity. Qed.

Lemma emit_table_length (t : list (N * N)) : length (emit_table t) = (2 + 3 * length t)%nat.
Proof.
  unfold emit_table, ev. rewrite !app_length. cbn [List.length].
  assert (H : forall l : list (N * N), length (flat_map (fun p => n2b (fst p) :: be_enc 2 (snd p)) l) = (3 * length l)%nat).
  { induction l as [|x l IH]; [reflexivity|]. cbn [flat_map List.length app]. rewrite app_length, length_be_enc, IH. lia. }
  rewrite H. lia.
Qed.

Lemma skipped_wf r st : wf_replay r = true -> game_start (r_start r) = ROk st -> wf_replay (skipped r) = true.
Proof.
  intros Hwf Hst. destruct (wf_replay_inv r st Hwf Hst) as (Hmax & Hlen & _ & _ & _ & Hend & Hmeta & _).
  unfold wf_replay. change (r_start (skipped r)) with (r_start r). rewrite Hst. rewrite skipped_ver.
  change (r_frames (skipped r)) with (@nil aframe). change (r_gecko (skipped r)) with (@None gecko_t).
  change (r_meta (skipped r)) with (r_meta r). rewrite skipped_end_blk.
  rewrite !andb_true_iff. repeat split.
  - exact Hmax.
  - apply N.leb_le. exact Hlen.
  - destruct (vgte (r_ver r) 2 2); reflexivity.
  - destruct (end_blk r) as [b|] eqn:Hb; [|reflexivity]. destruct (Hend b eq_refl) as [Hl [e He]].
    rewrite andb_true_iff. split; [apply Nat.eqb_eq; exact Hl|]. rewrite He. reflexivity.
  - exact Hmeta.
  - apply N.ltb_lt. unfold raw_of. change (r_start (skipped r)) with (r_start r). change (r_gecko (skipped r)) with (@None gecko_t).
    change (r_frames (skipped r)) with (@nil aframe). cbn [flat_map].
    rewrite !app_length, emit_table_length. unfold ev. cbn [List.length].
    assert (Ht : (length (rec_table (skipped r)) <= 9)%nat).
    { unfold rec_table. rewrite skipped_ver. change (r_gecko (skipped r)) with (@None gecko_t).
      destruct (vgte (r_ver r) 2 2), (vgte (r_ver r) 3 0), (vgte (r_ver r) 3 3); cbn [app List.length]; lia. }
    assert (He : (length (emit_end (skipped r)) <= 7)%nat).
    { unfold emit_end, skipped. cbn [r_end]. destruct (end_blk r) as [b|] eqn:Hb; [|cbn; lia].
      destruct (Hend b eq_refl) as [Hl _]. rewrite app_length. unfold ev. cbn [List.length].
      pose proof (game_End_size_bounds (r_ver r)). lia. }
    unfold nn in *. lia.
Qed.

Lemma skip_game_eq r st (h : bool) :
  finished r = true ->
  let gs := game_of {| o_skip := true; o_hash := h |} r st (end_of r) in
  let gf := game_of {| o_skip := false; o_hash := h |} (skipped r) st (end_of (skipped r)) in
  g_start gs = g_start gf /\ g_end gs = g_end gf /\ g_frames gs = g_frames gf /\ g_meta gs = g_meta gf /\
  g_gecko gs = g_gecko gf /\ g_quirk gs = g_quirk gf.
Proof.
  intro Hfin. unfold game_of. cbn [o_skip g_start g_end g_frames g_meta g_gecko g_quirk].
  rewrite skipped_end_of, skipped_ver. repeat split.
  unfold skipped. cbn [r_end]. destruct (end_blk r); reflexivity.
Qed.

Lemma slp_write_ext g g' :
  g_start g = g_start g' -> g_end g = g_end g' -> g_frames g = g_frames g' -> g_meta g = g_meta g' ->
  g_gecko g = g_gecko g' -> g_quirk g = g_quirk g' -> slp_write g = slp_write g'.
Proof.
  destruct g as [a1 a2 a3 a4 a5 a6 a7], g' as [b1 b2 b3 b4 b5 b6 b7]. cbn [g_start g_end g_frames g_meta g_gecko g_quirk]. intros -> -> -> -> -> ->. reflexivity.
Qed.

(* writing the skip-frames result gives the canonical stream of the frame-less replay; that stream reads back, with or
   without skipping, to the same start, end, metadata and (empty) frames *)
Theorem c10_skip_result_writable r st h :
  wf_replay r = true -> game_start (r_start r) = ROk st -> finished r = true ->
  let gs := game_of {| o_skip := true; o_hash := h |} r st (end_of r) in
  slp_read {| o_skip := true; o_hash := h |} (emit r) = Ok (gs, []) /\
  slp_write gs = Ok (emit (skipped r)) /\
  (forall sk, exists g2, slp_read {| o_skip := sk; o_hash := h |} (emit (skipped r)) = Ok (g2, []) /\
      g_start g2 = g_start gs /\ g_end g2 = g_end gs /\ g_meta g2 = g_meta gs /\ g_frames g2 = g_frames gs /\
      g_gecko g2 = g_gecko gs /\ g_quirk g2 = g_quirk gs /\ slp_write g2 = Ok (emit (skipped r))).
Proof.
  intros Hwf Hst Hfin gs.
  pose proof (skipped_wf r st Hwf Hst) as Hwf'.
  assert (Hst' : game_start (r_start (skipped r)) = ROk st) by exact Hst.
  assert (Hfin' : finished (skipped r) = true).
  { unfold finished, skipped in *. cbn [r_end]. unfold end_blk. destruct (r_end r); [discriminate|reflexivity|reflexivity]. }
  pose proof (c01_write (skipped r) st h Hwf' Hst') as Hw.
  split; [apply read_skipping; assumption|].
  destruct (skip_game_eq r st h Hfin) as (E1 & E2 & E3 & E4 & E5 & E6).
  assert (Hws : slp_write gs = Ok (emit (skipped r))).
  { rewrite <- Hw. apply slp_write_ext; assumption. }
  split; [exact Hws|].
  intros [|].
  - exists (game_of {| o_skip := true; o_hash := h |} (skipped r) st (end_of (skipped r))).
    split; [apply read_skipping; assumption|].
    unfold gs, game_of. cbn [o_skip g_start g_end g_frames g_meta g_gecko g_quirk]. rewrite skipped_end_of, skipped_ver.
    repeat split. exact Hws.
  - exists (game_of {| o_skip := false; o_hash := h |} (skipped r) st (end_of (skipped r))).
    split; [apply read_full; assumption|].
    repeat split; try (symmetry; assumption). exact Hw.
Qed.
Print Assumptions c10_skip_result_writable.
