(* The single-frame record view: the hand model Model/View.v [frame_view] / [cdata_view] (Frame / PortData / Data
   ::transpose_one) is the interpretation of the tables that tools/rust2coq.py regenerates from the text of the hand-written
   transpose_one functions of src/frame/immutable/mod.rs and src/frame/mutable.rs (Gen/FrameTranspose.v): which part of
   the result is built from which column set, in the order the struct literal evaluates them, and under which
   `version.gte(M, m).then(..)` each optional part is built.

   If the source changes a gate, takes a part from another column set (leader from follower, pre from post, end from
   start, ...), reorders the fields of the literal, or the two files start to differ, the regenerated tables change and these
   theorems no longer hold of the unchanged hand model. *)
From Coq Require Import List Arith NArith ZArith Lia Bool String.
From Coq.Strings Require Import Byte.
From Peppi Require Import Base.Bytes Base.Outcome Layout.Syntax Gen.Funs Gen.Tables Gen.FrameTranspose Layout.Sem Layout.Rows
  Layout.Shapes Model.Start Model.Parse Model.View.
Import ListNotations.
Notation length := (@List.length _) (only parsing).
Local Open Scope string_scope.
Local Open Scope list_scope.

Ltac ev_term x := let v := eval vm_compute in x in progress change x with v.

(* the fields of the Rust structs and their counterparts in the model's records *)
Inductive dfield := DPre | DPost.
Definition dfield_of (s : string) : option dfield :=
  if String.eqb s "pre" then Some DPre else if String.eqb s "post" then Some DPost else None.
Definition data_rows (d : cdata) (f : dfield) : list row := match f with DPre => c_pre d | DPost => c_post d end.

Inductive ffield := FStart | FEnd | FItem.
Definition ffield_of (s : string) : option ffield :=
  if String.eqb s "start" then Some FStart else if String.eqb s "end" then Some FEnd
  else if String.eqb s "item" then Some FItem else None.
Definition frame_rows (fr : frames) (f : ffield) : option (list row) :=
  match f with FStart => f_start fr | FEnd => f_end fr | FItem => f_item fr end.
(* the unwrap() panic sites of the model *)
Definition frame_site (f : ffield) : N := match f with FStart => 602%N | FEnd => 603%N | FItem => 604%N end.

(* ---- Data::transpose_one: transpose::Data { pre: .., post: .. }, evaluated in the order of the literal ---- *)
Definition cdata_view_tbl (tbl : list (string * string * string)) (v : version) (d : cdata) (i : nat) : outcome cview :=
  match tbl with
  | [(t1, s1, r1); (t2, s2, r2)] =>
      if String.eqb t1 "pre" && String.eqb t2 "post" then
        match dfield_of s1, dfield_of s2 with
        | Some f1, Some f2 =>
            a <- at_row (data_rows d f1) i ;; b <- at_row (data_rows d f2) i ;;
            Ok {| cv_pre := row_vals v r1 a; cv_post := row_vals v r2 b |}
        | _, _ => Panic 0
        end
      else Panic 0
  | _ => Panic 0
  end.

Theorem cdata_view_from_source v d i : cdata_view v d i = cdata_view_tbl imm_data_transpose v d i.
Proof.
  unfold cdata_view, cdata_view_tbl, imm_data_transpose.
  repeat match goal with
  | |- context [dfield_of ?s] => ev_term (dfield_of s)
  | |- context [String.eqb ?a ?b] => ev_term (String.eqb a b)
  end; cbv beta iota. cbn [andb data_rows]. reflexivity.
Qed.

(* ---- PortData::transpose_one over the model's flat character slots: the leader of a port is the slot with
        sl_fol = false, its follower the one with sl_fol = true; `port` is copied ---- *)
Fixpoint p_lookup (tbl : list (string * psrc)) (name : string) : option psrc :=
  match tbl with
  | [] => None
  | (n, s) :: r => if String.eqb n name then Some s else p_lookup r name
  end.

Definition slot_view_tbl (ptbl : list (string * psrc)) (dtbl : list (string * string * string)) (v : version) (c : slot) (i : nat)
  : outcome (N * bool * cview) :=
  let who := if sl_fol c then "follower" else "leader" in
  match p_lookup ptbl "port", p_lookup ptbl who with
  | Some (TpCopy pf), Some (TpData f opt) =>
      (* the part named `who` is built from the column set of the same name; only the follower is optional *)
      if String.eqb pf "port" && String.eqb f who && Bool.eqb opt (sl_fol c)
      then x <- cdata_view_tbl dtbl v (sl_data c) i ;; Ok (sl_port c, sl_fol c, x)
      else Panic 0
  | _, _ => Panic 0
  end.

Theorem slot_view_from_source v c i :
  (x <- cdata_view v (sl_data c) i ;; Ok (sl_port c, sl_fol c, x)) = slot_view_tbl imm_portdata_transpose imm_data_transpose v c i.
Proof.
  unfold slot_view_tbl. rewrite (cdata_view_from_source v (sl_data c) i).
  destruct (sl_fol c);
    repeat match goal with
    | |- context [p_lookup ?t ?n] => ev_term (p_lookup t n)
    | |- context [String.eqb ?a ?b] => ev_term (String.eqb a b)
    end; cbv beta iota; cbn [andb Bool.eqb]; reflexivity.
Qed.

(* ---- Frame::transpose_one ---- *)
Definition ev_id (fr : frames) (i : nat) (s : tsrc) (g : option (N * N)) : outcome Z :=
  match s, g with
  | TsIdValue f, None => if String.eqb f "id" then at_row (f_ids fr) i else Panic 0
  | _, _ => Panic 0
  end.

Definition ev_ports (ptbl : list (string * psrc)) (dtbl : list (string * string * string)) (v : version) (fr : frames) (i : nat)
           (s : tsrc) (g : option (N * N)) : outcome (list (N * bool * cview)) :=
  match s, g with
  | TsPortsMap f, None => if String.eqb f "ports" then all_ok (map (fun c => slot_view_tbl ptbl dtbl v c i) (f_chars fr)) else Panic 0
  | _, _ => Panic 0
  end.

(* version.gte(M, m).then(|| self.<f>.as_ref().unwrap().transpose_one(i, version)) *)
Definition ev_row (v : version) (fr : frames) (i : nat) (s : tsrc) (g : option (N * N)) : outcome (option (list N)) :=
  match s, g with
  | TsRow f rec, Some (M, m) =>
      match ffield_of f with
      | Some ff =>
          if vgte v M m then
            match frame_rows fr ff with
            | Some rows => r <- at_row rows i ;; Ok (Some (row_vals v rec r))
            | None => Panic (frame_site ff)
            end
          else Ok None
      | None => Panic 0
      end
  | _, _ => Panic 0
  end.

(* version.gte(M, m).then(|| { let (start, end) = self.<offs>.as_ref().unwrap().start_end(i);
                                 (start..end).map(|i| self.<f>.as_ref().unwrap().transpose_one(i, version)).collect() }) *)
Definition ev_items (v : version) (fr : frames) (i : nat) (s : tsrc) (g : option (N * N)) : outcome (option (list (list N))) :=
  match s, g with
  | TsItems off f rec, Some (M, m) =>
      match ffield_of f with
      | Some ff =>
          if String.eqb off "item_offset" then
            if vgte v M m then
              match f_item_off fr with
              | Some offs =>
                  a <- at_row offs i ;; b <- at_row offs (S i) ;;
                  rs <- all_ok (map (fun k => match frame_rows fr ff with
                                              | Some items => at_row items k
                                              | None => Panic (frame_site ff)
                                              end) (seq (Z.to_nat a) (Z.to_nat b - Z.to_nat a))) ;;
                  Ok (Some (map (row_vals v rec) rs))
              | None => Panic 604
              end
            else Ok None
          else Panic 0
      | None => Panic 0
      end
  | _, _ => Panic 0
  end.

(* the fields of the transpose::Frame literal, evaluated in the order of the table *)
Definition frame_view_tbl (tbl : list (string * tsrc * option (N * N))) (ptbl : list (string * psrc))
           (dtbl : list (string * string * string)) (v : version) (fr : frames) (i : nat) : outcome fview :=
  match tbl with
  | [(n1, s1, g1); (n2, s2, g2); (n3, s3, g3); (n4, s4, g4); (n5, s5, g5)] =>
      if String.eqb n1 "id" && String.eqb n2 "ports" && String.eqb n3 "start" && String.eqb n4 "end" && String.eqb n5 "items" then
        id <- ev_id fr i s1 g1 ;;
        ports <- ev_ports ptbl dtbl v fr i s2 g2 ;;
        st <- ev_row v fr i s3 g3 ;;
        en <- ev_row v fr i s4 g4 ;;
        its <- ev_items v fr i s5 g5 ;;
        Ok {| fv_id := id; fv_chars := ports; fv_start := st; fv_end := en; fv_items := its |}
      else Panic 0
  | _ => Panic 0
  end.

Lemma bind_ext {A B} (x : outcome A) (f h : A -> outcome B) : (forall a, f a = h a) -> bind x f = bind x h.
Proof. intro H. destruct x; cbn [bind]; auto. Qed.

(* THE theorem: full equality, panics included, for EVERY frame set -- also the ones no constructor of the crate produces
   (item offsets without item columns: self.item is unwrapped inside the loop over the frame's items only, in the source
   and in the hand model alike) *)
Theorem frame_view_from_source v fr i :
  frame_view v fr i = frame_view_tbl imm_frame_transpose imm_portdata_transpose imm_data_transpose v fr i.
Proof.
  unfold frame_view, frame_view_tbl, imm_frame_transpose.
  cbn [ev_id ev_ports ev_row ev_items].
  repeat match goal with
  | |- context [ffield_of ?s] => ev_term (ffield_of s)
  | |- context [String.eqb ?a ?b] => ev_term (String.eqb a b)
  end; cbv beta iota. cbn [andb frame_rows frame_site].
  apply bind_ext; intro id.
  rewrite (map_ext _ _ (fun c => slot_view_from_source v c i)).
  apply bind_ext; intro ports.
  apply bind_ext; intro st.
  apply bind_ext; intro en.
  reflexivity.
Qed.

(* the corner on which an earlier, stricter hand model differed from the source, made concrete: offsets without item columns.
   On a frame with no items both sides succeed with the empty item list; on a frame with an item both sides panic at the
   unwrap of self.item (604), not at an index *)
Example frame_view_item_none :
  let v : version := (3, 0, 0)%N in
  let fr := {| f_ids := [0%Z; 1%Z]; f_chars := []; f_start := Some [[]; []]; f_end := Some [[]; []];
               f_item_off := Some [0%Z; 0%Z; 1%Z]; f_item := None |} in
  let tbl := frame_view_tbl imm_frame_transpose imm_portdata_transpose imm_data_transpose v fr in
  (exists w, frame_view v fr 0 = Ok w /\ tbl 0%nat = Ok w /\ fv_items w = Some []) /\
  frame_view v fr 1 = Panic 604 /\ tbl 1%nat = Panic 604.
Proof.
  split; [eexists; split; [vm_compute; reflexivity|split; vm_compute; reflexivity]|].
  split; vm_compute; reflexivity.
Qed.

(* mutable::Frame (the live-parsing API) and immutable::Frame transpose in the same way *)
Theorem transpose_tables_agree :
  mut_data_transpose = imm_data_transpose /\ mut_portdata_transpose = imm_portdata_transpose /\
  mut_frame_transpose = imm_frame_transpose.
Proof. repeat split; vm_compute; reflexivity. Qed.

Corollary frame_view_mutable_from_source v fr i :
  frame_view v fr i = frame_view_tbl mut_frame_transpose mut_portdata_transpose mut_data_transpose v fr i.
Proof.
  destruct transpose_tables_agree as (-> & -> & ->). apply frame_view_from_source.
Qed.

Print Assumptions cdata_view_from_source.
Print Assumptions slot_view_from_source.
Print Assumptions frame_view_from_source.
Print Assumptions frame_view_item_none.
Print Assumptions transpose_tables_agree.
Print Assumptions frame_view_mutable_from_source.
