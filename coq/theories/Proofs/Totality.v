(* C06 totality: for every byte string and every option combination the reader returns Ok or Err -- never a
   panic, never exhausted fuel -- and only ever consumes a prefix of its input.  Proved for the one-shot reader
   (slp_read) and for each function of the incremental API (parse_header, parse_start, parse_event,
   parse_metadata) together with the event loop. *)
From Coq Require Import List Arith NArith ZArith Lia Bool String ZifyBool ZifyN ZifyNat.
From Coq.Strings Require Import Byte.
From Peppi Require Import Base.Bytes Base.Outcome Base.Stream Layout.Syntax Gen.Funs Layout.Sem Layout.Rows
  Model.Ubjson Model.Start Model.Json Model.Parse Model.Reader
  Proofs.FrameStep Proofs.UbjsonProof.
Import ListNotations.
Notation length := (@List.length _) (only parsing).

(* ------------------------------------------------------------------------------------------------ *)
(* 1. safety, and safety + consumption + postcondition for stream parsers                           *)
(* ------------------------------------------------------------------------------------------------ *)

Definition safe {A} (x : outcome A) : Prop :=
  match x with Panic _ => False | Fuel => False | _ => True end.

Lemma safe_bind {A B} (x : outcome A) (f : A -> outcome B) :
  safe x -> (forall a, x = Ok a -> safe (f a)) -> safe (bind x f).
Proof. destruct x; cbn [bind safe]; intros H K; auto. Qed.

(* a parser result on input bs: no panic, no fuel, and on success the postcondition holds and the rest is a
   suffix of bs *)
Definition good {A} (Q : A -> list byte -> Prop) (bs : list byte) (x : outcome (A * list byte)) : Prop :=
  match x with
  | Ok (a, r) => Q a r /\ sfx r bs
  | Err _ => True
  | Panic _ => False
  | Fuel => False
  end.

Definition TT {A} : A -> list byte -> Prop := fun _ _ => True.

Lemma good_safe {A} (Q : A -> list byte -> Prop) bs x : good Q bs x -> safe x.
Proof. destruct x as [[a r]| | |]; cbn [good safe]; auto. Qed.

Lemma good_ok {A} (Q : A -> list byte -> Prop) bs x a r : good Q bs x -> x = Ok (a, r) -> Q a r /\ sfx r bs.
Proof. intros H E. subst x. exact H. Qed.

Lemma good_imp {A} (Q Q' : A -> list byte -> Prop) r bs x :
  good Q r x -> sfx r bs -> (forall a r', Q a r' -> sfx r' r -> Q' a r') -> good Q' bs x.
Proof.
  destruct x as [[a r']| | |]; cbn [good]; auto.
  intros [H1 H2] S K. split; [apply K; assumption | eapply sfx_trans; eassumption].
Qed.

Lemma good_pbind {A B} (Qa : A -> list byte -> Prop) (Qb : B -> list byte -> Prop)
      (p : parser A) (f : A -> parser B) bs :
  good Qa bs (p bs) ->
  (forall a r, p bs = Ok (a, r) -> Qa a r -> sfx r bs -> good Qb r (f a r)) ->
  good Qb bs (pbind p f bs).
Proof.
  unfold pbind. destruct (p bs) as [[a r]| | |]; cbn [good]; intros H K; auto.
  destruct H as [H1 H2]. specialize (K a r eq_refl H1 H2).
  eapply good_imp; [exact K | exact H2 | auto].
Qed.

(* the same for the outcome-level bind used by slp_read, threading the original input *)
Lemma good_bind {A B} (Qa : A -> list byte -> Prop) (Qb : B -> list byte -> Prop) bs1 bs
      (x : outcome (A * list byte)) (f : A * list byte -> outcome (B * list byte)) :
  good Qa bs1 x -> sfx bs1 bs ->
  (forall a r, x = Ok (a, r) -> Qa a r -> sfx r bs -> good Qb bs (f (a, r))) ->
  good Qb bs (bind x f).
Proof.
  destruct x as [[a r]| | |]; cbn [good bind]; intros H S K; auto.
  destruct H as [H1 H2]. apply (K a r eq_refl H1). eapply sfx_trans; eassumption.
Qed.

Lemma good_ret {A} (Q : A -> list byte -> Prop) (a : A) bs : Q a bs -> good Q bs (ret a bs).
Proof. intro H. unfold ret. cbn [good]. split; [exact H | apply sfx_refl]. Qed.

Lemma good_fail {A} (Q : A -> list byte -> Prop) e bs : good Q bs (@fail A e bs).
Proof. exact I. Qed.

Lemma rd_u8_ok bs c r : rd_u8 bs = Ok (c, r) -> exists b, bs = b :: r.
Proof. destruct bs as [|b r0]; cbn [rd_u8]; intro H; [discriminate|]. inversion H; subst. eauto. Qed.

Lemma good_rd_u8 bs : good TT bs (rd_u8 bs).
Proof. destruct bs as [|b r]; cbn [rd_u8 good]; [exact I|]. split; [exact I | exists [b]; reflexivity]. Qed.

Lemma good_rd_exact n bs : good TT bs (rd_exact n bs).
Proof.
  destruct (rd_exact n bs) as [[a r]| | |] eqn:E; cbn [good]; auto.
  - apply rd_exact_ok in E as [E _]. split; [exact I | exists a; exact E].
  - unfold rd_exact in E. destruct (take_exact n bs) as [[? ?]|]; discriminate.
  - unfold rd_exact in E. destruct (take_exact n bs) as [[? ?]|]; discriminate.
Qed.

Lemma good_rd_be w bs : good TT bs (rd_be w bs).
Proof.
  unfold rd_be. eapply good_pbind; [apply good_rd_exact|].
  intros a r _ _ _. apply good_ret. exact I.
Qed.

Lemma good_expect_bytes e bs : good TT bs (expect_bytes e bs).
Proof.
  unfold expect_bytes. eapply good_pbind; [apply good_rd_exact|].
  intros a r _ _ _. destruct (list_byte_eqb e a); [apply good_ret; exact I | apply good_fail].
Qed.

(* ------------------------------------------------------------------------------------------------ *)
(* 2. the state invariant                                                                           *)
(* ------------------------------------------------------------------------------------------------ *)

(* rules out Panic 201: the three >=3.0 column groups exist together *)
Definition st_ok (s : pstate) : Prop :=
  (f_end (ps_frames s) = None <-> f_item_off (ps_frames s) = None) /\
  (f_end (ps_frames s) = None <-> f_item (ps_frames s) = None).

Ltac frok :=
  unfold st_ok in *;
  cbn [ps_frames f_end f_item_off f_item set_frames frame_close frame_close_frames frame_open with_ids
       upd_char set_end set_gecko set_split add_bytes_read set_meta set_quirk] in *;
  intuition congruence.

Lemma st_ok_new v ports sizes br sr sa L st e m g q :
  st_ok {| ps_sizes := sizes; ps_bytes_read := br; ps_split_raw := sr; ps_split_actual := sa;
           ps_layout := L; ps_start := st; ps_end := e;
           ps_frames := frames_new v ports; ps_meta := m; ps_gecko := g; ps_quirk := q |}.
Proof.
  unfold st_ok, frames_new. cbn [ps_frames f_end f_item_off f_item].
  destruct (vgte v 3 0); intuition congruence.
Qed.

Lemma st_ok_close s : st_ok s -> st_ok (frame_close s).              Proof. intro H. frok. Qed.
Lemma st_ok_open s id : st_ok s -> st_ok (frame_open s id).          Proof. intro H. frok. Qed.
Lemma st_ok_bytes s n : st_ok s -> st_ok (add_bytes_read s n).       Proof. intro H. frok. Qed.
Lemma st_ok_split s r a : st_ok s -> st_ok (set_split s r a).        Proof. intro H. frok. Qed.
Lemma st_ok_gecko s g : st_ok s -> st_ok (set_gecko s g).            Proof. intro H. frok. Qed.
Lemma st_ok_end s e : st_ok s -> st_ok (set_end s e).                Proof. intro H. frok. Qed.
Lemma st_ok_meta s m : st_ok s -> st_ok (set_meta s m).              Proof. intro H. frok. Qed.
Lemma st_ok_quirk s : st_ok s -> st_ok (set_quirk s).                Proof. intro H. frok. Qed.
Lemma st_ok_char s i f : st_ok s -> st_ok (set_frames s (upd_char (ps_frames s) i f)).
Proof. intro H. frok. Qed.

(* ------------------------------------------------------------------------------------------------ *)
(* 3. the event arms: no panic, and the invariant is kept                                           *)
(* ------------------------------------------------------------------------------------------------ *)

Definition okst (x : outcome pstate) : Prop :=
  match x with Ok s' => st_ok s' | Err _ => True | Panic _ => False | Fuel => False end.

Lemma okst_bind {A} (x : outcome A) (f : A -> outcome pstate) :
  safe x -> (forall a, x = Ok a -> okst (f a)) -> okst (bind x f).
Proof. destruct x; cbn [bind safe okst]; intros H K; auto. Qed.

Lemma i32_at_safe buf : safe (i32_at buf).
Proof. unfold i32_at. destruct (_ <? _)%nat; exact I. Qed.
Lemma u8_hd_safe buf : safe (u8_hd buf).
Proof. destruct buf; exact I. Qed.
Lemma read_push_safe n p : safe (read_push n p).
Proof. unfold read_push. destruct (_ <? _)%nat; exact I. Qed.
Lemma expect_id_safe s id : safe (expect_id s id).
Proof. unfold expect_id. destruct (last_id s); [destruct (Z.eqb _ _)|]; exact I. Qed.
Lemma data_lookup_safe s p f : safe (data_lookup s p f).
Proof. unfold data_lookup. destruct (find_slot _ _ _ _); exact I. Qed.
Lemma res_outcome_safe {A} (r : res A) : safe (res_outcome r).
Proof. destruct r; exact I. Qed.

Lemma arm_gecko_ok buf s : st_ok s -> okst (arm_gecko buf s).
Proof. intro H. unfold arm_gecko. cbn [okst]. apply st_ok_gecko. exact H. Qed.

Lemma arm_end_ok buf s : st_ok s -> okst (arm_end buf s).
Proof.
  intro H. unfold arm_end. cbv zeta. apply okst_bind; [apply res_outcome_safe|].
  intros e _. cbn [okst]. apply st_ok_end. destruct (vlt (ver s) 3 0); [apply st_ok_close|]; exact H.
Qed.

Lemma arm_fstart_ok buf s : st_ok s -> okst (arm_fstart buf s).
Proof.
  intro H. unfold arm_fstart.
  set (s1 := if vlt (ver s) 3 0 then frame_close s else s).
  assert (H1 : st_ok s1) by (subst s1; destruct (vlt (ver s) 3 0); [apply st_ok_close|]; exact H).
  clearbody s1. cbv zeta.
  apply okst_bind; [apply i32_at_safe|]. intros [id r] _.
  destruct (f_start (ps_frames s1)) as [rows|]; [|exact I].
  apply okst_bind; [apply read_push_safe|]. intros rw _. cbn [okst]. frok.
Qed.

Lemma arm_pre_ok buf s : st_ok s -> okst (arm_pre buf s).
Proof.
  intro H. unfold arm_pre.
  apply okst_bind; [apply i32_at_safe|]. intros [id r] _.
  apply okst_bind; [apply u8_hd_safe|]. intros [port r1] _.
  apply okst_bind; [apply u8_hd_safe|]. intros [folb r2] _. cbv zeta.
  match goal with |- okst (bind ?x _) =>
    assert (Hx : match x with Ok s1 => st_ok s1 | Err _ => True | _ => False end) end.
  { destruct (vgte (ver s) 2 2).
    - pose proof (expect_id_safe s id) as Hs. destruct (expect_id s id); cbn [bind]; auto.
    - destruct (Z.eqb _ id).
      + apply st_ok_open, st_ok_close. exact H.
      + pose proof (expect_id_safe s id) as Hs. destruct (expect_id s id); cbn [bind]; auto. }
  match goal with |- okst (bind ?x _) => destruct x as [s1| | |] end; cbn [bind okst]; auto.
  apply okst_bind; [apply data_lookup_safe|]. intros i _.
  apply okst_bind; [apply read_push_safe|]. intros rw _. cbn [okst].
  apply st_ok_char. exact Hx.
Qed.

Lemma arm_post_ok buf s : st_ok s -> okst (arm_post buf s).
Proof.
  intro H. unfold arm_post.
  apply okst_bind; [apply i32_at_safe|]. intros [id r] _.
  apply okst_bind; [apply u8_hd_safe|]. intros [port r1] _.
  apply okst_bind; [apply u8_hd_safe|]. intros [folb r2] _. cbv zeta.
  apply okst_bind; [apply expect_id_safe|]. intros _ _.
  apply okst_bind; [apply data_lookup_safe|]. intros i _.
  apply okst_bind; [apply read_push_safe|]. intros rw _. cbn [okst].
  apply st_ok_char. exact H.
Qed.

Lemma arm_fend_ok buf s : st_ok s -> okst (arm_fend buf s).
Proof.
  intro H. unfold arm_fend.
  apply okst_bind; [apply i32_at_safe|]. intros [id r] _.
  apply okst_bind; [apply expect_id_safe|]. intros _ _. cbv zeta.
  destruct (f_end (ps_frames s)) as [erows|] eqn:E1;
    destruct (f_item_off (ps_frames s)) as [offs|] eqn:E2;
    destruct (f_item (ps_frames s)) as [items|] eqn:E3;
    try exact I; try (exfalso; unfold st_ok in H; rewrite E1, E2, E3 in H; intuition congruence).
  apply okst_bind; [apply read_push_safe|]. intros rw _. cbn [okst].
  unfold st_ok. cbn [ps_frames f_end f_item_off f_item set_frames frame_close frame_close_frames].
  intuition congruence.
Qed.

Lemma arm_item_ok buf s : st_ok s -> okst (arm_item buf s).
Proof.
  intro H. unfold arm_item.
  apply okst_bind; [apply i32_at_safe|]. intros [id r] _.
  apply okst_bind; [apply expect_id_safe|]. intros _ _. cbv zeta.
  destruct (f_item (ps_frames s)) as [items|] eqn:E3; [|exact I].
  apply okst_bind; [apply read_push_safe|]. intros rw _. cbn [okst].
  unfold st_ok in *. cbn [ps_frames f_end f_item_off f_item set_frames].
  rewrite E3 in H. intuition congruence.
Qed.

Lemma handle_known_ok code buf s : st_ok s -> okst (handle_known code buf s).
Proof.
  intro H. unfold handle_known.
  repeat match goal with |- context [if ?c then _ else _] => destruct c end;
    try exact I; try exact H;
    auto using arm_gecko_ok, arm_end_ok, arm_fstart_ok, arm_pre_ok, arm_post_ok, arm_fend_ok, arm_item_ok.
Qed.

Definition okcs (x : outcome (N * pstate)) : Prop :=
  match x with Ok (_, s') => st_ok s' | Err _ => True | Panic _ => False | Fuel => False end.

Lemma handle_event_ok code buf s : st_ok s -> okcs (handle_event code buf s).
Proof.
  intro H. unfold handle_event. destruct (N.eqb code Event_MessageSplitter).
  - destruct (negb _); [exact I|]. cbv zeta. destruct (_ <? _)%N; [exact I|].
    destruct (negb (N.eqb (b2n (nth 515 buf x00)) 0)).
    + match goal with |- context [handle_known ?c ?b ?t] =>
        pose proof (handle_known_ok c b t (st_ok_split _ _ _ H)) as K; destruct (handle_known c b t) end;
        cbn [bind okcs okst] in *; auto.
    + cbn [okcs]. apply st_ok_split. exact H.
  - pose proof (handle_known_ok code buf s H) as K.
    destruct (handle_known code buf s); cbn [bind okcs okst] in *; auto.
Qed.

(* ------------------------------------------------------------------------------------------------ *)
(* 4. the incremental API                                                                           *)
(* ------------------------------------------------------------------------------------------------ *)

Lemma parse_header_good bs : good TT bs (parse_header bs).
Proof.
  unfold parse_header. eapply good_pbind; [apply good_expect_bytes|].
  intros _ r _ _ _. apply good_rd_be.
Qed.

Theorem parse_header_safe bs : safe (parse_header bs).
Proof. eapply good_safe. apply parse_header_good. Qed.

Lemma table_entries_safe k : forall buf acc, safe (table_entries k buf acc).
Proof.
  induction k as [|k IH]; intros buf acc; cbn [table_entries]; [exact I|].
  destruct buf as [|c [|h [|l r]]]; try exact I. cbv zeta.
  destruct (N.eqb _ 0); [exact I | apply IH].
Qed.

Lemma parse_payloads_good bs :
  good (fun p _ => lookup_size (snd p) Event_GameEnd <> None) bs (parse_payloads bs).
Proof.
  unfold parse_payloads. eapply good_pbind; [apply good_rd_u8|].
  intros code r _ _ _. destruct (negb (N.eqb code Event_Payloads)); [apply good_fail|].
  eapply good_pbind; [apply good_rd_u8|].
  intros size r1 _ _ _. destruct (negb (N.eqb (size mod 3) 1)); [apply good_fail|].
  eapply good_pbind; [apply good_rd_exact|].
  intros buf r2 _ _ _. cbv beta.
  pose proof (table_entries_safe (N.to_nat ((size - 1) / 3)) buf []) as Hs.
  destruct (table_entries _ buf []) as [sizes| | |]; cbn [safe] in Hs; try contradiction; [|exact I].
  destruct (lookup_size sizes Event_GameStart); [|exact I].
  destruct (lookup_size sizes Event_GameEnd) eqn:E; [|exact I].
  cbn [good snd]. split; [rewrite E; discriminate | apply sfx_refl].
Qed.

Lemma parse_game_start_good sizes br bs : good TT bs (parse_game_start sizes br bs).
Proof.
  unfold parse_game_start. eapply good_pbind; [apply good_rd_u8|].
  intros code r _ _ _. destruct (lookup_size sizes code) as [size|]; [|apply good_fail].
  eapply good_pbind; [apply good_rd_exact|].
  intros buf r1 _ _ _. destruct (N.eqb code Event_GameStart); [|apply good_fail].
  destruct (game_start buf); [apply good_ret; exact I | apply good_fail | apply good_fail].
Qed.

Lemma parse_start_good bs :
  good (fun s _ => st_ok s /\ lookup_size (ps_sizes s) Event_GameEnd <> None) bs (parse_start bs).
Proof.
  unfold parse_start. eapply good_pbind; [apply parse_payloads_good|].
  intros [br sizes] r _ Hq _. cbn [snd] in Hq.
  eapply good_pbind; [apply parse_game_start_good|].
  intros [br2 st] r1 _ _ _. cbv zeta. apply good_ret. split; [apply st_ok_new | exact Hq].
Qed.

Theorem parse_start_safe bs : safe (parse_start bs).
Proof. eapply good_safe. apply parse_start_good. Qed.

Theorem parse_start_ok bs s rest :
  parse_start bs = Ok (s, rest) -> st_ok s /\ lookup_size (ps_sizes s) Event_GameEnd <> None.
Proof. intro E. exact (proj1 (good_ok _ _ _ _ _ (parse_start_good bs) E)). Qed.

Theorem parse_start_consumes bs s rest : parse_start bs = Ok (s, rest) -> exists used, bs = used ++ rest.
Proof. intro E. exact (proj2 (good_ok _ _ _ _ _ (parse_start_good bs) E)). Qed.

(* parse_event: the postcondition includes strict progress *)
Lemma parse_event_good s bs : st_ok s ->
  good (fun cs rest => st_ok (snd cs) /\ ps_sizes (snd cs) = ps_sizes s /\ (length rest < length bs)%nat)
       bs (parse_event s bs).
Proof.
  intro H. unfold parse_event. eapply good_pbind; [apply good_rd_u8|].
  intros code r E _ _. apply rd_u8_ok in E as [b0 ->].
  destruct (lookup_size (ps_sizes s) code) as [size|]; [|apply good_fail].
  eapply good_pbind; [apply good_rd_exact|].
  intros buf r1 _ _ S1. cbv beta.
  pose proof (handle_event_ok code buf s H) as K.
  destruct (handle_event code buf s) as [[c' s']| | |] eqn:E; cbn [okcs] in K; try contradiction; [|exact I].
  apply handle_event_env in E. destruct E as (Es & _).
  cbn [good snd]. split; [|apply sfx_refl].
  split; [apply st_ok_bytes; exact K|]. split; [exact Es|].
  apply sfx_length in S1. cbn [List.length]. lia.
Qed.

Theorem parse_event_safe s bs : st_ok s -> safe (parse_event s bs).
Proof. intro H. eapply good_safe. apply parse_event_good. exact H. Qed.

Theorem parse_event_ok s bs c s' rest : st_ok s -> parse_event s bs = Ok (c, s', rest) ->
  st_ok s' /\ ps_sizes s' = ps_sizes s /\ (length rest < length bs)%nat.
Proof. intros H E. exact (proj1 (good_ok _ _ _ _ _ (parse_event_good s bs H) E)). Qed.

Theorem parse_event_consumes s bs c s' rest : st_ok s -> parse_event s bs = Ok (c, s', rest) ->
  exists used, bs = used ++ rest.
Proof. intros H E. exact (proj2 (good_ok _ _ _ _ _ (parse_event_good s bs H) E)). Qed.

Lemma parse_metadata_good s bs : good TT bs (parse_metadata s bs).
Proof.
  unfold parse_metadata. eapply good_pbind; [apply good_expect_bytes|].
  intros _ r _ _ _. cbv beta.
  pose proof (read_map_total r) as T.
  destruct (read_map r) as [[m r']| | |] eqn:E; try contradiction; [|exact I].
  cbn [good]. split; [exact I|]. apply read_map_consumes in E as [used [E _]]. exists used. exact E.
Qed.

Theorem parse_metadata_safe s bs : safe (parse_metadata s bs).
Proof. eapply good_safe. apply parse_metadata_good. Qed.

Theorem parse_metadata_consumes s bs s' rest : parse_metadata s bs = Ok (s', rest) -> exists used, bs = used ++ rest.
Proof. intro E. exact (proj2 (good_ok _ _ _ _ _ (parse_metadata_good s bs) E)). Qed.

(* ------------------------------------------------------------------------------------------------ *)
(* 5. the event loop                                                                                *)
(* ------------------------------------------------------------------------------------------------ *)

Theorem event_loop_safe : forall fuel raw_len s bs, st_ok s -> (length bs < fuel)%nat ->
  safe (event_loop fuel raw_len s bs).
Proof.
  induction fuel as [|f IH]; intros raw_len s bs H Hl; [lia|].
  cbn [event_loop]. destruct (N.eqb raw_len 0 || (ps_bytes_read s <? raw_len)%N); [|exact I].
  pose proof (parse_event_safe s bs H) as Hs.
  destruct (parse_event s bs) as [[[c s'] r]| | |] eqn:E; cbn [safe] in Hs; try contradiction; [|exact I].
  destruct (N.eqb c Event_GameEnd); [exact I|].
  apply (parse_event_ok s bs c s' r H) in E as (H' & _ & Hr). apply IH; [exact H' | lia].
Qed.

Lemma event_loop_ok_sfx : forall fuel raw_len s bs s' rest, st_ok s ->
  event_loop fuel raw_len s bs = Ok (s', rest) ->
  st_ok s' /\ ps_sizes s' = ps_sizes s /\ sfx rest bs.
Proof.
  induction fuel as [|f IH]; intros raw_len s bs s' rest H; cbn [event_loop]; [discriminate|].
  destruct (N.eqb raw_len 0 || (ps_bytes_read s <? raw_len)%N).
  - destruct (parse_event s bs) as [[[c s1] r]| | |] eqn:E; try discriminate.
    pose proof (parse_event_ok s bs c s1 r H E) as (H1 & Hz & _).
    pose proof (parse_event_consumes s bs c s1 r H E) as S1.
    destruct (N.eqb c Event_GameEnd).
    + intro K. inversion K; subst. auto.
    + intro K. apply IH in K as (K1 & K2 & K3); [|exact H1].
      split; [exact K1|]. split; [congruence|]. eapply sfx_trans; [exact K3 | exact S1].
  - intro K. inversion K; subst. split; [exact H|]. split; [reflexivity | apply sfx_refl].
Qed.

Theorem event_loop_ok : forall fuel raw_len s bs s' rest, st_ok s ->
  event_loop fuel raw_len s bs = Ok (s', rest) ->
  st_ok s' /\ ps_sizes s' = ps_sizes s /\ (length rest <= length bs)%nat.
Proof.
  intros fuel raw_len s bs s' rest H E. apply event_loop_ok_sfx in E as (A & B & C); [|exact H].
  split; [exact A|]. split; [exact B | apply sfx_length; exact C].
Qed.

Lemma event_loop_good fuel raw_len s bs : st_ok s -> (length bs < fuel)%nat ->
  good (fun s' _ => st_ok s' /\ ps_sizes s' = ps_sizes s) bs (event_loop fuel raw_len s bs).
Proof.
  intros H Hl. pose proof (event_loop_safe fuel raw_len s bs H Hl) as Hs.
  destruct (event_loop fuel raw_len s bs) as [[s' r]| | |] eqn:E; cbn [safe] in Hs; try contradiction; [|exact I].
  apply event_loop_ok_sfx in E as (A & B & C); [|exact H]. cbn [good]. auto.
Qed.

(* ------------------------------------------------------------------------------------------------ *)
(* 6. the one-shot reader                                                                           *)
(* ------------------------------------------------------------------------------------------------ *)

Lemma sfx_nil bs : sfx [] bs.
Proof. exists bs. symmetry. apply app_nil_r. Qed.

Lemma sfx_drop_upto n bs : sfx (drop_upto n bs) bs.
Proof. unfold drop_upto. destruct (_ <=? _)%N; [apply sfx_nil | apply sfx_skipn]. Qed.

Lemma good_rd_exact_N n bs : good TT bs (rd_exact_N n bs).
Proof. unfold rd_exact_N. destruct (_ <? _)%N; [exact I | apply good_rd_exact]. Qed.

Theorem slp_read_good o bs0 : good TT bs0 (slp_read o bs0).
Proof.
  unfold slp_read.
  eapply good_bind; [apply parse_header_good | apply sfx_refl |].
  intros raw_len bs1 _ _ S1. cbv beta iota.
  eapply good_bind; [apply parse_start_good | exact S1 |].
  intros s1 bs2 _ [Hs1 Hsz] S2. cbv beta iota.
  (* the skip step *)
  eapply (good_bind (fun s' _ => st_ok s')) with (bs1 := bs2); [| exact S2 |].
  { destruct (o_skip o); [|cbn [good]; split; [exact Hs1 | apply sfx_refl]].
    destruct (lookup_size (ps_sizes s1) Event_GameEnd) as [esz|]; [|contradiction Hsz; reflexivity].
    cbv zeta. destruct (N.eqb raw_len 0 || (raw_len <? ps_bytes_read s1 + (1 + esz))%N); [exact I|].
    cbn [good]. split; [apply st_ok_bytes; exact Hs1 | apply sfx_drop_upto]. }
  intros s2 bs3 _ Hs2 S3. cbv beta iota.
  eapply good_bind; [apply (event_loop_good (S (length bs3)) raw_len s2 bs3 Hs2); lia | exact S3 |].
  intros s3 bs4 _ _ S4. cbv beta iota zeta.
  set (s4 := if vlt (ver s3) 3 0 then frame_close s3 else s3). clearbody s4.
  (* the unread tail of the raw element *)
  eapply (good_bind TT) with (bs1 := bs4); [| exact S4 |].
  { destruct (ps_bytes_read s4 <? raw_len)%N; [|cbn [good]; split; [exact I | apply sfx_refl]].
    eapply good_bind; [apply good_rd_exact_N | apply sfx_refl |].
    intros buf r _ _ Sr. cbv beta iota.
    destruct (_ && _); cbn [good]; split; auto; exact I. }
  intros s5 bs5 _ _ S5. cbv beta iota.
  eapply good_bind; [apply good_rd_u8 | exact S5 |].
  intros b bs6 _ _ S6. cbv beta iota.
  eapply (good_bind TT) with (bs1 := bs6); [| exact S6 |].
  { destruct (N.eqb b 85).
    - eapply good_bind; [apply parse_metadata_good | apply sfx_refl |].
      intros s6 r _ _ Sr. cbv beta iota.
      eapply good_bind; [apply good_expect_bytes | exact Sr |].
      intros [] r' _ _ Sr'. cbv beta iota. cbn [good]. split; [exact I | exact Sr'].
    - destruct (N.eqb b 125); [cbn [good]; split; [exact I | apply sfx_refl] | exact I]. }
  intros s7 bs7 _ _ S7. cbv beta iota.
  cbn [good]. split; [exact I | exact S7].
Qed.

(* THE main theorem: all inputs, all options *)
Theorem slp_read_safe o bs : safe (slp_read o bs).
Proof. eapply good_safe. apply slp_read_good. Qed.

(* the one-shot reader only consumes: what it returns as unread is a suffix of its input *)
Theorem slp_read_consumes o bs g rest : slp_read o bs = Ok (g, rest) -> exists used, bs = used ++ rest.
Proof. intro E. exact (proj2 (good_ok _ _ _ _ _ (slp_read_good o bs) E)). Qed.

Print Assumptions parse_header_safe.
Print Assumptions parse_start_safe.
Print Assumptions parse_start_ok.
Print Assumptions parse_event_safe.
Print Assumptions parse_event_ok.
Print Assumptions parse_metadata_safe.
Print Assumptions event_loop_safe.
Print Assumptions event_loop_ok.
Print Assumptions slp_read_safe.
Print Assumptions slp_read_consumes.
