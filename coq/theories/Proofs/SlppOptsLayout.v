(* The option defaults of the .slpp entry points: what `peppi::write(w, game, None)` and `peppi::read(r, None)` do, read off the
   tables that tools/rust2coq.py regenerates from src/io/peppi/ser.rs / src/io/peppi/de.rs (Gen/SlppOptsSrc.v: `struct Opts` of
   either file with the values of `Opts::default()`, and the ONE use of `opts` in fn write / fn read,
   `opts.map_or(<default>, |o| o.<field>)`), tied to
   - the hand model's conventions: Model/Slpp.v [slpp_write] takes the compression itself ([CNone] = no compression) and
     [slpp_read] takes the skip flag itself; "no options" is [CNone] / [false] (as in Proofs/SlppWriteLayout.v [comp_of_opts],
     Proofs/SlppReadLayout.v [skip_of_opts]; this file does not depend on those two, so each fails on its own);
   - Model/Api.v: the archive prediction [api_slpp_archive] and [api_entry_names] (what the differential run compares with a
     real `write(.., None)`) are the model's writer under the compression the source uses WITHOUT options;
   - the tables of the writer / reader front ends (Gen/SlppWriteSrc.v slpp_arrow_compression, Gen/SlppReadSrc.v
     slpp_frames_skip_default / _field), which were read from the same two expressions independently.
   Also: passing `Some(&Opts::default())` is the same as passing None, on both sides.

   If the source changes a default (compress when no options are given, skip frames when no options are given), makes
   Opts::default() differ from the None case, or consults another field, the regenerated tables change and these theorems no
   longer hold.  Model/Api.v has no .slpp READ entry point of its own (the round-trip properties use [slpp_read .. false]
   directly); [de_none_from_source] is the tie for that `false`. *)
From Coq Require Import List Arith NArith ZArith Lia Bool String.
From Coq.Strings Require Import Byte.
From Peppi Require Import Base.Bytes Base.Outcome Gen.Funs Gen.SlppWriteSrc Gen.SlppReadSrc Gen.SlppOptsSrc Model.Ubjson Model.Start
  Model.Json Model.Parse Model.Reader Model.Slpp Model.Api.
Import ListNotations.
Local Open Scope string_scope.

Fixpoint field_val (fields : list (string * oval)) (k : string) : option oval :=
  match fields with
  | [] => None
  | (n, v) :: r => if String.eqb n k then Some v else field_val r k
  end.

(* the value `opts.map_or(<default>, |o| o.<field>)` takes; an Opts value is given by its fields *)
Definition opts_use (none : string * oval) (o : option (list (string * oval))) : option oval :=
  match o with
  | None => Some (snd none)
  | Some fields => field_val fields (fst none)
  end.

Definition comp_of_oval (v : oval) : option compression :=
  match v with OvNone => Some CNone | OvSomeLz4 => Some CLz4 | OvSomeZstd => Some CZstd | OvBool _ => None end.
Definition bool_of_oval (v : oval) : option bool := match v with OvBool b => Some b | _ => None end.

(* ---- the writer ---- *)
Definition ser_comp (o : option (list (string * oval))) : option compression :=
  match opts_use slpp_ser_opts_none o with Some v => comp_of_oval v | None => None end.

Theorem ser_none_from_source :
  ser_comp None = Some CNone /\                                       (* no options: no compression *)
  ser_comp (Some slpp_ser_opts_default) = ser_comp None /\            (* Some(&Opts::default()) is the same *)
  map fst slpp_ser_opts_fields = ["compression"] /\ fst slpp_ser_opts_none = "compression".
Proof. repeat split; vm_compute; reflexivity. Qed.

(* the two readings of `opts.map_or(None, |o| o.compression)` (front ends (x) and (aa), independently) agree *)
Definition wcompv_of_oval (v : oval) : option wcompv :=
  match v with OvNone => Some WvNone | OvSomeLz4 => Some WvLz4 | OvSomeZstd => Some WvZstd | OvBool _ => None end.

Theorem ser_agrees_from_source :
  option_map (fun d => WzOptsMapOr d (fst slpp_ser_opts_none)) (wcompv_of_oval (snd slpp_ser_opts_none)) = Some slpp_arrow_compression.
Proof. vm_compute. reflexivity. Qed.

(* Model/Api.v: the predicted archive and the predicted entry names (what the differential run compares with a real
   `write(.., None)`) are those of the model's writer under the compression the source uses when no options are given *)
Theorem api_slpp_archive_from_source g hash meta_blob start_blob end_blob frames_blob :
  Some (api_slpp_archive g hash meta_blob start_blob end_blob frames_blob) =
  option_map (fun c => es <- slpp_write peppi_json (fun _ => meta_blob) (fun _ => start_blob) (fun _ => end_blob)
                                        (fun _ _ _ _ => Ok frames_blob) c {| sg_game := g; sg_hash := hash |} ;;
                       Ok (tar_bytes es))
             (ser_comp None).
Proof. reflexivity. Qed.

Theorem api_entry_names_from_source g :
  Some (api_entry_names g) =
  option_map (fun c => match slpp_write (fun _ _ _ => []) (fun _ => []) (fun _ => []) (fun _ => []) (fun _ _ _ _ => Ok []) c
                                        {| sg_game := g; sg_hash := None |} with
                       | Ok es => map fst es
                       | _ => []
                       end)
             (ser_comp None).
Proof. reflexivity. Qed.

(* ---- the reader ---- *)
Definition de_skip (o : option (list (string * oval))) : option bool :=
  match opts_use slpp_de_opts_none o with Some v => bool_of_oval v | None => None end.

Theorem de_none_from_source :
  de_skip None = Some false /\                                        (* no options: the frames are read *)
  de_skip (Some slpp_de_opts_default) = de_skip None /\               (* Some(&Opts::default()) is the same *)
  map fst slpp_de_opts_fields = ["skip_frames"] /\ fst slpp_de_opts_none = "skip_frames".
Proof. repeat split; vm_compute; reflexivity. Qed.

Theorem de_agrees_from_source : (slpp_frames_skip_field, OvBool slpp_frames_skip_default) = slpp_de_opts_none.
Proof. vm_compute. reflexivity. Qed.

(* the reader the round-trip properties use, [slpp_read .. false], is the reader under the flag the source uses when no
   options are given *)
Theorem slpp_read_default_from_source dp dm df es :
  Some (slpp_read dp dm df false es) = option_map (fun skip => slpp_read dp dm df skip es) (de_skip None).
Proof. reflexivity. Qed.

Print Assumptions ser_none_from_source.
Print Assumptions ser_agrees_from_source.
Print Assumptions api_slpp_archive_from_source.
Print Assumptions api_entry_names_from_source.
Print Assumptions de_none_from_source.
Print Assumptions de_agrees_from_source.
Print Assumptions slpp_read_default_from_source.
