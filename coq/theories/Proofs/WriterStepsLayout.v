(* The top-level sequence of slippi::write (src/io/slippi/ser.rs fn write): the hand model Model/Writer.v [slp_write] is the
   interpretation of the step list that tools/rust2coq.py regenerates from the Rust text (Gen/WriterSteps.v), in source order:
   version check, payload_sizes, file signature, u32 raw size, Payloads code, table length byte, table entries, Game Start, gecko
   blocks, frames, Game End (once or twice), metadata block, closing brace.

   If the source reorders two statements, drops or adds one, changes the table-length formula, the entry layout, the metadata
   prefix / suffix bytes or the final byte, the regenerated list changes and [slp_write_from_source] no longer holds. *)
From Coq Require Import List Arith NArith ZArith Lia Bool String.
From Coq.Strings Require Import Byte.
From Peppi Require Import Base.Bytes Base.Outcome Base.Stream Layout.Syntax Gen.Funs Gen.WriterSteps Layout.Sem Layout.Rows
  Model.Ubjson Model.Start Model.Json Model.Parse Model.Reader Model.Writer.
Import ListNotations.
Notation length := (@List.length _) (only parsing).
Local Open Scope string_scope.
Local Open Scope list_scope.
Local Open Scope N_scope.

Ltac ev_term x := let v := eval vm_compute in x in progress change x with v.

Fixpoint code_of (tbl : list (string * N)) (name : string) : option N :=
  match tbl with
  | [] => None
  | (n, c) :: r => if String.eqb n name then Some c else code_of r name
  end.
Definition ws_ecode (e : string) : N := match code_of ws_event_codes e with Some c => c | None => 0 end.

Definition is_double (g : game) : bool := match g_quirk g with Some true => true | _ => false end.

(* game_end(w, end, ver): the event code, then the retained bytes *)
Definition one_end (e : end_t) : list byte := ev (ws_ecode ws_game_end_event) ++ en_bytes e.

(* the statements in order; [sizes] is the value bound by `let payload_sizes = ..` (empty before that statement).  A statement
   that can fail (return an error or panic) does so before any later statement is looked at; the bytes are what has been
   written to w when the function returns Ok. *)
Fixpoint ws_go (steps : list wstep) (g : game) (sizes : list (N * N)) : outcome (list byte) :=
  match steps with
  | [] => Ok []
  | st :: r =>
    match st with
    | WsAssertMaxVersion =>
        if negb (assert_max_version_ok (st_version (g_start g))) then Err EInvalid else ws_go r g sizes
    | WsPayloadSizes => s <- payload_sizes g ;; ws_go r g s
    | WsSignature => b <- ws_go r g sizes ;; Ok (sig_slp ++ b)
    | WsRawSizeU32 => rs <- raw_size sizes g ;; b <- ws_go r g sizes ;; Ok (be_enc 4 (rs mod 4294967296) ++ b)
    | WsCode e => b <- ws_go r g sizes ;; Ok (ev (ws_ecode e) ++ b)
    | WsTableLenU8 k c =>
        _ <- (if 255 <? nn (length sizes) * k + c then Panic 412 else Ok tt) ;;
        b <- ws_go r g sizes ;; Ok ([n2b (nn (length sizes) * k + c)] ++ b)
    | WsTable event_first =>
        b <- ws_go r g sizes ;;
        Ok (flat_map (fun p => if event_first then n2b (fst p) :: be_enc 2 (snd p) else be_enc 2 (snd p) ++ [n2b (fst p)]) sizes ++ b)
    | WsGameStart => b <- ws_go r g sizes ;; Ok (ev (ws_ecode ws_game_start_event) ++ st_bytes (g_start g) ++ b)
    | WsGecko =>
        gk <- (match g_gecko g with Some c => gecko_blocks (S (length (gk_bytes c))) 0 c | None => Ok [] end) ;;
        b <- ws_go r g sizes ;; Ok (gk ++ b)
    | WsFrames => fr <- write_frames (st_version (g_start g)) (g_frames g) ;; b <- ws_go r g sizes ;; Ok (fr ++ b)
    | WsGameEnd => b <- ws_go r g sizes ;; Ok (match g_end g with Some e => one_end e | None => [] end ++ b)
    | WsGameEndIfDouble =>
        b <- ws_go r g sizes ;;
        Ok (match g_end g with Some e => if is_double g then one_end e else [] | None => [] end ++ b)
    | WsMetadata pre post =>
        md <- (match g_meta g with
               | Some m => mb <- write_map m ;; Ok (map n2b pre ++ mb ++ map n2b post)
               | None => Ok []
               end) ;;
        b <- ws_go r g sizes ;; Ok (md ++ b)
    | WsBytes bs => b <- ws_go r g sizes ;; Ok (map n2b bs ++ b)
    end
  end.

Definition slp_write_of_steps (steps : list wstep) (g : game) : outcome (list byte) := ws_go steps g [].

(* FULL equality: the hand model evaluates its fallible parts (version check, payload_sizes, raw_size, the 255 bound of the table
   length byte, gecko blocks, frames, metadata) in the order of the source statements, so errors and panics coincide too. *)
Theorem slp_write_from_source g : slp_write g = slp_write_of_steps write_steps g.
Proof.
  unfold slp_write, slp_write_of_steps, write_steps. cbv zeta. cbn [ws_go].
  unfold one_end, is_double.
  repeat match goal with
         | |- context [ws_ecode ?e] => ev_term (ws_ecode e)
         | |- context [map n2b ?l] => ev_term (map n2b l)
         end.
  destruct (negb (assert_max_version_ok (st_version (g_start g)))); [reflexivity|].
  destruct (payload_sizes g) as [sizes| | |]; cbn [bind]; try reflexivity.
  destruct (raw_size sizes g) as [rs| | |]; cbn [bind]; try reflexivity.
  destruct (255 <? nn (length sizes) * 3 + 1); cbn [bind]; [reflexivity|].
  destruct (match g_gecko g with Some c => gecko_blocks (S (length (gk_bytes c))) 0 c | None => Ok [] end) as [gk| | |];
    cbn [bind]; try reflexivity.
  destruct (write_frames (st_version (g_start g)) (g_frames g)) as [fr| | |]; cbn [bind]; try reflexivity.
  destruct (g_meta g) as [m|]; [destruct (write_map m) as [mb| | |]|]; cbn [bind]; try reflexivity;
    destruct (g_end g) as [e|]; [destruct (g_quirk g) as [[|]|]| |destruct (g_quirk g) as [[|]|]|];
    cbn [app]; rewrite <- ?app_assoc; cbn [app]; reflexivity.
Qed.

Print Assumptions slp_write_from_source.
