(* UBJSON reader / writer bodies: what the hand model Model/Ubjson.v does inside its steps -- the width, signedness and byte
   order of every integer it reads or writes, the four steps of to_utf8 (length prefix, buffer, read_exact, strict UTF-8
   validation), the recursion-depth guard with the depths passed around, the length prefix and the integer conversion of the
   writer -- restated THROUGH the definitions that tools/rust2coq.py regenerates from src/io/ubjson/de.rs and ser.rs
   (Gen/UbjsonBodies.v).  The marker bytes are tied separately (Gen/UbjsonMarkers.v, Proofs/UbjsonLayout.v); here they appear as
   the hand model's constants xU / xS / xl / xOpen / xClose, so that this file depends on Gen/UbjsonBodies.v alone.

   If the source reads the length with another width / signedness, the integer with another width / signedness / byte order,
   tests the depth with another comparison or constant, starts at or passes on another depth, prefixes another length, or
   converts differently, the regenerated definitions change (or the translator fails) and these equalities no longer hold. *)
From Coq Require Import List Arith NArith ZArith Lia Bool String ZifyBool ZifyN ZifyNat.
From Coq.Strings Require Import Byte.
From Peppi Require Import Base.Bytes Base.Outcome Gen.Funs Gen.UbjsonBodies Model.Utf8 Model.Ubjson Model.Json.
Import ListNotations.
Notation length := (@List.length _) (only parsing).
Local Open Scope string_scope.
Local Open Scope list_scope.

(* ---------------------------------------------------------------------------------------------------------
   integer accesses: (width in bytes, signed, big-endian) *)
Definition rw := (nat * bool * bool)%type.
Definition rw_w (a : rw) : nat := fst (fst a).
Definition rw_signed (a : rw) : bool := snd (fst a).
Definition rw_be (a : rw) : bool := snd a.

(* the bit pattern of the next [w] bytes in the stated order; None when fewer remain (read_exact fails) *)
Definition rd_int (a : rw) (bs : list byte) : option (N * list byte) :=
  if (length bs <? rw_w a)%nat then None
  else Some (be_dec (if rw_be a then firstn (rw_w a) bs else rev (firstn (rw_w a) bs)), skipn (rw_w a) bs).
(* the same as a marker byte (meaningful for one-byte reads) *)
Definition rd_marker (a : rw) (bs : list byte) : option (byte * list byte) :=
  match rd_int a bs with Some (n, r) => Some (n2b n, r) | None => None end.
(* `<pattern> as usize`: a negative signed value becomes a huge length *)
Definition len_val (a : rw) (n : N) : N :=
  if rw_signed a && (256 ^ N.of_nat (rw_w a) / 2 <=? n)%N then (n + (2 ^ 64 - 256 ^ N.of_nat (rw_w a)))%N else n.
(* the value of a pattern read with that signedness *)
Definition int_val (a : rw) (n : N) : Z := if rw_signed a then sint (rw_w a) n else Z.of_N n.
(* the bytes written for a pattern *)
Definition wr_int_bytes (a : rw) (n : N) : list byte := if rw_be a then be_enc (rw_w a) n else rev (be_enc (rw_w a) n).
Definition fits (a : rw) (n : N) : bool := (n <? 256 ^ N.of_nat (rw_w a))%N.

Lemma rd_marker_u8 bs : rd_marker (1%nat, false, true) bs = match bs with [] => None | c :: r => Some (c, r) end.
Proof.
  destruct bs as [|c r]; [reflexivity|].
  unfold rd_marker, rd_int, rw_w, rw_be. cbn [fst snd List.length Nat.ltb Nat.leb firstn skipn].
  unfold be_dec. cbn [be_dec_acc]. change (0 * 256 + b2n c)%N with (b2n c). rewrite n2b_b2n. reflexivity.
Qed.

(* ---------------------------------------------------------------------------------------------------------
   to_utf8: the steps in order over the registers (length, buffer, remaining input) *)
Record ustate := { us_len : N; us_buf : list byte; us_rest : list byte }.

Fixpoint utf8_run (steps : list ub_utf8_step) (st : ustate) : outcome (list byte * list byte) :=
  match steps with
  | [] => Err EInvalid
  | UsReadLen a :: r =>
      match rd_int a (us_rest st) with
      | None => Err EIo
      | Some (n, rest) => utf8_run r {| us_len := len_val a n; us_buf := us_buf st; us_rest := rest |}
      end
  | UsAllocLen :: r => utf8_run r {| us_len := us_len st; us_buf := repeat x00 (N.to_nat (us_len st)); us_rest := us_rest st |}
  | UsReadExact :: r =>
      let len := length (us_buf st) in
      if (length (us_rest st) <? len)%nat then Err EIo
      else utf8_run r {| us_len := us_len st; us_buf := firstn len (us_rest st); us_rest := skipn len (us_rest st) |}
  | UsFromUtf8Strict :: r =>
      match r with
      | [] => if utf8_valid (us_buf st) then Ok (us_buf st, us_rest st) else Err EUtf8
      | _ => Err EInvalid
      end
  end.
Definition rd_str_tbl (bs : list byte) : outcome (list byte * list byte) :=
  utf8_run ubj_to_utf8_steps {| us_len := 0; us_buf := []; us_rest := bs |}.

Theorem rd_str_from_source bs : rd_str bs = rd_str_tbl bs.
Proof.
  unfold rd_str, rd_str_tbl, ubj_to_utf8_steps.
  destruct bs as [|n r]; [reflexivity|].
  cbn [utf8_run us_len us_buf us_rest].
  unfold rd_int, rw_w, rw_be, len_val, rw_signed. cbn [fst snd List.length Nat.ltb Nat.leb firstn skipn andb].
  unfold be_dec. cbn [be_dec_acc]. change (0 * 256 + b2n n)%N with (b2n n).
  cbn [utf8_run us_len us_buf us_rest]. rewrite repeat_length. reflexivity.
Qed.

(* ---------------------------------------------------------------------------------------------------------
   one step of read_map_at's loop with every read, the depth guard and the depths from the tables *)
Definition entries_step_bodies (rec : N -> utree -> list byte -> outcome (utree * list byte))
           (depth : N) (acc : utree) (bs : list byte) : outcome (utree * list byte) :=
  match rd_marker ubj_key_marker_read bs with
  | None => Err EIo
  | Some (c, r) =>
    if Byte.eqb c xU then
      '(k, r1) <- rd_str_tbl r ;;
      match rd_marker ubj_val_marker_read r1 with
      | None => Err EIo
      | Some (t, r2) =>
        let dv := ubj_depth_to_val depth in            (* to_val(r, <dv>) *)
        if Byte.eqb t xS then
          match rd_marker ubj_str_len_marker_read r2 with
          | None => Err EIo
          | Some (u, r3) =>
            if Byte.eqb u xU then
              '(s, r4) <- rd_str_tbl r3 ;; rec depth (insert k (UStr s) acc) r4
            else Err EInvalid
          end
        else if Byte.eqb t xl then
          match rd_int ubj_int_read r2 with
          | None => Err EIo
          | Some (n, r3) => rec depth (insert k (UInt n) acc) r3
          end
        else if Byte.eqb t xOpen then
          let dn := ubj_depth_nested dv in              (* read_map_at(r, <dn>), which tests <dn> on entry *)
          if ubj_depth_refused dn then Err EInvalid
          else '(m, r3) <- rec dn [] r2 ;; rec depth (insert k (UMap m) acc) r3
        else Err EInvalid
      end
    else if Byte.eqb c xClose then Ok (acc, r)
    else Err EInvalid
  end.

Theorem entries_bodies_from_source f depth acc bs :
  entries (S f) depth acc bs = entries_step_bodies (entries f) depth acc bs.
Proof.
  cbn [entries]. unfold entries_step_bodies.
  unfold ubj_key_marker_read, ubj_val_marker_read, ubj_str_len_marker_read, ubj_int_read,
         ubj_depth_to_val, ubj_depth_nested, ubj_depth_refused.
  cbv zeta.
  destruct bs as [|c r]; [reflexivity|]. rewrite rd_marker_u8.
  destruct (Byte.eqb c xU); [|reflexivity].
  rewrite <- rd_str_from_source.
  destruct (rd_str r) as [[k r1]| | |]; cbn [bind]; try reflexivity.
  destruct r1 as [|t r2]; [reflexivity|]. rewrite rd_marker_u8.
  destruct (Byte.eqb t xS).
  { destruct r2 as [|u r3]; [reflexivity|]. rewrite rd_marker_u8.
    destruct (Byte.eqb u xU); [|reflexivity]. rewrite <- rd_str_from_source. reflexivity. }
  destruct (Byte.eqb t xl).
  { unfold rd_int, rw_w, rw_be. cbn [fst snd]. destruct (length r2 <? 4)%nat; reflexivity. }
  reflexivity.
Qed.

(* read_map: the guard on entry and the depth the top-level map is read at *)
Theorem read_map_from_source bs :
  read_map bs = if ubj_depth_refused ubj_depth_initial then Err EInvalid
                else entries (S (length bs)) ubj_depth_initial [] bs.
Proof. reflexivity. Qed.

(* the guard is `depth > MAX_DEPTH` with the regenerated constant: exactly the depths 1 .. MAX_DEPTH are read *)
Theorem depth_guard_from_source depth :
  ubj_depth_refused depth = (UBJSON_MAX_DEPTH <? depth)%N /\ ubj_depth_nested depth = (depth + 1)%N /\
  ubj_depth_to_val depth = depth /\ ubj_depth_initial = 1%N /\ UBJSON_MAX_DEPTH = 127%N.
Proof. repeat split. Qed.

(* the integer is an i32: the JSON number is the signed reading of the stored pattern *)
Theorem int_json_from_source n : jv_of_uval (UInt n) = JInt (int_val ubj_int_read n) /\ ubj_int_conv = UnNumberFrom.
Proof. split; reflexivity. Qed.

(* ---------------------------------------------------------------------------------------------------------
   writer *)
Definition wr_str_tbl (s : list byte) : outcome (list byte) :=
  let n := match ubj_wr_len_source with UlByteLen => N.of_nat (length s) end in      (* s is the list of the BYTES of the &str *)
  let out := xU :: wr_int_bytes ubj_wr_len_write n ++ s in
  match ubj_wr_len_conv with
  | UcCheckedUnwrap => if fits ubj_wr_len_write n then Ok out else Panic 101
  | UcTruncatingCast => Ok out
  end.

Theorem wr_str_bodies_from_source s : wr_str s = wr_str_tbl s.
Proof.
  unfold wr_str, wr_str_tbl, ubj_wr_len_source, ubj_wr_len_conv, ubj_wr_len_write, fits, wr_int_bytes, rw_w, rw_be.
  cbn [fst snd be_enc app]. cbv zeta.
  change (256 ^ N.of_nat 0)%N with 1%N. rewrite N.div_1_r.
  change (256 ^ N.of_nat 1)%N with 256%N.
  destruct (Nat.ltb_spec 255 (length s)) as [H|H]; destruct (N.ltb_spec (N.of_nat (length s)) 256) as [H'|H'];
    try reflexivity; lia.
Qed.

Definition wr_number_tbl (n : N) : outcome (list byte) :=
  let out := xl :: wr_int_bytes ubj_wr_int_write n in
  match ubj_wr_int_conv with
  | UcCheckedUnwrap => if fits ubj_wr_int_write n then Ok out else Panic 102
  | UcTruncatingCast => Ok out
  end.

Theorem write_number_from_source n : write_val (UInt n) = wr_number_tbl n.
Proof.
  unfold wr_number_tbl, ubj_wr_int_conv, ubj_wr_int_write, fits, wr_int_bytes, rw_w, rw_be. cbn [fst snd write_val]. cbv zeta.
  change (256 ^ N.of_nat 4)%N with 4294967296%N. reflexivity.
Qed.

(* what the writer writes is what the reader reads back: same width / signedness / byte order for the length prefix and
   for the integer *)
Theorem ubjson_rw_agree_from_source :
  ubj_to_utf8_steps = [UsReadLen ubj_wr_len_write; UsAllocLen; UsReadExact; UsFromUtf8Strict] /\
  ubj_int_read = ubj_wr_int_write /\
  ubj_key_marker_read = (1%nat, false, true) /\ ubj_val_marker_read = (1%nat, false, true) /\
  ubj_str_len_marker_read = (1%nat, false, true).
Proof. repeat split. Qed.

Print Assumptions rd_str_from_source.
Print Assumptions entries_bodies_from_source.
Print Assumptions read_map_from_source.
Print Assumptions depth_guard_from_source.
Print Assumptions int_json_from_source.
Print Assumptions wr_str_bodies_from_source.
Print Assumptions write_number_from_source.
Print Assumptions ubjson_rw_agree_from_source.
