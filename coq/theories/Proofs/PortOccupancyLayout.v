(* port_occupancy: the hand model Model/Start.v [port_occupancy] restated THROUGH the pieces that tools/rust2coq.py
   regenerates from the text of src/game/mod.rs fn port_occupancy (Gen/PortOccupancySrc.v): the list that is iterated
   (in order), the player field copied into `port`, the player field the `follower` flag is computed from, and the
   flag's expression (through the expression front end; ICE_CLIMBERS is the regenerated constant of Gen/Funs.v).

   If the source iterates another list or in another order, copies another field, or tests another field / constant /
   comparison, the regenerated definitions change (or the translator fails) and the equality below no longer holds. *)
From Coq Require Import List Arith NArith Bool String.
From Coq.Strings Require Import Byte.
From Peppi Require Import Base.Bytes Base.Outcome Gen.Funs Gen.PortOccupancySrc Model.Start.
Import ListNotations.
Local Open Scope string_scope.

(* the fields of game::Player the table may name (numbers are bit patterns, as in Model/Start.v) *)
Definition player_field (name : string) (p : player) : N :=
  if String.eqb name "port" then pl_port p
  else if String.eqb name "character" then pl_character p
  else if String.eqb name "type" then pl_type p
  else if String.eqb name "stocks" then pl_stocks p
  else if String.eqb name "costume" then pl_costume p
  else if String.eqb name "handicap" then pl_handicap p
  else if String.eqb name "bitfield" then pl_bitfield p
  else 0%N.

(* the lists of game::Start the table may name *)
Definition start_list (name : string) (s : start_t) : list player :=
  if String.eqb name "players" then st_players s else [].

Definition port_occupancy_tbl (s : start_t) : list (N * bool) :=
  map (fun p => (player_field port_occupancy_port_field p,
                 port_occupancy_follower (player_field port_occupancy_follower_field p)))
      (start_list port_occupancy_source s).

Theorem port_occupancy_from_source s : port_occupancy s = port_occupancy_tbl s.
Proof.
  unfold port_occupancy, port_occupancy_tbl.
  change (start_list port_occupancy_source s) with (st_players s).
  apply map_ext. intro p.
  change (player_field port_occupancy_port_field p) with (pl_port p).
  change (player_field port_occupancy_follower_field p) with (pl_character p).
  unfold port_occupancy_follower. reflexivity.
Qed.

(* the constant, as regenerated (Nana/Popo: external character id 14) *)
Theorem ice_climbers_from_source : ICE_CLIMBERS = 14%N.
Proof. reflexivity. Qed.

Print Assumptions port_occupancy_from_source.
Print Assumptions ice_climbers_from_source.
