(* The ties between the hand model of the .slp WRITER and the tables regenerated from the Rust source on this run (see ReaderTies.v). *)
From Coq Require Import List Arith NArith ZArith Bool String.
From Coq.Strings Require Import Byte.
From Peppi Require Import Base.Bytes Base.Outcome Base.Stream Gen.Funs Model.Ubjson Model.Start Model.Parse Model.Reader Model.Writer.
From Peppi Require Proofs.SplitterLayout Proofs.UbjsonBodiesLayout Proofs.WriterStepsLayout Proofs.WriterLayout Proofs.FrameWriteLayout
  Proofs.WriterRawLayout.
From Peppi Require Gen.Splitter Gen.WriterSteps Gen.WriterSizes Gen.FrameWrite Gen.WriterRaw.
Import ListNotations.

(* ---- the .slp writer: the statement sequence of write(), the payload-size table, the raw length, the frame writer, the gecko
   blocks, the metadata writer ---- *)
Definition writer_tied : Prop :=
  (forall g, slp_write g = WriterStepsLayout.slp_write_of_steps WriterSteps.write_steps g) /\
  (forall g, payload_sizes g = WriterLayout.payload_sizes_of_tbl WriterSizes.payload_sizes_src_tbl g) /\
  (forall fr, frame_counts fr = WriterRawLayout.frame_counts_tbl WriterRaw.frame_counts_fields fr) /\
  (forall v fr idx id, write_frame v fr idx id = FrameWriteLayout.write_frame_tbl FrameWrite.frame_write_steps v fr idx id) /\
  (forall fuel pos c, gecko_blocks fuel pos c = SplitterLayout.gecko_blocks_tbl Splitter.gecko_write_steps fuel pos c) /\
  (forall s, wr_str s = UbjsonBodiesLayout.wr_str_tbl s) /\
  (forall n, write_val (UInt n) = UbjsonBodiesLayout.wr_number_tbl n).

Theorem writer_tied_holds : writer_tied.
Proof.
  exact (conj WriterStepsLayout.slp_write_from_source
         (conj WriterLayout.payload_sizes_from_source
         (conj WriterRawLayout.frame_counts_from_source
         (conj FrameWriteLayout.write_frame_from_source
         (conj SplitterLayout.gecko_blocks_from_source
         (conj UbjsonBodiesLayout.wr_str_bodies_from_source UbjsonBodiesLayout.write_number_from_source)))))).
Qed.

Print Assumptions writer_tied_holds.
