(* The ties between the hand model of the .slp READER and the tables regenerated from the Rust source on this run, collected in one
   statement.  A property whose theorems speak about what the reader model does restates [reader_tied] in its own file: it then
   depends on every regenerated table of the reader, and a source change that makes one of those front ends fail, or makes one of
   these equalities false of the unchanged hand model, breaks an obligation of that property -- while front ends of unrelated code
   (the writer, the Arrow glue, version text, rollbacks, ...) do not. *)
From Coq Require Import List Arith NArith ZArith Bool String.
From Coq.Strings Require Import Byte.
From Peppi Require Import Base.Bytes Base.Outcome Base.Stream Gen.Funs Model.Ubjson Model.Start Model.Parse Model.Reader Model.Writer.
From Peppi Require Proofs.ReadLayout Proofs.ParseLayout Proofs.SplitterLayout Proofs.ReadPrologueLayout Proofs.StartWiringLayout
  Proofs.UbjsonLayout Proofs.UbjsonBodiesLayout Proofs.StartLayout.
Import ListNotations.

(* ---- the .slp reader: one-shot read, each incremental entry point, the event dispatch with the splitter, the Game Start wiring, the
   metadata reader ---- *)
Definition reader_tied : Prop :=
  (forall o bs, slp_read o bs = ReadLayout.slp_read_src o bs) /\
  (forall bs, parse_header bs = ReadPrologueLayout.parse_header_src bs) /\
  (forall bs, parse_start bs = ReadPrologueLayout.parse_start_src bs) /\
  (forall s, parse_event s = ParseLayout.parse_event_src s) /\
  (forall code buf s, handle_known code buf s = ParseLayout.handle_known_src code buf s) /\
  (forall code buf s, handle_event code buf s = SplitterLayout.handle_event_src code buf s) /\
  (forall blk, game_start blk = StartWiringLayout.game_start_wired blk) /\
  (forall f depth acc bs, entries (S f) depth acc bs = UbjsonLayout.entries_step_src (entries f) depth acc bs) /\
  (forall f depth acc bs, entries (S f) depth acc bs = UbjsonBodiesLayout.entries_step_bodies (entries f) depth acc bs) /\
  (forall bs, rd_str bs = UbjsonBodiesLayout.rd_str_tbl bs).

Theorem reader_tied_holds : reader_tied.
Proof.
  exact (conj ReadLayout.slp_read_from_source
         (conj ReadPrologueLayout.parse_header_from_source
         (conj ReadPrologueLayout.parse_start_from_source
         (conj ParseLayout.parse_event_from_source
         (conj ParseLayout.handle_known_from_source
         (conj SplitterLayout.handle_event_from_source
         (conj StartWiringLayout.game_start_wiring_from_source
         (conj UbjsonLayout.entries_from_source
         (conj UbjsonBodiesLayout.entries_bodies_from_source UbjsonBodiesLayout.rd_str_from_source))))))))).
Qed.

Print Assumptions reader_tied_holds.
